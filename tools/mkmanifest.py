#!/usr/bin/env python3
"""Regenerates /verif/MANIFEST.json from the table below (single source, so it always validates)."""
import json, sys

GOENV = "GOFLAGS=-mod=mod GOPROXY=off GOSUMDB=off GOTOOLCHAIN=local"

CHECKS = {
 "C10": dict(
  text="Stateful property-based testing: generated histories of topology edits (valid and invalid arguments) are applied to the real Bondmachine and to a reference model of named bonds; well-formedness and bond-set equality are checked after every edit. Held on everything generated; not a proof.",
  note="Trusted: the reference model in harness/c10 (written from the statement and the documented renumbering), rapid's generators. Negative ids are outside the domain.",
  technique="property-based testing (rapid), stateful/model-based generation of edit histories against a reference model"),
 "C01": dict(
  category="translation_validation",
  text="Per-program differential validation: for generated architectures (Rsize 8..64, R=1..3, N/M/L/O, WordSize overrides, opcode subsets of the co-implemented table, OnlyDestRegs with requirements derived from the program) and generated programs with in-range operands and per-retire input vectors, the text returned by Arch/Conproc/Rom/Ram.Write_verilog is executed clock by clock by /verif's Verilog interpreter and compared with procbuilder.VM after every retired instruction (pc, all registers, output registers); the optimised HDL must agree as well. A second entry is an opcode-exhaustive structured sweep under the same oracle: every row of the co-implemented table x register size x R in 1..3 x port count / jump-ladder length x a grid of boundary data, one program per grid point executing the opcode once for every operand combination (quick: one data point per stratum chosen by VERIF_SEED, thorough: the whole grid of 6504 programs). Found the single-operand shift defect of the simulator (fixed) and D12 (recorded).",
  note="Trusted: /verif's Verilog interpreter (assumptions A1 power-up zero, A2 delays ignored), the co-implemented table (harness/c01/table.go), the retire-point definition. Opcodes outside the table are not compared.",
  technique="differential property-based testing (rapid): emitted HDL under an interpreter vs the ISA simulator, lock-step at retire points; metamorphic check optimised vs unoptimised HDL; bounded-exhaustive structured generation (opcode x width x operand sweep) under the same oracle"),
 "C02": dict(
  category="translation_validation",
  text="Per-machine differential validation: generated multi-processor machines (built through the public editing API; i2rw/r2owa IO, fan-out, mixed external/internal sources) are rendered by the real Bondmachine.Write_verilog into a scratch directory, the file set is executed by /verif's Verilog interpreter under a protocol-abiding environment (generated input streams, gaps, output stalls) and the value sequences accepted on every external output are compared prefix-wise with bondmachine.VM under the same environment; the AST of the top module is checked to connect exactly the bonds (data, valid) and each received line must be the conjunction of exactly its sinks' received lines. Runs that enter the region of a recorded handshake finding are counted as excluded. Processors have up to five inputs and outputs (port fields of 1-3 bits in every combination), processor order may differ from domain order, and the simulator side may run under a single-valued per-opcode delay map (the 'regardless of how many cycles' clause).",
  note="Trusted: /verif's Verilog interpreter, the environment model shared by both runners, the monitors classifying D4/D5/D12. Horizons differ, so streams are compared up to the shorter one.",
  technique="differential property-based testing (rapid) of emitted top-level HDL vs simulation on output streams + structural netlist oracle on the parsed AST"),
 "C03": dict(
  text="Property-based testing of the instruction encoder over every statically registered opcode and one instance of every dynamic family: generated architectures (R=1, single-bit port fields, WordSize overrides, all modes) and operand tuples in and out of range; oracle: error, or a word of exactly Max_word bits over {0,1} whose disassembly equals the line by value, re-assembly of the disassembly gives the word back, and out-of-range operands are rejected. Plus generated/mutated raw lines and a native fuzz target (thorough). Found D1 and the tsp defects (fixed in /repo); one open finding (64-bit immediates disassemble negative).",
  note="Trusted: the per-opcode operand-kind table in harness/c03/operand_kinds.go (read from each opcode's Assembler), numeric comparison of operands. Shared-object opcodes are covered with generated Shared_constraints.",
  technique="property-based testing (rapid): round-trip and range-rejection oracles over generated architectures and lines; native go fuzz"),
 "C04": dict(
  text="Property-based testing of the handshake in the simulator world: generated producer/consumer programs (strictly increasing counter, nop padding, fan-out 1..3, fixed per-opcode delays, environment stalls, back-to-back writes) run on bondmachine.VM; after every tick each consumer's captured sequence must be a prefix of the offered sequence and the producer must not move past a write a consumer has not captured. Two genuine defects (D4, D5) are recorded as known findings, recognised by precondition monitors and excluded so search continues behind them. The same machines and invariant are run in the generated-hardware world (files of Bondmachine.Write_verilog under /verif's Verilog interpreter, observation at the processors' _pc/_rN); the hardware shares D4 (recorded as D4h). Further entries: two producers feeding one consumer that reads both inputs back to back (sim_join/hdl_join), and arbitrary dataflow graphs with up to five ports per processor side where every bond (processor-processor, external-processor, processor-external) is judged with the same invariant in both worlds (sim_graph/hdl_graph).",
  note="Trusted: observation at the processors (PC leaving i2rw/r2owa, register values), the precondition monitors that classify D4/D4h/D5 (a duplicate is excused only by D4, a loss only by D5), /verif's Verilog interpreter for the hardware world.",
  technique="property-based testing (rapid) with a history invariant checked every tick; known-finding monitors"),
 "C05": dict(
  text="Grammar-based property testing of the assembler's semantics: generated BASM sources (sections with entry, several labels per instruction, random control flow over j/jz with label operands, pseudo-instructions, literals in every integer notation, 0-argument macros in several shapes, 1..3 CPs wired by ioatt, four CLI switch sets, register sizes 8..64) are assembled in-process by the exact call sequence of cmd/basm and simulated; per external output the value stream must equal that of an independent reference interpreter of the SOURCE TEXT (prefix-wise, plus a progress bound). Three genuine defects (D6 entry ignored, macro io-mode leak, trailing-label leak) are recorded as known findings and excluded by construction.",
  note="Trusted: the reference interpreter harness/c05/ref.go (never calls the assembler, the number importer or the simulator), the Go simulator for the faithful opcodes used, the multi-CP triage that separates the handshake findings of C04.",
  technique="grammar-based property testing (rapid): reference-interpreter differential on output streams; native go fuzz of the parser (thorough)"),
 "C06": dict(
  text="Property-based testing of fragment graphs: generated DAGs of integer fragment instances (fan-out, links crossing CP boundaries, register-name clashes, the same fragment collapsed twice) are assembled by the real basm pipeline for several partitions each (finest, coarsest, random, collapse lists in topological order) and simulated; every partition's external outputs must equal the direct evaluation of the dataflow graph by an independent evaluator. One genuine defect class (sync-mode deadlock of some partitions) is recorded as a known finding, predicted by a model of the composer's static IO order and excluded so the search continues.",
  note="Trusted: the reference evaluator harness/c06/ref.go, the rendezvous model that recognises the recorded deadlock class, the Go simulator for the faithful opcodes used.",
  technique="property-based testing (rapid): reference-model oracle (dataflow evaluation) + metamorphic relation across partitions"),
 "C07": dict(
  text="Generated-input search for nondeterminism: grammar-generated BASM sources (sections, CPs, fragments, macros, dynamic opcodes, cluster output, chooser/pass/optimisation flags), neural nets (both neuralbond modes, then basm), quantum circuits (bmqsim flavours, then basm), Go-subset programs (bondgo incl. -mpm) and machines for HDL generation are each run N times as fresh child processes of the real CLIs with varied GOMAXPROCS, and twice in-process on fresh instances; every output file, stdout and exit status must be byte-identical. Found five map-iteration-order nondeterminisms (all fixed in /repo). The bondmachine entry also draws board flavours that write bondmachine_main.v, with and without BMAPI (uartusb, aximm, all ports mapped) and UART pin maps; generated BASM sources carry shared objects with boundary parameters. The in-process basm and neuralbond entries also run under the Go race detector (a report in the tool's code is a violation: goroutines sharing what goes into the artefact).",
  note="Trusted: the byte comparison (timestamps stripped, crash dumps cut after the panic line). A nondeterminism with per-run probability p is missed with (1-p)^(N-1); rarer orders are out of reach.",
  technique="property-based testing (rapid): metamorphic run-to-run equality over repeated fresh-process and in-process executions of generated inputs; race detector as sanitizer on the in-process entries"),
 "C08": dict(
  text="Property-based testing of the number library: (a) strings generated from every notation's regular language (plus mutations and a corpus) are run through every matcher: at most one may accept; (b) export/import round-trip on bits, type and width for every supported type and boundary-weighted values, ExportBinaryNBits/ExportVerilogBinary width laws; (c) sized literals import to the stated width or are rejected. Native fuzzing of ImportString in the thorough tier. Found D2 and the sized-hex storage defect (both fixed) and four round-trip defects recorded as known findings.",
  note="Trusted: the deterministic matcher scan in harness/c08 (ImportString's map walk is bypassed), bit-level comparison. Disjointness of the notations is searched, not proved.",
  technique="property-based testing (rapid): language-directed string generation with cross-matching, round-trip oracle; native go fuzz"),
 "C09": dict(
  text="Property-based testing over generated multi-processor machines, stimuli, seeded schedule perturbation (verif-tagged yield hook, GOMAXPROCS 1..16) and concurrency plans (copies of the same machine sharing one Bondmachine, different machines, concurrent SinglePipelineSimulate): the per-tick digest of the complete VM state must equal the solo unperturbed run; the same binary runs under the Go race detector (a report is a violation). Exploration of schedules, not exhaustive. Found D7 and D11 (both fixed in /repo).",
  note="Trusted: digest covers processors' PC/registers/memory/ports/flags/deferred and extra state and all bond registers; the race detector; schedules the hook and GOMAXPROCS cannot provoke are not explored.",
  technique="property-based testing (rapid) with injected-yield schedule fuzzing, differential against the solo run, plus the race detector as sanitizer"),
 "C11": dict(
  text="Property-based testing of save/load: random single machines and BondMachines built through the public API (all static opcodes, one instance per dynamic family, modes, WordSize, Threaded, every shared-object kind with multi-attachment, fan-out, shared and unused domains) plus simulatable handshake machines are saved and reloaded by the CLI sequence (half of the loads in a fresh registry, some without linear-quantizer ranges); oracle: nothing dropped, reflection walk of the live structs equal, save(load(save)) byte-identical, a reflection-found field perturbation must change the JSON and survive (catches fields forgotten in the *_json types), simulation digests equal, regenerated Verilog byte-identical on a sampled share; plus a sweep of every opcode/dynamic name. Found the silent nil-opcode load (fixed in /repo).",
  note="Trusted: the reflection walk with its documented exemptions (nil=empty slice, caches set by Write_verilog), the registry reset that makes each case independent.",
  technique="property-based testing (rapid): round-trip oracle with reflection-driven structural equality and field perturbation; bounded sweep over opcodes"),
 "C12": dict(
  text="Property-based testing of the Go-subset compiler through its real CLI: grammar-generated programs (register and RAM variables, + * ==, ++/--, if/for/switch, inlined functions, IO, a share of unsupported operators that must be rejected, -mpm workers and channels) are compiled as child processes under a hard deadline for several forced schedule plans (verif-tagged scheduling points + GOMAXPROCS): the compiler must terminate, emit byte-identical assembly and machine JSON across plans, and — where the emitted machine uses faithfully simulated opcodes — write the same output streams as an independent AST evaluator of the source with wrap-around. Found D8 (hang) and a map-order nondeterminism (both fixed) and four miscompilation classes recorded as known findings. Programs whose only applicable recorded finding is the je placeholder are run again with je executed as jump-if-equal (a difference that remains is a violation); one case in four (half of the -mpm cases) also passes -show-requirements, which must not change the artefacts. Half of the programs are compiled once more by the CLI built with the Go race detector (a report inside the compiler is a violation; its output must equal the other runs').",
  note="Trusted: the reference evaluator harness/c12/ref.go, the hang classifier (goroutine dump), the faithful-opcode list for semantic verdicts. Programs compiling to opcodes the simulator does not model faithfully get termination and determinism verdicts only (channels are modelled).",
  technique="grammar-based property testing (rapid) of the real CLI: reference-interpreter differential, schedule fuzzing through verif-tagged hook points, run-to-run byte equality, race detector as sanitizer"),
 "C13": dict(
  text="The LIFO/FIFO module rendered by BmStack.WriteHDL for generated configurations is executed by /verif's Verilog interpreter under handshake-abiding agents whose per-cycle choices are generated (rapid) and, for the smallest configurations, enumerated exhaustively with memoisation of (circuit registers, agent states, abstract sequence); every cycle is checked against an abstract sequence: discipline, no accept when full / return when empty, flags, ack discipline, bounded wait. The exhaustive slices that closed (frontier emptied) are listed in the evidence; larger ones are bounded by a state budget and sampled.",
  note="Trusted: /verif's Verilog interpreter (2-state, power-up zero; its expression evaluator is property-tested against math/big, and it is validated on hand-derived traces), the agent protocol model. Exhaustiveness holds only for the named slices.",
  technique="model-based property testing (rapid) + bounded-exhaustive input generation on the real emitted HDL against a reference sequence"),
 "C14": dict(
  text="Property-based testing of the quantum front-end through its public path: generated circuits (n=1..5, every gate alias, arbitrary distinct qubit arguments, packed layers) are compiled by QasmToBmMatrices and compared with an independently written reference unitary (textbook gate tables embedded by bit manipulation); every emitted matrix must be unitary and RunSoftwareSimulation must map each basis state to the reference column. Plus a bounded-exhaustive sweep of every single-gate placement for n<=5. Found the displaced-argument defect (fixed in /repo).",
  note="Trusted: the reference tables in harness/c14/ref.go and the qubit-order convention (first declared = MSB, cx a,b controls on a) taken from the README example; float32 tolerance 1e-4 per emitted matrix.",
  technique="property-based testing (rapid) against a reference model + bounded-exhaustive placement enumeration"),
 "C15": dict(
  text="Property-based testing of simulation rules: (a) stateful Add/Del/Suspend/Reactivate/save-load histories over rules generated from the documented grammar: print/parse round-trip by String and by Print, JSON survival, agreement with an independent parser of the grammar; (b) small machines with generated rule lists run through a faithful copy of the -sim loop, through SinglePipelineSimulate and through the real bondmachine -sim binary, judged against a trace predictor written from the docs and the tick convention (set values/valid at tick T, get/show samples, onvalid/onexit events, suspended or deleted rule = absent, independent rules commute). Six documentation-versus-code defects are recorded as known findings and excluded by class.",
  note="Trusted: the trace predictor and its tick convention (taken from the CLI loop where the docs are silent), numeric decoding of reported values. Native fuzz of Simbox.Add in the thorough tier.",
  technique="property-based testing (rapid): round-trip + stateful model for rule lists, reference trace predictor and metamorphic relations for simulations, differential against the real CLI"),
 "C16": dict(
  text="Property-based testing of the front-ends' outputs with an independent well-formedness validator written from the statement: BASM sources with operands and lengths at power-of-two boundaries (all CLI switch sets, romsize/ramsize overrides, data sections, shared objects), fragment graphs, neural nets through neuralbond, circuits through bmqsim, Go-subset programs through the bondgo CLI, and deliberately unfittable sources which must be rejected. Every emitted machine must have full-width binary ROM words that decode to its opcodes, adequate register file/ports/ROM/RAM for everything program and source mention, a sorted duplicate-free opcode list, equal register sizes, ConstraintCheck and a well-formed bond graph. Found five defects (all fixed in /repo).",
  note="Trusted: the validator harness/c16/wf.go (uses only ConstraintCheck, Max_word and the opcodes' own Disassembler from the repository), the generators' knowledge of what the source mentions. Adequacy only, never minimality.",
  technique="property-based testing (rapid) with a validity-predicate oracle over front-end outputs; rejection oracle for unfittable inputs"),
 "C17": dict(
  text="Property-based testing over generated machines and batch plans (sequential and concurrent callers of SinglePipelineSimulate / Fitness_default): goroutine accounting after a settle loop must not grow with the number of finished simulations. Exploration; found D9 (fixed in /repo).",
  note="Trusted: runtime.NumGoroutine and the settle loop; retained heap is reported only through the goroutine count (a leaked worker pins its VM).",
  technique="property-based testing (rapid) with a resource-accounting invariant over generated batch histories"),
 "C18": dict(
  text="Property-based and bounded-exhaustive lint of generated HDL: random machines (all static opcodes, every dynamic family, modes ha/vn/hy, Threaded 0..3, every shared-object kind attached to 1..3 processors, OnlyDestRegs/CommentedVerilog) and a sweep (every opcode alone and with nop at two register sizes, every shared-object kind x attachments x modes) are rendered by the real Bondmachine.Write_verilog into a scratch directory and every file is parsed and linted by /verif's Verilog front end for exactly the six error classes of the statement. The unchanged tree has 86 distinct lint signatures (about 31 mechanisms): all are recorded as known findings with one minimal configuration each; a diagnostic with an unrecorded signature is a violation.",
  note="Trusted: /verif's Verilog front end as the approximation of 'a standard Verilog front end' (IEEE 1364-2001, no implicit nets); signature-level recording means a second defect with the identical signature as a recorded one is masked.",
  technique="property-based testing (rapid) + bounded-exhaustive feature sweep with an in-house Verilog parser/linter as the oracle"),
}

PENDING = {
}

HOOK_COMMITS = ["ab27f8d", "598a995", "dffc40c"]

def main():
    checks = []
    for pid in sorted(CHECKS):
        c = CHECKS[pid]
        checks.append({
            "property_id": pid,
            "quick_cmd": f"bin/check {pid} quick",
            "thorough_cmd": f"bin/check {pid} thorough",
            "evidence_file": f"/verif/evidence/{pid}.json",
            "replay_cmd_template": f"bin/check {pid} --replay {{path}}",
            "engine": c.get("engine", "pbt"),
            "level_claimed": {"category": c.get("category", "exploration"), "text": c["text"], "design_ref": f"DESIGN.md §3 {pid}"},
            "level_note": c["note"],
            "technique": c["technique"],
        })
    served = sorted(CHECKS)
    m = {
        "version": 1,
        "setup_cmd": f"cd /verif/harness && {GOENV} go build -o /verif/.build/checkd ./cmd/checkd && {GOENV} go vet ./pbt/ ./cmd/checkd/",
        "hooks": {
            "guard": "verif",
            "enable": "go build/test -tags verif (bin/check always passes -tags verif when compiling /repo)",
            "baseline_off_cmd": f"cd /repo && {GOENV} go test -json -vet=off -count=1 -timeout 25m ./...",
            "source_commits": HOOK_COMMITS,
            "add_only": True,
        },
        "engines": [
            {"name": "pbt", "path": "harness/pbt", "serves_properties": served, "kind_free_text": "rapid v1.3.0 runner: case = JSON data, property = pure function, stats/replay writer"},
            {"name": "checkd", "path": "harness/cmd/checkd", "serves_properties": served, "kind_free_text": "driver: builds test binaries against /repo's working tree with -tags verif, shards by seed, replay tier, merges evidence, known-findings matching"},
            {"name": "vlog", "path": "harness/vlog", "serves_properties": [p for p in served if p in ("C01","C02","C04","C12","C13","C18")], "kind_free_text": "Verilog-2001 subset parser, lint, elaborator and 2-state cycle simulator written for this task (no Verilog tool is installed)"},
        ],
        "checks": checks,
        "not_applicable": [{"property_id": p, "reason": r} for p, r in sorted(PENDING.items()) if p not in CHECKS],
        "notes": "All checks are property-based testing / fuzzing (rapid, native go fuzz, bounded-exhaustive generators); see DESIGN.md. known_findings.json lists recorded and fixed defects.",
    }
    json.dump(m, open("/verif/MANIFEST.json", "w"), indent=1)
    print("wrote MANIFEST.json with", len(checks), "checks")

main()
