#!/bin/bash
# tools/seedrecheck.sh <seeded-name e.g. C17-A or C10-r2-B> [tier] — re-run the property's check against a stored seeded change.
set -u
N=$1; TIER=${2:-quick}; P=${N%%-*}
WT=/tmp/reseed-$N
export GOFLAGS=-mod=mod GOPROXY=off GOSUMDB=off GOTOOLCHAIN=local
git -C /repo worktree add -f $WT HEAD >/dev/null 2>&1 || { echo "cannot create worktree"; exit 2; }
cd $WT
if ! git apply --check /verif/seeded/$N/patch.diff 2>/dev/null; then echo "RECHECK $N patch-does-not-apply (repo moved on)"; cd /; git -C /repo worktree remove --force $WT; exit 3; fi
git apply /verif/seeded/$N/patch.diff
( cd /verif && VERIF_REPO=$WT bin/check $P $TIER > /tmp/reseed-$N.log 2>&1 ); C=$?
cd /; git -C /repo worktree remove --force $WT
echo "RECHECK $N check_exit=$C $(grep -E '^(VIOLATION|OK|INCONCLUSIVE)' /tmp/reseed-$N.log | head -1 | cut -c1-120)"
