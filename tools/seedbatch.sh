#!/bin/bash
# usage: tools/seedbatch.sh <logfile> "<P X>" ...
log=$1; shift
cd /verif
for x in "$@"; do set -- $x; ROUND=${ROUND:-3} tools/seedtest.sh $1 $2 > /tmp/$1r${ROUND:-3}$2.log 2>&1; echo "== $x $(grep -E '^RESULT' /tmp/$1r${ROUND:-3}$2.log)" >> $log; grep -E "^(VIOLATION|FAILURE|OK|INCONCLUSIVE)" /tmp/seed-out/$1-r${ROUND:-3}/$2/check.log | head -2 | cut -c1-300 >> $log; done
