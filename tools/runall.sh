#!/bin/bash
# tools/runall.sh [quick|thorough] [seed] — run every registered check on /repo, print a summary.
TIER=${1:-quick}; export VERIF_SEED=${2:-1}
cd /verif
for id in $(python3 -c "import json;print(' '.join(c['property_id'] for c in json.load(open('MANIFEST.json'))['checks']))"); do
  s=$(date +%s)
  out=$(bin/check $id $TIER 2>&1); rc=$?
  e=$(( $(date +%s) - s ))
  echo "$id rc=$rc ${e}s $(echo "$out" | grep -E '^(OK|VIOLATION|INCONCLUSIVE)' | head -2 | cut -c1-150 | tr '\n' ' ')"
done
