#!/bin/bash
# tools/seedtest.sh <PROP> <A|B> [tier]  — confirm a seeded change and run the property's check against it.
# Uses the scratch worktree /tmp/seed-<PROP> (patch applied there; /repo itself is never touched) via VERIF_REPO.
set -u
P=$1; X=$2; TIER=${3:-quick}
WT=/tmp/seed-$P; SRC=/tmp/seed-out/$P/$X
R=${ROUND:-1}; if [ "$R" != "1" ]; then WT=/tmp/seed$R-$P; SRC=/tmp/seed-out/$P-r$R/$X; fi
export GOFLAGS=-mod=mod GOPROXY=off GOSUMDB=off GOTOOLCHAIN=local
cd $WT || exit 2
git checkout -q -- . ; git clean -fdq
git checkout -q --detach $(git -C /repo rev-parse HEAD)
echo "== demo WITHOUT patch (expect pass)"
( bash $SRC/demo/run.sh >$SRC/demo-without.log 2>&1 ); W0=$?
git checkout -q -- . ; git clean -fdq
if ! git apply --check $SRC/patch.diff 2>/dev/null; then echo "PATCH DOES NOT APPLY to current HEAD"; exit 3; fi
git apply $SRC/patch.diff
echo "== build + tests WITH patch"
go build ./pkg/procbuilder/ ./pkg/bondmachine/ ./pkg/basm/ ./pkg/bmnumbers/ ./pkg/bmstack/ ./pkg/bmqsim/ ./pkg/bmmatrix/ ./pkg/simbox/ ./pkg/bondgo/ ./cmd/basm ./cmd/bondgo ./cmd/bondmachine ./cmd/procbuilder ./cmd/bmqsim ./cmd/neuralbond ./cmd/simbox; B=$?
go test -vet=off -count=1 ./pkg/basm ./pkg/bcof ./pkg/bmline ./pkg/bmnumbers ./pkg/bmreqs ./pkg/bmserialize ./pkg/bmstack ./pkg/bondgo ./pkg/bondirect ./pkg/bondmachine ./pkg/procbuilder ./pkg/simbox 2>&1 | grep -E "^(--- FAIL|FAIL|ok)" | grep -v "^ok" > $SRC/tests-with.log
cat $SRC/tests-with.log
echo "== demo WITH patch (expect fail)"
( bash $SRC/demo/run.sh >$SRC/demo-with.log 2>&1 ); W1=$?
git status --short | grep -v "^ M" | head -3
# demos may leave files behind: remove untracked but keep the patch
git clean -fdq
echo "== check $P $TIER against the patched tree"
( cd /verif && VERIF_REPO=$WT bin/check $P $TIER > $SRC/check.log 2>&1 ); C=$?
grep -E "^(VIOLATION|FAILURE|OK|INCONCLUSIVE|BUILD|KNOWN)" $SRC/check.log | cut -c1-220 | head -6
# (scratch runs write their found-replays under /tmp, nothing to clean in /verif)
git checkout -q -- . ; git clean -fdq
echo "RESULT prop=$P patch=$X build=$B demo_without=$W0 demo_with=$W1 check_exit=$C"
