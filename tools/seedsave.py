#!/usr/bin/env python3
"""tools/seedsave.py <PROP> <A|B> <caught:yes|no|after-strengthening> "<needs>" — store a confirmed seeded change under /verif/seeded/."""
import sys, os, shutil, json, re
P, X, caught, needs = sys.argv[1:5]
import os as _os
RN = _os.environ.get("ROUND", "1")
R2 = RN != "1"
src = f"/tmp/seed-out/{P}-r{RN}/{X}" if R2 else f"/tmp/seed-out/{P}/{X}"
dst = f"/verif/seeded/{P}-r{RN}-{X}" if R2 else f"/verif/seeded/{P}-{X}"
os.makedirs(dst, exist_ok=True)
shutil.copy(f"{src}/patch.diff", f"{dst}/patch.diff")
if os.path.isdir(f"{dst}/demo"):
    shutil.rmtree(f"{dst}/demo")
shutil.copytree(f"{src}/demo", f"{dst}/demo")
if os.path.exists(f"{src}/notes.md"):
    shutil.copy(f"{src}/notes.md", f"{dst}/notes.md")
chk = open(f"{src}/check.log").read() if os.path.exists(f"{src}/check.log") else ""
lines = [l[:300] for l in chk.splitlines() if re.match(r"^(VIOLATION|FAILURE|OK|INCONCLUSIVE)", l)][:4]
meta = {
    "property": P,
    "breaks": open(f"/tmp/seed-out/{P}.property.txt").read().split("\n")[1].replace("title: ", ""),
    "needs_to_manifest": needs,
    "what_i_ran": [
        f"scratch worktree of /repo at HEAD with patch.diff applied (git apply); build + baseline test packages: unchanged results (only the pre-existing bmnumbers TestNumberToBinary fails)",
        "demo/run.sh fails with the patch and passes without it (both confirmed by tools/seedtest.sh)",
        f"VERIF_REPO=<that worktree> bin/check {P} quick (same check as the registered command, pointed at the patched tree so that /repo itself and the concurrently running work are not disturbed)",
    ],
    "check_result": lines,
    "caught_by_check": caught,
}
json.dump(meta, open(f"{dst}/meta.json", "w"), indent=1)
print("saved", dst)
