package c12

// Reference evaluator of the Go subset bondgo compiles: an AST interpreter over go/parser's tree with
// wrap-around at the register size. It is written from Go's semantics, not from the compiler: the only
// compiler facts it knows are the meaning of the bondgo.* primitives (Make/IOWrite/IORead) and that one
// `go f(...)` statement is one more processor.
//
// Observable: for every routine (0 = main, k = the k-th `go` statement in textual execution order) and
// every Output variable of that routine (numbered in declaration order) the sequence of values passed to
// bondgo.IOWrite.

import (
	"fmt"
	"go/ast"
	"go/parser"
	"go/token"
	"sort"
	"strconv"

	"github.com/BondMachineHQ/BondMachine/pkg/bondgo"
)

type refBudget struct {
	MaxEvals  int // AST nodes evaluated per routine
	MaxWrites int // IOWrite calls per routine
}

// refReading selects, construct by construct, the compiler's reading of the source instead of Go's. The
// zero value is Go. The alternative readings are never the oracle: they are used only after a mismatch, to
// decide whether a recorded finding explains it completely (the machine then agrees with the alternative
// reading) or something else is wrong as well.
type refReading struct {
	OctalAsDecimal        bool // 017 read as seventeen
	BreakInSwitchEndsLoop bool // a break whose innermost target is a switch leaves the enclosing for
	SkipEffectCallStmts   bool // f(...) used as a statement does nothing at all
}

// OutKey identifies a source-level output: routine and declaration index of the Output variable in it.
type OutKey struct {
	Routine int
	Idx     int
}

type RoutineRes struct {
	Func    string
	Evals   int
	Writes  int
	Streams map[int][]uint64 // declaration index of the output variable -> values written
	Gids    map[int]int      // declaration index -> global id given to bondgo.Make
	Inner   map[int]bool     // outputs declared inside a called function (not by the routine's own body)
	InGids  map[int]int      // declaration index of the input variable -> global id
	EqTrue  int              // `==` comparisons that evaluated to true
	EqFalse int
	Stopped string // "budget" (normal: the program never ends), "returned"
}

type RefResult struct {
	Routines []RoutineRes
	Vars     int // distinct value variables declared (all routines)
}

type refErr struct{ msg string }

func (e refErr) Error() string { return e.msg }

type stopEval struct{}

type cellKind int

const (
	kVal cellKind = iota
	kOut
	kIn
	kChan
)

type cell struct {
	kind cellKind
	v    uint64
	gid  int
	idx  int
	b    bool     // value is a bool
	ch   *chanObj // kChan
}

// chanObj is an unbuffered channel: a send completes when a receiver has taken the value.
type chanObj struct {
	hasSend bool
	val     uint64
}

// world runs the routines of one program as coroutines: exactly one executes at any moment, the scheduler
// resumes them round-robin and a routine gives control back only where it would block (send / receive) or
// when it ends. With one sender and one receiver per channel and no select the streams do not depend on
// the schedule; the fixed schedule makes the stopping points (budgets) reproducible as well.
type world struct {
	rts      []*interp
	back     chan struct{}
	abort    bool
	progress int
	err      error
	panicked any
}

type scope struct {
	vars  map[string]*cell
	outer *scope
}

func (s *scope) lookup(n string) *cell {
	for x := s; x != nil; x = x.outer {
		if c, ok := x.vars[n]; ok {
			return c
		}
	}
	return nil
}

type ctrl int

const (
	cNone ctrl = iota
	cBreak
	cContinue
	cReturn
	cFallthrough
)

type interp struct {
	funcs  map[string]*ast.FuncDecl
	mask   uint64
	inVals []uint64
	bud    refBudget
	cur    *RoutineRes
	nOut   int
	nIn    int
	goList []string // functions started by `go` (no-argument workers only)
	depth  int
	vars   map[string]bool
	ret    []uint64
	rd     refReading
	w      *world
	wake   chan struct{}
	done   bool
}

func fail(format string, a ...any) { panic(refErr{fmt.Sprintf(format, a...)}) }

func parseSrc(src string) (*token.FileSet, *ast.File, error) {
	fset := token.NewFileSet()
	f, err := parser.ParseFile(fset, "p.go", src, 0)
	return fset, f, err
}

// RefEval interprets the program. err != nil means the program is outside what the evaluator models
// (the caller counts the case as excluded, never as a verdict).
func RefEval(src string, rsize int, inVals []uint64, bud refBudget) (res RefResult, err error) {
	return RefEvalAs(src, rsize, inVals, bud, refReading{})
}

// RefEvalAs interprets the program under the given reading (see refReading).
func RefEvalAs(src string, rsize int, inVals []uint64, bud refBudget, rd refReading) (res RefResult, err error) {
	_, f, perr := parseSrc(src)
	if perr != nil {
		return res, perr
	}
	w := &world{back: make(chan struct{})}
	it := &interp{funcs: map[string]*ast.FuncDecl{}, inVals: inVals, bud: bud, vars: map[string]bool{}, rd: rd, w: w}
	if rsize >= 64 {
		it.mask = ^uint64(0)
	} else {
		it.mask = (uint64(1) << uint(rsize)) - 1
	}
	for _, d := range f.Decls {
		if fd, ok := d.(*ast.FuncDecl); ok {
			it.funcs[fd.Name.Name] = fd
		}
	}
	if it.funcs["main"] == nil {
		return res, refErr{"no main"}
	}
	w.spawn(it, it.funcs["main"], nil)
	// the scheduler: resume every live routine in turn until all have ended or a whole round passes in which
	// nobody did anything (every live routine waits on a channel whose other end will never come)
	for w.err == nil && w.panicked == nil {
		progressed, alive := false, false
		for i := 0; i < len(w.rts) && w.err == nil && w.panicked == nil; i++ { // (the list grows at go statements)
			rt := w.rts[i]
			if rt.done {
				continue
			}
			alive = true
			before := w.progress
			w.resume(rt)
			if w.progress != before || rt.done {
				progressed = true
			}
		}
		if !alive || !progressed {
			break
		}
	}
	w.abort = true
	for _, rt := range w.rts {
		if !rt.done {
			w.resume(rt)
		}
	}
	if w.panicked != nil {
		panic(w.panicked)
	}
	for _, rt := range w.rts {
		res.Routines = append(res.Routines, *rt.cur)
	}
	if w.err != nil {
		return res, w.err
	}
	res.Vars = len(it.vars)
	return res, nil
}

func (w *world) resume(rt *interp) {
	rt.wake <- struct{}{}
	<-w.back
}

// spawn adds a routine (main, or the target of a go statement with its evaluated arguments) and parks it.
func (w *world) spawn(proto *interp, fd *ast.FuncDecl, args []*cell) {
	rt := *proto // configuration and the shared tables; the per-routine state starts empty
	rt.cur = &RoutineRes{Func: fd.Name.Name, Streams: map[int][]uint64{}, Gids: map[int]int{}, InGids: map[int]int{}, Inner: map[int]bool{}}
	rt.nOut, rt.nIn, rt.depth, rt.ret, rt.goList, rt.done = 0, 0, 0, nil, nil, false
	rt.wake = make(chan struct{})
	w.rts = append(w.rts, &rt)
	go func() {
		<-rt.wake
		defer func() {
			if r := recover(); r != nil {
				switch e := r.(type) {
				case stopEval:
					if rt.cur.Stopped == "" {
						rt.cur.Stopped = "budget"
					}
				case refErr:
					if w.err == nil {
						w.err = e
					}
				default:
					w.panicked = r
				}
			}
			rt.done = true
			w.back <- struct{}{}
		}()
		if w.abort {
			rt.cur.Stopped = "not-started"
			panic(stopEval{})
		}
		rt.runRoutine(fd, args)
	}()
}

// yield gives control back to the scheduler; the routine continues when it is resumed.
func (it *interp) yield() {
	it.w.back <- struct{}{}
	<-it.wake
	if it.w.abort {
		it.cur.Stopped = "blocked"
		panic(stopEval{})
	}
}

func paramNames(fd *ast.FuncDecl) (names []string, isChan []bool) {
	if fd.Type.Params == nil {
		return
	}
	for _, p := range fd.Type.Params.List {
		_, ch := p.Type.(*ast.ChanType)
		if _, val := p.Type.(*ast.Ident); !ch && !val {
			fail("parameter type of %s", fd.Name.Name)
		}
		for _, n := range p.Names {
			names = append(names, n.Name)
			isChan = append(isChan, ch)
		}
	}
	return
}

// bindArgs evaluates the arguments of a call or go statement in the caller's scope: a channel parameter
// shares the caller's channel, every other parameter gets the value.
func (it *interp) bindArgs(fd *ast.FuncDecl, args []ast.Expr, sc *scope) (names []string, cells []*cell) {
	names, isChan := paramNames(fd)
	if len(names) != len(args) {
		fail("call arity")
	}
	for i, a := range args {
		if isChan[i] {
			id, ok := a.(*ast.Ident)
			if !ok {
				fail("channel argument is not a name")
			}
			c := sc.lookup(id.Name)
			if c == nil || c.kind != kChan || c.ch == nil {
				fail("channel argument %s", id.Name)
			}
			cells = append(cells, &cell{kind: kChan, ch: c.ch})
			continue
		}
		cells = append(cells, &cell{kind: kVal, v: it.expr(a, sc)})
	}
	return
}

func (it *interp) chanOf(e ast.Expr, sc *scope) *chanObj {
	id, ok := e.(*ast.Ident)
	if !ok {
		fail("channel operand is not a name")
	}
	c := sc.lookup(id.Name)
	if c == nil || c.kind != kChan || c.ch == nil {
		fail("channel operation on %s", id.Name)
	}
	return c.ch
}

func (it *interp) runRoutine(fd *ast.FuncDecl, args []*cell) {
	sc := &scope{vars: map[string]*cell{}}
	names, _ := paramNames(fd)
	if len(names) != len(args) {
		fail("routine %s: %d parameters, %d arguments", fd.Name.Name, len(names), len(args))
	}
	for i, n := range names {
		sc.vars[n] = args[i]
	}
	it.block(fd.Body, sc)
	it.cur.Stopped = "returned"
}

func (it *interp) tick() {
	it.cur.Evals++
	it.w.progress++
	if it.cur.Evals > it.bud.MaxEvals {
		panic(stopEval{})
	}
}

func (it *interp) block(b *ast.BlockStmt, outer *scope) ctrl {
	sc := &scope{vars: map[string]*cell{}, outer: outer}
	return it.stmts(b.List, sc)
}

func (it *interp) stmts(list []ast.Stmt, sc *scope) ctrl {
	for _, s := range list {
		if c := it.stmt(s, sc); c != cNone {
			return c
		}
	}
	return cNone
}

func isBondgoSel(e ast.Expr, name string) bool {
	se, ok := e.(*ast.SelectorExpr)
	if !ok {
		return false
	}
	x, ok := se.X.(*ast.Ident)
	return ok && x.Name == "bondgo" && se.Sel.Name == name
}

func (it *interp) declare(sc *scope, name string, c *cell) {
	if _, dup := sc.vars[name]; dup {
		fail("redeclaration of %s", name)
	}
	sc.vars[name] = c
	if c.kind == kVal {
		it.vars[fmt.Sprintf("%s/%s", it.cur.Func, name)] = true
	}
}

func (it *interp) stmt(s ast.Stmt, sc *scope) ctrl {
	it.tick()
	switch x := s.(type) {
	case *ast.DeclStmt:
		gd, ok := x.Decl.(*ast.GenDecl)
		if !ok || gd.Tok != token.VAR {
			fail("unsupported declaration")
		}
		for _, sp := range gd.Specs {
			vs := sp.(*ast.ValueSpec)
			if len(vs.Values) != 0 {
				fail("var with initialiser")
			}
			for _, n := range vs.Names {
				switch {
				case isBondgoSel(vs.Type, "Output"):
					it.declare(sc, n.Name, &cell{kind: kOut, idx: it.nOut})
					if it.depth > 0 {
						it.cur.Inner[it.nOut] = true
					}
					it.nOut++
				case isBondgoSel(vs.Type, "Input"):
					it.declare(sc, n.Name, &cell{kind: kIn, idx: it.nIn})
					it.nIn++
				default:
					switch t := vs.Type.(type) {
					case *ast.Ident:
						if t.Name == "bool" {
							it.declare(sc, n.Name, &cell{kind: kVal, b: true})
						} else {
							it.declare(sc, n.Name, &cell{kind: kVal})
						}
					case *ast.ChanType:
						it.declare(sc, n.Name, &cell{kind: kChan, ch: &chanObj{}})
					default:
						fail("unsupported var type")
					}
				}
			}
		}
	case *ast.AssignStmt:
		if len(x.Lhs) != len(x.Rhs) {
			fail("assignment arity")
		}
		switch x.Tok {
		case token.ASSIGN:
			type rv struct {
				v   uint64
				gid int
				io  bool
			}
			vals := make([]rv, len(x.Rhs))
			dst := make([]*cell, len(x.Lhs))
			for i := range x.Lhs {
				id, ok := x.Lhs[i].(*ast.Ident)
				if !ok {
					fail("assignment to non-identifier")
				}
				dst[i] = sc.lookup(id.Name)
				if dst[i] == nil {
					fail("assignment to undeclared %s", id.Name)
				}
			}
			for i := range x.Rhs {
				if ce, ok := x.Rhs[i].(*ast.CallExpr); ok && isBondgoSel(ce.Fun, "Make") {
					if len(ce.Args) != 2 {
						fail("Make arity")
					}
					lit, ok := ce.Args[1].(*ast.BasicLit)
					if !ok {
						fail("Make id not literal")
					}
					g, _ := strconv.Atoi(lit.Value)
					vals[i] = rv{gid: g, io: true}
					switch {
					case isBondgoSel(ce.Args[0], "Output"):
						if dst[i].kind != kOut {
							fail("Make(Output) assigned to non-output")
						}
					case isBondgoSel(ce.Args[0], "Input"):
						if dst[i].kind != kIn {
							fail("Make(Input) assigned to non-input")
						}
					default:
						fail("Make kind")
					}
					continue
				}
				if dst[i].kind != kVal {
					fail("assignment of a value to a non-value variable")
				}
				vals[i] = rv{v: it.expr(x.Rhs[i], sc)}
			}
			for i, d := range dst {
				if vals[i].io {
					d.gid = vals[i].gid
					if d.kind == kOut {
						it.cur.Gids[d.idx] = d.gid
					} else {
						it.cur.InGids[d.idx] = d.gid
					}
				} else {
					d.v = vals[i].v
				}
			}
		case token.DEFINE:
			vals := make([]uint64, len(x.Rhs))
			for i := range x.Rhs {
				vals[i] = it.expr(x.Rhs[i], sc)
			}
			for i := range x.Lhs {
				id, ok := x.Lhs[i].(*ast.Ident)
				if !ok {
					fail("define of non-identifier")
				}
				it.declare(sc, id.Name, &cell{kind: kVal, v: vals[i]})
			}
		default:
			fail("unsupported assignment operator %s", x.Tok)
		}
	case *ast.IncDecStmt:
		id, ok := x.X.(*ast.Ident)
		if !ok {
			fail("incdec of non-identifier")
		}
		c := sc.lookup(id.Name)
		if c == nil || c.kind != kVal {
			fail("incdec of %s", id.Name)
		}
		if x.Tok == token.INC {
			c.v = (c.v + 1) & it.mask
		} else {
			c.v = (c.v - 1) & it.mask
		}
	case *ast.BlockStmt:
		return it.block(x, sc)
	case *ast.IfStmt:
		if x.Init != nil {
			// the init statement runs in a scope of its own that encloses the condition and both arms; only
			// plain assignments are modelled (a := here would meet the compiler's recorded scoping findings)
			as, ok := x.Init.(*ast.AssignStmt)
			if !ok || as.Tok != token.ASSIGN {
				fail("if with an init that is not a plain assignment")
			}
			sc = &scope{vars: map[string]*cell{}, outer: sc}
			if c := it.stmt(x.Init, sc); c != cNone {
				return c
			}
		}
		if it.cond(x.Cond, sc) {
			return it.block(x.Body, sc)
		} else if x.Else != nil {
			switch e := x.Else.(type) {
			case *ast.BlockStmt:
				return it.block(e, sc)
			default:
				return it.stmt(e, sc)
			}
		}
	case *ast.ForStmt:
		fsc := &scope{vars: map[string]*cell{}, outer: sc}
		if x.Init != nil {
			if c := it.stmt(x.Init, fsc); c != cNone {
				fail("control flow in for init")
			}
		}
		for {
			it.tick()
			if x.Cond != nil && !it.cond(x.Cond, fsc) {
				break
			}
			c := it.block(x.Body, fsc)
			if c == cBreak {
				break
			}
			if c == cReturn {
				return c
			}
			if c == cFallthrough {
				fail("fallthrough in loop")
			}
			if x.Post != nil {
				it.stmt(x.Post, fsc)
			}
		}
	case *ast.SwitchStmt:
		if x.Init != nil {
			fail("switch with init")
		}
		var tag uint64
		hasTag := x.Tag != nil
		if hasTag {
			tag = it.expr(x.Tag, sc)
		}
		// select the clause
		sel := -1
		def := -1
		for i, cl := range x.Body.List {
			cc := cl.(*ast.CaseClause)
			if cc.List == nil {
				def = i
				continue
			}
			if sel >= 0 {
				continue
			}
			for _, e := range cc.List {
				it.tick()
				if hasTag {
					if it.expr(e, sc) == tag {
						it.cur.EqTrue++
						sel = i
						break
					}
					it.cur.EqFalse++
				} else {
					if it.cond(e, sc) {
						it.cur.EqTrue++
						sel = i
						break
					}
					it.cur.EqFalse++
				}
			}
		}
		if sel < 0 {
			sel = def
		}
		for i := sel; i >= 0 && i < len(x.Body.List); i++ {
			cc := x.Body.List[i].(*ast.CaseClause)
			csc := &scope{vars: map[string]*cell{}, outer: sc}
			c := it.stmts(cc.Body, csc)
			if c == cFallthrough {
				continue
			}
			if c == cBreak {
				if it.rd.BreakInSwitchEndsLoop {
					return cBreak
				}
				return cNone // Go: an unlabelled break inside a switch clause ends the switch
			}
			return c
		}
	case *ast.ExprStmt:
		ce, ok := x.X.(*ast.CallExpr)
		if !ok {
			fail("expression statement")
		}
		if isBondgoSel(ce.Fun, "IOWrite") {
			if len(ce.Args) != 2 {
				fail("IOWrite arity")
			}
			id, ok := ce.Args[0].(*ast.Ident)
			if !ok {
				fail("IOWrite target")
			}
			c := sc.lookup(id.Name)
			if c == nil || c.kind != kOut || c.gid == 0 {
				fail("IOWrite on %s", id.Name)
			}
			v := it.expr(ce.Args[1], sc)
			it.cur.Streams[c.idx] = append(it.cur.Streams[c.idx], v)
			it.cur.Writes++
			if it.cur.Writes >= it.bud.MaxWrites {
				panic(stopEval{})
			}
			return cNone
		}
		if isBondgoSel(ce.Fun, "Void") {
			return cNone
		}
		if id, ok := ce.Fun.(*ast.Ident); ok {
			if it.rd.SkipEffectCallStmts && hasEffect(it.funcs, it.funcs[id.Name], 0) {
				return cNone
			}
			it.call(ce, sc) // results discarded, side effects (IOWrite inside the callee) stay
			return cNone
		}
		fail("unsupported call statement")
	case *ast.ReturnStmt:
		var vals []uint64 // evaluated first: a result expression may itself call (and return from) a function
		for _, r := range x.Results {
			vals = append(vals, it.expr(r, sc))
		}
		it.ret = vals
		return cReturn
	case *ast.BranchStmt:
		if x.Label != nil {
			fail("labelled branch")
		}
		switch x.Tok {
		case token.BREAK:
			return cBreak
		case token.CONTINUE:
			return cContinue
		case token.FALLTHROUGH:
			return cFallthrough
		}
		fail("goto")
	case *ast.GoStmt:
		id, ok := x.Call.Fun.(*ast.Ident)
		if !ok || it.funcs[id.Name] == nil {
			fail("go of unknown function")
		}
		if it != it.w.rts[0] {
			fail("go statement outside main")
		}
		_, cells := it.bindArgs(it.funcs[id.Name], x.Call.Args, sc)
		it.w.spawn(it, it.funcs[id.Name], cells)
	case *ast.SendStmt:
		ch := it.chanOf(x.Chan, sc)
		v := it.expr(x.Value, sc)
		if ch.hasSend {
			fail("two senders on one channel")
		}
		ch.hasSend, ch.val = true, v
		for ch.hasSend { // until a receiver has taken it
			it.yield()
		}
	default:
		fail("unsupported statement %T", s)
	}
	return cNone
}

func (it *interp) cond(e ast.Expr, sc *scope) bool {
	it.tick()
	switch x := e.(type) {
	case *ast.ParenExpr:
		return it.cond(x.X, sc)
	case *ast.Ident:
		switch x.Name {
		case "true":
			return true
		case "false":
			return false
		}
		c := sc.lookup(x.Name)
		if c != nil && c.kind == kVal && c.b {
			return c.v != 0
		}
		fail("non-boolean condition %s", x.Name)
	case *ast.BinaryExpr:
		if x.Op == token.EQL {
			a := it.expr(x.X, sc)
			b := it.expr(x.Y, sc)
			if a == b {
				it.cur.EqTrue++
				return true
			}
			it.cur.EqFalse++
			return false
		}
		fail("unsupported condition operator %s", x.Op)
	}
	fail("unsupported condition %T", e)
	return false
}

func (it *interp) expr(e ast.Expr, sc *scope) uint64 {
	it.tick()
	switch x := e.(type) {
	case *ast.ParenExpr:
		return it.expr(x.X, sc)
	case *ast.BasicLit:
		if x.Kind != token.INT {
			fail("non-integer literal")
		}
		v, err := strconv.ParseUint(x.Value, 0, 64) // base 0: Go's literal syntax (017 is fifteen, 0x, 0b, 0o, 1_0)
		if err != nil {
			fail("literal %s", x.Value)
		}
		if it.rd.OctalAsDecimal && legacyOctal(x.Value) {
			v, _ = strconv.ParseUint(x.Value, 10, 64)
			v &= it.mask
		}
		if v&^it.mask != 0 {
			fail("literal %s overflows the register type", x.Value)
		}
		return v
	case *ast.Ident:
		c := sc.lookup(x.Name)
		if c == nil || c.kind != kVal || c.b {
			fail("use of %s as a value", x.Name)
		}
		return c.v
	case *ast.UnaryExpr:
		if x.Op != token.ARROW {
			fail("unsupported unary operator %s", x.Op)
		}
		ch := it.chanOf(x.X, sc)
		for !ch.hasSend {
			it.yield()
		}
		ch.hasSend = false
		it.w.progress++
		return ch.val
	case *ast.BinaryExpr:
		a := it.expr(x.X, sc)
		b := it.expr(x.Y, sc)
		switch x.Op {
		case token.ADD:
			return (a + b) & it.mask
		case token.MUL:
			return (a * b) & it.mask
		case token.SUB:
			return (a - b) & it.mask
		case token.AND:
			return a & b
		case token.OR:
			return a | b
		case token.XOR:
			return a ^ b
		}
		fail("unsupported operator %s", x.Op)
	case *ast.CallExpr:
		if isBondgoSel(x.Fun, "IORead") {
			if len(x.Args) != 1 {
				fail("IORead arity")
			}
			id, ok := x.Args[0].(*ast.Ident)
			if !ok {
				fail("IORead source")
			}
			c := sc.lookup(id.Name)
			if c == nil || c.kind != kIn || c.gid == 0 {
				fail("IORead on %s", id.Name)
			}
			if c.gid >= len(it.inVals) {
				fail("no value for input %d", c.gid)
			}
			return it.inVals[c.gid] & it.mask
		}
		if _, ok := x.Fun.(*ast.Ident); ok {
			r := it.call(x, sc)
			if len(r) != 1 {
				fail("call used as a value returns %d results", len(r))
			}
			return r[0]
		}
		fail("unsupported call")
	}
	fail("unsupported expression %T", e)
	return 0
}

func (it *interp) call(ce *ast.CallExpr, sc *scope) []uint64 {
	id := ce.Fun.(*ast.Ident)
	fd := it.funcs[id.Name]
	if fd == nil {
		fail("call of unknown function %s", id.Name)
	}
	it.depth++
	if it.depth > 8 {
		fail("recursion")
	}
	defer func() { it.depth-- }()
	fsc := &scope{vars: map[string]*cell{}}
	names, cells := it.bindArgs(fd, ce.Args, sc)
	for i, n := range names {
		fsc.vars[n] = cells[i]
	}
	savedOut, savedIn := it.nOut, it.nIn
	c := it.block(fd.Body, fsc)
	it.nOut, it.nIn = savedOut, savedIn
	nres := 0
	if fd.Type.Results != nil {
		for _, r := range fd.Type.Results.List {
			if len(r.Names) == 0 {
				nres++
			} else {
				nres += len(r.Names)
			}
		}
	}
	if c != cReturn {
		if nres != 0 {
			fail("function %s ends without return", id.Name)
		}
		return nil
	}
	if len(it.ret) != nres {
		fail("return arity")
	}
	return append([]uint64(nil), it.ret...)
}

// ---------------------------------------------------------------------------
// static facts about a program: construct labels and the preconditions of recorded findings

type Facts struct {
	Labels map[string]bool
	// preconditions of recorded mechanisms, decided from the source alone
	HoistedIncDec   []string // x++/x-- whose variable is declared two or more compiling contexts further out
	CallStmt        []string // f(...) used as a statement (the compiler emits nothing for it)
	MultiReturn     []string // called functions with more than one return statement
	FallDefault     bool     // fallthrough into the default clause
	GoValueArgs     []string // go f(v) with a by-value argument
	Loops, Branches int
	UnsupportedOps  []string
	HasChan         bool
	Channels        int // channels the machine will hold: declared ones plus the implicit one of every go statement with a by-value argument
	HasGo           bool
	MemVars         int
	DefineMem       []string // name := expr with a memory (non reg_) name
	DefineMemShadow []string // … that shadows a visible name: the new binding is never filed, reads go to the outer variable
	// shadowing (Go block scoping): an inner var / := of a name that is visible from an enclosing scope
	Shadowing int
	// declarations met in a compiling context that has no variable map of its own (switch case bodies, the
	// init clause of a for): the compiler files them in the enclosing block's map
	LeakDecl      []string // … of a name that is also visible further out: the inner binding outlives its Go scope
	DefineIgnored []string // name := … where that map already holds the name: the statement is dropped
	RedeclSameMap []string // var name … where that map already holds the name: clean "name already used"
	// round 4
	OctalLits       []string // legacy octal literals (017) whose decimal reading is another number
	BreakInSwitch   int      // unlabelled break whose innermost breakable statement is a switch that is itself inside a for
	EffectCallStmt  []string // f(...) used as a statement where f (or a function it calls) writes an output, sends or starts a goroutine
	IOIdsExhausted  []string // routines whose Input (or Output) declarations plus Make calls outnumber the allocator's local ids
	IOMakeOrder     []string // routines whose Make calls on outputs (inputs) do not follow the declaration order of the variables, or that declare one after a Make
	GoMultiValueArg []string // go f(a, b, …) with two or more by-value arguments
}

// legacyOctal: a literal Go reads in base eight because of its leading zero (not 0x…, 0b…, 0o…).
func legacyOctal(v string) bool {
	if len(v) < 2 || v[0] != '0' {
		return false
	}
	for _, r := range v[1:] {
		if r < '0' || r > '7' {
			return false
		}
	}
	return true
}

// hasEffect: the function's body (or a function it calls) writes an output, sends on a channel or starts a goroutine.
func hasEffect(funcs map[string]*ast.FuncDecl, fd *ast.FuncDecl, depth int) bool {
	if fd == nil || fd.Body == nil || depth > 8 {
		return false
	}
	found := false
	ast.Inspect(fd.Body, func(n ast.Node) bool {
		switch x := n.(type) {
		case *ast.SendStmt, *ast.GoStmt:
			found = true
		case *ast.CallExpr:
			if isBondgoSel(x.Fun, "IOWrite") {
				found = true
			} else if id, ok := x.Fun.(*ast.Ident); ok && hasEffect(funcs, funcs[id.Name], depth+1) {
				found = true
			}
		}
		return !found
	})
	return found
}

// gbind is one Go-level binding of a name (block scoping as the language defines it).
type gbind struct {
	shadows     *gbind
	wasShadowed bool // an inner binding of the same name has come and gone
}

type factScope struct {
	m, r int  // identity of the variable map and of the result buffer of a compiling context
	ctx  bool // an if/for/switch context: shares the map of the scope it was met in
}

type factWalker struct {
	f     *Facts
	funcs map[string]*ast.FuncDecl
	// the compiler's scope chain: a block gets a new variable map and keeps the result buffer of its parent;
	// an if/for/switch context shares the variable map of the scope it was met in and gets a new result buffer;
	// case clauses add nothing; a called function starts a new chain (parameters' map + new buffer).
	scopes []factScope
	maps   map[int]map[string]bool
	next   int
	gsc    []map[string]*gbind // Go's scopes, innermost last
	// per function: the statements an unlabelled break can end, innermost last ("for" / "switch")
	brk []string
	// per function: Input/Output variables in declaration order, the targets of the Make calls in textual
	// order, and whether a declaration of the kind was met after a Make of the kind
	ioDecl, ioMade map[string][]string
	ioLate         map[string]bool
	// per function: how often each channel has been handed to an inlined (non-go) call so far
	inlineChan map[string]int
}

func (w *factWalker) goPush() { w.gsc = append(w.gsc, map[string]*gbind{}) }
func (w *factWalker) goPop() {
	for _, b := range w.gsc[len(w.gsc)-1] {
		if b.shadows != nil {
			b.shadows.wasShadowed = true
		}
	}
	w.gsc = w.gsc[:len(w.gsc)-1]
}
func (w *factWalker) goFind(n string) *gbind {
	for i := len(w.gsc) - 1; i >= 0; i-- {
		if b, ok := w.gsc[i][n]; ok {
			return b
		}
	}
	return nil
}
func (w *factWalker) goDecl(n string) {
	b := &gbind{shadows: w.goFind(n)}
	if b.shadows != nil {
		w.f.Shadowing++
		w.lab("shadowing")
	}
	w.gsc[len(w.gsc)-1][n] = b
}
func (w *factWalker) goWrite(n string) {
	if b := w.goFind(n); b != nil && b.shadows != nil {
		w.lab("shadow-assign-inside")
	}
}
func (w *factWalker) goRead(n string) {
	if b := w.goFind(n); b != nil {
		if b.wasShadowed {
			w.lab("shadow-read-after")
		}
		if b.shadows != nil {
			w.lab("shadow-read-inside")
		}
	}
}

// declare files a name the way the compiler does and records what that means for a shadowing declaration.
func (w *factWalker) declare(n string, define bool) {
	top := w.top()
	if w.maps[top.m][n] {
		if define {
			w.f.DefineIgnored = append(w.f.DefineIgnored, n)
			w.lab("define-of-name-in-same-map")
		} else {
			w.f.RedeclSameMap = append(w.f.RedeclSameMap, n)
			w.lab("var-of-name-in-same-map")
		}
	} else if top.ctx {
		if _, visible := w.foundIn(n); visible {
			w.f.LeakDecl = append(w.f.LeakDecl, n)
			w.lab("shadowing-decl-without-own-map")
		}
	}
	w.def(n)
	w.goDecl(n)
}

func isRegName(n string) bool { return len(n) > 4 && n[:4] == "reg_" }

func (w *factWalker) fresh() int     { w.next++; return w.next }
func (w *factWalker) top() factScope { return w.scopes[len(w.scopes)-1] }
func (w *factWalker) pushBlock() {
	m := w.fresh()
	w.maps[m] = map[string]bool{}
	w.scopes = append(w.scopes, factScope{m, w.top().r, false})
}
func (w *factWalker) pushCtx()     { w.scopes = append(w.scopes, factScope{w.top().m, w.fresh(), true}) }
func (w *factWalker) pop()         { w.scopes = w.scopes[:len(w.scopes)-1] }
func (w *factWalker) def(n string) { w.maps[w.top().m][n] = true }

// foundIn returns the result buffer of the first scope of the chain whose map holds n.
func (w *factWalker) foundIn(n string) (int, bool) {
	for i := len(w.scopes) - 1; i >= 0; i-- {
		if w.maps[w.scopes[i].m][n] {
			return w.scopes[i].r, true
		}
	}
	return 0, false
}

func (w *factWalker) lab(l string) { w.f.Labels[l] = true }

func (w *factWalker) exprFacts(e ast.Expr) {
	ast.Inspect(e, func(n ast.Node) bool {
		switch x := n.(type) {
		case *ast.Ident:
			w.goRead(x.Name)
		case *ast.BasicLit:
			if x.Kind == token.INT {
				switch {
				case legacyOctal(x.Value):
					dec, _ := strconv.ParseUint(x.Value, 10, 64)
					oct, _ := strconv.ParseUint(x.Value, 8, 64)
					if dec != oct {
						w.lab("lit-legacy-octal")
						w.f.OctalLits = append(w.f.OctalLits, x.Value)
					} else {
						w.lab("lit-leading-zero-same-value")
					}
				case len(x.Value) > 2 && (x.Value[1] == 'x' || x.Value[1] == 'X'):
					w.lab("lit-hex")
				case len(x.Value) > 2 && (x.Value[1] == 'b' || x.Value[1] == 'B'):
					w.lab("lit-binary")
				case len(x.Value) > 2 && (x.Value[1] == 'o' || x.Value[1] == 'O'):
					w.lab("lit-0o")
				}
			}
		case *ast.BinaryExpr:
			switch x.Op {
			case token.ADD, token.MUL, token.EQL:
				w.lab("op:" + x.Op.String())
			default:
				w.lab("op-unsupported:" + x.Op.String())
				w.f.UnsupportedOps = append(w.f.UnsupportedOps, x.Op.String())
			}
		case *ast.ParenExpr:
			w.lab("paren")
			w.f.UnsupportedOps = append(w.f.UnsupportedOps, "()")
		case *ast.UnaryExpr:
			if x.Op == token.ARROW {
				w.lab("chan-recv")
				w.f.HasChan = true
			} else {
				w.lab("op-unsupported:unary" + x.Op.String())
				w.f.UnsupportedOps = append(w.f.UnsupportedOps, "unary"+x.Op.String())
			}
		case *ast.CallExpr:
			if isBondgoSel(x.Fun, "IORead") {
				w.lab("ioread")
			} else if id, ok := x.Fun.(*ast.Ident); ok {
				w.lab("call")
				if fd := w.funcs[id.Name]; fd != nil && countReturns(fd.Body) > 1 {
					w.f.MultiReturn = append(w.f.MultiReturn, id.Name)
				}
				if fd := w.funcs[id.Name]; fd != nil && fd.Type.Params != nil {
					i := 0
					for _, p := range fd.Type.Params.List {
						for range p.Names {
							if _, isChan := p.Type.(*ast.ChanType); isChan && i < len(x.Args) {
								if a, ok := x.Args[i].(*ast.Ident); ok {
									w.lab("inline-call-with-chan")
									w.inlineChan[a.Name]++
									if w.inlineChan[a.Name] == 2 {
										w.lab("chan-passed-to-inline-call-twice")
									}
								}
							}
							i++
						}
					}
				}
			}
		}
		return true
	})
}

func countReturns(b *ast.BlockStmt) int {
	n := 0
	ast.Inspect(b, func(x ast.Node) bool {
		if _, ok := x.(*ast.ReturnStmt); ok {
			n++
		}
		return true
	})
	return n
}

func (w *factWalker) stmts(list []ast.Stmt) {
	for _, s := range list {
		w.stmt(s)
	}
}

func (w *factWalker) stmt(s ast.Stmt) {
	switch x := s.(type) {
	case *ast.DeclStmt:
		gd := x.Decl.(*ast.GenDecl)
		for _, sp := range gd.Specs {
			vs, ok := sp.(*ast.ValueSpec)
			if !ok {
				continue
			}
			for _, n := range vs.Names {
				w.declare(n.Name, false)
				switch t := vs.Type.(type) {
				case *ast.Ident:
					if t.Name == "bool" {
						w.lab("var-bool")
					} else if isRegName(n.Name) {
						w.lab("var-reg")
					} else {
						w.lab("var-mem")
						w.f.MemVars++
					}
				case *ast.ChanType:
					w.lab("var-chan")
					w.f.HasChan = true
					w.f.Channels++
					if len(w.inlineChan) > 0 {
						w.lab("chan-declared-after-inline-call-with-chan")
					}
				case *ast.SelectorExpr:
					w.lab("var-" + t.Sel.Name)
					if isBondgoSel(t, "Input") || isBondgoSel(t, "Output") {
						k := t.Sel.Name
						w.ioDecl[k] = append(w.ioDecl[k], n.Name)
						if len(w.ioMade[k]) > 0 {
							w.ioLate[k] = true
						}
					}
				}
			}
		}
	case *ast.AssignStmt:
		for i, r := range x.Rhs {
			w.exprFacts(r)
			if ce, ok := r.(*ast.CallExpr); ok && isBondgoSel(ce.Fun, "Make") && len(ce.Args) == 2 && len(x.Lhs) == len(x.Rhs) {
				if se, ok := ce.Args[0].(*ast.SelectorExpr); ok {
					if id, ok := x.Lhs[i].(*ast.Ident); ok {
						w.ioMade[se.Sel.Name] = append(w.ioMade[se.Sel.Name], id.Name)
					}
				}
			}
		}
		if x.Tok == token.DEFINE {
			for _, l := range x.Lhs {
				if id, ok := l.(*ast.Ident); ok {
					w.declare(id.Name, true)
					if isRegName(id.Name) {
						w.lab("define-reg")
					} else {
						w.lab("define-mem")
						w.f.DefineMem = append(w.f.DefineMem, id.Name)
						if b := w.goFind(id.Name); b != nil && b.shadows != nil {
							w.f.DefineMemShadow = append(w.f.DefineMemShadow, id.Name)
							w.lab("define-mem-shadowing")
						}
					}
				}
			}
		} else {
			for _, l := range x.Lhs {
				if id, ok := l.(*ast.Ident); ok {
					w.goWrite(id.Name)
				}
			}
			if len(x.Lhs) > 1 {
				w.lab("assign-multi")
			} else {
				w.lab("assign")
			}
		}
	case *ast.IncDecStmt:
		w.lab("incdec")
		if id, ok := x.X.(*ast.Ident); ok {
			w.goWrite(id.Name)
			w.goRead(id.Name)
			if r, ok := w.foundIn(id.Name); ok && r != w.top().r {
				w.f.HoistedIncDec = append(w.f.HoistedIncDec, id.Name)
				w.lab("incdec-across-contexts")
			}
		}
	case *ast.BlockStmt:
		w.pushBlock()
		w.goPush()
		w.stmts(x.List)
		w.goPop()
		w.pop()
	case *ast.IfStmt:
		w.f.Branches++
		if x.Else != nil {
			w.lab("if-else")
		} else {
			w.lab("if")
		}
		if x.Init != nil {
			w.lab("if-init")
			w.stmt(x.Init)
		}
		w.exprFacts(x.Cond)
		w.pushCtx()
		w.goPush()
		w.stmt(x.Body)
		if x.Else != nil {
			w.stmt(x.Else)
		}
		w.goPop()
		w.pop()
	case *ast.ForStmt:
		w.f.Loops++
		switch {
		case x.Cond == nil && x.Init == nil && x.Post == nil:
			w.lab("for-infinite")
		case x.Init == nil && x.Post == nil:
			w.lab("for-cond")
		default:
			w.lab("for-clauses")
		}
		// init and post are compiled in the loop's own context, which shares the enclosing variable map
		w.pushCtx()
		w.goPush()
		if x.Init != nil {
			w.stmt(x.Init)
		}
		if x.Cond != nil {
			w.exprFacts(x.Cond)
		}
		w.brk = append(w.brk, "for")
		w.stmt(x.Body)
		w.brk = w.brk[:len(w.brk)-1]
		if x.Post != nil {
			w.stmt(x.Post)
		}
		w.goPop()
		w.pop()
	case *ast.SwitchStmt:
		w.f.Branches++
		w.lab("switch")
		if x.Tag != nil {
			w.exprFacts(x.Tag)
		}
		w.pushCtx()
		w.brk = append(w.brk, "switch")
		for i, cl := range x.Body.List {
			cc := cl.(*ast.CaseClause)
			for _, e := range cc.List {
				w.exprFacts(e)
			}
			if cc.List == nil {
				w.lab("switch-default")
			}
			for _, b := range cc.Body {
				if br, ok := b.(*ast.BranchStmt); ok && br.Tok == token.FALLTHROUGH {
					w.lab("fallthrough")
					if i+1 < len(x.Body.List) && x.Body.List[i+1].(*ast.CaseClause).List == nil {
						w.f.FallDefault = true
					}
				}
			}
			w.goPush() // a scope of its own in Go, none in the compiler
			w.stmts(cc.Body)
			w.goPop()
		}
		w.brk = w.brk[:len(w.brk)-1]
		w.pop()
	case *ast.ExprStmt:
		if ce, ok := x.X.(*ast.CallExpr); ok {
			for _, a := range ce.Args {
				w.exprFacts(a)
			}
			if isBondgoSel(ce.Fun, "IOWrite") {
				w.lab("iowrite")
			} else if id, ok := ce.Fun.(*ast.Ident); ok {
				w.lab("call-stmt")
				w.f.CallStmt = append(w.f.CallStmt, id.Name)
				if hasEffect(w.funcs, w.funcs[id.Name], 0) {
					w.lab("call-stmt-with-effect")
					w.f.EffectCallStmt = append(w.f.EffectCallStmt, id.Name)
				}
			}
		}
	case *ast.ReturnStmt:
		for _, r := range x.Results {
			w.exprFacts(r)
		}
	case *ast.BranchStmt:
		w.lab(x.Tok.String())
		if x.Tok == token.BREAK && x.Label == nil && len(w.brk) > 0 && w.brk[len(w.brk)-1] == "switch" {
			inFor := false
			for _, b := range w.brk {
				if b == "for" {
					inFor = true
				}
			}
			if inFor {
				w.lab("break-in-switch-in-for")
				w.f.BreakInSwitch++
			} else {
				w.lab("break-in-switch-outside-loop")
			}
		}
	case *ast.SendStmt:
		w.lab("chan-send")
		w.f.HasChan = true
		w.exprFacts(x.Value)
	case *ast.GoStmt:
		w.lab("go")
		w.f.HasGo = true
		for _, a := range x.Call.Args {
			w.exprFacts(a)
		}
		if id, ok := x.Call.Fun.(*ast.Ident); ok {
			if fd := w.funcs[id.Name]; fd != nil && fd.Type.Params != nil {
				nval := 0
				for _, p := range fd.Type.Params.List {
					np := len(p.Names)
					if np == 0 {
						np = 1
					}
					if _, isChan := p.Type.(*ast.ChanType); !isChan {
						for i := 0; i < np; i++ {
							w.f.GoValueArgs = append(w.f.GoValueArgs, id.Name)
							w.f.Channels++
						}
						nval += np
						w.lab("go-value-arg")
					} else {
						w.lab("go-chan-arg")
					}
				}
				if nval >= 2 {
					w.f.GoMultiValueArg = append(w.f.GoMultiValueArg, id.Name)
					w.lab("go-two-or-more-value-args")
				}
			}
		}
	}
}

// StaticFacts scans every function body (parameters live in the function's own scope, the body block is its child).
func StaticFacts(src string) (*Facts, error) {
	_, f, err := parseSrc(src)
	if err != nil {
		return nil, err
	}
	fc := &Facts{Labels: map[string]bool{}}
	w := &factWalker{f: fc, funcs: map[string]*ast.FuncDecl{}, maps: map[int]map[string]bool{}}
	for _, d := range f.Decls {
		if fd, ok := d.(*ast.FuncDecl); ok {
			w.funcs[fd.Name.Name] = fd
		}
	}
	names := make([]string, 0, len(w.funcs))
	for n := range w.funcs {
		names = append(names, n)
	}
	sort.Strings(names)
	for _, n := range names {
		fd := w.funcs[n]
		pm := w.fresh()
		w.maps[pm] = map[string]bool{}
		w.scopes = []factScope{{pm, w.fresh(), false}}
		w.gsc = []map[string]*gbind{{}}
		w.brk = nil
		w.inlineChan = map[string]int{}
		w.ioDecl, w.ioMade, w.ioLate = map[string][]string{}, map[string][]string{}, map[string]bool{}
		if fd.Type.Params != nil {
			for _, p := range fd.Type.Params.List {
				for _, pn := range p.Names {
					w.def(pn.Name)
					w.goDecl(pn.Name)
				}
			}
			if n != "main" && len(fd.Type.Params.List) > 0 {
				w.lab("func-params")
			}
		}
		if fd.Type.Results != nil && len(fd.Type.Results.List) > 0 {
			w.lab("func-result")
		}
		w.stmt(fd.Body)
		for _, k := range []string{"Input", "Output"} {
			// every declaration and every Make takes one of the allocator's local ids of the kind and keeps it
			if len(w.ioDecl[k])+len(w.ioMade[k]) > ioLocalIds(k) {
				w.f.IOIdsExhausted = append(w.f.IOIdsExhausted, n+":"+k)
				w.lab("io-local-ids-exhausted")
			}
			if len(w.ioDecl[k]) >= 3 {
				w.lab("io-three-or-more-" + k)
			}
			bad := w.ioLate[k]
			for i, v := range w.ioMade[k] {
				if i >= len(w.ioDecl[k]) || w.ioDecl[k][i] != v {
					bad = true
				}
			}
			if bad {
				w.f.IOMakeOrder = append(w.f.IOMakeOrder, n+":"+k)
				w.lab("io-make-order-differs-from-declaration-order")
			}
		}
	}
	return fc, nil
}

// ioLocalIds: how many local ids of the kind the compiler's allocator can hand out per processor.
func ioLocalIds(kind string) int {
	if kind == "Input" {
		return bondgo.MAX_INPUTS
	}
	return bondgo.MAX_OUTPUTS
}
