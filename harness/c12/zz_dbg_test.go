package c12

import (
	"fmt"
	"os"
	"testing"
)

func TestZZ(t *testing.T) {
	needTools(t)
	t.Cleanup(CleanupWork)
	b, _ := os.ReadFile(os.Getenv("ZZ"))
	c := Case{Rsize: 8, Mpm: true, Src: string(b), Plans: manyPlans(3), InVals: make([]uint64, nInVals), Strict: true}
	o := prop(c)
	fmt.Printf("excluded=%q nontrivial=%v labels=%v\n", o.Excluded, o.NonTrivial, o.Labels)
	if o.Fail != nil {
		fmt.Printf("FAIL sig=%s\n%s\n", o.Fail.Sig, o.Fail.Msg)
	}
	r, err := RefEval(c.Src, 8, c.InVals, refBudget{MaxEvals: 4000, MaxWrites: 24})
	fmt.Println("ref err", err)
	for k, rr := range r.Routines {
		fmt.Println("ref", k, rr.Func, rr.Stopped, rr.Evals, clip(rr.Streams))
	}
}
