// C12 — bondgo: compiled programs do what the source does; compilation always terminates and its
// output does not depend on the scheduling of the compiler's own goroutines.
//
// Generated Go-subset programs are compiled by the REAL CLI ($VERIF_TOOLS/bondgo, built from /repo
// with -tags verif) as a child process under a hard timeout, once per schedule plan
// (GOMAXPROCS × VERIF_BONDGO_SCHED). Oracles:
//
//	(i)   termination: every run ends within the deadline (a goroutine dump classifies a hang);
//	(ii)  schedule independence: assembly text and machine JSON byte-equal across the plans;
//	(iii) semantics: the reference evaluator of the source (ref.go) against the compiled machine run on
//	      the Go instruction-set simulator, when every opcode the machine requests is implemented
//	      faithfully there; otherwise the case is labelled needs-hdl:<opcodes> and not judged.
package c12

import (
	"encoding/json"
	"fmt"
	"os"
	"regexp"
	"sort"
	"strings"
	"sync"
	"testing"

	"github.com/BondMachineHQ/BondMachine/pkg/bondmachine"
	"pgregory.net/rapid"
	"verifharness/pbt"
)

type Case struct {
	// ShowReq: every run of the compiler also gets -show-requirements; one more run without it must write
	// the same assembly and machine
	ShowReq bool `json:",omitempty"`
	Rsize   int
	Mpm     bool
	Src     string
	Plans   []Plan
	RaceRun bool     `json:",omitempty"` // one more compilation by the race-detector build of the tool
	InVals  []uint64 // constant value offered on the external input with global id i
	// Strict: judge the recorded-finding classes too (files under replays/C12/known/). When false a
	// failure whose recorded precondition holds for the case is counted as Excluded.
	Strict bool `json:",omitempty"`
	// HDL: also run a simulator-faithful machine on its generated Verilog (guard of the HDL path). Machines
	// with RAM opcodes always take the HDL path.
	HDL bool `json:",omitempty"`
}

// Signatures of recorded findings.
const (
	sigD8        = "D8:compile-hang"
	sigNondet    = "nondeterministic-output"
	sigHoist     = "D-C12-incdec-written-to-outer-context"
	sigJe        = "D-C12-eq-compiled-to-placeholder-je"
	sigBehindJe  = "semantics-differ-behind-je"
	sigMultiRet  = "D-C12-multiple-returns"
	sigGoValue   = "D-C12-go-value-arg-empty-rom"
	sigShLinks   = "D-C12-shared-links-map-order"
	sigLeak      = "D-C12-declaration-outlives-case-or-for-clause"
	sigDefIgn    = "D-C12-define-of-existing-name-dropped"
	sigEndJump   = "D-C12-jump-past-last-rom-address"
	sigDefMem    = "D-C12-define-of-ram-name-never-binds"
	sigSemantics = "semantics-differ"
	// round 4
	sigOctal     = "D-C12-legacy-octal-literal-read-as-decimal"
	sigBrkSwitch = "D-C12-break-in-switch-leaves-the-loop"
	sigCallStmt  = "D-C12-call-statement-emits-nothing"
	sigIOIds     = "D-C12-io-ids-exhausted-allocator-sends-no-answer"
	sigIOOrder   = "D-C12-io-named-by-declaration-bound-by-make-order"
	sigGoArgs    = "D-C12-go-value-args-map-order"
)

// openFindings: recorded defects of the unchanged /repo. A failure carrying one of these signatures on
// a case that satisfies the finding's precondition is counted as Excluded (search continues behind it)
// unless the case is Strict. When a finding is repaired in /repo, delete its line here (and move its
// replay out of known/): from then on the same failure is a violation again. For experiments the list can
// be shortened without editing: VERIF_C12_FIXED="sig,sig,…".
var openFindings = map[string]bool{
	// sigD8 and sigShLinks have been repaired in /repo (see known_findings.json): judged again
	sigHoist:    true,
	sigJe:       true,
	sigMultiRet: true,
	sigLeak:     true,
	sigDefIgn:   true,
	sigDefMem:   true,
	// round 4
	sigOctal:     true,
	sigBrkSwitch: true,
	sigCallStmt:  true,
	sigIOIds:     true,
	sigIOOrder:   true,
	sigGoArgs:    true,
}

func isOpen(sig string) bool {
	for _, f := range strings.Split(os.Getenv("VERIF_C12_FIXED"), ",") {
		if strings.TrimSpace(f) == sig {
			return false
		}
	}
	return openFindings[sig]
}

var schedPlans = []string{"", "", "assigner.notify=1", "assigner.notify=3,monitor.done=2", "assigner.notify=300us",
	"assigner.notify=1000us", "monitor.done=500us"}

func genPlans(t *rapid.T) []Plan {
	n := 3
	var ps []Plan
	for i := 0; i < n; i++ {
		ps = append(ps, Plan{
			GoMaxProcs: rapid.SampledFrom([]int{1, 2, 4, 8}).Draw(t, "gomaxprocs"),
			Sched:      rapid.SampledFrom(schedPlans).Draw(t, "sched"),
		})
	}
	// at least two different GOMAXPROCS and one perturbed plan
	if ps[0].GoMaxProcs == ps[1].GoMaxProcs && ps[1].GoMaxProcs == ps[2].GoMaxProcs {
		ps[2].GoMaxProcs = 1 + ps[2].GoMaxProcs%8
	}
	if ps[0].Sched == "" && ps[1].Sched == "" && ps[2].Sched == "" {
		ps[1].Sched = "assigner.notify=1000us"
	}
	return ps
}

func genCase(o GenOpts) func(t *rapid.T) Case {
	return func(t *rapid.T) Case {
		var c Case
		c.Rsize = []int{8, 16, 32, 64}[rapid.IntRange(0, 3).Draw(t, "rsize")]
		if rapid.Bool().Draw(t, "wide") { // rapid favours small indices: spread the sizes with fair coins
			c.Rsize = []int{8, 16, 32, 64}[2*b2i(rapid.Bool().Draw(t, "w1"))+b2i(rapid.Bool().Draw(t, "w0"))]
		}
		c.Src, c.Mpm = GenProgram(t, o, c.Rsize)
		// (the report is computed before the machine is built: it matters most with -mpm -save-bondmachine)
		c.ShowReq = rapid.IntRange(0, 7).Draw(t, "showreq") < map[bool]int{true: 4, false: 1}[c.Mpm]
		c.Plans = genPlans(t)
		c.RaceRun = rapid.Bool().Draw(t, "racerun")
		c.HDL = rapid.Bool().Draw(t, "hdl1") && rapid.Bool().Draw(t, "hdl2") && rapid.Bool().Draw(t, "hdl3") // one in eight of the faithful machines
		c.InVals = make([]uint64, nInVals)
		for i := firstInGid; i < nInVals; i++ {
			c.InVals[i] = rapid.Uint64().Draw(t, "inval")
			if rapid.Bool().Draw(t, "smallin") {
				c.InVals[i] &= 0xf
			}
		}
		return c
	}
}

// external inputs have the global ids firstInGid … nInVals-1 (outputs 1…9: an id used on both sides would be
// a processor-to-processor bond)
const (
	firstInGid = 11
	nInVals    = 22
)

func numbered(text string) string {
	var b strings.Builder
	for i, l := range asmLines(text) {
		fmt.Fprintf(&b, "%3d  %s\n", i, l)
	}
	return b.String()
}

func firstErrorLine(stdout, stderr string) string {
	for _, l := range strings.Split(stdout, "\n") {
		if strings.HasPrefix(l, "Error: ") {
			m := strings.TrimPrefix(l, "Error: ")
			if i := strings.IndexAny(m, "0123456789"); i > 0 {
				m = m[:i]
			}
			f := strings.Fields(m)
			if len(f) > 4 {
				f = f[:4]
			}
			return strings.Join(f, "-")
		}
	}
	for _, l := range strings.Split(stderr, "\n") {
		if strings.HasPrefix(l, "panic: ") {
			f := strings.Fields(strings.TrimPrefix(l, "panic: "))
			if len(f) > 4 {
				f = f[:4]
			}
			return "panic:" + strings.Join(f, "-")
		}
	}
	return "other"
}

func clip(m map[int][]uint64) map[int][]uint64 {
	r := map[int][]uint64{}
	for k, v := range m {
		if len(v) > 32 {
			v = v[:32]
		}
		r[k] = v
	}
	return r
}

func dumpHead(d string) string {
	lines := strings.Split(d, "\n")
	if len(lines) > 60 {
		lines = lines[:60]
	}
	return strings.Join(lines, "\n")
}

func prop(c Case) pbt.Outcome {
	labels := map[string]bool{}
	lab := func(l string) { labels[l] = true }
	finish := func(o pbt.Outcome) pbt.Outcome {
		for l := range labels {
			o.Labels = append(o.Labels, l)
		}
		sort.Strings(o.Labels)
		return o
	}
	// known: the failure belongs to a recorded finding (the caller has checked the finding's precondition on
	// the case): counted as excluded, unless the case is Strict or the finding has been repaired
	known := func(sig string, f *pbt.Failure) pbt.Outcome {
		f.Sig = sig
		if c.Strict || !isOpen(sig) {
			return finish(pbt.Outcome{Fail: f})
		}
		return finish(pbt.Outcome{Excluded: sig})
	}
	if len(c.Plans) == 0 || (c.Rsize != 8 && c.Rsize != 16 && c.Rsize != 32 && c.Rsize != 64) {
		return pbt.Outcome{Excluded: "bad-case"}
	}
	facts, err := StaticFacts(c.Src)
	if err != nil {
		return pbt.Outcome{Excluded: "bad-case:syntax"}
	}
	for l := range facts.Labels {
		lab("src:" + l)
	}
	lab(fmt.Sprintf("rsize=%d", c.Rsize))
	if c.Mpm {
		lab("mode:mpm")
	} else {
		lab("mode:single")
	}

	// ---- (i) termination, one child process per plan (in parallel: the verdict of each run depends on
	// the case only, unless the compiler itself is schedule-dependent — which is the property)
	if c.ShowReq {
		ps := append([]Plan(nil), c.Plans...)
		for i := range ps {
			ps[i].ShowReq = true
		}
		c.Plans = ps
	}
	runs := make([]RunResult, len(c.Plans))
	var wg sync.WaitGroup
	sem := make(chan struct{}, 8)
	for i := range c.Plans {
		wg.Add(1)
		go func(i int) {
			defer wg.Done()
			sem <- struct{}{}
			defer func() { <-sem }()
			runs[i] = RunBondgo(c.Src, c.Rsize, c.Mpm, c.Plans[i])
		}(i)
	}
	wg.Wait()
	d8 := false
	for i := range runs {
		r := &runs[i]
		if r.Slow {
			lab("term:needed-full-deadline")
		}
		tries := 0
		for r.Status == "hang:D8" {
			d8 = true
			lab("term:D8-hang-observed")
			if c.Strict || !isOpen(sigD8) {
				return finish(pbt.Outcome{Fail: pbt.Failf(sigD8, "bondgo does not terminate (plan %d: GOMAXPROCS=%d VERIF_BONDGO_SCHED=%q): Var_assigner is blocked sending a usage notification, Usage_Monitor has already exited, main is blocked on the allocator.\n--- source\n%s--- goroutine dump\n%s",
					i, c.Plans[i].GoMaxProcs, c.Plans[i].Sched, c.Src, dumpHead(r.Dump))})
			}
			tries++
			if tries > 1 {
				break
			}
			*r = RunBondgo(c.Src, c.Rsize, c.Mpm, c.Plans[i])
		}
		switch r.Status {
		case hangNoAnswer:
			lab("term:allocator-no-answer-deadlock")
			f := pbt.Failf("compile-deadlock:allocator-sends-no-answer", "bondgo does not terminate (plan %d: GOMAXPROCS=%d VERIF_BONDGO_SCHED=%q): a permanent deadlock, every goroutine is parked: the visitor waits for the allocator's answer to a request (<-bg.Answers), Var_assigner is back at the top of its loop waiting for the next request — it took the request and sent no answer.\n--- source\n%s--- goroutine dump\n%s",
				i, c.Plans[i].GoMaxProcs, c.Plans[i].Sched, c.Src, dumpHead(r.Dump))
			if len(facts.IOIdsExhausted) > 0 {
				// REQ_NEW of an INPUT/OUTPUT cell when all MAX_INPUTS/MAX_OUTPUTS local ids of the processor are taken
				f.Msg = fmt.Sprintf("routine:kind with more declarations+Make calls than local ids: %v\n", facts.IOIdsExhausted) + f.Msg
				return known(sigIOIds, f)
			}
			return finish(pbt.Outcome{Fail: f})
		case "hang", "deadlock":
			return finish(pbt.Outcome{Fail: pbt.Failf("compile-hang", "bondgo does not terminate within %v (plan %d: GOMAXPROCS=%d VERIF_BONDGO_SCHED=%q), not the D8 pattern.\n--- source\n%s--- goroutine dump\n%s",
				hardTimeout, i, c.Plans[i].GoMaxProcs, c.Plans[i].Sched, c.Src, dumpHead(r.Dump))})
		case "harness-error":
			return finish(pbt.Outcome{Excluded: "harness-error"})
		case "slow":
			// the deadline passed while the compiler was still executing (loaded machine): inconclusive
			return finish(pbt.Outcome{Excluded: "tool-slow-under-load"})
		}
	}
	var done []int
	for i := range runs {
		if runs[i].Status == "ok" || runs[i].Status == "rejected" || runs[i].Status == "crash" {
			done = append(done, i)
		}
	}
	if len(done) == 0 {
		return finish(pbt.Outcome{Excluded: sigD8})
	}

	// ---- (ii) schedule independence
	base := runs[done[0]]
	for _, i := range done[1:] {
		if runs[i].Fingerprint() != base.Fingerprint() {
			if c.Mpm && facts.Channels >= 2 && onlySharedLinksOrderDiffers(base, runs[i]) {
				f := pbt.Failf(sigShLinks, "the bondmachine JSON differs between two runs of the compiler in the order of a processor's shared-object links (which is what numbers its channels ch0, ch1, …): %s vs %s\n--- source\n%s",
					sharedLinks(base.Machine), sharedLinks(runs[i].Machine), c.Src)
				if c.Strict || !isOpen(sigShLinks) {
					return finish(pbt.Outcome{Fail: f})
				}
				return finish(pbt.Outcome{Excluded: sigShLinks})
			}
			if len(facts.GoMultiValueArg) > 0 && onlyAsmDiffers(base, runs[i]) {
				lab("class:go-two-or-more-value-args")
				return known(sigGoArgs, pbt.Failf(sigGoArgs, "the assembly bondgo writes differs between two runs of the compiler on a program with `go f(a, b, …)` (two or more by-value arguments: %v); status, stdout and machine are equal\n--- source\n%s--- plan %d\n%s--- plan %d\n%s",
					facts.GoMultiValueArg, c.Src, done[0], base.Fingerprint(), i, runs[i].Fingerprint()))
			}
			return finish(pbt.Outcome{Fail: pbt.Failf(sigNondet, "compiler output differs between plan %d (GOMAXPROCS=%d sched=%q) and plan %d (GOMAXPROCS=%d sched=%q)\n--- source\n%s--- plan %d\n%s--- plan %d\n%s",
				done[0], c.Plans[done[0]].GoMaxProcs, c.Plans[done[0]].Sched, i, c.Plans[i].GoMaxProcs, c.Plans[i].Sched, c.Src, done[0], base.Fingerprint(), i, runs[i].Fingerprint())})
		}
	}
	lab(fmt.Sprintf("plans-completed=%d", len(done)))
	if c.RaceRun {
		// the same compilation by the race-detector build: a report is a dependence on the schedule at its
		// cause; a deadline hit by this (several times slower) binary says nothing
		rp := c.Plans[done[0]]
		rp.Race, rp.GoMaxProcs = true, 4
		rr := runOnce(c.Src, c.Rsize, c.Mpm, rp, 3*hardTimeout, false)
		switch rr.Status {
		case "race":
			return finish(pbt.Outcome{Fail: pbt.Failf("race:"+raceFrames(rr.Dump), "the Go race detector reports a data race inside the compiler (GOMAXPROCS=4 sched=%q)\n--- source\n%s--- report\n%s", rp.Sched, c.Src, dumpHead(rr.Dump))})
		case "ok", "rejected", "crash":
			lab("race-run:completed")
			if rr.Fingerprint() != base.Fingerprint() {
				if len(facts.GoMultiValueArg) > 0 && onlyAsmDiffers(base, rr) {
					lab("class:go-two-or-more-value-args")
					return known(sigGoArgs, pbt.Failf(sigGoArgs, "the assembly bondgo writes differs between two runs of the compiler on a program with `go f(a, b, …)` (two or more by-value arguments: %v); status, stdout and machine are equal\n--- source\n%s--- plan %d\n%s--- race build\n%s",
						facts.GoMultiValueArg, c.Src, done[0], base.Fingerprint(), rr.Fingerprint()))
				}
				return finish(pbt.Outcome{Fail: pbt.Failf(sigNondet, "compiler output differs between plan %d and the run of the race-detector build\n--- source\n%s--- plan %d\n%s--- race build\n%s", done[0], c.Src, done[0], base.Fingerprint(), rr.Fingerprint())})
			}
		default:
			lab("race-run:inconclusive:" + rr.Status)
		}
	}
	if c.ShowReq {
		// -show-requirements is a report: the same compilation without it must write the same files
		lab("flag:show-requirements")
		p0 := c.Plans[done[0]]
		p0.ShowReq = false
		plain := RunBondgo(c.Src, c.Rsize, c.Mpm, p0)
		if plain.Status == "ok" && base.Status == "ok" {
			same := string(plain.Machine) == string(base.Machine) && len(plain.Asm) == len(base.Asm)
			for k, a := range base.Asm {
				if plain.Asm[k] != a {
					same = false
				}
			}
			if !same {
				return finish(pbt.Outcome{Fail: pbt.Failf("show-requirements-changes-artefacts", "the assembly/machine written with -show-requirements differ from the ones written without it\n--- source\n%s--- with the flag\nmachine=%s\n--- without\nmachine=%s", c.Src, base.Machine, plain.Machine)})
			}
		}
	}

	out := pbt.Outcome{}
	if d8 {
		out.Excluded = sigD8
	}
	if base.Status != "ok" {
		why := firstErrorLine(base.Stdout, base.Stderr)
		lab("verdict:rejected:" + why)
		if base.Status == "crash" && len(facts.UnsupportedOps) == 0 && len(facts.MultiReturn) == 0 {
			// a clean "Error:" rejection is always an acceptable answer; a Go runtime panic of the compiler
			// on a program made only of constructs it implements is not
			f := pbt.Failf("compiler-panic", "bondgo panics (exit %d) on a program that uses only constructs it implements\n--- source\n%s--- stderr\n%s", base.Exit, c.Src, dumpHead(base.Stderr))
			if len(facts.DefineIgnored) > 0 {
				// the dropped := leaves a typeless cell behind; with a RAM-class name the allocator panics on it
				f.Sig = sigDefIgn
				if c.Strict || !isOpen(sigDefIgn) {
					return finish(pbt.Outcome{Fail: f})
				}
				return finish(pbt.Outcome{Excluded: sigDefIgn})
			}
			return finish(pbt.Outcome{Fail: f})
		}
		if os.Getenv("VERIF_C12_DEBUG") != "" && (base.Status == "crash" || len(facts.UnsupportedOps) == 0) {
			fmt.Printf("DEBUG rejected (%s) rsize=%d mpm=%v\n%s--- stdout\n%s--- stderr\n%s\n", base.Status, c.Rsize, c.Mpm, c.Src, base.Stdout, dumpHead(base.Stderr))
		}
		if len(facts.UnsupportedOps) > 0 {
			lab("verdict:rejected-unsupported-operator")
		}
		return finish(out)
	}
	lab("verdict:accepted")
	if len(facts.UnsupportedOps) > 0 {
		lab("verdict:accepted-with-unsupported-operator")
	}

	// ---- (iii) semantics
	ld, err := LoadMachine(base.Machine, c.Mpm)
	if err != nil {
		return finish(pbt.Outcome{Fail: pbt.Failf("machine-unloadable", "the machine bondgo wrote does not load: %v\n--- source\n%s--- json\n%s", err, c.Src, base.Machine)})
	}
	for k, p := range ld.Procs {
		if got, want := len(p.Mach.Program.Slocs), len(asmLines(base.Asm[k])); got != want {
			f := pbt.Failf("machine-program-mismatch", "processor %d of the saved machine holds %d instructions, the assembly bondgo emitted for it has %d lines (compiler stdout: %q)\n--- source\n%s--- assembly %d\n%s",
				k, got, want, base.Stdout, c.Src, k, numbered(base.Asm[k]))
			if len(facts.GoValueArgs) > 0 {
				return known(sigGoValue, f)
			}
			if strings.Contains(base.Stdout, "operand out of range") && jumpsPastFullRom(base.Asm[k]) {
				return known(sigEndJump, f)
			}
			return finish(pbt.Outcome{Fail: f})
		}
	}
	bud := refBudget{MaxEvals: 4000, MaxWrites: 24}
	ref, rerr := RefEval(c.Src, c.Rsize, c.InVals, bud)
	if rerr != nil {
		lab("sem:not-modelled")
		why := strings.Fields(rerr.Error())
		if len(why) > 4 {
			why = why[:4]
		}
		lab("sem:not-modelled:" + strings.Join(why, "-"))
		return finish(out)
	}
	if len(ref.Routines) != len(ld.Procs) {
		return finish(pbt.Outcome{Fail: pbt.Failf("processor-count", "the source has %d routines (main + go statements), the machine has %d processors\n--- source\n%s", len(ref.Routines), len(ld.Procs), c.Src)})
	}
	if len(facts.OctalLits) > 0 {
		lab("class:legacy-octal-literal")
	}
	if facts.BreakInSwitch > 0 {
		lab("class:break-in-switch-in-for")
	}
	if len(facts.EffectCallStmt) > 0 {
		lab("class:call-stmt-with-effect")
	}
	if len(facts.IOMakeOrder) > 0 {
		lab("class:io-make-order")
	}
	if c.Mpm && ld.BM != nil {
		// which global id a processor port is: the bondmachine's external ports are created in ascending order
		// of global id (converter.go sorts ext_*_keys; it is what the residual map of the compiler says)
		msg, checked := ioBinding(ld.BM, ref)
		if checked {
			lab("sem:io-binding-checked")
		}
		if msg != "" {
			f := pbt.Failf("bm-port-bound-to-another-global-id", "%s\n--- source\n%s--- bonds\n%v", msg, c.Src, bondList(ld.BM))
			if len(facts.IOMakeOrder) > 0 {
				return known(sigIOOrder, f)
			}
			return finish(pbt.Outcome{Fail: f})
		}
	}
	eqTrue := 0
	for _, r := range ref.Routines {
		eqTrue += r.EqTrue
	}
	if eqTrue > 0 {
		lab("class:eq-true-at-runtime")
	}
	if len(facts.HoistedIncDec) > 0 {
		lab("class:incdec-across-contexts")
	}
	if len(facts.MultiReturn) > 0 {
		lab("class:multiple-returns")
	}
	if len(facts.LeakDecl) > 0 {
		lab("class:shadowing-decl-without-own-map")
	}
	if len(facts.DefineIgnored) > 0 {
		lab("class:define-of-name-in-same-map")
	}
	if facts.FallDefault {
		lab("class:fallthrough-into-default")
	}
	// recorded findings whose effect is a different reading of one construct: the finding explains a
	// mismatch when the machine agrees with the source read the compiler's way (single readings first, then
	// all the applicable ones together)
	type reading struct {
		on  bool
		sig string
		rd  refReading
	}
	readings := []reading{
		{len(facts.OctalLits) > 0, sigOctal, refReading{OctalAsDecimal: true}},
		{facts.BreakInSwitch > 0, sigBrkSwitch, refReading{BreakInSwitchEndsLoop: true}},
		{len(facts.EffectCallStmt) > 0, sigCallStmt, refReading{SkipEffectCallStmts: true}},
	}
	nReadings := 0
	for _, r := range readings {
		nReadings += b2i(r.on)
	}
	var compare func(rr RoutineRes, got map[int][]uint64, span string) (mismatch string, short bool, n int)
	explainedBy := func(k int, got map[int][]uint64) string {
		agrees := func(rd refReading) bool {
			alt, err := RefEvalAs(c.Src, c.Rsize, c.InVals, bud, rd)
			if err != nil || k >= len(alt.Routines) {
				return false
			}
			m, _, _ := compare(alt.Routines[k], got, "")
			return m == ""
		}
		var all refReading
		first := ""
		for _, r := range readings {
			if !r.on {
				continue
			}
			if first == "" {
				first = r.sig
			}
			all.OctalAsDecimal = all.OctalAsDecimal || r.rd.OctalAsDecimal
			all.BreakInSwitchEndsLoop = all.BreakInSwitchEndsLoop || r.rd.BreakInSwitchEndsLoop
			all.SkipEffectCallStmts = all.SkipEffectCallStmts || r.rd.SkipEffectCallStmts
			if agrees(r.rd) {
				return r.sig
			}
		}
		if nReadings >= 2 && agrees(all) {
			return first
		}
		return ""
	}
	classify := func(f *pbt.Failure, k int, got map[int][]uint64) pbt.Outcome {
		if sig := explainedBy(k, got); sig != "" {
			return known(sig, f)
		}
		switch {
		case len(facts.HoistedIncDec) > 0:
			return known(sigHoist, f)
		case len(facts.DefineIgnored) > 0:
			return known(sigDefIgn, f)
		case len(facts.LeakDecl) > 0:
			return known(sigLeak, f)
		case len(facts.DefineMemShadow) > 0:
			return known(sigDefMem, f)
		case len(facts.MultiReturn) > 0:
			return known(sigMultiRet, f)
		case eqTrue > 0:
			return known(sigJe, f)
		}
		return finish(pbt.Outcome{Fail: f})
	}
	// compare: prefix-wise per output; short = the machine has (so far) written fewer values than the source
	compare = func(rr RoutineRes, got map[int][]uint64, span string) (mismatch string, short bool, n int) {
		for _, idx := range sortedKeys(rr.Streams) {
			want := rr.Streams[idx]
			g := got[idx]
			for i := 0; i < len(want) && i < len(g); i++ {
				if g[i] != want[i] {
					return fmt.Sprintf("output %d (global id %d): value #%d is %d, expected %d", idx, rr.Gids[idx], i, g[i], want[i]), false, n
				}
			}
			if len(g) < len(want) {
				return fmt.Sprintf("output %d (global id %d): the machine wrote %d values in %s, the source writes %d in the same span", idx, rr.Gids[idx], len(g), span, len(want)), true, n
			}
			n += len(want)
		}
		for _, idx := range sortedKeys(got) {
			if _, ok := rr.Streams[idx]; !ok && len(got[idx]) > 0 && rr.Stopped == "budget" {
				// the reference stopped on its budget: an output it had not reached yet may legitimately appear later
				if rr.Writes >= bud.MaxWrites || rr.Evals >= bud.MaxEvals {
					continue
				}
				return fmt.Sprintf("output %d is written by the machine (%v) and never by the source", idx, got[idx]), false, n
			}
		}
		return "", false, n
	}
	allFaithful, allHDL := true, true
	var badOps []string
	for _, p := range ld.Procs {
		if bad := unfaithfulOps(p.Ops, c.Rsize); len(bad) > 0 {
			allFaithful = false
			badOps = append(badOps, bad...)
			if !hdlEligible(p.Ops, c.Rsize) {
				allHDL = false
			}
		}
	}
	hasChan := false
	for _, p := range ld.Procs {
		hasChan = hasChan || usesChannels(p.Ops)
	}
	if hasChan {
		// ---- machines with channels: the processors run together, channel opcodes by their stated meaning (sim.go SimulateBM)
		for _, p := range ld.Procs {
			if !chanSimEligible(p.Ops, c.Rsize) {
				sort.Strings(badOps)
				lab("sem:needs-hdl")
				lab("sem:needs-hdl:" + strings.Join(dedup(badOps), ","))
				return finish(out)
			}
		}
		inputs := make([][]uint64, len(ld.Procs))
		want := make([]map[int]int, len(ld.Procs))
		rounds := 400
		for k, p := range ld.Procs {
			rr := ref.Routines[k]
			inputs[k] = make([]uint64, int(p.Mach.N))
			for idx, gid := range rr.InGids {
				if idx < len(inputs[k]) && gid < len(c.InVals) {
					inputs[k][idx] = c.InVals[gid]
				}
			}
			want[k] = map[int]int{}
			for idx, st := range rr.Streams {
				want[k][idx] = len(st)
			}
			rounds += 20 * rr.Evals
		}
		got, executed, ended, serr := SimulateBM(ld, inputs, rounds, want)
		lab("sem:chansim-ended:" + ended)
		total := 0
		for k := range ld.Procs {
			rr := ref.Routines[k]
			var gk map[int][]uint64
			var ex int
			if k < len(got) {
				gk, ex = got[k], executed[k]
			}
			// (the number of rounds is twenty per evaluation step of the whole source, as on the single-processor
			// path: a stream that is still short then is short)
			mismatch, _, n := compare(rr, gk, fmt.Sprintf("%d instructions (the bondmachine's processors run together, the run ended %s)", ex, ended))
			if serr != nil {
				mismatch = "simulation stopped: " + serr.Error()
			}
			total += n
			if mismatch == "" {
				continue
			}
			streams := ""
			for q := range ld.Procs {
				var gq map[int][]uint64
				if q < len(got) {
					gq = got[q]
				}
				streams += fmt.Sprintf("processor %d (%s, %s): expected %v machine %v\n", q, ref.Routines[q].Func, ref.Routines[q].Stopped, clip(ref.Routines[q].Streams), clip(gq))
			}
			asm := ""
			for _, q := range sortedKeys(base.Asm) {
				asm += fmt.Sprintf("--- assembly %d\n%s", q, numbered(base.Asm[q]))
			}
			return classify(pbt.Failf(sigSemantics, "register size %d, processor %d (%s), processors run together with rendezvous channels: %s\n%sshared links %v\n--- source\n%s%s",
				c.Rsize, k, rr.Func, mismatch, streams, sharedLinks(base.Machine), c.Src, asm), k, gk)
		}
		lab("sem:chansim-verdict")
		if eqTrue > 0 || facts.Labels["op:=="] {
			lab("sem:chansim-verdict-with-je")
		}
		out.NonTrivial = ref.Vars >= 2 && facts.Loops+facts.Branches >= 1 && total >= 3
		return finish(out)
	}
	if !allFaithful && !allHDL {
		sort.Strings(badOps)
		lab("sem:needs-hdl")
		lab("sem:needs-hdl:" + strings.Join(dedup(badOps), ","))
		return finish(out)
	}
	total := 0
	if allFaithful {
		for k, p := range ld.Procs {
			rr := ref.Routines[k]
			inputs := make([]uint64, int(p.Mach.N))
			for idx, gid := range rr.InGids {
				if idx < len(inputs) && gid < len(c.InVals) {
					inputs[idx] = c.InVals[gid]
				}
			}
			ticks := 20*rr.Evals + 200
			got, executed, serr := Simulate(p.Mach, inputs, ticks, nil)
			mismatch, _, n := compare(rr, got, fmt.Sprintf("%d instructions", executed))
			if serr != nil {
				mismatch = "simulation stopped: " + serr.Error()
			}
			total += n
			if mismatch != "" && eqTrue > 0 && nReadings+len(facts.HoistedIncDec)+len(facts.DefineIgnored)+len(facts.LeakDecl)+len(facts.DefineMemShadow)+len(facts.MultiReturn) == 0 {
				// the only recorded finding that applies is je (== compiled to a placeholder). Run the same
				// ROM again with je executed as the compiler means it: a difference that remains is not
				// explained by the recorded finding.
				got2, executed2, serr2 := Simulate(p.Mach, inputs, ticks, asmLines(base.Asm[k]))
				m2, _, _ := compare(rr, got2, fmt.Sprintf("%d instructions", executed2))
				if serr2 != nil {
					m2 = "simulation stopped: " + serr2.Error()
				}
				if m2 != "" {
					return finish(pbt.Outcome{Fail: pbt.Failf(sigBehindJe, "register size %d, processor %d (%s), Go simulator with je executed as jump-if-equal (what the compiler means by it): %s\nexpected streams (per output, first 32) %v\nmachine streams  (per output, first 32) %v\n--- source\n%s--- assembly %d\n%s",
						c.Rsize, k, rr.Func, m2, clip(rr.Streams), clip(got2), c.Src, k, numbered(base.Asm[k]))})
				}
				lab("sem:agrees-with-intended-je")
			}
			if mismatch != "" {
				return classify(pbt.Failf(sigSemantics, "register size %d, processor %d (%s), Go simulator: %s\nexpected streams (per output, first 32) %v\nmachine streams  (per output, first 32) %v\n--- source\n%s--- assembly %d\n%s",
					c.Rsize, k, rr.Func, mismatch, clip(rr.Streams), clip(got), c.Src, k, numbered(base.Asm[k])), k, got)
			}
			if c.Mpm && ld.BM != nil {
				bonds := ld.BM.List_bonds()
				for _, idx := range sortedKeys(rr.Streams) {
					found := false
					for _, b := range bonds {
						if strings.HasPrefix(b, fmt.Sprintf("p%do%d,o", k, idx)) {
							found = true
						}
					}
					if !found {
						return finish(pbt.Outcome{Fail: pbt.Failf("bm-output-unbonded", "output %d of processor %d (global id %d) reaches no output of the bondmachine; bonds %v\n--- source\n%s", idx, k, rr.Gids[idx], bonds, c.Src)})
					}
				}
			}
		}
		lab("sem:gosim-verdict")
		if eqTrue > 0 || facts.Labels["op:=="] {
			lab("sem:gosim-verdict-with-je")
		}
	}
	// ---- the generated Verilog under the in-house interpreter: the only executable semantics of r2m/m2r
	// (RAM variables), and for faithful machines (c.HDL) a guard of this very path: there the Go simulator
	// has just agreed with the source, so the hardware must too
	if !allFaithful || c.HDL {
		bm, werr := wrapBM(ld, c.Rsize)
		if werr != nil {
			lab("sem:hdl-not-elaborable:wrap")
			return finish(out)
		}
		// constant per external input of the bondmachine
		inVals := make([]uint64, bm.Inputs)
		if ld.BM == nil {
			for idx, gid := range ref.Routines[0].InGids {
				if idx < len(inVals) && gid < len(c.InVals) {
					inVals[idx] = c.InVals[gid]
				}
			}
		} else {
			for _, b := range bm.List_bonds() {
				var k, pp, j int
				if n, _ := fmt.Sscanf(b, "i%d,p%di%d", &k, &pp, &j); n == 3 && k < len(inVals) && pp < len(ref.Routines) {
					if gid, ok := ref.Routines[pp].InGids[j]; ok && gid < len(c.InVals) {
						inVals[k] = c.InVals[gid]
					}
				}
			}
		}
		instr := 0
		want := make([]map[int]int, len(ref.Routines))
		for k, rr := range ref.Routines {
			if t := 20*rr.Evals + 200; t > instr {
				instr = t
			}
			want[k] = map[int]int{}
			for idx, st := range rr.Streams {
				want[k][idx] = len(st)
			}
		}
		full := 8 * instr // cycles: no instruction bondgo emits takes more than a few
		budget := full
		if budget > hdlCycleCap {
			budget = hdlCycleCap
		}
		h := RunHDL(bm, len(ld.Procs), inVals, budget, want)
		switch {
		case strings.HasPrefix(h.Status, "not-elaborable:"):
			lab("sem:hdl-" + h.Status)
			lab("sem:hdl-not-elaborable")
			return finish(out)
		case h.Status != "":
			lab("sem:hdl-" + h.Status)
			return finish(out)
		}
		hdlTotal := 0
		for k := range ld.Procs {
			rr := ref.Routines[k]
			mismatch, short, n := compare(rr, h.Streams[k], fmt.Sprintf("%d clock cycles (%d program-counter updates)", h.Cycles, h.Retired[k]))
			hdlTotal += n
			if mismatch == "" {
				continue
			}
			if short && budget < full && h.LastTick[k] > h.Cycles-64 {
				// the cycle cap, not the liveness bound, ended the run and the processor was still retiring
				lab("sem:hdl-inconclusive-short")
				return finish(out)
			}
			f := pbt.Failf(sigSemantics, "register size %d, processor %d (%s), generated Verilog under the interpreter: %s\nexpected streams (per output, first 32) %v\nhardware streams (per output, first 32) %v\n--- source\n%s--- assembly %d\n%s",
				c.Rsize, k, rr.Func, mismatch, clip(rr.Streams), clip(h.Streams[k]), c.Src, k, numbered(base.Asm[k]))
			if allFaithful {
				// (the Go simulator's j/jz do not jump to an address past the last instruction, the hardware does:
				// a recorded finding whose effect is a jump out of the routine's last loop shows only here)
				if sig := explainedBy(k, h.Streams[k]); sig != "" {
					return known(sig, f)
				}
				f.Sig = "hdl-disagrees-where-simulator-agrees"
				return finish(pbt.Outcome{Fail: f})
			}
			return classify(f, k, h.Streams[k])
		}
		if allFaithful {
			lab("sem:hdl-guard-agrees")
		} else {
			lab("sem:hdl-verdict")
			total = hdlTotal
			if eqTrue > 0 || facts.Labels["op:=="] {
				lab("sem:hdl-verdict-with-je")
			}
		}
	}
	out.NonTrivial = ref.Vars >= 2 && facts.Loops+facts.Branches >= 1 && total >= 3
	return finish(out)
}

// hdlCycleCap bounds one interpreter run. A run that ends on the cap (not on the liveness bound) with the
// hardware still retiring instructions is labelled inconclusive-short, never judged.
const hdlCycleCap = 60000

func dedup(xs []string) []string {
	var r []string
	for i, x := range xs {
		if i == 0 || x != xs[i-1] {
			r = append(r, x)
		}
	}
	return r
}

const ruleCommon = "; each program is compiled by the real bondgo CLI once per plan (3 plans: GOMAXPROCS in {1,2,4,8} x VERIF_BONDGO_SCHED), register size 8/16/32/64, every routine ends in an endless writing loop; oracles: (i) every run terminates (10 s; a goroutine dump classifies hangs), (ii) assembly and machine JSON byte-equal across plans, (iii) reference evaluator vs the machine: on the Go simulator when all requested opcodes are faithful there; on the generated Verilog (real Write_verilog, in-house interpreter, r2o writes observed on _auxoK) when the machine also uses the RAM moves r2m/m2r, and for one in eight faithful machines as a guard of that path; machines with channel opcodes (which neither back-end of /repo executes) run with all their processors together, wwr/wrd/chw by their stated meaning as an unbuffered rendezvous between the two processors linked to the shared object, r2m/m2r as a per-processor array (sim.go SimulateBM; label sem:chansim-verdict); with -mpm every processor port must be bonded to the bondmachine port of the global id its variable was made with (external ports are in ascending id order); a permanent deadlock of the compiler is recognised from the dump (every goroutine parked) without waiting for the deadline; non-trivial = accepted, >=2 value variables, >=1 loop or branch, >=3 output values compared with the reference"

var Props = []*pbt.Entry{
	pbt.Def("compile_faithful",
		"Go-subset programs biased to the simulator-faithful opcode set: register variables (reg_ names), = := ++ -- + *, if/else on constants and ==, for with/without clauses, break/continue, value functions (inlined), IOWrite/IORead, a small share of switch (default-only switches compile without a comparison), unsupported operators and -mpm with independent `go f()` workers; integer literals in every spelling (0x, 0b, leading zero; legacy octal in ~6% of the programs), break inside switch clauses, value functions called as statements (~4%: a function that writes an output), 0-8 inputs and 1-5 outputs (9-10 inputs, the recorded termination finding, in ~2%), Make calls out of declaration order (~8%)"+ruleCommon,
		genCase(GenOpts{Faithful: true}), prop),
	pbt.Def("compile_full",
		"Go-subset programs over the whole accepted grammar: additionally RAM variables (r2m/m2r), == everywhere, switch/fallthrough, -mpm with `go f()` workers, channel producers, (about a sixth of the -mpm programs) a value-returning helper that sends on a channel parameter and is called inline from main with consumers started by go — also with a second channel declared after the call and with a second call site on the same channel —, by-value goroutine arguments (one or two), plus the literal/break/call-statement/IO-count/Make-order shapes of compile_faithful"+ruleCommon,
		genCase(GenOpts{Faithful: false}), prop),
}

// onlyAsmDiffers: the two runs ended the same way, said the same and wrote the same machine; the listings differ.
func onlyAsmDiffers(a, b RunResult) bool {
	if a.Status != b.Status || a.Stdout != b.Stdout || string(a.Machine) != string(b.Machine) || len(a.Asm) != len(b.Asm) {
		return false
	}
	differ := false
	for k := range a.Asm {
		if a.Asm[k] != b.Asm[k] {
			differ = true
		}
	}
	return differ
}

func bondList(bm *bondmachine.Bondmachine) []string {
	var r []string
	m := bm.List_bonds()
	for _, k := range sortedKeys(m) {
		r = append(r, m[k])
	}
	return r
}

// ioBinding checks, on a bondmachine written by bondgo -mpm, that every processor port stands for the global
// id the source gave (bondgo.Make) to the variable the port is named after. The compiler names a port by the
// declaration index of its variable (the harness's identity of a stream too); which global id a port IS
// follows from the bondmachine: external ports are created in ascending order of global id. checked is false
// when that convention cannot be applied (an id used on both sides, port counts that do not match).
func ioBinding(bm *bondmachine.Bondmachine, ref RefResult) (msg string, checked bool) {
	outSet, inSet := map[int]bool{}, map[int]bool{}
	for _, rr := range ref.Routines {
		for idx, g := range rr.Gids {
			if !rr.Inner[idx] {
				outSet[g] = true
			}
		}
		for _, g := range rr.InGids {
			inSet[g] = true
		}
	}
	for g := range outSet {
		if inSet[g] {
			return "", false
		}
	}
	sorted := func(m map[int]bool) []int {
		var r []int
		for g := range m {
			r = append(r, g)
		}
		sort.Ints(r)
		return r
	}
	outs, ins := sorted(outSet), sorted(inSet)
	if len(outs) != bm.Outputs || len(ins) != bm.Inputs {
		return "", false
	}
	bonds := bondList(bm)
	for k, rr := range ref.Routines {
		for _, idx := range sortedKeys(rr.Gids) {
			if rr.Inner[idx] {
				continue
			}
			for _, b := range bonds {
				var pp, j, r int
				if n, _ := fmt.Sscanf(b, "p%do%d,o%d", &pp, &j, &r); n == 3 && pp == k && j == idx && r < len(outs) && outs[r] != rr.Gids[idx] {
					return fmt.Sprintf("routine %d (%s): the output variable declared #%d is made with global id %d; the compiler writes it to port o%d of processor %d, which is bonded to the bondmachine output o%d, i.e. global id %d (external outputs in ascending id order: %v)",
						k, rr.Func, idx, rr.Gids[idx], idx, k, r, outs[r], outs), true
				}
			}
		}
		for _, idx := range sortedKeys(rr.InGids) {
			for _, b := range bonds {
				var pp, j, r int
				if n, _ := fmt.Sscanf(b, "i%d,p%di%d", &r, &pp, &j); n == 3 && pp == k && j == idx && r < len(ins) && ins[r] != rr.InGids[idx] {
					return fmt.Sprintf("routine %d (%s): the input variable declared #%d is made with global id %d; the compiler reads it from port i%d of processor %d, which is bonded to the bondmachine input i%d, i.e. global id %d (external inputs in ascending id order: %v)",
						k, rr.Func, idx, rr.InGids[idx], idx, k, r, ins[r], ins), true
				}
			}
		}
	}
	return "", true
}

// jumpsPastFullRom: the listing has exactly 2^k lines and a jump whose target is the address one past the
// last line (a break out of the last loop, a return): the ROM the compiler asks for (k address bits) cannot
// express that target.
func jumpsPastFullRom(asm string) bool {
	lines := asmLines(asm)
	n := len(lines)
	if n == 0 || n&(n-1) != 0 {
		return false
	}
	for _, l := range lines {
		f := strings.Fields(l)
		if len(f) >= 2 && (f[0] == "j" || f[0] == "jz" || f[0] == "je") && f[len(f)-1] == fmt.Sprint(n) {
			return true
		}
	}
	return false
}

func sharedLinks(js []byte) string {
	var m map[string]json.RawMessage
	if json.Unmarshal(js, &m) != nil {
		return "?"
	}
	return string(m["Shared_links"])
}

// onlySharedLinksOrderDiffers: everything the two runs wrote is equal except the order inside the
// per-processor lists of Shared_links.
func onlySharedLinksOrderDiffers(a, b RunResult) bool {
	norm := func(r RunResult) (string, bool) {
		var m map[string]json.RawMessage
		if json.Unmarshal(r.Machine, &m) != nil {
			return "", false
		}
		var sl [][]int
		if json.Unmarshal(m["Shared_links"], &sl) != nil {
			return "", false
		}
		for _, l := range sl {
			sort.Ints(l)
		}
		nb, _ := json.Marshal(sl)
		m["Shared_links"] = nb
		out, _ := json.Marshal(m)
		r.Machine = out
		return r.Fingerprint(), true
	}
	fa, ok1 := norm(a)
	fb, ok2 := norm(b)
	return ok1 && ok2 && fa == fb
}

func needTools(t *testing.T) {
	if _, err := toolPath("bondgo"); err != nil {
		t.Fatalf("C12 drives the real CLI: %v", err)
	}
}

func TestProps(t *testing.T) {
	needTools(t)
	t.Cleanup(CleanupWork)
	pbt.RunAll(t, "C12", Props)
}

func TestReplay(t *testing.T) {
	if os.Getenv("VERIF_REPLAY_DIR") != "" {
		needTools(t)
	}
	t.Cleanup(CleanupWork)
	pbt.ReplayAll(t, "C12", Props)
}

// ---------------------------------------------------------------------------
// development aids

// TestShow prints a few generated programs: VERIF_C12_SHOW=n go test -run TestShow
func TestShow(t *testing.T) {
	if os.Getenv("VERIF_C12_SHOW") == "" {
		t.Skip("VERIF_C12_SHOW not set")
	}
	o := GenOpts{Faithful: os.Getenv("VERIF_C12_SHOW") == "faithful"}
	for i := 0; i < 6; i++ {
		c := rapid.Custom(genCase(o)).Example(i)
		b, _ := json.Marshal(c.Plans)
		fmt.Printf("===== rsize=%d mpm=%v plans=%s\n%s", c.Rsize, c.Mpm, b, c.Src)
	}
}

// ---------------------------------------------------------------------------
// known/ replay files: VERIF_C12_WRITE_KNOWN=<dir> go test -run TestWriteKnown

const hdr = "package main\n\nimport (\n\t\"bondgo\"\n)\n\n"

func manyPlans(n int) []Plan {
	var ps []Plan
	for i := 0; i < n; i++ {
		ps = append(ps, Plan{GoMaxProcs: []int{1, 2, 4, 8}[i%4], Sched: schedPlans[(i+2)%len(schedPlans)]})
	}
	return ps
}

var knownCases = []struct {
	file, entry, sig string
	c                Case
}{
	{"D8-compile-hang", "compile_faithful", sigD8, Case{Rsize: 8, Plans: manyPlans(14), Src: hdr + `func main() {
	var out0 bondgo.Output
	var reg_a uint8
	var reg_b uint8
	out0 = bondgo.Make(bondgo.Output, 3)
	reg_a = 1
	reg_b = 2
	for {
		reg_a = reg_a + reg_b
		reg_b++
		bondgo.IOWrite(out0, reg_a)
	}
}
`}},
	{"eq-compiled-to-placeholder-je", "compile_faithful", sigJe, Case{Rsize: 8, Plans: manyPlans(3), Src: hdr + `func main() {
	var out0 bondgo.Output
	var reg_a uint8
	var reg_b uint8
	out0 = bondgo.Make(bondgo.Output, 1)
	for {
		if reg_a == 0 {
			reg_b = 7
		}
		reg_a = reg_a + 1
		bondgo.IOWrite(out0, reg_b)
		bondgo.IOWrite(out0, reg_a+reg_b)
	}
}
`}},
	{"incdec-written-to-outer-context", "compile_faithful", sigHoist, Case{Rsize: 8, Plans: manyPlans(3), Src: hdr + `func main() {
	var out0 bondgo.Output
	var reg_a uint8
	var reg_b uint8
	out0 = bondgo.Make(bondgo.Output, 1)
	for {
		if false {
			reg_a++
		}
		reg_b = reg_b + 2
		bondgo.IOWrite(out0, reg_a)
		bondgo.IOWrite(out0, reg_a+reg_b)
	}
}
`}},
	{"multiple-returns", "compile_faithful", sigMultiRet, Case{Rsize: 8, Plans: manyPlans(3), Src: hdr + `func f1(a0 uint8) uint8 {
	if false {
		return 9
	}
	return a0 + 1
}

func main() {
	var out0 bondgo.Output
	var reg_a uint8
	var reg_b uint8
	out0 = bondgo.Make(bondgo.Output, 1)
	for {
		reg_a = f1(reg_a)
		reg_b = reg_b + 2
		bondgo.IOWrite(out0, reg_a)
		bondgo.IOWrite(out0, reg_a+reg_b)
	}
}
`}},
	{"go-value-arg-empty-rom", "compile_full", sigGoValue, Case{Rsize: 8, Mpm: true, Plans: manyPlans(3), Src: hdr + `func w1(k uint8) {
	var outw bondgo.Output
	var reg_p uint8
	outw = bondgo.Make(bondgo.Output, 2)
	reg_p = k
	for {
		reg_p++
		bondgo.IOWrite(outw, reg_p)
	}
}

func main() {
	var out0 bondgo.Output
	var reg_a uint8
	var reg_b uint8
	out0 = bondgo.Make(bondgo.Output, 1)
	go w1(5)
	for {
		reg_a++
		bondgo.IOWrite(out0, reg_a+reg_b)
	}
}
`}},
	// Go starts the iteration of a two-entry map at a random slot of its 8-slot bucket: the second order shows up in
	// about one run out of eight, hence the many plans
	{"shared-links-map-order", "compile_full", sigShLinks, Case{Rsize: 8, Mpm: true, Plans: manyPlans(40), Src: hdr + `func w1(c chan uint8) {
	var reg_p uint8
	for {
		c <- reg_p
		reg_p++
	}
}

func w2(c chan uint8) {
	var reg_q uint8
	for {
		c <- reg_q
		reg_q++
	}
}

func main() {
	var out0 bondgo.Output
	var reg_a uint8
	var reg_b uint8
	var ch1 chan uint8
	var ch2 chan uint8
	out0 = bondgo.Make(bondgo.Output, 1)
	go w1(ch1)
	go w2(ch2)
	for {
		reg_a = <-ch1
		reg_b = <-ch2
		bondgo.IOWrite(out0, reg_a+reg_b)
	}
}
`}},
}

func init() {
	knownCases = append(knownCases, []struct {
		file, entry, sig string
		c                Case
	}{
		// 8 lines of assembly, the break is "j 8": three address bits cannot say 8
		{"jump-past-last-rom-address", "compile_faithful", sigEndJump, Case{Rsize: 8, Plans: manyPlans(3), Src: hdr + `func main() {
	var out0 bondgo.Output
	var reg_a uint8
	out0 = bondgo.Make(bondgo.Output, 1)
	for {
		reg_a++
		bondgo.IOWrite(out0, reg_a)
		if true {
			break
		}
	}
}
`}},
		{"declaration-outlives-case-clause", "compile_faithful", sigLeak, Case{Rsize: 8, Plans: manyPlans(3), Src: hdr + `func main() {
	var out0 bondgo.Output
	var reg_x uint8
	var reg_y uint8
	out0 = bondgo.Make(bondgo.Output, 1)
	reg_x = 5
	if true {
		switch reg_y {
		default:
			var reg_x uint8
			reg_x = 9
			reg_y = reg_y + reg_x
		}
		reg_y = reg_y + reg_x
	}
	for {
		bondgo.IOWrite(out0, reg_x)
		bondgo.IOWrite(out0, reg_y)
		reg_y++
	}
}
`}},
		{"define-of-ram-name-never-binds", "compile_full", sigDefMem, Case{Rsize: 8, Plans: manyPlans(3), Src: hdr + `func main() {
	var out0 bondgo.Output
	var x uint8
	var reg_y uint8
	out0 = bondgo.Make(bondgo.Output, 1)
	x = 5
	if true {
		x := 9
		reg_y = reg_y + x
	}
	for {
		bondgo.IOWrite(out0, reg_y)
		bondgo.IOWrite(out0, x)
		reg_y++
	}
}
`}},
		{"define-of-existing-name-dropped", "compile_faithful", sigDefIgn, Case{Rsize: 8, Plans: manyPlans(3), Src: hdr + `func main() {
	var out0 bondgo.Output
	var reg_x uint8
	var reg_y uint8
	out0 = bondgo.Make(bondgo.Output, 1)
	reg_x = 5
	for reg_x := 3; ; reg_x++ {
		reg_y = reg_y + reg_x
		break
	}
	for {
		bondgo.IOWrite(out0, reg_x)
		bondgo.IOWrite(out0, reg_y)
		reg_y++
	}
}
`}},
	}...)
}

func init() {
	knownCases = append(knownCases, []struct {
		file, entry, sig string
		c                Case
	}{
		// round 4
		{"legacy-octal-literal-read-as-decimal", "compile_faithful", sigOctal, Case{Rsize: 8, Plans: manyPlans(3), Src: hdr + `func main() {
	var out0 bondgo.Output
	var reg_a uint8
	var reg_b uint8
	out0 = bondgo.Make(bondgo.Output, 1)
	for {
		reg_a = reg_a + 017
		reg_b = reg_b + 2
		bondgo.IOWrite(out0, reg_a)
		bondgo.IOWrite(out0, reg_a+reg_b)
	}
}
`}},
		{"break-in-switch-leaves-the-loop", "compile_faithful", sigBrkSwitch, Case{Rsize: 8, Plans: manyPlans(3), Src: hdr + `func main() {
	var out0 bondgo.Output
	var reg_a uint8
	var reg_b uint8
	out0 = bondgo.Make(bondgo.Output, 1)
	for {
		for {
			switch reg_a {
			default:
				break
			}
			reg_a = reg_a + 1
			break
		}
		reg_b = reg_b + 2
		bondgo.IOWrite(out0, reg_a)
		bondgo.IOWrite(out0, reg_a+reg_b)
	}
}
`}},
		{"call-statement-emits-nothing", "compile_faithful", sigCallStmt, Case{Rsize: 8, Plans: manyPlans(3), Src: hdr + `func e1(v uint8) {
	var o bondgo.Output
	o = bondgo.Make(bondgo.Output, 2)
	bondgo.IOWrite(o, v)
}

func main() {
	var out0 bondgo.Output
	var reg_a uint8
	var reg_b uint8
	out0 = bondgo.Make(bondgo.Output, 1)
	for {
		reg_a = reg_a + 1
		reg_b = reg_b + 2
		e1(reg_a)
		bondgo.IOWrite(out0, reg_a+reg_b)
	}
}
`}},
		// nine inputs: 9 declarations + 9 Make calls ask for 18 of the 16 local input ids
		{"io-ids-exhausted-allocator-sends-no-answer", "compile_faithful", sigIOIds, Case{Rsize: 8, Plans: manyPlans(3), Src: hdr + `func main() {
	var out0 bondgo.Output
	var in0 bondgo.Input
	var in1 bondgo.Input
	var in2 bondgo.Input
	var in3 bondgo.Input
	var in4 bondgo.Input
	var in5 bondgo.Input
	var in6 bondgo.Input
	var in7 bondgo.Input
	var in8 bondgo.Input
	var reg_a uint8
	out0 = bondgo.Make(bondgo.Output, 1)
	in0 = bondgo.Make(bondgo.Input, 11)
	in1 = bondgo.Make(bondgo.Input, 12)
	in2 = bondgo.Make(bondgo.Input, 13)
	in3 = bondgo.Make(bondgo.Input, 14)
	in4 = bondgo.Make(bondgo.Input, 15)
	in5 = bondgo.Make(bondgo.Input, 16)
	in6 = bondgo.Make(bondgo.Input, 17)
	in7 = bondgo.Make(bondgo.Input, 18)
	in8 = bondgo.Make(bondgo.Input, 19)
	for {
		reg_a = reg_a + bondgo.IORead(in0) + bondgo.IORead(in8)
		bondgo.IOWrite(out0, reg_a)
	}
}
`}},
		{"io-named-by-declaration-bound-by-make-order", "compile_faithful", sigIOOrder, Case{Rsize: 8, Mpm: true, Plans: manyPlans(3), Src: hdr + `func main() {
	var out0 bondgo.Output
	var out1 bondgo.Output
	var reg_a uint8
	var reg_b uint8
	out1 = bondgo.Make(bondgo.Output, 3)
	out0 = bondgo.Make(bondgo.Output, 5)
	for {
		reg_a = reg_a + 1
		reg_b = reg_b + 2
		bondgo.IOWrite(out0, reg_a)
		bondgo.IOWrite(out1, reg_a+reg_b)
	}
}
`}},
		// map iteration order: each of the two orders shows up often, hence the many plans
		{"go-value-args-map-order", "compile_full", sigGoArgs, Case{Rsize: 8, Mpm: true, Plans: manyPlans(24), Src: hdr + `func w1(k uint8, j uint8) {
	var outw bondgo.Output
	var reg_p uint8
	outw = bondgo.Make(bondgo.Output, 2)
	reg_p = k
	for {
		reg_p = reg_p + j
		bondgo.IOWrite(outw, reg_p)
	}
}

func main() {
	var out0 bondgo.Output
	var reg_a uint8
	var reg_b uint8
	out0 = bondgo.Make(bondgo.Output, 1)
	go w1(5, 3)
	for {
		reg_a = reg_a + 1
		bondgo.IOWrite(out0, reg_a+reg_b)
	}
}
`}},
	}...)
}

func TestWriteKnown(t *testing.T) {
	dir := os.Getenv("VERIF_C12_WRITE_KNOWN")
	if dir == "" {
		t.Skip("VERIF_C12_WRITE_KNOWN not set")
	}
	needTools(t)
	t.Cleanup(CleanupWork)
	_ = os.MkdirAll(dir, 0o755)
	for _, k := range knownCases {
		if !openFindings[k.sig] {
			continue // repaired in /repo: its replay lives outside known/ and must pass
		}
		k.c.Strict = true
		k.c.InVals = make([]uint64, nInVals)
		out := pbt.Guard(func() pbt.Outcome { return prop(k.c) })
		if out.Fail == nil {
			t.Errorf("%s: does not fail (excluded=%q labels=%v)", k.file, out.Excluded, out.Labels)
			continue
		}
		if out.Fail.Sig != k.sig {
			t.Errorf("%s: signature %q, expected %q: %s", k.file, out.Fail.Sig, k.sig, out.Fail.Msg)
		}
		raw, _ := json.Marshal(k.c)
		rf := pbt.ReplayFile{Property: "C12", Entry: k.entry, Failure: out.Fail, Case: raw}
		bs, _ := json.MarshalIndent(rf, "", " ")
		if err := os.WriteFile(dir+"/"+k.file+".json", append(bs, '\n'), 0o644); err != nil {
			t.Fatal(err)
		}
		fmt.Printf("KNOWN %-40s %s\n%s\n\n", k.file, out.Fail.Sig, out.Fail.Msg)
	}
}

// TestRefSelf pins the reference evaluator on hand-computed streams.
func TestRefSelf(t *testing.T) {
	src := hdr + `func f1(a0 uint8, a1 uint8) uint8 {
	var reg_l uint8
	reg_l = a0 * a1
	if reg_l == 6 {
		return 100
	}
	return reg_l + 1
}

func main() {
	var out0 bondgo.Output
	var out1 bondgo.Output
	var in0 bondgo.Input
	var reg_a uint8
	var m uint8
	out0 = bondgo.Make(bondgo.Output, 4)
	out1 = bondgo.Make(bondgo.Output, 2)
	in0 = bondgo.Make(bondgo.Input, 11)
	reg_a = 250
	for reg_i := 0; reg_i == 0; reg_i++ {
		m = m + 3
	}
	switch m {
	case 1, 3:
		m++
		fallthrough
	case 9:
		m = m * 2
	default:
		m = 77
	}
	for {
		reg_a = reg_a + 3
		if reg_a == 0 {
			continue
		}
		bondgo.IOWrite(out0, reg_a)
		bondgo.IOWrite(out1, f1(2, 3)+bondgo.IORead(in0)+m)
	}
}
`
	in := make([]uint64, 16)
	in[11] = 5
	r, err := RefEval(src, 8, in, refBudget{MaxEvals: 4000, MaxWrites: 8})
	if err != nil {
		t.Fatal(err)
	}
	want0 := []uint64{253, 3, 6, 9} // 250+3, +3 wraps to 0 (skipped by continue), then 3, 6, 9
	_ = want0
	got0 := r.Routines[0].Streams[0]
	exp0 := []uint64{253, 3, 6, 9}
	// 253, then 256 wraps to 0 -> continue, then 3, 6, 9
	if fmt.Sprint(got0) != fmt.Sprint(exp0) {
		t.Errorf("out0 %v, expected %v", got0, exp0)
	}
	got1 := r.Routines[0].Streams[1]
	exp1 := []uint64{113, 113, 113, 113} // f1(2,3)=100, +5, +m where m=(3+1)*2=8
	if fmt.Sprint(got1) != fmt.Sprint(exp1) {
		t.Errorf("out1 %v, expected %v", got1, exp1)
	}
	if r.Routines[0].Gids[0] != 4 || r.Routines[0].Gids[1] != 2 || r.Routines[0].InGids[0] != 11 {
		t.Errorf("ids %v %v", r.Routines[0].Gids, r.Routines[0].InGids)
	}
}

// TestSurvey compiles many generated programs once each and prints the rejected/crashing ones:
// VERIF_C12_SURVEY=n go test -run TestSurvey
func TestSurvey(t *testing.T) {
	ns := os.Getenv("VERIF_C12_SURVEY")
	if ns == "" {
		t.Skip("VERIF_C12_SURVEY not set")
	}
	needTools(t)
	t.Cleanup(CleanupWork)
	n := 0
	fmt.Sscanf(ns, "%d", &n)
	type job struct {
		c Case
	}
	jobs := make(chan job)
	var wg sync.WaitGroup
	var mu sync.Mutex
	counts := map[string]int{}
	for w := 0; w < 12; w++ {
		wg.Add(1)
		go func() {
			defer wg.Done()
			for j := range jobs {
				r := RunBondgo(j.c.Src, j.c.Rsize, j.c.Mpm, Plan{GoMaxProcs: 2})
				key := r.Status
				if r.Status == "rejected" || r.Status == "crash" {
					key += ":" + firstErrorLine(r.Stdout, r.Stderr)
				}
				mu.Lock()
				counts[key]++
				first := counts[key] <= 2
				mu.Unlock()
				if first && (r.Status == "crash" || r.Status == "hang" || r.Status == "deadlock") {
					fmt.Printf("SURVEY %s rsize=%d mpm=%v\n%s--- stdout\n%s--- stderr\n%s\n", key, j.c.Rsize, j.c.Mpm, j.c.Src, r.Stdout, dumpHead(r.Stderr))
				}
			}
		}()
	}
	for i := 0; i < n; i++ {
		o := GenOpts{Faithful: i%2 == 0}
		jobs <- job{rapid.Custom(genCase(o)).Example(i)}
	}
	close(jobs)
	wg.Wait()
	var ks []string
	for k := range counts {
		ks = append(ks, k)
	}
	sort.Strings(ks)
	for _, k := range ks {
		fmt.Printf("SURVEY %-60s %d\n", k, counts[k])
	}
}

// TestRefScoping pins Go's block scoping in the reference: the innermost declaration wins for reads and
// writes, the outer variable is untouched and visible again after the inner scope.
func TestRefScoping(t *testing.T) {
	src := hdr + `func main() {
	var out0 bondgo.Output
	var reg_x uint8
	var reg_y uint8
	out0 = bondgo.Make(bondgo.Output, 1)
	reg_x = 5
	for {
		var reg_x uint8
		reg_x = 9
		reg_y = reg_y + reg_x
		break
	}
	if true {
		reg_x := reg_x + 1
		reg_x++
		reg_y = reg_y + reg_x
	}
	switch reg_y {
	default:
		var reg_x uint8
		reg_x = 2
		reg_y = reg_y + reg_x
	}
	for reg_x := 3; ; reg_x++ {
		reg_y = reg_y + reg_x
		break
	}
	for {
		bondgo.IOWrite(out0, reg_x)
		bondgo.IOWrite(out0, reg_y)
		reg_y++
	}
}
`
	r, err := RefEval(src, 8, make([]uint64, 16), refBudget{MaxEvals: 4000, MaxWrites: 6})
	if err != nil {
		t.Fatal(err)
	}
	got := r.Routines[0].Streams[0]
	exp := []uint64{5, 21, 5, 22, 5, 23} // y = 9 + 7 + 2 + 3
	if fmt.Sprint(got) != fmt.Sprint(exp) {
		t.Errorf("stream %v, expected %v", got, exp)
	}
	f, err := StaticFacts(src)
	if err != nil {
		t.Fatal(err)
	}
	for _, l := range []string{"shadowing", "shadow-assign-inside", "shadow-read-after", "shadow-read-inside", "define-of-name-in-same-map"} {
		if !f.Labels[l] {
			t.Errorf("label %s missing: %v", l, f.Labels)
		}
	}
	if f.Shadowing != 4 {
		t.Errorf("shadowing declarations %d, expected 4", f.Shadowing)
	}
}

// TestHDLProbe compiles one program and runs it on both back-ends: VERIF_C12_PROBE=<file.go> [VERIF_C12_PROBE_MPM=1]
func TestHDLProbe(t *testing.T) {
	fn := os.Getenv("VERIF_C12_PROBE")
	if fn == "" {
		t.Skip("VERIF_C12_PROBE not set")
	}
	needTools(t)
	t.Cleanup(CleanupWork)
	b, err := os.ReadFile(fn)
	if err != nil {
		t.Fatal(err)
	}
	mpm := os.Getenv("VERIF_C12_PROBE_MPM") != ""
	r := RunBondgo(string(b), 8, mpm, Plan{GoMaxProcs: 2})
	fmt.Printf("status=%s stdout=%q\n", r.Status, r.Stdout)
	for _, k := range sortedKeys(r.Asm) {
		fmt.Printf("--- asm %d\n%s", k, numbered(r.Asm[k]))
	}
	if r.Status != "ok" {
		return
	}
	ld, err := LoadMachine(r.Machine, mpm)
	if err != nil {
		t.Fatal(err)
	}
	bm, err := wrapBM(ld, 8)
	if err != nil {
		t.Fatal(err)
	}
	in := make([]uint64, 16)
	h := RunHDL(bm, len(ld.Procs), in, 3000, nil)
	fmt.Printf("hdl status=%q cycles=%d retired=%v\n", h.Status, h.Cycles, h.Retired)
	for p, s := range h.Streams {
		fmt.Printf("hdl proc %d: %v\n", p, clip(s))
	}
	ref, rerr := RefEval(string(b), 8, in, refBudget{MaxEvals: 4000, MaxWrites: 24})
	fmt.Printf("ref err=%v\n", rerr)
	for p, rr := range ref.Routines {
		fmt.Printf("ref proc %d: %v\n", p, clip(rr.Streams))
	}
}

// TestRefRound4 pins the reference and the fact walker on the round-4 shapes (values checked against a real Go
// program: 017 is fifteen; a break inside a switch clause ends the switch, a continue acts on the loop; a call
// used as a statement keeps the callee's side effects).
func TestRefRound4(t *testing.T) {
	src := hdr + `func e1(v uint8) {
	var oute bondgo.Output
	oute = bondgo.Make(bondgo.Output, 7)
	bondgo.IOWrite(oute, v)
}

func f1(a0 uint8) uint8 {
	return a0 + 1
}

func main() {
	var out0 bondgo.Output
	var out1 bondgo.Output
	var reg_a uint8
	var reg_n uint8
	out1 = bondgo.Make(bondgo.Output, 3)
	out0 = bondgo.Make(bondgo.Output, 5)
	bondgo.IOWrite(out0, 017)
	bondgo.IOWrite(out0, 0x1F)
	bondgo.IOWrite(out0, 0b101)
	bondgo.IOWrite(out0, 07)
	for reg_a = 0; reg_a == 0; reg_a = reg_a + 1 {
		switch reg_a {
		case 0:
			break
		}
		bondgo.IOWrite(out1, 7)
	}
	bondgo.IOWrite(out1, 9)
	for {
		switch reg_a {
		case 50:
			bondgo.IOWrite(out1, 1)
		default:
			if reg_n == 0 {
				break
			}
			bondgo.IOWrite(out1, 2)
		}
		bondgo.IOWrite(out1, 3)
		reg_n = reg_n + 1
		if reg_n == 2 {
			break
		}
	}
	f1(reg_a)
	e1(reg_n + 40)
	for {
		bondgo.IOWrite(out0, reg_n)
	}
}
`
	in := make([]uint64, nInVals)
	r, err := RefEval(src, 8, in, refBudget{MaxEvals: 4000, MaxWrites: 14})
	if err != nil {
		t.Fatal(err)
	}
	rr := r.Routines[0]
	if got, exp := fmt.Sprint(rr.Streams[0]), "[15 31 5 7 2 2 2 2]"; got != exp {
		t.Errorf("out0 %s, expected %s", got, exp)
	}
	if got, exp := fmt.Sprint(rr.Streams[1]), "[7 9 3 2 3]"; got != exp {
		t.Errorf("out1 %s, expected %s", got, exp)
	}
	if got, exp := fmt.Sprint(rr.Streams[2]), "[42]"; got != exp || !rr.Inner[2] || rr.Gids[2] != 7 {
		t.Errorf("emitter's output %s (inner=%v gid=%d), expected %s on an inner output with id 7", got, rr.Inner[2], rr.Gids[2], exp)
	}
	// the compiler's readings
	alt, err := RefEvalAs(src, 8, in, refBudget{MaxEvals: 4000, MaxWrites: 14}, refReading{OctalAsDecimal: true, BreakInSwitchEndsLoop: true, SkipEffectCallStmts: true})
	if err != nil {
		t.Fatal(err)
	}
	ar := alt.Routines[0]
	if got, exp := fmt.Sprint(ar.Streams[0]), "[17 31 5 7 0 0 0 0 0 0 0 0 0]"; got != exp {
		t.Errorf("compiler's reading, out0 %s, expected %s", got, exp)
	}
	if got, exp := fmt.Sprint(ar.Streams[1]), "[9]"; got != exp { // both switch-breaks leave their loops
		t.Errorf("compiler's reading, out1 %s, expected %s", got, exp)
	}
	if len(ar.Streams[2]) != 0 {
		t.Errorf("compiler's reading: the call statement still writes %v", ar.Streams[2])
	}
	f, err := StaticFacts(src)
	if err != nil {
		t.Fatal(err)
	}
	if fmt.Sprint(f.OctalLits) != "[017]" || f.BreakInSwitch != 2 || fmt.Sprint(f.EffectCallStmt) != "[e1]" || fmt.Sprint(f.CallStmt) != "[f1 e1]" ||
		fmt.Sprint(f.IOMakeOrder) != "[main:Output]" || len(f.IOIdsExhausted) != 0 || len(f.GoMultiValueArg) != 0 {
		t.Errorf("facts: octal %v break-in-switch %d effect-call %v call %v make-order %v exhausted %v", f.OctalLits, f.BreakInSwitch, f.EffectCallStmt, f.CallStmt, f.IOMakeOrder, f.IOIdsExhausted)
	}
	for _, l := range []string{"lit-legacy-octal", "lit-hex", "lit-binary", "lit-leading-zero-same-value", "break-in-switch-in-for", "call-stmt-with-effect", "io-make-order-differs-from-declaration-order"} {
		if !f.Labels[l] {
			t.Errorf("label %s missing: %v", l, f.Labels)
		}
	}
	// the dump of the compiler stuck on its ninth input is the no-answer deadlock, not slowness and not D8
	dump := "goroutine 1 [chan receive]:\ngithub.com/BondMachineHQ/BondMachine/pkg/bondgo.(*BondgoCheck).Expr_eval(0x1)\nmain.main()\n\n" +
		"goroutine 19 [chan receive]:\ngithub.com/BondMachineHQ/BondMachine/pkg/bondgo.(*BondgoRequirements).Usage_Monitor(0x1)\n\n" +
		"goroutine 20 [chan receive]:\ngithub.com/BondMachineHQ/BondMachine/pkg/bondgo.(*BondgoRuninfo).Var_assigner(0x1)\n"
	if got := classifyDump(dump); got != hangNoAnswer {
		t.Errorf("classifyDump %q, expected %q", got, hangNoAnswer)
	}
	if got := classifyDump(strings.Replace(dump, "goroutine 19 [chan receive]", "goroutine 19 [runnable]", 1)); got != "slow" {
		t.Errorf("classifyDump with a runnable goroutine %q, expected slow", got)
	}
}

// TestRefChannels pins the reference on channels: routines run as coroutines, an inlined helper sends on the
// caller's channel, consumers started by go write what they receive (streams checked against the same program
// written with real goroutines and unbuffered channels: w1 5 6 7…, w2 8 9 10…, main 7 8 9…).
func TestRefChannels(t *testing.T) {
	src := hdr + `func put(c chan uint8, v uint8) uint8 {
	c <- v
	return v + 1
}

func w1(c chan uint8) {
	var o bondgo.Output
	var reg_p uint8
	o = bondgo.Make(bondgo.Output, 1)
	for {
		reg_p = <-c
		bondgo.IOWrite(o, reg_p)
	}
}

func w2(c chan uint8) {
	var o bondgo.Output
	var reg_q uint8
	o = bondgo.Make(bondgo.Output, 2)
	for {
		reg_q = <-c
		bondgo.IOWrite(o, reg_q)
	}
}

func main() {
	var out0 bondgo.Output
	var c1 chan uint8
	var reg_x uint8
	out0 = bondgo.Make(bondgo.Output, 3)
	go w1(c1)
	reg_x = put(c1, 5)
	var c2 chan uint8
	go w2(c2)
	for {
		c2 <- reg_x + 2
		reg_x = put(c1, reg_x)
		bondgo.IOWrite(out0, reg_x)
	}
}
`
	for round := 0; round < 2; round++ { // the same twice: the schedule is fixed
		r, err := RefEval(src, 8, make([]uint64, nInVals), refBudget{MaxEvals: 4000, MaxWrites: 5})
		if err != nil {
			t.Fatal(err)
		}
		if len(r.Routines) != 3 || r.Routines[1].Func != "w1" || r.Routines[2].Func != "w2" {
			t.Fatalf("routines %+v", r.Routines)
		}
		// (budget: five writes per routine. w1 is the first to have written five; main's next send to it then
		// waits for good, after four writes of its own: every stream is a prefix of the unbounded program's)
		for k, exp := range []string{"[7 8 9 10]", "[5 6 7 8 9]", "[8 9 10 11 12]"} {
			if got := fmt.Sprint(r.Routines[k].Streams[0]); got != exp {
				t.Errorf("routine %d (%s, %s): %s, expected %s", k, r.Routines[k].Func, r.Routines[k].Stopped, got, exp)
			}
		}
	}
	f, err := StaticFacts(src)
	if err != nil {
		t.Fatal(err)
	}
	for _, l := range []string{"inline-call-with-chan", "chan-declared-after-inline-call-with-chan", "chan-passed-to-inline-call-twice", "go-chan-arg"} {
		if !f.Labels[l] {
			t.Errorf("label %s missing: %v", l, f.Labels)
		}
	}
	// a receiver whose sender never comes ends blocked, without values
	r, err := RefEval(hdr+`func main() {
	var out0 bondgo.Output
	var c1 chan uint8
	var reg_x uint8
	out0 = bondgo.Make(bondgo.Output, 3)
	bondgo.IOWrite(out0, 1)
	reg_x = <-c1
	bondgo.IOWrite(out0, reg_x)
}
`, 8, make([]uint64, nInVals), refBudget{MaxEvals: 4000, MaxWrites: 5})
	if err != nil || r.Routines[0].Stopped != "blocked" || fmt.Sprint(r.Routines[0].Streams[0]) != "[1]" {
		t.Errorf("lonely receiver: err=%v %+v", err, r.Routines)
	}
}

// raceFrames names the first two functions of the tree under test in a race report (the signature).
func raceFrames(rep string) string {
	m := regexp.MustCompile(`(?m)^  github\.com/BondMachineHQ/BondMachine/(?:pkg/)?(\S+)\(\)`).FindAllStringSubmatch(rep, 2)
	var fs []string
	for _, x := range m {
		fs = append(fs, x[1])
	}
	if len(fs) == 0 {
		return "outside-the-tree"
	}
	return strings.Join(fs, ":")
}
