package c12

// Driver of the real bondgo CLI as a child process under a hard timeout, in a private scratch
// directory, with classification of a non-terminating compiler from its goroutine dump.

import (
	"bytes"
	"fmt"
	"os"
	"os/exec"
	"path/filepath"
	"regexp"
	"sort"
	"strconv"
	"strings"
	"sync/atomic"
	"syscall"
	"time"
)

// Plan is one schedule perturbation of the compiler process.
type Plan struct {
	// ShowReq adds -show-requirements (a report on stdout; the artefacts must not depend on it)
	ShowReq    bool `json:",omitempty"`
	GoMaxProcs int
	// Sched is the value of VERIF_BONDGO_SCHED ("point=k,…": k yields; "point=kus": sleep k µs) read by
	// the verif-tagged hook in pkg/bondgo. Ignored by a binary without the hook.
	Sched string
	// Race runs the compiler built with the Go race detector ($VERIF_TOOLS/race/bondgo): goroutines that
	// share what goes into the output without synchronisation are a dependence on the schedule whether or
	// not this run's schedule showed it
	Race bool `json:",omitempty"`
}

const (
	// the property's deadline for the compiler
	hardTimeout = 10 * time.Second
	// spinTicks: processor time (USER_HZ ticks, 100 per second) after which a compiler that is still
	// running at the deadline is judged to be looping
	spinTicks = 600
)

// softTimeout: a run normally takes 0.3-0.5 s (process start-up dominates). When the child has gone idle (see idleOrExpired) or, at the latest, after this long the process is asked for its goroutine
// dump (SIGQUIT). If the dump shows the permanent deadlock of D8 the verdict is final (every goroutine
// is blocked on a channel nobody serves); otherwise the run is repeated with the full deadline.
func softTimeout() time.Duration {
	if s := os.Getenv("VERIF_C12_SOFT_MS"); s != "" {
		if n, err := strconv.Atoi(s); err == nil && n > 0 {
			return time.Duration(n) * time.Millisecond
		}
	}
	return 2500 * time.Millisecond
}

// hangNoAnswer: a permanent deadlock of the compiler in which the visitor waits for the allocator's answer
// while the allocator is back waiting for requests (see classifyDump).
const hangNoAnswer = "hang:no-answer"

type RunResult struct {
	Status  string // ok | rejected | crash | hang:D8 | hang:no-answer | hang | deadlock | harness-error
	Exit    int
	Stdout  string
	Stderr  string
	Asm     map[int]string // processor -> assembly text
	Machine []byte         // machine (or bondmachine with -mpm) JSON
	Dump    string
	Slow    bool
}

func toolPath(name string) (string, error) {
	dir := os.Getenv("VERIF_TOOLS")
	if dir == "" {
		return "", fmt.Errorf("VERIF_TOOLS not set (directory with the bondgo binary built from /repo with -tags verif)")
	}
	p := filepath.Join(dir, name)
	if _, err := os.Stat(p); err != nil {
		return "", err
	}
	return p, nil
}

var runCounter atomic.Uint64
var workRoot atomic.Value // string

func workDir() (string, error) {
	if v := workRoot.Load(); v != nil {
		return v.(string), nil
	}
	base := os.Getenv("VERIF_WORK")
	if base == "" {
		base = os.TempDir()
	}
	d, err := os.MkdirTemp(base, "c12-")
	if err != nil {
		return "", err
	}
	workRoot.Store(d)
	return d, nil
}

// CleanupWork removes the scratch directory (called from the test's Cleanup).
func CleanupWork() {
	if v := workRoot.Load(); v != nil {
		_ = os.RemoveAll(v.(string))
	}
}

var goroutineHdr = regexp.MustCompile(`(?m)^goroutine \d+ (?:gp=\S+ m=\S+(?: mp=\S+)? )?\[([^\]]*)\]:`)

// classifyDump decides whether a goroutine dump shows D8: Var_assigner blocked sending a usage
// notification while Usage_Monitor is gone, main blocked on the allocator (REQ_EXIT) or on assignerdone.
func classifyDump(dump string) string {
	blocks := strings.Split(dump, "\n\n")
	assignerSend, monitorAlive, mainBlocked := false, false, false
	assignerIdle, visitorWaits := false, false
	progressing := false
	seen := 0
	for _, b := range blocks {
		m := goroutineHdr.FindStringSubmatch(b)
		if m == nil {
			continue
		}
		seen++
		state := m[1]
		blocked := false
		for _, b := range []string{"chan receive", "chan send", "select", "semacquire", "sync.", "IO wait", "idle", "GC ", "finalizer wait", "force gc", "debug call", "trace reader"} {
			if strings.HasPrefix(state, b) {
				blocked = true
			}
		}
		// anything that is not parked on a channel / lock is progress: running, runnable, syscall, and also
		// sleep (the verif-tagged scheduling points perturb the compiler with time.Sleep; a sleeping goroutine
		// wakes up by itself, a deadlocked process has none)
		if !blocked || strings.HasPrefix(state, "running") || strings.HasPrefix(state, "runnable") || strings.HasPrefix(state, "syscall") {
			// some goroutine of the compiler was still executing when the deadline passed: the process was
			// slow (a loaded machine), not stuck
			if !strings.Contains(b, "os/signal") && !strings.Contains(b, "runtime.ensureSigM") {
				progressing = true
			}
		}
		switch {
		case strings.Contains(b, "bondgo.(*BondgoRuninfo).Var_assigner"):
			if strings.HasPrefix(state, "chan send") {
				assignerSend = true
			}
			if strings.HasPrefix(state, "chan receive") {
				assignerIdle = true // back at the top of its loop, waiting for the next request
			}
		case strings.Contains(b, "bondgo.(*BondgoRequirements).Usage_Monitor"):
			monitorAlive = true
		case strings.Contains(b, "main.main"):
			if strings.HasPrefix(state, "chan send") || strings.HasPrefix(state, "chan receive") {
				mainBlocked = true
			}
			if strings.HasPrefix(state, "chan receive") && strings.Contains(b, "bondgo.(*BondgoCheck).") {
				visitorWaits = true // the visitor (it runs on the main goroutine) waits for an answer of the allocator
			}
		}
	}
	if assignerSend && !monitorAlive && mainBlocked {
		return "hang:D8"
	}
	if visitorWaits && assignerIdle && !progressing {
		// the visitor waits for the answer to a request, the allocator waits for the next request and nothing
		// else can run: the allocator took the request and sent no answer. No timer or signal changes this
		// state: the verdict does not depend on how long the process was given.
		return hangNoAnswer
	}
	if progressing || seen == 0 {
		// no dump at all (the child had not even reached its signal handler, or was killed before it could
		// print): no evidence of a deadlock, the machine is loaded
		return "slow"
	}
	return "hang"
}

func runOnce(src string, rsize int, mpm bool, p Plan, deadline time.Duration, probe bool) RunResult {
	var res RunResult
	bin, err := toolPath("bondgo")
	if err != nil {
		return RunResult{Status: "harness-error", Stderr: err.Error()}
	}
	if p.Race {
		if bin, err = toolPath("race/bondgo"); err != nil {
			return RunResult{Status: "no-race-tool", Stderr: err.Error()}
		}
	}
	root, err := workDir()
	if err != nil {
		return RunResult{Status: "harness-error", Stderr: err.Error()}
	}
	dir := filepath.Join(root, fmt.Sprintf("r%d", runCounter.Add(1)))
	if err := os.MkdirAll(dir, 0o755); err != nil {
		return RunResult{Status: "harness-error", Stderr: err.Error()}
	}
	defer os.RemoveAll(dir)
	if err := os.WriteFile(filepath.Join(dir, "p.go"), []byte(src), 0o644); err != nil {
		return RunResult{Status: "harness-error", Stderr: err.Error()}
	}
	args := []string{"-input-file", "p.go", "-register-size", strconv.Itoa(rsize), "-save-assembly", "a.asm"}
	if mpm {
		args = append(args, "-mpm", "-save-bondmachine", "m.json")
	} else {
		args = append(args, "-save-machine", "m.json")
	}
	if p.ShowReq {
		args = append(args, "-show-requirements")
	}
	cmd := exec.Command(bin, args...)
	cmd.Dir = dir
	gmp := p.GoMaxProcs
	if gmp <= 0 {
		gmp = 1
	}
	cmd.Env = []string{"PATH=/usr/bin:/bin", "HOME=" + dir, "GOTRACEBACK=all",
		"GOMAXPROCS=" + strconv.Itoa(gmp), "VERIF_BONDGO_SCHED=" + p.Sched}
	if p.Race {
		cmd.Env = append(cmd.Env, "GORACE=halt_on_error=1 exitcode=66")
	}
	var so, se bytes.Buffer
	cmd.Stdout, cmd.Stderr = &so, &se
	if err := cmd.Start(); err != nil {
		return RunResult{Status: "harness-error", Stderr: err.Error()}
	}
	done := make(chan error, 1)
	go func() { done <- cmd.Wait() }()
	var werr error
	timedOut := false
	var cpuTicks uint64
	expired := time.After(deadline)
	if probe {
		expired = idleOrExpired(cmd.Process.Pid, deadline, done)
	}
	select {
	case werr = <-done:
	case <-expired:
		timedOut = true
		cpuTicks, _, _ = procIdle(cmd.Process.Pid)
		_ = cmd.Process.Signal(syscall.SIGQUIT) // the Go runtime prints every goroutine and exits
		select {
		case werr = <-done:
		case <-time.After(5 * time.Second):
			_ = cmd.Process.Kill()
			werr = <-done
		}
	}
	res.Stdout, res.Stderr = so.String(), se.String()
	if timedOut {
		res.Dump = res.Stderr
		res.Status = classifyDump(res.Dump)
		if res.Status == "slow" && !probe && cpuTicks >= spinTicks {
			// not blocked, but it has burnt far more processor time than any compilation needs (a normal
			// run uses well under 0.2 s): a loop that does not end. Processor time, unlike the wall clock,
			// does not depend on the load of the machine.
			res.Status = "hang"
			res.Dump = fmt.Sprintf("(spinning: %d clock ticks of processor time consumed)\n", cpuTicks) + res.Dump
		}
		if probe && res.Status != "hang:D8" && res.Status != hangNoAnswer {
			res.Status = "probe-inconclusive"
		}
		return res
	}
	if werr != nil {
		if ee, ok := werr.(*exec.ExitError); ok {
			res.Exit = ee.ExitCode()
		} else {
			return RunResult{Status: "harness-error", Stderr: werr.Error()}
		}
	}
	if p.Race && strings.Contains(res.Stderr, "WARNING: DATA RACE") {
		res.Status = "race"
		res.Dump = res.Stderr[strings.Index(res.Stderr, "WARNING: DATA RACE"):]
		return res
	}
	if strings.Contains(res.Stderr, "all goroutines are asleep") {
		res.Dump = res.Stderr
		switch cl := classifyDump(res.Dump); cl {
		case "hang:D8", hangNoAnswer:
			res.Status = cl
		default:
			res.Status = "deadlock"
		}
		return res
	}
	if res.Exit != 0 {
		res.Status = "crash"
		return res
	}
	// outputs
	res.Asm = map[int]string{}
	if mpm {
		ms, _ := filepath.Glob(filepath.Join(dir, "a.asm_*"))
		for _, f := range ms {
			k, err := strconv.Atoi(strings.TrimPrefix(filepath.Base(f), "a.asm_"))
			if err != nil {
				continue
			}
			b, _ := os.ReadFile(f)
			res.Asm[k] = string(b)
		}
	} else if b, err := os.ReadFile(filepath.Join(dir, "a.asm")); err == nil {
		res.Asm[0] = string(b)
	}
	if b, err := os.ReadFile(filepath.Join(dir, "m.json")); err == nil {
		res.Machine = b
	}
	if strings.Contains(res.Stdout, "Error: ") && len(res.Asm) == 0 && res.Machine == nil {
		res.Status = "rejected"
		return res
	}
	// since /repo 2d68142 a program whose generated code cannot be assembled is refused: the listing is
	// written, no machine file is, and the tool says so
	if res.Machine == nil && (strings.Contains(res.Stdout, "Creating bondmachine failed") || strings.Contains(res.Stdout, "Creating processor failed")) {
		res.Status = "rejected"
		return res
	}
	res.Status = "ok"
	return res
}

// idleOrExpired fires when the deadline passes or, earlier, when the child has been completely idle
// (every thread sleeping, no CPU time consumed) for 400 ms after its first 600 ms: the moment to ask
// for the goroutine dump. The dump, not the timing, decides (see runOnce): an idle process whose dump
// is not the D8 deadlock is simply run again under the full deadline.
func idleOrExpired(pid int, deadline time.Duration, done <-chan error) <-chan time.Time {
	out := make(chan time.Time, 1)
	go func() {
		start := time.Now()
		var last uint64
		idle := 0
		for {
			time.Sleep(100 * time.Millisecond)
			if time.Since(start) >= deadline {
				out <- time.Now()
				return
			}
			if len(done) > 0 {
				return
			}
			cpu, sleeping, ok := procIdle(pid)
			if !ok {
				return // gone
			}
			if sleeping && cpu == last && time.Since(start) > 600*time.Millisecond {
				idle++
			} else {
				idle = 0
			}
			last = cpu
			if idle >= 4 {
				out <- time.Now()
				return
			}
		}
	}()
	return out
}

// procIdle sums utime+stime over the threads of pid and reports whether all of them sleep.
func procIdle(pid int) (cpu uint64, sleeping bool, ok bool) {
	tasks, err := filepath.Glob(fmt.Sprintf("/proc/%d/task/*/stat", pid))
	if err != nil || len(tasks) == 0 {
		return 0, false, false
	}
	sleeping = true
	for _, t := range tasks {
		b, err := os.ReadFile(t)
		if err != nil {
			continue
		}
		s := string(b)
		i := strings.LastIndexByte(s, ')')
		if i < 0 {
			continue
		}
		f := strings.Fields(s[i+1:])
		if len(f) < 13 {
			continue
		}
		if f[0] != "S" {
			sleeping = false
		}
		u, _ := strconv.ParseUint(f[11], 10, 64)
		k, _ := strconv.ParseUint(f[12], 10, 64)
		cpu += u + k
	}
	return cpu, sleeping, true
}

// RunBondgo runs the compiler once under the plan: first with the probe deadline, then (only if the
// probe neither finished nor showed the D8 deadlock) again with the property's full deadline.
func RunBondgo(src string, rsize int, mpm bool, p Plan) RunResult {
	r := runOnce(src, rsize, mpm, p, softTimeout(), true)
	if r.Status != "probe-inconclusive" {
		return r
	}
	if os.Getenv("VERIF_C12_DEBUG") != "" {
		fmt.Printf("DEBUG probe-inconclusive mpm=%v plan=%+v\n%s\n", mpm, p, r.Dump)
	}
	r2 := runOnce(src, rsize, mpm, p, hardTimeout, false)
	r2.Slow = true
	return r2
}

func sortedKeys[V any](m map[int]V) []int {
	ks := make([]int, 0, len(m))
	for k := range m {
		ks = append(ks, k)
	}
	sort.Ints(ks)
	return ks
}

// Fingerprint of everything the compiler wrote, for the schedule-independence comparison.
func (r RunResult) Fingerprint() string {
	var b strings.Builder
	fmt.Fprintf(&b, "status=%s\nstdout=%q\n", r.Status, r.Stdout)
	for _, k := range sortedKeys(r.Asm) {
		fmt.Fprintf(&b, "asm[%d]=%q\n", k, r.Asm[k])
	}
	fmt.Fprintf(&b, "machine=%s\n", r.Machine)
	return b.String()
}
