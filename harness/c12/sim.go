package c12

// Loading what bondgo wrote and executing it on the Go instruction-set simulator, when every opcode
// of the requested machine is one the simulator implements faithfully.

import (
	"encoding/json"
	"fmt"
	"sort"
	"strconv"
	"strings"

	"github.com/BondMachineHQ/BondMachine/pkg/bondmachine"
	"github.com/BondMachineHQ/BondMachine/pkg/procbuilder"
	"verifharness/gen"
)

// faithfulAll: opcodes whose Simulate body, description and HDL template agree at every register size
// (DESIGN §C01 co-implemented table). faithfulNarrow only at 8/16 bit.
var faithfulAll = map[string]bool{"add": true, "clr": true, "cpy": true, "dec": true, "inc": true, "j": true, "jz": true,
	"nop": true, "rset": true, "r2o": true, "i2r": true, "i2rw": true, "r2owa": true, "mult": true, "div": true}
var faithfulNarrow = map[string]bool{"and": true, "or": true, "xor": true, "not": true}

// `je` is a placeholder opcode in /repo: its description is "No operation", its assembler takes no
// operand, its HDL state and its Simulate body both only advance the program counter
// (pkg/procbuilder/op_je.go). The simulator is therefore faithful to the machine for je; what is wrong is
// that the compiler emits it as "jump if equal" (finding D-C12-eq-je-placeholder).
const placeholderJe = "je"

func unfaithfulOps(ops []string, rsize int) []string {
	var bad []string
	for _, o := range ops {
		if faithfulAll[o] || o == placeholderJe {
			continue
		}
		if faithfulNarrow[o] && rsize <= 16 {
			continue
		}
		bad = append(bad, o)
	}
	sort.Strings(bad)
	return bad
}

type LoadedProc struct {
	Mach *procbuilder.Machine
	Ops  []string
}

type Loaded struct {
	Procs []LoadedProc
	BM    *bondmachine.Bondmachine // nil without -mpm
}

func guardLoad(f func() error) (err error) {
	defer func() {
		if r := recover(); r != nil {
			err = fmt.Errorf("panic while loading: %v", r)
		}
	}()
	return f()
}

func opsOf(m *procbuilder.Machine) []string {
	var r []string
	for _, o := range m.Op {
		if o == nil {
			r = append(r, "<unknown>")
			continue
		}
		r = append(r, o.Op_get_name())
	}
	return r
}

func LoadMachine(js []byte, mpm bool) (*Loaded, error) {
	ld := &Loaded{}
	err := guardLoad(func() error {
		if mpm {
			var bj bondmachine.Bondmachine_json
			if err := json.Unmarshal(js, &bj); err != nil {
				return err
			}
			bm := (&bj).Dejsoner()
			ld.BM = bm
			for _, dom := range bm.Processors {
				if dom < 0 || dom >= len(bm.Domains) {
					return fmt.Errorf("processor of a non-existent domain %d", dom)
				}
				m := bm.Domains[dom]
				ld.Procs = append(ld.Procs, LoadedProc{m, opsOf(m)})
			}
			return nil
		}
		var mj procbuilder.Machine_json
		if err := json.Unmarshal(js, &mj); err != nil {
			return err
		}
		m := (&mj).Dejsoner()
		ld.Procs = append(ld.Procs, LoadedProc{m, opsOf(m)})
		return nil
	})
	return ld, err
}

// Simulate runs one processor for `ticks` steps with constant inputs and returns, per processor output
// index, the sequence of values written by r2o (observed at the retiring r2o instruction through the
// machine's own decoder and disassembler).
//
// intendedJe (the assembly listing the machine was assembled from, one line per ROM location, or nil):
// when given, `je rA rB T` is executed as what the compiler evidently means by it — jump to T when the
// two registers are equal, fall through otherwise — instead of the placeholder's no-operation. This is
// how the search continues behind the recorded je finding: everything else is the real simulator.
func Simulate(m *procbuilder.Machine, inputs []uint64, ticks int, intendedJe []string) (streams map[int][]uint64, executed int, err error) {
	defer func() {
		if r := recover(); r != nil {
			err = fmt.Errorf("simulator panic: %v", r)
		}
	}()
	vm := new(procbuilder.VM)
	vm.Mach = m
	if err := vm.Init(); err != nil {
		return nil, 0, err
	}
	rs := int(m.Rsize)
	for i := range vm.Inputs {
		v := uint64(0)
		if i < len(inputs) {
			v = inputs[i]
		}
		vm.Inputs[i] = gen.Val(rs, v)
	}
	streams = map[int][]uint64{}
	opBits := m.Opcodes_bits()
	n := len(m.Program.Slocs)
	for t := 0; t < ticks; t++ {
		if int(vm.Pc) >= n {
			break // ran off the end of the program: the simulator halts there
		}
		instr := m.Program.Slocs[vm.Pc]
		oid, derr := m.Conproc.Decode_opcode(instr)
		if derr != nil {
			return streams, executed, fmt.Errorf("undecodable instruction at %d", vm.Pc)
		}
		op := m.Arch.Conproc.Op[oid]
		watch := -1
		if intendedJe != nil && op.Op_get_name() == placeholderJe {
			if int(vm.Pc) >= len(intendedJe) {
				return streams, executed, fmt.Errorf("je at %d beyond the listing", vm.Pc)
			}
			f := strings.Fields(intendedJe[vm.Pc])
			var a, b, tgt int
			if len(f) != 4 || f[0] != "je" {
				return streams, executed, fmt.Errorf("listing line %d is %q, the ROM holds je", vm.Pc, intendedJe[vm.Pc])
			}
			if _, e := fmt.Sscanf(f[1]+" "+f[2]+" "+f[3], "r%d r%d %d", &a, &b, &tgt); e != nil || a >= len(vm.Registers) || b >= len(vm.Registers) {
				return streams, executed, fmt.Errorf("cannot read %q", intendedJe[vm.Pc])
			}
			if gen.U64(vm.Registers[a]) == gen.U64(vm.Registers[b]) {
				vm.Pc = uint64(tgt)
			} else {
				vm.Pc++
			}
			executed++
			continue
		}
		if op.Op_get_name() == "j" {
			// the simulator's j does not jump to an address past the last instruction (op_j.go Simulate: it only
			// advances the pc); the hardware does, and so does the simulator's jz. A routine that jumps out of its
			// program (a break out of its last loop) has ended: nothing it does afterwards is the program's.
			if dis, derr := op.Disassembler(&m.Arch, instr[opBits:]); derr == nil {
				if tgt, e := strconv.Atoi(strings.TrimSpace(dis)); e == nil && tgt >= n {
					executed++
					break
				}
			}
		}
		if op.Op_get_name() == "r2o" {
			dis, derr := op.Disassembler(&m.Arch, instr[opBits:])
			if derr != nil {
				return streams, executed, derr
			}
			f := strings.Fields(dis)
			if len(f) != 2 || !strings.HasPrefix(f[1], "o") {
				return streams, executed, fmt.Errorf("unexpected r2o disassembly %q", dis)
			}
			if _, serr := fmt.Sscanf(f[1], "o%d", &watch); serr != nil {
				return streams, executed, serr
			}
		}
		if _, serr := vm.Step(nil); serr != nil {
			return streams, executed, serr
		}
		executed++
		if watch >= 0 {
			if watch >= len(vm.Outputs) {
				return streams, executed, fmt.Errorf("r2o to output %d of a machine with %d outputs", watch, len(vm.Outputs))
			}
			streams[watch] = append(streams[watch], gen.U64(vm.Outputs[watch]))
		}
	}
	return streams, executed, nil
}

func asmLines(text string) []string {
	var r []string
	for _, l := range strings.Split(text, "\n") {
		if strings.TrimSpace(l) != "" {
			r = append(r, l)
		}
	}
	return r
}

// ---------------------------------------------------------------------------
// machines with channels

// Neither back-end of /repo executes the channel opcodes: in the Go simulator wwr/wrd/chw are TODO bodies
// (they write an output or only advance the pc), and the Verilog generated for a processor that sends but
// never receives does not elaborate (chw assigns the register wrd_ch, which only wrd declares). What the
// three opcodes are is stated by their descriptions — "Want write to a channel", "Want read from a channel",
// "Channel operation wait" — and by the bondmachine's wiring (Shared_links[p][j] is the shared object behind
// the local name chj of processor p). SimulateBM runs the processors of a bondmachine together with exactly
// that meaning: wwr/wrd file the processor's wish on the channel object, chw holds the processor until the
// wish has met its counterpart (an unbuffered rendezvous: the value goes from the writer's register to the
// reader's). Everything else is executed by the real simulator, one instruction per processor per round;
// the RAM moves r2m/m2r ("Copy a register value to the ram", "Memory to register copy"), which the simulator
// does not implement either, are a per-processor array.
var chanOps = map[string]bool{"wwr": true, "wrd": true, "chw": true}
var chanSimOwn = map[string]bool{"wwr": true, "wrd": true, "chw": true, "r2m": true, "m2r": true}

func usesChannels(ops []string) bool {
	for _, o := range ops {
		if chanOps[o] {
			return true
		}
	}
	return false
}

// chanSimEligible: every opcode is either simulator-faithful or one SimulateBM executes itself.
func chanSimEligible(ops []string, rsize int) bool {
	for _, o := range unfaithfulOps(ops, rsize) {
		if !chanSimOwn[o] {
			return false
		}
	}
	return true
}

type chanWish struct {
	write bool
	so    int // shared object (global channel)
	reg   int
	val   uint64
	met   bool
}

// SimulateBM returns per processor the r2o streams, the instructions executed, and how the run ended:
// "satisfied" (every processor has written want[p][idx] values), "quiescent" (every processor is halted or
// waits on a channel: nothing can happen any more) or "ticks".
func SimulateBM(ld *Loaded, inputs [][]uint64, rounds int, want []map[int]int) (streams []map[int][]uint64, executed []int, ended string, err error) {
	defer func() {
		if r := recover(); r != nil {
			err = fmt.Errorf("simulator panic: %v", r)
		}
	}()
	np := len(ld.Procs)
	vms := make([]*procbuilder.VM, np)
	rams := make([]map[int]uint64, np)
	wish := make([]*chanWish, np)
	halted := make([]bool, np)
	streams = make([]map[int][]uint64, np)
	executed = make([]int, np)
	for p, lp := range ld.Procs {
		vm := new(procbuilder.VM)
		vm.Mach = lp.Mach
		if err := vm.Init(); err != nil {
			return nil, nil, "", err
		}
		for i := range vm.Inputs {
			v := uint64(0)
			if p < len(inputs) && i < len(inputs[p]) {
				v = inputs[p][i]
			}
			vm.Inputs[i] = gen.Val(int(lp.Mach.Rsize), v)
		}
		vms[p], rams[p], streams[p] = vm, map[int]uint64{}, map[int][]uint64{}
	}
	soOf := func(p, local int) (int, error) {
		if ld.BM == nil || p >= len(ld.BM.Shared_links) || local >= len(ld.BM.Shared_links[p]) {
			return 0, fmt.Errorf("processor %d uses ch%d but is linked to %d shared objects", p, local, len(ld.BM.Shared_links[p]))
		}
		return ld.BM.Shared_links[p][local], nil
	}
	satisfied := func() bool {
		if want == nil {
			return false
		}
		for p := range want {
			for idx, n := range want[p] {
				if len(streams[p][idx]) < n {
					return false
				}
			}
		}
		return true
	}
	for round := 0; round < rounds; round++ {
		moved := false
		for p, vm := range vms {
			if halted[p] {
				continue
			}
			m := vm.Mach
			n := len(m.Program.Slocs)
			if int(vm.Pc) >= n {
				halted[p] = true
				continue
			}
			instr := m.Program.Slocs[vm.Pc]
			oid, derr := m.Conproc.Decode_opcode(instr)
			if derr != nil {
				return streams, executed, "", fmt.Errorf("processor %d: undecodable instruction at %d", p, vm.Pc)
			}
			op := m.Arch.Conproc.Op[oid]
			name := op.Op_get_name()
			opBits := m.Opcodes_bits()
			rs := int(m.Rsize)
			var f []string
			if chanSimOwn[name] || name == "j" || name == "r2o" {
				dis, derr := op.Disassembler(&m.Arch, instr[opBits:])
				if derr != nil {
					return streams, executed, "", derr
				}
				f = strings.Fields(dis)
			}
			regOf := func(s string) (int, error) {
				var r int
				if _, e := fmt.Sscanf(s, "r%d", &r); e != nil || r >= len(vm.Registers) {
					return 0, fmt.Errorf("processor %d: register %q in %s at %d", p, s, name, vm.Pc)
				}
				return r, nil
			}
			switch name {
			case "wwr", "wrd":
				var local int
				if len(f) != 2 {
					return streams, executed, "", fmt.Errorf("unexpected %s disassembly %q", name, f)
				}
				r, e := regOf(f[0])
				if e != nil {
					return streams, executed, "", e
				}
				if _, e := fmt.Sscanf(f[1], "ch%d", &local); e != nil {
					return streams, executed, "", fmt.Errorf("unexpected %s operand %q", name, f[1])
				}
				so, e := soOf(p, local)
				if e != nil {
					return streams, executed, "", e
				}
				wish[p] = &chanWish{write: name == "wwr", so: so, reg: r, val: gen.U64(vm.Registers[r])}
				vm.Pc++
			case "chw":
				w := wish[p]
				if w != nil && !w.met {
					for q := range vms {
						if o := wish[q]; q != p && o != nil && !o.met && o.so == w.so && o.write != w.write {
							wr, rd, rp := w, o, q
							if !w.write {
								wr, rd, rp = o, w, p
							}
							vms[rp].Registers[rd.reg] = gen.Val(int(vms[rp].Mach.Rsize), wr.val)
							w.met, o.met = true, true
							break
						}
					}
				}
				if w != nil && !w.met {
					continue // still waiting: the instruction is not over
				}
				wish[p] = nil
				vm.Pc++
			case "r2m", "m2r":
				var addr int
				if len(f) != 2 {
					return streams, executed, "", fmt.Errorf("unexpected %s disassembly %q", name, f)
				}
				r, e := regOf(f[0])
				if e != nil {
					return streams, executed, "", e
				}
				if _, e := fmt.Sscanf(f[1], "%d", &addr); e != nil {
					return streams, executed, "", fmt.Errorf("unexpected %s operand %q", name, f[1])
				}
				if name == "r2m" {
					rams[p][addr] = gen.U64(vm.Registers[r])
				} else {
					vm.Registers[r] = gen.Val(rs, rams[p][addr])
				}
				vm.Pc++
			default:
				if name == "j" && len(f) == 1 {
					if tgt, e := strconv.Atoi(f[0]); e == nil && tgt >= n {
						halted[p] = true // a jump out of the program (see Simulate)
						executed[p]++
						moved = true
						continue
					}
				}
				watch := -1
				if name == "r2o" {
					if len(f) != 2 {
						return streams, executed, "", fmt.Errorf("unexpected r2o disassembly %q", f)
					}
					if _, e := fmt.Sscanf(f[1], "o%d", &watch); e != nil {
						return streams, executed, "", e
					}
				}
				if _, serr := vm.Step(nil); serr != nil {
					return streams, executed, "", serr
				}
				if watch >= 0 {
					if watch >= len(vm.Outputs) {
						return streams, executed, "", fmt.Errorf("processor %d: r2o to output %d of a machine with %d outputs", p, watch, len(vm.Outputs))
					}
					streams[p][watch] = append(streams[p][watch], gen.U64(vm.Outputs[watch]))
				}
			}
			executed[p]++
			moved = true
		}
		if satisfied() {
			return streams, executed, "satisfied", nil
		}
		if !moved {
			return streams, executed, "quiescent", nil
		}
	}
	return streams, executed, "ticks", nil
}
