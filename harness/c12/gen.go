package c12

// Grammar-based generator of Go-subset programs, following what pkg/bondgo/visiter.go and expr.go accept
// (read from the code): `var` declarations of the register-sized unsigned type (names starting with
// "reg_" live in a register, every other name in RAM), bondgo.Input/Output variables bound with
// bondgo.Make, `=` (also parallel), `:=`, `+ * ==` (every other operator is answered with
// "Unsopported binary operation"), `++/--`, if/else, for with and without clauses, break/continue,
// switch with tag, value functions with parameters and one result (inlined by the compiler, no recursion),
// bondgo.IOWrite/IORead and, with -mpm, `go f()` workers (one more processor each) and channel
// producers. Every routine ends in an endless loop that keeps writing.
//
// Round 4 (shapes reported by a reader of pkg/bondgo): the other spellings of an integer literal (0x1F, 0b101,
// 07 and, in a small share of the programs, legacy octal 017), break inside a switch clause, value functions
// called as statements and (a small share) a function with a side effect called as a statement, 3…8 inputs
// and 3…5 outputs in main (nine or more inputs only in the few programs drawn for the recorded termination
// finding), Make calls that do not follow the declaration order, `go f(a, b)` with two by-value arguments.
// Then: a helper `func p(c chan T, v T) T { c <- v; return … }` called inline (no go) from main on a channel whose
// consumer is a worker started with go, optionally with a second channel declared after the first call and
// with a second call site on the same channel.

import (
	"fmt"
	"strings"

	"pgregory.net/rapid"
)

type GenOpts struct {
	// Faithful biases towards programs whose compiled form stays inside the opcode set the Go
	// simulator implements faithfully: register variables only, no RAM variables, no channels.
	Faithful bool
}

type gscope struct{ m, r int }

type gvar struct {
	name string
	m    int // identity of the compiler's variable map the name lives in (see factWalker)
}

type pgen struct {
	t     *rapid.T
	o     GenOpts
	rsize int
	typ   string
	mpm   bool
	lines []string
	ind   int
	id    int
	// compile-context model, the same as factWalker's, used to place ++/-- where the hoisting
	// mechanism (known finding) does not fire, except for a deliberate small share
	scopes []gscope
	next   int
	vals   []gvar // visible value variables
	ins    []string
	outs   []string
	funcs  []gfunc
	inLoop int
	labels map[string]bool
	// round 4: per-program switches of shapes behind which a recorded finding sits (kept to a small share of
	// the programs, so that the search goes on in the others)
	octal    bool   // some literals are written in Go's legacy octal form (017)
	permMake bool   // the Make calls of main's outputs/inputs do not follow the declaration order
	emitter  string // a function that writes an output, called as a statement from main ("" = none)
	mainLoop func() // emitted in every round of main's endless loop (nil = nothing)
}

type gfunc struct {
	name    string
	nparams int
}

func (g *pgen) emit(format string, a ...any) {
	g.lines = append(g.lines, strings.Repeat("\t", g.ind)+fmt.Sprintf(format, a...))
}

func (g *pgen) fresh() int  { g.next++; return g.next }
func (g *pgen) top() gscope { return g.scopes[len(g.scopes)-1] }
func (g *pgen) pushBlock() (restore func()) {
	n := len(g.vals)
	g.scopes = append(g.scopes, gscope{g.fresh(), g.top().r})
	return func() { g.scopes = g.scopes[:len(g.scopes)-1]; g.vals = g.vals[:n] }
}
func (g *pgen) pushCtx() (restore func()) {
	g.scopes = append(g.scopes, gscope{g.top().m, g.fresh()})
	return func() { g.scopes = g.scopes[:len(g.scopes)-1] }
}

// hoists reports whether x++ on v at the current position would be written into another result buffer.
func (g *pgen) hoists(v gvar) bool {
	for i := len(g.scopes) - 1; i >= 0; i-- {
		if g.scopes[i].m == v.m {
			return g.scopes[i].r != g.top().r
		}
	}
	return false
}

func (g *pgen) newName(prefix string) string {
	g.id++
	return fmt.Sprintf("%s%d", prefix, g.id)
}

// uni draws 0..n-1 uniformly. rapid's integer generators favour small magnitudes (a geometric bit
// length), which would distort the grammar's weights; fair coins do not.
func (g *pgen) uni(n int, label string) int {
	k := 3
	for (1 << uint(k-3)) < n {
		k++
	}
	v := 0
	for i := 0; i < k; i++ {
		v <<= 1
		if rapid.Bool().Draw(g.t, label) {
			v |= 1
		}
	}
	return v % n
}

func (g *pgen) pct(p int, label string) bool {
	return g.uni(100, label) < p
}

func (g *pgen) lit() string {
	max := uint64(1)<<uint(g.rsize) - 1
	if g.rsize >= 32 {
		max = 1<<31 - 1 // rset takes the literal through an int; larger constants are another property's subject (C03)
	}
	if g.octal && g.pct(25, "octal") {
		// 010 … 0177: Go reads base eight; the decimal reading of the same digits also fits eight bits
		return fmt.Sprintf("0%o", 8+g.uni(120, "octalval"))
	}
	if g.pct(5, "litform") {
		// the other spellings of an integer literal
		v := rapid.Uint64Range(0, 12).Draw(g.t, "lit")
		if g.pct(30, "litbig") {
			v = rapid.Uint64Range(max/2, max).Draw(g.t, "lit")
		}
		switch g.uni(3, "litspelling") {
		case 0:
			return fmt.Sprintf("0x%X", v)
		case 1:
			return fmt.Sprintf("0b%b", v)
		default:
			return fmt.Sprintf("0%d", v%8) // a leading zero that changes nothing: 00 … 07
		}
	}
	switch g.uni(10, "litclass") {
	case 0:
		return "0"
	case 1:
		return "1"
	case 2:
		return fmt.Sprintf("%d", max)
	case 3:
		if g.rsize == 8 {
			return fmt.Sprintf("%d", rapid.Uint64Range(100, 255).Draw(g.t, "lit"))
		}
		return fmt.Sprintf("%d", rapid.Uint64Range(max/2, max).Draw(g.t, "lit"))
	default:
		return fmt.Sprintf("%d", rapid.Uint64Range(0, 12).Draw(g.t, "lit"))
	}
}

// pickVal draws a visible name; with shadowing the name means its innermost binding.
func (g *pgen) pickVal() gvar {
	v := g.vals[g.uni(len(g.vals), "var")]
	for i := len(g.vals) - 1; i >= 0; i-- {
		if g.vals[i].name == v.name {
			return g.vals[i]
		}
	}
	return v
}

// shadowStmt emits a nested scope that redeclares a visible name (var or :=), assigns to and reads that
// name inside, and reads it again after the scope has ended, where it must be the untouched outer variable.
func (g *pgen) shadowStmt(c stmtCtx) {
	var cand []gvar
	seen := map[string]bool{}
	for i := len(g.vals) - 1; i >= 0; i-- {
		v := g.vals[i]
		if seen[v.name] {
			continue
		}
		seen[v.name] = true
		if g.o.Faithful && !isRegName(v.name) {
			continue // a redeclared plain name is a RAM variable: outside the faithful opcode set
		}
		cand = append(cand, v)
	}
	if len(cand) == 0 || len(g.vals) < 2 {
		g.emit("%s = %s", g.pickVal().name, g.expr(2))
		return
	}
	x := cand[g.uni(len(cand), "shadowed")]
	y := x
	for i := 0; i < len(g.vals) && y.name == x.name; i++ {
		y = g.vals[(g.uni(len(g.vals), "other")+i)%len(g.vals)]
	}
	if y.name == x.name {
		g.emit("%s = %s", x.name, g.expr(2))
		return
	}
	inner := stmtCtx{c.inFunc, c.depth + 1}
	body := func(own bool) {
		// own: the body is a block (its own variable map in the compiler); false: a case body or the init of a for
		if g.pct(60, "shadowvar") {
			g.emit("var %s %s", x.name, g.typ)
		} else {
			g.emit("%s := %s", x.name, g.expr(1))
		}
		g.vals = append(g.vals, gvar{x.name, g.top().m})
		if g.pct(85, "assigninside") {
			g.emit("%s = %s", x.name, g.expr(1))
		}
		if g.pct(30, "incinside") {
			g.emit("%s++", x.name)
		}
		g.emit("%s = %s + %s", y.name, y.name, x.name)
		for i, n := 0, rapid.IntRange(0, 2).Draw(g.t, "nshadowbody"); own && i < n; i++ {
			g.stmt(inner)
		}
	}
	form := g.uni(20, "shadowform")
	switch {
	case form < 6: // if true { … }
		g.emit("if true {")
		rc := g.pushCtx()
		g.block(0, inner, func() { body(true) })
		rc()
		g.emit("}")
	case form < 9: // if false { } else { … }
		g.emit("if false {")
		rc := g.pushCtx()
		g.block(0, inner, func() { g.emit("%s = %s", y.name, g.expr(1)) })
		g.emit("} else {")
		g.block(0, inner, func() { body(true) })
		rc()
		g.emit("}")
	case form < 14: // for { …; break }
		g.emit("for {")
		rc := g.pushCtx()
		g.inLoop++
		g.block(0, inner, func() { body(true); g.emit("break") })
		g.inLoop--
		rc()
		g.emit("}")
	case form < 17: // a plain block
		g.emit("{")
		g.block(0, inner, func() { body(true) })
		g.emit("}")
	case form < 19: // a case body: a scope in Go, none in the compiler
		g.emit("switch %s {", g.expr(0))
		rc := g.pushCtx()
		n := len(g.vals)
		g.emit("default:")
		g.ind++
		body(false)
		g.ind--
		g.vals = g.vals[:n]
		rc()
		g.emit("}")
	default: // the init clause of a for: a scope in Go, none in the compiler
		rc := g.pushCtx()
		n := len(g.vals)
		g.emit("for %s := %s; ; %s++ {", x.name, g.lit(), x.name)
		g.vals = append(g.vals, gvar{x.name, g.top().m})
		g.inLoop++
		g.block(0, inner, func() {
			g.emit("%s = %s + %s", y.name, y.name, x.name)
			g.emit("break")
		})
		g.inLoop--
		g.vals = g.vals[:n]
		rc()
		g.emit("}")
	}
	// after the scope: the name is the outer variable again
	if !c.inFunc && len(g.outs) > 0 && g.pct(50, "writeafter") {
		g.emit("bondgo.IOWrite(%s, %s)", g.outs[g.uni(len(g.outs), "out")], x.name)
	} else {
		g.emit("%s = %s + %s", y.name, y.name, x.name)
	}
}

var unsupportedOps = []string{"-", "&", "|", "^", "/", "%", "<<"}

func (g *pgen) expr(depth int) string {
	k := g.uni(100, "exprkind")
	if depth <= 0 && k >= 55 {
		k = k % 55
	}
	switch {
	case k < 25:
		return g.lit()
	case k < 55:
		if len(g.vals) == 0 {
			return g.lit()
		}
		return g.pickVal().name
	case k < 72:
		a, b := g.expr(depth-1), g.expr(depth-1)
		if isLit(a) && isLit(b) && len(g.vals) > 0 {
			a = g.pickVal().name // a constant expression must not overflow the type in Go
		}
		return a + " + " + b
	case k < 84:
		a, b := g.expr(depth-1), g.expr(depth-1)
		if isLit(a) && isLit(b) && len(g.vals) > 0 {
			a = g.pickVal().name
		}
		// parentheses are not in the compiler's grammar (clean "Wrong expression"): a small share only
		if strings.ContainsAny(a, "+") {
			if g.pct(10, "paren") {
				a = "(" + a + ")"
			} else {
				a = g.pickVal().name
			}
		}
		if strings.ContainsAny(b, "+") {
			if g.pct(10, "paren") {
				b = "(" + b + ")"
			} else {
				b = g.lit()
			}
		}
		return a + " * " + b
	case k < 92:
		if len(g.funcs) == 0 {
			return g.nonLit(depth-1) + " + " + g.lit()
		}
		f := g.funcs[rapid.IntRange(0, len(g.funcs)-1).Draw(g.t, "fn")]
		var args []string
		for i := 0; i < f.nparams; i++ {
			args = append(args, g.expr(depth-1))
		}
		return f.name + "(" + strings.Join(args, ", ") + ")"
	case k < 97:
		if len(g.ins) == 0 {
			return g.lit()
		}
		return "bondgo.IORead(" + g.ins[rapid.IntRange(0, len(g.ins)-1).Draw(g.t, "in")] + ")"
	default:
		return g.nonLit(depth-1) + " + " + g.lit()
	}
}

// isLit: an integer literal in any spelling (decimal, 017, 0x1F, 0b101)
func isLit(s string) bool {
	if s == "" || s[0] < '0' || s[0] > '9' {
		return false
	}
	for _, r := range s {
		if !(r >= '0' && r <= '9' || r >= 'a' && r <= 'f' || r >= 'A' && r <= 'F' || r == 'x' || r == 'X') {
			return false
		}
	}
	return true
}

func (g *pgen) nonLit(depth int) string {
	e := g.expr(depth)
	if isLit(e) && len(g.vals) > 0 {
		return g.pickVal().name
	}
	return e
}

func (g *pgen) cond() string {
	if g.o.Faithful && !g.pct(25, "eqInFaithful") {
		if g.pct(50, "condconst") {
			return "true"
		}
		return "false"
	}
	switch g.uni(10, "condkind") {
	case 0:
		return "true"
	case 1:
		return "false"
	default:
		return g.expr(1) + " == " + g.expr(1)
	}
}

type stmtCtx struct {
	inFunc bool // a value function body: no IO, return allowed
	depth  int
}

func (g *pgen) block(n int, c stmtCtx, tail func()) {
	restore := g.pushBlock()
	g.ind++
	for i := 0; i < n; i++ {
		g.stmt(c)
	}
	if tail != nil {
		tail()
	}
	g.ind--
	restore()
}

func (g *pgen) stmt(c stmtCtx) {
	k := g.uni(100, "stmtkind")
	if c.depth >= 2 && k >= 62 && k < 90 {
		k = k % 62
	}
	switch {
	case k < 24: // assignment
		g.emit("%s = %s", g.pickVal().name, g.expr(2))
	case k < 26: // a value function called as a statement: the result is discarded, nothing observable happens
		if len(g.funcs) == 0 {
			g.emit("%s = %s", g.pickVal().name, g.expr(2))
			return
		}
		f := g.funcs[g.uni(len(g.funcs), "fnstmt")]
		var args []string
		for i := 0; i < f.nparams; i++ {
			args = append(args, g.expr(1))
		}
		g.emit("%s(%s)", f.name, strings.Join(args, ", "))
	case k < 30: // a nested scope that shadows a visible name
		if c.depth >= 3 {
			g.emit("%s = %s", g.pickVal().name, g.expr(2))
			return
		}
		g.shadowStmt(c)
	case k < 34: // parallel assignment
		if len(g.vals) < 2 {
			g.emit("%s = %s", g.pickVal().name, g.expr(1))
			return
		}
		a, b := g.pickVal().name, g.pickVal().name
		if a == b {
			g.emit("%s = %s", a, g.expr(1))
			return
		}
		g.emit("%s, %s = %s, %s", a, b, g.expr(1), g.expr(1))
	case k < 48: // ++ / --
		v := g.pickVal()
		op := "++"
		if g.pct(40, "dec") {
			op = "--"
		}
		if g.hoists(v) && !g.pct(6, "allowHoist") {
			// pick, if there is one, a variable for which the mechanism does not fire
			for _, w := range g.vals {
				if !g.hoists(w) {
					v = w
				}
			}
			if g.hoists(v) { // none: the same effect through an assignment
				if op == "++" || g.rsize > 16 {
					g.emit("%s = %s + 1", v.name, v.name)
				} else {
					g.emit("%s = %s + %d", v.name, v.name, uint64(1)<<uint(g.rsize)-1)
				}
				return
			}
		}
		g.emit("%s%s", v.name, op)
	case k < 54: // := into a register name
		n := g.newName("reg_t")
		g.emit("%s := %s", n, g.expr(2))
		u := g.pickVal().name
		g.emit("%s = %s + %s", u, u, n) // Go wants every local used
		g.vals = append(g.vals, gvar{n, g.top().m})
	case k < 62: // IOWrite
		if c.inFunc || len(g.outs) == 0 {
			g.emit("%s = %s", g.pickVal().name, g.expr(2))
			return
		}
		g.emit("bondgo.IOWrite(%s, %s)", g.outs[rapid.IntRange(0, len(g.outs)-1).Draw(g.t, "out")], g.expr(2))
	case k < 74: // if / if-else
		if g.pct(20, "ifinit") {
			// if with an init statement (a plain assignment: no new name, no scoping question)
			g.emit("if %s = %s; %s {", g.pickVal().name, g.expr(2), g.cond())
		} else {
			g.emit("if %s {", g.cond())
		}
		rc := g.pushCtx()
		g.block(rapid.IntRange(1, 3).Draw(g.t, "nthen"), stmtCtx{c.inFunc, c.depth + 1}, nil)
		if g.pct(45, "else") {
			g.emit("} else {")
			g.block(rapid.IntRange(1, 3).Draw(g.t, "nelse"), stmtCtx{c.inFunc, c.depth + 1}, nil)
		}
		rc()
		g.emit("}")
	case k < 84: // inner loop, always leaving after a bounded number of rounds in Go semantics
		rc := g.pushCtx()
		nvals := len(g.vals)
		switch g.uni(4, "loopkind") {
		case 3: // counted loop of K+1 rounds (only == exists): for i := 0; done == 0; i++ { if i == K { done = 1 }; [if i == J { continue }]; ... }
			i, d := g.newName("reg_i"), g.newName("reg_d")
			k := rapid.IntRange(1, 3).Draw(g.t, "rounds")
			g.emit("%s := 0", d)
			g.emit("for %s := 0; %s == 0; %s++ {", i, d, i)
			g.ind++
			g.emit("if %s == %d {", i, k)
			g.ind++
			g.emit("%s = 1", d)
			g.ind--
			g.emit("}")
			if g.pct(60, "skipround") {
				g.emit("if %s == %d {", i, rapid.IntRange(0, k).Draw(g.t, "skipped"))
				g.ind++
				g.emit("continue")
				g.ind--
				g.emit("}")
			}
			g.ind--
			g.inLoop++
			g.block(rapid.IntRange(1, 2).Draw(g.t, "nbody"), stmtCtx{c.inFunc, c.depth + 1}, nil)
			g.inLoop--
		case 0: // for { ...; break }
			g.emit("for {")
			g.inLoop++
			g.block(rapid.IntRange(1, 3).Draw(g.t, "nbody"), stmtCtx{c.inFunc, c.depth + 1}, func() { g.emit("break") })
			g.inLoop--
		case 1: // for i = a; i == a; i++ { } : one round
			i := g.newName("reg_i")
			start := g.lit()
			g.emit("for %s := %s; %s == %s; %s++ {", i, start, i, start, i)
			g.vals = append(g.vals, gvar{i, g.top().m})
			g.inLoop++
			g.block(rapid.IntRange(1, 3).Draw(g.t, "nbody"), stmtCtx{c.inFunc, c.depth + 1}, nil)
			g.inLoop--
		default: // for cond { ...; [continue|break] } where the body ends the loop
			g.emit("for %s {", g.cond())
			g.inLoop++
			g.block(rapid.IntRange(1, 2).Draw(g.t, "nbody"), stmtCtx{c.inFunc, c.depth + 1}, func() { g.emit("break") })
			g.inLoop--
		}
		g.vals = g.vals[:nvals] // the loop variable is scoped to the loop in Go
		rc()
		g.emit("}")
	case k < 90: // switch with tag
		if g.o.Faithful && !g.pct(20, "switchInFaithful") {
			if g.pct(50, "defaultOnlySwitch") {
				// a switch with nothing but a default clause compiles to jumps only (no comparison): inside the faithful set
				g.emit("switch %s {", g.expr(1))
				rc := g.pushCtx()
				g.emit("default:")
				g.ind++
				g.caseBody(c, 50)
				g.ind--
				rc()
				g.emit("}")
				return
			}
			g.emit("%s = %s", g.pickVal().name, g.expr(2))
			return
		}
		g.emit("switch %s {", g.expr(1))
		rc := g.pushCtx()
		ncase := rapid.IntRange(1, 3).Draw(g.t, "ncase")
		for i := 0; i < ncase; i++ {
			g.emit("case %s:", g.lit())
			g.ind++
			if g.caseBody(c, 8) { // (a case clause is entered through a comparison: the recorded je finding is met first)
				g.ind--
				continue
			}
			if i+1 < ncase && g.pct(15, "fallthrough") {
				g.emit("fallthrough")
			}
			g.ind--
		}
		if g.pct(60, "default") {
			g.emit("default:")
			g.ind++
			g.caseBody(c, 50)
			g.ind--
		}
		rc()
		g.emit("}")
	case k < 93: // continue / break in the enclosing loop, guarded
		if g.inLoop == 0 {
			g.emit("%s = %s", g.pickVal().name, g.expr(1))
			return
		}
		g.emit("if %s {", g.cond())
		rc := g.pushCtx()
		g.ind++
		if g.pct(50, "cont") {
			g.emit("continue")
		} else {
			g.emit("break")
		}
		g.ind--
		rc()
		g.emit("}")
	case k < 96: // an operator the compiler documents as unsupported: must be rejected, never mis-compiled
		if !g.pct(30, "unsupported") {
			g.emit("%s = %s", g.pickVal().name, g.expr(2))
			return
		}
		op := unsupportedOps[g.uni(len(unsupportedOps), "uop")]
		rhs := g.lit()
		if (op == "/" || op == "%") && rhs == "0" {
			rhs = "3"
		}
		if op == "<<" {
			rhs = "1"
		}
		g.emit("%s = %s %s %s", g.pickVal().name, g.pickVal().name, op, rhs)
	default:
		if c.inFunc && g.pct(30, "earlyReturn") {
			g.emit("if %s {", g.cond())
			rc := g.pushCtx()
			g.ind++
			g.emit("return %s", g.expr(1))
			g.ind--
			rc()
			g.emit("}")
			return
		}
		g.emit("%s = %s", g.pickVal().name, g.expr(2))
	}
}

// case bodies have no scope of their own in the compiler: only plain statements, no declarations
// It reports whether the body ends in a break.
func (g *pgen) caseBody(c stmtCtx, breakPct int) (endsInBreak bool) {
	defer func() {
		// an unlabelled break inside a clause ends the switch (Go). Inside a loop the compiler makes it leave
		// the loop (recorded finding); outside any loop it refuses it
		if !(g.inLoop > 0 && g.pct(breakPct, "switchbreak")) && !(g.inLoop == 0 && g.pct(3, "switchbreakNoLoop")) {
			return
		}
		if g.pct(50, "switchbreakGuarded") {
			g.emit("if %s {", g.cond())
			rc := g.pushCtx()
			g.ind++
			g.emit("break")
			g.ind--
			rc()
			g.emit("}")
			v := g.pickVal()
			g.emit("%s = %s + %s", v.name, v.name, g.lit())
			return
		}
		g.emit("break")
		endsInBreak = true
	}()
	n := rapid.IntRange(1, 2).Draw(g.t, "ncasebody")
	for i := 0; i < n; i++ {
		switch g.uni(4, "casestmt") {
		case 0:
			v := g.pickVal()
			if g.hoists(v) && !g.pct(8, "allowHoist") {
				g.emit("%s = %s + 1", v.name, v.name)
			} else {
				g.emit("%s++", v.name)
			}
		case 1:
			if !c.inFunc && len(g.outs) > 0 {
				g.emit("bondgo.IOWrite(%s, %s)", g.outs[0], g.expr(1))
				continue
			}
			fallthrough
		default:
			g.emit("%s = %s", g.pickVal().name, g.expr(2))
		}
	}
	return false
}

func (g *pgen) valueFunc() {
	name := g.newName("f")
	np := rapid.IntRange(1, 2).Draw(g.t, "nparams")
	var ps []string
	pm := g.fresh()
	g.scopes = []gscope{{pm, g.fresh()}}
	g.vals = nil
	for i := 0; i < np; i++ {
		p := fmt.Sprintf("a%d", i)
		ps = append(ps, p+" "+g.typ)
		g.vals = append(g.vals, gvar{p, pm})
	}
	g.emit("func %s(%s) %s {", name, strings.Join(ps, ", "), g.typ)
	restore := g.pushBlock()
	g.ind++
	if g.pct(60, "flocal") {
		n := g.newName("reg_l")
		g.emit("var %s %s", n, g.typ)
		g.vals = append(g.vals, gvar{n, g.top().m})
	}
	for i, n := 0, rapid.IntRange(0, 3).Draw(g.t, "nfstmt"); i < n; i++ {
		g.stmt(stmtCtx{inFunc: true, depth: 1})
	}
	if g.pct(10, "fshadow") {
		g.shadowStmt(stmtCtx{inFunc: true, depth: 1})
	}
	ret := g.expr(2)
	for _, v := range g.vals[np:] {
		ret += " + " + v.name
		break
	}
	g.emit("return %s", ret)
	g.ind--
	restore()
	g.emit("}")
	g.emit("")
	g.funcs = append(g.funcs, gfunc{name, np})
}

// routine emits a body that declares its IO and variables and ends in the endless writing loop.
func (g *pgen) routine(main bool, gidOut []int, gidIn []int, extra func()) {
	g.vals, g.outs, g.ins = nil, nil, nil
	g.scopes = []gscope{{g.fresh(), g.fresh()}}
	restore := g.pushBlock()
	g.ind++
	for range gidOut {
		n := g.newName("out")
		g.emit("var %s bondgo.Output", n)
		g.outs = append(g.outs, n)
	}
	for range gidIn {
		n := g.newName("in")
		g.emit("var %s bondgo.Input", n)
		g.ins = append(g.ins, n)
	}
	nreg := rapid.IntRange(2, 4).Draw(g.t, "nreg")
	for i := 0; i < nreg; i++ {
		n := g.newName("reg_v")
		g.emit("var %s %s", n, g.typ)
		g.vals = append(g.vals, gvar{n, g.top().m})
	}
	if !g.o.Faithful {
		for i, n := 0, rapid.IntRange(0, 2).Draw(g.t, "nmem"); i < n; i++ {
			v := g.newName("m")
			g.emit("var %s %s", v, g.typ)
			g.vals = append(g.vals, gvar{v, g.top().m})
		}
	}
	// the Make calls, in declaration order unless the program is of the permuted kind (a rotation: never the identity)
	order := func(n int) []int {
		r := make([]int, n)
		rot := 0
		if g.permMake && main && n >= 2 {
			rot = 1 + g.uni(n-1, "makerot")
		}
		for i := range r {
			r[i] = (i + rot) % n
		}
		return r
	}
	for _, i := range order(len(g.outs)) {
		g.emit("%s = bondgo.Make(bondgo.Output, %d)", g.outs[i], gidOut[i])
	}
	for _, i := range order(len(g.ins)) {
		g.emit("%s = bondgo.Make(bondgo.Input, %d)", g.ins[i], gidIn[i])
	}
	if extra != nil {
		extra()
	}
	if main && g.emitter != "" && g.pct(40, "emitInPrologue") {
		g.emit("%s(%s)", g.emitter, g.expr(1))
	}
	for i, n := 0, rapid.IntRange(0, 5).Draw(g.t, "nprologue"); i < n; i++ {
		g.stmt(stmtCtx{depth: 0})
	}
	if g.pct(12, "pshadow") {
		g.shadowStmt(stmtCtx{depth: 0})
	}
	// the endless loop: something changes every round and at least one write happens
	nTop := len(g.vals)
	g.emit("for {")
	rc := g.pushCtx()
	g.inLoop++
	g.block(rapid.IntRange(0, 3).Draw(g.t, "nloop"), stmtCtx{depth: 1}, func() {
		// every declared variable and input is read (Go rejects unused locals) and so observed
		var all []string
		for _, x := range g.vals[:nTop] {
			all = append(all, x.name)
		}
		for _, in := range g.ins {
			all = append(all, "bondgo.IORead("+in+")")
		}
		sum := func() { g.emit("bondgo.IOWrite(%s, %s)", g.outs[len(g.outs)-1], strings.Join(all, " + ")) }
		sumLast := g.pct(30, "sumlast")
		if !sumLast {
			sum()
		}
		if main && g.emitter != "" {
			g.emit("%s(%s)", g.emitter, g.expr(1))
		}
		if main && g.mainLoop != nil {
			g.mainLoop()
		}
		v := g.vals[rapid.IntRange(0, nreg-1).Draw(g.t, "ctr")]
		switch g.uni(3, "advance") {
		case 0:
			g.emit("%s++", v.name)
		case 1:
			g.emit("%s = %s + %s", v.name, v.name, g.lit())
		default:
			g.emit("%s = %s * 3 + 1", v.name, v.name)
		}
		if g.pct(35, "secondwrite") {
			g.emit("bondgo.IOWrite(%s, %s)", g.outs[rapid.IntRange(0, len(g.outs)-1).Draw(g.t, "out")], g.expr(2))
		}
		g.emit("bondgo.IOWrite(%s, %s)", g.outs[rapid.IntRange(0, len(g.outs)-1).Draw(g.t, "out")], v.name)
		if sumLast {
			sum()
		}
	})
	g.inLoop--
	rc()
	g.emit("}")
	g.ind--
	restore()
}

// GenProgram draws a program. It returns the source and whether -mpm is to be used.
func GenProgram(t *rapid.T, o GenOpts, rsize int) (src string, mpm bool) {
	g := &pgen{t: t, o: o, rsize: rsize, typ: fmt.Sprintf("uint%d", rsize)}
	g.emit("package main")
	g.emit("")
	g.emit("import (")
	g.emit("\t\"bondgo\"")
	g.emit(")")
	g.emit("")
	if o.Faithful {
		g.mpm = g.pct(12, "mpm")
	} else {
		g.mpm = g.pct(35, "mpm")
	}
	g.octal = g.pct(6, "octalProgram")
	for i, n := 0, rapid.IntRange(0, 2).Draw(t, "nfuncs"); i < n; i++ {
		g.valueFunc()
	}
	// global ids: outputs 1..9 distinct, inputs 11.. (disjoint: an id used on both sides is a processor-to-processor bond)
	gids := rapid.Permutation([]int{1, 2, 3, 4, 5, 6, 7, 8, 9}).Draw(t, "gids")
	take := func(n int) []int { r := gids[:n]; gids = gids[n:]; return r }
	if g.pct(4, "emitter") {
		// a function with a side effect (it writes an output of its own), called as a statement from main
		name := g.newName("e")
		g.emit("func %s(v %s) {", name, g.typ)
		g.emit("\tvar oute bondgo.Output")
		g.emit("\toute = bondgo.Make(bondgo.Output, %d)", take(1)[0])
		g.emit("\tbondgo.IOWrite(oute, v)")
		g.emit("}")
		g.emit("")
		g.emitter = name
	}
	type worker struct {
		name string
		kind string // plain, chan, value
	}
	var workers []worker
	// a value-returning helper that sends on the channel it is given, called inline (no go) from main, with
	// consumers started by go: about a sixth of the -mpm programs of the full grammar
	chanHelper := g.mpm && !o.Faithful && g.pct(18, "chanHelper")
	if g.mpm {
		nw := rapid.IntRange(0, 2).Draw(t, "nworkers")
		if chanHelper && nw > 1 {
			nw = 1 // (nine output ids in all)
		}
		for i := 0; i < nw; i++ {
			kind := "plain"
			if !o.Faithful {
				switch g.uni(10, "workerkind") {
				case 0, 1, 2:
					kind = "chan"
				case 3:
					kind = "value"
					if g.pct(50, "twovalueargs") {
						kind = "value2" // two by-value arguments: the recorded map-order finding
					}
				}
			}
			w := worker{g.newName("w"), kind}
			workers = append(workers, w)
			switch kind {
			case "plain":
				g.emit("func %s() {", w.name)
				g.routine(false, take(1), nil, nil)
				g.emit("}")
			case "chan":
				g.emit("func %s(c chan %s) {", w.name, g.typ)
				g.emit("\tvar reg_p %s", g.typ)
				g.emit("\treg_p = %s", g.lit())
				g.emit("\tfor {")
				g.emit("\t\tc <- reg_p")
				g.emit("\t\treg_p++")
				g.emit("\t}")
				g.emit("}")
			case "value", "value2":
				if kind == "value" {
					g.emit("func %s(k %s) {", w.name, g.typ)
				} else {
					g.emit("func %s(k %s, j %s) {", w.name, g.typ, g.typ)
				}
				g.emit("\tvar outw bondgo.Output")
				g.emit("\tvar reg_p %s", g.typ)
				g.emit("\toutw = bondgo.Make(bondgo.Output, %d)", take(1)[0])
				g.emit("\treg_p = k")
				g.emit("\tfor {")
				if kind == "value" {
					g.emit("\t\treg_p++")
				} else {
					g.emit("\t\treg_p = reg_p + j")
				}
				g.emit("\t\tbondgo.IOWrite(outw, reg_p)")
				g.emit("\t}")
				g.emit("}")
			}
			g.emit("")
		}
	}
	var helper string
	var cons []string
	secondChan, secondSite := false, false
	if chanHelper {
		switch k := g.uni(10, "chanHelperKind"); {
		case k < 3:
			secondChan = true // a second channel is declared after the first inlined call, and used
		case k < 6:
			secondSite = true // the same channel goes to the helper at a second call site
		case k < 9:
			secondChan, secondSite = true, true
		}
		helper = g.newName("p")
		g.emit("func %s(c chan %s, v %s) %s {", helper, g.typ, g.typ, g.typ)
		g.emit("\tc <- v")
		if g.pct(50, "helperPlain") {
			g.emit("\treturn v")
		} else {
			g.emit("\treturn v + %s", g.lit())
		}
		g.emit("}")
		g.emit("")
		for i := 0; i < 1+b2i(secondChan); i++ {
			n := g.newName("w")
			cons = append(cons, n)
			g.emit("func %s(c chan %s) {", n, g.typ)
			g.emit("\tvar outc bondgo.Output")
			g.emit("\tvar reg_q %s", g.typ)
			g.emit("\toutc = bondgo.Make(bondgo.Output, %d)", take(1)[0])
			g.emit("\tfor {")
			g.emit("\t\treg_q = <-c")
			if g.pct(50, "consPlain") {
				g.emit("\t\tbondgo.IOWrite(outc, reg_q)")
			} else {
				g.emit("\t\tbondgo.IOWrite(outc, reg_q + %s)", g.lit())
			}
			g.emit("\t}")
			g.emit("}")
			g.emit("")
		}
	}
	nout := rapid.IntRange(1, 2).Draw(t, "nout")
	if g.pct(8, "manyout") {
		nout = 3 + g.uni(3, "nmanyout") // 3 … 5 (nine ids, at most two for the workers, one for the emitter)
	}
	nin := 0
	if g.pct(30, "hasin") {
		nin = rapid.IntRange(1, 2).Draw(t, "nin")
		if g.pct(25, "manyin") {
			nin = 3 + g.uni(6, "nmanyin") // 3 … 8: every declaration and every Make keeps one of the 16 local ids
		}
	}
	if g.pct(2, "ioIdsExhausted") {
		// more than eight inputs: the recorded termination finding (kept out of the ordinary cases by construction)
		nin = 9 + g.uni(2, "nexhaust")
	}
	g.permMake = g.pct(8, "permMake")
	if g.permMake && nout < 2 {
		nout = 2
	}
	if nout > len(gids) {
		nout = len(gids)
	}
	var ing []int
	for i := 0; i < nin; i++ {
		ing = append(ing, 11+i) // c12_test.go firstInGid …
	}
	g.emit("func main() {")
	g.routine(true, take(nout), ing, func() {
		for _, w := range workers {
			switch w.kind {
			case "plain":
				g.emit("go %s()", w.name)
			case "chan":
				ch := g.newName("ch")
				g.emit("var %s chan %s", ch, g.typ)
				g.emit("go %s(%s)", w.name, ch)
				g.emit("%s = <-%s", g.vals[0].name, ch)
			case "value":
				g.emit("go %s(%s)", w.name, g.lit())
			case "value2":
				g.emit("go %s(%s, %s)", w.name, g.lit(), g.lit())
			}
		}
		if chanHelper {
			c1, c2 := g.newName("ch"), ""
			g.emit("var %s chan %s", c1, g.typ)
			g.emit("go %s(%s)", cons[0], c1)
			g.emit("%s = %s(%s, %s)", g.pickVal().name, helper, c1, g.expr(1))
			if secondChan {
				c2 = g.newName("ch")
				g.emit("var %s chan %s", c2, g.typ)
				g.emit("go %s(%s)", cons[1], c2)
			}
			g.mainLoop = func() {
				if secondChan {
					if g.pct(50, "secondChanThroughHelper") {
						g.emit("%s = %s(%s, %s)", g.pickVal().name, helper, c2, g.expr(1))
					} else {
						g.emit("%s <- %s", c2, g.expr(1))
					}
				}
				if secondSite {
					g.emit("%s = %s(%s, %s)", g.pickVal().name, helper, c1, g.expr(1))
				}
			}
		}
	})
	g.emit("}")
	return strings.Join(g.lines, "\n") + "\n", g.mpm
}

func b2i(b bool) int {
	if b {
		return 1
	}
	return 0
}
