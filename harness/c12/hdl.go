package c12

// Executing the machine bondgo wrote on its generated Verilog (the real Bondmachine.Write_verilog) with
// the in-house interpreter verifharness/vlog. Used for machines whose opcodes the Go simulator does not
// implement faithfully (r2m/m2r: RAM variables), and, as a guard of this path, also for faithful machines
// where both back-ends must agree with the reference.

import (
	"fmt"
	"strings"

	"github.com/BondMachineHQ/BondMachine/pkg/bondmachine"
	"verifharness/gen"
	"verifharness/vlog"
)

// opcodes the HDL path accepts on top of the simulator-faithful set: the processor-local RAM moves.
var hdlOnlyOps = map[string]bool{"r2m": true, "m2r": true}

// hdlEligible: every opcode is simulator-faithful or a RAM move (no channel / shared-object opcode).
func hdlEligible(ops []string, rsize int) bool {
	for _, o := range unfaithfulOps(ops, rsize) {
		if !hdlOnlyOps[o] {
			return false
		}
	}
	return true
}

// wrapBM gives a single machine (bondgo without -mpm) the trivial bondmachine around it: one
// processor, every processor port bonded to an external port of the same index.
func wrapBM(ld *Loaded, rsize int) (*bondmachine.Bondmachine, error) {
	if ld.BM != nil {
		return ld.BM, nil
	}
	m := ld.Procs[0].Mach
	bm := new(bondmachine.Bondmachine)
	bm.Rsize = uint8(rsize)
	bm.Init()
	bm.Domains = append(bm.Domains, m)
	if _, err := bm.Add_processor(0); err != nil {
		return nil, err
	}
	for i := 0; i < int(m.N); i++ {
		if _, err := bm.Add_input(); err != nil {
			return nil, err
		}
		bm.Add_bond([]string{fmt.Sprintf("p0i%d", i), fmt.Sprintf("i%d", i)})
	}
	for o := 0; o < int(m.M); o++ {
		if _, err := bm.Add_output(); err != nil {
			return nil, err
		}
		bm.Add_bond([]string{fmt.Sprintf("o%d", o), fmt.Sprintf("p0o%d", o)})
	}
	return bm, nil
}

type HDLResult struct {
	Streams  []map[int][]uint64 // per processor: output index -> values given to _auxoK by a non-blocking assignment
	Retired  []int              // per processor: program-counter updates seen
	Cycles   int
	Status   string // "" | not-elaborable:<reason> | interp:<reason>
	LastTick []int  // per processor: cycle of the last program-counter update
}

func shortReason(err error) string {
	f := strings.Fields(err.Error())
	if len(f) > 6 {
		f = f[:6]
	}
	return strings.Join(f, "-")
}

// RunHDL renders, elaborates and clocks the machine. inVals[k] is the constant offered on external
// input k (valid held high). It stops after `cycles` clock cycles, or earlier once every processor p has
// produced want[p][idx] values on each of its outputs.
func RunHDL(bm *bondmachine.Bondmachine, nprocs int, inVals []uint64, cycles int, want []map[int]int) (res HDLResult) {
	defer func() {
		if r := recover(); r != nil {
			res.Status = "interp:panic-" + shortReason(fmt.Errorf("%v", r))
		}
	}()
	files, err := gen.RenderBM(bm, nil)
	if err != nil {
		res.Status = "not-elaborable:render-" + shortReason(err)
		return
	}
	d, diags := vlog.ParseDesignOpts(files, vlog.ParseOpts{HonorTranslateOff: true})
	for _, dg := range diags {
		if dg.Class == vlog.ClassSyntax {
			res.Status = "not-elaborable:syntax-" + shortReason(fmt.Errorf("%v", dg))
			return
		}
	}
	sim, err := vlog.Elaborate(d, "bondmachine", nil)
	if err != nil {
		res.Status = "not-elaborable:" + shortReason(err)
		return
	}
	for i := 0; i < bm.Inputs; i++ {
		v := uint64(0)
		if i < len(inVals) {
			v = inVals[i]
		}
		sim.Set(fmt.Sprintf("i%d", i), v)
		sim.Set(fmt.Sprintf("i%d_valid", i), 1)
	}
	for o := 0; o < bm.Outputs; o++ {
		sim.Set(fmt.Sprintf("o%d_received", o), 0)
	}
	sim.Set("reset", 1)
	for k := 0; k < 2; k++ {
		if err := sim.Tick("clk"); err != nil {
			res.Status = "interp:" + shortReason(err)
			return
		}
	}
	sim.Set("reset", 0)
	if err := sim.Settle(); err != nil {
		res.Status = "interp:" + shortReason(err)
		return
	}
	res.Streams = make([]map[int][]uint64, nprocs)
	res.Retired = make([]int, nprocs)
	res.LastTick = make([]int, nprocs)
	type watch struct {
		p, k int
		path string
	}
	var ws []watch
	pcs := make([]string, nprocs)
	for p := 0; p < nprocs; p++ {
		res.Streams[p] = map[int][]uint64{}
		pcs[p] = fmt.Sprintf("a%d_inst.p%d_instance._pc", p, p)
		if !sim.Has(pcs[p]) {
			res.Status = "interp:no-signal-" + pcs[p]
			return
		}
		dom := bm.Domains[bm.Processors[p]]
		for k := 0; k < int(dom.M); k++ {
			path := fmt.Sprintf("a%d_inst.p%d_instance._auxo%d", p, p, k)
			if !sim.Has(path) {
				res.Status = "interp:no-signal-" + path
				return
			}
			ws = append(ws, watch{p, k, path})
		}
	}
	done := func() bool {
		if want == nil {
			return false
		}
		for p := range want {
			for k, n := range want[p] {
				if len(res.Streams[p][k]) < n {
					return false
				}
			}
		}
		return true
	}
	for c := 0; c < cycles; c++ {
		if err := sim.Tick("clk"); err != nil {
			res.Status = "interp:" + shortReason(err)
			return
		}
		res.Cycles++
		for _, w := range ws {
			if sim.NBAWritten(w.path) {
				res.Streams[w.p][w.k] = append(res.Streams[w.p][w.k], sim.Get(w.path))
			}
		}
		for p := range pcs {
			if sim.NBAWritten(pcs[p]) {
				res.Retired[p]++
				res.LastTick[p] = res.Cycles
			}
		}
		if done() {
			break
		}
	}
	return
}
