// C17 — finished simulations leave no workers behind.
// Generated machines × batches of single-shot simulations (sequential and from concurrent
// callers); oracle = goroutine accounting after a settle loop.
package c17

import (
	"fmt"
	"regexp"
	"runtime"
	"sort"
	"strings"
	"sync"
	"testing"
	"time"

	"github.com/BondMachineHQ/BondMachine/pkg/bmnumbers"
	"github.com/BondMachineHQ/BondMachine/pkg/procbuilder"
	"github.com/BondMachineHQ/BondMachine/pkg/simbox"
	"pgregory.net/rapid"
	"verifharness/gen"
	"verifharness/pbt"
)

type Case struct {
	Spec     gen.BMSpec
	Inputs   []uint8
	First    int    // size of the warm-up batch
	Batch    int    // size of each of the two measured batches
	Callers  int    // concurrent callers (1 = sequential)
	API      string // "single" (SinglePipelineSimulate) or "fitness" (Fitness_default)
	Ticks    int    // Fitness_default interactions
	DataType string
}

func genCase(t *rapid.T) Case {
	var c Case
	c.Spec = gen.HandshakeMachine(t, gen.HSOptions{MaxProcs: 6, MaxPad: 2, Replicate: true})
	if rapid.IntRange(0, 4).Draw(t, "placeholder") == 0 {
		// an unconnected placeholder core: no program yet (the simulator cannot initialise it and simply
		// leaves it halted)
		at := rapid.IntRange(0, len(c.Spec.Procs)).Draw(t, "placeholder_at")
		if at == len(c.Spec.Procs) { // only as the last processor: the bonds name processors by index
			c.Spec.Procs = append(c.Spec.Procs, gen.ProcSpec{R: 1, O: 1, Ops: []string{"j"}})
		}
	}
	// number type the outputs are printed in: valid ones, ones of the wrong width and unknown ones
	// (a simulation that ends with an error has finished too and must release what it started)
	c.DataType = rapid.SampledFrom([]string{"unsigned", "unsigned", "float32", "float16", "fps16f4", "nosuchtype", "flpe4f4"}).Draw(t, "dtype")
	for i := 0; i < c.Spec.Inputs; i++ {
		c.Inputs = append(c.Inputs, rapid.Uint8().Draw(t, "in"))
	}
	c.First = rapid.SampledFrom([]int{1, 2, 5}).Draw(t, "first")
	c.Batch = rapid.SampledFrom([]int{3, 5, 10, 25}).Draw(t, "batch")
	c.Callers = rapid.SampledFrom([]int{1, 1, 2, 4, 8}).Draw(t, "callers")
	c.API = rapid.SampledFrom([]string{"single", "single", "single", "fitness"}).Draw(t, "api")
	c.Ticks = rapid.IntRange(1, 60).Draw(t, "ticks")
	return c
}

// settle waits (bounded) until the goroutine count stops changing. The wall clock is used only to
// let exiting goroutines finish; the verdict never depends on how long it took.
func settle() int {
	last, stable := -1, 0
	for i := 0; i < 400; i++ {
		runtime.Gosched()
		n := runtime.NumGoroutine()
		if n == last {
			stable++
			if stable >= 5 {
				return n
			}
		} else {
			stable = 0
			last = n
		}
		time.Sleep(200 * time.Microsecond)
	}
	return runtime.NumGoroutine()
}

var createdBy = regexp.MustCompile(`created by ([^\s]+)`)

func creators() map[string]int {
	buf := make([]byte, 1<<22)
	n := runtime.Stack(buf, true)
	r := map[string]int{}
	for _, m := range createdBy.FindAllStringSubmatch(string(buf[:n]), -1) {
		r[m[1]]++
	}
	return r
}

func diffCreators(a, b map[string]int) string {
	var ks []string
	for k := range b {
		if b[k] != a[k] {
			ks = append(ks, fmt.Sprintf("%s:+%d", k, b[k]-a[k]))
		}
	}
	sort.Strings(ks)
	return strings.Join(ks, " ")
}

func prop(c Case) pbt.Outcome {
	bm, err := gen.Build(c.Spec)
	if err != nil {
		return pbt.Outcome{Excluded: "build-error"}
	}
	in := make([]string, len(c.Inputs))
	for i, v := range c.Inputs {
		in[i] = fmt.Sprintf("%d", v)
	}
	var simErr error
	var errMu sync.Mutex
	one := func() {
		var err error
		switch c.API {
		case "fitness":
			// Fitness_default dereferences a nil *Config as soon as the input simbox holds a rule, so
			// its accepted domain is an empty input simbox (labelled).
			inb := new(simbox.Simbox)
			exp := new(simbox.Simbox)
			exp.Add("absolute:1:set:o0:1")
			_, err = bm.Fitness_default(inb, exp, uint64(c.Ticks))
		default:
			dt := c.DataType
			if dt == "" {
				dt = "unsigned"
			}
			func() {
				// a number type of the wrong width makes the exporter panic (index out of range): the
				// caller sees a panic instead of an error, the resources must be released all the same
				defer func() {
					if r := recover(); r != nil {
						err = fmt.Errorf("panic: %v", r)
					}
				}()
				_, err = bm.SinglePipelineSimulate(dt, in, nil)
			}()
		}
		if err != nil {
			errMu.Lock()
			simErr = err
			errMu.Unlock()
		}
	}
	batch := func(n int) {
		if c.Callers <= 1 {
			for i := 0; i < n; i++ {
				one()
			}
			return
		}
		var wg sync.WaitGroup
		ch := make(chan struct{}, n)
		for i := 0; i < n; i++ {
			ch <- struct{}{}
		}
		close(ch)
		for w := 0; w < c.Callers; w++ {
			wg.Add(1)
			go func() {
				defer wg.Done()
				for range ch {
					one()
				}
			}()
		}
		wg.Wait()
	}
	// process-wide registries a simulation may add to (number types are registered on demand): "no more
	// retained simulator state" — a type or opcode is registered once, not once per simulation
	registries := func() int {
		return len(bmnumbers.AllTypes) + len(bmnumbers.AllMatchers) + len(bmnumbers.AllDynamicalTypes) + len(procbuilder.Allopcodes)
	}
	g0 := settle()
	batch(c.First)
	g1 := settle()
	r1 := registries()
	c1 := creators()
	batch(c.Batch)
	g2 := settle()
	r2 := registries()
	batch(c.Batch)
	g3 := settle()
	r3 := registries()
	c3 := creators()
	if simErr != nil {
		if strings.HasPrefix(simErr.Error(), "panic") {
			c.API += "+panic"
		} else {
			c.API += "+error-return"
		}
	}
	if c.Spec.ShareDomains {
		c.API += "+shared-domain"
	}
	labels := []string{"api=" + c.API, fmt.Sprintf("callers=%d", c.Callers), fmt.Sprintf("procs=%d", len(c.Spec.Procs))}
	nt := c.Batch >= 5 && len(c.Spec.Procs) >= 2
	// goroutines_after - goroutines_before <= c independent of n: two further batches of equal size must
	// not both add goroutines (a one-off lazy start would show in at most one of them).
	if g2-g1 > 0 && g3-g2 > 0 {
		// Goroutines that were told to stop may not have been scheduled yet on a loaded machine: a leak stays,
		// a straggler goes away. Give them time (bounded) and look again before judging.
		for i := 0; i < 20; i++ {
			time.Sleep(150 * time.Millisecond)
			n := settle()
			if n >= g3 {
				if i >= 3 {
					break
				}
				continue
			}
			g3 = n
		}
		c3 = creators()
	}
	if g2-g1 > 0 && g3-g2 > 0 && g3-g1 >= 2 {
		return pbt.Outcome{NonTrivial: nt, Labels: labels, Fail: pbt.Failf("goroutine-leak",
			"live goroutines grow with the number of finished simulations: before=%d after %d sims=%d after %d=%d after %d=%d (%.1f per simulation; machine has %d processors); created by: %s",
			g0, c.First, g1, c.First+c.Batch, g2, c.First+2*c.Batch, g3, float64(g3-g1)/float64(2*c.Batch), len(c.Spec.Procs), diffCreators(c1, c3))}
	}
	if r2 > r1 && r3 > r2 {
		return pbt.Outcome{NonTrivial: nt, Labels: labels, Fail: pbt.Failf("registry-growth",
			"the process-wide registries (number types, matchers, opcodes) grow with the number of finished simulations: %d entries after %d simulations, %d after %d, %d after %d (data type %q)",
			r1, c.First, r2, c.First+c.Batch, r3, c.First+2*c.Batch, c.DataType)}
	}
	return pbt.Outcome{NonTrivial: nt, Labels: labels}
}

// ---------------------------------------------------------------------------
// retained memory: a long batch of simulations whose inputs change every time (a batch job over fresh data)

type HeapCase struct {
	Spec  gen.BMSpec
	N     int // simulations per measured stretch
	Seed  uint64
	DType string
}

func genHeap(t *rapid.T) HeapCase {
	var c HeapCase
	c.Spec = gen.HandshakeMachine(t, gen.HSOptions{MaxProcs: 2, MaxPad: 1, Rsizes: []int{32}})
	c.N = rapid.SampledFrom([]int{1500, 2500}).Draw(t, "n")
	c.Seed = rapid.Uint64().Draw(t, "seed")
	c.DType = rapid.SampledFrom([]string{"unsigned", "float32"}).Draw(t, "dtype")
	return c
}

func liveHeap() uint64 {
	runtime.GC()
	runtime.GC()
	var ms runtime.MemStats
	runtime.ReadMemStats(&ms)
	return ms.HeapAlloc
}

func propHeap(c HeapCase) pbt.Outcome {
	if c.N < 100 || c.N > 20000 {
		return pbt.Outcome{Excluded: "bad-case"}
	}
	bm, err := gen.Build(c.Spec)
	if err != nil {
		return pbt.Outcome{Excluded: "build-error"}
	}
	k := c.Seed
	one := func() {
		in := make([]string, c.Spec.Inputs)
		for i := range in {
			k = k*6364136223846793005 + 1442695040888963407
			if c.DType == "float32" {
				in[i] = fmt.Sprintf("0f%d.%03d", (k>>40)%1000, (k>>20)%1000)
			} else {
				in[i] = fmt.Sprintf("%d", (k>>33)%4000000000)
			}
		}
		func() {
			defer func() { _ = recover() }()
			_, _ = bm.SinglePipelineSimulate(c.DType, in, nil)
		}()
	}
	stretch := func() uint64 {
		for i := 0; i < c.N; i++ {
			one()
		}
		settle()
		return liveHeap()
	}
	for i := 0; i < 50; i++ { // warm-up: lazily built tables
		one()
	}
	h0 := liveHeap()
	h1 := stretch()
	h2 := stretch()
	h3 := stretch()
	labels := []string{fmt.Sprintf("inputs=%d", c.Spec.Inputs), "dtype=" + c.DType}
	// bounded resources: the live heap after a stretch of N finished simulations does not keep growing by an
	// amount proportional to N. 64 bytes per simulation is far below what any per-simulation record costs and
	// far above the noise of the measurement (a constant, a few tens of kB whatever N is).
	limit := uint64(64 * c.N)
	grew := func(a, b uint64) bool { return b > a && b-a > limit }
	if c.Spec.Inputs > 0 && grew(h1, h2) && grew(h2, h3) {
		return pbt.Outcome{NonTrivial: true, Labels: labels, Fail: pbt.Failf("heap-growth",
			"live heap after garbage collection keeps growing with the number of finished simulations whose inputs differ: %d bytes after warm-up, %d after %d simulations, %d after %d, %d after %d (%.0f bytes per simulation)",
			h0, h1, c.N, h2, 2*c.N, h3, 3*c.N, float64(h3-h1)/float64(2*c.N))}
	}
	return pbt.Outcome{NonTrivial: c.Spec.Inputs > 0, Labels: labels}
}

var heapEntry = pbt.Def("heap_bounded",
	"1..2-processor machines of 32-bit registers; three stretches of 1500/2500 SinglePipelineSimulate calls whose input strings differ every time (unsigned or float32 literals), after a warm-up of 50; the live heap after two forced collections must not grow by more than 64 bytes per simulation in both of the last two stretches; non-trivial = the machine has an external input",
	genHeap, propHeap)

var Props = []*pbt.Entry{
	pbt.Def("no_leak",
		"live dataflow-shaped machines of 1..6 processors; warm-up batch of 1/2/5 then two measured batches of 3/5/10/25 single-shot simulations (SinglePipelineSimulate, or Fitness_default with an empty input simbox), from 1/2/4/8 concurrent callers; goroutine count after a settle loop must not grow in both measured batches, nor may the number of entries of the process-wide registries (number types, matchers, opcodes); non-trivial = batch>=5 and >=2 processors",
		genCase, prop),
	heapEntry,
}

func TestProps(t *testing.T)  { pbt.RunAll(t, "C17", Props) }
func TestReplay(t *testing.T) { pbt.ReplayAll(t, "C17", Props) }
