package c17

// C17, tuning jobs: cmd/simfinetune (an anchor of the property) runs many single-shot simulations from a
// pool of workers. The real binary, built with -tags verif, reports its live goroutines before and after
// the tuning run (verifProbe); the number left behind must not grow with the amount of work.

import (
	"bytes"
	"context"
	"encoding/json"
	"fmt"
	"os"
	"os/exec"
	"path/filepath"
	"regexp"
	"strconv"
	"strings"
	"time"

	"pgregory.net/rapid"
	"verifharness/pbt"
)

type TunerCase struct {
	Workers int
	Debug   bool
	Pop     int
	Gens    int // the second run uses 3*Gens
	Records int // how many records of the sample input/output files are used
}

func genTuner(t *rapid.T) TunerCase {
	return TunerCase{
		Workers: rapid.SampledFrom([]int{1, 2, 3, 4, 8, 13}).Draw(t, "workers"),
		Debug:   rapid.Bool().Draw(t, "debug"),
		Pop:     rapid.IntRange(3, 6).Draw(t, "pop"),
		Gens:    rapid.IntRange(1, 3).Draw(t, "gens"),
		Records: rapid.IntRange(1, 6).Draw(t, "records"),
	}
}

var probeRe = regexp.MustCompile(`VERIF-GOROUTINES phase=(\w+) n=(\d+)`)

func firstLines(path string, n int) (string, error) {
	b, err := os.ReadFile(path)
	if err != nil {
		return "", err
	}
	l := strings.Split(strings.TrimRight(string(b), "\n"), "\n")
	if n > len(l) {
		n = len(l)
	}
	return strings.Join(l[:n], "\n") + "\n", nil
}

func propTuner(c TunerCase) pbt.Outcome {
	tools := os.Getenv("VERIF_TOOLS")
	bin := filepath.Join(tools, "simfinetune")
	if _, err := os.Stat(bin); err != nil {
		return pbt.Outcome{Fail: pbt.Failf("inconclusive:no-tool", "simfinetune binary not available in $VERIF_TOOLS: %v", err)}
	}
	repo := os.Getenv("VERIF_REPO")
	if repo == "" {
		repo = "/repo"
	}
	sample := filepath.Join(repo, "cmd", "simfinetune")
	dir, err := os.MkdirTemp(os.Getenv("VERIF_WORK"), "c17tuner-")
	if err != nil {
		return pbt.Outcome{Fail: pbt.Failf("harness", "%v", err)}
	}
	defer os.RemoveAll(dir)
	in, err1 := firstLines(filepath.Join(sample, "inputs.csv"), c.Records)
	out, err2 := firstLines(filepath.Join(sample, "outputs.csv"), c.Records)
	if err1 != nil || err2 != nil {
		return pbt.Outcome{Excluded: "sample-files-missing"}
	}
	os.WriteFile(filepath.Join(dir, "in.csv"), []byte(in), 0o644)
	os.WriteFile(filepath.Join(dir, "out.csv"), []byte(out), 0o644)
	run := func(gens int) (start, end int, f *pbt.Failure) {
		cfg := map[string]any{"Debug": false, "PopulationSize": c.Pop, "Generations": gens, "MutationRate": 0.1, "CrossoverRate": 0.7,
			"ElitismCount": 1, "MinDelay": 1, "MaxDelay": 5, "DistributionSize": 2}
		b, _ := json.Marshal(cfg)
		os.WriteFile(filepath.Join(dir, "g.json"), b, 0o644)
		args := []string{"-bondmachine-file", filepath.Join(sample, "bondmachine.json"), "-inputs-file", "in.csv", "-outputs-file", "out.csv",
			"-genetic-config-file", "g.json", "-delays-output-file", "delays.json", "-workers", strconv.Itoa(c.Workers)}
		if c.Debug {
			args = append(args, "-d")
		}
		ctx, cancel := context.WithTimeout(context.Background(), 120*time.Second)
		defer cancel()
		cmd := exec.CommandContext(ctx, bin, args...)
		cmd.Dir = dir
		cmd.Env = append(os.Environ(), "VERIF_SIMFINETUNE_PROBE=1")
		var so, se bytes.Buffer
		cmd.Stdout, cmd.Stderr = &so, &se
		err := cmd.Run()
		if ctx.Err() == context.DeadlineExceeded {
			return 0, 0, pbt.Failf("excluded:timeout", "timeout")
		}
		if err != nil {
			return 0, 0, pbt.Failf("tuner-crash", "simfinetune %v: %v\n%s", args, err, tail2(se.String(), 15))
		}
		start, end = -1, -1
		for _, m := range probeRe.FindAllStringSubmatch(se.String(), -1) {
			n, _ := strconv.Atoi(m[2])
			if m[1] == "start" {
				start = n
			} else if m[1] == "end" {
				end = n
			}
		}
		if start < 0 || end < 0 {
			return 0, 0, pbt.Failf("inconclusive:no-probe", "the binary did not print the goroutine probe (built without -tags verif?)")
		}
		return start, end, nil
	}
	s1, e1, f := run(c.Gens)
	if f != nil {
		if f.Sig == "excluded:timeout" {
			return pbt.Outcome{Excluded: "tool-timeout"}
		}
		return pbt.Outcome{Fail: f}
	}
	s2, e2, f := run(3 * c.Gens)
	if f != nil {
		if f.Sig == "excluded:timeout" {
			return pbt.Outcome{Excluded: "tool-timeout"}
		}
		return pbt.Outcome{Fail: f}
	}
	labels := []string{fmt.Sprintf("workers=%d", c.Workers), fmt.Sprintf("debug=%v", c.Debug), fmt.Sprintf("records=%d", c.Records)}
	d1, d2 := e1-s1, e2-s2
	if d2 > 0 && d2 > d1 {
		return pbt.Outcome{Labels: labels, NonTrivial: true, Fail: pbt.Failf("tuner-goroutine-leak",
			"simfinetune leaves goroutines behind that grow with the work done: %d generations: %d -> %d, %d generations: %d -> %d (workers=%d debug=%v records=%d population=%d)",
			c.Gens, s1, e1, 3*c.Gens, s2, e2, c.Workers, c.Debug, c.Records, c.Pop)}
	}
	return pbt.Outcome{Labels: labels, NonTrivial: c.Workers >= 2 && c.Records >= 2}
}

func tail2(s string, n int) string {
	l := strings.Split(strings.TrimRight(s, "\n"), "\n")
	if len(l) > n {
		l = l[len(l)-n:]
	}
	return strings.Join(l, "\n")
}

var tunerEntry = pbt.Def("tuner_cli",
	"the real simfinetune binary (built with -tags verif) on the repository's sample machine with 1..6 input records, 1..13 workers, debug on/off, population 3..6, run for G and for 3G generations; the goroutines alive after the tuning run minus those before it must not grow with G; non-trivial = at least 2 workers and 2 records",
	genTuner, propTuner)

func init() { Props = append(Props, tunerEntry) }
