package smoke
import ("testing"; "pgregory.net/rapid"; "github.com/BondMachineHQ/BondMachine/pkg/bondmachine")
func TestS(t *testing.T){ rapid.Check(t, func(t *rapid.T){ _ = rapid.Int().Draw(t,"x"); var b bondmachine.Bondmachine; _ = b }) }
