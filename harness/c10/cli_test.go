package c10

// C10 at the CLI level: the same model of named bonds, the edits performed by the real
// `bondmachine -bondmachine-file f <edit>` binary (cmd/bondmachine is one of the property's anchors: its
// argument handling — id lists, duplicates, ordering — sits between the user and the library).

import (
	"encoding/json"
	"fmt"
	"os"
	"os/exec"
	"path/filepath"
	"sort"
	"strconv"
	"strings"
	"time"

	"context"

	"github.com/BondMachineHQ/BondMachine/pkg/bondmachine"
	"github.com/BondMachineHQ/BondMachine/pkg/procbuilder"
	"pgregory.net/rapid"
	"verifharness/pbt"
)

type CliOp struct {
	Kind string // add_inputs add_outputs add_processor add_bond del_bonds del_inputs del_outputs
	N    int
	IDs  []int // id list as typed by the user: may repeat ids, be unordered, or name ids beyond the count
	A, B int
	Swap bool
}

type CliCase struct {
	Domains []Dom
	Ops     []CliOp
}

func genCli(t *rapid.T) CliCase {
	var c CliCase
	nd := rapid.IntRange(1, 3).Draw(t, "ndom")
	for i := 0; i < nd; i++ {
		c.Domains = append(c.Domains, Dom{rapid.IntRange(0, 3).Draw(t, "N"), rapid.IntRange(0, 3).Draw(t, "M")})
	}
	kinds := []string{"add_inputs", "add_outputs", "add_processor", "add_processor", "add_bond", "add_bond", "add_bond", "add_bond", "del_bonds", "del_inputs", "del_inputs", "del_outputs", "del_outputs"}
	// prologue: something to delete and bonds that must survive
	c.Ops = append(c.Ops, CliOp{Kind: "add_inputs", N: rapid.IntRange(2, 4).Draw(t, "pin")}, CliOp{Kind: "add_outputs", N: rapid.IntRange(2, 4).Draw(t, "pout")})
	for i, k := 0, rapid.IntRange(0, 2).Draw(t, "pprocs"); i < k; i++ {
		c.Ops = append(c.Ops, CliOp{Kind: "add_processor", N: rapid.IntRange(0, nd-1).Draw(t, "pdom")})
	}
	for i, k := 0, rapid.IntRange(2, 5).Draw(t, "pbonds"); i < k; i++ {
		c.Ops = append(c.Ops, CliOp{Kind: "add_bond", A: rapid.IntRange(0, 15).Draw(t, "a"), B: rapid.IntRange(0, 15).Draw(t, "b"), Swap: rapid.Bool().Draw(t, "swap")})
	}
	n := rapid.IntRange(1, 6).Draw(t, "nops")
	for i := 0; i < n; i++ {
		op := CliOp{Kind: rapid.SampledFrom(kinds).Draw(t, "kind")}
		switch op.Kind {
		case "add_inputs", "add_outputs":
			op.N = rapid.IntRange(1, 3).Draw(t, "n")
		case "add_processor":
			op.N = rapid.IntRange(0, nd).Draw(t, "dom") // nd = non-existent domain: refused
		case "add_bond":
			op.A = rapid.IntRange(0, 15).Draw(t, "a")
			op.B = rapid.IntRange(0, 15).Draw(t, "b")
			op.Swap = rapid.Bool().Draw(t, "swap")
		default:
			k := rapid.IntRange(1, 3).Draw(t, "nids")
			for j := 0; j < k; j++ {
				op.IDs = append(op.IDs, rapid.IntRange(0, 4).Draw(t, "id"))
			}
		}
		c.Ops = append(c.Ops, op)
	}
	return c
}

func toolPath(name string) (string, error) {
	d := os.Getenv("VERIF_TOOLS")
	if d == "" {
		return "", fmt.Errorf("VERIF_TOOLS not set")
	}
	p := filepath.Join(d, name)
	if _, err := os.Stat(p); err != nil {
		return "", err
	}
	return p, nil
}

func intsArg(ids []int) string {
	var s []string
	for _, i := range ids {
		s = append(s, strconv.Itoa(i))
	}
	return strings.Join(s, ",")
}

func loadBM(path string) (*bondmachine.Bondmachine, error) {
	b, err := os.ReadFile(path)
	if err != nil {
		return nil, err
	}
	dec := json.NewDecoder(strings.NewReader(string(b)))
	var j bondmachine.Bondmachine_json
	if err := dec.Decode(&j); err != nil {
		return nil, fmt.Errorf("file is not JSON: %v", err)
	}
	if dec.More() {
		return nil, fmt.Errorf("file holds more than one JSON value (%d bytes)", len(b))
	}
	bm := (&j).Dejsoner()
	bm.Init()
	return bm, nil
}

func propCli(c CliCase) (out pbt.Outcome) {
	bin, err := toolPath("bondmachine")
	if err != nil {
		return pbt.Outcome{Fail: pbt.Failf("inconclusive:no-tool", "bondmachine binary not available: %v", err)}
	}
	root := os.Getenv("VERIF_WORK")
	dir, err := os.MkdirTemp(root, "c10cli-")
	if err != nil {
		return pbt.Outcome{Fail: pbt.Failf("harness", "%v", err)}
	}
	defer os.RemoveAll(dir)
	file := filepath.Join(dir, "bm.json")
	// initial machine: the domains, nothing else
	bm0 := new(bondmachine.Bondmachine)
	bm0.Rsize = 8
	m := &model{bonds: map[string]string{}}
	for _, d := range c.Domains {
		mach := new(procbuilder.Machine)
		mach.Arch.Rsize = 8
		mach.Arch.N, mach.Arch.M = uint8(d.N), uint8(d.M)
		mach.Arch.R, mach.Arch.O = 1, 2
		mach.Arch.Modes = []string{"ha"}
		for _, op := range procbuilder.Allopcodes {
			if op.Op_get_name() == "nop" {
				mach.Arch.Op = []procbuilder.Opcode{op}
			}
		}
		if p, err := mach.Arch.Assembler([]byte("nop\n")); err == nil {
			mach.Program = p
		}
		bm0.Domains = append(bm0.Domains, mach)
		m.domains = append(m.domains, d)
	}
	bm0.Init()
	b, _ := json.Marshal(bm0.Jsoner())
	if err := os.WriteFile(file, b, 0o644); err != nil {
		return pbt.Outcome{Fail: pbt.Failf("harness", "%v", err)}
	}
	labels := map[string]bool{}
	nontrivial := false
	for step, op := range c.Ops {
		pre, err := loadBM(file)
		if err != nil {
			return pbt.Outcome{Fail: pbt.Failf("cli-file", "before step %d: %v", step, err)}
		}
		preIn, preOut, preBonds := pre.List_internal_inputs(), pre.List_internal_outputs(), pre.List_bonds()
		desc := fmt.Sprintf("step %d %+v", step, op)
		var args []string
		refuse := false
		switch op.Kind {
		case "add_inputs":
			args = []string{"-add-inputs", strconv.Itoa(op.N)}
			m.inputs += op.N
		case "add_outputs":
			args = []string{"-add-outputs", strconv.Itoa(op.N)}
			m.outputs += op.N
		case "add_processor":
			args = []string{"-add-processor", strconv.Itoa(op.N)}
			if op.N >= len(m.domains) {
				refuse = true
				labels["add_proc_refused"] = true
			} else {
				m.procs = append(m.procs, m.domains[op.N])
			}
		case "add_bond":
			if len(preIn) == 0 || len(preOut) == 0 {
				continue
			}
			dst, src := preIn[op.A%len(preIn)], preOut[op.B%len(preOut)]
			if op.Swap {
				args = []string{"-add-bond", src + "," + dst}
			} else {
				args = []string{"-add-bond", dst + "," + src}
			}
			m.bonds[dst] = src
		case "del_bonds":
			args = []string{"-del-bonds", intsArg(op.IDs)}
			for _, id := range op.IDs {
				if id < len(preIn) {
					if _, ok := preBonds[id]; ok {
						delete(m.bonds, preIn[id])
						labels["del_bond_live"] = true
					}
				}
			}
		case "del_inputs", "del_outputs":
			flag, prefix, count := "-del-inputs", byte('i'), m.inputs
			if op.Kind == "del_outputs" {
				flag, prefix, count = "-del-outputs", byte('o'), m.outputs
			}
			args = []string{flag, intsArg(op.IDs)}
			// the ids the user named, once each, those that exist, removed highest first
			set := map[int]bool{}
			for _, id := range op.IDs {
				if id < count {
					set[id] = true
				}
			}
			var del []int
			for id := range set {
				del = append(del, id)
			}
			sort.Sort(sort.Reverse(sort.IntSlice(del)))
			if len(op.IDs) > len(del) {
				labels["id-list-with-duplicates-or-absent-ids"] = true
			}
			if !sort.IntsAreSorted(op.IDs) {
				labels["id-list-unordered"] = true
			}
			for _, id := range del {
				nb := map[string]string{}
				for d, s := range m.bonds {
					if prefix == 'i' {
						ns, removed := renum(s, 'i', id)
						if removed {
							continue
						}
						nb[d] = ns
					} else {
						nd, removed := renum(d, 'o', id)
						if removed {
							continue
						}
						nb[nd] = s
					}
				}
				if id < count-1 && len(nb) > 0 {
					nontrivial = true
				}
				m.bonds = nb
				count--
			}
			if prefix == 'i' {
				m.inputs = count
			} else {
				m.outputs = count
			}
		}
		before, _ := os.ReadFile(file)
		ctx, cancel := context.WithTimeout(context.Background(), 90*time.Second)
		cmd := exec.CommandContext(ctx, bin, append([]string{"-bondmachine-file", file}, args...)...)
		cmd.Dir = dir
		outb, err := cmd.CombinedOutput()
		timedOut := ctx.Err() == context.DeadlineExceeded
		cancel()
		if timedOut {
			return pbt.Outcome{Excluded: "tool-timeout"}
		}
		if refuse {
			after, _ := os.ReadFile(file)
			if err == nil {
				return pbt.Outcome{Fail: pbt.Failf("cli-accepts-invalid", "%s: the tool accepted an edit it must refuse", desc)}
			}
			if string(after) != string(before) {
				return pbt.Outcome{Fail: pbt.Failf("cli-refusal-changes-file", "%s: the refused edit changed the machine file", desc)}
			}
			continue
		}
		if err != nil {
			return pbt.Outcome{Fail: pbt.Failf("cli-error", "%s: bondmachine %v: %v\n%s", desc, args, err, tailStr(string(outb), 12))}
		}
		bm, err := loadBM(file)
		if err != nil {
			return pbt.Outcome{Fail: pbt.Failf("cli-file", "%s: after bondmachine %v: %v", desc, args, err)}
		}
		// the same invariants as the API-level entry
		if len(bm.Links) != len(bm.Internal_inputs) {
			return pbt.Outcome{Fail: pbt.Failf("wf", "%s: %d link slots for %d internal inputs", desc, len(bm.Links), len(bm.Internal_inputs))}
		}
		for i, l := range bm.Links {
			if l < -1 || l >= len(bm.Internal_outputs) {
				return pbt.Outcome{Fail: pbt.Failf("wf", "%s: link %d points at %d, only %d internal outputs", desc, i, l, len(bm.Internal_outputs))}
			}
		}
		if bm.Inputs != m.inputs || bm.Outputs != m.outputs || len(bm.Processors) != len(m.procs) {
			return pbt.Outcome{Fail: pbt.Failf("wf", "%s (bondmachine %v): counts inputs=%d outputs=%d procs=%d, expected %d %d %d", desc, args, bm.Inputs, bm.Outputs, len(bm.Processors), m.inputs, m.outputs, len(m.procs))}
		}
		if got, want := sorted(bm.List_internal_inputs()), m.intInputs(); !eq(got, want) {
			return pbt.Outcome{Fail: pbt.Failf("wf", "%s: internal inputs %v, expected %v", desc, got, want)}
		}
		if got, want := sorted(bm.List_internal_outputs()), m.intOutputs(); !eq(got, want) {
			return pbt.Outcome{Fail: pbt.Failf("wf", "%s: internal outputs %v, expected %v", desc, got, want)}
		}
		var got []string
		for _, v := range bm.List_bonds() {
			got = append(got, v)
		}
		sort.Strings(got)
		if want := m.bondSet(); !eq(got, want) {
			return pbt.Outcome{Fail: pbt.Failf("bonds", "%s (bondmachine %v): bonds are %v, expected %v", desc, args, got, want)}
		}
	}
	var ls []string
	for l := range labels {
		ls = append(ls, l)
	}
	sort.Strings(ls)
	return pbt.Outcome{NonTrivial: nontrivial, Labels: ls}
}

func tailStr(s string, n int) string {
	l := strings.Split(strings.TrimRight(s, "\n"), "\n")
	if len(l) > n {
		l = l[len(l)-n:]
	}
	return strings.Join(l, "\n")
}

var cliEntry = pbt.Def("cli_topology",
	"edit histories of 2..10 invocations of the real `bondmachine -bondmachine-file f <edit>` binary (add inputs/outputs/processor/bond, delete bonds/inputs/outputs with id lists that may repeat, be unordered or name absent ids); after every invocation the saved file is loaded and judged against the same model of named bonds and endpoint lists as entry topology; non-trivial = a non-last external port is deleted while a bond survives",
	genCli, propCli)

func init() { Props = append(Props, cliEntry) }
