// C10 — topology edits keep the machine well formed and leave other bonds alone.
// Generated edit histories (stateful), model = set of named bonds + endpoint lists.
package c10

import (
	"fmt"
	"sort"
	"testing"

	"github.com/BondMachineHQ/BondMachine/pkg/bondmachine"
	"github.com/BondMachineHQ/BondMachine/pkg/procbuilder"
	"pgregory.net/rapid"
	"verifharness/pbt"
)

type Dom struct{ N, M int }

type Op struct {
	Kind string // add_input add_output add_proc add_bond add_bond_bad del_bond del_input del_output bench benchv2
	A, B int    // selectors (taken modulo the current list length) or raw ids
	Swap bool   // argument order for add_bond
}

type Case struct {
	Domains []Dom
	Ops     []Op
}

func gen(t *rapid.T) Case {
	var c Case
	nd := rapid.IntRange(1, 3).Draw(t, "ndom")
	for i := 0; i < nd; i++ {
		c.Domains = append(c.Domains, Dom{rapid.IntRange(0, 3).Draw(t, "N"), rapid.IntRange(0, 3).Draw(t, "M")})
	}
	kinds := []string{"add_input", "add_output", "add_proc", "add_bond", "add_bond", "add_bond", "add_bond_bad", "del_bond", "del_input", "del_output", "bench", "benchv2"}
	n := rapid.IntRange(1, 40).Draw(t, "nops")
	for i := 0; i < n; i++ {
		k := rapid.SampledFrom(kinds).Draw(t, "kind")
		op := Op{Kind: k}
		switch k {
		case "add_proc":
			op.A = rapid.IntRange(0, nd+1).Draw(t, "dom") // nd, nd+1: non-existent domain unless benches added some
		case "add_bond", "bench", "benchv2", "add_bond_bad":
			op.A = rapid.IntRange(0, 15).Draw(t, "a")
			op.B = rapid.IntRange(0, 15).Draw(t, "b")
			op.Swap = rapid.Bool().Draw(t, "swap")
		case "del_bond", "del_input", "del_output":
			op.A = rapid.IntRange(0, 12).Draw(t, "id") // ids beyond the count must be rejected without effect
		}
		c.Ops = append(c.Ops, op)
	}
	return c
}

// model -----------------------------------------------------------------------

type model struct {
	inputs, outputs int
	procs           []Dom
	domains         []Dom
	bonds           map[string]string // dst (internal input name) -> src (internal output name)
}

func (m *model) intInputs() []string { // what internally is an input: BM outputs + processor inputs
	var r []string
	for i := 0; i < m.outputs; i++ {
		r = append(r, fmt.Sprintf("o%d", i))
	}
	for p, d := range m.procs {
		for j := 0; j < d.N; j++ {
			r = append(r, fmt.Sprintf("p%di%d", p, j))
		}
	}
	sort.Strings(r)
	return r
}
func (m *model) intOutputs() []string {
	var r []string
	for i := 0; i < m.inputs; i++ {
		r = append(r, fmt.Sprintf("i%d", i))
	}
	for p, d := range m.procs {
		for j := 0; j < d.M; j++ {
			r = append(r, fmt.Sprintf("p%do%d", p, j))
		}
	}
	sort.Strings(r)
	return r
}
func (m *model) bondSet() []string {
	var r []string
	for d, s := range m.bonds {
		r = append(r, s+","+d)
	}
	sort.Strings(r)
	return r
}

func renum(name string, prefix byte, removed int) (string, bool) {
	// name like "i3"/"o2": returns renamed port and whether it was the removed one
	if len(name) < 2 || name[0] != prefix {
		return name, false
	}
	var k int
	if _, err := fmt.Sscanf(name[1:], "%d", &k); err != nil || fmt.Sprintf("%c%d", prefix, k) != name {
		return name, false
	}
	if k == removed {
		return name, true
	}
	if k > removed {
		return fmt.Sprintf("%c%d", prefix, k-1), false
	}
	return name, false
}

func sorted(xs []string) []string {
	r := append([]string(nil), xs...)
	sort.Strings(r)
	return r
}

func eq(a, b []string) bool {
	if len(a) != len(b) {
		return false
	}
	for i := range a {
		if a[i] != b[i] {
			return false
		}
	}
	return true
}

func prop(c Case) (out pbt.Outcome) {
	bm := new(bondmachine.Bondmachine)
	bm.Rsize = 8
	m := &model{bonds: map[string]string{}}
	for _, d := range c.Domains {
		mach := new(procbuilder.Machine)
		mach.Arch.Rsize = 8
		mach.Arch.N, mach.Arch.M = uint8(d.N), uint8(d.M)
		mach.Arch.R, mach.Arch.O = 1, 2
		mach.Arch.Modes = []string{"ha"}
		bm.Domains = append(bm.Domains, mach)
		m.domains = append(m.domains, d)
	}
	bm.Init()
	labels := map[string]bool{}
	nontrivial := false
	for step, op := range c.Ops {
		// the user's view of the machine before the edit
		preIn := bm.List_internal_inputs()
		preOut := bm.List_internal_outputs()
		preBonds := bm.List_bonds()
		desc := fmt.Sprintf("step %d %+v", step, op)
		switch op.Kind {
		case "add_input":
			if _, err := bm.Add_input(); err != nil {
				return pbt.Outcome{Fail: pbt.Failf("", "%s: Add_input error %v", desc, err)}
			}
			m.inputs++
		case "add_output":
			if _, err := bm.Add_output(); err != nil {
				return pbt.Outcome{Fail: pbt.Failf("", "%s: Add_output error %v", desc, err)}
			}
			m.outputs++
		case "add_proc":
			_, err := bm.Add_processor(op.A)
			if op.A >= len(m.domains) {
				if err == nil {
					return pbt.Outcome{Fail: pbt.Failf("", "%s: Add_processor of a non-existent domain accepted", desc)}
				}
				labels["add_proc_rejected"] = true
			} else {
				if err != nil {
					return pbt.Outcome{Fail: pbt.Failf("", "%s: Add_processor error %v", desc, err)}
				}
				m.procs = append(m.procs, m.domains[op.A])
			}
		case "add_bond":
			if len(preIn) == 0 || len(preOut) == 0 {
				continue
			}
			dst := preIn[op.A%len(preIn)]
			src := preOut[op.B%len(preOut)]
			if _, had := m.bonds[dst]; had {
				labels["rebond"] = true
			}
			if op.Swap {
				bm.Add_bond([]string{src, dst})
			} else {
				bm.Add_bond([]string{dst, src})
			}
			m.bonds[dst] = src
			fan := 0
			for _, s := range m.bonds {
				if s == src {
					fan++
				}
			}
			if fan > 1 {
				labels["fanout"] = true
			}
		case "add_bond_bad":
			// endpoints that do not exist (index one past every port count) or two endpoints of the same kind
			var a, b string
			switch op.A % 5 {
			case 0:
				a, b = fmt.Sprintf("p%di0", len(m.procs)+op.B), "i0"
			case 1:
				a, b = fmt.Sprintf("o%d", m.outputs), fmt.Sprintf("i%d", m.inputs)
			case 3:
				// an existing sink (bonded or not) and a source that does not exist (a name one past the count: what
				// a stale name looks like after a renumbering): the bond the sink already has is not the one named
				if len(preIn) >= 1 {
					a = preIn[op.B%len(preIn)]
					b = []string{fmt.Sprintf("i%d", m.inputs), fmt.Sprintf("p%do0", len(m.procs)), "nosuch"}[(op.A/5)%3]
					if _, had := m.bonds[a]; had {
						labels["add_bond_bad:bonded-sink+missing-source"] = true
					}
				} else {
					a, b = "x", "y"
				}
			case 4:
				// two sinks: no source named
				if len(preIn) >= 1 {
					a, b = preIn[op.B%len(preIn)], preIn[(op.A/5)%len(preIn)]
					if _, had := m.bonds[a]; had {
						labels["add_bond_bad:two-sinks-one-bonded"] = true
					}
				} else {
					a, b = "x", "y"
				}
			default:
				if len(preOut) >= 1 {
					a, b = preOut[op.B%len(preOut)], preOut[op.A%len(preOut)] // two sources: no sink named
				} else {
					a, b = "x", "y"
				}
			}
			if op.Swap {
				a, b = b, a
			}
			bm.Add_bond([]string{a, b})
			labels["add_bond_bad"] = true
		case "del_bond":
			err := bm.Del_bond(op.A)
			if op.A >= len(preIn) {
				if err == nil {
					return pbt.Outcome{Fail: pbt.Failf("", "%s: Del_bond id beyond the link table accepted", desc)}
				}
				labels["del_bond_rejected"] = true
			} else {
				if err != nil {
					return pbt.Outcome{Fail: pbt.Failf("", "%s: Del_bond error %v", desc, err)}
				}
				if _, ok := preBonds[op.A]; ok {
					// the bond the user saw under this id: "<src>,<dst>"
					dst := preIn[op.A]
					delete(m.bonds, dst)
					labels["del_bond_live"] = true
				}
			}
		case "del_input":
			err := bm.Del_input(op.A)
			if op.A >= m.inputs {
				if err == nil {
					return pbt.Outcome{Fail: pbt.Failf("", "%s: Del_input id beyond count accepted", desc)}
				}
				labels["del_input_rejected"] = true
			} else {
				if err != nil {
					return pbt.Outcome{Fail: pbt.Failf("", "%s: Del_input error %v", desc, err)}
				}
				nb := map[string]string{}
				for d, s := range m.bonds {
					ns, removed := renum(s, 'i', op.A)
					if removed {
						continue
					}
					nb[d] = ns
				}
				if op.A < m.inputs-1 && len(nb) > 0 {
					nontrivial = true
					labels["del_nonlast_input_with_bonds"] = true
				}
				m.bonds = nb
				m.inputs--
			}
		case "del_output":
			err := bm.Del_output(op.A)
			if op.A >= m.outputs {
				if err == nil {
					return pbt.Outcome{Fail: pbt.Failf("", "%s: Del_output id beyond count accepted", desc)}
				}
				labels["del_output_rejected"] = true
			} else {
				if err != nil {
					return pbt.Outcome{Fail: pbt.Failf("", "%s: Del_output error %v", desc, err)}
				}
				nb := map[string]string{}
				for d, s := range m.bonds {
					nd, removed := renum(d, 'o', op.A)
					if removed {
						continue
					}
					nb[nd] = s
				}
				if op.A < m.outputs-1 && len(nb) > 0 {
					nontrivial = true
					labels["del_nonlast_output_with_bonds"] = true
				}
				m.bonds = nb
				m.outputs--
			}
		case "bench", "benchv2":
			var e0, e1 string
			valid := len(preOut) > 0 && op.A%4 != 3
			if valid {
				e0, e1 = preOut[op.A%len(preOut)], preOut[op.B%len(preOut)]
			} else {
				e0, e1 = fmt.Sprintf("i%d", m.inputs+1), "nowhere"
				if len(preIn) > 0 {
					e1 = preIn[op.B%len(preIn)] // an internal *input* is not an acceptable endpoint
				}
			}
			var err error
			if op.Kind == "bench" {
				err = bm.Attach_benchmark_core([]string{e0, e1})
			} else {
				err = bm.AttachBenchmarkCoreV2([]string{e0, e1})
			}
			if !valid {
				if err == nil {
					return pbt.Outcome{Fail: pbt.Failf("", "%s: benchmark core attached to endpoints %q,%q that are not internal outputs", desc, e0, e1)}
				}
				labels["bench_rejected"] = true
			} else {
				if err != nil {
					return pbt.Outcome{Fail: pbt.Failf("", "%s: attach benchmark core: %v", desc, err)}
				}
				m.domains = append(m.domains, Dom{2, 1})
				m.procs = append(m.procs, Dom{2, 1})
				p := len(m.procs) - 1
				m.bonds[fmt.Sprintf("p%di0", p)] = e0
				m.bonds[fmt.Sprintf("p%di1", p)] = e1
				m.outputs++
				m.bonds[fmt.Sprintf("o%d", m.outputs-1)] = fmt.Sprintf("p%do0", p)
				labels["bench_attached"] = true
			}
		}
		// ---- invariants after every edit
		if len(bm.Links) != len(bm.Internal_inputs) {
			return pbt.Outcome{Fail: pbt.Failf("wf", "%s: %d link slots for %d internal inputs", desc, len(bm.Links), len(bm.Internal_inputs))}
		}
		for i, l := range bm.Links {
			if l < -1 || l >= len(bm.Internal_outputs) {
				return pbt.Outcome{Fail: pbt.Failf("wf", "%s: link %d points at %d, only %d internal outputs", desc, i, l, len(bm.Internal_outputs))}
			}
		}
		if bm.Inputs != m.inputs || bm.Outputs != m.outputs || len(bm.Processors) != len(m.procs) {
			return pbt.Outcome{Fail: pbt.Failf("wf", "%s: counts inputs=%d outputs=%d procs=%d, expected %d %d %d", desc, bm.Inputs, bm.Outputs, len(bm.Processors), m.inputs, m.outputs, len(m.procs))}
		}
		if got, want := sorted(bm.List_internal_inputs()), m.intInputs(); !eq(got, want) {
			return pbt.Outcome{Fail: pbt.Failf("wf", "%s: internal inputs %v, expected %v", desc, got, want)}
		}
		if got, want := sorted(bm.List_internal_outputs()), m.intOutputs(); !eq(got, want) {
			return pbt.Outcome{Fail: pbt.Failf("wf", "%s: internal outputs %v, expected %v", desc, got, want)}
		}
		if len(bm.List_inputs()) != m.inputs || len(bm.List_outputs()) != m.outputs {
			return pbt.Outcome{Fail: pbt.Failf("wf", "%s: List_inputs/List_outputs lengths wrong", desc)}
		}
		var got []string
		for _, v := range bm.List_bonds() {
			got = append(got, v)
		}
		sort.Strings(got)
		if want := m.bondSet(); !eq(got, want) {
			return pbt.Outcome{Fail: pbt.Failf("bonds", "%s: bonds are %v, expected %v", desc, got, want)}
		}
		if bm.EnumBonds() != len(m.bonds) || bm.EnumProcessors() != len(m.procs) {
			return pbt.Outcome{Fail: pbt.Failf("wf", "%s: EnumBonds/EnumProcessors disagree with the model", desc)}
		}
		if len(bm.Shared_links) != len(bm.Processors) {
			return pbt.Outcome{Fail: pbt.Failf("wf", "%s: %d shared-link lists for %d processors", desc, len(bm.Shared_links), len(bm.Processors))}
		}
	}
	var ls []string
	for l := range labels {
		ls = append(ls, l)
	}
	sort.Strings(ls)
	return pbt.Outcome{NonTrivial: nontrivial, Labels: ls}
}

var Props = []*pbt.Entry{
	pbt.Def("topology",
		"edit histories of 1..40 steps from an empty machine with 1..3 domains (N,M in 0..3); model = named bond set + endpoint lists; non-trivial = the history deletes a non-last external input/output while at least one bond survives the delete (index-shifting path); distinct = distinct case JSON",
		gen, prop),
}

func TestProps(t *testing.T)  { pbt.RunAll(t, "C10", Props) }
func TestReplay(t *testing.T) { pbt.ReplayAll(t, "C10", Props) }
