package c11

import (
	"fmt"
	"reflect"
	"sort"
	"strings"

	"github.com/BondMachineHQ/BondMachine/pkg/procbuilder"
)

// The structural comparison walks the LIVE structs by reflection, so it needs no list of
// their fields: a field added to Arch/Conproc/Machine/Bondmachine (or to a shared object
// instance) is compared as soon as it exists.
//
// Conventions (each one justified from the code):
//   - a nil slice and an empty slice are the same value. Jsoner builds `make([]T, len(x))`
//     (machine.go:177,189,190,197) and encoding/json turns a nil slice into null and back into
//     nil; no reader in /repo distinguishes the two (they only range/len/index).
//   - pointers are followed (Domains []*Machine): the pointees are compared.
//   - an interface holds the same dynamic type on both sides, then the values are compared.
//   - a procbuilder.Opcode is compared by name, by dynamic type, and by its relation to the
//     registry: on a load in the same process both sides must hold the SAME registered value
//     (pointer-typed fields - the pipeline state of addp/multp/divp, fixed point, ... - identical
//     pointers); on a load in a fresh process the loaded value must be the value now registered
//     under that name and equal the original in every non-pointer field.
//   - func and chan values must be nil on both sides (there are none today).

type diff struct {
	Path string
	Msg  string
}

type walker struct {
	sameProcess bool
	ignore      func(path string) bool // documented caches (only used by the post-HDL comparison)
	diffs       []diff
}

func (w *walker) add(path, format string, a ...any) {
	if len(w.diffs) < 12 {
		w.diffs = append(w.diffs, diff{path, fmt.Sprintf(format, a...)})
	}
}

var opcodeType = reflect.TypeOf((*procbuilder.Opcode)(nil)).Elem()

func scalar(v reflect.Value) string {
	switch v.Kind() {
	case reflect.Bool:
		return fmt.Sprint(v.Bool())
	case reflect.Int, reflect.Int8, reflect.Int16, reflect.Int32, reflect.Int64:
		return fmt.Sprint(v.Int())
	case reflect.Uint, reflect.Uint8, reflect.Uint16, reflect.Uint32, reflect.Uint64, reflect.Uintptr:
		return fmt.Sprint(v.Uint())
	case reflect.Float32, reflect.Float64:
		return fmt.Sprint(v.Float())
	case reflect.Complex64, reflect.Complex128:
		return fmt.Sprint(v.Complex())
	case reflect.String:
		return fmt.Sprintf("%q", v.String())
	}
	return "?"
}

func (w *walker) cmp(path string, a, b reflect.Value, inOpcode bool) {
	if w.ignore != nil && w.ignore(path) {
		return
	}
	if a.Type() != b.Type() {
		w.add(path, "type %s became %s", a.Type(), b.Type())
		return
	}
	switch a.Kind() {
	case reflect.Struct:
		for i := 0; i < a.NumField(); i++ {
			w.cmp(path+"."+a.Type().Field(i).Name, a.Field(i), b.Field(i), inOpcode)
		}
	case reflect.Ptr:
		if a.IsNil() != b.IsNil() {
			w.add(path, "nil-ness differs (original nil=%v, reloaded nil=%v)", a.IsNil(), b.IsNil())
			return
		}
		if a.IsNil() {
			return
		}
		if inOpcode && w.sameProcess {
			if a.Pointer() != b.Pointer() {
				w.add(path, "the reloaded opcode is not the registered value the original holds (distinct %s pointers)", a.Type())
			}
			return
		}
		w.cmp(path, a.Elem(), b.Elem(), inOpcode)
	case reflect.Interface:
		if a.IsNil() != b.IsNil() {
			w.add(path, "nil-ness differs (original nil=%v, reloaded nil=%v)", a.IsNil(), b.IsNil())
			return
		}
		if a.IsNil() {
			return
		}
		ea, eb := a.Elem(), b.Elem()
		if ea.Type() != eb.Type() {
			w.add(path, "dynamic type %s became %s", ea.Type(), eb.Type())
			return
		}
		if a.Type() == opcodeType {
			na := ea.MethodByName("Op_get_name").Call(nil)[0].String()
			nb := eb.MethodByName("Op_get_name").Call(nil)[0].String()
			if na != nb {
				w.add(path, "opcode %q became %q", na, nb)
				return
			}
			w.cmp(path+"("+na+")", ea, eb, true)
			return
		}
		w.cmp(path+"("+ea.Type().String()+")", ea, eb, inOpcode)
	case reflect.Slice, reflect.Array:
		if a.Len() != b.Len() {
			w.add(path, "length %d became %d", a.Len(), b.Len())
			return
		}
		for i := 0; i < a.Len(); i++ {
			w.cmp(fmt.Sprintf("%s[%d]", path, i), a.Index(i), b.Index(i), inOpcode)
		}
	case reflect.Map:
		if a.Len() != b.Len() {
			w.add(path, "map size %d became %d", a.Len(), b.Len())
			return
		}
		keys := a.MapKeys()
		sort.Slice(keys, func(i, j int) bool { return fmt.Sprint(keys[i]) < fmt.Sprint(keys[j]) })
		for _, k := range keys {
			vb := b.MapIndex(k)
			if !vb.IsValid() {
				w.add(fmt.Sprintf("%s[%v]", path, k), "key lost")
				continue
			}
			w.cmp(fmt.Sprintf("%s[%v]", path, k), a.MapIndex(k), vb, inOpcode)
		}
	case reflect.Func, reflect.Chan, reflect.UnsafePointer:
		if !a.IsNil() || !b.IsNil() {
			w.add(path, "non-nil %s cannot be compared", a.Kind())
		}
	default:
		if sa, sb := scalar(a), scalar(b); sa != sb {
			w.add(path, "%s became %s", sa, sb)
		}
	}
}

// compare returns the differences between the original x and the reloaded y.
func compare(x, y any, sameProcess bool, ignore func(string) bool) []diff {
	w := &walker{sameProcess: sameProcess, ignore: ignore}
	w.cmp("", reflect.ValueOf(x), reflect.ValueOf(y), false)
	return w.diffs
}

// schema turns "...Domains[2].Arch.WordSize" into "...Domains[].Arch.WordSize".
func schema(path string) string {
	var sb strings.Builder
	skip := false
	for _, r := range path {
		switch {
		case r == '[':
			sb.WriteString("[")
			skip = true
		case r == ']':
			sb.WriteString("]")
			skip = false
		case r == '(':
			skip = true // dynamic type annotations are dropped as well
		case r == ')':
			skip = false
		case !skip:
			sb.WriteRune(r)
		}
	}
	return sb.String()
}

func firstDiff(ds []diff) string {
	var parts []string
	for _, d := range ds {
		parts = append(parts, d.Path+": "+d.Msg)
	}
	return strings.Join(parts, "; ")
}

// ---------------------------------------------------------------------------
// field perturbation: every leaf of the live structs, found by reflection, is changed in a
// rebuilt copy; the change has to be visible in the saved JSON and has to come back on load.

type leaf struct {
	Path string
	set  func() // applies the perturbation in place
}

type lister struct{ leaves []leaf }

// visit enumerates perturbable leaves under an addressable value.
func (l *lister) visit(path string, v reflect.Value) {
	switch v.Kind() {
	case reflect.Struct:
		for i := 0; i < v.NumField(); i++ {
			f := v.Type().Field(i)
			if !f.IsExported() {
				continue // cannot be set from outside the package, so neither by a front-end
			}
			l.visit(path+"."+f.Name, v.Field(i))
		}
	case reflect.Ptr:
		if !v.IsNil() {
			l.visit(path, v.Elem())
		}
	case reflect.Interface:
		if v.IsNil() || v.Type() == opcodeType {
			return // opcodes are owned by the registry; the Op slice itself is perturbed below
		}
		e := v.Elem()
		if e.Kind() == reflect.Ptr {
			if !e.IsNil() {
				l.visit(path+"("+e.Type().String()+")", e.Elem())
			}
			return
		}
		if e.Kind() != reflect.Struct || !v.CanSet() {
			return
		}
		// an interface holds a copy: perturb a copy and store it back
		sub := &lister{}
		cp := reflect.New(e.Type()).Elem()
		cp.Set(e)
		sub.visit(path+"("+e.Type().String()+")", cp)
		for _, s := range sub.leaves {
			s := s
			l.leaves = append(l.leaves, leaf{Path: s.Path, set: func() { s.set(); v.Set(cp) }})
		}
	case reflect.Slice:
		if !v.CanSet() {
			return
		}
		for i := 0; i < v.Len(); i++ {
			l.visit(fmt.Sprintf("%s[%d]", path, i), v.Index(i))
		}
		if v.Len() > 0 {
			l.leaves = append(l.leaves, leaf{Path: path + "#dup", set: func() { v.Set(reflect.Append(v, v.Index(0))) }})
		}
		if v.Len() > 1 {
			// never down to empty: an empty list is not always a value a front-end can produce (a
			// Vtextmem_instance without boxes prints as "vtextmem", which no Instantiate accepts, and
			// Instantiate itself never returns one)
			l.leaves = append(l.leaves, leaf{Path: path + "#drop", set: func() { v.Set(v.Slice(0, v.Len()-1)) }})
		}
		if v.Len() > 1 && !reflect.DeepEqual(v.Index(0).Interface(), v.Index(v.Len()-1).Interface()) {
			l.leaves = append(l.leaves, leaf{Path: path + "#swap", set: func() {
				a := reflect.New(v.Type().Elem()).Elem()
				a.Set(v.Index(0))
				v.Index(0).Set(v.Index(v.Len() - 1))
				v.Index(v.Len() - 1).Set(a)
			}})
		}
	case reflect.Bool:
		if v.CanSet() {
			l.leaves = append(l.leaves, leaf{Path: path, set: func() { v.SetBool(!v.Bool()) }})
		}
	case reflect.Int, reflect.Int8, reflect.Int16, reflect.Int32, reflect.Int64:
		if v.CanSet() {
			l.leaves = append(l.leaves, leaf{Path: path, set: func() {
				if v.Int() == 1 {
					v.SetInt(2)
				} else {
					v.SetInt(v.Int() ^ 1) // stays inside every integer width
				}
			}})
		}
	case reflect.Uint, reflect.Uint8, reflect.Uint16, reflect.Uint32, reflect.Uint64:
		if v.CanSet() {
			l.leaves = append(l.leaves, leaf{Path: path, set: func() { v.SetUint(v.Uint() ^ 1) }})
		}
	case reflect.Float32, reflect.Float64:
		if v.CanSet() {
			l.leaves = append(l.leaves, leaf{Path: path, set: func() { v.SetFloat(v.Float() + 1) }})
		}
	case reflect.String:
		if v.CanSet() {
			l.leaves = append(l.leaves, leaf{Path: path, set: func() { v.SetString(v.String() + "x") }})
		}
	}
}

// leaves lists the perturbable fields of a live machine (x must be a pointer).
func leavesOf(x any) []leaf {
	l := &lister{}
	l.visit("", reflect.ValueOf(x).Elem())
	return l.leaves
}

// pickLeaf chooses a leaf: first a schema path (so that every FIELD is hit equally often however
// many domains/bonds a machine has), then an instance of it.
func pickLeaf(ls []leaf, n int) (leaf, bool) {
	if len(ls) == 0 {
		return leaf{}, false
	}
	if n < 0 {
		n = -n
	}
	groups := map[string][]int{}
	var order []string
	for i, l := range ls {
		s := schema(l.Path)
		if _, ok := groups[s]; !ok {
			order = append(order, s)
		}
		groups[s] = append(groups[s], i)
	}
	sort.Strings(order)
	h := splitmix(uint64(n)) // rapid favours small integers: spread them
	g := groups[order[int(h%uint64(len(order)))]]
	return ls[g[int((h>>32)%uint64(len(g)))]], true
}
