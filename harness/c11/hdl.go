package c11

import (
	"fmt"
	"os"
	"path/filepath"
	"runtime"
	"sort"
	"strings"
	"sync"

	"github.com/BondMachineHQ/BondMachine/pkg/bondmachine"
	"github.com/BondMachineHQ/BondMachine/pkg/procbuilder"
	"github.com/BondMachineHQ/BondMachine/pkg/simbox"
)

// /repo's HDL generators write into the process CWD and skip files that already exist
// (verilog.go:86,95,...: os.Stat before os.Create), so every generation runs in its own empty
// directory; the CWD is process-wide, hence the lock.
var cwdMu sync.Mutex

// inScratch runs f in a fresh directory and returns every file found there afterwards.
// A panic of f is returned as an error (the precondition analysis is the caller's).
func inScratch(f func() error) (files map[string]string, err error) {
	cwdMu.Lock()
	defer cwdMu.Unlock()
	old, err := os.Getwd()
	if err != nil {
		return nil, err
	}
	dir, err := os.MkdirTemp("", "c11-hdl-")
	if err != nil {
		return nil, err
	}
	defer os.RemoveAll(dir)
	if err := os.Chdir(dir); err != nil {
		return nil, err
	}
	defer os.Chdir(old)
	func() {
		defer func() {
			if r := recover(); r != nil {
				err = fmt.Errorf("panic: %v at %s", r, repoFrame())
			}
		}()
		err = f()
	}()
	if err != nil {
		return nil, err
	}
	files = map[string]string{}
	werr := filepath.Walk(dir, func(p string, info os.FileInfo, e error) error {
		if e != nil || info.IsDir() {
			return e
		}
		b, e := os.ReadFile(p)
		if e != nil {
			return e
		}
		rel, _ := filepath.Rel(dir, p)
		files[rel] = string(b)
		return nil
	})
	return files, werr
}

// repoFrame names the innermost /repo function on the stack of a recovered panic.
func repoFrame() string {
	pcs := make([]uintptr, 64)
	n := runtime.Callers(3, pcs)
	fr := runtime.CallersFrames(pcs[:n])
	for {
		f, more := fr.Next()
		if strings.Contains(f.Function, "BondMachine/pkg/") {
			fn := f.Function[strings.LastIndex(f.Function, "/")+1:]
			return fmt.Sprintf("%s (%s:%d)", fn, filepath.Base(f.File), f.Line)
		}
		if !more {
			return "?"
		}
	}
}

// hdlBM is `bondmachine -create-verilog -verilog-flavor iverilog` (cmd/bondmachine/bondmachine.go:719):
// a zero Config, no IO map, no extra modules and a non-nil, empty simbox (the test bench
// generator dereferences it, verilog.go:622).
func hdlBM(bm *bondmachine.Bondmachine) (map[string]string, error) {
	return inScratch(func() error {
		conf := new(bondmachine.Config)
		return bm.Write_verilog(conf, "iverilog", nil, nil, new(simbox.Simbox))
	})
}

// hdlMachine collects the strings cmd/procbuilder writes for -create-verilog
// (procbuilder.go:346-392), plus the files the generators drop into the CWD.
func hdlMachine(m *procbuilder.Machine) (map[string]string, error) {
	var texts map[string]string
	files, err := inScratch(func() error {
		ri := new(procbuilder.RuntimeInfo)
		ri.Init()
		conf := new(procbuilder.Config)
		conf.Runinfo = ri
		a := &m.Arch
		names := map[string]string{"processor": "p0", "rom": "p0rom", "ram": "p0ram"}
		texts = map[string]string{}
		texts["arch.v"] = a.Write_verilog("a0", names, "iverilog")
		texts["processor.v"] = a.Conproc.Write_verilog(conf, a, "p0", "iverilog")
		texts["ram.v"] = a.Ram.Write_verilog(nil, m, "p0ram", "iverilog")
		texts["rom.v"] = a.Rom.Write_verilog(m, "p0rom", "iverilog")
		texts["testbench.v"] = a.Write_verilog_testbench("a0", "processor", "memory", "iverilog")
		texts["main.v"] = a.Write_verilog_main("p0", "p0rom", "processor", "memory", "iverilog")
		return nil
	})
	if err != nil {
		return nil, err
	}
	for k, v := range files {
		texts["cwd/"+k] = v
	}
	return texts, nil
}

// diffFiles describes the first difference between two generated file sets ("" = identical).
func diffFiles(a, b map[string]string) string {
	var names []string
	for n := range a {
		names = append(names, n)
	}
	for n := range b {
		if _, ok := a[n]; !ok {
			names = append(names, n)
		}
	}
	sort.Strings(names)
	for _, n := range names {
		x, okx := a[n]
		y, oky := b[n]
		switch {
		case !okx:
			return fmt.Sprintf("file %s only generated from the reloaded machine", n)
		case !oky:
			return fmt.Sprintf("file %s not generated from the reloaded machine", n)
		case x != y:
			lx, ly := strings.Split(x, "\n"), strings.Split(y, "\n")
			for i := 0; i < len(lx) || i < len(ly); i++ {
				var sx, sy string
				if i < len(lx) {
					sx = lx[i]
				}
				if i < len(ly) {
					sy = ly[i]
				}
				if sx != sy {
					return fmt.Sprintf("file %s line %d: original %q, reloaded %q", n, i+1, strings.TrimSpace(sx), strings.TrimSpace(sy))
				}
			}
			return fmt.Sprintf("file %s differs", n)
		}
	}
	return ""
}
