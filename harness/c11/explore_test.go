package c11

import (
	"fmt"
	"testing"

	"github.com/BondMachineHQ/BondMachine/pkg/procbuilder"
)

func TestExploreOps(t *testing.T) {
	for _, op := range procbuilder.Allopcodes {
		_, sh := op.Required_shared()
		_, rm := op.Required_modes()
		_, fm := op.Forbidden_modes()
		fmt.Printf("%-10s shared=%v req=%v forb=%v\n", op.Op_get_name(), sh, rm, fm)
	}
}
