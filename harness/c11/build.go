// Package c11 decides property C11 (saving and reloading a machine loses nothing) by
// generated-input search. This file: the case type (machines as data) and the builder that
// turns a case into live /repo structs through the public API only.
package c11

import (
	"fmt"
	"sort"
	"strconv"
	"strings"
	"sync"

	"github.com/BondMachineHQ/BondMachine/pkg/bmnumbers"
	"github.com/BondMachineHQ/BondMachine/pkg/bondmachine"
	"github.com/BondMachineHQ/BondMachine/pkg/procbuilder"
	"verifharness/gen"
)

// Line is one ROM word: an assembly line for the real assembler, or (Asm == "") a seed that
// is expanded into a word of the machine's word width.
type Line struct {
	Asm  string `json:",omitempty"`
	Seed uint64 `json:",omitempty"`
}

// Dom is one domain (a procbuilder.Machine) as data.
type Dom struct {
	Mode          string // ha | vn | hy
	R, N, M, L, O int
	Word          string // "auto" (WordSize 0) | "exact" (WordSize = automatic width) | "larger" (automatic width + WordExtra)
	WordExtra     int
	Threaded      int
	Ops           []string // opcode names, static or dynamic; sorted and de-duplicated by the builder
	Prog          []Line
	Vars          []uint64 // data words (Machine.Data.Vars), expanded like seeded program words
	Constraints   string   // Kind "machine" only: Arch.Shared_constraints (a Bondmachine derives it from the links)
}

// Case is a whole machine as data.
type Case struct {
	Kind    string // "machine" (a single procbuilder.Machine) | "bm" (random Bondmachine) | "hs" (simulatable handshake machine)
	Rsize   int
	Doms    []Dom
	Procs   []int // domain of each processor
	Inputs  int
	Outputs int
	Bonds   [][2]string // {sink, source} or {source, sink}: Add_bond accepts both orders
	SOs     []string    // shared objects, in the textual form Add_shared_objects accepts
	SOLinks [][2]int    // {processor, shared object}
	Env     gen.Env     // Kind "hs": environment of the 50-tick comparison
	HDL     bool        // regenerate the Verilog of both sides and compare
	Fresh   bool        // load in a "fresh process": the opcode registry is reset to the static set between save and load
	NoLQ    bool        // the loading process was started without -linear-data-range (implies Fresh)
	Perturb int         // selects the field whose perturbation must survive the round trip
}

// ---------------------------------------------------------------------------
// process-wide registries

var (
	staticOps   []procbuilder.Opcode // the statically registered opcodes, captured before any dynamic name is created
	staticNames []string
	setupOnce   sync.Once
	lqRanges    *map[int]bmnumbers.LinearDataRange
)

// configureLQ(false) puts the dynamic-instruction registry in the state of a process that was started
// without -linear-data-range (DynLinearQuantizer{Ranges: nil}, machine.go:143); configureLQ(true) in
// the state the CLIs reach with the option.
func configureLQ(on bool) {
	setup()
	for i, t := range procbuilder.AllDynamicalInstructions {
		if t.GetName() == "dyn_linear_quantizer" {
			d := t.(procbuilder.DynLinearQuantizer)
			d.Ranges = nil
			if on {
				d.Ranges = lqRanges
			}
			procbuilder.AllDynamicalInstructions[i] = d
		}
	}
}

// LQRanges are the linear-quantizer ranges this process is configured with. A CLI gets
// them from -linear-data-range (cmd/bondmachine/bondmachine.go:225-243, cmd/basm/main.go:65-83):
// the bmnumbers map is filled and the procbuilder DynLinearQuantizer entry is re-registered
// with a pointer to the same map. Without that step every *lqs* opcode is uncreatable.
var LQRanges = map[int]float64{1: 1.0, 2: 10.5, 3: 1000}

func setup() {
	setupOnce.Do(func() {
		staticOps = append([]procbuilder.Opcode(nil), procbuilder.Allopcodes...)
		for _, op := range staticOps {
			staticNames = append(staticNames, op.Op_get_name())
		}
		var lq *map[int]bmnumbers.LinearDataRange
		for _, t := range bmnumbers.AllDynamicalTypes {
			if t.GetName() == "dyn_linear_quantizer" {
				lq = t.(bmnumbers.DynLinearQuantizer).Ranges
			}
		}
		lqRanges = lq
		if lq != nil {
			if *lq == nil {
				*lq = map[int]bmnumbers.LinearDataRange{}
			}
			for k, v := range LQRanges {
				(*lq)[k] = bmnumbers.LinearDataRange{Max: v}
			}
			for i, t := range procbuilder.AllDynamicalInstructions {
				if t.GetName() == "dyn_linear_quantizer" {
					d := t.(procbuilder.DynLinearQuantizer)
					d.Ranges = lq
					procbuilder.AllDynamicalInstructions[i] = d
				}
			}
		}
	})
}

// resetRegistry puts procbuilder.Allopcodes back to the static set (what a new process starts with).
func resetRegistry() {
	setup()
	procbuilder.Allopcodes = append([]procbuilder.Opcode(nil), staticOps...)
}

// StaticNames lists the statically registered opcode names (registration order).
func StaticNames() []string {
	setup()
	return append([]string(nil), staticNames...)
}

// dynFamily returns the dynamic-instruction family that claims a name ("" = static name).
// It asks the registry in the order EventuallyCreateInstruction does.
func dynFamily(name string) string {
	famMu.Lock()
	defer famMu.Unlock()
	if f, ok := famCache[name]; ok {
		return f
	}
	f := ""
	for _, d := range procbuilder.AllDynamicalInstructions {
		if d.MatchName(name) {
			f = d.GetName()
			break
		}
	}
	famCache[name] = f
	return f
}

// MatchName compiles its regular expressions on every call; the answer is a function of the name.
var (
	famMu    sync.Mutex
	famCache = map[string]string{}
)

// lookup resolves a name the way the front-ends do (cmd/procbuilder/procbuilder.go:220-241):
// EventuallyCreateInstruction, then a search of Allopcodes.
func lookup(name string) (procbuilder.Opcode, error) {
	if dynFamily(name) != "" { // for any other name the call is a no-op that compiles 17 regular expressions
		if _, err := procbuilder.EventuallyCreateInstruction(name); err != nil {
			return nil, fmt.Errorf("EventuallyCreateInstruction(%q): %v", name, err)
		}
	}
	for _, op := range procbuilder.Allopcodes {
		if op.Op_get_name() == name {
			return op, nil
		}
	}
	return nil, fmt.Errorf("unknown opcode %q", name)
}

// ---------------------------------------------------------------------------
// builder

func splitmix(x uint64) uint64 {
	x += 0x9e3779b97f4a7c15
	x = (x ^ (x >> 30)) * 0xbf58476d1ce4e5b9
	x = (x ^ (x >> 27)) * 0x94d049bb133111eb
	return x ^ (x >> 31)
}

// bits expands a seed into a word of the given width.
func bits(seed uint64, width int) string {
	var sb strings.Builder
	s := seed
	for sb.Len() < width {
		s = splitmix(s)
		for k := 0; k < 64 && sb.Len() < width; k++ {
			sb.WriteByte('0' + byte((s>>uint(k))&1))
		}
	}
	return sb.String()
}

// Built is a live machine plus what the builder observed.
type Built struct {
	Mach        *procbuilder.Machine     // Kind "machine"
	BM          *bondmachine.Bondmachine // otherwise
	AsmFallback int                      // program lines the assembler refused (replaced by seeded words)
}

// newArch fills the architecture part of a domain (everything but program and data).
func newArch(rsize int, d Dom) (*procbuilder.Machine, error) {
	m := new(procbuilder.Machine)
	a := &m.Arch
	a.Rsize = uint8(rsize)
	a.Modes = []string{d.Mode}
	a.R, a.N, a.M, a.L, a.O = uint8(d.R), uint8(d.N), uint8(d.M), uint8(d.L), uint8(d.O)
	a.Threaded = d.Threaded
	names := append([]string(nil), d.Ops...)
	sort.Strings(names)
	var ops []procbuilder.Opcode
	last := ""
	for i, n := range names {
		if i > 0 && n == last {
			continue
		}
		last = n
		op, err := lookup(n)
		if err != nil {
			return nil, err
		}
		ops = append(ops, op)
	}
	sort.Sort(procbuilder.ByName(ops)) // "the lists of opcodes has to be kept ordered by name" (machine.go:40)
	a.Op = ops
	return m, nil
}

// finish sets the word size and assembles program and data once the shared constraints are known.
func finish(m *procbuilder.Machine, d Dom, b *Built) error {
	a := &m.Arch
	auto := a.Max_word()
	switch d.Word {
	case "exact":
		a.WordSize = uint8(auto)
	case "larger":
		a.WordSize = uint8(auto + d.WordExtra)
	}
	if auto+d.WordExtra > 255 {
		return fmt.Errorf("word too wide")
	}
	w := a.Max_word()
	var slocs []string
	for _, l := range d.Prog {
		if l.Asm != "" {
			s, err := a.Assembler_process_line([]byte(l.Asm))
			if err == nil && s != "" {
				slocs = append(slocs, s)
				continue
			}
			b.AsmFallback++
		}
		slocs = append(slocs, bits(l.Seed^0xa5a5, w))
	}
	m.Program = procbuilder.Program{Slocs: slocs}
	var vars []string
	for _, v := range d.Vars {
		vars = append(vars, bits(v, w))
	}
	m.Data = procbuilder.Data{Vars: vars}
	return nil
}

// Build makes the live machine of a case. Every call starts from the static opcode registry.
func Build(c Case) (*Built, error) {
	setup()
	b := new(Built)
	if len(c.Doms) == 0 {
		return nil, fmt.Errorf("no domain")
	}
	if c.Kind == "machine" {
		m, err := newArch(c.Rsize, c.Doms[0])
		if err != nil {
			return nil, err
		}
		m.Arch.Shared_constraints = c.Doms[0].Constraints
		if err := finish(m, c.Doms[0], b); err != nil {
			return nil, err
		}
		b.Mach = m
		return b, nil
	}
	bm := new(bondmachine.Bondmachine)
	bm.Rsize = uint8(c.Rsize)
	bm.Init()
	for _, d := range c.Doms {
		m, err := newArch(c.Rsize, d)
		if err != nil {
			return nil, err
		}
		bm.Domains = append(bm.Domains, m)
	}
	for i := 0; i < c.Inputs; i++ {
		bm.Add_input()
	}
	for i := 0; i < c.Outputs; i++ {
		bm.Add_output()
	}
	for _, d := range c.Procs {
		if _, err := bm.Add_processor(d); err != nil {
			return nil, err
		}
	}
	bm.Add_shared_objects(c.SOs)
	if len(bm.Shared_objects) != len(c.SOs) {
		return nil, fmt.Errorf("Add_shared_objects accepted %d of %d strings %q", len(bm.Shared_objects), len(c.SOs), c.SOs)
	}
	for _, l := range c.SOLinks {
		bm.Connect_processor_shared_object([]string{strconv.Itoa(l[0]), strconv.Itoa(l[1])})
	}
	for _, bd := range c.Bonds {
		bm.Add_bond([]string{bd[0], bd[1]})
	}
	// The constraint string of a domain is the comma-joined String() of the shared objects linked
	// to its processor (what Bondmachine.Write_verilog recomputes, verilog.go:66-75); with several
	// processors on one domain the last one wins there, so it does here.
	for p, dom := range bm.Processors {
		var parts []string
		for _, so := range bm.Shared_links[p] {
			parts = append(parts, bm.Shared_objects[so].String())
		}
		bm.Domains[dom].Arch.Shared_constraints = strings.Join(parts, ",")
	}
	for i, d := range c.Doms {
		if err := finish(bm.Domains[i], d, b); err != nil {
			return nil, err
		}
	}
	b.BM = bm
	return b, nil
}

// FromSpec converts a gen.BMSpec (the shared dataflow-shaped generator) into a Case.
func FromSpec(s gen.BMSpec) Case {
	c := Case{Kind: "hs", Rsize: s.Rsize, Inputs: s.Inputs, Outputs: s.Outputs, Bonds: s.Bonds}
	for i, p := range s.Procs {
		d := Dom{Mode: "ha", R: p.R, N: p.N, M: p.M, L: p.L, O: p.O, Word: "auto", Ops: append([]string(nil), p.Ops...)}
		for _, l := range p.Prog {
			d.Prog = append(d.Prog, Line{Asm: l})
		}
		c.Doms = append(c.Doms, d)
		c.Procs = append(c.Procs, i)
	}
	return c
}
