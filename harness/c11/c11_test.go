// C11 — saving and reloading a machine loses nothing.
// Generated machines (single procbuilder.Machine, random Bondmachine, simulatable handshake
// machine) x; y = load(save(x)) through the exact steps of the CLIs (json.Marshal of Jsoner();
// json.Unmarshal into the *_json type; Dejsoner; Bondmachine.Init). Oracles: reflection walk of
// the live structs, byte-equal re-save, no dropped opcode / shared object / bond, a generated
// field perturbation survives, equal 50-tick state digests, byte-identical regenerated Verilog.
package c11

import (
	"bytes"
	"encoding/json"
	"fmt"
	"os"
	"path/filepath"
	"sort"
	"strings"
	"testing"

	"github.com/BondMachineHQ/BondMachine/pkg/bondmachine"
	"github.com/BondMachineHQ/BondMachine/pkg/procbuilder"
	"pgregory.net/rapid"
	"verifharness/gen"
	"verifharness/pbt"
)

// ---------------------------------------------------------------------------
// generator

var soKinds = []string{"sharedmem", "channel", "barrier", "lfsr8", "queue", "stack", "uart", "kbd", "vtextmem"}

// opcodes that talk to a shared object kind (op_*.go: the port names they emit exist only when the
// architecture has a constraint of that kind)
var soOps = map[string][]string{
	"sharedmem": {"r2s", "s2r"}, "channel": {"wrd", "wwr", "chc", "chw"}, "barrier": {"hit"}, "lfsr8": {"lfsr82r"},
	"queue": {"r2q", "q2r"}, "stack": {"r2t", "t2r"}, "uart": {"r2u", "u2r"}, "kbd": {"k2r"}, "vtextmem": {"r2v", "r2vri"},
}

func genNum(t *rapid.T, label string, max int) string {
	n := rapid.IntRange(0, max).Draw(t, label)
	switch rapid.IntRange(0, 19).Draw(t, label+"_form") {
	case 0:
		return fmt.Sprintf("+%d", n) // strconv.Atoi accepts a sign
	case 1:
		return fmt.Sprintf("-%d", n)
	case 2:
		return fmt.Sprintf("0%d", n)
	}
	return fmt.Sprint(n)
}

// genSO draws the textual form of a shared object that the kind's Instantiate accepts (shr_*.go).
func genSO(t *rapid.T, nprocs int) string {
	switch k := rapid.SampledFrom(soKinds).Draw(t, "sokind"); k {
	case "sharedmem", "queue", "stack", "kbd":
		return k + ":" + genNum(t, "depth", 64)
	case "barrier":
		return k + ":" + genNum(t, "timeout", 1000)
	case "lfsr8":
		return k + ":" + genNum(t, "seed", 300) // the seed is truncated to uint8 by Instantiate
	case "channel":
		if rapid.IntRange(0, 5).Draw(t, "chjunk") == 0 {
			return "channel:" + rapid.StringMatching(`[a-z0-9:]{0,4}`).Draw(t, "junk") // everything after the colon is ignored
		}
		return "channel:"
	case "uart":
		return k + ":" + genNum(t, "baud", 115200) + ":" + genNum(t, "depth", 64)
	default: // vtextmem: one or more boxes cp:left:top:width:height
		s := "vtextmem"
		for i, n := 0, rapid.IntRange(1, 3).Draw(t, "nboxes"); i < n; i++ {
			s += fmt.Sprintf(":%d:%d:%d:%d:%d", rapid.IntRange(0, max(nprocs, 1)).Draw(t, "cp"), rapid.IntRange(0, 40).Draw(t, "left"),
				rapid.IntRange(0, 40).Draw(t, "top"), rapid.IntRange(1, 16).Draw(t, "w"), rapid.IntRange(1, 16).Draw(t, "h"))
		}
		return s
	}
}

// genDyn draws one name of a dynamic family (the grammars of dynamical_*.go).
func genDyn(t *rapid.T, fam string) string {
	size := func() int {
		if rapid.Bool().Draw(t, "stdsize") {
			return rapid.SampledFrom([]int{8, 16, 32}).Draw(t, "s")
		}
		return rapid.IntRange(1, 64).Draw(t, "s")
	}
	ident := func() string {
		return rapid.SampledFrom([]string{"stk", "s", "my_stack", "A", "callstack"}).Draw(t, "ident")
	}
	var n string
	switch fam {
	case "rsets":
		n = fmt.Sprintf("rsets%d", rapid.IntRange(1, 32).Draw(t, "s"))
	case "call":
		n = fmt.Sprintf("%s%d%s", rapid.SampledFrom([]string{"callo", "calla", "ret"}).Draw(t, "callkind"), rapid.IntRange(1, 16).Draw(t, "depth"), ident())
	case "stack":
		n = fmt.Sprintf("%s%d%s", rapid.SampledFrom([]string{"push", "pull"}).Draw(t, "stackkind"), rapid.IntRange(1, 16).Draw(t, "depth"), ident())
	case "fps":
		s := size()
		n = fmt.Sprintf("%sfps%df%d", rapid.SampledFrom([]string{"mult", "add", "div"}).Draw(t, "arith"), s, rapid.IntRange(0, s).Draw(t, "f"))
	case "fxps":
		s := size()
		n = fmt.Sprintf("%sfxps%df%d", rapid.SampledFrom([]string{"mult", "add", "div"}).Draw(t, "arith"), s, rapid.IntRange(0, s).Draw(t, "f"))
	case "lqs":
		n = fmt.Sprintf("%slqs%dt%d", rapid.SampledFrom([]string{"mult", "add", "div"}).Draw(t, "arith"), size(), rapid.IntRange(1, 3).Draw(t, "t"))
	}
	// the name grammars are unanchored regular expressions: a decorated name belongs to the family too
	// (not for the linear quantizer: the trailing text ends up in the range index, "1b" is no number and
	// the creation is refused with "Invalid range for index 0" by every front-end alike)
	if fam != "lqs" && rapid.IntRange(0, 19).Draw(t, "decorate") == 0 {
		n += rapid.SampledFrom([]string{"b", "_v2", "x"}).Draw(t, "suffix")
	}
	return n
}

var dynFams = []string{"rsets", "call", "stack", "fps", "fxps", "lqs"}

// genDynOps draws at most one name per family. Machines that will go through HDL generation get no
// fxp opcode (see needsExternalFiles).
func genDynOps(t *rapid.T, p int, hdl bool) []string {
	var r []string
	for _, f := range dynFams {
		if hdl && f == "fxps" {
			continue
		}
		if rapid.IntRange(1, p).Draw(t, "dyn_"+f) == p { // rapid favours the low end of a range: at most 1 in p
			r = append(r, genDyn(t, f))
		}
	}
	return r
}

func regName(t *rapid.T, R int) string {
	return fmt.Sprintf("r%d", rapid.IntRange(0, (1<<uint(R))-1).Draw(t, "reg"))
}

// genLine draws an assembly line for one of the enabled opcodes when it has a simple operand form.
func genLine(t *rapid.T, d Dom) Line {
	seed := rapid.Uint64().Draw(t, "seed")
	if len(d.Ops) == 0 || rapid.IntRange(0, 2).Draw(t, "raw") == 0 {
		return Line{Seed: seed}
	}
	op := rapid.SampledFrom(d.Ops).Draw(t, "lineop")
	switch {
	case op == "nop":
		return Line{Asm: "nop", Seed: seed}
	case op == "inc" || op == "dec" || op == "clr" || op == "not":
		return Line{Asm: op + " " + regName(t, d.R), Seed: seed}
	case op == "add" || op == "cpy" || op == "mult" || op == "sub" || op == "and" || op == "or" || op == "xor" || op == "addp" || op == "multp" ||
		strings.Contains(op, "fps") || strings.Contains(op, "lqs"):
		return Line{Asm: op + " " + regName(t, d.R) + " " + regName(t, d.R), Seed: seed}
	case op == "rset" || strings.HasPrefix(op, "rsets"):
		return Line{Asm: fmt.Sprintf("%s %s %d", op, regName(t, d.R), rapid.IntRange(0, 1).Draw(t, "imm")), Seed: seed}
	case (op == "i2r" || op == "i2rw") && d.N > 0:
		return Line{Asm: fmt.Sprintf("%s %s i%d", op, regName(t, d.R), rapid.IntRange(0, d.N-1).Draw(t, "in")), Seed: seed}
	case (op == "r2o" || op == "r2owa") && d.M > 0:
		return Line{Asm: fmt.Sprintf("%s %s o%d", op, regName(t, d.R), rapid.IntRange(0, d.M-1).Draw(t, "out")), Seed: seed}
	case op == "j":
		return Line{Asm: fmt.Sprintf("j %d", rapid.IntRange(0, (1<<uint(d.O))-1).Draw(t, "target")), Seed: seed}
	}
	return Line{Seed: seed}
}

func genWord(t *rapid.T, d *Dom) {
	d.Word = rapid.SampledFrom([]string{"auto", "auto", "exact", "larger"}).Draw(t, "word")
	if d.Word == "larger" {
		d.WordExtra = rapid.IntRange(1, 8).Draw(t, "wordextra")
	}
	if rapid.Bool().Draw(t, "isthreaded") {
		d.Threaded = rapid.SampledFrom([]int{1, 1, 2, 2, 3, 8, 255, 256, 300, 1024}).Draw(t, "threaded")
	}
}

// genDom draws a domain; kinds lists the shared object kinds its processors are attached to.
func genDom(t *rapid.T, kinds []string, hdl bool) Dom {
	var d Dom
	d.Mode = rapid.SampledFrom([]string{"ha", "vn", "hy"}).Draw(t, "mode")
	d.R = rapid.IntRange(0, 3).Draw(t, "R")
	d.N = rapid.IntRange(0, 3).Draw(t, "N")
	d.M = rapid.IntRange(0, 3).Draw(t, "M")
	d.L = rapid.IntRange(0, 4).Draw(t, "L")
	d.O = rapid.IntRange(1, 5).Draw(t, "O")
	static := StaticNames()
	if rapid.IntRange(0, 19).Draw(t, "allops") == 19 { // high end: shrinking leads to small opcode sets
		d.Ops = append(d.Ops, static...)
	} else {
		for i, n := 0, rapid.IntRange(1, 8).Draw(t, "nops"); i < n; i++ {
			d.Ops = append(d.Ops, rapid.SampledFrom(static).Draw(t, "op"))
		}
	}
	for _, k := range kinds {
		if rapid.Bool().Draw(t, "useso") {
			d.Ops = append(d.Ops, rapid.SampledFrom(soOps[k]).Draw(t, "soop"))
		}
	}
	d.Ops = append(d.Ops, genDynOps(t, 4, hdl)...)
	sort.Strings(d.Ops)
	d.Ops = uniq(d.Ops)
	genWord(t, &d)
	room := 1 << uint(d.O)
	np := rapid.IntRange(0, min(6, room)).Draw(t, "nprog")
	for i := 0; i < np; i++ {
		d.Prog = append(d.Prog, genLine(t, d))
	}
	for i, n := 0, rapid.IntRange(0, min(3, room-np)).Draw(t, "nvars"); i < n; i++ {
		d.Vars = append(d.Vars, rapid.Uint64().Draw(t, "var"))
	}
	return d
}

func uniq(xs []string) []string {
	var r []string
	for i, x := range xs {
		if i == 0 || x != xs[i-1] {
			r = append(r, x)
		}
	}
	return r
}

func kindOf(so string) string { return strings.SplitN(so, ":", 2)[0] }

// genSOs draws shared objects and their attachments. Two implicit preconditions of the HDL generators
// are respected by construction (found from panics; see the report):
//   - a vtextmem indexes its boxes by the id of the attached processor (shr_vtextmem.go:318) and by the
//     rank of the attachment (shr_vtextmem.go:196): it is only attached to processors below its box count;
//   - a barrier that goes through Write_verilog is attached to at least one processor (shr_barrier.go:100
//     cuts the trailing " | " of an empty list).
func genSOs(t *rapid.T, c *Case, maxSO int) {
	np := len(c.Procs)
	for i, n := 0, rapid.IntRange(0, maxSO).Draw(t, "nso"); i < n; i++ {
		so := genSO(t, np)
		c.SOs = append(c.SOs, so)
		limit := np
		if kindOf(so) == "vtextmem" {
			limit = min(np, (strings.Count(so, ":"))/5)
		}
		if limit == 0 {
			continue
		}
		// attached to 1..3 processors (now and then to none)
		k := rapid.IntRange(0, min(3, limit)).Draw(t, "nattach")
		if k == 0 && (rapid.IntRange(0, 3).Draw(t, "detached") != 0 || (c.HDL && kindOf(so) == "barrier")) {
			k = 1
		}
		perm := rapid.Permutation(seq(limit)).Draw(t, "attach")
		for _, p := range perm[:k] {
			c.SOLinks = append(c.SOLinks, [2]int{p, i})
		}
	}
	if c.HDL && np == 0 {
		// nothing to attach a barrier to
		var keep []string
		for _, so := range c.SOs {
			if kindOf(so) != "barrier" {
				keep = append(keep, so)
			}
		}
		c.SOs = keep
	}
}

func seq(n int) []int {
	r := make([]int, n)
	for i := range r {
		r[i] = i
	}
	return r
}

func genBM(t *rapid.T, hdl bool) Case {
	c := Case{Kind: "bm", HDL: hdl}
	c.Rsize = genRsize(t)
	nd := rapid.IntRange(1, 3).Draw(t, "ndoms")
	for i, n := 0, rapid.IntRange(0, 4).Draw(t, "nprocs"); i < n; i++ {
		c.Procs = append(c.Procs, rapid.IntRange(0, nd-1).Draw(t, "domof"))
	}
	c.Inputs = rapid.IntRange(0, 3).Draw(t, "inputs")
	c.Outputs = rapid.IntRange(0, 3).Draw(t, "outputs")
	genSOs(t, &c, 3)
	kinds := make([][]string, nd)
	for _, l := range c.SOLinks {
		d := c.Procs[l[0]]
		kinds[d] = append(kinds[d], kindOf(c.SOs[l[1]]))
	}
	for i := 0; i < nd; i++ {
		c.Doms = append(c.Doms, genDom(t, kinds[i], hdl))
	}
	// bonds: every sink picks a source or stays unconnected; a source may feed several sinks
	var sinks, sources []string
	for i := 0; i < c.Outputs; i++ {
		sinks = append(sinks, fmt.Sprintf("o%d", i))
	}
	for i := 0; i < c.Inputs; i++ {
		sources = append(sources, fmt.Sprintf("i%d", i))
	}
	for p, d := range c.Procs {
		for k := 0; k < c.Doms[d].N; k++ {
			sinks = append(sinks, fmt.Sprintf("p%di%d", p, k))
		}
		for k := 0; k < c.Doms[d].M; k++ {
			sources = append(sources, fmt.Sprintf("p%do%d", p, k))
		}
	}
	if len(sources) > 0 {
		for _, s := range sinks {
			if rapid.IntRange(0, 3).Draw(t, "bonded") == 0 {
				continue
			}
			src := rapid.SampledFrom(sources).Draw(t, "src")
			if rapid.Bool().Draw(t, "swap") {
				c.Bonds = append(c.Bonds, [2]string{src, s})
			} else {
				c.Bonds = append(c.Bonds, [2]string{s, src})
			}
		}
	}
	return c
}

func genRsize(t *rapid.T) int {
	if rapid.IntRange(0, 3).Draw(t, "oddrsize") == 0 {
		return rapid.IntRange(8, 64).Draw(t, "rsize")
	}
	return rapid.SampledFrom([]int{8, 16, 32, 64}).Draw(t, "rsize")
}

func genMachine(t *rapid.T, hdl bool) Case {
	c := Case{Kind: "machine", Rsize: genRsize(t), HDL: hdl}
	var sos []string
	var kinds []string
	for i, n := 0, rapid.IntRange(0, 2).Draw(t, "nso"); i < n; i++ {
		so := genSO(t, 1)
		sos = append(sos, so)
		kinds = append(kinds, kindOf(so))
	}
	d := genDom(t, kinds, hdl)
	d.Constraints = strings.Join(sos, ",")
	c.Doms = []Dom{d}
	return c
}

func genHS(t *rapid.T, hdl bool) Case {
	spec := gen.HandshakeMachine(t, gen.HSOptions{MaxProcs: 3, MaxPad: 2})
	c := FromSpec(spec)
	c.HDL = hdl
	for i := range c.Doms {
		d := &c.Doms[i]
		// decorations that do not change the behaviour: opcodes the program does not use, a wider ROM word, threads
		d.Ops = append(d.Ops, genDynOps(t, 4, hdl)...)
		sort.Strings(d.Ops)
		d.Ops = uniq(d.Ops)
		genWord(t, d)
	}
	genSOs(t, &c, 2)
	for i := 0; i < c.Inputs; i++ {
		var st []uint64
		for k, n := 0, rapid.IntRange(0, 6).Draw(t, "nin"); k < n; k++ {
			st = append(st, uint64(rapid.Uint8().Draw(t, "v")))
		}
		c.Env.In = append(c.Env.In, st)
		c.Env.InGap = append(c.Env.InGap, rapid.IntRange(0, 3).Draw(t, "gap"))
	}
	for i := 0; i < c.Outputs; i++ {
		c.Env.OutStall = append(c.Env.OutStall, rapid.IntRange(0, 3).Draw(t, "stall"))
	}
	return c
}

func genCase(kind string, hdlOneIn int) func(t *rapid.T) Case {
	return func(t *rapid.T) Case {
		var c Case
		hdl := rapid.IntRange(1, hdlOneIn).Draw(t, "hdl") == hdlOneIn
		switch kind {
		case "machine":
			c = genMachine(t, hdl)
		case "bm":
			c = genBM(t, hdl)
		default:
			c = genHS(t, hdl)
		}
		c.HDL = hdl
		c.Fresh = rapid.Bool().Draw(t, "fresh")
		if rapid.IntRange(1, 6).Draw(t, "nolq") == 6 {
			c.NoLQ, c.Fresh = true, true
		}
		c.Perturb = rapid.IntRange(0, 1<<20).Draw(t, "perturb")
		return c
	}
}

// ---------------------------------------------------------------------------
// save / load exactly as the CLIs do

func save(b *Built) ([]byte, error) {
	if b.Mach != nil {
		return json.Marshal(b.Mach.Jsoner()) // cmd/procbuilder/procbuilder.go:337
	}
	return json.Marshal(b.BM.Jsoner()) // cmd/bondmachine/bondmachine.go:1347, cmd/basm/main.go:275
}

func load(raw []byte, single bool) (*Built, error) {
	if single {
		var mj procbuilder.Machine_json
		if err := json.Unmarshal(raw, &mj); err != nil {
			return nil, err
		}
		return &Built{Mach: (&mj).Dejsoner()}, nil // cmd/procbuilder/procbuilder.go:106-108
	}
	var bj bondmachine.Bondmachine_json
	if err := json.Unmarshal(raw, &bj); err != nil {
		return nil, err
	}
	bm := (&bj).Dejsoner() // cmd/bondmachine/bondmachine.go:314-316
	bm.Init()              // :329
	return &Built{BM: bm}, nil
}

// safeLoad turns a panic of the loader into an error.
func safeLoad(raw []byte, single bool) (b *Built, err error) {
	defer func() {
		if r := recover(); r != nil {
			err = fmt.Errorf("panic: %v", r)
		}
	}()
	return load(raw, single)
}

func (b *Built) live() any {
	if b.Mach != nil {
		return b.Mach
	}
	return b.BM
}

func (b *Built) machines() []*procbuilder.Machine {
	if b.Mach != nil {
		return []*procbuilder.Machine{b.Mach}
	}
	return b.BM.Domains
}

// The documented caches. None of them is in the *_json types; each is written before it is read:
//   - Conproc.CpID and Conproc.SharedHDLOps: assigned for every processor by Bondmachine.Write_verilog
//     (verilog.go:83-84) before any generator runs; the simulator sets VM.CpID itself (bondmachine/vm.go:202).
//   - Arch.Tag: assigned from CpID at the top of Conproc.Write_verilog (conproc.go:287); its readers
//     (op_multp/op_divp/dynop_*, ram.go:39, op_r2v.go:93) run after it in every caller.
//
// They are compared like any other field whenever both sides went through the same calls (fresh from the
// builder, or both after Write_verilog); they are ignored only when a machine that HAS been through
// Write_verilog is saved and the reloaded copy has not yet been.
func isCache(path string) bool {
	return strings.HasSuffix(path, ".Conproc.CpID") || strings.HasSuffix(path, ".Conproc.SharedHDLOps") || strings.HasSuffix(path, ".Arch.Tag")
}

func lastField(path string) string {
	s := schema(path)
	s = strings.TrimSuffix(s, "[]")
	if i := strings.LastIndexByte(s, '.'); i >= 0 {
		s = s[i+1:]
	}
	for _, suf := range []string{"#dup", "#drop", "#swap", "[]"} {
		s = strings.TrimSuffix(s, suf)
	}
	return s
}

func famLabel(name string) string {
	if f := dynFamily(name); f != "" {
		return f
	}
	return "static"
}

// checkNoDrop: loading never silently drops an opcode, a shared object or a bond.
func checkNoDrop(x, y *Built) *pbt.Failure {
	mx, my := x.machines(), y.machines()
	if len(mx) != len(my) {
		return pbt.Failf("lost-domain", "%d domains became %d", len(mx), len(my))
	}
	for d := range mx {
		if len(mx[d].Op) != len(my[d].Op) {
			return pbt.Failf("lost-opcode", "domain %d: %d opcodes became %d", d, len(mx[d].Op), len(my[d].Op))
		}
		for i, op := range mx[d].Op {
			n := op.Op_get_name()
			if my[d].Op[i] == nil {
				return pbt.Failf("lost-opcode:"+famLabel(n), "domain %d: opcode %d (%q) is nil after load", d, i, n)
			}
			if got := my[d].Op[i].Op_get_name(); got != n {
				return pbt.Failf("lost-opcode:"+famLabel(n), "domain %d: opcode %d %q became %q", d, i, n, got)
			}
		}
	}
	if x.BM == nil {
		return nil
	}
	if len(x.BM.Shared_objects) != len(y.BM.Shared_objects) {
		return pbt.Failf("so-roundtrip", "%d shared objects became %d", len(x.BM.Shared_objects), len(y.BM.Shared_objects))
	}
	for i, so := range x.BM.Shared_objects {
		if y.BM.Shared_objects[i] == nil {
			return pbt.Failf("so-roundtrip:"+so.Shr_get_name(), "shared object %d (%q) is nil after load", i, so.String())
		}
		if got := y.BM.Shared_objects[i].String(); got != so.String() {
			return pbt.Failf("so-roundtrip:"+so.Shr_get_name(), "shared object %d %q became %q", i, so.String(), got)
		}
	}
	bx, by := x.BM.List_bonds(), y.BM.List_bonds()
	if len(bx) != len(by) || x.BM.EnumBonds() != y.BM.EnumBonds() {
		return pbt.Failf("lost-bond", "%d bonds became %d", len(bx), len(by))
	}
	for k, v := range bx {
		if by[k] != v {
			return pbt.Failf("lost-bond", "bond %d %q became %q", k, v, by[k])
		}
	}
	if fmt.Sprint(x.BM.Shared_links) != fmt.Sprint(y.BM.Shared_links) {
		return pbt.Failf("lost-so-link", "shared links %v became %v", x.BM.Shared_links, y.BM.Shared_links)
	}
	return nil
}

// registryProblem checks the opcode registry after a load: no name registered twice, every opcode of
// the loaded machine is the value registered under its name.
func registryProblem(y *Built) string {
	seen := map[string]int{}
	for _, op := range procbuilder.Allopcodes {
		seen[op.Op_get_name()]++
	}
	for n, k := range seen {
		if k > 1 {
			return fmt.Sprintf("opcode %q registered %d times", n, k)
		}
	}
	for d, m := range y.machines() {
		for i, op := range m.Op {
			if op == nil {
				continue
			}
			reg, _ := lookup(op.Op_get_name())
			if ds := compare(&reg, &op, true, nil); len(ds) > 0 {
				return fmt.Sprintf("domain %d opcode %d: not the registered value: %s", d, i, firstDiff(ds))
			}
		}
	}
	return ""
}

func hdl(b *Built) (map[string]string, error) {
	if b.Mach != nil {
		return hdlMachine(b.Mach)
	}
	return hdlBM(b.BM)
}

func panicClass(err error) string {
	s := err.Error()
	if i := strings.IndexByte(s, '\n'); i >= 0 {
		s = s[:i]
	}
	// strip numbers so that classes are stable
	var sb strings.Builder
	for _, r := range s {
		if r >= '0' && r <= '9' {
			continue
		}
		sb.WriteRune(r)
	}
	s = sb.String()
	if len(s) > 120 {
		s = s[:120]
	}
	return s
}

// needsExternalFiles: the fxp opcodes read /tmp/fxpcode/*.v while generating HDL and call log.Fatal
// when the directory is not there (dynop_fxp.go:402-403): that cannot be recovered from inside the
// process, so such machines never go through HDL generation here.
func needsExternalFiles(b *Built) bool {
	for _, m := range b.machines() {
		for _, op := range m.Op {
			if op != nil && dynFamily(op.Op_get_name()) == "dyn_fxp" {
				return true
			}
		}
	}
	return false
}

func runSim(bm *bondmachine.Bondmachine, env gen.Env, ticks int) ([]string, error) {
	r, err := gen.NewRunner(bm, env, nil)
	if err != nil {
		return nil, err
	}
	defer r.Close()
	var ds []string
	for i := 0; i < ticks; i++ {
		if err := r.Step(); err != nil {
			return nil, err
		}
		ds = append(ds, r.Digest())
	}
	return ds, nil
}

// ---------------------------------------------------------------------------
// property

func prop(c Case) pbt.Outcome      { return propJ(c, false) }
func propKnown(c Case) pbt.Outcome { return propJ(c, true) }

// hasLQ: the machine uses an opcode of the linear quantizer family.
func hasLQ(b *Built) bool {
	for _, m := range b.machines() {
		for _, op := range m.Op {
			if op != nil && dynFamily(op.Op_get_name()) == "dyn_linear_quantizer" {
				return true
			}
		}
	}
	return false
}

// propJ is the property; judgeKnown makes it judge the cases of the recorded finding
// D-C11-1 (lost-opcode:create-error-discarded) instead of counting them as excluded.
func propJ(c Case, judgeKnown bool) pbt.Outcome {
	resetRegistry()
	configureLQ(true)
	defer resetRegistry()
	defer configureLQ(true)
	if c.NoLQ {
		c.Fresh = true
	}
	labels := map[string]bool{}
	out := func(nt bool, f *pbt.Failure, excluded string) pbt.Outcome {
		var ls []string
		for l := range labels {
			ls = append(ls, l)
		}
		sort.Strings(ls)
		return pbt.Outcome{NonTrivial: nt, Labels: ls, Fail: f, Excluded: excluded}
	}
	x, err := Build(c)
	if err != nil {
		labels["build-error:"+panicClass(err)] = true
		return out(false, nil, "build-error")
	}
	single := x.Mach != nil
	// ---- classification
	nt := false
	labels["kind:"+c.Kind] = true
	if c.NoLQ {
		labels["load:fresh-process-without-lq-ranges"] = true
	} else if c.Fresh {
		labels["load:fresh-process"] = true
	} else {
		labels["load:same-process"] = true
	}
	for _, m := range x.machines() {
		labels["mode:"+m.Modes[0]] = true
		for _, op := range m.Op {
			if f := dynFamily(op.Op_get_name()); f != "" {
				labels["dyn:"+f] = true
				nt = true
			}
		}
		switch {
		case m.WordSize == 0:
			labels["word:auto"] = true
		default:
			nt = true
			w := m.WordSize
			m.WordSize = 0
			if int(w) == m.Max_word() {
				labels["word:exact"] = true
			} else {
				labels["word:larger"] = true
			}
			m.WordSize = w
		}
		if m.Threaded > 0 {
			labels[fmt.Sprintf("threaded:%d", m.Threaded)] = true
			nt = true
		}
		if len(m.Op) >= len(staticNames) {
			labels["ops:all-static"] = true
		}
		if len(m.Vars) > 0 {
			labels["vars"] = true
		}
		if m.Shared_constraints != "" {
			labels["constraints"] = true
			if single {
				nt = true
				for _, s := range strings.Split(m.Shared_constraints, ",") {
					labels["so:"+kindOf(s)] = true
				}
			}
		}
	}
	if x.AsmFallback > 0 {
		labels["asm-fallback"] = true
	}
	if !single {
		bm := x.BM
		for _, so := range bm.Shared_objects {
			labels["so:"+so.Shr_get_name()] = true
			nt = true
		}
		att := map[int]int{}
		for _, l := range bm.Shared_links {
			for _, so := range l {
				att[so]++
			}
		}
		for so := range bm.Shared_objects {
			switch a := att[so]; {
			case a == 0:
				labels["so-unattached"] = true
			case a > 1:
				labels["so-multi-attach"] = true
			}
		}
		fan := map[int]int{}
		for _, l := range bm.Links {
			if l == -1 {
				labels["port-unconnected"] = true
			} else {
				fan[l]++
				if fan[l] > 1 {
					labels["fanout"] = true
				}
			}
		}
		if bm.EnumBonds() > 0 {
			labels["bonds"] = true
		}
		used := map[int]int{}
		for _, d := range bm.Processors {
			used[d]++
			if used[d] > 1 {
				labels["domain-shared-by-processors"] = true
			}
		}
		if len(used) < len(bm.Domains) {
			labels["domain-unused"] = true
		}
	}

	// ---- save, load
	j1, err := save(x)
	if err != nil {
		return out(nt, pbt.Failf("save-error", "json.Marshal(Jsoner()): %v", err), "")
	}
	regBefore := append([]procbuilder.Opcode(nil), procbuilder.Allopcodes...)
	if c.Fresh {
		resetRegistry()
	}
	if c.NoLQ {
		configureLQ(false)
	}
	y, err := safeLoad(j1, single)
	configureLQ(true)
	if err != nil && c.NoLQ && hasLQ(x) {
		// a load that refuses the machine loudly does not drop anything silently
		labels["load-refused-without-lq-ranges"] = true
		return out(nt, nil, "")
	}
	if err != nil {
		return out(nt, pbt.Failf("load-error", "loading the saved machine: %v\n%s", err, j1), "")
	}
	if c.NoLQ && hasLQ(x) {
		// D-C11-1: Dejsoner discards the error of EventuallyCreateInstruction (machine.go:230) and leaves
		// a nil Opcode in the loaded machine; nothing is reported at load time.
		labels["D-C11-1-class"] = true
		// repaired in /repo (see known_findings.json): a silent drop is a violation again
		if f := checkNoDrop(x, y); f != nil {
			f.Sig = "lost-opcode:create-error-discarded"
			f.Msg = "loaded in a process without -linear-data-range, no error reported: " + f.Msg + "\nsaved: " + string(j1)
			return out(nt, f, "")
		}
	}
	if f := checkNoDrop(x, y); f != nil {
		f.Msg += "\nsaved: " + string(j1)
		return out(nt, f, "")
	}
	if !c.Fresh {
		// everything was registered when x was built: loading must neither add nor replace an entry
		if len(regBefore) != len(procbuilder.Allopcodes) {
			return out(nt, pbt.Failf("registry-grew", "loading in the same process changed the opcode registry from %d to %d entries", len(regBefore), len(procbuilder.Allopcodes)), "")
		}
	}
	if p := registryProblem(y); p != "" {
		return out(nt, pbt.Failf("registry", "%s", p), "")
	}
	// ---- structural equality on the live structs
	if ds := compare(x.live(), y.live(), !c.Fresh, nil); len(ds) > 0 {
		return out(nt, pbt.Failf("lost-field:"+lastField(ds[0].Path), "load(save(x)) differs from x: %s\nsaved: %s", firstDiff(ds), j1), "")
	}
	// ---- save(load(save(x))) == save(x)
	j2, err := save(y)
	if err != nil {
		return out(nt, pbt.Failf("save-error", "saving the reloaded machine: %v", err), "")
	}
	if !bytes.Equal(j1, j2) {
		return out(nt, pbt.Failf("resave-differs", "save(load(save(x))) != save(x):\n%s\n%s", j1, j2), "")
	}
	// a second load is equal to the first (load is a function of the bytes)
	if y2, err := load(j2, single); err != nil {
		return out(nt, pbt.Failf("load-error", "second load: %v", err), "")
	} else if ds := compare(y.live(), y2.live(), true, nil); len(ds) > 0 {
		return out(nt, pbt.Failf("reload-differs", "two loads of the same bytes differ: %s", firstDiff(ds)), "")
	}

	// ---- simulation
	if c.Kind == "hs" {
		labels["sim"] = true
		dx, err := runSim(x.BM, c.Env, 50)
		if err != nil {
			labels["sim-error"] = true
			return out(false, nil, "sim-error")
		}
		dy, err := runSim(y.BM, c.Env, 50)
		if err != nil {
			return out(nt, pbt.Failf("sim-differs", "the reloaded machine does not simulate: %v", err), "")
		}
		for i := range dx {
			if dx[i] != dy[i] {
				return out(nt, pbt.Failf("sim-differs", "state digests differ at tick %d of 50\nsaved: %s", i, j1), "")
			}
		}
	}

	// ---- HDL
	if c.HDL && needsExternalFiles(x) {
		labels["hdl-skipped:fxp-needs-/tmp/fxpcode"] = true
	} else if c.HDL {
		labels["hdl"] = true
		fx, err := hdl(x)
		if err != nil {
			labels["hdl-panic:"+panicClass(err)] = true
			return out(false, nil, "hdl-precondition")
		}
		fy, err := hdl(y)
		if err != nil {
			return out(nt, pbt.Failf("verilog-differs", "HDL generation works for x and fails for load(save(x)): %v\nsaved: %s", err, j1), "")
		}
		if d := diffFiles(fx, fy); d != "" {
			// a generator that is not a function of the machine is not this property's business
			if fx2, err := hdl(x); err != nil || diffFiles(fx, fx2) != "" {
				labels["hdl-nondeterministic"] = true
				return out(false, nil, "hdl-nondeterministic")
			}
			return out(nt, pbt.Failf("verilog-differs", "Verilog of load(save(x)) differs: %s\nsaved: %s", d, j1), "")
		}
		labels[fmt.Sprintf("hdl-files:%d", min(len(fx)/4*4, 16))] = true
		// both sides went through the same calls: the caches agree as well
		if ds := compare(x.live(), y.live(), !c.Fresh, nil); len(ds) > 0 {
			return out(nt, pbt.Failf("cache-differs:"+lastField(ds[0].Path), "after Write_verilog on both sides: %s", firstDiff(ds)), "")
		}
		// `bondmachine -create-verilog` saves the machine AFTER Write_verilog has written its caches
		// and the derived constraint strings into the domains (cmd/bondmachine/bondmachine.go:719 then :1347)
		j3, err := save(x)
		if err != nil {
			return out(nt, pbt.Failf("save-error", "save after Write_verilog: %v", err), "")
		}
		y3, err := load(j3, single)
		if err != nil {
			return out(nt, pbt.Failf("load-error", "load after Write_verilog: %v", err), "")
		}
		if ds := compare(x.live(), y3.live(), !c.Fresh, isCache); len(ds) > 0 {
			return out(nt, pbt.Failf("lost-field:"+lastField(ds[0].Path), "machine saved after Write_verilog: %s\nsaved: %s", firstDiff(ds), j3), "")
		}
		fy3, err := hdl(y3)
		if err != nil {
			return out(nt, pbt.Failf("verilog-differs", "HDL generation fails for the machine saved after Write_verilog: %v", err), "")
		}
		if d := diffFiles(fx, fy3); d != "" {
			return out(nt, pbt.Failf("verilog-differs", "machine saved after Write_verilog: %s\nsaved: %s", d, j3), "")
		}
	}

	// ---- a perturbed field survives (rebuilt copy; registry as after a fresh build)
	resetRegistry()
	xp, err := Build(c)
	if err != nil {
		return out(nt, pbt.Failf("impure-build", "second Build of the same case fails: %v", err), "")
	}
	if jp, _ := save(xp); !bytes.Equal(jp, j1) {
		return out(nt, pbt.Failf("impure-build", "two builds of the same case save differently:\n%s\n%s", j1, jp), "")
	}
	ls := leavesOf(xp.live())
	for k := 0; k < 4; k++ {
		lf, ok := pickLeaf(ls, c.Perturb+k)
		if !ok {
			break
		}
		if isCache(schemaPathForCache(lf.Path)) {
			labels["perturb-skipped-cache:"+lastField(lf.Path)] = true
			continue
		}
		lf.set()
		labels["perturb:"+perturbLabel(lf.Path)] = true
		jp, err := save(xp)
		if err != nil {
			return out(nt, pbt.Failf("save-error", "saving with %s perturbed: %v", lf.Path, err), "")
		}
		if bytes.Equal(jp, j1) {
			return out(nt, pbt.Failf("lost-field:"+lastField(lf.Path), "changing %s of the live machine does not change the saved JSON: the field is not saved\nsaved: %s", lf.Path, j1), "")
		}
		yp, err := load(jp, single)
		if err != nil {
			return out(nt, pbt.Failf("load-error", "loading with %s perturbed: %v", lf.Path, err), "")
		}
		if ds := compare(xp.live(), yp.live(), true, nil); len(ds) > 0 {
			return out(nt, pbt.Failf("lost-field:"+lastField(ds[0].Path), "with %s perturbed, load(save(x)) differs from x: %s\nsaved: %s", lf.Path, firstDiff(ds), jp), "")
		}
		break
	}
	return out(nt, nil, "")
}

// schemaPathForCache strips dynamic-type annotations and indices so that isCache can match suffixes.
func schemaPathForCache(p string) string { return schema(p) }

// perturbLabel names the perturbed field by the last two components of its schema path.
func perturbLabel(p string) string {
	s := schema(p)
	parts := strings.Split(s, ".")
	if len(parts) > 2 {
		parts = parts[len(parts)-2:]
	}
	return strings.Join(parts, ".")
}

const ruleCommon = "; y = load(save(x)) by the CLI steps, half of the loads with the opcode registry reset to the static set in between (a new process), about 1 in 8 of them in a process without -linear-data-range (machines with a linear-quantizer opcode are then counted as excluded: recorded finding D-C11-1); oracle: no dropped opcode/shared object/bond, reflection walk of the live structs equal (nil slice = empty slice; opcodes by name, type and registered identity), save(y) == save(x) byte-wise, one reflection-found field perturbed per case must change the JSON and survive, Verilog of x and y byte-identical on the HDL-sampled share (all files of a scratch dir), also for the machine saved after Write_verilog (caches CpID/SharedHDLOps/Tag exempt only there); non-trivial = at least one dynamic opcode, shared object/constraint, WordSize != 0 or Threaded > 0"

var Props = []*pbt.Entry{
	pbt.Def("machine",
		"single procbuilder.Machine: Rsize 8..64, R 0..3, N/M 0..3, L 0..4, O 1..5, mode ha/vn/hy, WordSize 0/exact/larger, Threaded 0..3, 1..8 static opcodes (1 in 20: all of them) + one name of each dynamic family with p=1/4 (rsets, call, stack, fixed point, fxp, linear quantizer), 0..6 program words (real assembler lines or raw words of the word width), 0..3 data words, 0..2 shared constraints of any kind; HDL on 1 case in 8"+ruleCommon,
		genCase("machine", 8), prop),
	pbt.Def("bondmachine",
		"random Bondmachine through the public API: 1..3 such domains, 0..4 processors (domains shared or unused), 0..3 inputs/outputs, 0..3 shared objects of every kind with generated parameters attached to 0..3 processors, every sink bonded with p=3/4 to a random source (fan-out, unconnected ports), both endpoint orders; HDL on 1 case in 8"+ruleCommon,
		genCase("bm", 8), prop),
	pbt.Def("handshake",
		"gen.HandshakeMachine (1..3 processors, live dataflow) decorated with unused dynamic opcodes, WordSize, Threaded and 0..2 attached shared objects; additionally the per-tick digests of gen.Runner agree for 50 ticks between x and y under a generated environment; HDL on 1 case in 8"+ruleCommon,
		genCase("hs", 8), prop),
}

// sweep is fed by TestSweep (hand-rolled loop); it is not in Props so that TestProps does not
// sample it again, but it is known to TestReplay.
var sweep = pbt.Def("sweep",
	"bounded-exhaustive: every statically registered opcode and three names of every creatable dynamic family, alone on a machine (R=2,N=2,M=2,L=3,O=3, one raw program word, one data word), in each mode ha/vn/hy, once as a single Machine and once as a 2-processor Bondmachine in which both processors are attached to one shared object of the kind the opcode talks to (rotating through the kinds otherwise), WordSize auto/exact/larger and Threaded 0..2 rotating; HDL regenerated for every case (fxp opcodes excepted)"+ruleCommon,
	func(t *rapid.T) Case { return rapid.SampledFrom(allSweep()).Draw(t, "sweep") }, prop)

var sweepDyn = []string{
	"rsets1", "rsets8", "rsets32", "callo4stk", "calla4stk", "ret4stk", "push4stk", "pull4stk", "pull16my_stack",
	"multfps8f4", "addfps16f8", "divfps32f16", "multfxps8f4", "addfxps16f8", "divfxps32f16", "multlqs8t1", "addlqs16t2", "divlqs32t3",
}

var sweepSO = map[string]string{
	"sharedmem": "sharedmem:4", "channel": "channel:", "barrier": "barrier:5", "lfsr8": "lfsr8:7", "queue": "queue:4", "stack": "stack:4",
	"uart": "uart:9600:4", "kbd": "kbd:4", "vtextmem": "vtextmem:0:1:1:4:4:1:6:1:4:4",
}

func allSweep() []Case {
	names := append(StaticNames(), sweepDyn...)
	kindFor := map[string]string{}
	for k, ops := range soOps {
		for _, o := range ops {
			kindFor[o] = k
		}
	}
	words := []string{"auto", "exact", "larger"}
	var cs []Case
	i := 0
	for _, n := range names {
		for _, mode := range []string{"ha", "vn", "hy"} {
			i++
			k, ok := kindFor[n]
			if !ok {
				k = soKinds[i%len(soKinds)]
			}
			d := Dom{Mode: mode, R: 2, N: 2, M: 2, L: 3, O: 3, Word: words[i%3], WordExtra: 1 + i%5, Threaded: i % 3, Ops: []string{n},
				Prog: []Line{{Seed: uint64(i)}}, Vars: []uint64{uint64(i) * 7}}
			m := Case{Kind: "machine", Rsize: []int{8, 16, 32, 64}[i%4], Doms: []Dom{d}, HDL: true, Fresh: i%2 == 0, Perturb: i}
			m.Doms[0].Constraints = sweepSO[k]
			cs = append(cs, m)
			b := Case{Kind: "bm", Rsize: m.Rsize, Doms: []Dom{d}, Procs: []int{0, 0}, Inputs: 1, Outputs: 1,
				Bonds: [][2]string{{"p0i0", "i0"}, {"p1i0", "p0o0"}, {"p1i1", "p0o0"}, {"o0", "p1o1"}},
				SOs:   []string{sweepSO[k]}, SOLinks: [][2]int{{0, 0}, {1, 0}}, HDL: true, Fresh: i%2 == 1, Perturb: i * 31}
			cs = append(cs, b)
		}
	}
	return cs
}

// PropsKnown: sub-campaign whose only job is to confirm the recorded finding D-C11-1 (expected to fail).
var PropsKnown = []*pbt.Entry{
	pbt.Def("load_without_lq_ranges",
		"single Machine as in entry machine with at least one linear-quantizer opcode, saved in a process configured with -linear-data-range and loaded in a fresh one without it: confirms D-C11-1, expected to fail with signature lost-opcode:create-error-discarded (nil Opcode after load, nothing reported)",
		func(t *rapid.T) Case {
			c := genMachine(t, false)
			c.Doms[0].Ops = uniq(sortedCopy(append(c.Doms[0].Ops, genDyn(t, "lqs"))))
			c.NoLQ, c.Fresh = true, true
			return c
		}, propKnown),
}

func sortedCopy(xs []string) []string {
	r := append([]string(nil), xs...)
	sort.Strings(r)
	return r
}

func TestProps(t *testing.T) { pbt.RunAll(t, "C11", Props) }

// TestKnown confirms the recorded finding.
func TestKnown(t *testing.T) { pbt.RunAll(t, "C11", PropsKnown) }

func TestReplay(t *testing.T) {
	pbt.ReplayAll(t, "C11", append(append(append([]*pbt.Entry(nil), Props...), sweep), PropsKnown...))
}

// TestSweep enumerates every opcode once per mode and machine kind (no rapid, no sharding needed).
func TestSweep(t *testing.T) {
	pbt.RunAll(t, "C11", nil) // sets the property id and registers the stats flush
	cs := allSweep()
	bad := 0
	for _, c := range cs {
		c := c
		out := pbt.Guard(func() pbt.Outcome { return prop(c) })
		pbt.Observe(sweep, c, out)
		if out.Excluded != "" {
			t.Errorf("sweep case excluded (%s): %v %v", out.Excluded, out.Labels, c.Doms[0].Ops)
		}
		if out.Fail != nil {
			bad++
			path := pbt.WriteFail(fmt.Sprintf("sweep_%d", bad), c, out.Fail)
			t.Errorf("FAIL sweep: %s (sig=%q) replay=%s", out.Fail.Msg, out.Fail.Sig, path)
		}
	}
	pbt.Extra("sweep", "enumerated", len(cs))
	t.Logf("sweep enumerated: %d, failures: %d", len(cs), bad)
}

// TestReplayOutcomes prints the outcome of every replay file (debugging aid: go test -run TestReplayOutcomes -v).
func TestReplayOutcomes(t *testing.T) {
	dir := os.Getenv("VERIF_REPLAY_DIR")
	if dir == "" {
		t.Skip("VERIF_REPLAY_DIR not set")
	}
	files, _ := filepath.Glob(filepath.Join(dir, "*.json"))
	more, _ := filepath.Glob(filepath.Join(dir, "*", "*.json"))
	for _, p := range append(files, more...) {
		b, _ := os.ReadFile(p)
		var rf pbt.ReplayFile
		var c Case
		if json.Unmarshal(b, &rf) != nil || json.Unmarshal(rf.Case, &c) != nil {
			t.Errorf("%s: not a C11 replay file", p)
			continue
		}
		out := pbt.Guard(func() pbt.Outcome { return prop(c) })
		msg := ""
		if out.Fail != nil {
			msg = out.Fail.Sig + ": " + strings.SplitN(out.Fail.Msg, "\n", 2)[0]
		}
		t.Logf("%s: nontrivial=%v excluded=%q fail=%q labels=%v", filepath.Base(p), out.NonTrivial, out.Excluded, msg, out.Labels)
	}
}
