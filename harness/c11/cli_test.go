// cli_edit — the save/load path of the real `bondmachine` command line.
// A generated machine is written to a file in a private scratch directory, then 1..6 generated
// invocations `bondmachine -bondmachine-file f <edit>` rewrite it (every invocation loads the file and
// saves it again, cmd/bondmachine/bondmachine.go:310-329 and :1343-1350). After every invocation the
// file must be exactly one JSON value, load with the CLI sequence, and equal - reflection walk and
// bytes - the machine obtained by applying the same edit in memory through the public API.
package c11

import (
	"bytes"
	"context"
	"encoding/json"
	"fmt"
	"os"
	"os/exec"
	"path/filepath"
	"sort"
	"strconv"
	"strings"
	"sync"
	"time"

	"github.com/BondMachineHQ/BondMachine/pkg/bondmachine"
	"pgregory.net/rapid"
	"verifharness/pbt"
)

// Edit is one invocation of the tool.
type Edit struct {
	Kind string // add_inputs del_inputs add_outputs del_outputs add_bond del_bonds add_processor add_so connect add_domain del_domains list
	N    int    // add_inputs/add_outputs: how many; add_processor: domain id
	IDs  []int  // del_*: ids as typed (duplicates and ids beyond the count are ignored by the tool)
	A, B string // add_bond: endpoints; connect: processor id, shared object id
	SO   string // add_so
	Dom  *Dom   // add_domain: the machine whose JSON file is added
	Dom2 *Dom   `json:",omitempty"` // add_domain: a second file in the same -add-domains list
	Flag string // list: the listing flag (without dash)
}

type CLICase struct {
	Empty bool // no file to start with: the first invocation creates the machine (-register-size)
	M     Case // the machine written to the file otherwise (Kind "bm" or "hs")
	Edits []Edit
}

// ---------------------------------------------------------------------------
// the tool

var (
	toolOnce sync.Once
	toolPath string
	toolErr  error
)

// bondmachineTool: $VERIF_TOOLS/bondmachine (built by checkd from the tree under test with -tags verif);
// for a bare `go test ./c11` it is built once from $VERIF_REPO or /repo.
func bondmachineTool() (string, error) {
	toolOnce.Do(func() {
		if d := os.Getenv("VERIF_TOOLS"); d != "" {
			p := filepath.Join(d, "bondmachine")
			if _, err := os.Stat(p); err == nil {
				toolPath = p
				return
			}
			toolErr = fmt.Errorf("no bondmachine binary in $VERIF_TOOLS (%s)", d)
			return
		}
		repo := os.Getenv("VERIF_REPO")
		if repo == "" {
			repo = "/repo"
		}
		dir, err := os.MkdirTemp("", "c11-tools-")
		if err != nil {
			toolErr = err
			return
		}
		ctx, cancel := context.WithTimeout(context.Background(), 5*time.Minute)
		defer cancel()
		cmd := exec.CommandContext(ctx, "go", "build", "-tags", "verif", "-o", dir+"/", "./cmd/bondmachine")
		cmd.Dir = repo
		cmd.Env = append(os.Environ(), "GOFLAGS=-mod=mod", "GOPROXY=off", "GOSUMDB=off", "GOTOOLCHAIN=local")
		if b, err := cmd.CombinedOutput(); err != nil {
			toolErr = fmt.Errorf("building bondmachine: %v\n%s", err, b)
			return
		}
		toolPath = filepath.Join(dir, "bondmachine")
	})
	return toolPath, toolErr
}

const cliTimeout = 90 * time.Second

// runTool runs one invocation in dir; every machine file is given the linear-quantizer ranges this
// process is configured with (LQRanges), the way a user of such opcodes has to.
func runTool(tool, dir string, args ...string) (exit int, output string, err error) {
	ctx, cancel := context.WithTimeout(context.Background(), cliTimeout)
	defer cancel()
	full := append([]string{"-bondmachine-file", "bm.json", "-linear-data-range", "1,lq1.txt,2,lq2.txt,3,lq3.txt"}, args...)
	cmd := exec.CommandContext(ctx, tool, full...)
	cmd.Dir = dir
	var buf bytes.Buffer
	cmd.Stdout, cmd.Stderr = &buf, &buf
	e := cmd.Run()
	if ctx.Err() != nil {
		return -1, buf.String(), fmt.Errorf("timeout after %v", cliTimeout)
	}
	if e != nil {
		if ee, ok := e.(*exec.ExitError); ok {
			return ee.ExitCode(), buf.String(), nil
		}
		return -1, buf.String(), e
	}
	return 0, buf.String(), nil
}

// ---------------------------------------------------------------------------
// generator (a light model of the counts keeps most selectors meaningful)

type light struct {
	inputs, outputs int
	doms            []Dom // N and M matter
	procs           []int
	sos             int
}

func (l *light) sinks() []string {
	var r []string
	for i := 0; i < l.outputs; i++ {
		r = append(r, fmt.Sprintf("o%d", i))
	}
	for p, d := range l.procs {
		for k := 0; k < l.doms[d].N; k++ {
			r = append(r, fmt.Sprintf("p%di%d", p, k))
		}
	}
	return r
}

func (l *light) sources() []string {
	var r []string
	for i := 0; i < l.inputs; i++ {
		r = append(r, fmt.Sprintf("i%d", i))
	}
	for p, d := range l.procs {
		for k := 0; k < l.doms[d].M; k++ {
			r = append(r, fmt.Sprintf("p%do%d", p, k))
		}
	}
	return r
}

func (l *light) nlinks() int { return len(l.sinks()) }

var listFlags = []string{"list-inputs", "list-outputs", "list-bonds", "list-processors", "list-domains", "enum-bonds", "enum-processors",
	"list-internal-inputs", "list-internal-outputs", "list-shared-objects", "list-processor-shared-object-links", "emit-dot", "specs"}

// (-show-program-disassembled / -show-program-alias decode the ROM words: the generated machines also hold raw words
// that no assembler produced, on which they panic — out of this entry's domain)

func genIDs(t *rapid.T, count int) []int {
	var ids []int
	for i, n := 0, rapid.IntRange(1, 3).Draw(t, "nids"); i < n; i++ {
		if count > 0 && rapid.IntRange(0, 3).Draw(t, "valid") != 3 {
			ids = append(ids, rapid.IntRange(0, count-1).Draw(t, "id"))
		} else {
			ids = append(ids, count+rapid.IntRange(0, 1).Draw(t, "beyond")) // beyond the end: ignored by the tool
		}
	}
	return ids
}

func genEdit(t *rapid.T, l *light) Edit {
	kinds := []string{"add_inputs", "del_inputs", "del_inputs", "add_outputs", "del_outputs", "del_outputs", "add_bond", "del_bonds", "add_processor",
		"add_so", "connect", "add_domain", "del_domains", "list"}
	switch k := rapid.SampledFrom(kinds).Draw(t, "edit"); k {
	case "add_inputs":
		n := rapid.IntRange(1, 3).Draw(t, "n")
		l.inputs += n
		return Edit{Kind: k, N: n}
	case "add_outputs":
		n := rapid.IntRange(1, 3).Draw(t, "n")
		l.outputs += n
		return Edit{Kind: k, N: n}
	case "del_inputs":
		ids := genIDs(t, l.inputs)
		seen := map[int]bool{}
		for _, id := range ids {
			if id < l.inputs && !seen[id] {
				seen[id] = true
			}
		}
		l.inputs -= len(seen)
		return Edit{Kind: k, IDs: ids}
	case "del_outputs":
		ids := genIDs(t, l.outputs)
		seen := map[int]bool{}
		for _, id := range ids {
			if id < l.outputs && !seen[id] {
				seen[id] = true
			}
		}
		l.outputs -= len(seen)
		return Edit{Kind: k, IDs: ids}
	case "add_bond":
		si, so := l.sinks(), l.sources()
		if len(si) == 0 || len(so) == 0 {
			return Edit{Kind: "list", Flag: "list-bonds"}
		}
		a, b := rapid.SampledFrom(si).Draw(t, "sink"), rapid.SampledFrom(so).Draw(t, "source")
		if rapid.Bool().Draw(t, "swap") {
			a, b = b, a
		}
		return Edit{Kind: k, A: a, B: b}
	case "del_bonds":
		return Edit{Kind: k, IDs: genIDs(t, l.nlinks())}
	case "add_processor":
		d := rapid.IntRange(0, len(l.doms)).Draw(t, "dom") // len(doms): no such domain, the tool refuses
		if d < len(l.doms) {
			l.procs = append(l.procs, d)
		}
		return Edit{Kind: k, N: d}
	case "add_so":
		l.sos++
		return Edit{Kind: k, SO: genSO(t, len(l.procs))}
	case "connect":
		if l.sos == 0 {
			return Edit{Kind: "list", Flag: "list-shared-objects"}
		}
		return Edit{Kind: k, A: fmt.Sprint(rapid.IntRange(0, len(l.procs)).Draw(t, "proc")), B: fmt.Sprint(rapid.IntRange(0, l.sos-1).Draw(t, "so"))}
	case "add_domain":
		d := genDom(t, nil, false)
		l.doms = append(l.doms, d)
		e := Edit{Kind: k, Dom: &d}
		if rapid.IntRange(0, 2).Draw(t, "domlist") == 0 {
			d2 := genDom(t, nil, false)
			l.doms = append(l.doms, d2)
			e.Dom2 = &d2
		}
		return e
	case "del_domains":
		// the tool does not renumber the processors (its TODO): only a trailing domain no processor uses goes
		last := len(l.doms) - 1
		used := false
		for _, d := range l.procs {
			if d == last {
				used = true
			}
		}
		if last < 0 || used {
			return Edit{Kind: k, IDs: []int{len(l.doms) + rapid.IntRange(0, 1).Draw(t, "beyond")}} // ignored with a message
		}
		l.doms = l.doms[:last]
		return Edit{Kind: k, IDs: []int{last}}
	}
	if rapid.IntRange(0, 3).Draw(t, "specs") == 0 {
		return Edit{Kind: "list", Flag: "specs"} // the one report that walks the opcode lists and the programs
	}
	return Edit{Kind: "list", Flag: rapid.SampledFrom(listFlags).Draw(t, "flag")}
}

func genCLI(t *rapid.T) CLICase {
	var c CLICase
	l := &light{}
	if rapid.IntRange(0, 5).Draw(t, "empty") == 5 {
		c.Empty = true
		c.M = Case{Kind: "bm", Rsize: genRsize(t)}
	} else {
		if rapid.IntRange(0, 3).Draw(t, "hs") == 3 {
			c.M = genHS(t, false)
		} else {
			c.M = genBM(t, false)
		}
		l.inputs, l.outputs, l.doms, l.procs, l.sos = c.M.Inputs, c.M.Outputs, append([]Dom(nil), c.M.Doms...), append([]int(nil), c.M.Procs...), len(c.M.SOs)
	}
	for i, n := 0, rapid.IntRange(1, 6).Draw(t, "nedits"); i < n; i++ {
		c.Edits = append(c.Edits, genEdit(t, l))
	}
	return c
}

// ---------------------------------------------------------------------------
// the same edit in memory (the argument handling of main() included: cmd/bondmachine/bondmachine.go:729-906)

func intsArg(ids []int) string {
	var s []string
	for _, i := range ids {
		s = append(s, strconv.Itoa(i))
	}
	return strings.Join(s, ",")
}

// distinctBelow mirrors main(): duplicates and ids beyond the count are dropped, the rest is sorted.
func distinctBelow(ids []int, count int) []int {
	var r []int
	for _, v := range ids {
		dup := false
		for _, x := range r {
			if x == v {
				dup = true
			}
		}
		if !dup && v < count {
			r = append(r, v)
		}
	}
	sort.Ints(r)
	return r
}

// apply returns the arguments of the invocation and performs the edit on the in-memory machine;
// refuse = the tool is expected to stop with an error before saving.
func apply(bm *bondmachine.Bondmachine, e Edit, dir string, step int) (args []string, refuse bool, err error) {
	switch e.Kind {
	case "add_inputs":
		for i := 0; i < e.N; i++ {
			bm.Add_input()
		}
		return []string{"-add-inputs", strconv.Itoa(e.N)}, false, nil
	case "add_outputs":
		for i := 0; i < e.N; i++ {
			bm.Add_output()
		}
		return []string{"-add-outputs", strconv.Itoa(e.N)}, false, nil
	case "del_inputs":
		del := distinctBelow(e.IDs, bm.Inputs)
		for i := len(del) - 1; i >= 0; i-- {
			bm.Del_input(del[i])
		}
		return []string{"-del-inputs", intsArg(e.IDs)}, false, nil
	case "del_outputs":
		del := distinctBelow(e.IDs, bm.Outputs)
		for i := len(del) - 1; i >= 0; i-- {
			bm.Del_output(del[i])
		}
		return []string{"-del-outputs", intsArg(e.IDs)}, false, nil
	case "add_bond":
		bm.Add_bond([]string{e.A, e.B})
		return []string{"-add-bond", e.A + "," + e.B}, false, nil
	case "del_bonds":
		for _, id := range e.IDs {
			if id < len(bm.Links) {
				bm.Del_bond(id)
			}
		}
		return []string{"-del-bonds", intsArg(e.IDs)}, false, nil
	case "add_processor":
		if _, err := bm.Add_processor(e.N); err != nil {
			refuse = true // main(): check(err) panics
		}
		return []string{"-add-processor", strconv.Itoa(e.N)}, refuse, nil
	case "add_so":
		bm.Add_shared_objects([]string{e.SO})
		return []string{"-add-shared-objects", e.SO}, false, nil
	case "connect":
		bm.Connect_processor_shared_object([]string{e.A, e.B})
		return []string{"-connect-processor-shared-object", e.A + "," + e.B}, false, nil
	case "add_domain":
		var names []string
		for k, d := range []*Dom{e.Dom, e.Dom2} {
			if d == nil {
				continue
			}
			b, err := Build(Case{Kind: "machine", Rsize: int(bm.Rsize), Doms: []Dom{*d}})
			if err != nil {
				return nil, false, err
			}
			raw, err := save(b)
			if err != nil {
				return nil, false, err
			}
			name := fmt.Sprintf("dom%d_%d.json", step, k)
			if err := os.WriteFile(filepath.Join(dir, name), raw, 0o644); err != nil {
				return nil, false, err
			}
			m, err := load(raw, true) // main(): Unmarshal into Machine_json, Dejsoner, append
			if err != nil {
				return nil, false, err
			}
			bm.Domains = append(bm.Domains, m.Mach)
			names = append(names, name)
		}
		return []string{"-add-domains", strings.Join(names, ",")}, false, nil
	case "del_domains":
		for _, id := range e.IDs {
			if id < len(bm.Domains) {
				bm.Domains = append(bm.Domains[:id:id], bm.Domains[id+1:]...)
			}
		}
		return []string{"-del-domains", intsArg(e.IDs)}, false, nil
	case "list":
		if e.Flag == "specs" {
			// -specs disassembles every ROM: the generated machines also hold raw words that no assembler
			// produced (an opcode field beyond the opcode list makes the disassembler panic): only asked
			// of machines whose words all decode
			for _, d := range bm.Domains {
				ok := func() (ok bool) {
					defer func() {
						if recover() != nil {
							ok = false
						}
					}()
					_, err := d.Disassembler()
					return err == nil
				}()
				if !ok {
					return []string{"-list-domains"}, false, nil
				}
			}
		}
		return []string{"-" + e.Flag}, false, nil
	}
	return nil, false, fmt.Errorf("unknown edit %q", e.Kind)
}

// oneJSONValue: the bytes are exactly one JSON value (white space around it allowed).
func oneJSONValue(raw []byte) error {
	dec := json.NewDecoder(bytes.NewReader(raw))
	var v any
	if err := dec.Decode(&v); err != nil {
		return err
	}
	tail := bytes.TrimSpace(raw[dec.InputOffset():])
	if len(tail) != 0 {
		return fmt.Errorf("%d bytes follow the JSON value: %q", len(tail), clip(string(tail), 80))
	}
	return nil
}

func clip(s string, n int) string {
	if len(s) > n {
		return s[:n] + "..."
	}
	return s
}

// ---------------------------------------------------------------------------
// property

func propCLI(c CLICase) pbt.Outcome {
	resetRegistry()
	configureLQ(true)
	defer resetRegistry()
	labels := map[string]bool{}
	out := func(nt bool, f *pbt.Failure, excluded string) pbt.Outcome {
		var ls []string
		for l := range labels {
			ls = append(ls, l)
		}
		sort.Strings(ls)
		return pbt.Outcome{NonTrivial: nt, Labels: ls, Fail: f, Excluded: excluded}
	}
	tool, err := bondmachineTool()
	if err != nil {
		return out(false, pbt.Failf("inconclusive:no-tool", "%v", err), "")
	}
	dir, err := os.MkdirTemp(os.Getenv("VERIF_WORK"), "c11-cli-")
	if err != nil {
		return out(false, pbt.Failf("inconclusive:scratch", "%v", err), "")
	}
	defer os.RemoveAll(dir)
	for k, v := range LQRanges {
		if err := os.WriteFile(filepath.Join(dir, fmt.Sprintf("lq%d.txt", k)), []byte(fmt.Sprintf("%v\n", v)), 0o644); err != nil {
			return out(false, pbt.Failf("inconclusive:scratch", "%v", err), "")
		}
	}
	file := filepath.Join(dir, "bm.json")

	// the original: written the way basm and bondmachine write it, then loaded the way they load it
	var ref *bondmachine.Bondmachine
	var prev []byte
	if c.Empty {
		labels["start:no-file"] = true
		ref = new(bondmachine.Bondmachine) // main(): new machine with -register-size
		ref.Rsize = uint8(c.M.Rsize)
		ref.Init()
	} else {
		labels["start:"+c.M.Kind] = true
		x, err := Build(c.M)
		if err != nil {
			labels["build-error:"+panicClass(err)] = true
			return out(false, nil, "build-error")
		}
		prev, err = save(x)
		if err != nil {
			return out(false, pbt.Failf("save-error", "%v", err), "")
		}
		if err := os.WriteFile(file, prev, 0o644); err != nil {
			return out(false, pbt.Failf("inconclusive:scratch", "%v", err), "")
		}
		y, err := safeLoad(prev, false)
		if err != nil {
			return out(false, pbt.Failf("load-error", "loading the generated machine: %v", err), "")
		}
		ref = y.BM
	}

	nt := false
	for step, e := range c.Edits {
		kind := e.Kind
		if kind == "list" {
			kind = "list:" + e.Flag
		}
		labels["edit:"+kind] = true
		desc := fmt.Sprintf("step %d (%s)", step, kind)
		args, refuse, err := apply(ref, e, dir, step)
		if err != nil {
			labels["build-error:"+panicClass(err)] = true
			return out(false, nil, "build-error")
		}
		if c.Empty {
			args = append([]string{"-register-size", strconv.Itoa(c.M.Rsize)}, args...)
		}
		desc += " `bondmachine -bondmachine-file bm.json " + strings.Join(args, " ") + "`"
		exit, output, err := runTool(tool, dir, args...)
		if err != nil {
			// a deadline hit is "inconclusive", never a violation: on a loaded machine a 0.3 s invocation can be
			// starved past any wall-clock limit; termination of this tool is not part of C11
			_ = output
			return out(false, nil, "tool-timeout")
		}
		now, rerr := os.ReadFile(file)
		if refuse {
			labels["cli-refused"] = true
			if exit == 0 {
				return out(nt, pbt.Failf("cli-accepts", "%s: the API refuses the edit, the tool exits 0", desc), "")
			}
			// a refused edit must leave the file as it was
			if (rerr != nil) != (prev == nil) || !bytes.Equal(now, prev) {
				return out(nt, pbt.Failf("cli-refusal-damages-file", "%s: the tool stops with an error and the file changed from %d to %d bytes", desc, len(prev), len(now)), "")
			}
			// the in-memory machine is unchanged as well (Add_processor refuses before touching anything)
			continue
		}
		if exit != 0 {
			return out(nt, pbt.Failf("cli-crash", "%s: exit %d\n%s\nfile before: %s", desc, exit, clip(output, 900), clip(string(prev), 1500)), "")
		}
		if rerr != nil {
			return out(nt, pbt.Failf("cli-no-file", "%s: %v", desc, rerr), "")
		}
		want, err := save(&Built{BM: ref})
		if err != nil {
			return out(nt, pbt.Failf("save-error", "%s: %v", desc, err), "")
		}
		switch { // by the length the file has to have (a tool that does not truncate leaves the old length)
		case prev == nil:
			labels["file-created"] = true
		case len(want) < len(prev):
			labels["file-shrinks"] = true
			nt = true
		case len(want) > len(prev):
			labels["file-grows"] = true
		default:
			labels["file-same-length"] = true
		}
		where := fmt.Sprintf("%s\nfile before (%d bytes): %s\nfile after (%d bytes): %s", desc, len(prev), clip(string(prev), 1200), len(now), clip(string(now), 1200))
		if err := oneJSONValue(now); err != nil {
			return out(nt, pbt.Failf("cli-file-not-json", "the file is not one JSON value: %v\n%s", err, where), "")
		}
		if e.Kind == "list" && prev != nil && !bytes.Equal(now, prev) {
			return out(nt, pbt.Failf("cli-listing-changes-file", "a listing invocation changed the bytes of the file\n%s", where), "")
		}
		y, err := safeLoad(now, false)
		if err != nil {
			return out(nt, pbt.Failf("cli-file-not-loadable", "%v\n%s", err, where), "")
		}
		if f := checkNoDrop(&Built{BM: ref}, y); f != nil {
			f.Msg = "edited in memory vs. edited by the tool: " + f.Msg + "\n" + where
			return out(nt, f, "")
		}
		if ds := compare(ref, y.BM, true, nil); len(ds) > 0 {
			return out(nt, pbt.Failf("cli-edit-differs:"+lastField(ds[0].Path), "the machine edited by the tool differs from the machine edited in memory: %s\n%s", firstDiff(ds), where), "")
		}
		if !bytes.Equal(want, now) {
			return out(nt, pbt.Failf("cli-bytes-differ", "the file is not save() of the machine edited in memory:\n%s\nexpected: %s", where, clip(string(want), 1200)), "")
		}
		if again, err := save(y); err != nil || !bytes.Equal(again, now) {
			return out(nt, pbt.Failf("resave-differs", "save(load(file)) differs from the file (%v)\n%s", err, where), "")
		}
		prev = now
	}
	labels[fmt.Sprintf("edits:%d", len(c.Edits))] = true
	return out(nt, nil, "")
}

var cliEdit = pbt.Def("cli_edit",
	"the real `bondmachine` binary ($VERIF_TOOLS): a machine of entry bondmachine (3 in 4) or handshake (1 in 4) written to a file in a private scratch directory, or no file at all (1 in 6: the first invocation creates the machine), then 1..6 invocations `bondmachine -bondmachine-file f -linear-data-range ... <edit>` each under a 20 s timeout: -add-inputs/-add-outputs 1..3, -del-inputs/-del-outputs (1..3 ids, duplicates and ids beyond the count included), -add-bond (both endpoint orders), -del-bonds, -add-processor (also of a non-existent domain: the tool must stop and leave the file alone), -add-shared-objects (every kind), -connect-processor-shared-object, -add-domains (one generated machine file, or a list of two), -del-domains (trailing unused domain, or an id beyond the count) and the 12 listing flags; after every invocation: exit 0, the file is exactly one JSON value, loads by Unmarshal+Dejsoner+Init, has no dropped opcode/shared object/bond, is equal on the reflection walk to the loaded original edited through the public API with main()'s argument handling, equals its save() byte for byte, save(load(file)) == file; a listing leaves the bytes identical; non-trivial = at least one invocation has to leave an existing file shorter than it found it",
	genCLI, propCLI)

func init() { Props = append(Props, cliEdit) }
