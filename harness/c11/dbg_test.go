package c11

import (
	"fmt"
	"testing"

	"pgregory.net/rapid"
)

func TestDbgHDL(t *testing.T) {
	seen := map[string]int{}
	for _, k := range []string{"machine", "bm", "hs"} {
		g := rapid.Custom(genCase(k, 1))
		for i := 0; i < 400; i++ {
			c := g.Example(i)
			resetRegistry()
			b, err := Build(c)
			if err != nil {
				continue
			}
			if needsExternalFiles(b) {
				continue
			}
			if _, err := hdl(b); err != nil {
				cl := panicClass(err)
				seen[cl]++
				if seen[cl] <= 2 {
					j, _ := save(b)
					fmt.Printf("PANIC %s: %v\n  %s\n", k, firstLineOf2(err.Error()), j)
				}
			}
		}
	}
	fmt.Println(seen)
}

func firstLineOf2(s string) string { return s }
