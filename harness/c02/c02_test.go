// C02 — a whole BondMachine behaves the same in generated HDL as in simulation; the top-level
// netlist connects exactly the endpoints named by the bonds.
package c02

import (
	"fmt"
	"sort"
	"strings"
	"testing"

	"github.com/BondMachineHQ/BondMachine/pkg/bondmachine"
	"github.com/BondMachineHQ/BondMachine/pkg/simbox"
	"pgregory.net/rapid"
	"verifharness/gen"
	"verifharness/pbt"
	"verifharness/vlog"
)

type Case struct {
	Spec   gen.BMSpec
	Env    gen.Env
	Ticks  int
	Strict bool
	Delays map[string]int `json:",omitempty"` // simulator only: opcode -> extra ticks (single-valued distribution)
	// Commented: Config.CommentedVerilog (bondmachine -comment-verilog): comments only, the same hardware
	Commented bool `json:",omitempty"`
}

func genCase(t *rapid.T) Case {
	var c Case
	nofan := rapid.IntRange(0, 2).Draw(t, "nofanout") == 0
	// port counts: mostly 1-2 per processor; sometimes up to 5 so that the input and the output field of
	// the IO opcodes have different widths (1, 2, 3 bits) in every combination
	ports := []int{2, 2, 3, 5}
	maxIn, maxOut := rapid.SampledFrom(ports).Draw(t, "maxin"), rapid.SampledFrom(ports).Draw(t, "maxout")
	c.Spec = gen.HandshakeMachine(t, gen.HSOptions{MaxProcs: 4, MaxPad: 3, MaxIn: maxIn, MaxOut: maxOut, NoFanout: nofan, EqualLoops: rapid.Bool().Draw(t, "equalloops"), Replicate: true, RichALU: rapid.Bool().Draw(t, "richalu"), RAM: true, Thru: true, UnusedIO: true})
	c.Commented = rapid.IntRange(0, 3).Draw(t, "commented") == 0
	for i := 0; i < c.Spec.Inputs; i++ {
		n := rapid.IntRange(0, 20).Draw(t, "nin")
		var st []uint64
		for k := 0; k < n; k++ {
			st = append(st, rapid.Uint64().Draw(t, "v")>>uint(64-c.Spec.Rsize))
		}
		c.Env.In = append(c.Env.In, st)
		c.Env.InGap = append(c.Env.InGap, rapid.IntRange(0, 4).Draw(t, "gap"))
	}
	for i := 0; i < c.Spec.Outputs; i++ {
		c.Env.OutStall = append(c.Env.OutStall, rapid.IntRange(0, 4).Draw(t, "stall"))
	}
	c.Ticks = rapid.IntRange(60, 400).Draw(t, "ticks")
	if rapid.Bool().Draw(t, "delays") {
		// "regardless of how many clock cycles either takes": the simulator's per-opcode delay model
		// stretches instructions; the delivered streams may not change
		c.Delays = map[string]int{}
		ops := map[string]bool{}
		for _, ps := range c.Spec.Procs {
			for _, l := range ps.Prog {
				ops[strings.Fields(l)[0]] = true
			}
		}
		names := make([]string, 0, len(ops))
		for o := range ops {
			names = append(names, o)
		}
		sort.Strings(names)
		if rapid.Bool().Draw(t, "onelong") {
			// one opcode stalls its processor for longer than a neighbour's whole loop
			c.Delays[rapid.SampledFrom(names).Draw(t, "longop")] = rapid.IntRange(6, 16).Draw(t, "delay")
		} else {
			for _, o := range names {
				if rapid.IntRange(0, 2).Draw(t, "hasdelay") == 0 {
					c.Delays[o] = rapid.IntRange(1, 6).Draw(t, "delay")
				}
			}
		}
		c.Ticks *= 2
	}
	return c
}

// ---------------------------------------------------------------------------
// netlist check on the AST of the top module

type triple struct{ data, valid, recv string }

func identName(e vlog.Expr) string {
	if id, ok := e.(*vlog.Ident); ok && len(id.Hier) == 0 {
		return id.Name
	}
	return ""
}

// conjuncts flattens a & b & c; returns nil if the expression is not a pure conjunction of identifiers (and constant ones).
func conjuncts(e vlog.Expr) ([]string, bool) {
	switch x := e.(type) {
	case *vlog.Ident:
		return []string{x.Name}, true
	case *vlog.NumberLit:
		if x.Val != nil && x.Val.Sign() != 0 {
			return nil, true // constant 1: neutral
		}
		return nil, false
	case *vlog.BinaryExpr:
		if x.Op != "&" && x.Op != "&&" {
			return nil, false
		}
		l, ok1 := conjuncts(x.L)
		r, ok2 := conjuncts(x.R)
		return append(l, r...), ok1 && ok2
	}
	return nil, false
}

func netlist(files map[string]string, spec gen.BMSpec, wantBonds []string) *pbt.Failure {
	d, diags := vlog.ParseDesignOpts(files, vlog.ParseOpts{HonorTranslateOff: true})
	for _, dg := range diags {
		if dg.Class == vlog.ClassSyntax {
			return pbt.Failf("hdl-syntax", "%v", dg)
		}
	}
	top := d.Module("bondmachine")
	if top == nil {
		return pbt.Failf("no-top", "module bondmachine missing")
	}
	alias := map[string]string{} // driven net -> driver net (assign A = B)
	assignRHS := map[string]vlog.Expr{}
	insts := map[string]*vlog.InstItem{}
	for _, it := range top.Items {
		switch x := it.(type) {
		case *vlog.AssignItem:
			l := identName(x.LHS)
			if l == "" {
				continue
			}
			assignRHS[l] = x.RHS
			if r := identName(x.RHS); r != "" {
				alias[l] = r
			}
		case *vlog.InstItem:
			insts[x.ModName] = x
		}
	}
	root := func(n string) string {
		for i := 0; i < 100; i++ {
			d, ok := alias[n]
			if !ok {
				return n
			}
			n = d
		}
		return n
	}
	// endpoints as seen by the instances
	sinkNets := map[string]triple{}   // internal input name -> nets
	sourceNets := map[string]triple{} // internal output name -> nets
	for p, ps := range spec.Procs {
		in := insts[fmt.Sprintf("a%d", p)]
		if in == nil {
			return pbt.Failf("netlist", "processor %d is not instantiated in the top module", p)
		}
		if in.Named {
			return pbt.Failf("netlist", "unexpected named connections on a%d", p)
		}
		want := 2 + 3*(ps.N+ps.M)
		if len(in.Conns) != want {
			return pbt.Failf("netlist", "a%d instantiated with %d connections, its port list has %d", p, len(in.Conns), want)
		}
		at := func(i int) string { return identName(in.Conns[i].X) }
		for k := 0; k < ps.N; k++ {
			b := 2 + 3*k
			sinkNets[fmt.Sprintf("p%di%d", p, k)] = triple{at(b), at(b + 1), at(b + 2)}
		}
		for k := 0; k < ps.M; k++ {
			b := 2 + 3*ps.N + 3*k
			sourceNets[fmt.Sprintf("p%do%d", p, k)] = triple{at(b), at(b + 1), at(b + 2)}
		}
	}
	for i := 0; i < spec.Inputs; i++ {
		n := fmt.Sprintf("i%d", i)
		sourceNets[n] = triple{n, n + "_valid", n + "_received"}
	}
	for o := 0; o < spec.Outputs; o++ {
		n := fmt.Sprintf("o%d", o)
		sinkNets[n] = triple{n, n + "_valid", n + "_received"}
	}
	// who drives every sink?
	byData := map[string]string{}
	for name, tr := range sourceNets {
		byData[root(tr.data)] = name
	}
	var got []string
	recvOf := map[string][]string{} // source -> received nets of its sinks
	sinks := make([]string, 0, len(sinkNets))
	for s := range sinkNets {
		sinks = append(sinks, s)
	}
	sort.Strings(sinks)
	for _, s := range sinks {
		tr := sinkNets[s]
		src, ok := byData[root(tr.data)]
		if !ok {
			continue // unconnected sink
		}
		got = append(got, src+","+s)
		// valid must follow the same source
		if root(tr.valid) != root(sourceNets[src].valid) {
			return pbt.Failf("netlist-valid", "%s takes its data from %s but its valid line from net %s (source's valid net is %s)", s, src, root(tr.valid), root(sourceNets[src].valid))
		}
		recvOf[src] = append(recvOf[src], tr.recv)
	}
	sort.Strings(got)
	want := append([]string(nil), wantBonds...)
	sort.Strings(want)
	if strings.Join(got, " ") != strings.Join(want, " ") {
		return pbt.Failf("netlist-bonds", "top-level netlist connects %v, the machine's bonds are %v", got, want)
	}
	// received of every source = conjunction of exactly the received lines of the sinks bonded to it
	for src, wantRecv := range recvOf {
		rn := sourceNets[src].recv
		rhs, ok := assignRHS[rn]
		if !ok {
			return pbt.Failf("netlist-received", "received line %s of %s is not driven by an assign", rn, src)
		}
		ids, pure := conjuncts(rhs)
		if !pure {
			return pbt.Failf("netlist-received", "received line %s of %s is not a conjunction of received lines", rn, src)
		}
		for i := range ids {
			ids[i] = root(ids[i])
		}
		w := append([]string(nil), wantRecv...)
		for i := range w {
			w[i] = root(w[i])
		}
		sort.Strings(ids)
		sort.Strings(w)
		if strings.Join(ids, " ") != strings.Join(w, " ") {
			return pbt.Failf("netlist-received", "received line of %s is the conjunction of %v, the inputs bonded to it have received lines %v", src, ids, w)
		}
	}
	return nil
}

// ---------------------------------------------------------------------------

func prop(c Case) pbt.Outcome {
	bm, err := gen.Build(c.Spec)
	if err != nil {
		return pbt.Outcome{Excluded: "build-error"}
	}
	var wantBonds []string
	for _, b := range bm.List_bonds() {
		wantBonds = append(wantBonds, b)
	}
	conf := new(bondmachine.Config)
	conf.CommentedVerilog = c.Commented
	files, err := gen.RenderBM(bm, conf)
	if err != nil {
		return pbt.Outcome{Fail: pbt.Failf("render", "%v", err)}
	}
	labels := []string{fmt.Sprintf("procs=%d", len(c.Spec.Procs)), fmt.Sprintf("rsize=%d", c.Spec.Rsize)}
	fan := map[string]int{}
	internal := 0
	for _, b := range c.Spec.Bonds {
		fan[b[1]]++
		if strings.HasPrefix(b[0], "p") && strings.HasPrefix(b[1], "p") {
			internal++
		}
	}
	fanout := false
	for _, n := range fan {
		if n > 1 {
			fanout = true
		}
	}
	if fanout {
		labels = append(labels, "fanout")
	}
	if c.Commented {
		labels = append(labels, "commented-verilog")
	}
	for _, ps := range c.Spec.Procs {
		if ps.L > 0 {
			labels = append(labels, "processor-with-ram")
			break
		}
	}
	for _, ps := range c.Spec.Procs {
		if gen.NeededBits(ps.N) != gen.NeededBits(ps.M) && ps.N > 0 {
			labels = append(labels, "in/out-field-widths-differ")
			break
		}
	}
	if f := netlist(files, c.Spec, wantBonds); f != nil {
		return pbt.Outcome{Labels: labels, Fail: f}
	}
	// stream equality
	var delays *simbox.SimDelays
	if len(c.Delays) > 0 {
		delays = simbox.NewSimDelays()
		for op, d := range c.Delays {
			delays.OpcodeDelays[op] = simbox.DelayDistribution{int32(d): 1.0}
		}
		labels = append(labels, "sim-delays")
	}
	sr, err := gen.NewRunner(bm, c.Env, delays)
	if err != nil {
		return pbt.Outcome{Excluded: "sim-init-error"}
	}
	defer sr.Close()
	mon := newSimMonitor(c.Spec)
	for t := 0; t < c.Ticks; t++ {
		mon.before(sr)
		if err := sr.Step(); err != nil {
			return pbt.Outcome{Fail: pbt.Failf("sim-step", "%v", err)}
		}
	}
	hr, err := gen.NewHDLRunner(files, c.Spec, c.Env)
	if err != nil {
		return pbt.Outcome{Labels: labels, Fail: pbt.Failf("hdl-elaborate", "%v", err)}
	}
	hmon := newHDLMonitor(c.Spec)
	for t := 0; t < 4*c.Ticks; t++ {
		hmon.before(hr)
		if err := hr.Step(); err != nil {
			return pbt.Outcome{Fail: pbt.Failf("interp", "%v", err)}
		}
	}
	maxDelivered := 0
	var fail *pbt.Failure
	for o := 0; o < c.Spec.Outputs; o++ {
		a, b := sr.Out[o], hr.Out[o]
		n := len(a)
		if len(b) < n {
			n = len(b)
		}
		if n > maxDelivered {
			maxDelivered = n
		}
		for k := 0; k < n; k++ {
			if a[k] != b[k] {
				fail = pbt.Failf("stream-differs", "external output o%d: simulation delivers %v, generated hardware delivers %v (first difference at position %d)", o, a, b, k)
				break
			}
		}
		// prefix-wise comparison says nothing about a side that delivers nothing at all. The two horizons are
		// not comparable as speeds (an instruction is one tick, or 1+delay ticks, in the simulator and two or
		// more cycles plus the handshake in hardware), so a side found empty against >=3 values is given forty
		// times its horizon before it is called dead: a slow machine catches up, a dead one never does.
		if fail == nil && len(a) >= 3 && len(b) == 0 {
			for t := 0; t < 160*c.Ticks && len(hr.Out[o]) == 0; t++ {
				hmon.before(hr)
				if err := hr.Step(); err != nil {
					return pbt.Outcome{Fail: pbt.Failf("interp", "%v", err)}
				}
			}
			if len(hr.Out[o]) == 0 {
				fail = pbt.Failf("hdl-starved", "external output o%d: simulation delivers %v in %d ticks, the generated hardware delivers nothing in %d cycles", o, a, c.Ticks, 164*c.Ticks)
			}
		}
		if fail == nil && len(b) >= 3 && len(a) == 0 {
			maxDelay := 0
			for _, d := range c.Delays {
				if d > maxDelay {
					maxDelay = d
				}
			}
			budget := 40 * c.Ticks * (1 + maxDelay)
			for t := 0; t < budget && len(sr.Out[o]) == 0; t++ {
				mon.before(sr)
				if err := sr.Step(); err != nil {
					return pbt.Outcome{Fail: pbt.Failf("sim-step", "%v", err)}
				}
			}
			if len(sr.Out[o]) == 0 {
				fail = pbt.Failf("sim-starved", "external output o%d: the generated hardware delivers %v in %d cycles, the simulation delivers nothing in %d ticks", o, b, 4*c.Ticks, c.Ticks+budget)
			}
		}
		if fail != nil {
			break
		}
	}
	mons := append(mon.fired(), hmon.fired()...)
	for _, m := range mons {
		labels = append(labels, "monitor:"+m)
	}
	sort.Strings(labels)
	nt := len(c.Spec.Procs) >= 2 && internal >= 1 && maxDelivered >= 3
	if fail != nil {
		if len(mons) > 0 && !c.Strict {
			// the precondition of a recorded handshake finding (C04: D4, D5; C01: D12) held before the
			// streams parted: counted, not judged
			return pbt.Outcome{Labels: labels, Excluded: "recorded-handshake-finding:" + strings.Join(mons, "+")}
		}
		if len(mons) > 0 {
			fail.Sig = "stream-differs-after:" + strings.Join(mons, "+")
		}
		return pbt.Outcome{Labels: labels, Fail: fail, NonTrivial: nt}
	}
	if maxDelivered < 1 {
		labels = append(labels, "inconclusive-short")
	}
	return pbt.Outcome{NonTrivial: nt, Labels: labels}
}

// ---- monitors of the recorded findings' preconditions

type simMonitor struct {
	spec   gen.BMSpec
	d4, d5 bool
	tick   int
	lastPc []int
	// tick in which processor p last left an r2owa on output k (the recorded D5 mechanism is a second
	// write arriving before the consumers' received flags had the one tick they need to fall)
	lastDone map[[2]int]int
	// sameOffer[p,k]: input k of processor p has been captured and its valid line has not fallen since
	// (the recorded D4 mechanism is a second capture of that same offer)
	sameOffer map[[2]int]bool
}

func newSimMonitor(s gen.BMSpec) *simMonitor {
	return &simMonitor{spec: s, lastPc: make([]int, len(s.Procs)), lastDone: map[[2]int]int{}, sameOffer: map[[2]int]bool{}}
}

func (m *simMonitor) before(r *gen.Runner) {
	m.tick++
	for p, ps := range m.spec.Procs {
		vm := r.VM.Processors[p]
		pc := int(vm.Pc)
		// did the processor leave an r2owa in the previous tick?
		if lp := m.lastPc[p]; lp < len(ps.Prog) && pc != lp {
			if f := strings.Fields(ps.Prog[lp]); f[0] == "r2owa" {
				var k int
				fmt.Sscanf(f[2], "o%d", &k)
				m.lastDone[[2]int{p, k}] = m.tick - 1
			}
		}
		// did it leave an i2rw (capture) in the previous tick? valid lines that fell end the offer
		if lp := m.lastPc[p]; lp < len(ps.Prog) && pc != lp {
			if f := strings.Fields(ps.Prog[lp]); f[0] == "i2rw" {
				var k int
				fmt.Sscanf(f[2], "i%d", &k)
				m.sameOffer[[2]int{p, k}] = true
			}
		}
		for k := range vm.InputsValid {
			if !vm.InputsValid[k] {
				m.sameOffer[[2]int{p, k}] = false
			}
		}
		m.lastPc[p] = pc
		if pc >= len(ps.Prog) || vm.DelayCounter != 0 {
			continue
		}
		f := strings.Fields(ps.Prog[pc])
		switch f[0] {
		case "i2rw":
			var k int
			fmt.Sscanf(f[2], "i%d", &k)
			if vm.InputsRecv[k] && vm.InputsValid[k] && m.sameOffer[[2]int{p, k}] {
				m.d4 = true
			}
		case "r2owa":
			var k int
			fmt.Sscanf(f[2], "o%d", &k)
			if last, ok := m.lastDone[[2]int{p, k}]; ok && !vm.OutputsValid[k] && vm.OutputsRecv[k] && m.tick-last <= 2 {
				m.d5 = true
			}
		}
	}
}

func (m *simMonitor) fired() []string {
	var r []string
	if m.d4 {
		r = append(r, "D4-sim")
	}
	if m.d5 {
		r = append(r, "D5-sim")
	}
	return r
}

type hdlMonitor struct {
	spec      gen.BMSpec
	d4, d12   bool
	lastPc    []int
	sameOffer map[[2]int]bool
}

func newHDLMonitor(s gen.BMSpec) *hdlMonitor {
	return &hdlMonitor{spec: s, lastPc: make([]int, len(s.Procs)), sameOffer: map[[2]int]bool{}}
}

func (m *hdlMonitor) before(r *gen.HDLRunner) {
	for p, ps := range m.spec.Procs {
		base := fmt.Sprintf("a%d_inst.p%d_instance.", p, p)
		pc := int(r.Sim.Get(base + "_pc"))
		if lp := m.lastPc[p]; lp < len(ps.Prog) && pc != lp {
			if f := strings.Fields(ps.Prog[lp]); f[0] == "i2rw" {
				var k int
				fmt.Sscanf(f[2], "i%d", &k)
				m.sameOffer[[2]int{p, k}] = true
			}
		}
		for k := 0; k < ps.N; k++ {
			if r.Sim.Get(fmt.Sprintf("%si%d_valid", base, k)) == 0 {
				m.sameOffer[[2]int{p, k}] = false
			}
		}
		m.lastPc[p] = pc
		if pc >= len(ps.Prog) {
			continue
		}
		f := strings.Fields(ps.Prog[pc])
		switch f[0] {
		case "i2rw":
			// the processor reads whenever valid is high: doing so while its own received flag of the
			// previous read is still up re-reads the same offer (hardware side of D4)
			var k int
			fmt.Sscanf(f[2], "i%d", &k)
			if r.Sim.Get(base+f[2]+"_recv") == 1 && r.Sim.Get(base+f[2]+"_valid") == 1 && m.sameOffer[[2]int{p, k}] {
				m.d4 = true
			}
		case "r2owa":
			// D12: starting an r2owa while valid of the previous write is still up
			if r.Sim.Has(base+"waitsm") && r.Sim.Get(base+"waitsm") == 0 && r.Sim.Get(base+f[2]+"_val") == 1 {
				m.d12 = true
			}
		}
	}
}

func (m *hdlMonitor) fired() []string {
	var r []string
	if m.d4 {
		r = append(r, "D4-hdl")
	}
	if m.d12 {
		r = append(r, "D12-hdl")
	}
	return r
}

const rule = "dataflow-shaped machines of 1..4 processors built through the public editing API (i2rw/r2owa IO, ALU padding, fan-out, mixed external/internal sources), external input streams of 0..20 values, input gaps and output stalls 0..4; (a) the files written by Bondmachine.Write_verilog are executed by the Verilog interpreter under the same protocol-abiding environment as bondmachine.VM and the value sequences accepted on every external output must agree prefix-wise; (b) the AST of the top module must connect exactly the bonds of List_bonds() (data and valid nets) and every source's received line must be the conjunction of exactly the received lines of its sinks; runs in which the precondition monitor of a recorded handshake finding fired before the streams parted are counted as excluded; non-trivial = at least 2 processors, an internal bond and at least 3 values compared on some output"

var Props = []*pbt.Entry{pbt.Def("whole_machine", rule, genCase, prop)}

func TestProps(t *testing.T)  { pbt.RunAll(t, "C02", Props) }
func TestReplay(t *testing.T) { pbt.ReplayAll(t, "C02", Props) }
