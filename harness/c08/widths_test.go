package c08

// Entry "widths": a literal with a stated (or notation-implied) width imports to exactly that width, with
// the value it spells and no stray bits or bytes, or is rejected when the value does not fit.

import (
	"fmt"
	"math"
	"math/big"
	"strconv"
	"strings"

	"github.com/BondMachineHQ/BondMachine/pkg/bmnumbers"
	"pgregory.net/rapid"
	"verifharness/pbt"
)

type WCase struct {
	Notation string  // 0u<> 0d<> 0b<> 0x<> 0u 0d plain 0b 0x 0s 0sd 0f 0f<32> 0f<16> 0fp<> 0fxp<> 0lq<>
	Size     int     // the number between < and > (before the dot for 0fp/0fxp/0lq)
	Frac     int     // 0fp/0fxp: f; 0lq: t
	Payload  string  // the text after the prefix
	LQMax    float64 // 0lq<>: the range registered under index t
	Strict   bool
}

func (c WCase) literal() string {
	switch c.Notation {
	case "0u<>", "0d<>", "0b<>", "0x<>":
		return fmt.Sprintf("%s<%d>%s", c.Notation[:2], c.Size, c.Payload)
	case "0fp<>", "0fxp<>", "0lq<>":
		return fmt.Sprintf("%s<%d.%d>%s", strings.TrimSuffix(c.Notation, "<>"), c.Size, c.Frac, c.Payload)
	case "plain":
		return c.Payload
	}
	return c.Notation + c.Payload // 0u 0d 0b 0x 0s 0sd 0f 0f<32> 0f<16>
}

// expectation for a literal, derived from the notation's documentation (README table, the comment and
// error texts of the import functions, pkg/bmnumbers tests)
type expect struct {
	accept   bool
	either   string   // non-empty: documented rejection of a value that would fit / accepted either way; label
	width    int      // when accepted
	value    *big.Int // when accepted and judged (nil: value not judged)
	typ      string
	noFit    bool // rejected because the value does not fit the stated width
	nonFinal string
}

func digitsOK(s, set string) bool {
	if s == "" {
		return false
	}
	for _, r := range s {
		if !strings.ContainsRune(set, r) {
			return false
		}
	}
	return true
}

var two = big.NewInt(2)

func pow2(n int) *big.Int { return new(big.Int).Exp(two, big.NewInt(int64(n)), nil) }

func floatTexts() []string {
	return []string{"0", "1", "-1", "0.5", "1.5", "-0.0625", "3.75", "100", "-128", "127.99", "255", "256", "-129", "1e-3", "1e-30",
		"65504", "65520", "1e10", "3.4e38", "3.5e38", "1e39", "inf", "-inf", "nan", "NaN", "infinity", "+1.0", "0x1p-2", ".5", "5.",
		"1e", "abc", "--1", " 1", "1 ", "<1", "p1", "x1", "l1", "L1", "P1", "0.1", "-0.1", "7.9999", "-8", "8", "0.03125", "2147483647", "-2147483648", "4294967296", "12.542724609375"}
}

func genDigits(t *rapid.T, size int, base int) string {
	// a value placed relative to 2^size, spelled in the base, possibly with leading zeros
	lim := pow2(size)
	var v *big.Int
	switch rapid.IntRange(0, 6).Draw(t, "rel") {
	case 0:
		v = new(big.Int).Sub(lim, big.NewInt(1)) // largest that fits
	case 1:
		v = new(big.Int).Set(lim) // smallest that does not
	case 2:
		v = big.NewInt(0)
	case 3:
		v = big.NewInt(1)
	case 4: // just above
		v = new(big.Int).Add(lim, big.NewInt(int64(rapid.IntRange(1, 300).Draw(t, "above"))))
	default:
		nb := rapid.IntRange(1, 9).Draw(t, "nbytes")
		b := rapid.SliceOfN(rapid.Byte(), nb, nb).Draw(t, "bytes")
		v = new(big.Int).SetBytes(b)
		if rapid.Bool().Draw(t, "fit") && size > 0 {
			v.Mod(v, lim)
		}
	}
	s := v.Text(base)
	if rapid.IntRange(0, 5).Draw(t, "lead") == 0 {
		s = strings.Repeat("0", rapid.IntRange(1, 3).Draw(t, "nlead")) + s
	}
	if base == 16 && rapid.Bool().Draw(t, "upper") {
		s = strings.ToUpper(s)
	}
	return s
}

func genW(t *rapid.T) WCase {
	var c WCase
	c.Notation = rapid.SampledFrom([]string{"0u<>", "0u<>", "0d<>", "0b<>", "0b<>", "0x<>", "0x<>", "0x<>", "0u", "0d", "plain", "0b", "0x", "0s", "0sd",
		"0f", "0f<32>", "0f<16>", "0fp<>", "0fp<>", "0fxp<>", "0lq<>"}).Draw(t, "notation")
	size := func(max int) int {
		if rapid.IntRange(0, 2).Draw(t, "sclass") == 0 {
			return rapid.SampledFrom([]int{0, 1, 2, 4, 7, 8, 9, 12, 15, 16, 17, 24, 31, 32, 33, 48, 63, 64, 65, 72}).Draw(t, "sb")
		}
		return rapid.IntRange(0, max).Draw(t, "size")
	}
	switch c.Notation {
	case "0u<>", "0d<>":
		c.Size = size(70)
		c.Payload = genDigits(t, min(c.Size, 66), 10)
	case "0b<>":
		c.Size = size(130)
		c.Payload = genDigits(t, min(c.Size, 66), 2)
	case "0x<>":
		c.Size = size(130)
		if rapid.Bool().Draw(t, "mult8") {
			c.Size = 8 * rapid.IntRange(0, 16).Draw(t, "bytes")
		}
		c.Payload = genDigits(t, min(c.Size, 66), 16)
	case "0u", "0d", "plain":
		c.Payload = genDigits(t, 64, 10)
	case "0b":
		c.Payload = genDigits(t, rapid.IntRange(1, 70).Draw(t, "len"), 2)
	case "0x":
		c.Payload = genDigits(t, rapid.IntRange(1, 70).Draw(t, "len"), 16)
	case "0s", "0sd":
		c.Payload = genDigits(t, 63, 10)
		if rapid.Bool().Draw(t, "neg") {
			c.Payload = "-" + c.Payload
		}
	case "0f", "0f<32>", "0f<16>":
		c.Payload = rapid.SampledFrom(floatTexts()).Draw(t, "ftext")
	case "0fp<>", "0fxp<>":
		c.Size = size(40)
		c.Frac = rapid.IntRange(0, 40).Draw(t, "frac")
		if rapid.Bool().Draw(t, "f<=s") && c.Size > 0 {
			c.Frac = rapid.IntRange(0, c.Size).Draw(t, "f")
		}
		c.Payload = rapid.SampledFrom(floatTexts()).Draw(t, "ftext")
	case "0lq<>":
		c.Size = size(40)
		c.Frac = rapid.IntRange(0, 3).Draw(t, "t") // 0 is reserved: never registered
		c.LQMax = rapid.SampledFrom([]float64{1, 2, 128, 1024, 0.5, 256}).Draw(t, "max")
		c.Payload = rapid.SampledFrom(floatTexts()).Draw(t, "ftext")
	}
	return c
}

func expectation(c WCase) expect {
	rej := expect{}
	switch c.Notation {
	case "0u<>", "0d<>":
		// "Format: 0u<size>value or 0d<size>value", "size must be between 1 and 64 bits", "value … exceeds maximum"
		if !digitsOK(c.Payload, "0123456789") {
			return rej
		}
		v, _ := new(big.Int).SetString(c.Payload, 10)
		if c.Size < 1 || c.Size > 64 {
			return expect{either: "unsigned:size-outside-1..64"}
		}
		if v.Cmp(pow2(c.Size)) >= 0 {
			return expect{noFit: true}
		}
		return expect{accept: true, width: c.Size, value: v, typ: "unsigned"}
	case "0u", "0d", "plain":
		if !digitsOK(c.Payload, "0123456789") {
			return rej
		}
		v, _ := new(big.Int).SetString(c.Payload, 10)
		if v.Cmp(pow2(64)) >= 0 {
			return expect{noFit: true}
		}
		return expect{accept: true, width: 64, value: v, typ: "unsigned"}
	case "0s", "0sd":
		p := strings.TrimPrefix(c.Payload, "-")
		if !digitsOK(p, "0123456789") {
			return rej
		}
		v, _ := new(big.Int).SetString(c.Payload, 10)
		if v.Cmp(pow2(63)) >= 0 || v.Cmp(new(big.Int).Neg(pow2(63))) < 0 {
			return expect{noFit: true}
		}
		if v.Sign() < 0 {
			v.Add(v, pow2(64))
		}
		return expect{accept: true, width: 64, value: v, typ: "signed"}
	case "0b<>":
		if !digitsOK(c.Payload, "01") {
			return rej
		}
		v, _ := new(big.Int).SetString(c.Payload, 2)
		if v.Cmp(pow2(c.Size)) >= 0 {
			return expect{noFit: true}
		}
		if len(c.Payload) > c.Size { // fits only thanks to leading zeros: "the specified number if greater than the bits size"
			return expect{either: "bin:more-digits-than-bits"}
		}
		return expect{accept: true, width: c.Size, value: v, typ: "bin"}
	case "0b":
		if !digitsOK(c.Payload, "01") {
			return rej
		}
		v, _ := new(big.Int).SetString(c.Payload, 2)
		return expect{accept: true, width: len(c.Payload), value: v, typ: "bin"}
	case "0x<>":
		if !digitsOK(c.Payload, "0123456789abcdefABCDEF") {
			return rej
		}
		v, _ := new(big.Int).SetString(c.Payload, 16)
		if v.Cmp(pow2(c.Size)) >= 0 {
			return expect{noFit: true}
		}
		if c.Size%8 != 0 { // "the number of bits as to be a multiple of 8"
			return expect{either: "hex:size-not-multiple-of-8"}
		}
		if (len(c.Payload)+1)/2*8 > c.Size {
			return expect{either: "hex:more-digits-than-bits"}
		}
		return expect{accept: true, width: c.Size, value: v, typ: "hex"}
	case "0x":
		if !digitsOK(c.Payload, "0123456789abcdefABCDEF") {
			return rej
		}
		v, _ := new(big.Int).SetString(c.Payload, 16)
		return expect{accept: true, width: (len(c.Payload) + 1) / 2 * 8, value: v, typ: "hex"}
	case "0f", "0f<32>":
		f, err := strconv.ParseFloat(c.Payload, 32)
		if err != nil {
			if ne, ok := err.(*strconv.NumError); ok && ne.Err == strconv.ErrRange {
				return expect{noFit: true}
			}
			return rej
		}
		return expect{accept: true, width: 32, value: new(big.Int).SetUint64(uint64(math.Float32bits(float32(f)))), typ: "float32"}
	case "0f<16>":
		if _, err := strconv.ParseFloat(c.Payload, 32); err != nil {
			return expect{either: "float16:text-not-a-float32"}
		}
		return expect{accept: true, width: 16, typ: "float16"} // value not judged here (round-trip entry does)
	case "0fp<>", "0fxp<>":
		typ := fmt.Sprintf("fps%df%d", c.Size, c.Frac)
		if c.Notation == "0fxp<>" {
			typ = fmt.Sprintf("fxps%df%d", c.Size, c.Frac)
		}
		f, err := strconv.ParseFloat(c.Payload, 64)
		if err != nil {
			return rej
		}
		if c.Size < 1 || c.Size > 32 {
			return expect{either: "fixedpoint:s-outside-1..32"}
		}
		e := expect{accept: true, width: c.Size, typ: typ}
		x := f * float64(int64(1)<<uint(c.Frac))
		switch {
		case math.IsNaN(x) || math.IsInf(x, 0) || math.Abs(x) >= 1<<62:
			e.nonFinal = "fixedpoint:not-finite-or-huge"
		case x >= float64(int64(1)<<uint(c.Size-1)) || x < -float64(int64(1)<<uint(c.Size-1)):
			e.nonFinal = domFPWrapped // silently wrapped to s bits; the statement does not speak about it, recorded as a label
		default:
			k := big.NewInt(int64(x))
			if k.Sign() < 0 {
				k.Add(k, pow2(c.Size))
			}
			e.value = k
		}
		return e
	case "0lq<>":
		f, err := strconv.ParseFloat(c.Payload, 64)
		if err != nil {
			return rej
		}
		if c.Size < 1 || c.Size > 32 {
			return expect{either: "lq:s-outside-1..32"}
		}
		if c.Frac == 0 {
			return expect{either: "lq:range-index-not-registered"}
		}
		bandNum := float64(int64(1) << uint(c.Size-1))
		q := f / (c.LQMax / bandNum)
		if math.IsNaN(q) || math.Abs(q) >= bandNum { // "number out of range for linear quantizer"
			return expect{noFit: true}
		}
		k := big.NewInt(int64(q))
		if k.Sign() < 0 {
			k.Add(k, pow2(c.Size))
		}
		return expect{accept: true, width: c.Size, value: k, typ: fmt.Sprintf("lqs%dt%d", c.Size, c.Frac)}
	}
	return rej
}

func propW(c WCase) (out pbt.Outcome) {
	baseline.restore()
	defer baseline.restore()
	if c.Size < 0 || c.Size > 4096 || c.Frac < 0 || c.Frac > 62 || len(c.Payload) > 400 {
		return pbt.Outcome{Excluded: "bad-case"}
	}
	if c.Notation == "0lq<>" {
		if !(c.LQMax > 0) || math.IsInf(c.LQMax, 0) {
			return pbt.Outcome{Excluded: "bad-case"}
		}
		if c.Frac != 0 {
			(*lqRanges())[c.Frac] = bmnumbers.LinearDataRange{Max: c.LQMax}
		}
	}
	lit := c.literal()
	ex := expectation(c)
	labels := map[string]bool{"n:" + c.Notation: true}
	defer func() { out.Labels = labelsOf(labels) }()
	fail := func(sig, format string, a ...any) pbt.Outcome {
		out.Fail = pbt.Failf(sig, "literal %q: %s", lit, fmt.Sprintf(format, a...))
		return out
	}
	mech := func(sig, excl, format string, a ...any) pbt.Outcome {
		if !judged(sig, c.Strict) {
			out.Excluded = excl
			return out
		}
		out.Fail = pbt.Failf(sig, "literal %q: %s", lit, fmt.Sprintf(format, a...))
		return out
	}

	acc := acceptors(lit)
	if len(acc) == 0 {
		labels["o:no-notation"] = true
		if ex.accept {
			return fail("W:well-formed-literal-unclaimed", "no notation claims it; expected %s of %d bits", ex.typ, ex.width)
		}
		return out
	}
	if len(acc) > 1 {
		if d2Pair(acc) {
			labels["o:D2"] = true
			return mech(sigD2, "D2", "claimed by two notations:%s", describe(acc, lit))
		}
		return fail("overlap:"+mlabel(acc[0])+"|"+mlabel(acc[1]), "claimed by %d notations:%s", len(acc), describe(acc, lit))
	}
	n, err := importWith(acc[0], lit)
	rejected := err != nil || n == nil
	sized := strings.HasSuffix(c.Notation, "<>") || c.Notation == "0f<32>" || c.Notation == "0f<16>"
	switch {
	case rejected && ex.accept:
		return fail("W:fitting-literal-rejected", "rejected (%v) although it spells a %s value that fits %d bits", err, ex.typ, ex.width)
	case rejected:
		switch {
		case ex.noFit:
			labels["o:rejected-does-not-fit"] = true
			out.NonTrivial = sized
		case ex.either != "":
			labels["o:rejected/"+ex.either] = true
		default:
			labels["o:rejected-malformed"] = true
		}
		return out
	case ex.noFit:
		return fail("W:unfitting-literal-accepted", "accepted as %s although the value does not fit the stated width", n.GetTypeName())
	case !ex.accept && ex.either == "":
		// the matcher claimed a malformed payload and the import function let it through
		return fail("W:malformed-literal-accepted", "accepted as %s", n.GetTypeName())
	}
	if ex.either != "" && !ex.accept {
		labels["o:accepted/"+ex.either] = true
		// accepted either way: the width it got must still be the stated one where one is stated
		if c.Size > 0 && sized && c.Notation != "0f<32>" && c.Notation != "0f<16>" {
			ex.width = c.Size
		} else {
			return out
		}
	} else {
		labels["o:accepted"] = true
	}
	if ex.nonFinal != "" {
		labels["o:"+ex.nonFinal] = true
	}
	w := ex.width
	if ex.typ != "" && n.GetTypeName() != ex.typ {
		return fail("W:type", "imports as type %s, expected %s", n.GetTypeName(), ex.typ)
	}
	gw, gb, err := shape(n)
	if err != nil {
		return fail("W:shape", "%v", err)
	}
	if gw != w {
		return fail("W:width", "imports with %d bits, the notation states %d", gw, w)
	}
	raw, _ := n.ExportBinary(false)
	if len(raw) > w {
		return fail("W:stray-bits", "stored value %s has %d significant bits in a %d-bit number", raw, len(raw), w)
	}
	if ex.value != nil {
		want := fmt.Sprintf("%0*s", w, ex.value.Text(2))
		if gb != want {
			return fail("W:value", "imports as %d'b%s, expected %d'b%s", gw, gb, w, want)
		}
		out.NonTrivial = sized && ex.value.Sign() != 0
		if nb, err := n.ExportBinaryNBits(w); err != nil || nb != want {
			return fail("W:nbits", "ExportBinaryNBits(%d) = %q, %v; expected %s", w, nb, err, want)
		}
	}
	// ---- storage: ceil(width/8) bytes (GetBytes feeds basm data sections), ExportUint64 for widths <= 64
	gotBytes := len(n.GetBytes())
	u, uerr := n.ExportUint64()
	storageOK := gotBytes == (w+7)/8
	if w <= 64 && ex.value != nil && (uerr != nil || u != ex.value.Uint64()) {
		storageOK = false
	}
	if !storageOK {
		msg := fmt.Sprintf("a %d-bit number is stored in %d bytes (expected %d); ExportUint64 = %d, %v", w, gotBytes, (w+7)/8, u, uerr)
		if c.Notation == "0x<>" && gotBytes == w {
			labels["o:hex-sized-storage"] = true
			return mech(sigHexStore, "HEXSTORE", "%s", msg)
		}
		return fail("W:storage", "%s", msg)
	}
	return out
}

var _ = rapid.Bool
