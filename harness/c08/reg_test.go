package c08

// Shared plumbing for the three C08 entries and the fuzz target:
//   - snapshot / restore of bmnumbers' process-wide registries (rule 1: a property is a pure function of the case),
//   - a deterministic matcher scan (sorted regex texts, compiled once) that replaces ImportString's map walk,
//   - construction of a number "from bits" through the public API,
//   - the table of recorded mechanisms and when they are excluded vs. judged.

import (
	"encoding/json"
	"fmt"
	"os"
	"path/filepath"
	"regexp"
	"sort"
	"strings"
	"sync"

	"github.com/BondMachineHQ/BondMachine/pkg/bmnumbers"
)

// ---------------------------------------------------------------------------
// registries

type regSnap struct {
	types    []bmnumbers.BMNumberType
	matchers map[string]bmnumbers.ImportFunc
	lq       map[int]bmnumbers.LinearDataRange
}

func lqRanges() *map[int]bmnumbers.LinearDataRange {
	for _, d := range bmnumbers.AllDynamicalTypes {
		if q, ok := d.(bmnumbers.DynLinearQuantizer); ok {
			return q.Ranges
		}
	}
	return nil
}

func takeSnap() regSnap {
	s := regSnap{matchers: map[string]bmnumbers.ImportFunc{}, lq: map[int]bmnumbers.LinearDataRange{}}
	s.types = append(s.types, bmnumbers.AllTypes...)
	for k, v := range bmnumbers.AllMatchers {
		s.matchers[k] = v
	}
	if r := lqRanges(); r != nil {
		for k, v := range *r {
			s.lq[k] = v
		}
	}
	return s
}

func (s regSnap) restore() {
	bmnumbers.AllTypes = append([]bmnumbers.BMNumberType(nil), s.types...)
	m := make(map[string]bmnumbers.ImportFunc, len(s.matchers))
	for k, v := range s.matchers {
		m[k] = v
	}
	bmnumbers.AllMatchers = m
	if r := lqRanges(); r != nil {
		for k := range *r {
			delete(*r, k)
		}
		for k, v := range s.lq {
			(*r)[k] = v
		}
	}
}

// baseline is the state right after bmnumbers.init(): the six static types plus the four dynamic
// types init() itself creates (flpe4f4, lqs8t0, fps8f4, fxps8f4). Every case starts from it and
// puts it back, whatever the import functions registered meanwhile.
var baseline = takeSnap()

// dynamic type names in the canonical spelling EventuallyCreateType is called with by the import
// functions ("fps"+s+"f"+f …): no leading zeros, nothing around the name (MatchName is unanchored,
// "xxfps8f4yy" would create a type with s=0; nobody calls it that way).
var dynNameRe = regexp.MustCompile(`^(flpe[1-9][0-9]?f[1-9][0-9]?|fps[1-9][0-9]?f(0|[1-9][0-9]?)|fxps[1-9][0-9]?f(0|[1-9][0-9]?)|lqs[1-9][0-9]?t[1-9][0-9]?)$`)

func createTypes(names []string) error {
	for _, n := range names {
		if !dynNameRe.MatchString(n) {
			return fmt.Errorf("type name %q is outside the generated family", n)
		}
		if _, err := bmnumbers.EventuallyCreateType(n, nil); err != nil {
			return fmt.Errorf("EventuallyCreateType(%q): %v", n, err)
		}
		if bmnumbers.GetType(n) == nil {
			return fmt.Errorf("EventuallyCreateType(%q) returned no error but the type is not registered", n)
		}
	}
	return nil
}

// ---------------------------------------------------------------------------
// deterministic matcher scan

var (
	reMu    sync.Mutex
	reCache = map[string]*regexp.Regexp{}
)

func compiled(expr string) *regexp.Regexp {
	reMu.Lock()
	defer reMu.Unlock()
	if r, ok := reCache[expr]; ok {
		return r
	}
	r := regexp.MustCompile(expr) // same call ImportString makes
	reCache[expr] = r
	return r
}

func sortedMatchers() []string {
	ks := make([]string, 0, len(bmnumbers.AllMatchers))
	for k := range bmnumbers.AllMatchers {
		ks = append(ks, k)
	}
	sort.Strings(ks)
	return ks
}

// acceptors runs EVERY registered matcher on s, in sorted order of the regex text.
func acceptors(s string) []string {
	var r []string
	for _, k := range sortedMatchers() {
		if compiled(k).MatchString(s) {
			r = append(r, k)
		}
	}
	return r
}

var groupRe = regexp.MustCompile(`\(\?P<(\w+)>[^()]*\)`)

// mlabel turns a matcher regex into a short readable name: ^0u<(?P<size>[0-9]+)>(?P<uint>[0-9]+)$ -> 0u<{size}>{uint}
func mlabel(expr string) string {
	s := groupRe.ReplaceAllString(expr, "{$1}")
	s = strings.TrimSuffix(strings.TrimPrefix(s, "^"), "$")
	return s
}

// importWith calls the import function registered for matcher k (what ImportString would do had its
// map walk reached k first).
func importWith(k, s string) (*bmnumbers.BMNumber, error) {
	return bmnumbers.AllMatchers[k](compiled(k), s)
}

// isFloPoCoMatcher: the import function behind it shells out to FloPoCo's fp2bin, which is not part of
// the repository; the harness never executes it (see assumptions).
func isFloPoCoMatcher(k string) bool { return strings.HasPrefix(k, "^0flp<") }

// ---------------------------------------------------------------------------
// recorded mechanisms

const (
	sigD2        = "D2:unescaped-dot-overlap"
	sigF32       = "RT:float32-20-decimals"
	sigUWidth    = "RT:unsigned-export-drops-width"
	sigHexCast   = "RT:hex-width-not-multiple-of-8"
	sigLQTrunc   = "RT:lq-reimport-truncates"
	sigHexStore  = "W:hex-sized-allocates-bits-bytes"
	domLQMin     = "domain:lq-most-negative-pattern"
	domSigned    = "domain:signed-export-not-implemented"
	domFloPoCo   = "domain:flopoco-external-tool"
	domFPWrapped = "fixedpoint:overflow-wrapped"
)

// A recorded mechanism is excluded (counted, not judged) in generated search so that search continues
// behind it, unless /verif/known_findings.json says it has been fixed: then it is judged again and a
// regression turns the check red. Replay files carry Strict=true and are always judged.
var fixedSigs = func() map[string]bool {
	m := map[string]bool{}
	root := os.Getenv("VERIF_ROOT")
	if root == "" {
		root = "/verif"
	}
	b, err := os.ReadFile(filepath.Join(root, "known_findings.json"))
	if err != nil {
		return m
	}
	var f struct {
		Findings []struct {
			Property string `json:"property"`
			Sig      string `json:"sig"`
			Status   string `json:"status"`
		} `json:"findings"`
	}
	if json.Unmarshal(b, &f) != nil {
		return m
	}
	for _, k := range f.Findings {
		if k.Property == "C08" && k.Status == "fixed" {
			m[k.Sig] = true
		}
	}
	return m
}()

func judged(sig string, strict bool) bool { return strict || fixedSigs[sig] }

// d2Pair reports whether the acceptor set is exactly the D2 pair: the prefixed decimal notation and its
// ".0+" sibling whose dot is an unescaped wildcard.
func d2Pair(acc []string) bool {
	if len(acc) != 2 {
		return false
	}
	for _, p := range []string{"0u", "0d"} {
		a := "^" + p + "(?P<uint>[0-9]+)$"
		b := "^" + p + "(?P<uint>[0-9]+).0+$"
		if (acc[0] == a && acc[1] == b) || (acc[0] == b && acc[1] == a) {
			return true
		}
	}
	return false
}

// ---------------------------------------------------------------------------
// numbers from bits

func maskBits(v uint64, bits int) uint64 {
	if bits >= 64 {
		return v
	}
	return v & (uint64(1)<<uint(bits) - 1)
}

// build makes a number of the named type holding the low `bits` bits of v, through the public API only:
// ImportBytes (big-endian bytes, ceil(bits/8) of them) followed by CastType.
func build(typeName string, bits int, v uint64) (*bmnumbers.BMNumber, error) {
	t := bmnumbers.GetType(typeName)
	if t == nil {
		return nil, fmt.Errorf("type %q is not registered", typeName)
	}
	nb := (bits + 7) / 8
	b := make([]byte, nb)
	x := maskBits(v, bits)
	for i := nb - 1; i >= 0; i-- {
		b[i] = byte(x)
		x >>= 8
	}
	n, err := bmnumbers.ImportBytes(b, bits)
	if err != nil {
		return nil, err
	}
	if err := bmnumbers.CastType(n, t); err != nil {
		return nil, err
	}
	return n, nil
}

func binN(v uint64, bits int) string { return fmt.Sprintf("%0*b", bits, maskBits(v, bits)) }

func labelsOf(m map[string]bool) []string {
	r := make([]string, 0, len(m))
	for k := range m {
		r = append(r, k)
	}
	sort.Strings(r)
	return r
}
