package c08

// Entry "roundtrip": import(export(v)) == v (type name, width, bits) and the binary / Verilog exports
// have exactly the stated width.

import (
	"fmt"
	"math"
	"math/bits"
	"os/exec"
	"regexp"
	"strconv"
	"strings"

	"github.com/BondMachineHQ/BondMachine/pkg/bmnumbers"
	"pgregory.net/rapid"
	"verifharness/pbt"
)

type RCase struct {
	Type   string  // unsigned bin hex signed float16 float32 fps<s>f<f> fxps<s>f<f> lqs<s>t<t> flpe<e>f<f>
	Bits   int     // width of the value (fixed by the type for everything but unsigned/bin/hex/signed)
	Value  uint64  // the bit pattern (low Bits bits are used)
	LQMax  float64 // linear quantiser only: the range registered under index t (LinearDataRange.Max)
	N      int     // argument of ExportBinaryNBits
	Strict bool    // replay of a recorded finding: judge recorded mechanisms instead of excluding them
}

type typeInfo struct {
	kind string // unsigned bin hex signed float16 float32 fixedpoint fxp lq flopoco
	a, b int    // (s,f) / (s,t) / (e,f)
	size int    // required width, 0 = any
}

var dynParse = regexp.MustCompile(`^(flpe|fps|fxps|lqs)([0-9]+)[ft]([0-9]+)$`)

func parseType(name string) (typeInfo, bool) {
	switch name {
	case "unsigned", "bin", "hex", "signed":
		return typeInfo{kind: name}, true
	case "float16":
		return typeInfo{kind: name, size: 16}, true
	case "float32":
		return typeInfo{kind: name, size: 32}, true
	}
	if !dynNameRe.MatchString(name) {
		return typeInfo{}, false
	}
	m := dynParse.FindStringSubmatch(name)
	if m == nil {
		return typeInfo{}, false
	}
	a, _ := strconv.Atoi(m[2])
	b, _ := strconv.Atoi(m[3])
	switch m[1] {
	case "flpe":
		return typeInfo{kind: "flopoco", a: a, b: b, size: a + b + 3}, true
	case "fps":
		return typeInfo{kind: "fixedpoint", a: a, b: b, size: a}, a >= 1 && a <= 32
	case "fxps":
		return typeInfo{kind: "fxp", a: a, b: b, size: a}, a >= 1 && a <= 32
	default:
		return typeInfo{kind: "lq", a: a, b: b, size: a}, a >= 1 && a <= 32
	}
}

// ---------------------------------------------------------------------------
// generator

func genPattern(t *rapid.T, w int) uint64 {
	all := maskBits(^uint64(0), w)
	msb := uint64(1) << uint(w-1)
	switch rapid.IntRange(0, 11).Draw(t, "vclass") {
	case 0:
		return 0
	case 1:
		return all
	case 2:
		return 1 & all
	case 3:
		return msb
	case 4:
		return msb - 1 // 0111…1
	case 5:
		return all - 1&all
	case 6:
		return msb | 1
	case 7:
		return maskBits(0xAAAAAAAAAAAAAAAA, w)
	case 8: // few low bits: short minimal binary form
		return maskBits(rapid.Uint64Range(0, 255).Draw(t, "low"), w)
	case 9: // a power of ten / decimal-looking value (notation boundaries 0u…0)
		p := uint64(1)
		for i := rapid.IntRange(0, 19).Draw(t, "pow10"); i > 0; i-- {
			p *= 10
		}
		return maskBits(p, w)
	default:
		return maskBits(rapid.Uint64().Draw(t, "v"), w)
	}
}

func genFloat(t *rapid.T, ebits, mbits int) uint64 {
	emax := uint64(1)<<uint(ebits) - 1
	mmax := uint64(1)<<uint(mbits) - 1
	sign := uint64(rapid.IntRange(0, 1).Draw(t, "sign"))
	var e, m uint64
	switch rapid.SampledFrom([]string{"normal", "normal", "normal", "small-normal", "subnormal", "subnormal", "zero", "inf", "nan", "edge"}).Draw(t, "fclass") {
	case "normal":
		e = rapid.Uint64Range(1, emax-1).Draw(t, "e")
		m = rapid.Uint64Range(0, mmax).Draw(t, "m")
	case "small-normal": // lower quarter of the exponent range
		e = rapid.Uint64Range(1, emax/4).Draw(t, "e")
		m = rapid.Uint64Range(0, mmax).Draw(t, "m")
	case "subnormal":
		e = 0
		m = rapid.SampledFrom([]uint64{1, 2, mmax, mmax - 1, mmax/2 + 1}).Draw(t, "msub")
		if rapid.Bool().Draw(t, "rnd") {
			m = rapid.Uint64Range(1, mmax).Draw(t, "m")
		}
	case "zero":
	case "inf":
		e = emax
	case "nan":
		e = emax
		m = rapid.SampledFrom([]uint64{1, mmax, mmax/2 + 1, mmax / 2}).Draw(t, "mnan")
		if rapid.Bool().Draw(t, "rnd") {
			m = rapid.Uint64Range(1, mmax).Draw(t, "m")
		}
	default: // edges of the normal range
		e = rapid.SampledFrom([]uint64{1, emax - 1, emax / 2, emax/2 + 1}).Draw(t, "eedge")
		m = rapid.SampledFrom([]uint64{0, 1, mmax, mmax - 1}).Draw(t, "medge")
	}
	return sign<<uint(ebits+mbits) | e<<uint(mbits) | m
}

var lqMaxes = []float64{1, 2, 0.5, 128, 1024, 0.1, 3.3, 100, 12.6, 0.001, 255, 1e6, 12.542724609375 * 2}

func genWidth(t *rapid.T) int {
	if rapid.IntRange(0, 2).Draw(t, "wclass") == 0 {
		return rapid.SampledFrom([]int{1, 2, 7, 8, 9, 15, 16, 17, 31, 32, 33, 63, 64}).Draw(t, "wb")
	}
	return rapid.IntRange(1, 64).Draw(t, "w")
}

func genRT(t *rapid.T) RCase {
	var c RCase
	fam := rapid.SampledFrom([]string{"unsigned", "unsigned", "bin", "bin", "hex", "hex", "float16", "float16", "float32", "float32", "float32",
		"fixedpoint", "fixedpoint", "fxp", "lq", "lq", "signed", "flopoco"}).Draw(t, "family")
	switch fam {
	case "unsigned", "bin", "hex", "signed":
		c.Type = fam
		c.Bits = genWidth(t)
		if fam == "unsigned" && rapid.Bool().Draw(t, "u64") {
			c.Bits = 64 // the width the unsized decimal notation denotes
		}
		if fam == "hex" && rapid.Bool().Draw(t, "bytes") {
			c.Bits = 8 * rapid.IntRange(1, 8).Draw(t, "nbytes") // the widths the hex notation can state
		}
		c.Value = genPattern(t, c.Bits)
	case "float16":
		c.Type, c.Bits = fam, 16
		c.Value = genFloat(t, 5, 10)
	case "float32":
		c.Type, c.Bits = fam, 32
		c.Value = genFloat(t, 8, 23)
	case "fixedpoint", "fxp":
		s := rapid.IntRange(1, 32).Draw(t, "s")
		f := rapid.IntRange(0, s).Draw(t, "f")
		if rapid.IntRange(0, 7).Draw(t, "fbig") == 0 {
			f = rapid.IntRange(s, 40).Draw(t, "f>s")
		}
		p := "fps"
		if fam == "fxp" {
			p = "fxps"
		}
		c.Type, c.Bits = fmt.Sprintf("%s%df%d", p, s, f), s
		c.Value = genPattern(t, s)
	case "lq":
		s := rapid.IntRange(1, 32).Draw(t, "s")
		c.Type, c.Bits = fmt.Sprintf("lqs%dt%d", s, rapid.IntRange(1, 3).Draw(t, "t")), s
		c.Value = genPattern(t, s)
		if rapid.Bool().Draw(t, "maxlist") {
			c.LQMax = rapid.SampledFrom(lqMaxes).Draw(t, "max")
		} else {
			c.LQMax = rapid.Float64Range(1e-6, 1e6).Draw(t, "maxf")
		}
	default: // flopoco
		e := rapid.IntRange(1, 11).Draw(t, "e")
		f := rapid.IntRange(1, 23).Draw(t, "f")
		c.Type, c.Bits = fmt.Sprintf("flpe%df%d", e, f), e+f+3
		c.Value = genPattern(t, c.Bits)
	}
	l := bits.Len64(maskBits(c.Value, c.Bits))
	if l == 0 {
		l = 1
	}
	c.N = rapid.SampledFrom([]int{c.Bits, c.Bits, l, l - 1, l + 1, c.Bits - 1, c.Bits + 1, 0, 64, 70, rapid.IntRange(0, 70).Draw(t, "nrnd")}).Draw(t, "n")
	return c
}

// ---------------------------------------------------------------------------
// property

func widthBucket(w int) string {
	switch {
	case w == 1:
		return "w:1"
	case w < 8:
		return "w:2-7"
	case w == 8:
		return "w:8"
	case w < 16:
		return "w:9-15"
	case w == 16:
		return "w:16"
	case w < 32:
		return "w:17-31"
	case w == 32:
		return "w:32"
	case w < 64:
		return "w:33-63"
	}
	return "w:64"
}

var vbinRe = regexp.MustCompile(`^([0-9]+)'b([01]+)$`)

// shape reads width and bit string of a number from its Verilog export, checking the export's form:
// "<bits>'b" followed by exactly <bits> binary digits.
func shape(n *bmnumbers.BMNumber) (int, string, error) {
	s, err := n.ExportVerilogBinary()
	if err != nil {
		return 0, "", fmt.Errorf("ExportVerilogBinary: %v", err)
	}
	m := vbinRe.FindStringSubmatch(s)
	if m == nil {
		return 0, "", fmt.Errorf("ExportVerilogBinary %q is not <bits>'b<digits>", s)
	}
	w, _ := strconv.Atoi(m[1])
	if len(m[2]) != w {
		return w, m[2], fmt.Errorf("ExportVerilogBinary %q states %d bits and carries %d digits", s, w, len(m[2]))
	}
	return w, m[2], nil
}

func isNaNPattern(v uint64, ebits, mbits int) bool {
	e := v >> uint(mbits) & (uint64(1)<<uint(ebits) - 1)
	m := v & (uint64(1)<<uint(mbits) - 1)
	return e == uint64(1)<<uint(ebits)-1 && m != 0
}

var flopocoTool = func() bool { _, err := exec.LookPath("bin2fp"); return err == nil }()

func propRT(c RCase) (out pbt.Outcome) {
	baseline.restore()
	defer baseline.restore()
	ti, ok := parseType(c.Type)
	if !ok || c.Bits < 1 || c.Bits > 64 || (ti.size != 0 && ti.size != c.Bits) || c.N < 0 || c.N > 4096 {
		return pbt.Outcome{Excluded: "bad-case"}
	}
	switch ti.kind {
	case "fixedpoint", "fxp", "flopoco":
		if err := createTypes([]string{c.Type}); err != nil {
			return pbt.Outcome{Fail: pbt.Failf("create-type", "%v", err)}
		}
	case "lq":
		if !(c.LQMax > 0) || math.IsInf(c.LQMax, 0) || ti.b < 1 {
			return pbt.Outcome{Excluded: "bad-case"}
		}
		(*lqRanges())[ti.b] = bmnumbers.LinearDataRange{Max: c.LQMax} // what -linear-data-range <t>,<file> does
		if err := createTypes([]string{c.Type}); err != nil {
			return pbt.Outcome{Fail: pbt.Failf("create-type", "%v", err)}
		}
	}
	w := c.Bits
	v := maskBits(c.Value, w)
	want := binN(v, w)
	all := maskBits(^uint64(0), w)

	labels := map[string]bool{"t:" + ti.kind: true, ti.kind + "/" + widthBucket(w): true}
	switch v {
	case 0:
		labels["v:zero"] = true
	case all:
		labels["v:all-ones"] = true
	}
	if w > 1 && v == uint64(1)<<uint(w-1) {
		labels["v:msb-only"] = true
	}
	out.NonTrivial = v != 0 && v != all
	nan := false
	if ti.kind == "float16" || ti.kind == "float32" {
		eb, mb := 5, 10
		if ti.kind == "float32" {
			eb, mb = 8, 23
		}
		e := v >> uint(mb) & (uint64(1)<<uint(eb) - 1)
		m := v & (uint64(1)<<uint(mb) - 1)
		switch {
		case e == 0 && m == 0:
			labels[ti.kind+":zero"] = true
		case e == 0:
			labels[ti.kind+":subnormal"] = true
		case e == uint64(1)<<uint(eb)-1 && m == 0:
			labels[ti.kind+":inf"] = true
		case e == uint64(1)<<uint(eb)-1:
			labels[ti.kind+":nan"] = true
			nan = true
		default:
			labels[ti.kind+":normal"] = true
		}
	}
	if ti.kind == "fixedpoint" || ti.kind == "fxp" {
		if ti.b > ti.a {
			labels[ti.kind+":f>s"] = true
		}
		if v>>(uint(w-1))&1 == 1 {
			labels[ti.kind+":negative"] = true
		}
	}
	if ti.kind == "lq" {
		if f, e := math.Frexp(c.LQMax); f == 0.5 && e != 0 || c.LQMax == 1 {
			labels["lq:max-power-of-2"] = true
		} else {
			labels["lq:max-other"] = true
		}
	}
	defer func() { out.Labels = labelsOf(labels) }()

	// mech: a recorded mechanism is excluded unless judged; anything else is a failure.
	mech := func(sig, excl, format string, a ...any) pbt.Outcome {
		if !judged(sig, c.Strict) {
			out.Excluded = excl
			return out
		}
		out.Fail = pbt.Failf(sig, format, a...)
		return out
	}
	fail := func(sig, format string, a ...any) pbt.Outcome {
		out.Fail = pbt.Failf(sig, "%s %d bits 0x%x: %s", c.Type, w, v, fmt.Sprintf(format, a...))
		return out
	}

	n, err := build(c.Type, w, v)
	if err != nil {
		return fail("build", "cannot build the number through ImportBytes+CastType: %v", err)
	}

	// ---- exports with a stated width
	if gw, gb, err := shape(n); err != nil {
		return fail("verilog-export", "%v", err)
	} else if gw != w || gb != want {
		return fail("verilog-export", "ExportVerilogBinary gives %d'b%s, expected %d'b%s", gw, gb, w, want)
	}
	minLen := bits.Len64(v)
	if minLen == 0 {
		minLen = 1
	}
	nb, err := n.ExportBinaryNBits(c.N)
	switch {
	case c.N >= minLen && err != nil:
		return fail("nbits", "ExportBinaryNBits(%d) fails (%v) although the value needs %d bits", c.N, err, minLen)
	case c.N >= minLen && (len(nb) != c.N || strings.TrimLeft(nb, "0") != strings.TrimLeft(want, "0")):
		return fail("nbits", "ExportBinaryNBits(%d) = %q (length %d), expected the value %s in exactly %d digits", c.N, nb, len(nb), want, c.N)
	case c.N < minLen && err == nil:
		return fail("nbits", "ExportBinaryNBits(%d) = %q although the value needs %d bits: an error is expected", c.N, nb, minLen)
	}
	if c.N >= minLen {
		labels["nbits:fits"] = true
	} else {
		labels["nbits:too-small"] = true
	}
	if wb, err := n.ExportBinary(true); err != nil || !strings.HasPrefix(wb, fmt.Sprintf("0b<%d>", w)) {
		return fail("binary-export", "ExportBinary(true) = %q, %v: expected the prefix 0b<%d>", wb, err, w)
	}

	// ---- text export
	if ti.kind == "flopoco" && !flopocoTool {
		// FloPoCo.ExportString/floPoCoImport shell out to bin2fp/fp2bin, which are not in the repository
		labels["flopoco:tool-missing"] = true
		out.Excluded = domFloPoCo
		return out
	}
	text, err := n.ExportString(nil)
	if err != nil {
		if ti.kind == "signed" && err.Error() == "not implemented" {
			labels["signed:export-not-implemented"] = true
			out.Excluded = domSigned
			return out
		}
		return fail("export-error", "ExportString fails: %v", err)
	}
	// omit-prefix mode (bmnumbers -omit-prefix): the same text without the type's prefix, nothing else removed —
	// putting the prefix back must give the importable text again
	if bt := bmnumbers.GetType(c.Type); bt != nil {
		prefix := bt.ShowPrefix()
		bare, oerr := n.ExportString(&bmnumbers.BMNumberConfig{OmitPrefix: true})
		switch {
		case oerr != nil:
			return fail("omit-prefix", "ExportString with OmitPrefix fails (%v), without it gives %q", oerr, text)
		case strings.HasPrefix(text, prefix) && strings.Count(text, prefix) == 1:
			labels["omit-prefix:checked"] = true
			if bare != strings.TrimPrefix(text, prefix) {
				return fail("omit-prefix", "exports as %q, with OmitPrefix as %q: expected %q (prefix %q removed, nothing else)", text, bare, strings.TrimPrefix(text, prefix), prefix)
			}
		case !strings.Contains(text, prefix):
			labels["omit-prefix:text-has-no-prefix"] = true
			if bare != text {
				return fail("omit-prefix", "exports as %q (which does not contain the prefix %q), with OmitPrefix as %q", text, prefix, bare)
			}
		default:
			labels["omit-prefix:prefix-inside"] = true
		}
	}
	acc := acceptors(text)
	if len(acc) != 1 {
		if d2Pair(acc) {
			return mech(sigD2, "D2", "%s %d bits 0x%x exports as %q, claimed by two notations:%s", c.Type, w, v, text, describe(acc, text))
		}
		return fail("export-not-uniquely-importable", "exports as %q which %d notations claim:%s", text, len(acc), describe(acc, text))
	}
	r, err := importWith(acc[0], text)
	if err != nil || r == nil {
		switch {
		case ti.kind == "hex" && w%8 != 0 && err != nil && strings.Contains(err.Error(), "multiple of 8"):
			labels["hex:width-not-multiple-of-8"] = true
			return mech(sigHexCast, "HEXCAST", "hex %d bits 0x%x (bmnumbers -cast hex of a %d-bit number) exports as %q, which the library refuses to read: %v", w, v, w, text, err)
		case ti.kind == "lq" && w >= 1 && v == uint64(1)<<uint(w-1) && err != nil && strings.Contains(err.Error(), "out of range"):
			// the quantiser is symmetric: bands -(2^(s-1)-1)…2^(s-1)-1; the pattern 10…0 is not one of its values
			labels["lq:most-negative-pattern"] = true
			out.Excluded = domLQMin
			return out
		}
		return fail("reimport-error", "exports as %q, reading that back fails: %v (number %v)", text, err, r)
	}
	rw, rb, err := shape(r)
	if err != nil {
		return fail("reimport-shape", "exports as %q; re-imported number: %v", text, err)
	}
	if r.GetTypeName() != c.Type {
		return fail("reimport-type", "exports as %q, which reads back as type %s", text, r.GetTypeName())
	}
	if nan {
		eb, mb := 5, 10
		if ti.kind == "float32" {
			eb, mb = 8, 23
		}
		rv, _ := strconv.ParseUint(rb, 2, 64)
		if rw != w || !isNaNPattern(rv, eb, mb) {
			return fail("reimport-nan", "NaN exports as %q, which reads back as %d'b%s (not a NaN of %d bits)", text, rw, rb, w)
		}
		return out
	}
	if rw == w && rb == want {
		return out
	}
	// ---- a difference: recorded mechanism or new failure
	rv, _ := strconv.ParseUint(rb, 2, 64)
	switch {
	case ti.kind == "unsigned" && w != 64 && rw == 64 && rv == v:
		labels["unsigned:width!=64"] = true
		return mech(sigUWidth, "UWIDTH", "unsigned %d bits value %d exports as %q (no width in the text), which reads back as unsigned 64 bits", w, v, text)
	case ti.kind == "float32" && rw == 32:
		x := math.Float32frombits(uint32(v))
		if ax := math.Abs(float64(x)); ax != 0 && ax < 0x1p-43 { // %.20f keeps fewer than 9 significant digits below 1e-12; exhaustive scan: largest failing pattern is 0x29fffffe, just below 2^-43
			labels["float32:|x|<2^-43"] = true
			return mech(sigF32, "F32", "float32 bits 0x%08x (%g) exports as %q, which reads back as bits 0x%08x (%g)", v, x, text, rv, math.Float32frombits(uint32(rv)))
		}
	case ti.kind == "lq" && rw == w:
		// signed band numbers
		sx := func(p uint64) int64 { return int64(p<<uint(64-w)) >> uint(64-w) }
		k, g := sx(v), sx(rv)
		pow2 := labels["lq:max-power-of-2"]
		if !pow2 && ((k > 0 && g == k-1) || (k < 0 && g == k+1)) {
			labels["lq:band-truncated"] = true
			return mech(sigLQTrunc, "LQTRUNC", "%s with range %v: band %d exports as %q, which reads back as band %d (int64(x/bandSize) truncates the rounding error of x=band*bandSize)", c.Type, c.LQMax, k, text, g)
		}
	}
	return fail("roundtrip", "exports as %q, which reads back as %s %d'b%s; expected %d'b%s", text, r.GetTypeName(), rw, rb, w, want)
}

var _ = rapid.Bool
