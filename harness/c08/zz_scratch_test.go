package c08
import ("testing";"fmt";"math";"strconv")
func TestScratch(t *testing.T){
  lo := math.Float32bits(1e-14); hi := math.Float32bits(2e-12)
  var maxFail uint32; nfail:=0; n:=0
  for b:=hi; b>=lo; b-- {
    x := math.Float32frombits(b)
    s := fmt.Sprintf("%.20f", float64(x))
    y,_ := strconv.ParseFloat(s,32)
    n++
    if math.Float32bits(float32(y))!=b { nfail++; if maxFail==0 { maxFail=b; fmt.Printf("largest failing: bits 0x%08x %g text %s reads back 0x%08x\n", b, x, s, math.Float32bits(float32(y))) } }
  }
  fmt.Println("scanned",n,"failing",nfail)
  // smallest passing nonzero
  for b:=uint32(1); b<hi; b++ { x:=math.Float32frombits(b); s:=fmt.Sprintf("%.20f", float64(x)); y,_:=strconv.ParseFloat(s,32); if math.Float32bits(float32(y))==b { fmt.Printf("smallest passing: 0x%08x %g %s\n", b,x,s); break } }
}
