package c08

// C08, histories: "a literal denotes exactly one typed bit pattern" also over time. Within one process the
// library is used through sequences of ImportString / CastType / ExportString calls (the REST server,
// basm resolving thousands of operands): what a literal means must not depend on what was done with the
// numbers obtained from earlier imports of the same or of other literals.
//
// Operations (data, so the whole history shrinks and replays): import a literal from a small pool (repeats
// are the point), cast a held number to another type, export a held number. Oracle: every import of a
// literal gives the type, width and bits of its first import (the registry is not changed by the history);
// a cast changes only the type of the number it is applied to, never the bits, and never another held number.

import (
	"fmt"
	"strings"

	"github.com/BondMachineHQ/BondMachine/pkg/bmnumbers"
	"pgregory.net/rapid"
	"verifharness/pbt"
)

type HOp struct {
	Kind string // import | cast | export
	Lit  int    // import: index into Pool
	Held int    // cast/export: index into the numbers held so far (modulo)
	Type string // cast: target type
}

type HCase struct {
	Pool []string
	Ops  []HOp
}

var castTargets = []string{"unsigned", "bin", "hex", "float32", "float16"}

var histLits = []string{"0x3fc00000", "0f<16>1.5", "0f1.5", "12", "0b101", "0x<8>ff", "0u<16>300", "0d17", "0f<32>-2.25", "0b<4>1001", "0xab", "0"}

func genHist(t *rapid.T) HCase {
	var c HCase
	n := rapid.IntRange(1, 4).Draw(t, "npool")
	for i := 0; i < n; i++ {
		if rapid.Bool().Draw(t, "fixedlit") {
			c.Pool = append(c.Pool, rapid.SampledFrom(histLits).Draw(t, "lit"))
		} else {
			w := genW(t)
			if w.Notation == "0lq<>" || w.Notation == "0fp<>" || w.Notation == "0fxp<>" {
				w.Notation, w.Payload = "0x", "1f" // dynamic notations need registry changes: kept out of this entry
			}
			c.Pool = append(c.Pool, w.literal())
		}
	}
	for i, m := 0, rapid.IntRange(3, 14).Draw(t, "nops"); i < m; i++ {
		switch rapid.IntRange(0, 5).Draw(t, "opkind") {
		case 0, 1, 2:
			c.Ops = append(c.Ops, HOp{Kind: "import", Lit: rapid.IntRange(0, n-1).Draw(t, "which")})
		case 3, 4:
			c.Ops = append(c.Ops, HOp{Kind: "cast", Held: rapid.IntRange(0, 15).Draw(t, "held"), Type: rapid.SampledFrom(castTargets).Draw(t, "target")})
		default:
			c.Ops = append(c.Ops, HOp{Kind: "export", Held: rapid.IntRange(0, 15).Draw(t, "held")})
		}
	}
	return c
}

type snap struct {
	ok   bool
	typ  string
	w    int
	bits string
	err  string
}

func snapOf(n *bmnumbers.BMNumber, err error) snap {
	if err != nil || n == nil {
		e := "nil number"
		if err != nil {
			e = err.Error()
		}
		return snap{err: e}
	}
	w, b, serr := shape(n)
	if serr != nil {
		return snap{ok: true, typ: n.GetTypeName(), err: serr.Error()}
	}
	return snap{ok: true, typ: n.GetTypeName(), w: w, bits: b}
}

func (s snap) String() string {
	if !s.ok {
		return "error(" + s.err + ")"
	}
	return fmt.Sprintf("%s %d'b%s", s.typ, s.w, s.bits)
}

func propHist(c HCase) (out pbt.Outcome) {
	baseline.restore()
	defer baseline.restore()
	first := map[string]snap{}
	var held []*bmnumbers.BMNumber
	var heldBits []string
	var trace []string
	repeats, casts := 0, 0
	fail := func(sig, format string, a ...any) pbt.Outcome {
		out.Fail = pbt.Failf(sig, "%s\nhistory so far:\n  %s", fmt.Sprintf(format, a...), strings.Join(trace, "\n  "))
		return out
	}
	for _, op := range c.Ops {
		switch op.Kind {
		case "import":
			if op.Lit < 0 || op.Lit >= len(c.Pool) {
				return pbt.Outcome{Excluded: "bad-case"}
			}
			lit := c.Pool[op.Lit]
			n, err := func() (n *bmnumbers.BMNumber, err error) {
				defer func() {
					if r := recover(); r != nil {
						err = fmt.Errorf("PANIC %v", r)
					}
				}()
				return bmnumbers.ImportString(lit)
			}()
			s := snapOf(n, err)
			trace = append(trace, fmt.Sprintf("import %q -> %s", lit, s))
			if f, seen := first[lit]; seen {
				repeats++
				if f.ok != s.ok || f.typ != s.typ || f.w != s.w || f.bits != s.bits {
					return fail("import-depends-on-history", "the literal %q first imported as %s now imports as %s", lit, f, s)
				}
			} else {
				first[lit] = s
			}
			if s.ok {
				held = append(held, n)
				heldBits = append(heldBits, s.bits)
			}
		case "cast":
			if len(held) == 0 {
				continue
			}
			i := op.Held % len(held)
			t := bmnumbers.GetType(op.Type)
			if t == nil {
				return pbt.Outcome{Excluded: "bad-case"}
			}
			err := bmnumbers.CastType(held[i], t)
			trace = append(trace, fmt.Sprintf("cast #%d to %s -> %v", i, op.Type, err))
			if err == nil {
				casts++
			}
			// no held number may change its bits (the cast one included: a cast re-types, it does not convert)
			for k, h := range held {
				if _, b, serr := shape(h); serr == nil && b != heldBits[k] && len(b) == len(heldBits[k]) {
					return fail("cast-changes-bits", "after casting #%d, held number #%d holds %s, it held %s", i, k, b, heldBits[k])
				}
			}
		case "export":
			if len(held) == 0 {
				continue
			}
			i := op.Held % len(held)
			txt, err := held[i].ExportString(nil)
			trace = append(trace, fmt.Sprintf("export #%d -> %q %v", i, txt, err))
		default:
			return pbt.Outcome{Excluded: "bad-case"}
		}
	}
	out.NonTrivial = repeats >= 1 && casts >= 1
	if repeats >= 1 {
		out.Labels = append(out.Labels, "re-import")
	}
	if casts >= 1 {
		out.Labels = append(out.Labels, "cast")
	}
	return out
}

const ruleHist = "histories of 3..14 operations on the number library inside one process: import of a literal from a pool of 1..4 (fixed well-known literals and literals of the static notations from the widths generator; repeats intended), CastType of a held number to unsigned/bin/hex/float32/float16, ExportString of a held number; oracle: every import of a literal gives the type, width and bits of its first import, and no cast changes the bits of any held number; non-trivial = at least one repeated import and one successful cast"

func init() {
	Props = append(Props, pbt.Def("history", ruleHist, genHist, propHist))
}
