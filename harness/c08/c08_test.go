// C08 — a numeric literal has one meaning, and printing then parsing returns it.
//
//	ambiguity  (ambiguity_test.go)  |{m in AllMatchers : m accepts s}| <= 1, every matcher run by hand in sorted order
//	roundtrip  (roundtrip_test.go)  import(export(v)) == v on type name, width and bits; ExportBinaryNBits / ExportVerilogBinary widths
//	widths     (widths_test.go)     sized and unsized notations import to the stated width and value, or reject what does not fit
//	FuzzImportString                native fuzz front door with the ambiguity oracle and "no panic" inside (thorough tier only)
//
// reg_test.go holds the registry snapshot, the deterministic matcher scan and the table of recorded mechanisms.
package c08

import (
	"strings"
	"testing"

	"verifharness/pbt"
)

var Props = []*pbt.Entry{
	pbt.Def("ambiguity",
		"strings drawn from the language of each registered matcher regex (static types + 0..3 generated dynamic types), raw or restricted to the alphabet `01.<>xbudfp-e`, their 1-2 character mutations, and a fixed corpus of literals from the repository plus hostile constants (and mutations of those); every matcher is run on the string in sorted order; non-trivial = at least one matcher accepts the string; distinct = distinct case JSON",
		genAmb, propAmb),
	pbt.Def("roundtrip",
		"a bit pattern of every type: unsigned/bin/hex/signed of 1..64 bits (boundary-weighted widths and values), float16/float32 patterns (normal, small normal, subnormal, +-0, +-inf, NaN), fixed point fps/fxps <s.f> s 1..32 f 0..40, linear quantiser lqs<s>t<t> with a generated range, FloPoCo <e.f>; built with ImportBytes+CastType, exported, re-imported through the single accepting matcher; plus ExportBinaryNBits(n) for n around the value's length and the width; non-trivial = value is neither 0 nor all-ones (and the case is not in an excluded class); distinct = distinct case JSON",
		genRT, propRT),
	pbt.Def("widths",
		"literals of every sized notation (0u<n> 0d<n> 0b<n> 0x<n> 0f<16> 0f<32> 0fp<s.f> 0fxp<s.f> 0lq<s.t>) and every unsized one (plain 0u 0d 0b 0x 0s 0sd 0f) with payloads placed around 2^n (largest fitting, smallest not fitting, 0, 1, random, leading zeros); expected acceptance/width/value computed with math/big from the notation's documented rules; non-trivial = sized notation and (accepted with a non-zero value, or rejected because the value does not fit); distinct = distinct case JSON",
		genW, propW),
}

func TestProps(t *testing.T)  { pbt.RunAll(t, "C08", Props) }
func TestReplay(t *testing.T) { pbt.ReplayAll(t, "C08", Props) }

// FuzzImportString: byte-level front door. Oracle: the ambiguity clause (every matcher run in sorted
// order, at most one acceptor) and no panic of any accepting import function or of the exports of the
// number it returns. The D2 pair is skipped while it is a recorded open finding (see judged()).
func FuzzImportString(f *testing.F) {
	for _, s := range []string{"0u100", "0d100", "0u1.0", "0x<12>f", "0x<16>ff", "0f1e-30", "0f<16>1e10", "0f<32>NaN", "0b<3>101", "0b<0>1",
		"0u<8>255", "0u<64>18446744073709551615", "0fp<8.4>1.5", "0fp<33.4>1", "0fp<8.99>1", "0fxp<1.0>-1", "0lq<8.1>0.5", "0lq<8.0>1",
		"0s-9223372036854775808", "0sd5", "18446744073709551616", "0x", "0f", "0f<", "0fp<0.0>nan", "0b<99999999999999999999>1", "0x<-8>ff"} {
		f.Add(s)
	}
	f.Fuzz(func(t *testing.T, s string) {
		pbt.FuzzTrace(s)
		if len(s) > 96 {
			t.Skip()
		}
		baseline.restore()
		defer baseline.restore()
		acc := acceptors(s)
		if len(acc) > 1 && !(d2Pair(acc) && !judged(sigD2, false)) {
			t.Fatalf("literal %q is claimed by %d notations: %s", s, len(acc), strings.Join(acc, "  "))
		}
		for _, k := range acc {
			if isFloPoCoMatcher(k) {
				continue // external tool
			}
			if k == "^0b<(?P<bits>[0-9]+)>(?P<bin>[0-1]+)$" || k == "^0x<(?P<bits>[0-9]+)>(?P<hex>[0-9a-fA-F]+)$" {
				// the stated size is allocated: keep the fuzzer from asking for gigabytes (documented assumption)
				if i := strings.IndexByte(s, '>'); i > 7 {
					continue
				}
			}
			n, err := importWith(k, s) // a panic here fails the fuzz target
			if err != nil || n == nil {
				continue
			}
			_, _ = n.ExportBinary(true)
			_, _ = n.ExportVerilogBinary()
			_, _ = n.ExportUint64()
			_ = n.GetBytes()
			if _, err := n.ExportString(nil); err != nil && n.GetTypeName() != "signed" {
				t.Fatalf("literal %q imports as %s but ExportString fails: %v", s, n.GetTypeName(), err)
			}
		}
	})
}
