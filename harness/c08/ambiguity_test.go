package c08

// Entry "ambiguity": at most one notation claims any given string.

import (
	"fmt"
	"regexp/syntax"
	"sort"
	"strings"
	"sync"

	"pgregory.net/rapid"
	"verifharness/pbt"
)

type ACase struct {
	Types  []string // dynamic type names created (EventuallyCreateType) before the matchers are collected
	S      string   // the literal
	Src    string   // provenance of S, statistics only: lang0|lang1|lang2 (alphabet bias), mut, corpus, corpus-mut
	Strict bool     // replay of a recorded finding: judge recorded mechanisms instead of excluding them
}

// the tiny alphabet of DESIGN §C08 (languages collide on it) and the one mutations draw from
var tinyAlpha = []rune("01.<>xbudfp-e")
var mutAlpha = []rune("01.<>xbudfp-eslq23468+aFN")

// corpus: literals harvested once from /repo (pkg/bmnumbers tests and README, docs, basm examples,
// neuralbond templates) plus the hostile constants named in the task. Fixed: part of the generator.
var corpus = []string{
	// pkg/bmnumbers/dataset_test.go, type_unsigned_test.go, README.md
	"56", "0x901", "0b10101", "0d56", "0f56", "0finfinity", "0fNaN", "0f4e-4", "0flp<4.4>1.45", "0flp<5.7>-4.3",
	"0u<8>255", "0u<8>0", "0u<8>256", "0u<16>1000", "0u<16>65535", "0u<16>65536", "0u<32>123456", "0u<32>4294967295",
	"0u<64>9876543210", "0d<8>200", "0d<16>5000", "0u<4>15", "0u<4>16", "0u<1>0", "0u<1>1", "0u<1>2", "0u<0>10",
	"0u<65>10", "0u<12>2048", "0u<12>4095", "0u<8>42", "0u<4>7", "0u<16>1234", "1234",
	"0u42", "0x2a", "0b101010", "0f32.5", "0x<8>2a", "0b<6>101010", "0f<32>32.5", "0b<64>101010",
	// other places of the tree (docs, basm examples, simbox, neuralbond)
	"0x40400000", "0x80000000", "0x0800", "0xFF", "0xff", "0x0", "0f1.0", "0f0", "0f0.0", "0f0.45", "0f-1",
	"0lq<16.1>12.542724609375", "0b<8>101010", "0b<4>111", "0b<16>1111101000", "0b<11>1001110111",
	"0b<32>1111111110000000000000000000000",
	// hostile constants
	"0u100", "0d100", "0u10", "0d10", "0u1.0", "0d1.0", "0u1.00", "0u1x0", "0u1000", "0u0.0", "0u00",
	"0x<12>f", "0x<16>ff", "0x<8>f", "0f1e-30", "0f<16>1", "0f<32>1", "0f<8>1", "0f<16>", "0f<32>", "0f", "0f<",
	"0fp<8.4>1.5", "0fxp<8.4>1.5", "0lq<8.1>0.5", "0fp<8.4>", "0fp", "0flp", "0fxp", "0lq", "0flp<4.4>1",
	"0s-5", "0sd-5", "0s5", "0sd5", "0s", "0sd", "0s-", "0", "", "0u", "0d", "0b", "0x", "0b<1>1", "0x<8>1",
	"0fl", "0fx1", "0fP1", "0fL1", "0f<16>l", "0f<32>p", "0f<32>x1", "0f<321>", "0f<16>0f<32>1",
}

// restrictExpr rewrites a matcher regex so that it generates a sub-language on a small alphabet:
// wildcards and (mode 1) huge classes / (mode 2) every class are intersected with alpha; a class whose
// intersection is empty is kept. The result only feeds the generator; the oracle uses the original.
func restrictExpr(expr string, alpha []rune, every bool) (string, error) {
	re, err := syntax.Parse(expr, syntax.Perl)
	if err != nil {
		return "", err
	}
	var walk func(r *syntax.Regexp)
	walk = func(r *syntax.Regexp) {
		switch r.Op {
		case syntax.OpAnyChar, syntax.OpAnyCharNotNL:
			r.Op = syntax.OpCharClass
			r.Rune = pairs(alpha)
		case syntax.OpCharClass:
			var inter []rune
			size := 0
			for i := 0; i+1 < len(r.Rune); i += 2 {
				size += int(r.Rune[i+1]-r.Rune[i]) + 1
			}
			for _, a := range alpha {
				for i := 0; i+1 < len(r.Rune); i += 2 {
					if a >= r.Rune[i] && a <= r.Rune[i+1] {
						inter = append(inter, a)
						break
					}
				}
			}
			if len(inter) > 0 && (every || size > 64) {
				r.Rune = pairs(inter)
			}
		}
		for _, s := range r.Sub {
			walk(s)
		}
	}
	walk(re)
	return re.String(), nil
}

func pairs(rs []rune) []rune {
	s := append([]rune(nil), rs...)
	sort.Slice(s, func(i, j int) bool { return s[i] < s[j] })
	var out []rune
	for i, r := range s {
		if i > 0 && s[i-1] == r {
			continue
		}
		out = append(out, r, r)
	}
	return out
}

var (
	genMu    sync.Mutex
	genCache = map[string]*rapid.Generator[string]{}
)

// langGen: strings of L(expr) (mode 0), or of its restriction to the small alphabet (mode 1: wildcards
// and negated classes only; mode 2: every class).
func langGen(expr string, mode int) *rapid.Generator[string] {
	key := fmt.Sprintf("%d|%s", mode, expr)
	genMu.Lock()
	defer genMu.Unlock()
	if g, ok := genCache[key]; ok {
		return g
	}
	e := expr
	if mode > 0 {
		if r, err := restrictExpr(expr, tinyAlpha, mode == 2); err == nil {
			e = r
		}
	}
	g := rapid.StringMatching(e)
	genCache[key] = g
	return g
}

func genDynNames(t *rapid.T) []string {
	n := rapid.IntRange(0, 3).Draw(t, "ntypes")
	var names []string
	for i := 0; i < n; i++ {
		a := rapid.IntRange(1, 32).Draw(t, "a")
		b := rapid.IntRange(1, 24).Draw(t, "b")
		switch rapid.IntRange(0, 3).Draw(t, "family") {
		case 0:
			names = append(names, fmt.Sprintf("flpe%df%d", a%12+1, b))
		case 1:
			names = append(names, fmt.Sprintf("fps%df%d", a, b%(a+1)))
		case 2:
			names = append(names, fmt.Sprintf("fxps%df%d", a, b%(a+1)))
		default:
			names = append(names, fmt.Sprintf("lqs%dt%d", a, b%3+1))
		}
	}
	return names
}

func mutate(t *rapid.T, s string) string {
	r := []rune(s)
	n := rapid.IntRange(1, 2).Draw(t, "nmut")
	for i := 0; i < n; i++ {
		ch := rapid.SampledFrom(mutAlpha).Draw(t, "ch")
		switch op := rapid.IntRange(0, 2).Draw(t, "op"); {
		case op == 0 && len(r) > 0: // replace
			r[rapid.IntRange(0, len(r)-1).Draw(t, "pos")] = ch
		case op == 1 && len(r) > 0: // delete
			p := rapid.IntRange(0, len(r)-1).Draw(t, "pos")
			r = append(r[:p:p], r[p+1:]...)
		default: // insert
			p := rapid.IntRange(0, len(r)).Draw(t, "pos")
			r = append(r[:p:p], append([]rune{ch}, r[p:]...)...)
		}
	}
	return string(r)
}

func genAmb(t *rapid.T) ACase {
	var c ACase
	c.Types = genDynNames(t)
	// the matcher set the case will see (static + created dynamic types), in sorted order
	baseline.restore()
	_ = createTypes(c.Types)
	ms := sortedMatchers()
	baseline.restore()

	lang := func() (string, int) {
		i := rapid.IntRange(0, len(ms)-1).Draw(t, "matcher")
		mode := rapid.SampledFrom([]int{0, 1, 2, 2}).Draw(t, "mode")
		return langGen(ms[i], mode).Draw(t, "s"), mode
	}
	switch rapid.SampledFrom([]string{"lang", "lang", "lang", "mut", "mut", "corpus", "corpus-mut"}).Draw(t, "kind") {
	case "lang":
		s, mode := lang()
		c.S, c.Src = s, fmt.Sprintf("lang%d", mode)
	case "mut":
		s, _ := lang()
		c.S, c.Src = mutate(t, s), "mut"
	case "corpus":
		c.S, c.Src = rapid.SampledFrom(corpus).Draw(t, "lit"), "corpus"
	default:
		c.S, c.Src = mutate(t, rapid.SampledFrom(corpus).Draw(t, "lit")), "corpus-mut"
	}
	return c
}

// describe shows what each acceptor would make of s (the two meanings of an ambiguous literal).
func describe(acc []string, s string) string {
	var b strings.Builder
	for _, k := range acc {
		fmt.Fprintf(&b, "\n  %s", k)
		if isFloPoCoMatcher(k) {
			b.WriteString("  -> (external fp2bin, not executed)")
			continue
		}
		n, err := importWith(k, s)
		switch {
		case err != nil:
			fmt.Fprintf(&b, "  -> error %v", err)
		case n == nil:
			b.WriteString("  -> nil number, nil error")
		default:
			bin, _ := n.ExportBinary(true)
			fmt.Fprintf(&b, "  -> %s %s", n.GetTypeName(), bin)
		}
	}
	return b.String()
}

func propAmb(c ACase) pbt.Outcome {
	baseline.restore()
	defer baseline.restore()
	if err := createTypes(c.Types); err != nil {
		return pbt.Outcome{Excluded: "bad-case:" + err.Error()}
	}
	acc := acceptors(c.S)
	labels := map[string]bool{"src:" + c.Src: true, fmt.Sprintf("acceptors:%d", len(acc)): true}
	for _, k := range acc {
		labels["m:"+mlabel(k)] = true
	}
	out := pbt.Outcome{NonTrivial: len(acc) >= 1, Labels: labelsOf(labels)}
	if len(acc) <= 1 {
		return out
	}
	if d2Pair(acc) {
		if !judged(sigD2, c.Strict) {
			out.Excluded = "D2"
			return out
		}
		out.Fail = pbt.Failf(sigD2, "literal %q is claimed by %d notations:%s", c.S, len(acc), describe(acc, c.S))
		return out
	}
	ls := make([]string, len(acc))
	for i, k := range acc {
		ls[i] = mlabel(k)
	}
	out.Fail = pbt.Failf("overlap:"+strings.Join(ls, "|"), "literal %q is claimed by %d notations:%s", c.S, len(acc), describe(acc, c.S))
	return out
}
