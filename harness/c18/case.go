// Package c18 decides property C18 (every generated HDL file set is self-consistent,
// synthesizable Verilog) by generated-input search.
//
// This file: the case type (machines as data), the builder that turns a case into live
// /repo structs through the public API only and then through the JSON form the CLI reads
// (bondmachine -bondmachine-file x.json -create-verilog operates on a Dejsoner()ed machine),
// and the renderer that runs Bondmachine.Write_verilog in a private scratch directory and
// reads every written file back.
package c18

import (
	"encoding/json"
	"fmt"
	"os"
	"path/filepath"
	"sort"
	"strconv"
	"strings"
	"sync"
	"sync/atomic"

	"github.com/BondMachineHQ/BondMachine/pkg/bmline"
	"github.com/BondMachineHQ/BondMachine/pkg/bmnumbers"
	"github.com/BondMachineHQ/BondMachine/pkg/bmreqs"
	"github.com/BondMachineHQ/BondMachine/pkg/bondmachine"
	"github.com/BondMachineHQ/BondMachine/pkg/procbuilder"
	"github.com/BondMachineHQ/BondMachine/pkg/simbox"
)

// Proc is one processor (with its own domain) as data.
type Proc struct {
	Mode          string // ha | vn | hy
	R, N, M, L, O int
	Threaded      int
	Ops           []string // opcode names, static or dynamic; sorted and de-duplicated by the builder
	Prog          []string // assembly lines; lines the assembler refuses are dropped (ROM contents do not matter to C18)
	SOs           []int    // attached shared objects, indices into Case.SOs, in attachment order
}

// Case is a whole machine plus the generation options as data.
type Case struct {
	Rsize        int
	Procs        []Proc
	Inputs       int
	Outputs      int
	Bonds        [][2]string // {sink (internal input name), source (internal output name)}
	SOs          []string    // shared objects in the textual form -add-shared-objects accepts
	OnlyDestRegs bool        // -hw-optimizations onlydestregs with the requirement tree derived from the programs
	Commented    bool        // -comment-verilog
	Strict       bool        // replay files of recorded findings: judge the recorded signatures too
	Focus        string      `json:",omitempty"` // replay files of recorded findings: judge only this signature (implies Strict for it)
	// Twin: processor 1 is a second instance of processor 0's domain (its own Proc entry only contributes its
	// shared-object attachments, which may differ from processor 0's)
	Twin bool `json:",omitempty"`
}

// ---------------------------------------------------------------------------
// process-wide registries

var (
	staticOps   []procbuilder.Opcode // statically registered opcodes, captured before any dynamic name is created
	staticNames []string
	setupOnce   sync.Once
)

// lqRanges: a CLI gets them from -linear-data-range (cmd/bondmachine/bondmachine.go:225-243): the
// bmnumbers map is filled and the procbuilder DynLinearQuantizer entry is re-registered with a
// pointer to the same map. Without that step every *lqs* opcode is refused by the tool.
var lqRanges = map[int]float64{1: 1.0, 2: 10.5}

func setup() {
	setupOnce.Do(func() {
		staticOps = append([]procbuilder.Opcode(nil), procbuilder.Allopcodes...)
		for _, op := range staticOps {
			staticNames = append(staticNames, op.Op_get_name())
		}
		var lq *map[int]bmnumbers.LinearDataRange
		for _, t := range bmnumbers.AllDynamicalTypes {
			if t.GetName() == "dyn_linear_quantizer" {
				lq = t.(bmnumbers.DynLinearQuantizer).Ranges
			}
		}
		if lq != nil {
			if *lq == nil {
				*lq = map[int]bmnumbers.LinearDataRange{}
			}
			for k, v := range lqRanges {
				(*lq)[k] = bmnumbers.LinearDataRange{Max: v}
			}
			for i, t := range procbuilder.AllDynamicalInstructions {
				if t.GetName() == "dyn_linear_quantizer" {
					d := t.(procbuilder.DynLinearQuantizer)
					d.Ranges = lq
					procbuilder.AllDynamicalInstructions[i] = d
				}
			}
		}
	})
}

// StaticNames lists the statically registered opcode names, sorted.
func StaticNames() []string {
	setup()
	r := append([]string(nil), staticNames...)
	sort.Strings(r)
	return r
}

func resetRegistry() {
	setup()
	procbuilder.Allopcodes = append([]procbuilder.Opcode(nil), staticOps...)
}

// lookup resolves a name the way the front-ends do (cmd/procbuilder/procbuilder.go:220-241):
// EventuallyCreateInstruction, then a search of Allopcodes.
func lookup(name string) (procbuilder.Opcode, error) {
	if familyOf(name) != "" {
		if _, err := procbuilder.EventuallyCreateInstruction(name); err != nil {
			return nil, fmt.Errorf("EventuallyCreateInstruction(%q): %v", name, err)
		}
	}
	for _, op := range procbuilder.Allopcodes {
		if op.Op_get_name() == name {
			return op, nil
		}
	}
	return nil, fmt.Errorf("unknown opcode %q", name)
}

// ---------------------------------------------------------------------------
// builder

type outOfDomain struct{ why string }

func (e outOfDomain) Error() string { return e.why }

func safely(f func() error) (err error) {
	defer func() {
		if r := recover(); r != nil {
			err = fmt.Errorf("panic: %v", r)
		}
	}()
	return f()
}

type built struct {
	bm       *bondmachine.Bondmachine
	rg       *bmreqs.ReqRoot
	asmDrops int
}

// build makes the live machine. An error of type outOfDomain means "the tool itself refuses
// this machine" (the case is counted as excluded); any other error is a malformed case.
func build(c Case) (*built, error) {
	resetRegistry()
	if c.Rsize < 1 || c.Rsize > 255 || len(c.Procs) == 0 {
		return nil, fmt.Errorf("malformed case")
	}
	for _, p := range c.Procs {
		if p.Mode != "ha" && p.Mode != "vn" && p.Mode != "hy" {
			return nil, outOfDomain{"unknown-execution-model"} // cmd/procbuilder/procbuilder.go:128-133
		}
		for _, n := range p.Ops {
			switch familyOf(n) {
			case "flpe":
				// DynFloPoCo.CreateInstruction runs the external `flopoco` binary (dynamical_flopoco.go:82): absent here
				return nil, outOfDomain{"needs-external-tool:flopoco"}
			case "fxps":
				// FXP.ExtraFiles reads /tmp/fxpcode/*.v and calls log.Fatal when they are missing (dynop_fxp.go:402)
				if _, err := os.Stat("/tmp/fxpcode/fxp_zoom.v"); err != nil {
					return nil, outOfDomain{"needs-external-files:/tmp/fxpcode"}
				}
			}
		}
		for _, so := range p.SOs {
			if so < 0 || so >= len(c.SOs) {
				return nil, fmt.Errorf("malformed case: shared object index")
			}
		}
	}
	b := new(built)
	bm := new(bondmachine.Bondmachine)
	bm.Rsize = uint8(c.Rsize)
	bm.Init()
	for _, p := range c.Procs {
		m := new(procbuilder.Machine)
		a := &m.Arch
		a.Rsize = uint8(c.Rsize)
		a.Modes = []string{p.Mode}
		a.R, a.N, a.M, a.L, a.O = uint8(p.R), uint8(p.N), uint8(p.M), uint8(p.L), uint8(p.O)
		a.Threaded = p.Threaded
		names := append([]string(nil), p.Ops...)
		sort.Strings(names)
		var ops []procbuilder.Opcode
		for i, n := range names {
			if i > 0 && n == names[i-1] {
				continue // cmd/procbuilder refuses duplicates; a set has none
			}
			op, err := lookup(n)
			if err != nil {
				return nil, outOfDomain{"opcode-refused:" + familyOf(n)}
			}
			ops = append(ops, op)
		}
		if len(ops) == 0 {
			return nil, outOfDomain{"no-opcodes"} // cmd/procbuilder: "Missing opcodes"
		}
		sort.Sort(procbuilder.ByName(ops))
		a.Op = ops
		bm.Domains = append(bm.Domains, m)
	}
	for i := 0; i < c.Inputs; i++ {
		bm.Add_input()
	}
	for i := 0; i < c.Outputs; i++ {
		bm.Add_output()
	}
	for i := range c.Procs {
		dom := i
		if c.Twin && i == 1 {
			dom = 0
		}
		if _, err := bm.Add_processor(dom); err != nil {
			return nil, err
		}
	}
	bm.Add_shared_objects(c.SOs)
	if len(bm.Shared_objects) != len(c.SOs) {
		return nil, outOfDomain{"shared-object-string-refused"}
	}
	for i, p := range c.Procs {
		for _, so := range p.SOs {
			bm.Connect_processor_shared_object([]string{strconv.Itoa(i), strconv.Itoa(so)})
		}
	}
	for _, bd := range c.Bonds {
		bm.Add_bond([]string{bd[0], bd[1]})
	}
	// The constraint string of a domain is the comma-joined String() of the shared objects linked to
	// its processor: basm sets it before assembling (creatorbm.go:217), Write_verilog recomputes it
	// (verilog.go:66-75).
	for p := range bm.Processors {
		var parts []string
		for _, so := range bm.Shared_links[p] {
			parts = append(parts, bm.Shared_objects[so].String())
		}
		bm.Domains[bm.Processors[p]].Arch.Shared_constraints = strings.Join(parts, ",")
	}
	// ConstraintCheck is what cmd/procbuilder asks before it does anything with a machine
	for _, m := range bm.Domains {
		var ok bool
		if err := safely(func() error { _, ok = m.ConstraintCheck(); return nil }); err != nil || !ok {
			return nil, outOfDomain{"constraint-check-fails"}
		}
	}
	// programs
	for i, p := range c.Procs {
		m := bm.Domains[i]
		a := &m.Arch
		limit := 1 << uint(p.O)
		switch p.Mode {
		case "vn":
			limit = 1 << uint(p.L)
		case "hy":
			if p.L > p.O {
				limit = 1 << uint(p.L)
			}
		}
		var slocs []string
		for _, l := range p.Prog {
			if len(slocs) >= limit {
				break
			}
			var w string
			err := safely(func() error {
				var e error
				w, e = a.Assembler_process_line([]byte(l))
				return e
			})
			if err != nil || w == "" {
				b.asmDrops++
				continue
			}
			slocs = append(slocs, w)
		}
		m.Program = procbuilder.Program{Slocs: slocs}
	}
	// the CLI generates from the JSON form
	raw, err := json.Marshal(bm.Jsoner())
	if err != nil {
		return nil, err
	}
	var bmj bondmachine.Bondmachine_json
	if err := json.Unmarshal(raw, &bmj); err != nil {
		return nil, err
	}
	var loaded *bondmachine.Bondmachine
	if err := safely(func() error { loaded = (&bmj).Dejsoner(); return nil }); err != nil {
		return nil, outOfDomain{"dejsoner-panics"}
	}
	loaded.Init()
	for _, m := range loaded.Domains {
		for _, op := range m.Op {
			if op == nil {
				return nil, outOfDomain{"opcode-lost-on-reload"}
			}
		}
	}
	for _, so := range loaded.Shared_objects {
		if so == nil {
			return nil, outOfDomain{"shared-object-lost-on-reload"}
		}
	}
	b.bm = loaded
	if c.OnlyDestRegs {
		// the requirement tree is derived from the programs exactly as the front-end does it: every
		// instruction registers its requirements through its opcode's HLAssemblerNormalize (basm writes
		// the tree to the file -bmrequirements-file reads)
		rg := bmreqs.NewReqRoot()
		rg.Requirement(bmreqs.ReqRequest{Node: "/", T: bmreqs.ObjectSet, Name: "bm", Value: "cps", Op: bmreqs.OpAdd})
		for i, p := range c.Procs {
			node := "/bm:cps/id:" + strconv.Itoa(i)
			rg.Requirement(bmreqs.ReqRequest{Node: "/bm:cps", T: bmreqs.ObjectSet, Name: "id", Value: strconv.Itoa(i), Op: bmreqs.OpAdd})
			a := &loaded.Domains[i].Arch
			for _, l := range p.Prog {
				f := strings.Fields(l)
				if len(f) == 0 {
					continue
				}
				var op procbuilder.Opcode
				for _, o := range a.Op {
					if o.Op_get_name() == f[0] {
						op = o
					}
				}
				if op == nil {
					continue
				}
				_ = safely(func() error {
					bl, err := bmline.Text2BasmLine(strings.Join(f, "::"))
					if err != nil {
						return err
					}
					_, err = op.HLAssemblerNormalize(a, rg, node, bl)
					return err
				})
			}
		}
		b.rg = rg
	}
	return b, nil
}

func (b *built) close() {
	if b.rg != nil {
		b.rg.Close()
	}
}

// ---------------------------------------------------------------------------
// rendering: Write_verilog writes into the process CWD

var (
	cwdMu      sync.Mutex
	scratchSeq uint64
)

func scratchBase() string {
	if w := os.Getenv("VERIF_WORK"); w != "" {
		return w
	}
	return os.TempDir()
}

// render runs Bondmachine.Write_verilog (flavour iverilog, empty non-nil simbox, no extra modules)
// in a fresh private directory and returns every file it left there.
func render(c Case, b *built) (files map[string]string, err error) {
	cwdMu.Lock()
	defer cwdMu.Unlock()
	old, err := os.Getwd()
	if err != nil {
		return nil, err
	}
	dir := filepath.Join(scratchBase(), fmt.Sprintf("c18-%d-%d", os.Getpid(), atomic.AddUint64(&scratchSeq, 1)))
	if err := os.MkdirAll(dir, 0o755); err != nil {
		return nil, err
	}
	defer os.RemoveAll(dir)
	if err := os.Chdir(dir); err != nil {
		return nil, err
	}
	defer os.Chdir(old)
	conf := new(bondmachine.Config)
	conf.CommentedVerilog = c.Commented
	if c.OnlyDestRegs {
		conf.ReqRoot = b.rg
		conf.HwOptimizations = procbuilder.SetHwOptimization(conf.HwOptimizations, procbuilder.HwOptimizations(procbuilder.OnlyDestRegs))
	}
	var werr error
	perr := safely(func() error {
		werr = b.bm.Write_verilog(conf, "iverilog", new(bondmachine.IOmap), nil, new(simbox.Simbox))
		return nil
	})
	if perr != nil {
		return nil, perr
	}
	if werr != nil {
		return nil, outOfDomain{"write-verilog-error:" + werr.Error()}
	}
	ents, err := os.ReadDir(dir)
	if err != nil {
		return nil, err
	}
	files = map[string]string{}
	for _, e := range ents {
		if e.IsDir() {
			continue
		}
		raw, err := os.ReadFile(filepath.Join(dir, e.Name()))
		if err != nil {
			return nil, err
		}
		files[e.Name()] = string(raw)
	}
	return files, nil
}
