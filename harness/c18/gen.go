package c18

import (
	"fmt"
	"sort"
	"strconv"
	"strings"
	"sync"

	"pgregory.net/rapid"
	"verifharness/gen"
)

// one instance per dynamic family, created through procbuilder.EventuallyCreateInstruction
var dynInstances = []string{
	"rsets5", "rsets12",
	"callo4rs", "calla4rs", "ret4rs",
	"push3ds", "pull3ds",
	"addfps16f8", "multfps16f8", "divfps16f8",
	"addlqs8t1", "multlqs8t1", "divlqs8t2",
	"addfxps16f8", // refused without /tmp/fxpcode (counted)
	"addflpe5f10", // refused without the flopoco binary (counted)
}

var heavyOps = map[string]bool{"addf": true, "addf16": true, "multf": true, "multf16": true, "divf": true, "divf16": true}

var dynUsable, dynRefused []string

func init() {
	for _, n := range dynInstances {
		if f := familyOf(n); f == "fxps" || f == "flpe" {
			dynRefused = append(dynRefused, n)
		} else {
			dynUsable = append(dynUsable, n)
		}
	}
}

// plainOps: static opcodes that talk to no shared object
func plainOps() []string {
	var r []string
	for _, n := range StaticNames() {
		if i, ok := opTable[n]; ok && i.so == "" {
			r = append(r, n)
		}
	}
	return r
}

// progLine writes one assembly line for an opcode with in-range operands.
func progLine(name string, p Proc, soIdx map[string]int, pick func(n int) int) string {
	info, ok := infoOf(name)
	if !ok {
		return ""
	}
	line := name
	for _, a := range strings.Fields(info.args) {
		switch a {
		case "r":
			line += " r" + strconv.Itoa(pick(1<<uint(p.R)))
		case "in":
			if p.N == 0 {
				return ""
			}
			line += " i" + strconv.Itoa(pick(p.N))
		case "out":
			if p.M == 0 {
				return ""
			}
			line += " o" + strconv.Itoa(pick(p.M))
		case "imm", "loc", "rom", "ram", "nice", "vaddr":
			line += " " + strconv.Itoa(pick(2))
		case "so":
			n, ok := soIdx[info.so]
			if !ok || n == 0 {
				return ""
			}
			line += " " + soShort[info.so] + strconv.Itoa(pick(n))
		}
	}
	return line
}

func soParams(t *rapid.T, kind string, np int) string {
	switch kind {
	case "sharedmem":
		return "sharedmem:" + strconv.Itoa(rapid.IntRange(1, 5).Draw(t, "depth"))
	case "channel":
		return "channel:"
	case "barrier":
		return "barrier:" + strconv.Itoa(rapid.SampledFrom([]int{0, 1, 4, 7, 100}).Draw(t, "timeout"))
	case "lfsr8":
		return "lfsr8:" + strconv.Itoa(rapid.IntRange(0, 255).Draw(t, "seed"))
	case "queue":
		return "queue:" + strconv.Itoa(rapid.IntRange(1, 9).Draw(t, "depth"))
	case "stack":
		return "stack:" + strconv.Itoa(rapid.IntRange(1, 9).Draw(t, "depth"))
	case "uart":
		return "uart:" + strconv.Itoa(rapid.SampledFrom([]int{9600, 115200}).Draw(t, "baud")) + ":" + strconv.Itoa(rapid.IntRange(1, 8).Draw(t, "depth"))
	case "kbd":
		return "kbd:" + strconv.Itoa(rapid.IntRange(1, 8).Draw(t, "depth"))
	case "vtextmem":
		// one box per processor: Write_verilog indexes Boxes by attachment order and
		// GetExternalPortsWires by processor id (shr_vtextmem.go:197,318)
		s := "vtextmem"
		for p := 0; p < np; p++ {
			s += fmt.Sprintf(":%d:%d:%d:%d:%d", p, rapid.IntRange(0, 40).Draw(t, "left"), rapid.IntRange(0, 20).Draw(t, "top"),
				rapid.IntRange(1, 16).Draw(t, "width"), rapid.IntRange(1, 8).Draw(t, "height"))
		}
		return s
	}
	return kind + ":"
}

func defaultSO(kind string, np int) string {
	switch kind {
	case "channel":
		return "channel:"
	case "uart":
		return "uart:115200:4"
	case "vtextmem":
		s := "vtextmem"
		for p := 0; p < np; p++ {
			s += fmt.Sprintf(":%d:%d:0:8:4", p, 10*p)
		}
		return s
	case "lfsr8":
		return "lfsr8:7"
	}
	return kind + ":4"
}

func genRandom(t *rapid.T) Case {
	setup()
	if rapid.IntRange(0, 5).Draw(t, "kind") == 0 {
		return fromSpec(gen.HandshakeMachine(t, gen.HSOptions{MaxProcs: 3, MaxPad: 2}), t)
	}
	var c Case
	c.Rsize = rapid.OneOf(rapid.SampledFrom([]int{8, 16, 32, 64}), rapid.IntRange(8, 64)).Draw(t, "rsize")
	np := rapid.IntRange(1, 3).Draw(t, "nprocs")
	c.OnlyDestRegs = rapid.Bool().Draw(t, "onlydestregs")
	c.Commented = rapid.Bool().Draw(t, "commented")
	// shared objects and their attachment
	nso := rapid.SampledFrom([]int{0, 0, 1, 1, 1, 2, 3}).Draw(t, "nso")
	attach := make([][]int, np) // per processor: so indices
	for s := 0; s < nso; s++ {
		kind := rapid.SampledFrom(soKinds).Draw(t, "sokind")
		c.SOs = append(c.SOs, soParams(t, kind, np))
		want := rapid.IntRange(1, np).Draw(t, "attached")
		perm := rapid.Permutation([]int{0, 1, 2}[:np]).Draw(t, "attachorder")
		for _, p := range perm[:want] {
			attach[p] = append(attach[p], s)
		}
	}
	cfgDeviate := rapid.IntRange(0, 9).Draw(t, "deviate") == 0 // one case in ten leaves the front-end shape
	plain := plainOps()
	var light []string
	for _, n := range plain {
		if !heavyOps[n] {
			light = append(light, n)
		}
	}
	for p := 0; p < np; p++ {
		var pr Proc
		pr.Mode = rapid.SampledFrom([]string{"ha", "ha", "ha", "vn", "hy", "hy"}).Draw(t, "mode")
		pr.R = rapid.SampledFrom([]int{1, 1, 2, 3}).Draw(t, "R")
		pr.O = rapid.IntRange(1, 5).Draw(t, "O")
		pr.SOs = attach[p]
		set := map[string]bool{}
		nops := rapid.IntRange(1, 8).Draw(t, "nops")
		for i := 0; i < nops; i++ {
			var n string
			if k := rapid.IntRange(0, 199).Draw(t, "dyn"); k < 25 {
				n = rapid.SampledFrom(dynUsable).Draw(t, "dynop")
			} else if k == 25 {
				n = rapid.SampledFrom(dynRefused).Draw(t, "dynop-refused") // the tool refuses these here: counted
			} else {
				n = rapid.SampledFrom(plain).Draw(t, "op")
				if heavyOps[n] && rapid.IntRange(0, 3).Draw(t, "heavy") != 0 {
					// the embedded floating point cores are thousands of lines per use: one draw in four keeps them
					n = rapid.SampledFrom(light).Draw(t, "lightop")
				}
			}
			info, _ := infoOf(n)
			if !info.okIn(pr.Mode) && !cfgDeviate {
				continue
			}
			set[n] = true
		}
		// the opcodes of the attached shared objects: a non-empty subset each
		for _, s := range pr.SOs {
			ops := soOps[soKindOf(c.SOs[s])]
			mask := rapid.IntRange(1, (1<<uint(len(ops)))-1).Draw(t, "soops")
			if cfgDeviate && rapid.IntRange(0, 3).Draw(t, "so-unused") == 0 {
				mask = 0
			}
			for k, o := range ops {
				if mask&(1<<uint(k)) != 0 {
					set[o] = true
				}
			}
		}
		if cfgDeviate && rapid.IntRange(0, 2).Draw(t, "so-missing") == 0 {
			k := rapid.SampledFrom(soKinds).Draw(t, "orphankind")
			set[rapid.SampledFrom(soOps[k]).Draw(t, "orphanop")] = true
		}
		if len(set) == 0 {
			set["nop"] = true
		}
		for n := range set {
			pr.Ops = append(pr.Ops, n)
		}
		sort.Strings(pr.Ops)
		needIn, needOut, needRAM, needThr := 0, 0, false, false
		for _, n := range pr.Ops {
			i, _ := infoOf(n)
			if i.in > needIn {
				needIn = i.in
			}
			if i.out > needOut {
				needOut = i.out
			}
			needRAM = needRAM || i.ram
			needThr = needThr || i.thr
		}
		if needIn > 0 {
			pr.N = rapid.IntRange(needIn, 3).Draw(t, "N")
		}
		if needOut > 0 {
			pr.M = rapid.IntRange(needOut, 3).Draw(t, "M")
		}
		if needRAM || pr.Mode != "ha" {
			pr.L = rapid.IntRange(1, 5).Draw(t, "L")
		} else {
			pr.L = rapid.SampledFrom([]int{0, 0, 2, 4}).Draw(t, "L0")
		}
		pr.Threaded = rapid.SampledFrom([]int{0, 0, 0, 1, 2, 3}).Draw(t, "threaded")
		if needThr && pr.Threaded == 0 {
			pr.Threaded = rapid.IntRange(1, 3).Draw(t, "threaded-tsp")
		}
		if cfgDeviate {
			switch rapid.IntRange(0, 5).Draw(t, "devkind") {
			case 0:
				if needIn == 0 {
					pr.N = rapid.IntRange(1, 2).Draw(t, "unusedN")
				}
			case 1:
				if needOut == 0 {
					pr.M = rapid.IntRange(1, 2).Draw(t, "unusedM")
				}
			case 2:
				pr.L = 0
			case 3:
				if needThr {
					pr.Threaded = 0
				}
			case 4:
				pr.N, pr.M = 1, 1 // the defaults of cmd/procbuilder
			}
		}
		c.Procs = append(c.Procs, pr)
	}
	if np >= 2 && rapid.IntRange(0, 5).Draw(t, "twin") == 0 {
		// two processors instantiated from one domain, each with its own shared-object attachments
		twin := c.Procs[0]
		twin.SOs = attach[1]
		c.Procs[1] = twin
		c.Twin = true
	}
	// programs (need the per-processor shared object counts)
	for p := range c.Procs {
		pr := &c.Procs[p]
		soIdx := map[string]int{}
		for _, s := range pr.SOs {
			soIdx[soKindOf(c.SOs[s])]++
		}
		n := rapid.IntRange(0, 6).Draw(t, "proglen")
		for i := 0; i < n; i++ {
			op := rapid.SampledFrom(pr.Ops).Draw(t, "instr")
			l := progLine(op, *pr, soIdx, func(k int) int {
				if k <= 1 {
					return 0
				}
				return rapid.IntRange(0, k-1).Draw(t, "operand")
			})
			if l != "" {
				pr.Prog = append(pr.Prog, l)
			}
		}
	}
	// external IO and bonds
	c.Inputs = rapid.IntRange(0, 2).Draw(t, "inputs")
	c.Outputs = rapid.IntRange(0, 2).Draw(t, "outputs")
	var sources []string
	for i := 0; i < c.Inputs; i++ {
		sources = append(sources, "i"+strconv.Itoa(i))
	}
	for p, pr := range c.Procs {
		for k := 0; k < pr.M; k++ {
			sources = append(sources, fmt.Sprintf("p%do%d", p, k))
		}
	}
	var sinks []string
	for p, pr := range c.Procs {
		for k := 0; k < pr.N; k++ {
			sinks = append(sinks, fmt.Sprintf("p%di%d", p, k))
		}
	}
	for i := 0; i < c.Outputs; i++ {
		sinks = append(sinks, "o"+strconv.Itoa(i))
	}
	for _, s := range sinks {
		lo := -1
		if strings.HasPrefix(s, "p") && !cfgDeviate {
			// front-end shape: every processor input has a source
			lo = 0
			if len(sources) == 0 {
				sources = append(sources, "i"+strconv.Itoa(c.Inputs))
				c.Inputs++
			}
		}
		if len(sources) == 0 {
			continue
		}
		k := rapid.IntRange(lo, len(sources)-1).Draw(t, "bond")
		if k >= 0 {
			c.Bonds = append(c.Bonds, [2]string{s, sources[k]})
		}
	}
	return c
}

// fromSpec converts a gen.BMSpec (front-end shaped dataflow machine) into a Case.
func fromSpec(s gen.BMSpec, t *rapid.T) Case {
	c := Case{Rsize: s.Rsize, Inputs: s.Inputs, Outputs: s.Outputs, Bonds: s.Bonds}
	for _, p := range s.Procs {
		c.Procs = append(c.Procs, Proc{Mode: "ha", R: p.R, N: p.N, M: p.M, L: p.L, O: p.O,
			Ops: append([]string(nil), p.Ops...), Prog: append([]string(nil), p.Prog...)})
	}
	if t != nil {
		c.OnlyDestRegs = rapid.Bool().Draw(t, "onlydestregs")
		c.Commented = rapid.Bool().Draw(t, "commented")
	}
	return c
}

// ---------------------------------------------------------------------------
// the bounded-exhaustive feature sweep

// procFor builds a processor that gives the opcodes exactly the resources they need.
func procFor(ops []string, mode string, R int, sos []string) Proc {
	pr := Proc{Mode: mode, R: R, O: 2}
	set := map[string]bool{}
	for _, n := range ops {
		set[n] = true
	}
	for n := range set {
		pr.Ops = append(pr.Ops, n)
	}
	sort.Strings(pr.Ops)
	for _, n := range pr.Ops {
		i, _ := infoOf(n)
		if i.in > pr.N {
			pr.N = i.in
		}
		if i.out > pr.M {
			pr.M = i.out
		}
		if i.ram && pr.L == 0 {
			pr.L = 2
		}
		if i.thr {
			pr.Threaded = 1
		}
	}
	if mode != "ha" && pr.L == 0 {
		pr.L = 2
	}
	return pr
}

func withProg(c Case) Case {
	for p := range c.Procs {
		pr := &c.Procs[p]
		soIdx := map[string]int{}
		for _, s := range pr.SOs {
			soIdx[soKindOf(c.SOs[s])]++
		}
		for _, op := range pr.Ops {
			if l := progLine(op, *pr, soIdx, func(int) int { return 0 }); l != "" {
				pr.Prog = append(pr.Prog, l)
			}
		}
	}
	return c
}

// single wraps one processor into a machine with its ports bonded to external IO.
func single(rsize int, pr Proc, sos []string) Case {
	c := Case{Rsize: rsize, SOs: sos}
	for i := range sos {
		pr.SOs = append(pr.SOs, i)
	}
	c.Procs = []Proc{pr}
	c.Inputs, c.Outputs = pr.N, pr.M
	for k := 0; k < pr.N; k++ {
		c.Bonds = append(c.Bonds, [2]string{fmt.Sprintf("p0i%d", k), fmt.Sprintf("i%d", k)})
	}
	for k := 0; k < pr.M; k++ {
		c.Bonds = append(c.Bonds, [2]string{fmt.Sprintf("o%d", k), fmt.Sprintf("p0o%d", k)})
	}
	return withProg(c)
}

func modesOf(n string) []string {
	i, _ := infoOf(n)
	var r []string
	for _, m := range []string{"ha", "vn", "hy"} {
		if i.okIn(m) {
			r = append(r, m)
		}
	}
	return r
}

// sweepCases enumerates the feature sweep. Every machine is front-end shaped: an opcode gets
// only the ports, memories, shared objects, threads and modes it needs to be meaningful.
func sweepCases() []Case {
	sweepOnce.Do(func() { sweepList = buildSweep() })
	return sweepList
}

var (
	sweepOnce sync.Once
	sweepList []Case
)

func buildSweep() []Case {
	setup()
	var out []Case
	// (1) every static opcode alone and with nop, Rsize 8 and 32, R 1 and 2, every meaningful mode
	for _, n := range StaticNames() {
		info, ok := opTable[n]
		if !ok {
			continue
		}
		var sos []string
		if info.so != "" {
			sos = []string{defaultSO(info.so, 1)}
		}
		for _, mode := range modesOf(n) {
			for _, rsize := range []int{8, 32} {
				for _, R := range []int{1, 2} {
					for _, withNop := range []bool{false, true} {
						ops := []string{n}
						if withNop {
							if n == "nop" {
								continue
							}
							ops = append(ops, "nop")
						}
						out = append(out, single(rsize, procFor(ops, mode, R, sos), sos))
					}
				}
			}
		}
	}
	// (2) every shared-object kind x 1..3 attached processors x modes (all opcodes of the kind on every processor)
	for _, kind := range soKinds {
		for np := 1; np <= 3; np++ {
			for _, mode := range []string{"ha", "vn", "hy"} {
				for _, rsize := range []int{8, 32} {
					sos := []string{defaultSO(kind, np)}
					c := Case{Rsize: rsize, SOs: sos}
					for p := 0; p < np; p++ {
						pr := procFor(append([]string{"nop"}, soOps[kind]...), mode, 1, sos)
						pr.SOs = []int{0}
						c.Procs = append(c.Procs, pr)
					}
					out = append(out, withProg(c))
				}
			}
		}
		// each opcode of the kind on its own processor (queue: one sender, one receiver)
		if ops := soOps[kind]; len(ops) > 1 {
			sos := []string{defaultSO(kind, len(ops))}
			c := Case{Rsize: 8, SOs: sos}
			for _, o := range ops {
				pr := procFor([]string{"nop", o}, "ha", 1, sos)
				pr.SOs = []int{0}
				c.Procs = append(c.Procs, pr)
			}
			out = append(out, withProg(c))
		}
		// two instances of the kind on one processor
		sos := []string{defaultSO(kind, 1), defaultSO(kind, 1)}
		out = append(out, single(8, procFor(append([]string{"nop"}, soOps[kind]...), "ha", 1, sos), sos))
	}
	// (3) every dynamic family once (each member), in every meaningful mode
	for _, n := range dynInstances {
		for _, mode := range modesOf(n) {
			out = append(out, single(16, procFor([]string{n, "nop"}, mode, 1, nil), nil))
		}
	}
	// the call family together (one return stack shared by callo/ret)
	out = append(out, single(16, procFor([]string{"callo4rs", "ret4rs", "nop"}, "ha", 1, nil), nil))
	out = append(out, single(16, procFor([]string{"calla4rs", "ret4rs", "nop"}, "vn", 1, nil), nil))
	out = append(out, single(16, procFor([]string{"callo4rs", "calla4rs", "ret4rs", "nop"}, "hy", 1, nil), nil))
	out = append(out, single(16, procFor([]string{"push3ds", "pull3ds", "nop"}, "ha", 1, nil), nil))
	// (4) threading depth 1..3 x modes, with the opcodes that carry the context switch (cpy inc nop) and tsp
	for thr := 1; thr <= 3; thr++ {
		for _, mode := range []string{"ha", "vn", "hy"} {
			for _, R := range []int{1, 2} {
				ops := []string{"cpy", "inc", "nop", "j"}
				if mode == "ha" {
					ops = append(ops, "tsp")
				}
				pr := procFor(ops, mode, R, nil)
				pr.Threaded = thr
				out = append(out, single(8, pr, nil))
			}
		}
	}
	// (5) hardware optimisation and comments on the opcodes that implement them
	for _, n := range []string{"inc", "dec", "rset", "jz", "cmpr", "addp", "addf", "m2rri", "tsp", "addfps16f8"} {
		c := single(16, procFor([]string{n, "nop"}, "ha", 2, nil), nil)
		c.OnlyDestRegs = true
		out = append(out, c)
		c.Commented = true
		out = append(out, c)
	}
	// (6) the front-end's handshake pair on a two-processor pipeline with fan-out
	{
		ops := []string{"i2rw", "r2owa", "inc", "j"}
		c := Case{Rsize: 8, Inputs: 1, Outputs: 2}
		for p := 0; p < 3; p++ {
			pr := procFor(ops, "ha", 1, nil)
			c.Procs = append(c.Procs, pr)
		}
		c.Bonds = [][2]string{{"p0i0", "i0"}, {"p1i0", "p0o0"}, {"p2i0", "p0o0"}, {"o0", "p1o0"}, {"o1", "p2o0"}}
		out = append(out, withProg(c))
	}
	// (7) every pair (for the RAM and channel families every subset) of opcodes inside a group that shares
	// helper declarations through unique[...] / OnlyOne (procbuilder.go:58, utils.go:169): the
	// defect class is "declared by nobody" or "declared and driven by two"
	groups := [][]string{
		{"cmpr", "cmprlt", "cmpv", "jcmpl", "jcmpo", "jcmpa", "jcmprio", "jcmpria"},
		{"addi", "i2r", "i2rw", "sic", "sicv2", "sicv3", "cmpv"},
		{"r2o", "r2owa", "r2owaa"},
		{"r2t", "t2r", "q2r", "r2q", "r2u", "u2r", "k2r"},
		{"callo4rs", "calla4rs", "ret4rs"},
		{"push3ds", "pull3ds"},
	}
	subsetGroups := [][]string{
		{"r2m", "m2r", "r2mri", "m2rri"},
		{"wrd", "wwr", "chc", "chw"},
	}
	var sets [][]string
	for _, g := range groups {
		for i := 0; i < len(g); i++ {
			for j := i + 1; j < len(g); j++ {
				sets = append(sets, []string{g[i], g[j]})
			}
		}
	}
	for _, g := range subsetGroups {
		for mask := 1; mask < 1<<uint(len(g)); mask++ {
			var set []string
			for k, o := range g {
				if mask&(1<<uint(k)) != 0 {
					set = append(set, o)
				}
			}
			if len(set) > 1 {
				sets = append(sets, set)
			}
		}
	}
	for _, set := range sets {
		var modes []string
		for _, m := range []string{"ha", "vn", "hy"} {
			ok := true
			for _, o := range set {
				if i, _ := infoOf(o); !i.okIn(m) {
					ok = false
				}
			}
			if ok {
				modes = append(modes, m)
			}
		}
		var sos []string
		seen := map[string]bool{}
		for _, o := range set {
			if i, _ := infoOf(o); i.so != "" && !seen[i.so] {
				seen[i.so] = true
				sos = append(sos, defaultSO(i.so, 1))
			}
		}
		for _, m := range modes {
			out = append(out, single(8, procFor(set, m, 1, sos), sos))
		}
	}
	return out
}

func genSweep(t *rapid.T) Case {
	cs := sweepCases()
	return cs[rapid.IntRange(0, len(cs)-1).Draw(t, "index")]
}
