package c18

import (
	"regexp"
	"sort"
	"strconv"
	"strings"
)

// What each opcode needs in order to be meaningful, as data. Every row was read from the
// opcode's file in /repo/pkg/procbuilder (op_<name>.go / dynop_*.go): Assembler (operand
// grammar), the Verilog templates (which ports, memories, shared objects and mode registers
// they reference) and HLAssemblerNormalize (what basm derives from a use of the opcode).
//
// args: operand grammar, space separated: r (register) in out imm loc (location, mode
// dependent width) rom ram nice vaddr so (shared object operand, short name in .so).
type opInfo struct {
	args  string
	in    int    // number of processor inputs the opcode needs (sicv2 names two)
	out   int    // number of processor outputs
	so    string // shared object kind (Shr_get_name) the opcode talks to
	ram   bool   // uses the RAM ports (ram_din/ram_dout/ram_addr...), present only when L>0
	thr   bool   // uses the thread stack (declared only when Threaded>0)
	modes string // execution modes in which the opcode is meaningful ("" = all three)
}

const rr, r1 = "r r", "r"

var opTable = map[string]opInfo{
	"adc": {args: rr}, "add": {args: rr}, "addf": {args: rr}, "addf16": {args: rr}, "addp": {args: rr}, "and": {args: rr},
	"cmpr": {args: rr}, "cmprlt": {args: rr}, "cpy": {args: rr}, "div": {args: rr}, "divf": {args: rr}, "divf16": {args: rr},
	"divp": {args: rr}, "mod": {args: rr}, "mulc": {args: rr}, "mult": {args: rr}, "multf": {args: rr}, "multf16": {args: rr},
	"multp": {args: rr}, "nand": {args: rr}, "nor": {args: rr}, "not": {args: rr}, "or": {args: rr}, "rsc": {args: rr},
	"sbc": {args: rr}, "sub": {args: rr}, "xnor": {args: rr}, "xor": {args: rr}, "ro2rri": {args: rr},
	"m2rri": {args: rr, ram: true}, "r2mri": {args: rr, ram: true},

	"cil": {args: r1}, "cilc": {args: r1}, "cir": {args: r1}, "cirn": {args: r1}, "clr": {args: r1}, "dec": {args: r1},
	"expf": {args: r1}, "inc": {args: r1}, "incc": {args: r1}, "jri": {args: r1},
	// "Jump to a program location in the RAM": vn_state / exec_mode exist only in vn / hy (conproc.go:569-593)
	"jria": {args: r1, modes: "vn hy"}, "jcmpria": {args: r1, modes: "vn hy"},
	// "... in the ROM": from RAM execution back to ROM (hy), plain jump in ha
	"jrio": {args: r1, modes: "ha hy"}, "jcmprio": {args: r1, modes: "ha hy"},

	"clc": {}, "cset": {}, "hlt": {}, "nop": {}, "dpc": {}, "je": {},

	"i2r": {args: "r in", in: 1}, "i2rw": {args: "r in", in: 1}, "sic": {args: "r in", in: 1}, "sicv3": {args: "r in", in: 1},
	"sicv2": {args: "r in in", in: 2}, "cmpv": {args: "in", in: 1}, "addi": {args: r1, in: 1},
	"r2o": {args: "r out", out: 1}, "r2owa": {args: "r out", out: 1}, "r2owaa": {args: "r out", out: 1},

	"j": {args: "loc"}, "jcmpl": {args: "loc"}, "jc": {args: "rom"},
	"saj": {args: "loc", modes: "hy"}, // toggles exec_mode, declared in hy only
	"ja":  {args: "loc", modes: "vn hy"}, "jcmpa": {args: "loc", modes: "vn hy"},
	"jo": {args: "loc", modes: "ha hy"}, "jcmpo": {args: "loc", modes: "ha hy"},
	"jz": {args: "r rom"}, "jgt0f": {args: "r rom"}, "ro2r": {args: "r rom"},
	"m2r": {args: "r ram", ram: true}, "r2m": {args: "r ram", ram: true},
	"rset": {args: "r imm"},
	"tsp":  {args: "r loc nice", thr: true, modes: "ha"}, // threads are generated for ha only (conproc.go:146-211)

	"wrd": {args: "r so", so: "channel"}, "wwr": {args: "r so", so: "channel"}, "chc": {args: rr, so: "channel"}, "chw": {args: r1, so: "channel"},
	"hit":     {args: r1, so: "barrier"},
	"k2r":     {args: "r so", so: "kbd"},
	"lfsr82r": {args: "r so", so: "lfsr8"},
	"q2r":     {args: "r so", so: "queue"}, "r2q": {args: "r so", so: "queue"},
	"r2t": {args: "r so", so: "stack"}, "t2r": {args: "r so", so: "stack"},
	"r2u": {args: "r so", so: "uart"}, "u2r": {args: "r so", so: "uart"},
	"r2s": {so: "sharedmem"}, "s2r": {so: "sharedmem"},
	"r2v": {args: "r vaddr", so: "vtextmem"}, "r2vri": {args: rr, so: "vtextmem"},
}

// dynamic families: key -> info; familyOf maps an opcode name to its key.
var famTable = map[string]opInfo{
	"rsets": {args: "r imm"},
	"callo": {args: "rom", modes: "ha hy"}, "calla": {args: "ram", modes: "vn hy"}, "ret": {},
	"push": {args: r1}, "pull": {args: r1},
	"fps": {args: rr}, "fxps": {args: rr}, "lqs": {args: rr}, "flpe": {args: rr},
}

var famRes = []struct {
	key string
	re  *regexp.Regexp
}{
	// the order and the (unanchored) expressions are those of AllDynamicalInstructions / MatchName
	{"flpe", regexp.MustCompile(`(mult|add|div)flpe[0-9]+f[0-9]+`)},
	{"lqs", regexp.MustCompile(`(mult|add|div)lqs[0-9]+t[0-9]+`)},
	{"rsets", regexp.MustCompile(`rsets[0-9]+`)},
	{"callo", regexp.MustCompile(`callo[0-9]+[a-zA-Z_]+`)},
	{"calla", regexp.MustCompile(`calla[0-9]+[a-zA-Z_]+`)},
	{"ret", regexp.MustCompile(`ret[0-9]+[a-zA-Z_]+`)},
	{"push", regexp.MustCompile(`push[0-9]+[a-zA-Z_]+`)},
	{"pull", regexp.MustCompile(`pull[0-9]+[a-zA-Z_]+`)},
	{"fps", regexp.MustCompile(`(mult|add|div)fps[0-9]+f[0-9]+`)},
	{"fxps", regexp.MustCompile(`(mult|add|div)fxps[0-9]+f[0-9]+`)},
}

func familyOf(name string) string {
	if _, ok := opTable[name]; ok {
		return ""
	}
	for _, f := range famRes {
		if f.re.MatchString(name) {
			return f.key
		}
	}
	return ""
}

func infoOf(name string) (opInfo, bool) {
	if i, ok := opTable[name]; ok {
		return i, true
	}
	if f := familyOf(name); f != "" {
		return famTable[f], true
	}
	return opInfo{}, false
}

func (i opInfo) okIn(mode string) bool {
	return i.modes == "" || strings.Contains(" "+i.modes+" ", " "+mode+" ")
}

// shared-object kinds: Shr_get_name -> short name used in operands and module names
var soShort = map[string]string{"sharedmem": "sh", "channel": "ch", "barrier": "br", "lfsr8": "lfsr8", "queue": "q",
	"stack": "st", "uart": "u", "kbd": "k", "vtextmem": "vtm"}

var soKinds = []string{"barrier", "channel", "kbd", "lfsr8", "queue", "sharedmem", "stack", "uart", "vtextmem"}

// soOps: the opcodes that talk to a shared object of the kind
var soOps = map[string][]string{
	"barrier": {"hit"}, "channel": {"wrd", "wwr", "chc", "chw"}, "kbd": {"k2r"}, "lfsr8": {"lfsr82r"},
	"queue": {"q2r", "r2q"}, "sharedmem": {"r2s", "s2r"}, "stack": {"r2t", "t2r"}, "uart": {"r2u", "u2r"}, "vtextmem": {"r2v", "r2vri"},
}

func soKindOf(s string) string {
	if i := strings.IndexByte(s, ':'); i > 0 {
		return s[:i]
	}
	return s
}

// shape lists the ways in which a machine differs from what the program-driven front ends (basm:
// CreateConnectingProcessor derives N, M and the opcode set from the program text; bondgo) emit:
// resources nobody uses and opcodes without the resource they talk to. An empty list = "fe"
// (front-end shaped). Every such machine is still accepted by the tool: cmd/procbuilder takes
// -inputs/-outputs/-opcodes/-execution-model/-shared-constraints independently (its defaults are
// -inputs 1 -outputs 1 -opcodes nop), Machine.ConstraintCheck has no rule that ties them together
// (no opcode declares Required_modes/Forbidden_modes, the shared-object check is "TODO Finish
// shared checks", machine.go:329), and cmd/bondmachine -create-verilog checks nothing.
func shape(c Case) []string {
	dev := map[string]bool{}
	for _, p := range c.Procs {
		needIn, needOut := 0, 0
		usesSO := map[string]bool{}
		needRAM, needThr := false, false
		for _, n := range p.Ops {
			i, ok := infoOf(n)
			if !ok {
				dev["unknown-opcode"] = true
				continue
			}
			if i.in > needIn {
				needIn = i.in
			}
			if i.out > needOut {
				needOut = i.out
			}
			if i.so != "" {
				usesSO[i.so] = true
			}
			needRAM = needRAM || i.ram
			needThr = needThr || i.thr
			if !i.okIn(p.Mode) {
				dev["opcode-outside-its-modes"] = true
			}
		}
		if p.N > 0 && needIn == 0 {
			dev["unused-input"] = true
		}
		if p.N < needIn {
			dev["input-opcode-without-input"] = true
		}
		if p.M > 0 && needOut == 0 {
			dev["unused-output"] = true
		}
		if p.M < needOut {
			dev["output-opcode-without-output"] = true
		}
		if needRAM && p.L == 0 {
			dev["ram-opcode-without-ram"] = true
		}
		if p.Mode != "ha" && p.L == 0 {
			dev["ram-execution-without-ram"] = true
		}
		if needThr && p.Threaded == 0 {
			dev["thread-opcode-without-threads"] = true
		}
		has := map[string]bool{}
		for _, so := range p.SOs {
			if so >= 0 && so < len(c.SOs) {
				has[soKindOf(c.SOs[so])] = true
			}
		}
		for k := range usesSO {
			if !has[k] {
				dev["so-opcode-without-so"] = true
			}
		}
		for k := range has {
			if !usesSO[k] {
				dev["so-without-opcode"] = true
			}
		}
	}
	// the program-driven front ends bond every processor input they create (an input exists because
	// the program reads it and an attach statement names its source)
	bonded := map[string]bool{}
	for _, b := range c.Bonds {
		bonded[b[0]] = true
		bonded[b[1]] = true
	}
	for pi, p := range c.Procs {
		for k := 0; k < p.N; k++ {
			if !bonded["p"+strconv.Itoa(pi)+"i"+strconv.Itoa(k)] {
				dev["unbonded-processor-input"] = true
			}
		}
	}
	var r []string
	for d := range dev {
		r = append(r, d)
	}
	sort.Strings(r)
	return r
}
