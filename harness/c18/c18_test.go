// C18 — every generated HDL file set is self-consistent, synthesizable Verilog.
// Machines as data -> Bondmachine.Write_verilog in a scratch directory -> /verif's Verilog front end
// (parser + lint) with exactly the six error classes of the statement.
package c18

import (
	"encoding/json"
	"fmt"
	"os"
	"sort"
	"strconv"
	"testing"

	"verifharness/pbt"
)

const ruleCommon = "files = everything Bondmachine.Write_verilog (flavour iverilog, empty non-nil simbox, no board modules) leaves in a private scratch directory, generated from the JSON form of the machine as cmd/bondmachine does; oracle = vlog.ParseDesignOpts{HonorTranslateOff} + vlog.Lint, classes syntax/undeclared/undefined-module/port-count/assign-kind/multi-driver, `unsupported` skipped and counted; a diagnostic whose signature <class>:<module-kind>:<identifier> is recorded open in known_findings.json is filtered (a machine with only such diagnostics is excluded and counted), any other diagnostic fails; machines the tool itself refuses (unknown opcode, flopoco/fxp families without their external tool/files, generator panic) are excluded and counted; non-trivial = at least one attached shared object or Threaded>0 or a dynamic opcode or a non-ha mode; distinct = distinct case JSON"

var Props = []*pbt.Entry{
	pbt.Def("random",
		"random machines: 1..3 processors, Rsize 8..64, modes ha/vn/hy, R 1..3, O 1..5, Threaded 0..3, opcode subsets (1..8 draws) over all static opcodes plus one instance per dynamic family created through EventuallyCreateInstruction, 0..3 shared objects of every kind with generated parameters attached to 1..3 processors (Shared_constraints derived from the links as basm and Write_verilog do) together with a non-empty subset of the opcodes that use them, N/M/L as the opcodes need (nine in ten cases front-end shaped; one in ten with unused ports, opcodes without their resource, or cmd/procbuilder's default -inputs 1 -outputs 1), OnlyDestRegs on/off with the requirement tree derived from the programs, CommentedVerilog on/off, external IO 0..2/0..2 and random bonds; one case in six is a dataflow machine from gen.HandshakeMachine; "+ruleCommon,
		genRandom, prop),
	pbt.Def("sweep",
		"feature sweep (TestSweep enumerates it exhaustively, the rapid entry samples it): every static opcode alone and with nop at Rsize 8 and 32, R 1 and 2, in every mode in which it is meaningful, with exactly the ports/RAM/shared object/threads it needs; every shared-object kind x 1..3 attached processors x ha/vn/hy x Rsize 8/32, one opcode of the kind per processor, two instances on one processor; every dynamic family member once per meaningful mode and the call/stack families together; Threaded 1..3 x modes x R; OnlyDestRegs/Commented on the opcodes that implement them; a three-processor handshake pipeline with fan-out; every pair of opcodes inside a group that shares helper declarations through unique[]/OnlyOne (cmpflag, input-received, output-valid, stack/queue/uart/kbd state machine, call and register stacks) and every subset of the RAM (r2m m2r r2mri m2rri) and channel (wrd wwr chc chw) families; every machine is front-end shaped (only the ports, memories, shared objects, threads and modes the opcodes need); "+ruleCommon,
		genSweep, prop),
}

func TestProps(t *testing.T) {
	t.Cleanup(func() { flushReach("random"); pbt.Flush() })
	pbt.RunAll(t, "C18", Props)
}

func TestReplay(t *testing.T) { pbt.ReplayAll(t, "C18", Props) }

// TestSweep enumerates the feature sweep (sharded by VERIF_SHARD/VERIF_NSHARDS).
func TestSweep(t *testing.T) {
	t.Cleanup(func() { flushReach("sweep"); pbt.Flush() })
	shard, _ := strconv.Atoi(os.Getenv("VERIF_SHARD"))
	nshards, _ := strconv.Atoi(os.Getenv("VERIF_NSHARDS"))
	if nshards <= 0 {
		nshards, shard = 1, 0
	}
	cs := sweepCases()
	entry := Props[1]
	failed := map[string]bool{}
	n := 0
	for i, c := range cs {
		if i%nshards != shard {
			continue
		}
		n++
		out := pbt.Guard(func() pbt.Outcome { return prop(c) })
		pbt.Observe(entry, c, out)
		if out.Fail != nil && !failed[out.Fail.Sig] {
			failed[out.Fail.Sig] = true
			path := writeFailNamed("sweep", out.Fail.Sig, c, out.Fail)
			t.Errorf("FAIL sweep: %s (sig=%q) replay=%s", out.Fail.Msg, out.Fail.Sig, path)
		}
	}
	pbt.Extra("sweep", "enumerated", float64(n))
	pbt.Extra("sweep", "sweep_size", float64(len(cs)))
	var sigs []string
	for s := range failed {
		sigs = append(sigs, s)
	}
	sort.Strings(sigs)
	t.Logf("sweep: %d of %d machines in this shard, %d failing signatures %v", n, len(cs), len(sigs), sigs)
}

// writeFailNamed keeps one replay file per failing signature (pbt.WriteFail keeps one per entry).
func writeFailNamed(entry, sig string, c Case, f *pbt.Failure) string {
	path := pbt.WriteFail(entry, c, f)
	dir := os.Getenv("VERIF_FAILDIR")
	if dir == "" {
		return path
	}
	raw, _ := json.Marshal(c)
	rf := pbt.ReplayFile{Property: "C18", Entry: entry, Failure: f, Case: raw}
	b, _ := json.MarshalIndent(rf, "", " ")
	name := fmt.Sprintf("%s/%s-%s.json", dir, entry, safeName(sig))
	if os.WriteFile(name, b, 0o644) == nil {
		return name
	}
	return path
}

func safeName(s string) string {
	b := []byte(s)
	for i, ch := range b {
		switch {
		case ch >= 'a' && ch <= 'z', ch >= 'A' && ch <= 'Z', ch >= '0' && ch <= '9', ch == '-', ch == '_':
		default:
			b[i] = '_'
		}
	}
	return string(b)
}
