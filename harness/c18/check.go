package c18

import (
	"encoding/json"
	"fmt"
	"os"
	"path/filepath"
	"regexp"
	"sort"
	"strings"
	"sync"

	"verifharness/pbt"
	"verifharness/vlog"
)

// ---------------------------------------------------------------------------
// recorded findings: /verif/known_findings.json, entries with property C18 and status open

var (
	knownOnce sync.Once
	recorded  map[string]bool
)

func knownPath() string {
	if p := os.Getenv("VERIF_KNOWN"); p != "" {
		return p
	}
	root := os.Getenv("VERIF_ROOT")
	if root == "" {
		root = "/verif"
	}
	return filepath.Join(root, "known_findings.json")
}

func loadKnown() {
	knownOnce.Do(func() {
		recorded = map[string]bool{}
		raw, err := os.ReadFile(knownPath())
		if err != nil {
			return
		}
		var f struct {
			Findings []struct {
				Property string `json:"property"`
				Sig      string `json:"sig"`
				Status   string `json:"status"`
			} `json:"findings"`
		}
		if json.Unmarshal(raw, &f) != nil {
			return
		}
		for _, k := range f.Findings {
			if k.Property == "C18" && k.Status == "open" {
				recorded[k.Sig] = true
			}
		}
	})
}

// ---------------------------------------------------------------------------
// signatures: <class>:<module-kind>:<identifier-or-module>

var digits = regexp.MustCompile(`[0-9]+`)

var modKinds = []struct {
	re   *regexp.Regexp
	kind string
}{
	{regexp.MustCompile(`^p[0-9]+$`), "processor"},
	{regexp.MustCompile(`^a[0-9]+$`), "arch"},
	{regexp.MustCompile(`^p[0-9]+rom$`), "rom"},
	{regexp.MustCompile(`^p[0-9]+ram$`), "ram"},
	{regexp.MustCompile(`^bondmachine$`), "top"},
	{regexp.MustCompile(`^(bondmachine_tb|request|unlock)$`), "testbench"},
	{regexp.MustCompile(`^threadStack[0-9]+$`), "threadstack"},
	{regexp.MustCompile(`^restack[0-9]+_`), "callstack"},
	{regexp.MustCompile(`^br[0-9]+$`), "so:barrier"},
	{regexp.MustCompile(`^sh[0-9]+$`), "so:sharedmem"},
	{regexp.MustCompile(`^ch[0-9]+$`), "so:channel"},
	{regexp.MustCompile(`^lfsr8[0-9]+$`), "so:lfsr8"},
	{regexp.MustCompile(`^q[0-9]+$`), "so:queue"},
	{regexp.MustCompile(`^st[0-9]+$`), "so:stack"},
	{regexp.MustCompile(`^u[0-9]+(|wfifo|rfifo|uart)$`), "so:uart"},
	{regexp.MustCompile(`^k[0-9]+(|rfifo)$`), "so:kbd"},
	{regexp.MustCompile(`^(vtm[0-9]+|cptextvideoram)$`), "so:vtextmem"},
}

func moduleKind(name string) string {
	for _, k := range modKinds {
		if k.re.MatchString(name) {
			return k.kind
		}
	}
	if name == "" {
		return "file"
	}
	return "extra:" + digits.ReplaceAllString(name, "N")
}

// sigOf gives a diagnostic its mechanism signature. Instance numbers are folded (i0_recv and
// i1_recv are one mechanism), except in names that are words with a digit (lfsr8, float16).
func sigOf(d vlog.Diag, files map[string]string) string {
	id := d.Ident
	if d.Class == vlog.ClassSyntax {
		// a syntax error has no identifier: the mechanism is named by the shape of the message and of
		// the offending source line
		id = syntaxKey(d.Msg) + "@" + lineShape(files[d.File], d.Line)
		if m := expectedIdent.FindStringSubmatch(d.Msg); m != nil && verilogKeyword[m[1]] {
			// a declaration list that ends early is reported at the first token of whatever follows
			// (any opcode's header): the mechanism is the keyword that opened the unfinished list
			id = "expected-identifier,-found-keyword@" + openerOf(files[d.File], d.Line, m[1])
		}
	}
	id = strings.ReplaceAll(id, "lfsr8", "lfsr@")
	id = digits.ReplaceAllString(id, "N")
	id = strings.ReplaceAll(id, "lfsr@", "lfsr8")
	mod := d.Module
	if mod == "" {
		// lexical errors carry no module: name the kind after the file (<module>.v for every generated file)
		mod = strings.TrimSuffix(d.File, ".v")
		if k := moduleKind(mod); !strings.HasPrefix(k, "extra:") {
			return string(d.Class) + ":" + k + ":" + id
		}
		return string(d.Class) + ":file:" + digits.ReplaceAllString(mod, "N") + ":" + id
	}
	return string(d.Class) + ":" + moduleKind(mod) + ":" + id
}

var expectedIdent = regexp.MustCompile(`^expected identifier, found "([a-z_]+)"`)

var verilogKeyword = map[string]bool{"reg": true, "wire": true, "localparam": true, "always": true, "assign": true,
	"initial": true, "input": true, "output": true, "integer": true, "parameter": true, "endmodule": true}

// openerOf: first word of the error line when it is not the reported keyword itself, else the first
// word of the nearest earlier line that is neither blank nor a comment.
func openerOf(text string, line int, found string) string {
	ls := strings.Split(text, "\n")
	for k := line; k >= 1; k-- {
		if k > len(ls) {
			continue
		}
		f := strings.Fields(ls[k-1])
		if len(f) == 0 || strings.HasPrefix(f[0], "//") {
			continue
		}
		if k == line && f[0] == found {
			n := 0
			for _, w := range f {
				if w == found {
					n++
				}
			}
			if n < 2 {
				continue // the line starts with the reported token: the unfinished list is further up
			}
		}
		return f[0]
	}
	return ""
}

func lineShape(text string, line int) string {
	if line < 1 {
		return ""
	}
	ls := strings.Split(text, "\n")
	if line > len(ls) {
		return ""
	}
	f := strings.Join(strings.Fields(ls[line-1]), "_")
	if len(f) > 40 {
		f = f[:40]
	}
	return f
}

// syntaxKey reduces a syntax message to its shape.
func syntaxKey(msg string) string {
	f := strings.Fields(msg)
	if len(f) > 9 {
		f = f[:9]
	}
	return strings.Join(f, "-")
}

var defectClass = map[vlog.DiagClass]bool{
	vlog.ClassSyntax: true, vlog.ClassUndeclared: true, vlog.ClassUndefModule: true,
	vlog.ClassPortCount: true, vlog.ClassAssignKind: true, vlog.ClassMultiDriver: true,
}

// ---------------------------------------------------------------------------
// reach statistics (which signatures were seen on front-end shaped machines)

type reach struct {
	FE, Cfg int
	Min     string // smallest case JSON seen
	Line    string // first diagnostic text
}

var (
	reachMu sync.Mutex
	reaches = map[string]*reach{}
)

func noteReach(sig string, fe bool, c Case, d vlog.Diag) {
	reachMu.Lock()
	defer reachMu.Unlock()
	r := reaches[sig]
	if r == nil {
		r = &reach{}
		reaches[sig] = r
	}
	if fe {
		r.FE++
	} else {
		r.Cfg++
	}
	raw, _ := json.Marshal(c)
	if r.Min == "" || len(raw) < len(r.Min) {
		r.Min = string(raw)
		r.Line = fmt.Sprintf("%s:%d [%s] %s", d.File, d.Line, d.Module, d.Msg)
	}
}

var unsupportedSeen = map[string]int{}

func noteUnsupported(d vlog.Diag) {
	reachMu.Lock()
	defer reachMu.Unlock()
	unsupportedSeen[moduleKind(d.Module)+": "+digits.ReplaceAllString(d.Msg, "N")]++
}

func flushReach(entry string) {
	reachMu.Lock()
	defer reachMu.Unlock()
	m := map[string]any{}
	for s, r := range reaches {
		m[s] = map[string]any{"fe": r.FE, "cfg": r.Cfg, "min": json.RawMessage(r.Min), "diag": r.Line}
	}
	pbt.Extra(entry, "signatures", m)
	pbt.Extra(entry, "unsupported_skipped", unsupportedSeen)
}

// ---------------------------------------------------------------------------
// the property

// externalIP: modules that may be instantiated without a definition in the set. The iverilog
// flavour without board modules names none.
var externalIP = map[string]bool{}

func panicKey(err error) string {
	m := err.Error()
	m = digits.ReplaceAllString(m, "N")
	if len(m) > 60 {
		m = m[:60]
	}
	return strings.ReplaceAll(m, " ", "-")
}

func prop(c Case) pbt.Outcome {
	loadKnown()
	b, err := build(c)
	if err != nil {
		if ood, ok := err.(outOfDomain); ok {
			return pbt.Outcome{Excluded: "tool-refuses:" + ood.why}
		}
		return pbt.Outcome{Excluded: "invalid-case"}
	}
	defer b.close()
	files, err := render(c, b)
	if err != nil {
		if ood, ok := err.(outOfDomain); ok {
			return pbt.Outcome{Excluded: "tool-refuses:" + ood.why}
		}
		// Write_verilog panicked: the tool did not accept the machine (no file set exists). Counted,
		// reported as a side observation, not a C18 verdict.
		return pbt.Outcome{Excluded: "generator-panics:" + panicKey(err)}
	}

	// ---- labels and the non-trivial rule
	labels := map[string]bool{fmt.Sprintf("procs=%d", len(c.Procs)): true}
	nt := false
	for _, p := range c.Procs {
		labels["mode:"+p.Mode] = true
		labels[fmt.Sprintf("threaded=%d", p.Threaded)] = true
		if p.Mode != "ha" || p.Threaded > 0 {
			nt = true
		}
		for _, n := range p.Ops {
			if f := familyOf(n); f != "" {
				labels["dyn:"+f] = true
				nt = true
			} else {
				labels["op:"+n] = true
			}
		}
		labels[fmt.Sprintf("attached-sos=%d", len(p.SOs))] = true
	}
	attached := map[int]int{}
	for _, p := range c.Procs {
		for _, so := range p.SOs {
			attached[so]++
		}
	}
	for i, so := range c.SOs {
		labels["so:"+soKindOf(so)] = true
		labels[fmt.Sprintf("so:%s/procs=%d", soKindOf(so), attached[i])] = true
		if attached[i] > 0 {
			nt = true
		}
	}
	switch {
	case c.Rsize <= 8:
		labels["rsize<=8"] = true
	case c.Rsize <= 16:
		labels["rsize<=16"] = true
	case c.Rsize <= 32:
		labels["rsize<=32"] = true
	default:
		labels["rsize<=64"] = true
	}
	if c.OnlyDestRegs {
		labels["onlydestregs"] = true
	}
	if c.Commented {
		labels["commented"] = true
	}
	if len(c.Bonds) > 0 {
		labels["bonds"] = true
	}
	if c.Inputs+c.Outputs > 0 {
		labels["external-io"] = true
	}
	if b.asmDrops > 0 {
		labels["asm-dropped-lines"] = true
	}
	dev := shape(c)
	fe := len(dev) == 0
	if fe {
		labels["shape:fe"] = true
	} else {
		labels["shape:cfg"] = true
		for _, d := range dev {
			labels["shape:cfg:"+d] = true
		}
	}
	for f := range files {
		switch {
		case strings.HasPrefix(f, "threadStack"):
			labels["file:threadStack"] = true
		case strings.HasSuffix(f, "uart.v"), strings.HasSuffix(f, "uartso.v"):
			labels["file:uart-extra"] = true
		}
	}

	// ---- oracle
	d, pd := vlog.ParseDesignOpts(files, vlog.ParseOpts{HonorTranslateOff: true})
	diags := append([]vlog.Diag(nil), pd...)
	diags = append(diags, vlog.Lint(d, vlog.LintOpts{ExternalModules: externalIP})...)
	var bad, known []string
	badSeen, knownSeen := map[string]bool{}, map[string]bool{}
	var lines []string
	unsupported := 0
	for _, dg := range diags {
		if !defectClass[dg.Class] {
			unsupported++
			noteUnsupported(dg)
			continue
		}
		if why := lintException(dg, files); why != "" {
			labels["lint-exception:"+why] = true
			continue
		}
		s := sigOf(dg, files)
		noteReach(s, fe, c, dg)
		if c.Focus != "" && s != c.Focus {
			continue // replay file of one recorded mechanism: the other diagnostics of the machine have their own file
		}
		if recorded[s] && !c.Strict && c.Focus == "" {
			if !knownSeen[s] {
				knownSeen[s] = true
				known = append(known, s)
			}
			continue
		}
		if !badSeen[s] {
			badSeen[s] = true
			bad = append(bad, s)
		}
		if len(lines) < 12 {
			lines = append(lines, fmt.Sprintf("  %s  %s:%d [%s] %s", s, dg.File, dg.Line, dg.Module, dg.Msg))
		}
	}
	if unsupported > 0 {
		labels["lint-unsupported-skipped"] = true
	}
	var ls []string
	for l := range labels {
		ls = append(ls, l)
	}
	sort.Strings(ls)
	out := pbt.Outcome{NonTrivial: nt, Labels: ls}
	if len(bad) > 0 {
		sort.Strings(bad)
		shapeS := "front-end shaped"
		if !fe {
			shapeS = "configuration-dependent (" + strings.Join(dev, ", ") + ")"
		}
		out.Fail = pbt.Failf(bad[0], "%d unrecorded lint signature(s) %v on a %s machine; files %v\n%s",
			len(bad), bad, shapeS, fileNames(files), strings.Join(lines, "\n"))
		return out
	}
	if len(known) > 0 {
		sort.Strings(known)
		out.Excluded = "recorded:" + strings.Join(known, ",")
	}
	return out
}

func fileNames(files map[string]string) []string {
	var r []string
	for f := range files {
		r = append(r, f)
	}
	sort.Strings(r)
	return r
}

// lintException: narrow, explained filters for diagnostics where the lint (not the generated text)
// is wrong. Returns "" when the diagnostic stands.
func lintException(d vlog.Diag, files map[string]string) string {
	return ""
}
