package c18

import (
	"encoding/json"
	"fmt"
	"os"
	"sort"
	"testing"

	"verifharness/vlog"
	"time"
)

// TestSurvey (development aid, VERIF_SURVEY=1): runs the sweep without failing and prints every
// signature with its reach and smallest case.
func TestSurvey(t *testing.T) {
	if os.Getenv("VERIF_SURVEY") == "" {
		t.Skip("VERIF_SURVEY not set")
	}
	cs := sweepCases()
	start := time.Now()
	excl := map[string]int{}
	for _, c := range cs {
		c.Strict = true
		out := prop(c)
		if out.Excluded != "" {
			excl[out.Excluded]++
		}
	}
	el := time.Since(start)
	fmt.Printf("sweep: %d machines in %v (%.1f/s)\n", len(cs), el, float64(len(cs))/el.Seconds())
	var ks []string
	for k := range excl {
		ks = append(ks, k)
	}
	sort.Strings(ks)
	for _, k := range ks {
		fmt.Printf("EXCLUDED %4d %s\n", excl[k], k)
	}
	var sigs []string
	for s := range reaches {
		sigs = append(sigs, s)
	}
	sort.Strings(sigs)
	for _, s := range sigs {
		r := reaches[s]
		fmt.Printf("SIG %-60s fe=%d cfg=%d\n    %s\n    %s\n", s, r.FE, r.Cfg, r.Line, r.Min)
	}
	if p := os.Getenv("VERIF_SURVEY_OUT"); p != "" {
		b, _ := json.MarshalIndent(reaches, "", " ")
		os.WriteFile(p, b, 0o644)
	}
}

// TestDump (development aid): VERIF_DUMP=<case.json|replay.json> VERIF_DUMP_DIR=<dir> writes the file set and prints all diagnostics.
func TestDump(t *testing.T) {
	p := os.Getenv("VERIF_DUMP")
	if p == "" {
		t.Skip("VERIF_DUMP not set")
	}
	raw, err := os.ReadFile(p)
	if err != nil {
		t.Fatal(err)
	}
	var rf struct{ Case json.RawMessage }
	var c Case
	if json.Unmarshal(raw, &rf) == nil && len(rf.Case) > 0 {
		raw = rf.Case
	}
	if err := json.Unmarshal(raw, &c); err != nil {
		t.Fatal(err)
	}
	b, err := build(c)
	if err != nil {
		t.Fatal(err)
	}
	defer b.close()
	files, err := render(c, b)
	if err != nil {
		t.Fatal(err)
	}
	dir := os.Getenv("VERIF_DUMP_DIR")
	if dir != "" {
		os.MkdirAll(dir, 0o755)
		for n, s := range files {
			os.WriteFile(dir+"/"+n, []byte(s), 0o644)
		}
	}
	c.Strict = true
	out := prop(c)
	fmt.Printf("shape=%v excluded=%q\n", shape(c), out.Excluded)
	if out.Fail != nil {
		fmt.Println(out.Fail.Msg)
	}
}

// TestLintFile (development aid): VERIF_LINT=<file.v> prints the diagnostics of one file.
func TestLintFile(t *testing.T) {
	p := os.Getenv("VERIF_LINT")
	if p == "" {
		t.Skip("VERIF_LINT not set")
	}
	raw, err := os.ReadFile(p)
	if err != nil {
		t.Fatal(err)
	}
	d, pd := vlog.ParseDesignOpts(map[string]string{"t.v": string(raw)}, vlog.ParseOpts{HonorTranslateOff: true})
	for _, x := range pd {
		fmt.Println("PARSE", x)
	}
	for _, x := range vlog.Lint(d, vlog.LintOpts{}) {
		fmt.Println("LINT", x)
	}
}
