package c18

import (
	"encoding/json"
	"fmt"
	"os"
	"sort"
	"testing"

	"pgregory.net/rapid"
	"time"
	"verifharness/pbt"
	"verifharness/vlog"
)

// TestSurvey (development aid, VERIF_SURVEY=1): runs the sweep without failing and prints every
// signature with its reach and smallest case.
func TestSurvey(t *testing.T) {
	if os.Getenv("VERIF_SURVEY") == "" {
		t.Skip("VERIF_SURVEY not set")
	}
	cs := sweepCases()
	start := time.Now()
	excl := map[string]int{}
	if os.Getenv("VERIF_SURVEY") == "random" {
		n, nt := 0, 0
		rapid.Check(t, func(rt *rapid.T) {
			c := genRandom(rt)
			c.Strict = true
			out := pbt.Guard(func() pbt.Outcome { return prop(c) })
			n++
			if out.NonTrivial {
				nt++
			}
			if out.Excluded != "" {
				excl[out.Excluded]++
			}
			if out.Fail != nil && out.Fail.Sig == "panic" {
				excl["PANIC "+out.Fail.Msg[:200]]++
			}
		})
		el := time.Since(start)
		fmt.Printf("random: %d machines (%d non-trivial) in %v (%.1f/s)\n", n, nt, el, float64(n)/el.Seconds())
	} else {
		for _, c := range cs {
			c.Strict = true
			out := prop(c)
			if out.Excluded != "" {
				excl[out.Excluded]++
			}
		}
		el := time.Since(start)
		fmt.Printf("sweep: %d machines in %v (%.1f/s)\n", len(cs), el, float64(len(cs))/el.Seconds())
	}
	var ks []string
	for k := range excl {
		ks = append(ks, k)
	}
	sort.Strings(ks)
	for _, k := range ks {
		fmt.Printf("EXCLUDED %4d %s\n", excl[k], k)
	}
	for k, n := range unsupportedSeen {
		fmt.Printf("UNSUPPORTED %5d %s\n", n, k)
	}
	var sigs []string
	for s := range reaches {
		sigs = append(sigs, s)
	}
	sort.Strings(sigs)
	for _, s := range sigs {
		r := reaches[s]
		fmt.Printf("SIG %-60s fe=%d cfg=%d\n    %s\n    %s\n", s, r.FE, r.Cfg, r.Line, r.Min)
	}
	if p := os.Getenv("VERIF_SURVEY_OUT"); p != "" {
		b, _ := json.MarshalIndent(reaches, "", " ")
		os.WriteFile(p, b, 0o644)
	}
}

// TestDump (development aid): VERIF_DUMP=<case.json|replay.json> VERIF_DUMP_DIR=<dir> writes the file set and prints all diagnostics.
func TestDump(t *testing.T) {
	p := os.Getenv("VERIF_DUMP")
	if p == "" {
		t.Skip("VERIF_DUMP not set")
	}
	raw, err := os.ReadFile(p)
	if err != nil {
		t.Fatal(err)
	}
	var rf struct{ Case json.RawMessage }
	var c Case
	if json.Unmarshal(raw, &rf) == nil && len(rf.Case) > 0 {
		raw = rf.Case
	}
	if err := json.Unmarshal(raw, &c); err != nil {
		t.Fatal(err)
	}
	b, err := build(c)
	if err != nil {
		t.Fatal(err)
	}
	defer b.close()
	files, err := render(c, b)
	if err != nil {
		t.Fatal(err)
	}
	dir := os.Getenv("VERIF_DUMP_DIR")
	if dir != "" {
		os.MkdirAll(dir, 0o755)
		for n, s := range files {
			os.WriteFile(dir+"/"+n, []byte(s), 0o644)
		}
	}
	c.Strict = true
	out := prop(c)
	fmt.Printf("shape=%v excluded=%q\n", shape(c), out.Excluded)
	if out.Fail != nil {
		fmt.Println(out.Fail.Msg)
	}
}

// TestLintFile (development aid): VERIF_LINT=<file.v> prints the diagnostics of one file.
func TestLintFile(t *testing.T) {
	p := os.Getenv("VERIF_LINT")
	if p == "" {
		t.Skip("VERIF_LINT not set")
	}
	raw, err := os.ReadFile(p)
	if err != nil {
		t.Fatal(err)
	}
	d, pd := vlog.ParseDesignOpts(map[string]string{"t.v": string(raw)}, vlog.ParseOpts{HonorTranslateOff: true})
	for _, x := range pd {
		fmt.Println("PARSE", x)
	}
	for _, x := range vlog.Lint(d, vlog.LintOpts{}) {
		fmt.Println("LINT", x)
	}
}

// knownCases: one minimal machine per recorded mechanism (see the table in the check's report).
// VERIF_WRITE_KNOWN=<dir> re-creates the replay files after checking that each case fails with
// exactly its signature on the tree under test.
type knownCase struct {
	file string
	sig  string
	c    Case
}

func one(rsize int, mode string, L int, ops []string, sos []string) Case {
	pr := procFor(ops, mode, 1, sos)
	if L > 0 {
		pr.L = L
	}
	return single(rsize, pr, sos)
}

func knownCases() []knownCase {
	two := func(so string, a, b []string) Case {
		c := Case{Rsize: 8, SOs: []string{so}}
		for _, ops := range [][]string{a, b} {
			pr := procFor(ops, "ha", 1, c.SOs)
			pr.SOs = []int{0}
			c.Procs = append(c.Procs, pr)
		}
		return withProg(c)
	}
	three := two("channel:", []string{"wrd", "wwr", "chc", "nop"}, []string{"wrd", "wwr", "chc", "nop"})
	{
		pr := procFor([]string{"wrd", "wwr", "chc", "nop"}, "ha", 1, three.SOs)
		pr.SOs = []int{0}
		pr.Prog = []string{"nop"}
		three.Procs = append(three.Procs, pr)
	}
	unusedOut := single(8, Proc{Mode: "ha", R: 1, O: 2, M: 1, Ops: []string{"nop"}}, nil)
	unusedIn := single(8, Proc{Mode: "ha", R: 1, O: 2, N: 1, Ops: []string{"nop"}}, nil)
	unbonded := Case{Rsize: 8, Procs: []Proc{{Mode: "ha", R: 1, O: 2, N: 1, Ops: []string{"i2r", "nop"}, Prog: []string{"i2r r0 i0"}}}}
	shOff := Case{Rsize: 8, SOs: []string{"sharedmem:4"}, Procs: []Proc{
		{Mode: "ha", R: 1, O: 2, Ops: []string{"nop"}, Prog: []string{"nop"}},
		{Mode: "ha", R: 1, O: 2, Ops: []string{"nop", "r2s", "s2r"}, Prog: []string{"nop"}, SOs: []int{0}}}}
	return []knownCase{
		{"kbd-cp-params-named-u", "undeclared:processor:kNreceiverData", one(8, "ha", 0, []string{"k2r"}, []string{"kbd:4"})},
		{"kbd-module-not-written", "undefined-module:top:kN", one(8, "ha", 0, []string{"k2r"}, []string{"kbd:4"})},
		{"d10-barrier-clock", "undeclared:so:barrier:clock", one(8, "ha", 0, []string{"hit"}, []string{"barrier:0"})},
		{"d10-barrier-done-two-processes", "multi-driver:so:barrier:done", one(8, "ha", 0, []string{"hit"}, []string{"barrier:0"})},
		{"d10-barrier-counter-two-processes", "multi-driver:so:barrier:counter", one(8, "ha", 0, []string{"hit"}, []string{"barrier:4"})},
		{"hit-nested-case-items", "syntax:processor:expected-'='-or-'<='-after-assignment-target,-found-\":\"@RN_:_begin", one(8, "ha", 0, []string{"hit"}, []string{"barrier:0"})},
		{"testbench-omits-so-ports", "port-count:testbench:bondmachine_inst", one(8, "ha", 0, []string{"r2u", "u2r"}, []string{"uart:115200:4"})},
		{"lfsr8-two-processors", "port-count:top:lfsr8N_inst", two("lfsr8:7", []string{"lfsr82r"}, []string{"lfsr82r"})},
		{"fifo-without-sender", "syntax:so:queue:bad-literal-size-in-N'dN@sendSM_<=_N'dN;", one(8, "ha", 0, []string{"q2r"}, []string{"queue:4"})},
		{"fifo-without-receiver", "syntax:so:queue:bad-literal-size-in-N'dN@recvSM_<=_N'dN;", one(8, "ha", 0, []string{"r2q"}, []string{"queue:4"})},
		{"lifo-without-sender", "syntax:so:stack:bad-literal-size-in-N'dN@sendSM_<=_N'dN;", one(8, "ha", 0, []string{"t2r"}, []string{"stack:4"})},
		{"lifo-without-receiver", "syntax:so:stack:bad-literal-size-in-N'dN@recvSM_<=_N'dN;", one(8, "ha", 0, []string{"r2t"}, []string{"stack:4"})},
		{"channel-third-processor-tag", "syntax:so:channel:digit-out-of-range-for-base-in-'bN@localparam_TAG_CH_N_=_'bN;", three},
		{"channel-consumer-only", "undeclared:processor:wwr_ch", one(8, "ha", 0, []string{"wrd", "chw"}, []string{"channel:"})},
		{"channel-producer-only", "undeclared:processor:wrd_ch", one(8, "ha", 0, []string{"wwr", "chw"}, []string{"channel:"})},
		{"channel-without-check", "undeclared:processor:reset_flag_ch", one(8, "ha", 0, []string{"wrd", "wwr"}, []string{"channel:"})},
		{"channel-check-only", "undeclared:processor:ch_num", one(8, "ha", 0, []string{"chw"}, []string{"channel:"})},
		{"m2r-without-writer", "syntax:processor:unexpected-\";\"-in-expression@assign_ram_addr_=_(current_instruction[N", one(8, "ha", 0, []string{"m2r"}, nil)},
		{"m2r-without-writer-vn", "syntax:processor:unexpected-\";\"-in-expression@assign_ram_addr_=_(exec_mode_==_N'bN_&&_", one(8, "vn", 0, []string{"m2r"}, nil)},
		{"ram-opcode-in-vn-exec-mode", "undeclared:processor:exec_mode", one(8, "vn", 0, []string{"r2m"}, nil)},
		{"jgt0f-if-without-begin", "syntax:processor:unexpected-keyword-\"else\"-in-statement@else", one(8, "vn", 0, []string{"jgt0f"}, nil)},
		{"vtextmem-two-instances-module", "syntax:so:vtextmem:duplicate-definition-of-module-cptextvideoram@module_cptextvideoram_#(parameter_ADDR_W", one(8, "ha", 0, []string{"r2v"}, []string{"vtextmem:0:0:0:8:4", "vtextmem:0:0:0:8:4"})},
		{"vtextmem-second-instance-registers", "undeclared:processor:vtmN_din_i", one(8, "ha", 0, []string{"r2v"}, []string{"vtextmem:0:0:0:8:4", "vtextmem:0:0:0:8:4"})},
		{"expf-calls-undefined-function", "undeclared:processor:exp", one(8, "ha", 0, []string{"expf"}, nil)},
		{"cmpv-input-without-recv", "undeclared:processor:iN_recv", one(8, "ha", 0, []string{"cmpv"}, nil)},
		{"addi-and-i2r-both-drive-recv", "multi-driver:processor:iN_recv", one(8, "ha", 0, []string{"addi", "i2r"}, nil)},
		{"sharedmem-dout-by-processor-id", "undeclared:so:sharedmem:pNdout", shOff},
		{"uart-reset-port-named-rst", "undeclared:so:uart:reset", one(8, "ha", 0, []string{"r2u", "u2r"}, []string{"uart:115200:4"})},
		{"uart-read-fifo-missing", "undefined-module:so:uart:uNrfifo", one(8, "ha", 0, []string{"r2u"}, []string{"uart:115200:4"})},
		{"uart-write-fifo-missing", "undefined-module:so:uart:uNwfifo", one(8, "ha", 0, []string{"u2r"}, []string{"uart:115200:4"})},
		{"helper-module-key-addfps", "undefined-module:processor:addfpsNfN_N", one(16, "ha", 0, []string{"addf", "addfps16f8"}, nil)},
		{"helper-module-key-multfps", "undefined-module:processor:multfpsNfN_N", one(16, "ha", 0, []string{"multf", "multfps16f8"}, nil)},
		{"helper-module-key-divfps", "undefined-module:processor:divfpsNfN_N", one(16, "ha", 0, []string{"divf", "divfps16f8"}, nil)},
		{"helper-module-key-addlqs", "undefined-module:processor:addlqsNtN_N", one(16, "ha", 0, []string{"addfps16f8", "addlqs8t1"}, nil)},
		{"helper-module-key-multlqs", "undefined-module:processor:multlqsNtN_N", one(16, "ha", 0, []string{"multfps16f8", "multlqs8t1"}, nil)},
		{"helper-module-key-divlqs", "undefined-module:processor:divlqsNtN_N", one(16, "ha", 0, []string{"divfps16f8", "divlqs8t2"}, nil)},
		// configuration-dependent: machines no program-driven front end emits, accepted by the tool all the same
		{"cfg-unused-output", "undeclared:processor:oN_val", unusedOut},
		{"cfg-unused-input", "undeclared:processor:iN_recv", unusedIn},
		{"cfg-unbonded-processor-input", "undeclared:top:pNiN_valid", unbonded},
		{"cfg-so-opcode-without-so-localparam", "syntax:processor:expected-identifier,-found-keyword@localparam", one(8, "ha", 0, []string{"k2r"}, nil)},
		{"cfg-ram-jump-in-ha", "undeclared:processor:vn_state", one(8, "ha", 0, []string{"ja"}, nil)},
		{"cfg-tsp-without-threads", "undeclared:processor:threadStackNSM", single(8, Proc{Mode: "ha", R: 1, O: 2, Ops: []string{"tsp"}}, nil)},
		{"cfg-ram-opcode-without-ram", "undeclared:processor:ram_din", single(8, Proc{Mode: "ha", R: 1, O: 2, Ops: []string{"r2m"}}, nil)},
		{"cfg-vn-without-ram", "syntax:processor:bad-literal-size-in-N'hN@_pc_<=_#N_N'hN;", single(8, Proc{Mode: "vn", R: 1, O: 2, Ops: []string{"nop"}}, nil)},
		{"cfg-channel-opcode-without-channel", "undeclared:processor:ack_wrd_i", one(8, "ha", 0, []string{"wrd"}, nil)},
		{"cfg-sharedmem-opcode-without-sharedmem", "undeclared:processor:sh_dout_i", one(8, "ha", 0, []string{"s2r"}, nil)},
		{"cfg-r2v-without-vtextmem", "undeclared:processor:vtmN_din_i", one(8, "ha", 0, []string{"r2v"}, nil)},
		{"cfg-kbd-without-k2r", "syntax:so:kbd:bad-literal-size-in-N'dN@recvSM_<=_N'dN;", single(8, Proc{Mode: "ha", R: 1, O: 2, Ops: []string{"nop"}}, []string{"kbd:4"})},
	}
}

func TestWriteKnown(t *testing.T) {
	dir := os.Getenv("VERIF_WRITE_KNOWN")
	if dir == "" {
		t.Skip("VERIF_WRITE_KNOWN not set")
	}
	os.MkdirAll(dir, 0o755)
	for _, k := range knownCases() {
		c := k.c
		c.Strict = true
		all := prop(c)
		c.Focus = k.sig
		out := prop(c)
		if out.Fail == nil || out.Fail.Sig != k.sig {
			got := "<no failure>"
			if all.Fail != nil {
				got = all.Fail.Msg
			}
			t.Errorf("%s: expected failure %q, machine gives: %s (excluded=%q) shape=%v", k.file, k.sig, got, all.Excluded, shape(c))
			continue
		}
		raw, _ := json.Marshal(c)
		rf := pbt.ReplayFile{Property: "C18", Entry: "sweep", Failure: out.Fail, Case: raw}
		b, _ := json.MarshalIndent(rf, "", " ")
		if err := os.WriteFile(dir+"/"+k.file+".json", b, 0o644); err != nil {
			t.Fatal(err)
		}
		fmt.Printf("KNOWN %-45s shape=%v %s\n", k.file, shape(c), k.sig)
	}
}

// TestTableComplete: every statically registered opcode has a row in opTable (the sweep would skip it silently).
func TestTableComplete(t *testing.T) {
	for _, n := range StaticNames() {
		if _, ok := opTable[n]; !ok {
			t.Errorf("static opcode %q has no row in opTable", n)
		}
	}
	for n := range opTable {
		found := false
		for _, s := range StaticNames() {
			if s == n {
				found = true
			}
		}
		if !found {
			t.Errorf("opTable row %q is not a registered opcode", n)
		}
	}
	t.Logf("%d static opcodes", len(StaticNames()))
}
