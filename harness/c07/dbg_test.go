package c07

import (
	"encoding/json"
	"fmt"
	"os"
	"testing"

	"verifharness/pbt"
)

func TestDbg(t *testing.T) {
	p := os.Getenv("C07_DBG")
	if p == "" {
		t.Skip()
	}
	b, _ := os.ReadFile(p)
	var rf pbt.ReplayFile
	json.Unmarshal(b, &rf)
	var c BasmCase
	json.Unmarshal(rf.Case, &c)
	for _, f := range c.Files {
		fmt.Println("-----", f.Name)
		fmt.Println(f.Text)
	}
	fmt.Println(c.Flags)
	for i := 0; i < 3; i++ {
		a := assembleOnce(c.Files, c.Flags)
		fmt.Println(a[os.Getenv("C07_ART")])
	}
}

func TestDbgErrs(t *testing.T) {
	if os.Getenv("C07_ERRS") == "" {
		t.Skip()
	}
	hist := map[string]int{}
	ex := map[string]string{}
	g := genBasmCase(func() int { return 2 })
	for i := 0; i < 150; i++ {
		c := g2(g, i)
		a := assembleOnce(c.Files, c.Flags)
		e := a["error"]
		if len(e) > 70 {
			e = e[:70]
		}
		hist[e]++
		if _, ok := ex[e]; !ok {
			ex[e] = c.Files[0].Text
			if len(c.Files) > 1 {
				ex[e] += "=====\n" + c.Files[1].Text
			}
		}
	}
	for k, v := range hist {
		fmt.Println(v, k)
	}
	for k, v := range ex {
		if k != "" {
			fmt.Println("=========", k)
			fmt.Println(v)
		}
	}
}

func TestDbgNB(t *testing.T) {
	if os.Getenv("C07_NB") == "" {
		t.Skip()
	}
	g := genNBCase(func() int { return 2 })
	for i := 0; i < 6; i++ {
		c := rapidExampleNB(g, i)
		a := nbOnce(c)
		fmt.Println(c.Mode, c.IOMode, c.DataType, "nb error:", a["error"])
		if i == 0 {
			fmt.Println(a["out.basm"])
		}
		files := nbBasmInputs(c, a["out.basm"])
		b := assembleOnce(files, nbBasmFlags)
		fmt.Println("basm error:", b["error"], len(b["bm.json"]))
	}
}
