// C07 — every build step is a function of its inputs.
//
// Two tiers per tool (see cli.go and inproc.go for the mechanics and the stated masks):
//
//	inproc_*  the library entry points executed several times on fresh instances inside this process
//	cli_*     the real command-line tools ($VERIF_TOOLS) run N times as fresh processes in private
//	          scratch directories, GOMAXPROCS cycling over 1, 2, 16
//
// Oracle: byte equality of every artefact (machine JSON, BCOF, requirement dump, bminfo, emitted .basm,
// assembly listings, Verilog files, stdout, stderr, exit status) between the executions.
package c07

import (
	"encoding/json"
	"fmt"
	"os"
	"path/filepath"
	"sort"
	"strconv"
	"strings"
	"testing"

	"pgregory.net/rapid"
	"verifharness/gen"
	"verifharness/pbt"
)

// ---------------------------------------------------------------------------
// basm

// BasmCase is a set of .basm files (in command-line order) and assembler flags.
type BasmCase struct {
	Files []SrcFile
	Flags []string
	Runs  int  // executions compared (CLI: fresh processes; in-process: fresh instances)
	Probe bool // do not exclude the recorded mechanisms (replay files under known/ set it; never generated)
}

const inprocRuns = 5

func genBasmCase(runs func() int) func(t *rapid.T) BasmCase {
	return func(t *rapid.T) BasmCase {
		src, flags := genBasmSource(t)
		c := BasmCase{Flags: flags, Runs: runs()}
		// sometimes split the source in two files at a directive boundary (several inputs on the command line)
		if rapid.IntRange(0, 3).Draw(t, "split") == 0 {
			lines := strings.Split(src, "\n")
			var cuts []int
			depth := 0
			for i, l := range lines {
				f := strings.Fields(l)
				if len(f) == 0 {
					continue
				}
				switch {
				case strings.HasPrefix(f[0], "%end"):
					depth--
					if depth == 0 {
						cuts = append(cuts, i+1)
					}
				case f[0] == "%section" || f[0] == "%fragment" || f[0] == "%macro":
					depth++
				}
			}
			if len(cuts) > 0 {
				k := cuts[rapid.IntRange(0, len(cuts)-1).Draw(t, "cut")]
				c.Files = []SrcFile{{"a.basm", strings.Join(lines[:k], "\n") + "\n"}, {"b.basm", strings.Join(lines[k:], "\n")}}
				return c
			}
		}
		c.Files = []SrcFile{{"a.basm", src}}
		return c
	}
}

func basmLabels(c BasmCase, ok bool) (labels []string, rich int) {
	cnt := map[string]int{}
	for _, f := range c.Files {
		for k, v := range countDirectives(f.Text) {
			cnt[k] += v
		}
	}
	rich = richness(cnt)
	if ok {
		labels = append(labels, "assembled")
	} else {
		labels = append(labels, "rejected")
	}
	for _, k := range []string{"section", "fragment", "macro", "cpdef", "fidef"} {
		if cnt[k] >= 2 {
			labels = append(labels, k+">=2")
		}
	}
	if cnt["fidef"] > 0 && cnt["section"] > 0 {
		labels = append(labels, "mixed")
	}
	if len(c.Files) > 1 {
		labels = append(labels, "two-files")
	}
	for _, f := range c.Flags {
		if strings.HasPrefix(f, "-") && f != "-oprefix" {
			labels = append(labels, "flag"+f)
		}
	}
	sort.Strings(labels)
	return
}

func diffArte(a, b map[string]string) string {
	_, d := firstDiff(a, b)
	return d
}

func propInprocBasm(c BasmCase) pbt.Outcome {
	n := c.Runs
	if n < 2 {
		n = 2
	}
	first := assembleOnce(c.Files, c.Flags)
	ok := first["bm.json"] != "" || first["cluster.json"] != ""
	labels, rich := basmLabels(c, ok)
	if !c.Probe {
		labels = append(labels, canonicalise("basm", first)...)
	}
	out := pbt.Outcome{NonTrivial: ok && rich >= 2, Labels: labels}
	for i := 1; i < n; i++ {
		again := assembleOnce(c.Files, c.Flags)
		if !c.Probe {
			canonicalise("basm", again)
		}
		if d := diffArte(first, again); d != "" {
			out.Fail = pbt.Failf(classify("basm", d), "two in-process assemblies of the same source differ (execution 0 vs %d): %s", i, d)
			return out
		}
	}
	return out
}

func basmSteps(c BasmCase) []Step {
	args := append([]string{}, c.Flags...)
	args = append(args, "-bminfo-file", "bminfo.json", "-o", "bm.json", "-bo", "out.bcof", "-dump-requirements", "requirements.json")
	for _, f := range c.Files {
		if strings.HasSuffix(f.Name, ".basm") {
			args = append(args, f.Name)
		}
	}
	return []Step{{Tool: "basm", Args: args}}
}

func withBminfo(files []SrcFile) []SrcFile {
	return append(append([]SrcFile{}, files...), SrcFile{"bminfo.json", "{}"})
}

// cliVerdict runs a pipeline Runs times and turns the comparison into an Outcome.
func cliVerdict(tool string, files []SrcFile, steps []Step, runs int, probe bool) (out pbt.Outcome, arte map[string]string) {
	if toolsDir() == "" {
		return pbt.Outcome{Excluded: "no-tools"}, nil
	}
	if runs < 2 {
		runs = 2
	}
	rs := runMany(files, steps, runs)
	done, timeouts := 0, 0
	for _, r := range rs {
		if !probe && r.err == nil && r.timedOut == "" {
			if l := canonicalise(tool, r.arte); arte == nil {
				out.Labels = l
			}
		}
		switch {
		case r.err != nil:
			return pbt.Outcome{Excluded: "harness-error"}, nil
		case r.timedOut != "":
			timeouts++
		default:
			done++
			if arte == nil {
				arte = r.arte
			}
		}
	}
	if done < 2 {
		return pbt.Outcome{Excluded: tool + "-timeout"}, nil
	}
	if timeouts > 0 {
		out.Labels = append(out.Labels, "some-runs-timed-out")
	}
	if i, j, _, d := compareRuns(rs); d != "" {
		out.Fail = pbt.Failf(classify(tool, d), "%s: fresh-process runs %d (GOMAXPROCS=%d) and %d (GOMAXPROCS=%d) of %d differ: %s",
			tool, i, gomaxprocs[i%3], j, gomaxprocs[j%3], runs, d)
	}
	return out, arte
}

func propCliBasm(c BasmCase) pbt.Outcome {
	out, arte := cliVerdict("basm", withBminfo(c.Files), basmSteps(c), c.Runs, c.Probe)
	if out.Excluded != "" {
		return out
	}
	ok := arte["file:bm.json"] != "" || arte["file:cluster.json"] != ""
	labels, rich := basmLabels(c, ok)
	out.Labels = append(out.Labels, labels...)
	out.NonTrivial = ok && rich >= 2
	return out
}

// classify names the mechanism of a difference from the artefact it shows up in. Recorded
// mechanisms have their own signatures (findings.go); anything else is "nondet:<tool>:<artefact>".
func classify(tool, desc string) string {
	if sig := knownMechanism(tool, desc); sig != "" {
		return sig
	}
	name := desc
	if i := strings.Index(name, ": "); i >= 0 {
		name = name[:i]
	}
	if i := strings.Index(name, " exists only"); i >= 0 {
		name = name[:i]
	}
	return fmt.Sprintf("nondet:%s:%s", tool, name)
}

// ---------------------------------------------------------------------------
// neuralbond

// repeatInproc executes f n times and compares every execution with the first one.
func repeatInproc(tool string, n int, probe bool, f func() map[string]string) (first map[string]string, labels []string, fail *pbt.Failure) {
	if n < 2 {
		n = 2
	}
	first = f()
	if !probe {
		labels = canonicalise(tool, first)
	}
	for i := 1; i < n; i++ {
		again := f()
		if !probe {
			canonicalise(tool, again)
		}
		if d := diffArte(first, again); d != "" {
			return first, labels, pbt.Failf(classify(tool, d), "%s: in-process executions 0 and %d of the same input differ: %s", tool, i, d)
		}
	}
	return first, labels, nil
}

func nbBasmInputs(c NBCase, basmText string) []SrcFile {
	files := []SrcFile{{"out.basm", basmText}}
	for _, p := range neuronLibFiles(c.Mode) {
		b, _ := os.ReadFile(p)
		files = append(files, SrcFile{filepath.Base(p), string(b)})
	}
	return files
}

func propInprocNB(c NBCase) pbt.Outcome {
	first, labels, fail := repeatInproc("neuralbond", c.Runs, c.Probe, func() map[string]string { return nbOnce(c) })
	out := pbt.Outcome{Labels: append(c.labels(), labels...), Fail: fail}
	if fail != nil {
		return out
	}
	text := first["out.basm"]
	if text == "" {
		out.Labels = append(out.Labels, "neuralbond-rejected")
		return out
	}
	out.NonTrivial = c.rich()
	// second stage: the emitted file through the assembler (with the neuron library), on the canonical text
	files := nbBasmInputs(c, text)
	asm, l2, fail := repeatInproc("basm", 3, c.Probe, func() map[string]string { return assembleOnce(files, nbBasmFlags) })
	out.Labels = append(out.Labels, l2...)
	out.Fail = fail
	if asm["bm.json"] != "" {
		out.Labels = append(out.Labels, "assembled")
	} else {
		out.Labels = append(out.Labels, "basm-rejected")
	}
	sort.Strings(out.Labels)
	return out
}

func propCliNB(c NBCase) pbt.Outcome {
	libArgs := neuronLibFiles(c.Mode)
	basmArgs := append(append([]string{}, nbBasmFlags...), "-bminfo-file", "bminfo.json", "-o", "bm.json", "-bo", "out.bcof", "out.basm")
	basmArgs = append(basmArgs, libArgs...)
	if c.Probe {
		// the pipeline as a user runs it, nothing canonicalised
		out, _ := cliVerdict("neuralbond", c.nbFiles(), append(c.nbSteps(), Step{Tool: "basm", Args: basmArgs}), c.Runs, true)
		out.Labels = append(out.Labels, c.labels()...)
		return out
	}
	out, arte := cliVerdict("neuralbond", c.nbFiles(), c.nbSteps(), c.Runs, false)
	out.Labels = append(out.Labels, c.labels()...)
	if out.Excluded != "" || out.Fail != nil {
		return out
	}
	text := arte["file:out.basm"]
	if text == "" {
		out.Labels = append(out.Labels, "neuralbond-rejected")
		return out
	}
	out.NonTrivial = c.rich()
	files := []SrcFile{{"out.basm", text}, {"bminfo.json", arte["file:bminfo.json"]}}
	o2, a2 := cliVerdict("basm", files, []Step{{Tool: "basm", Args: basmArgs}}, c.Runs, false)
	if o2.Excluded != "" {
		return o2
	}
	out.Labels = append(out.Labels, o2.Labels...)
	out.Fail = o2.Fail
	if a2["file:bm.json"] != "" {
		out.Labels = append(out.Labels, "assembled")
	} else {
		out.Labels = append(out.Labels, "basm-rejected")
	}
	sort.Strings(out.Labels)
	return out
}

const nbRule = "layered nets in the format of cmd/neuralbond/net-*.json: 1..4 inputs, 1..2 hidden layers of 1..3 neurons (linear/summation/softmax), randomly pruned connections (>= 1 per neuron), one output terminal per last-layer neuron, weights and biases in [-2,2]; modes romcode|fragment, io sync|async, float32/32 or float16/16, fragment mode with random (weight,node) collapse groups in the config file; the emitted .basm then goes through basm with the neuron library and the chooser flags; oracle: byte equality of the emitted .basm, rewritten config and bminfo, then of machine JSON/BCOF/bminfo; non-trivial = neuralbond emitted a file, some layer has >= 2 neurons and there are >= 2 weights (the assembler's verdict on the emitted file is a label: assembled / basm-rejected)"

// ---------------------------------------------------------------------------
// bmqsim -> basm

func propInprocQ(c QCase) pbt.Outcome {
	first, labels, fail := repeatInproc("bmqsim", c.Runs, c.Probe, func() map[string]string { return qOnce(c) })
	out := pbt.Outcome{Labels: append(c.labels(), labels...), Fail: fail}
	if fail != nil {
		return out
	}
	text := first["q.basm"]
	if text == "" {
		out.Labels = append(out.Labels, "bmqsim-rejected")
		return out
	}
	out.NonTrivial = c.rich()
	files := []SrcFile{{"q.basm", text}}
	asm, l2, fail := repeatInproc("basm", 3, c.Probe, func() map[string]string { return assembleOnce(files, qBasmFlags) })
	out.Labels = append(out.Labels, l2...)
	out.Fail = fail
	if asm["bm.json"] != "" {
		out.Labels = append(out.Labels, "assembled")
	} else {
		out.Labels = append(out.Labels, "basm-rejected")
	}
	sort.Strings(out.Labels)
	return out
}

func propCliQ(c QCase) pbt.Outcome {
	files := []SrcFile{{"program.bmq", c.program()}}
	basmStep := Step{Tool: "basm", Args: append(append([]string{}, qBasmFlags...), "-bminfo-file", "bminfo.json", "-o", "bm.json", "-bo", "out.bcof", "q.basm")}
	out, arte := cliVerdict("bmqsim", files, c.qSteps(), c.Runs, c.Probe)
	out.Labels = append(out.Labels, c.labels()...)
	if out.Excluded != "" || out.Fail != nil {
		return out
	}
	text := arte["file:q.basm"]
	if text == "" {
		out.Labels = append(out.Labels, "bmqsim-rejected")
		return out
	}
	out.NonTrivial = c.rich()
	o2, a2 := cliVerdict("basm", []SrcFile{{"q.basm", text}, {"bminfo.json", "{}"}}, []Step{basmStep}, c.Runs, c.Probe)
	if o2.Excluded != "" {
		return o2
	}
	out.Labels = append(out.Labels, o2.Labels...)
	out.Fail = o2.Fail
	if a2["file:bm.json"] != "" {
		out.Labels = append(out.Labels, "assembled")
	} else {
		out.Labels = append(out.Labels, "basm-rejected")
	}
	sort.Strings(out.Labels)
	return out
}

const qRule = "circuits in the .bmq format of cmd/bmqsim/program.bmq: 1..3 qubits, optional `zero` line, 1..5 gates (h x z; for the complex flavours also y s t v rx ry rz r with an angle; cx cz swap on >= 2 qubits), flavours seq_hardcoded_real|complex|addtree_complex with -save-basm, -emit-bmapi-maps, optional -build-app flavour and the -build-matrix-seq-hls bundle; the emitted .basm then goes through `basm -chooser-min-word-size`; oracle: byte equality of every emitted file, then of machine JSON/BCOF; non-trivial = a .basm was emitted and the circuit has >= 2 qubits or >= 2 gates (>= 4 matrix-element data sections and >= 2 row CPs either way)"

// ---------------------------------------------------------------------------
// bondgo

func propCliBondgo(c GoCase) pbt.Outcome {
	out, arte := cliVerdict("bondgo", []SrcFile{{"prog.go", c.Src}}, c.steps(), c.Runs, c.Probe)
	if out.Excluded != "" {
		return out
	}
	mode := "single"
	if c.Mpm {
		mode = "mpm"
	}
	out.Labels = append(out.Labels, "mode="+mode, fmt.Sprintf("rsize=%d", c.Rsize), fmt.Sprintf("workers=%d", c.Workers))
	if c.ValueArgs {
		out.Labels = append(out.Labels, "go-value-args")
	}
	machine := arte["file:m.json"] + arte["file:bm.json"]
	if machine == "" {
		out.Labels = append(out.Labels, "bondgo-rejected")
	} else {
		out.Labels = append(out.Labels, "compiled")
		// >= 2 variables (the allocator's per-processor lists) and, in mpm mode, >= 2 processors / channels
		out.NonTrivial = c.Vars >= 2 && (!c.Mpm || c.Workers >= 1)
	}
	sort.Strings(out.Labels)
	return out
}

const goRule = "Go-subset programs from a grammar of what pkg/bondgo accepts: 1..3 register + 0..2 memory variables per function, = + * ++ -- if/else(==) for{}, IOWrite on an output made with bondgo.Make; with -mpm 1..3 worker goroutines fed through channels, each with its own output (1 case in 5 also passes a value argument to `go f(c, k)`, a form bondgo refuses as a whole: C12's open finding go-value-args); register size 8/16/32; outputs -save-assembly, -save-machine | -save-bondmachine, optionally -show-requirements on stdout; N fresh processes (quick 6, thorough 30), GOMAXPROCS in {1,2,16}; a run that hits the 6 s timeout is dropped (hangs are C12's business), fewer than 2 completed runs = excluded bondgo-timeout; non-trivial = a machine was written, main has >= 2 variables and (-mpm) there are >= 2 processors"

// ---------------------------------------------------------------------------
// bondmachine -create-verilog

type VCase struct {
	BM        string // machine JSON (json.Marshal(bm.Jsoner()))
	Source    string // handshake | basm (how the generator obtained the machine)
	Sim       bool   // -verilog-simulation -simbox-file sb.json (empty simbox)
	Commented bool   // -comment-verilog
	Board     string `json:",omitempty"` // -verilog-flavor <board> -verilog-mapfile (a flavour that writes bondmachine_main.v); CLI entry only
	BMAPI     string `json:",omitempty"` // -use-bmapi -bmapi-flavor uartusb|aximm with every external port mapped; needs Board
	Uarts     int    `json:",omitempty"` // the machine has this many uart shared objects (attached to processor 0) and -uart -uart-mapfile maps their pins; needs Board
	Runs      int
	Probe     bool
}

// boardArgs: the board/BMAPI part of the command line and the map files it names.
func (c VCase) boardArgs() (args []string, files []SrcFile) {
	if c.Board == "" {
		return
	}
	args = append(args, "-verilog-flavor", c.Board, "-verilog-mapfile", "map.json")
	files = append(files, SrcFile{"map.json", `{"Assoc":{"clk":"clk","reset":"btnC"}}`})
	if c.Uarts > 0 {
		var pins []string
		for u := 0; u < c.Uarts; u++ {
			pins = append(pins, fmt.Sprintf(`"uart%d_rx":"JA%d"`, u, 2*u), fmt.Sprintf(`"uart%d_tx":"JA%d"`, u, 2*u+1))
		}
		files = append(files, SrcFile{"uart.json", `{"Assoc":{` + strings.Join(pins, ",") + `}}`})
		args = append(args, "-uart", "-uart-mapfile", "uart.json")
	}
	if c.BMAPI == "" {
		return
	}
	var m struct{ Inputs, Outputs int }
	json.Unmarshal([]byte(c.BM), &m)
	var assoc []string
	for i := 0; i < m.Inputs; i++ {
		assoc = append(assoc, fmt.Sprintf(`"i%d":"%d"`, i, i))
	}
	for i := 0; i < m.Outputs; i++ {
		assoc = append(assoc, fmt.Sprintf(`"o%d":"%d"`, i, i))
	}
	files = append(files, SrcFile{"bmapi.json", `{"Assoc":{` + strings.Join(assoc, ",") + `}}`})
	args = append(args, "-use-bmapi", "-bmapi-flavor", c.BMAPI, "-bmapi-mapfile", "bmapi.json", "-bmapi-language", "c",
		"-bmapi-liboutdir", "lib", "-bmapi-modoutdir", "mod", "-bmapi-auxoutdir", "aux")
	return
}

func genVCase(runs func() int) func(t *rapid.T) VCase {
	return func(t *rapid.T) VCase {
		c := VCase{Runs: runs(), Sim: rapid.IntRange(0, 3).Draw(t, "sim") != 0, Commented: rapid.Bool().Draw(t, "commented")}
		if rapid.IntRange(0, 2).Draw(t, "board") == 0 {
			c.Sim = false
			c.Board = rapid.SampledFrom([]string{"basys3", "zedboard", "ebaz4205", "zc702", "kc705"}).Draw(t, "boardname")
			c.BMAPI = rapid.SampledFrom([]string{"", "uartusb", "aximm"}).Draw(t, "bmapi")
		}
		if rapid.Bool().Draw(t, "frombasm") {
			src, flags := func() (string, []string) {
				genNoFxp = true
				defer func() { genNoFxp = false }() // also when rapid abandons the draw by panicking
				return genBasmSource(t)
			}()
			// (machines using the fxp dynamic opcodes are left out: their HDL is read from /tmp/fxpcode/*.v, absent here,
			// and the generator calls log.Fatal — dynop_fxp.go:402 — which would end this process)
			if a := assembleOnce([]SrcFile{{"a.basm", src}}, flags); a["bm.json"] != "" && !strings.Contains(a["bm.json"], "fxps") {
				c.BM, c.Source = a["bm.json"], "basm"
				return c
			}
		}
		spec := gen.HandshakeMachine(t, gen.HSOptions{MaxProcs: 4, MaxPad: 2})
		bm, err := gen.Build(spec)
		if err != nil {
			t.Fatalf("gen.Build: %v", err)
		}
		if c.Board != "" {
			c.Uarts = rapid.SampledFrom([]int{0, 0, 1, 2}).Draw(t, "uarts")
			for u := 0; u < c.Uarts; u++ {
				bm.Add_shared_objects([]string{"uart:115200:4"})
				bm.Connect_processor_shared_object([]string{"0", strconv.Itoa(u)})
			}
		}
		b, _ := json.Marshal(bm.Jsoner())
		c.BM, c.Source = string(b), "handshake"
		return c
	}
}

func (c VCase) procs() int {
	var m struct{ Processors []int }
	json.Unmarshal([]byte(c.BM), &m)
	return len(m.Processors)
}

func (c VCase) labels() []string {
	l := []string{"source=" + c.Source, fmt.Sprintf("sim=%v", c.Sim), fmt.Sprintf("commented=%v", c.Commented), fmt.Sprintf("procs=%d", min(c.procs(), 4))}
	if c.Board != "" {
		l = append(l, "board", "bmapi="+c.BMAPI, fmt.Sprintf("uarts=%d", c.Uarts))
	}
	return l
}

func (c VCase) flavor() string {
	if c.Board != "" {
		return c.Board
	}
	if c.Sim {
		return "iverilog_simulation"
	}
	return "iverilog"
}

func propInprocHDL(c VCase) pbt.Outcome {
	c.Board, c.BMAPI = "", "" // board flavours go through cmd/bondmachine's option handling: CLI entry only
	var herr error
	first, labels, fail := repeatInproc("bondmachine", c.Runs, c.Probe, func() map[string]string {
		files, err := hdlOnce(c.BM, c.flavor(), c.Commented)
		if err != nil {
			herr = err
			return map[string]string{"error": err.Error()}
		}
		return files
	})
	out := pbt.Outcome{Labels: append(c.labels(), labels...), Fail: fail}
	nv := 0
	for k, v := range first {
		if strings.HasSuffix(k, ".v") && v != "" {
			nv++
		}
	}
	if herr != nil {
		out.Labels = append(out.Labels, "hdl-error")
	}
	out.NonTrivial = nv >= 2 && c.procs() >= 2
	sort.Strings(out.Labels)
	return out
}

func propCliHDL(c VCase) pbt.Outcome {
	args := []string{"-bondmachine-file", "bm.json", "-create-verilog"}
	files := []SrcFile{{"bm.json", c.BM}}
	if c.Sim {
		args = append(args, "-verilog-simulation", "-simbox-file", "sb.json")
		files = append(files, SrcFile{"sb.json", "{}"})
	}
	if c.Commented {
		args = append(args, "-comment-verilog")
	}
	ba, bf := c.boardArgs()
	args, files = append(args, ba...), append(files, bf...)
	out, arte := cliVerdict("bondmachine", files, []Step{{Tool: "bondmachine", Args: args}}, c.Runs, c.Probe)
	if out.Excluded != "" {
		return out
	}
	out.Labels = append(out.Labels, c.labels()...)
	nv := 0
	for k, v := range arte {
		if strings.HasSuffix(k, ".v") && v != "" {
			nv++
		}
	}
	if arte["step0:bondmachine:exit"] != "0" {
		// without a simbox the test-bench generator dereferences nil (verilog.go:622) after the design files are
		// written: a deterministic crash, the files and the masked stderr are still compared
		out.Labels = append(out.Labels, "tool-crashed")
	}
	out.NonTrivial = nv >= 2 && c.procs() >= 2
	sort.Strings(out.Labels)
	return out
}

const vRule = "machine JSON from gen.Build(gen.HandshakeMachine(1..4 processors)) or from the in-process assembly of a generated BASM source; `bondmachine -bondmachine-file bm.json -create-verilog` with the iverilog flavour, optionally -verilog-simulation -simbox-file (empty simbox) and -comment-verilog; one case in three (CLI entry) uses a board flavour (basys3, zedboard, ebaz4205, zc702, kc705: the ones that write bondmachine_main.v) with a clk/reset map file, optionally with -use-bmapi -bmapi-flavor uartusb|aximm and every external port mapped (library, module and auxiliary outputs included in the comparison), and for handshake machines optionally 1..2 uart shared objects with -uart -uart-mapfile naming their pins; oracle: byte equality of every emitted .v file (and exit status / masked stderr); non-trivial = >= 2 non-empty .v files and >= 2 processors (processor, ROM/RAM and link tables each have >= 2 entries)"

const basmRule = "BASM sources synthesised from a grammar (1..5 code sections with labels, entry, rset/inc/add/mult/cpy/mov/jz/j bodies, rom/ram accesses, 0..3 data sections, 0..3 macros, 1..5 CPs sharing sections, an IO network; and/or 1..4 fragments (plain and templated), 1..6 instances in a DAG, links, CPs with fragcollapse lists), literals in every bmnumbers notation over-sampled at 10/100, optional second input file, chooser/pass/optimization flags; oracle: byte equality of machine JSON, BCOF, requirement dump, bminfo (and, CLI tier, stdout/stderr/exit status) between executions; non-trivial = a machine was produced and at least two of the collections {sections, fragments, macros, cpdefs, iodefs, fidefs, filinkdefs} have >= 2 entries"

var Props = []*pbt.Entry{
	pbt.Def("inproc_basm", basmRule+"; 5 executions on fresh BasmInstances in one process (registries reset between them)", genBasmCase(func() int { return inprocRuns }), wrap(propInprocBasm)),
	pbt.Def("inproc_neuralbond", nbRule+"; 5 in-process executions of the neuralbond sequence, 3 of the assembler", genNBCase(func() int { return inprocRuns }), wrap(propInprocNB)),
	pbt.Def("cli_neuralbond", nbRule+"; N fresh processes per stage (quick 6, thorough 30), GOMAXPROCS in {1,2,16}", genNBCase(tierRuns), wrap(propCliNB)),
	pbt.Def("inproc_bmqsim", qRule+"; 5 in-process executions of the bmqsim sequence, 3 of the assembler", genQCase(func() int { return inprocRuns }), wrap(propInprocQ)),
	pbt.Def("cli_bmqsim", qRule+"; N fresh processes per stage (quick 6, thorough 30), GOMAXPROCS in {1,2,16}", genQCase(tierRuns), wrap(propCliQ)),
	pbt.Def("inproc_hdl", vRule+"; 5 in-process Write_verilog executions from a fresh Dejsoner()+Init() each", genVCase(func() int { return inprocRuns }), wrap(propInprocHDL)),
	pbt.Def("cli_bondmachine", vRule+"; N fresh processes (quick 6, thorough 30), GOMAXPROCS in {1,2,16}", genVCase(tierRuns), wrap(propCliHDL)),
	pbt.Def("cli_bondgo", goRule, genGoCase(tierRuns), wrap(propCliBondgo)),
	pbt.Def("cli_basm", basmRule+"; N fresh processes (quick 6, thorough 30), GOMAXPROCS in {1,2,16}; a second outcome of per-run probability p is missed with (1-p)^(N-1)", genBasmCase(tierRuns), wrap(propCliBasm)),
}

// dedupe sorts a label list and removes repetitions (two-stage pipelines collect labels per stage).
func dedupe(out pbt.Outcome) pbt.Outcome {
	sort.Strings(out.Labels)
	var r []string
	for i, l := range out.Labels {
		if i == 0 || l != out.Labels[i-1] {
			r = append(r, l)
		}
	}
	out.Labels = r
	return out
}

func wrap[C any](f func(C) pbt.Outcome) func(C) pbt.Outcome {
	return func(c C) pbt.Outcome { return dedupe(f(c)) }
}

// Tools are the command-line programs the cli_* entries need in $VERIF_TOOLS.
var Tools = []string{"basm", "bondgo", "neuralbond", "bmqsim", "bondmachine"}

func TestProps(t *testing.T) {
	if d := toolsDir(); d != "" {
		// a missing binary must not turn every CLI case into a quiet exclusion
		for _, tool := range Tools {
			if _, err := os.Stat(filepath.Join(d, tool)); err != nil {
				t.Fatalf("inconclusive: %s is not in $VERIF_TOOLS (%s): %v", tool, d, err)
			}
		}
	}
	pbt.RunAll(t, "C07", Props)
}
func TestReplay(t *testing.T) { pbt.ReplayAll(t, "C07", Props) }
