package c07

// nb.go: neuralbond — random layered nets in the JSON format of /repo/cmd/neuralbond/net-*.json, the
// in-process replica of cmd/neuralbond/neuralbond.go and the CLI pipelines neuralbond → basm.

import (
	"encoding/json"
	"fmt"
	"os"
	"path/filepath"
	"regexp"
	"sort"
	"strings"

	"github.com/BondMachineHQ/BondMachine/pkg/bminfo"
	"github.com/BondMachineHQ/BondMachine/pkg/bmnumbers"
	"github.com/BondMachineHQ/BondMachine/pkg/neuralbond"
	"pgregory.net/rapid"
)

type NBNode struct {
	Layer int
	Pos   int
	Type  string
	Bias  float32
}

type NBWeight struct {
	Layer        int
	PosCurrLayer int
	PosPrevLayer int
	Value        float32
}

type NBNet struct {
	Nodes   []NBNode
	Weights []NBWeight
}

// NBCase is one neuralbond invocation.
type NBCase struct {
	Net       NBNet
	Mode      string // romcode | fragment
	IOMode    string // async | sync
	DataType  string
	RegSize   int
	Pruned    []string   // config: fragment instances marked pruned (fragment mode)
	Collapsed [][]string // config: groups collapsed into one CP (fragment mode)
	Runs      int
	Probe     bool // keep the recorded mechanisms in (known/ replays)
}

func repoDir() string {
	if d := os.Getenv("VERIF_REPO"); d != "" {
		return d
	}
	return "/repo"
}

func neuronLib() string { return filepath.Join(repoDir(), "library", "neurons") }

func genNBCase(runs func() int) func(t *rapid.T) NBCase {
	return func(t *rapid.T) NBCase {
		var c NBCase
		c.Runs = runs()
		c.Mode = rapid.SampledFrom([]string{"romcode", "fragment", "fragment"}).Draw(t, "mode")
		c.IOMode = rapid.SampledFrom([]string{"async", "sync"}).Draw(t, "iomode")
		c.DataType, c.RegSize = "float32", 32
		if rapid.IntRange(0, 3).Draw(t, "f16") == 0 {
			c.DataType, c.RegSize = "float16", 16
		}
		hidden := rapid.IntRange(1, 2).Draw(t, "hidden") // 3..4 layers in all (inputs, hidden…, outputs)
		var sizes []int
		sizes = append(sizes, rapid.IntRange(1, 4).Draw(t, "inputs"))
		for i := 0; i < hidden; i++ {
			sizes = append(sizes, rapid.IntRange(1, 3).Draw(t, "width"))
		}
		w := func(l string) float32 { return float32(rapid.IntRange(-2000, 2000).Draw(t, l)) / 1000 }
		for p := 0; p < sizes[0]; p++ {
			c.Net.Nodes = append(c.Net.Nodes, NBNode{Layer: 0, Pos: p, Type: "input"})
		}
		for l := 1; l < len(sizes); l++ {
			typ := rapid.SampledFrom([]string{"linear", "linear", "summation", "softmax"}).Draw(t, "ltype")
			for p := 0; p < sizes[l]; p++ {
				c.Net.Nodes = append(c.Net.Nodes, NBNode{Layer: l, Pos: p, Type: typ, Bias: w("bias")})
				// connections from the previous layer: full, randomly pruned, at least one
				var kept []int
				for q := 0; q < sizes[l-1]; q++ {
					if rapid.IntRange(0, 3).Draw(t, "keep") != 0 {
						kept = append(kept, q)
					}
				}
				if len(kept) == 0 {
					kept = []int{rapid.IntRange(0, sizes[l-1]-1).Draw(t, "one")}
				}
				for _, q := range kept {
					c.Net.Weights = append(c.Net.Weights, NBWeight{Layer: l, PosCurrLayer: p, PosPrevLayer: q, Value: w("w")})
				}
			}
		}
		last := len(sizes) - 1
		for p := 0; p < sizes[last]; p++ { // one terminal per neuron of the last layer (net-testsmall.json)
			c.Net.Nodes = append(c.Net.Nodes, NBNode{Layer: last + 1, Pos: p, Type: "output"})
			c.Net.Weights = append(c.Net.Weights, NBWeight{Layer: last + 1, PosCurrLayer: p, PosPrevLayer: p, Value: 1})
		}
		if c.Mode == "fragment" {
			// collapse some (weight, target node) chains into one CP: the weight precedes the node it feeds
			used := map[string]bool{}
			for _, wg := range c.Net.Weights {
				if rapid.IntRange(0, 4).Draw(t, "collapse") != 0 {
					continue
				}
				wn := fmt.Sprintf("weightfi_%d_%d__%d_%d", wg.Layer-1, wg.PosPrevLayer, wg.Layer, wg.PosCurrLayer)
				nn := fmt.Sprintf("node_%d_%d", wg.Layer, wg.PosCurrLayer)
				if used[wn] || used[nn] {
					continue
				}
				used[wn], used[nn] = true, true
				c.Collapsed = append(c.Collapsed, []string{wn, nn})
			}
		}
		return c
	}
}

func (c NBCase) netJSON() string {
	b, _ := json.MarshalIndent(c.Net, "", "  ")
	return string(b)
}

func (c NBCase) configJSON() string {
	cfg := map[string]any{"Params": map[string]string{"expprec": "2"}}
	if len(c.Pruned) > 0 {
		cfg["Pruned"] = c.Pruned
	}
	if len(c.Collapsed) > 0 {
		cfg["Collapsed"] = c.Collapsed
	}
	b, _ := json.Marshal(cfg)
	return string(b)
}

// collections: neurons per layer, weights.
func (c NBCase) rich() bool {
	per := map[int]int{}
	for _, n := range c.Net.Nodes {
		per[n.Layer]++
	}
	wide := 0
	for _, k := range per {
		if k >= 2 {
			wide++
		}
	}
	return wide >= 1 && len(c.Net.Weights) >= 2 && len(c.Net.Nodes) >= 2
}

func (c NBCase) labels() []string {
	return []string{"mode=" + c.Mode, "io=" + c.IOMode, "type=" + c.DataType, fmt.Sprintf("collapsed=%d", min(len(c.Collapsed), 2)), fmt.Sprintf("nodes=%d", len(c.Net.Nodes)/4*4)}
}

// nbOnce replicates cmd/neuralbond/neuralbond.go main() and returns the emitted basm text and the rewritten
// config / bminfo files.
func nbOnce(c NBCase) (arte map[string]string) {
	resetRegistries()
	restore := quiet()
	defer restore()
	arte = map[string]string{}
	defer func() {
		if r := recover(); r != nil {
			arte["error"] = fmt.Sprintf("panic: %v", r)
		}
	}()
	net := new(neuralbond.TrainedNet)
	if err := json.Unmarshal([]byte(c.netJSON()), net); err != nil {
		arte["error"] = err.Error()
		return
	}
	net.RegisterSize = c.RegSize
	switch c.Mode {
	case "romcode":
		net.OperatingMode = neuralbond.ROMCODE
	case "fragment":
		net.OperatingMode = neuralbond.FRAGMENT
	}
	config := new(neuralbond.Config)
	if err := json.Unmarshal([]byte(c.configJSON()), config); err != nil {
		arte["error"] = err.Error()
		return
	}
	config.BMinfo = new(bminfo.BMinfo)
	if config.Params == nil {
		config.Params = make(map[string]string)
	}
	if config.List == nil {
		config.List = make(map[string]string)
	}
	if config.Pruned == nil {
		config.Pruned = make([]string, 0)
	}
	config.NeuronLibPath = neuronLib()
	if err := net.Init(config); err != nil {
		arte["error"] = err.Error()
		return
	}
	if c.IOMode == "sync" {
		net.IOMode = neuralbond.SYNC
	} else {
		net.IOMode = neuralbond.ASYNC
	}
	net.Normalize()
	found := false
	setType := func() {
		for _, tpy := range bmnumbers.AllTypes {
			if tpy.GetName() == c.DataType {
				for opType, opName := range tpy.ShowInstructions() {
					config.Params[opType] = opName
				}
				config.DataType = c.DataType
				config.TypePrefix = tpy.ShowPrefix()
				config.Params["typeprefix"] = tpy.ShowPrefix()
				found = true
				break
			}
		}
	}
	setType()
	if !found {
		if created, err := bmnumbers.EventuallyCreateType(c.DataType, nil); err == nil && created {
			setType()
		} else {
			arte["error"] = "unknown data type"
			return
		}
	}
	text, err := net.WriteBasm()
	if err != nil {
		arte["error"] = err.Error()
		return
	}
	arte["out.basm"] = text
	if b, err := json.MarshalIndent(config.BMinfo, "", "  "); err == nil {
		arte["bminfo.json"] = string(b)
	}
	config.BMinfo = nil
	if b, err := json.MarshalIndent(config, "", "  "); err == nil {
		arte["cfg.json"] = string(b)
	}
	return
}

func (c NBCase) nbFiles() []SrcFile {
	return []SrcFile{{"net.json", c.netJSON()}, {"cfg.json", c.configJSON()}, {"bminfo.json", "{}"}}
}

func (c NBCase) nbSteps() []Step {
	return []Step{{Tool: "neuralbond", Args: []string{"-net-file", "net.json", "-neuron-lib-path", neuronLib(), "-operating-mode", c.Mode,
		"-io-mode", c.IOMode, "-data-type", c.DataType, "-register-size", fmt.Sprint(c.RegSize), "-save-basm", "out.basm", "-config-file", "cfg.json", "-bminfo-file", "bminfo.json"}}}
}

// neuronLibFiles: the library sources handed to basm together with the emitted file: rom-*.basm for
// romcode, frag-*.basm for fragment mode (both families define the same names).
func neuronLibFiles(mode string) []string {
	prefix := "rom-"
	if mode == "fragment" {
		prefix = "frag-"
	}
	ents, _ := os.ReadDir(neuronLib())
	var r []string
	for _, e := range ents {
		if strings.HasPrefix(e.Name(), prefix) && strings.HasSuffix(e.Name(), ".basm") {
			r = append(r, filepath.Join(neuronLib(), e.Name()))
		}
	}
	sort.Strings(r)
	return r
}

var nbBasmFlags = []string{"-chooser-min-word-size", "-chooser-force-same-name"}

// ---- D3: neuralbond FRAGMENT mode emits the `cpdef <n> fragcollapse:<n>` lines of the instances that are in
// no collapse group by ranging over a map (pkg/neuralbond/neuralbond.go:308). They are the last lines of
// the file. Canonical form: that trailing block sorted.
var d3Line = regexp.MustCompile(`^%meta cpdef (\S+) fragcollapse:(\S+)$`)

func canonD3(text string) (string, int) {
	lines := strings.Split(text, "\n")
	end := len(lines)
	for end > 0 && lines[end-1] == "" {
		end--
	}
	start := end
	for start > 0 {
		m := d3Line.FindStringSubmatch(lines[start-1])
		if m == nil || m[1] != m[2] {
			break
		}
		start--
	}
	if end-start >= 2 {
		sort.Strings(lines[start:end])
	}
	return strings.Join(lines, "\n"), end - start
}
