package c07

// basmgen.go: BASM sources rich in map-backed structure, synthesised from a small grammar.
//
// Syntax follows what pkg/basm/asmparser.go + meta.go accept and what the repository's own emitters
// write (pkg/neuralbond WriteBasm, pkg/bm2basm, pkg/bmqsim templates, library/neurons/*.basm):
//
//	%meta bmdef global registersize:16
//	%section NAME .romtext iomode:sync      entry LABEL / LABEL: / op a, b
//	%section NAME .romdata|.ramdata         sym db|dd lit, lit
//	%macro NAME 0 … %endmacro               (body inserted verbatim where NAME is the operation)
//	%fragment NAME [template:true] resin:r0:r1 resout:r2 … %endfragment
//	%meta cpdef CP romcode:S[, romdata:D][, ramdata:D][, execmode:ha][, user:param → template]
//	%meta iodef IO type:io / %meta ioatt IO cp:CP|bm, type:input|output, index:N
//	%meta fidef FI fragment:F[, user:param] / %meta filinkdef L type:fl / %meta filinkatt L fi:FI|ext, type:…, index:N
//	%meta cpdef CP fragcollapse:FI:FI
//
// Names are drawn from pools through rapid permutations so that the hash order of the assembler's
// maps varies between cases as well as between runs.

import (
	"fmt"
	"strconv"
	"strings"

	"pgregory.net/rapid"
)

var secNames = []string{"alpha", "beta", "gamma", "delta", "eps", "zeta", "eta", "theta", "iota", "kappa", "lam", "mu"}
var dataNames = []string{"tab", "vars", "lut", "consts", "buf", "coef"}
var cpNames = []string{"cpa", "cpb", "cpc", "cpd", "cpe", "cpf", "proc0", "proc1", "worker", "core"}
var macroNames = []string{"bump", "zap", "twice", "settle"}
var fragNames = []string{"fa", "fb", "fc", "fd", "fe", "ff"}

// genLit draws a numeric literal < 100 in one of the notations of pkg/bmnumbers, over-sampling the
// boundaries between notations (D2 was `0u100`: `<n>` vs `<n>.0+` with an unescaped dot).
func genLit(t *rapid.T, rsize int) string { return genLitK(t, rsize, 13) }

// genLitI: the unsized notations only (instruction operands: a sized literal is exported with all its
// bits and the instruction word check rejects it — a clean error, not interesting here).
func genLitI(t *rapid.T, rsize int) string { return genLitK(t, rsize, 10) }

func genLitK(t *rapid.T, rsize int, maxKind int) string {
	v := rapid.SampledFrom([]int{0, 1, 5, 10, 10, 100, 100, 20, 50, 7, 15, 64, 99}).Draw(t, "litv")
	if v > 100 {
		v = 100
	}
	kind := rapid.IntRange(0, maxKind).Draw(t, "litk")
	if rapid.IntRange(0, 9).Draw(t, "litboundary") == 0 && rsize >= 2 && rsize <= 64 {
		// the largest values of the register size, written as plain decimals or hex; and the edges of the
		// 64-bit parsers whatever the register size (a value that does not fit must be refused the same way
		// every time)
		top := ^uint64(0) >> uint(64-rsize)
		b := []uint64{top, top >> 1, (top >> 1) + 1, 1 << 63, ^uint64(0)}[rapid.IntRange(0, 4).Draw(t, "litb")]
		if rapid.Bool().Draw(t, "litbhex") {
			return fmt.Sprintf("0x%x", b)
		}
		return fmt.Sprintf("%d", b)
	}
	switch kind {
	case 0, 1:
		return fmt.Sprintf("%d", v)
	case 2, 3:
		return fmt.Sprintf("0u%d", v)
	case 4:
		return fmt.Sprintf("0d%d", v)
	case 5:
		return fmt.Sprintf("0u%d.0", v)
	case 6:
		return fmt.Sprintf("0d%d.00", v)
	case 7:
		return fmt.Sprintf("0x%02x", v)
	case 8:
		return fmt.Sprintf("0x%x", v)
	case 9:
		return fmt.Sprintf("0b%b", v)
	case 10:
		return fmt.Sprintf("0b0%b", v)
	case 11:
		return fmt.Sprintf("0u<%d>%d", rsize, v)
	case 12:
		return fmt.Sprintf("0x<%d>%x", rsize, v)
	default:
		return fmt.Sprintf("0b<%d>%b", rsize, v)
	}
}

// genNoFxp is set by the HDL case generator while it draws a source (generators run sequentially): the HDL
// of the fxp opcodes is read from /tmp/fxpcode/*.v, which does not exist here.
var genNoFxp bool

// dynOps: names the dynamic-instruction families accept for a register size (fixed point, fxp).
func dynOps(rsize int) []string {
	f := rsize / 4
	if genNoFxp {
		return []string{fmt.Sprintf("addfps%df%d", rsize, f), fmt.Sprintf("multfps%df%d", rsize, f), fmt.Sprintf("addfps%df%d", rsize, f-1)}
	}
	return []string{fmt.Sprintf("addfps%df%d", rsize, f), fmt.Sprintf("multfps%df%d", rsize, f), fmt.Sprintf("multfxps%df%d", rsize, f-1), fmt.Sprintf("addfxps%df%d", rsize, f-1)}
}

type secSpec struct {
	name      string
	nin, nout int
	useRam    bool
	callFrag  string // a templated fragment reached through the dynamical call instruction (call4s <fragment>); the section carries its parameter k:<n>
}

func reg(t *rapid.T, n int, l string) string {
	return fmt.Sprintf("r%d", rapid.IntRange(0, n-1).Draw(t, l))
}

// genTextBody writes a code section body.
func genTextBody(t *rapid.T, b *strings.Builder, s secSpec, rsize int, macros []string) {
	nreg := rapid.IntRange(2, 4).Draw(t, "nreg")
	nl := rapid.IntRange(3, 9).Draw(t, "nlines")
	labels := []string{"_start"}
	nlab := rapid.IntRange(0, 2).Draw(t, "nlab")
	for i := 0; i < nlab; i++ {
		labels = append(labels, fmt.Sprintf("l%d", i))
	}
	fmt.Fprintf(b, "        entry _start\n_start:\n")
	for k := 0; k < s.nin; k++ {
		fmt.Fprintf(b, "        mov %s, i%d\n", reg(t, nreg, "rin"), k)
	}
	nextLab := 1
	// a label must be followed by a real instruction: a second label on the same address replaces the
	// first one and a macro invocation loses it (the assembler then reports "entry point not detected" /
	// "no operator match": clean, deterministic rejections that would only dilute the search)
	afterLabel := s.nin == 0
	for i := 0; i < nl; i++ {
		if !afterLabel && nextLab < len(labels) && rapid.IntRange(0, 2).Draw(t, "putlab") == 0 {
			fmt.Fprintf(b, "%s:\n", labels[nextLab])
			nextLab++
			afterLabel = true
		}
		kinds := []string{"rset", "rset", "inc", "dec", "add", "mult", "cpy", "clr", "movlit", "nop", "jz", "rom"}
		if s.useRam {
			kinds = append(kinds, "ramr", "ramw", "ramr")
		}
		if len(macros) > 0 && !afterLabel {
			kinds = append(kinds, "macro", "macro")
		}
		// dynamically created instructions (pkg/procbuilder dynamical_*.go): the assembler registers them in the
		// order in which its walk over the sections map meets them
		kinds = append(kinds, "dyn", "dyn", "rsets")
		if s.callFrag != "" {
			kinds = append(kinds, "call", "call")
		}
		afterLabel = false
		switch rapid.SampledFrom(kinds).Draw(t, "ik") {
		case "rset":
			fmt.Fprintf(b, "        rset %s, %s\n", reg(t, nreg, "ra"), genLitI(t, rsize))
		case "inc":
			fmt.Fprintf(b, "        inc %s\n", reg(t, nreg, "ra"))
		case "dec":
			fmt.Fprintf(b, "        dec %s\n", reg(t, nreg, "ra"))
		case "add":
			fmt.Fprintf(b, "        add %s, %s\n", reg(t, nreg, "ra"), reg(t, nreg, "rb"))
		case "mult":
			fmt.Fprintf(b, "        mult %s, %s\n", reg(t, nreg, "ra"), reg(t, nreg, "rb"))
		case "cpy":
			fmt.Fprintf(b, "        cpy %s, %s\n", reg(t, nreg, "ra"), reg(t, nreg, "rb"))
		case "clr":
			fmt.Fprintf(b, "        clr %s\n", reg(t, nreg, "ra"))
		case "movlit":
			fmt.Fprintf(b, "        mov %s, %s\n", reg(t, nreg, "ra"), genLitI(t, rsize))
		case "nop":
			fmt.Fprintf(b, "        nop\n")
		case "jz":
			// only labels already placed or the entry: a forward label that is never placed would be undefined
			fmt.Fprintf(b, "        jz %s, %s\n", reg(t, nreg, "ra"), labels[rapid.IntRange(0, nextLab-1).Draw(t, "lab")])
		case "rom":
			fmt.Fprintf(b, "        mov %s, rom:[%s]\n", reg(t, nreg, "ra"), reg(t, nreg, "rb"))
		case "ramr":
			fmt.Fprintf(b, "        mov %s, ram:[%s]\n", reg(t, nreg, "ra"), reg(t, nreg, "rb"))
		case "ramw":
			fmt.Fprintf(b, "        mov ram:[%s], %s\n", reg(t, nreg, "ra"), reg(t, nreg, "rb"))
		case "macro":
			fmt.Fprintf(b, "        %s\n", rapid.SampledFrom(macros).Draw(t, "mac"))
		case "dyn":
			fmt.Fprintf(b, "        %s %s, %s\n", rapid.SampledFrom(dynOps(rsize)).Draw(t, "dynop"), reg(t, nreg, "ra"), reg(t, nreg, "rb"))
		case "rsets":
			// the short-immediate form written explicitly (the chooser derives the same family for mov rX, <literal>)
			n := rapid.IntRange(3, 7).Draw(t, "rsetsbits")
			fmt.Fprintf(b, "        rsets%d %s, %d\n", n, reg(t, nreg, "ra"), rapid.IntRange(0, (1<<uint(n))-1).Draw(t, "rsetsval"))
		case "call":
			fmt.Fprintf(b, "        call4s %s\n", s.callFrag)
		}
	}
	for k := 0; k < s.nout; k++ {
		fmt.Fprintf(b, "        mov o%d, %s\n", k, reg(t, nreg, "rout"))
	}
	fmt.Fprintf(b, "        j %s\n", labels[rapid.IntRange(0, nextLab-1).Draw(t, "jlab")])
}

func genMacros(t *rapid.T, b *strings.Builder, rsize int) []string {
	n := rapid.IntRange(0, 3).Draw(t, "nmacros")
	names := rapid.Permutation(macroNames).Draw(t, "macronames")[:n]
	for _, m := range names {
		fmt.Fprintf(b, "%%macro %s 0\n", m)
		for i, k := 0, rapid.IntRange(1, 3).Draw(t, "mlen"); i < k; i++ {
			switch rapid.IntRange(0, 3).Draw(t, "mk") {
			case 0:
				fmt.Fprintf(b, "        inc r0\n")
			case 1:
				fmt.Fprintf(b, "        rset r1, %s\n", genLitI(t, rsize))
			case 2:
				fmt.Fprintf(b, "        add r0, r1\n")
			default:
				fmt.Fprintf(b, "        nop\n")
			}
		}
		fmt.Fprintf(b, "%%endmacro\n")
	}
	return names
}

// genSectionsPart: code/data sections, CPs running them and the IO network between the CPs.
func genSectionsPart(t *rapid.T, b *strings.Builder, rsize int, macros []string, cpPool []string, globalIomode bool, cluster bool) {
	nsec := rapid.IntRange(1, 5).Draw(t, "nsec")
	names := rapid.Permutation(secNames).Draw(t, "secnames")
	iomodes := []string{"", " iomode:sync", " iomode:async"}
	if !globalIomode {
		// `mov oN, rX` / `mov rX, iN` resolve to the sync or async opcodes: without a global or a section
		// iomode the matcher reports "no operator match"
		iomodes = iomodes[1:]
	}
	var secs []secSpec
	// one source in four: a templated fragment that the sections reach through the dynamical call instruction,
	// every section giving its own value to the template parameter
	callFrag := ""
	if rapid.IntRange(0, 3).Draw(t, "callfrag") == 0 {
		callFrag = "addk"
		fmt.Fprintf(b, "%%fragment addk template:true\n        rset r1,{{.Params.k}}\n        add r0,r1\n%%endfragment\n")
	}
	for i := 0; i < nsec; i++ {
		s := secSpec{name: names[i], nin: rapid.IntRange(0, 2).Draw(t, "nin"), nout: rapid.IntRange(1, 2).Draw(t, "nout"), useRam: rapid.IntRange(0, 3).Draw(t, "useram") == 0}
		kmeta := ""
		if callFrag != "" && rapid.IntRange(0, 3).Draw(t, "usescall") != 0 {
			s.callFrag = callFrag
			kmeta = fmt.Sprintf(" k:%d", rapid.IntRange(1, 9).Draw(t, "kparam"))
		}
		secs = append(secs, s)
		fmt.Fprintf(b, "%%section %s .romtext%s%s\n", s.name, rapid.SampledFrom(iomodes).Draw(t, "iomode"), kmeta)
		genTextBody(t, b, s, rsize, macros)
		fmt.Fprintf(b, "%%endsection\n")
	}
	ndata := rapid.IntRange(0, 3).Draw(t, "ndata")
	dnames := rapid.Permutation(dataNames).Draw(t, "datanames")
	var romd, ramd []string
	for i := 0; i < ndata; i++ {
		isRam := rapid.Bool().Draw(t, "isram")
		typ := ".romdata"
		if isRam {
			typ = ".ramdata"
			ramd = append(ramd, dnames[i])
		} else {
			romd = append(romd, dnames[i])
		}
		fmt.Fprintf(b, "%%section %s %s\n", dnames[i], typ)
		for k, n := 0, rapid.IntRange(1, 3).Draw(t, "nsym"); k < n; k++ {
			dir := rapid.SampledFrom([]string{"db", "dd"}).Draw(t, "ddir")
			var vals []string
			for j, m := 0, rapid.IntRange(1, 3).Draw(t, "nval"); j < m; j++ {
				vals = append(vals, genLit(t, rsize))
			}
			fmt.Fprintf(b, "        %s%d %s %s\n", dnames[i][:1], k, dir, strings.Join(vals, ", "))
		}
		fmt.Fprintf(b, "%%endsection\n")
	}
	ncp := rapid.IntRange(1, 5).Draw(t, "ncp")
	if ncp > len(cpPool) {
		ncp = len(cpPool)
	}
	type cpSpec struct {
		name string
		sec  secSpec
	}
	var cps []cpSpec
	devIds := map[string]int{}
	if cluster && ncp < 2 {
		ncp = 2
	}
	for i := 0; i < ncp; i++ {
		s := secs[rapid.IntRange(0, len(secs)-1).Draw(t, "cpsec")]
		c := cpSpec{name: cpPool[i], sec: s}
		cps = append(cps, c)
		line := fmt.Sprintf("%%meta cpdef %s romcode:%s", c.name, s.name)
		if len(romd) > 0 && rapid.Bool().Draw(t, "hasromd") {
			line += ", romdata:" + rapid.SampledFrom(romd).Draw(t, "romd")
		}
		if len(ramd) > 0 && (s.useRam || rapid.Bool().Draw(t, "hasramd")) {
			line += ", ramdata:" + rapid.SampledFrom(ramd).Draw(t, "ramd")
		} else if s.callFrag != "" {
			line += ", ramsize:4" // the call stack
		}
		if rapid.IntRange(0, 4).Draw(t, "execmode") == 0 {
			line += ", execmode:ha"
		}
		if cluster {
			// clustered source: every CP names the device (edge machine) it lives on (clusterchecker.go)
			// (explicit contiguous devid in order of first use: without it a second CP on a device whose automatic id
			// is not 0 is refused, and ids with holes are refused too — clean rejections, not interesting here)
			dev := rapid.SampledFrom([]string{"deva", "devb", "devc"}).Draw(t, "device")
			if i == 1 && len(devIds) == 1 {
				for _, d := range []string{"deva", "devb", "devc"} { // the second CP opens a second device
					if _, used := devIds[d]; !used {
						dev = d
						break
					}
				}
			}
			if _, ok := devIds[dev]; !ok {
				devIds[dev] = len(devIds)
			}
			line += fmt.Sprintf(", device:%s, devid:%d", dev, devIds[dev])
		}
		fmt.Fprintf(b, "%s\n", line)
	}
	// IO network: every CP input has one source (a fresh machine input or a not yet consumed CP output),
	// every unconsumed CP output feeds a machine output. One io object per connection, two endpoints each.
	type port struct {
		cp  string
		idx int
	}
	var free []port
	for _, c := range cps {
		for k := 0; k < c.sec.nout; k++ {
			free = append(free, port{c.name, k})
		}
	}
	io, bmin, bmout := 0, 0, 0
	var atts []string
	for _, c := range cps {
		for k := 0; k < c.sec.nin; k++ {
			name := fmt.Sprintf("io%d", io)
			io++
			fmt.Fprintf(b, "%%meta iodef %s type:io\n", name)
			pick := -1
			if len(free) > 0 {
				pick = rapid.IntRange(-1, len(free)-1).Draw(t, "iosrc")
			}
			if pick < 0 {
				atts = append(atts, fmt.Sprintf("%%meta ioatt %s cp:bm, type:input, index:%d", name, bmin))
				bmin++
			} else {
				atts = append(atts, fmt.Sprintf("%%meta ioatt %s cp:%s, type:output, index:%d", name, free[pick].cp, free[pick].idx))
				free = append(free[:pick], free[pick+1:]...)
			}
			atts = append(atts, fmt.Sprintf("%%meta ioatt %s cp:%s, type:input, index:%d", name, c.name, k))
		}
	}
	for _, p := range free {
		name := fmt.Sprintf("io%d", io)
		io++
		fmt.Fprintf(b, "%%meta iodef %s type:io\n", name)
		atts = append(atts, fmt.Sprintf("%%meta ioatt %s cp:%s, type:output, index:%d", name, p.cp, p.idx))
		atts = append(atts, fmt.Sprintf("%%meta ioatt %s cp:bm, type:output, index:%d", name, bmout))
		bmout++
	}
	for _, a := range atts {
		fmt.Fprintf(b, "%s\n", a)
	}
	// shared objects (attached, not necessarily used by the code): their parameters end up in the machine
	// JSON and in the generated HDL; boundary parameters included (seed 0, depth 1, no timeout)
	if !cluster && rapid.IntRange(0, 2).Draw(t, "withso") == 0 {
		nextIdx := map[string]int{}
		for k, n := 0, rapid.IntRange(1, 2).Draw(t, "nso"); k < n; k++ {
			kind := rapid.SampledFrom([]string{"lfsr8", "lfsr8", "lfsr8", "sharedmem", "queue", "stack", "barrier", "channel"}).Draw(t, "sokind")
			cons := kind + ":"
			switch kind {
			case "lfsr8":
				cons += strconv.Itoa(rapid.SampledFrom([]int{0, 0, 256, 1, 77, 255}).Draw(t, "lfsrseed"))
			case "sharedmem", "queue", "stack":
				cons += strconv.Itoa(rapid.IntRange(1, 4).Draw(t, "sodepth"))
			case "barrier":
				cons += strconv.Itoa(rapid.SampledFrom([]int{0, 4, 100}).Draw(t, "sotimeout"))
			}
			name := fmt.Sprintf("so%d", k)
			fmt.Fprintf(b, "%%meta sodef %s constraint:%s\n", name, cons)
			want := rapid.IntRange(1, len(cps)).Draw(t, "soattached")
			for _, ci := range rapid.Permutation(seqN(len(cps))).Draw(t, "soorder")[:want] {
				c := cps[ci]
				fmt.Fprintf(b, "%%meta soatt %s cp:%s, index:%d\n", name, c.name, nextIdx[c.name])
				nextIdx[c.name]++
			}
		}
	}
}

func seqN(n int) []int {
	r := make([]int, n)
	for i := range r {
		r[i] = i
	}
	return r
}

type fragSpec struct {
	name     string
	in, out  []int
	template bool
}

// genFragmentsPart: a library of fragments, a DAG of instances, links and CPs collapsing them.
func genFragmentsPart(t *rapid.T, b *strings.Builder, rsize int, macros []string, cpPool []string) {
	nf := rapid.IntRange(1, 4).Draw(t, "nfrag")
	names := rapid.Permutation(fragNames).Draw(t, "fragnames")
	var frags []fragSpec
	for i := 0; i < nf; i++ {
		f := fragSpec{name: names[i], template: rapid.IntRange(0, 2).Draw(t, "ftemplate") == 0}
		nin := rapid.IntRange(1, 2).Draw(t, "fnin")
		def := map[int]bool{}
		for k := 0; k < nin; k++ {
			f.in = append(f.in, k)
			def[k] = true
		}
		var body []string
		defd := []int{}
		for k := range f.in {
			defd = append(defd, k)
		}
		pickDef := func(l string) int { return defd[rapid.IntRange(0, len(defd)-1).Draw(t, l)] }
		for k, n := 0, rapid.IntRange(1, 5).Draw(t, "flen"); k < n; k++ {
			a := rapid.IntRange(0, 3).Draw(t, "fa")
			kinds := []string{"inc", "add", "mult", "cpy", "rset", "clr", "dyn"}
			if f.template {
				kinds = append(kinds, "tparam", "tparam")
			}
			if len(macros) > 0 {
				kinds = append(kinds, "macro")
			}
			switch rapid.SampledFrom(kinds).Draw(t, "fk") {
			case "inc":
				body = append(body, fmt.Sprintf("inc r%d", pickDef("fd")))
				continue
			case "add":
				a = pickDef("fd")
				body = append(body, fmt.Sprintf("add r%d, r%d", a, pickDef("fe")))
				continue
			case "mult":
				a = pickDef("fd")
				body = append(body, fmt.Sprintf("mult r%d, r%d", a, pickDef("fe")))
				continue
			case "dyn":
				a = pickDef("fd")
				body = append(body, fmt.Sprintf("%s r%d, r%d", rapid.SampledFrom(dynOps(rsize)).Draw(t, "fdyn"), a, pickDef("fe")))
				continue
			case "cpy":
				body = append(body, fmt.Sprintf("cpy r%d, r%d", a, pickDef("fe")))
			case "rset":
				body = append(body, fmt.Sprintf("rset r%d, %s", a, genLitI(t, rsize)))
			case "clr":
				body = append(body, fmt.Sprintf("clr r%d", a))
			case "tparam":
				body = append(body, fmt.Sprintf("rset r%d, {{.Params.k}}", a))
			case "macro":
				// macro bodies touch r0/r1 only; r0 is always a resin register here
				body = append(body, rapid.SampledFrom(macros).Draw(t, "fmac"))
				a = 1
			}
			if !def[a] {
				def[a] = true
				defd = append(defd, a)
			}
		}
		nout := rapid.IntRange(1, 2).Draw(t, "fnout")
		perm := rapid.Permutation(defd).Draw(t, "foutperm")
		if nout > len(perm) {
			nout = len(perm)
		}
		f.out = perm[:nout]
		rs := func(xs []int) string {
			var p []string
			for _, x := range xs {
				p = append(p, fmt.Sprintf("r%d", x))
			}
			return strings.Join(p, ":")
		}
		tmpl := ""
		if f.template {
			tmpl = " template:true"
		}
		fmt.Fprintf(b, "%%fragment %s%s resin:%s resout:%s\n", f.name, tmpl, rs(f.in), rs(f.out))
		for _, l := range body {
			fmt.Fprintf(b, "        %s\n", l)
		}
		fmt.Fprintf(b, "%%endfragment\n")
		frags = append(frags, f)
	}
	ni := rapid.IntRange(1, 6).Draw(t, "ninst")
	type src struct{ inst, port int }
	var insts []fragSpec
	var outs []src // produced values, consumed or not
	consumed := map[src]bool{}
	var links []string
	ln, extin, extout := 0, 0, 0
	addLink := func(a, c string) {
		name := fmt.Sprintf("l%d", ln)
		ln++
		fmt.Fprintf(b, "%%meta filinkdef %s type:fl\n", name)
		links = append(links, fmt.Sprintf("%%meta filinkatt %s %s", name, a), fmt.Sprintf("%%meta filinkatt %s %s", name, c))
	}
	for i := 0; i < ni; i++ {
		f := frags[rapid.IntRange(0, len(frags)-1).Draw(t, "ifrag")]
		insts = append(insts, f)
		line := fmt.Sprintf("%%meta fidef n%d fragment:%s", i, f.name)
		if f.template {
			line += ", k:" + genLitI(t, rsize)
		}
		fmt.Fprintf(b, "%s\n", line)
		for k := range f.in {
			pick := -1
			if len(outs) > 0 {
				pick = rapid.IntRange(-1, len(outs)-1).Draw(t, "isrc")
			}
			sink := fmt.Sprintf("fi:n%d, type:input, index:%d", i, k)
			if pick < 0 {
				addLink(fmt.Sprintf("fi:ext, type:input, index:%d", extin), sink)
				extin++
			} else {
				s := outs[pick]
				consumed[s] = true
				addLink(fmt.Sprintf("fi:n%d, type:output, index:%d", s.inst, s.port), sink)
			}
		}
		for k := range f.out {
			outs = append(outs, src{i, k})
		}
	}
	for _, s := range outs {
		if !consumed[s] {
			addLink(fmt.Sprintf("fi:n%d, type:output, index:%d", s.inst, s.port), fmt.Sprintf("fi:ext, type:output, index:%d", extout))
			extout++
		}
	}
	for _, l := range links {
		fmt.Fprintf(b, "%s\n", l)
	}
	// partition of the instances into CPs; each list in instance (= topological) order
	ncp := rapid.IntRange(1, ni).Draw(t, "nfcp")
	if ncp > len(cpPool) {
		ncp = len(cpPool)
	}
	groups := make([][]int, ncp)
	for i := 0; i < ni; i++ {
		g := i
		if i >= ncp {
			g = rapid.IntRange(0, ncp-1).Draw(t, "grp")
		}
		groups[g] = append(groups[g], i)
	}
	for g, xs := range groups {
		var p []string
		for _, x := range xs {
			p = append(p, fmt.Sprintf("n%d", x))
		}
		fmt.Fprintf(b, "%%meta cpdef %s fragcollapse:%s\n", cpPool[g], strings.Join(p, ":"))
	}
}

// genBasmSource draws one source text and the assembler flags.
func genBasmSource(t *rapid.T) (string, []string) {
	var b strings.Builder
	rsize := rapid.SampledFrom([]int{8, 16, 32, 8, 16, 32, 64}).Draw(t, "rsize")
	fmt.Fprintf(&b, "%%meta bmdef global registersize:%d\n", rsize)
	giomode := rapid.SampledFrom([]string{"", "sync", "async"}).Draw(t, "giomode")
	if giomode != "" {
		fmt.Fprintf(&b, "%%meta bmdef global iomode:%s\n", giomode)
	}
	macros := genMacros(t, &b, rsize)
	pool := rapid.Permutation(cpNames).Draw(t, "cpnames")
	cluster := false
	switch rapid.SampledFrom([]string{"sections", "sections", "fragments", "fragments", "mixed", "cluster"}).Draw(t, "family") {
	case "sections":
		genSectionsPart(t, &b, rsize, macros, pool, giomode != "", false)
	case "cluster":
		cluster = true
		genSectionsPart(t, &b, rsize, macros, pool, giomode != "", true)
	case "fragments":
		genFragmentsPart(t, &b, rsize, macros, pool)
	default:
		genSectionsPart(t, &b, rsize, macros, pool[:5], giomode != "", false)
		genFragmentsPart(t, &b, rsize, macros, pool[5:])
	}
	var flags []string
	if cluster {
		flags = append(flags, "-co", "cluster.json", "-oprefix", "edge")
	}
	if rapid.IntRange(0, 2).Draw(t, "chooser") != 0 {
		flags = append(flags, "-chooser-min-word-size")
		if rapid.Bool().Draw(t, "samename") {
			flags = append(flags, "-chooser-force-same-name")
		}
	}
	switch rapid.IntRange(0, 5).Draw(t, "passes") {
	case 0:
		flags = append(flags, "-deactivate-passes", "fragmentoptimizer")
	case 1:
		flags = append(flags, "-activate-passes", "templatefinalizer")
	}
	switch rapid.IntRange(0, 4).Draw(t, "opts") {
	case 0:
		flags = append(flags, "-activate-optimizations", "all")
	case 1:
		flags = append(flags, "-activate-optimizations", "invalidunused")
	}
	if rapid.IntRange(0, 7).Draw(t, "nodyn") == 0 {
		flags = append(flags, "-disable-dynamical-matching")
	}
	return b.String(), flags
}

// countDirectives counts the map-backed collections a source populates.
func countDirectives(src string) map[string]int {
	c := map[string]int{}
	for _, l := range strings.Split(src, "\n") {
		f := strings.Fields(l)
		if len(f) == 0 {
			continue
		}
		switch f[0] {
		case "%section", "%fragment", "%macro", "%chunk":
			c[f[0][1:]]++
		case "%meta":
			if len(f) > 1 {
				c[f[1]]++
			}
		}
	}
	return c
}

// richness: number of collections with at least two entries.
func richness(c map[string]int) int {
	n := 0
	for _, k := range []string{"section", "fragment", "macro", "cpdef", "iodef", "fidef", "filinkdef", "sodef"} {
		if c[k] >= 2 {
			n++
		}
	}
	return n
}
