package c07

// q.go: bmqsim → basm. Small circuits in the .bmq format of cmd/bmqsim/program.bmq, through the
// `-build-matrix-seq-hardcoded -hw-flavor F -save-basm` flavours (the ones that emit BASM), the
// `-emit-bmapi-maps`, `-build-app -app-flavor` and `-build-matrix-seq-hls -bundle-dir` by-products, then basm.

import (
	"fmt"
	"os"
	"path/filepath"
	"strings"

	"github.com/BondMachineHQ/BondMachine/pkg/bmbuilder"
	"github.com/BondMachineHQ/BondMachine/pkg/bmmatrix"
	"github.com/BondMachineHQ/BondMachine/pkg/bmqsim"
	"pgregory.net/rapid"
)

type QGate struct {
	Op    string
	Q     []int
	Angle string
}

type QCase struct {
	Qubits int
	Zero   bool
	Gates  []QGate
	Flavor string // seq_hardcoded_real | seq_hardcoded_complex | seq_hardcoded_addtree_complex
	App    string // app flavour ("" = none)
	Runs   int
	Probe  bool
}

var realGates1 = []string{"h", "x", "z"}
var cplxGates1 = []string{"y", "s", "t", "v"}
var gates2 = []string{"cx", "cz", "swap"}
var paramGates = []string{"rx", "ry", "rz", "r"}

func genQCase(runs func() int) func(t *rapid.T) QCase {
	return func(t *rapid.T) QCase {
		c := QCase{Runs: runs()}
		// the assembler needs 5..30 s for the emitted file of a 2..3 qubit circuit (4^n data sections, 2^n CPs with
		// templated code): three qubits only in the thorough tier
		sizes := []int{1, 2, 2}
		if os.Getenv("VERIF_TIER") == "thorough" {
			sizes = []int{1, 2, 2, 3}
		}
		c.Qubits = rapid.SampledFrom(sizes).Draw(t, "qubits")
		c.Zero = rapid.Bool().Draw(t, "zero")
		c.Flavor = rapid.SampledFrom([]string{"seq_hardcoded_real", "seq_hardcoded_complex", "seq_hardcoded_addtree_complex"}).Draw(t, "flavor")
		real := c.Flavor == "seq_hardcoded_real"
		if rapid.Bool().Draw(t, "app") {
			suffix := "complex"
			if real {
				suffix = "real"
			}
			c.App = rapid.SampledFrom([]string{"python_pynq_", "c_pynqapi_", "cpp_opencl_"}).Draw(t, "appk") + suffix
		}
		n := rapid.IntRange(1, 5).Draw(t, "ngates")
		for i := 0; i < n; i++ {
			var g QGate
			pool := append([]string{}, realGates1...)
			if !real {
				pool = append(append(pool, cplxGates1...), paramGates...)
			}
			if c.Qubits >= 2 {
				pool = append(pool, gates2...)
				pool = append(pool, gates2...)
			}
			g.Op = rapid.SampledFrom(pool).Draw(t, "op")
			a := rapid.IntRange(0, c.Qubits-1).Draw(t, "qa")
			g.Q = []int{a}
			switch g.Op {
			case "cx", "cz", "swap":
				b := rapid.IntRange(0, c.Qubits-2).Draw(t, "qb")
				if b >= a {
					b++
				}
				g.Q = []int{a, b}
			case "rx", "ry", "rz", "r":
				g.Angle = fmt.Sprintf("%.4f", float64(rapid.IntRange(-31416, 31416).Draw(t, "angle"))/10000)
			}
			c.Gates = append(c.Gates, g)
		}
		return c
	}
}

func (c QCase) program() string {
	var b strings.Builder
	var qs []string
	for i := 0; i < c.Qubits; i++ {
		qs = append(qs, fmt.Sprintf("q%d", i))
	}
	fmt.Fprintf(&b, "%%block code1 .sequential\n        qbits   %s\n", strings.Join(qs, ", "))
	if c.Zero {
		fmt.Fprintf(&b, "        zero    %s\n", strings.Join(qs, ", "))
	}
	for _, g := range c.Gates {
		var args []string
		for _, q := range g.Q {
			args = append(args, fmt.Sprintf("q%d", q))
		}
		if g.Angle != "" {
			args = append(args, g.Angle)
		}
		fmt.Fprintf(&b, "        %s      %s\n", g.Op, strings.Join(args, ", "))
	}
	fmt.Fprintf(&b, "%%endblock\n\n%%meta bmdef global main:code1\n")
	return b.String()
}

func (c QCase) labels() []string {
	return []string{"flavor=" + c.Flavor, fmt.Sprintf("qubits=%d", c.Qubits), fmt.Sprintf("app=%v", c.App != "")}
}

// rich: the emitted file has one data section per matrix element (>= 4 for one qubit) and one CP per
// row; >= 2 qubits or >= 2 matrices.
func (c QCase) rich() bool { return c.Qubits >= 2 || len(c.Gates) >= 2 }

func (c QCase) qSteps() []Step {
	args := []string{"-build-matrix-seq-hardcoded", "-hw-flavor", c.Flavor, "-save-basm", "q.basm", "-emit-bmapi-maps", "-bmapi-maps-file", "maps.json"}
	if c.App != "" {
		args = append(args, "-build-app", "-app-flavor", c.App, "-app-file", "app.out")
	}
	args = append(args, "program.bmq")
	steps := []Step{{Tool: "bmqsim", Args: args}}
	if c.Flavor != "seq_hardcoded_addtree_complex" {
		steps = append(steps, Step{Tool: "bmqsim", Args: []string{"-build-matrix-seq-hls", "-hw-flavor", c.Flavor, "-bundle-dir", "bundle", "program.bmq"}})
	}
	return steps
}

var qBasmFlags = []string{"-chooser-min-word-size"}

// qOnce replicates cmd/bmqsim/bmqsim.go main() for the flags of qSteps()[0].
func qOnce(c QCase) (arte map[string]string) {
	resetRegistries()
	restore := quiet()
	defer restore()
	arte = map[string]string{}
	defer func() {
		if r := recover(); r != nil {
			arte["error"] = fmt.Sprintf("panic: %v", r)
		}
	}()
	dir, err := os.MkdirTemp(scratchRoot(), "c07-q-")
	if err != nil {
		arte["error"] = "harness: " + err.Error()
		return
	}
	defer os.RemoveAll(dir)
	p := filepath.Join(dir, "program.bmq")
	if err := os.WriteFile(p, []byte(c.program()), 0o644); err != nil {
		arte["error"] = "harness: " + err.Error()
		return
	}
	bld := new(bmbuilder.BMBuilder)
	sim := new(bmqsim.BmQSimulator)
	bld.BMBuilderInit()
	sim.BmQSimulatorInit()
	if err := bld.ParseBuilderDefault(p); err != nil {
		arte["error"] = "parse: " + strings.ReplaceAll(err.Error(), dir, "")
		return
	}
	bld.UnsetActive("generatorsexec")
	if err := bld.RunBuilder(); err != nil {
		arte["error"] = "builder: " + err.Error()
		return
	}
	body, err := bld.ExportBasmBody()
	if err != nil {
		arte["error"] = "export: " + err.Error()
		return
	}
	matrices, err := sim.QasmToBmMatrices(body)
	if err != nil {
		arte["error"] = "matrices: " + err.Error()
		return
	}
	sim.Mtx = make([]*bmmatrix.BmMatrixSquareComplex, len(matrices))
	copy(sim.Mtx, matrices)
	if s, err := sim.EmitBMAPIMaps(c.Flavor); err != nil {
		arte["error"] = "maps: " + err.Error()
		return
	} else {
		arte["maps.json"] = s
	}
	if err := sim.VerifyConditions(c.Flavor); err != nil {
		arte["q.error"] = "flavor not compatible"
	} else if s, err := sim.ApplyTemplate(c.Flavor); err != nil {
		arte["q.error"] = err.Error()
	} else {
		arte["q.basm"] = s
	}
	if c.App != "" {
		if s, err := sim.ApplyTemplate(c.App); err != nil {
			arte["app.error"] = err.Error()
		} else {
			arte["app.out"] = s
		}
	}
	return
}
