package c07

// inproc.go: the in-process tier. The library entry points of cmd/basm, cmd/neuralbond, cmd/bmqsim and
// cmd/bondmachine -create-verilog are replayed on fresh instances several times inside this process; Go
// randomises the iteration order of every `range` over a map independently, so one process samples
// many orders. The process-wide registries that the code under test grows (procbuilder.Allopcodes,
// bmnumbers.AllTypes/AllMatchers) are put back to their start-of-process content before every
// execution: a fresh CLI process never sees what an earlier assembly registered.

import (
	"encoding/json"
	"fmt"
	"io"
	"log"
	"os"
	"path/filepath"
	"reflect"
	"regexp"
	"sort"
	"sync"
	"unsafe"

	"github.com/BondMachineHQ/BondMachine/pkg/basm"
	"github.com/BondMachineHQ/BondMachine/pkg/bmconfig"
	"github.com/BondMachineHQ/BondMachine/pkg/bminfo"
	"github.com/BondMachineHQ/BondMachine/pkg/bmnumbers"
	"github.com/BondMachineHQ/BondMachine/pkg/bmreqs"
	"github.com/BondMachineHQ/BondMachine/pkg/bondmachine"
	"github.com/BondMachineHQ/BondMachine/pkg/procbuilder"
	"github.com/BondMachineHQ/BondMachine/pkg/simbox"
	"google.golang.org/protobuf/proto"
)

var (
	regOnce     sync.Once
	staticOps   []procbuilder.Opcode
	staticTypes []bmnumbers.BMNumberType
	staticMatch map[string]bmnumbers.ImportFunc
	devNull     *os.File
)

func snapshotRegistries() {
	regOnce.Do(func() {
		staticOps = append([]procbuilder.Opcode(nil), procbuilder.Allopcodes...)
		staticTypes = append([]bmnumbers.BMNumberType(nil), bmnumbers.AllTypes...)
		staticMatch = map[string]bmnumbers.ImportFunc{}
		for k, v := range bmnumbers.AllMatchers {
			staticMatch[k] = v
		}
		devNull, _ = os.OpenFile(os.DevNull, os.O_WRONLY, 0)
	})
}

func resetRegistries() {
	snapshotRegistries()
	procbuilder.Allopcodes = append([]procbuilder.Opcode(nil), staticOps...)
	bmnumbers.AllTypes = append([]bmnumbers.BMNumberType(nil), staticTypes...)
	m := map[string]bmnumbers.ImportFunc{}
	for k, v := range staticMatch {
		m[k] = v
	}
	bmnumbers.AllMatchers = m
}

// quiet points stdout and the log package at /dev/null while the code under test runs (the
// assembler prints warnings with fmt.Println / log.Println; they are compared in the CLI tier).
func quiet() func() {
	snapshotRegistries()
	if devNull == nil || os.Getenv("C07_VERBOSE") != "" {
		return func() {}
	}
	oldOut, oldLog := os.Stdout, log.Writer()
	os.Stdout = devNull
	log.SetOutput(io.Discard)
	return func() {
		os.Stdout = oldOut
		log.SetOutput(oldLog)
	}
}

// closeReqs stops the bmreqs server goroutine of a BasmInstance (no exported way to reach it).
func closeReqs(bi *basm.BasmInstance) {
	f := reflect.ValueOf(bi).Elem().FieldByName("rg")
	if !f.IsValid() || f.Kind() != reflect.Ptr || f.IsNil() {
		return
	}
	if f.Type() != reflect.TypeOf((*bmreqs.ReqRoot)(nil)) {
		return
	}
	rg := *(**bmreqs.ReqRoot)(unsafe.Pointer(f.UnsafeAddr()))
	rg.Close()
}

// applyBasmFlags maps the command-line flags of cmd/basm (main.go:134-197) on a BasmInstance.
func applyBasmFlags(bi *basm.BasmInstance, flags []string) error {
	for i := 0; i < len(flags); i++ {
		switch flags[i] {
		case "-disable-dynamical-matching":
			bi.Activate(bmconfig.DisableDynamicalMatching)
		case "-chooser-min-word-size":
			bi.Activate(bmconfig.ChooserMinWordSize)
		case "-chooser-force-same-name":
			bi.Activate(bmconfig.ChooserForceSameName)
		case "-co", "-oprefix":
			i++ // output names: handled by assembleOnce
		case "-activate-passes":
			i++
			if err := bi.SetActive(flags[i]); err != nil {
				return err
			}
		case "-deactivate-passes":
			i++
			if err := bi.UnsetActive(flags[i]); err != nil {
				return err
			}
		case "-activate-optimizations":
			i++
			if err := bi.ActivateOptimization(flags[i]); err != nil {
				return err
			}
		default:
			return fmt.Errorf("flag %q not replicated in process", flags[i])
		}
	}
	return nil
}

// assembleOnce is the call sequence of cmd/basm/main.go for `basm [flags] -o … -bo … -dump-requirements …
// -bminfo-file … files…`. The returned artefacts are the bytes the CLI would write. An error (or a
// panic) of the assembler is an artefact too ("error"): it must be the same on every execution.
func assembleOnce(files []SrcFile, flags []string) (arte map[string]string) {
	resetRegistries()
	restore := quiet()
	defer restore()
	arte = map[string]string{}
	bi := new(basm.BasmInstance)
	bi.BMinfo = new(bminfo.BMinfo)
	bi.BasmInstanceInit(nil)
	defer closeReqs(bi)
	phase := "flags"
	defer func() {
		if r := recover(); r != nil {
			arte["error"] = fmt.Sprintf("%s: panic: %v", phase, r)
		}
	}()
	if err := applyBasmFlags(bi, flags); err != nil {
		arte["error"] = "flags: " + err.Error()
		return
	}
	phase = "parse"
	for _, f := range files {
		if filepath.Ext(f.Name) != ".basm" {
			continue
		}
		if err := bi.ParseAssemblyStringDefault(f.Text); err != nil {
			arte["error"] = "parse: " + err.Error()
			return
		}
	}
	phase = "passes"
	if err := bi.RunAssembler(); err != nil {
		arte["error"] = "passes: " + err.Error()
		return
	}
	if bi.IsClustered() {
		// cmd/basm/main.go:318-354 (`-co cluster.json -oprefix edge`)
		phase = "cluster"
		if err := bi.Assembler2Cluster(); err != nil {
			arte["error"] = "cluster: " + err.Error()
			return
		}
		if b, err := json.Marshal(bi.GetCluster()); err == nil {
			arte["cluster.json"] = string(b)
		}
		for _, id := range bi.GetClusteredName() {
			arte[fmt.Sprintf("edge%d.bmeta", id)] = bi.GetClusteredBondMachines()[id]
			if b, err := json.Marshal(bi.GetClusteredMaps()[id]); err == nil {
				arte[fmt.Sprintf("edge%d_maps.json", id)] = string(b)
			}
		}
		return
	}
	phase = "create"
	if err := bi.Assembler2BondMachine(); err != nil {
		arte["error"] = "create: " + err.Error()
		return
	}
	bm := bi.GetBondMachine()
	if bm == nil {
		arte["error"] = "create: nil machine"
		return
	}
	j, err := json.Marshal(bm.Jsoner())
	if err != nil {
		arte["error"] = "json: " + err.Error()
		return
	}
	arte["bm.json"] = string(j)
	if b, err := json.MarshalIndent(bi.BMinfo, "", "  "); err == nil {
		arte["bminfo.json"] = string(b)
	}
	if b, err := json.MarshalIndent(bi.DumpRequirements(), "", "  "); err == nil {
		arte["requirements.json"] = string(b)
	}
	phase = "bcof"
	if err := bi.Assembler2BCOF(); err != nil {
		arte["bcof.error"] = err.Error()
	} else if b, err := proto.Marshal(bi.GetBCOF()); err == nil {
		arte["out.bcof"] = string(b)
	}
	return
}

// ---------------------------------------------------------------------------
// HDL in process

// /repo's HDL generators write into the process CWD and skip files that already exist, so every
// generation runs in its own empty directory; the CWD is process-wide, hence the lock.
var cwdMu sync.Mutex

func inScratch(f func() error) (files map[string]string, err error) {
	cwdMu.Lock()
	defer cwdMu.Unlock()
	old, err := os.Getwd()
	if err != nil {
		return nil, err
	}
	dir, err := os.MkdirTemp(scratchRoot(), "c07-hdl-")
	if err != nil {
		return nil, err
	}
	defer os.RemoveAll(dir)
	if err := os.Chdir(dir); err != nil {
		return nil, err
	}
	defer os.Chdir(old)
	func() {
		defer func() {
			if r := recover(); r != nil {
				err = fmt.Errorf("panic: %v", r)
			}
		}()
		err = f()
	}()
	if err != nil {
		return nil, err
	}
	files = map[string]string{}
	werr := filepath.Walk(dir, func(p string, info os.FileInfo, e error) error {
		if e != nil || info.IsDir() {
			return e
		}
		b, e := os.ReadFile(p)
		if e != nil {
			return e
		}
		rel, _ := filepath.Rel(dir, p)
		files[rel] = string(b)
		return nil
	})
	return files, werr
}

// hdlOnce is `bondmachine -bondmachine-file bm.json -create-verilog [-verilog-flavor F] [-comment-verilog]`
// (cmd/bondmachine/bondmachine.go:283-300, 342-730) from the machine JSON: a fresh Dejsoner + Init, a zero
// Config, an empty IO map, no extra modules; the simulation flavours get a non-nil empty simbox.
func hdlOnce(bmJSON string, flavor string, commented bool) (map[string]string, error) {
	resetRegistries()
	restore := quiet()
	defer restore()
	var bmj bondmachine.Bondmachine_json
	if err := json.Unmarshal([]byte(bmJSON), &bmj); err != nil {
		return nil, err
	}
	var files map[string]string
	var derr error
	func() {
		defer func() {
			if r := recover(); r != nil {
				derr = fmt.Errorf("load panic: %v", r)
			}
		}()
		bm := (&bmj).Dejsoner()
		bm.Init()
		files, derr = inScratch(func() error {
			conf := new(bondmachine.Config)
			conf.CommentedVerilog = commented
			iomap := new(bondmachine.IOmap)
			return bm.Write_verilog(conf, flavor, iomap, nil, new(simbox.Simbox))
		})
	}()
	return files, derr
}

func sortedKeys(m map[string]string) []string {
	var ks []string
	for k := range m {
		ks = append(ks, k)
	}
	sort.Strings(ks)
	return ks
}

var ansiRe = regexp.MustCompile("\x1b\\[[0-9;]*m")
