package c07

import "pgregory.net/rapid"

func g2(g func(*rapid.T) BasmCase, seed int) BasmCase {
	return rapid.Custom(g).Example(seed)
}
