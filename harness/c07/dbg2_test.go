package c07

import "pgregory.net/rapid"

func g2(g func(*rapid.T) BasmCase, seed int) BasmCase {
	return rapid.Custom(g).Example(seed)
}

func rapidExampleNB(g func(*rapid.T) NBCase, seed int) NBCase { return rapid.Custom(g).Example(seed) }
