package c07

// findings.go: recorded nondeterminism mechanisms — how a difference is recognised (signature) and
// how the affected artefact is canonicalised so that the search continues behind the finding.
// Canonicalisation touches exactly the affected artefact/lines; everything else stays compared
// byte for byte. Cases with Probe set (replay files under known/) skip every canonicalisation.

import (
	"encoding/json"
	"sort"
	"strings"
)

// ---- F-REQ: the requirement dump (`basm -dump-requirements`) is a walk over Go maps.
// pkg/bmreqs/engine.go:172 ranges over n.bmReqMap, objectset.go:79-86 (getReqs) and :106-115 (listSub)
// range over o.set: both the order of the entries and the order inside every "Req" comma list change
// from run to run. Canonical form: entries sorted by (Node, Name), ObjectSet lists sorted.
type exportedReq struct {
	Node string
	Type uint8
	Name string
	Req  string
}

func canonRequirements(s string) string {
	var rs []exportedReq
	if err := json.Unmarshal([]byte(s), &rs); err != nil {
		return s
	}
	for i := range rs {
		if rs[i].Node == "" {
			// engine.go:176-178: Export strips the "/" of the root node inside its loop over the map, so the root
			// entries visited after the first one that has sub-nodes are labelled "" instead of "/": same walk, same mechanism
			rs[i].Node = "/"
		}
		if rs[i].Type == 0 {
			p := strings.Split(rs[i].Req, ",")
			sort.Strings(p)
			rs[i].Req = strings.Join(p, ",")
		}
	}
	sort.SliceStable(rs, func(a, b int) bool {
		if rs[a].Node != rs[b].Node {
			return rs[a].Node < rs[b].Node
		}
		return rs[a].Name < rs[b].Name
	})
	b, _ := json.MarshalIndent(rs, "", "  ")
	return string(b)
}

// canonicalise applies the recorded canonicalisations to an artefact set (in place) and reports which
// were applied (labels "masked:<finding>").
func canonicalise(arte map[string]string) (labels []string) {
	seen := map[string]bool{}
	for k, v := range arte {
		switch {
		case strings.HasSuffix(k, "requirements.json"):
			arte[k] = canonRequirements(v)
			seen["masked:F-REQ"] = true
		case strings.HasSuffix(k, "out.basm"): // neuralbond's emitted file (nb.go)
			if t, n := canonD3(v); n >= 2 {
				arte[k] = t
				seen["masked:D3"] = true
			}
		}
	}
	for l := range seen {
		labels = append(labels, l)
	}
	sort.Strings(labels)
	return
}

func knownMechanism(tool, desc string) string {
	switch {
	case strings.Contains(desc, "requirements.json"):
		return "F-REQ:requirements-dump-map-order"
	case tool == "neuralbond" && strings.Contains(desc, "out.basm") && strings.Contains(desc, "fragcollapse:"):
		return "D3:neuralbond-fragment-map-order"
	}
	return ""
}
