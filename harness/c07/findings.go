package c07

// findings.go: recorded nondeterminism mechanisms — how a difference is recognised (signature) and
// how the affected artefact is canonicalised so that the search continues behind the finding.
// Canonicalisation touches exactly the affected artefact/lines; everything else stays compared
// byte for byte. Cases with Probe set (replay files under known/) skip every canonicalisation.

import (
	"encoding/json"
	"os"
	"sort"
	"strings"
)

// ---- F-REQ: the requirement dump (`basm -dump-requirements`) is a walk over Go maps.
// pkg/bmreqs/engine.go:172 ranges over n.bmReqMap, objectset.go:79-86 (getReqs) and :106-115 (listSub)
// range over o.set: both the order of the entries and the order inside every "Req" comma list change
// from run to run. Canonical form: entries sorted by (Node, Name), ObjectSet lists sorted.
type exportedReq struct {
	Node string
	Type uint8
	Name string
	Req  string
}

func canonRequirements(s string) string {
	var rs []exportedReq
	if err := json.Unmarshal([]byte(s), &rs); err != nil {
		return s
	}
	for i := range rs {
		if rs[i].Node == "" {
			// engine.go:176-178: Export strips the "/" of the root node inside its loop over the map, so the root
			// entries visited after the first one that has sub-nodes are labelled "" instead of "/": same walk, same mechanism
			rs[i].Node = "/"
		}
		if rs[i].Type == 0 {
			p := strings.Split(rs[i].Req, ",")
			sort.Strings(p)
			rs[i].Req = strings.Join(p, ",")
		}
	}
	sort.SliceStable(rs, func(a, b int) bool {
		if rs[a].Node != rs[b].Node {
			return rs[a].Node < rs[b].Node
		}
		return rs[a].Name < rs[b].Name
	})
	b, _ := json.MarshalIndent(rs, "", "  ")
	return string(b)
}

// canonicalise applies the recorded canonicalisations to an artefact set (in place) and reports which
// were applied (labels "masked:<finding>").
func canonicalise(tool string, arte map[string]string) (labels []string) {
	// All four recorded mechanisms (D3, F-REQ, F-CLUSTER, F-GO-REQ) have been repaired in /repo (see
	// known_findings.json): nothing is canonicalised any more, every artefact is compared byte for byte.
	// C07_MASK=1 re-enables the canonicalisations (development aid for looking behind a regression).
	if os.Getenv("C07_MASK") == "" {
		// development aid: run the generated search with every canonicalisation off (used to validate the
		// proposed repairs in a scratch worktree: with them applied the search must stay green unmasked)
		return nil
	}
	seen := map[string]bool{}
	for k, v := range arte {
		switch {
		case tool == "bondgo" && strings.HasSuffix(k, ":stdout") && strings.Contains(v, "--- Processors ---"):
			arte[k] = canonShowRequirements(v)
			seen["masked:F-GO-REQ"] = true
		case strings.HasSuffix(k, ".bmeta"):
			arte[k] = canonBmeta(v)
			seen["masked:F-CLUSTER"] = true
		case strings.HasSuffix(k, "cluster.json"):
			arte[k] = canonClusterJSON(v)
			seen["masked:F-CLUSTER"] = true
		case strings.HasSuffix(k, "requirements.json"):
			arte[k] = canonRequirements(v)
			seen["masked:F-REQ"] = true
		case strings.HasSuffix(k, "out.basm"): // neuralbond's emitted file (nb.go)
			if t, n := canonD3(v); n >= 2 {
				arte[k] = t
				seen["masked:D3"] = true
			}
		}
	}
	for l := range seen {
		labels = append(labels, l)
	}
	sort.Strings(labels)
	return
}

// ---- F-GO-CHAN (found by this check, repaired in /repo by c2bb434): bondgo -mpm attached the channels to the
// processors by ranging over the map BondgoRequirements.Chanr (pkg/bondgo/converter.go:199), so the order of every
// processor's Shared_links list — which numbers its ch0, ch1, … — changed from run to run. Nothing is masked for it any
// more; /verif/replays/C07/f-go-chan-bondgo-mpm-shared-links.json is the regression case.

// ---- F-GO-REQ: `bondgo -show-requirements` prints Dump_Requirements, a walk over the maps Procr/IOr/Chanr
// (pkg/bondgo/requirements.go:152,157,162). Canonical form: the lines of that stdout as a sorted multiset.
func canonShowRequirements(s string) string {
	lines := strings.Split(s, "\n")
	sort.Strings(lines)
	return strings.Join(lines, "\n")
}

// ---- F-CLUSTER: the clustered outputs of basm (`-co cluster.json -oprefix edge`): pkg/basm/cluster.go writes every
// `%meta` line of the per-device .bmeta sources by ranging over the element's metadata map (LoopMeta, lines 105,
// 122, 169-…), the global metadata lines likewise, and appends the peers of cluster.json while ranging over the map
// clusteredNames (line 71). Canonical forms: .bmeta = key:value items of every %meta line sorted and the leading block of
// `%meta bmdef global` lines sorted (line order otherwise kept); cluster.json = peers sorted by PeerId.
func canonBmeta(s string) string {
	lines := strings.Split(s, "\n")
	for i, l := range lines {
		f := strings.SplitN(l, " ", 4)
		if len(f) == 4 && f[0] == "%meta" {
			items := strings.Split(f[3], ", ")
			for j := range items {
				items[j] = strings.TrimSuffix(strings.TrimSpace(items[j]), ",")
			}
			sort.Strings(items)
			lines[i] = strings.Join(f[:3], " ") + " " + strings.Join(items, ", ")
		}
	}
	// the leading block of `%meta bmdef global k:v` lines (one per key of the global metadata map)
	n := 0
	for n < len(lines) && strings.HasPrefix(lines[n], "%meta bmdef global ") {
		n++
	}
	sort.Strings(lines[:n])
	return strings.Join(lines, "\n")
}

func canonClusterJSON(s string) string {
	var c struct {
		ClusterId uint32
		Peers     []struct {
			PeerId   uint32
			PeerName string
			Channels []uint32
			Inputs   []uint32
			Outputs  []uint32
		}
	}
	if err := json.Unmarshal([]byte(s), &c); err != nil {
		return s
	}
	sort.SliceStable(c.Peers, func(a, b int) bool { return c.Peers[a].PeerId < c.Peers[b].PeerId })
	b, _ := json.Marshal(c)
	return string(b)
}

func knownMechanism(tool, desc string) string {
	switch {
	case strings.Contains(desc, ".bmeta") || strings.Contains(desc, "cluster.json"):
		return "F-CLUSTER:basm-cluster-output-map-order"
	case tool == "bondgo" && strings.Contains(desc, "bm.json") && strings.Contains(desc, "Shared_links"):
		return "F-GO-CHAN:bondgo-mpm-shared-links-map-order"
	case tool == "bondgo" && strings.Contains(desc, ":stdout"):
		return "F-GO-REQ:bondgo-show-requirements-map-order"
	case strings.Contains(desc, "requirements.json"):
		return "F-REQ:requirements-dump-map-order"
	case tool == "neuralbond" && strings.Contains(desc, "out.basm") && strings.Contains(desc, "fragcollapse:"):
		return "D3:neuralbond-fragment-map-order"
	}
	return ""
}
