package c07

// bondgo.go: Go-subset programs for cmd/bondgo. The grammar follows what pkg/bondgo/visiter.go and expr.go
// accept (read, and probed with the CLI): `var` declarations of the register-sized unsigned type
// (`reg_` prefix = register variable, otherwise memory variable), `=`, binary `+` `*`, `==` in conditions,
// `++`/`--`, `if/else`, `for {}`; `bondgo.Make(bondgo.Output, id)` + `bondgo.IOWrite`; in -mpm mode
// `var c chan uintN` (declaration allocates the channel), `go worker(c, k)` outside loops, `c <- x`, `x = <-c`;
// every function that owns an output uses its own global output id (the allocator refuses a second
// writer of one id).

import (
	"fmt"
	"strings"

	"pgregory.net/rapid"
)

type GoCase struct {
	Src       string
	Rsize     int
	Mpm       bool
	ShowReq   bool
	Runs      int
	Probe     bool
	Workers   int  // goroutines started by main (0 without -mpm)
	Vars      int  // declared variables in main
	ValueArgs bool `json:",omitempty"` // the workers also take a value argument (refused by bondgo: see genGoCase)
}

func genStmts(t *rapid.T, b *strings.Builder, vars []string, indent string, depth int, n int) {
	v := func(l string) string { return rapid.SampledFrom(vars).Draw(t, l) }
	for i := 0; i < n; i++ {
		kinds := []string{"lit", "add", "mul", "inc", "dec", "cpy"}
		if depth < 2 {
			kinds = append(kinds, "if", "if")
		}
		switch rapid.SampledFrom(kinds).Draw(t, "stmt") {
		case "lit":
			fmt.Fprintf(b, "%s%s = %d\n", indent, v("a"), rapid.IntRange(0, 100).Draw(t, "lit"))
		case "add":
			fmt.Fprintf(b, "%s%s = %s + %s\n", indent, v("a"), v("b"), v("c"))
		case "mul":
			fmt.Fprintf(b, "%s%s = %s * %s\n", indent, v("a"), v("b"), v("c"))
		case "inc":
			fmt.Fprintf(b, "%s%s++\n", indent, v("a"))
		case "dec":
			fmt.Fprintf(b, "%s%s--\n", indent, v("a"))
		case "cpy":
			fmt.Fprintf(b, "%s%s = %s\n", indent, v("a"), v("b"))
		case "if":
			fmt.Fprintf(b, "%sif %s == %s {\n", indent, v("a"), v("b"))
			genStmts(t, b, vars, indent+"\t", depth+1, rapid.IntRange(1, 2).Draw(t, "nthen"))
			if rapid.Bool().Draw(t, "else") {
				fmt.Fprintf(b, "%s} else {\n", indent)
				genStmts(t, b, vars, indent+"\t", depth+1, rapid.IntRange(1, 2).Draw(t, "nelse"))
			}
			fmt.Fprintf(b, "%s}\n", indent)
		}
	}
}

func genVars(t *rapid.T, b *strings.Builder, typ string, prefix string) []string {
	nreg := rapid.IntRange(1, 3).Draw(t, "nreg")
	nmem := rapid.IntRange(0, 2).Draw(t, "nmem")
	var vars []string
	for i := 0; i < nreg; i++ {
		n := fmt.Sprintf("reg_%s%d", prefix, i)
		vars = append(vars, n)
		fmt.Fprintf(b, "\tvar %s %s\n", n, typ)
	}
	for i := 0; i < nmem; i++ {
		n := fmt.Sprintf("%sm%d", prefix, i)
		vars = append(vars, n)
		fmt.Fprintf(b, "\tvar %s %s\n", n, typ)
	}
	return vars
}

func genGoCase(runs func() int) func(t *rapid.T) GoCase {
	return func(t *rapid.T) GoCase {
		c := GoCase{Runs: runs()}
		c.Rsize = rapid.SampledFrom([]int{8, 8, 16, 32}).Draw(t, "rsize")
		c.Mpm = rapid.IntRange(0, 2).Draw(t, "mpm") != 0
		c.ShowReq = rapid.Bool().Draw(t, "showreq")
		typ := fmt.Sprintf("uint%d", c.Rsize)
		var b strings.Builder
		fmt.Fprintf(&b, "package main\n\nimport (\n\t\"bondgo\"\n)\n\n")
		if c.Mpm {
			c.Workers = rapid.IntRange(1, 3).Draw(t, "workers")
		}
		// a value argument of `go f(c, k)` makes bondgo emit a `chw` without its register (open finding
		// go-value-args of C12): since the repair 2d68142 such a program is refused as a whole, so it is the
		// rarer form here and the workers normally get their constant as a literal
		c.ValueArgs = c.Mpm && rapid.IntRange(0, 4).Draw(t, "valueargs") == 0
		for w := 0; w < c.Workers; w++ {
			k := "k"
			if c.ValueArgs {
				fmt.Fprintf(&b, "func worker%d(c chan %s, k %s) {\n", w, typ, typ)
			} else {
				fmt.Fprintf(&b, "func worker%d(c chan %s) {\n", w, typ)
				k = fmt.Sprint(rapid.IntRange(1, 9).Draw(t, "k"))
			}
			vars := genVars(t, &b, typ, fmt.Sprintf("w%d", w))
			fmt.Fprintf(&b, "\tvar out bondgo.Output\n\tout = bondgo.Make(bondgo.Output, %d)\n", 10+w)
			for _, v := range vars {
				fmt.Fprintf(&b, "\t%s = %s\n", v, k)
			}
			fmt.Fprintf(&b, "\tfor {\n\t\t%s = <-c\n", vars[0])
			genStmts(t, &b, vars, "\t\t", 1, rapid.IntRange(1, 3).Draw(t, "wlen"))
			fmt.Fprintf(&b, "\t\tbondgo.IOWrite(out, %s)\n\t}\n}\n\n", rapid.SampledFrom(vars).Draw(t, "wout"))
		}
		fmt.Fprintf(&b, "func main() {\n")
		vars := genVars(t, &b, typ, "")
		c.Vars = len(vars)
		for w := 0; w < c.Workers; w++ {
			fmt.Fprintf(&b, "\tvar c%d chan %s\n", w, typ)
		}
		fmt.Fprintf(&b, "\tvar out bondgo.Output\n\tout = bondgo.Make(bondgo.Output, 3)\n")
		for _, v := range vars {
			fmt.Fprintf(&b, "\t%s = %d\n", v, rapid.IntRange(0, 50).Draw(t, "init"))
		}
		for w := 0; w < c.Workers; w++ {
			if c.ValueArgs {
				fmt.Fprintf(&b, "\tgo worker%d(c%d, %d)\n", w, w, rapid.IntRange(1, 9).Draw(t, "k"))
			} else {
				fmt.Fprintf(&b, "\tgo worker%d(c%d)\n", w, w)
			}
		}
		genStmts(t, &b, vars, "\t", 0, rapid.IntRange(0, 3).Draw(t, "prolog"))
		fmt.Fprintf(&b, "\tfor {\n")
		genStmts(t, &b, vars, "\t\t", 1, rapid.IntRange(1, 4).Draw(t, "body"))
		for w := 0; w < c.Workers; w++ {
			fmt.Fprintf(&b, "\t\tc%d <- %s\n", w, rapid.SampledFrom(vars).Draw(t, "send"))
		}
		fmt.Fprintf(&b, "\t\tbondgo.IOWrite(out, %s)\n\t}\n}\n", rapid.SampledFrom(vars).Draw(t, "mout"))
		c.Src = b.String()
		return c
	}
}

func (c GoCase) steps() []Step {
	args := []string{"-input-file", "prog.go", "-register-size", fmt.Sprint(c.Rsize), "-save-assembly", "a.asm"}
	if c.Mpm {
		args = append(args, "-mpm", "-save-bondmachine", "bm.json")
	} else {
		args = append(args, "-save-machine", "m.json")
	}
	if c.ShowReq {
		args = append(args, "-show-requirements")
	}
	return []Step{{Tool: "bondgo", Args: args}}
}
