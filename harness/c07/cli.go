// Package c07 — every build step is a function of its inputs.
//
// cli.go: the fresh-process tier. A "pipeline" is a list of input files plus a list of tool
// invocations; it is executed N times, each time in its own empty scratch directory as fresh
// child processes (GOMAXPROCS cycling over 1, 2, 16), and everything the runs leave behind (every
// file of the scratch directory, stdout, stderr and the exit status of every step) must be
// byte-equal between the runs.
//
// Masks (stated rules, applied identically to every run before comparing):
//
//	M1  log timestamps: the tools report alerts through Go's log package with the default flags, so
//	    such lines start with "YYYY/MM/DD hh:mm:ss " (the clock, by design of package log). The prefix
//	    is removed from stderr/stdout lines; the rest of the line is compared.
//	M2  crash dumps: when a step dies with a Go panic the runtime prints goroutine stacks with
//	    addresses; the stream is cut at the first "\ngoroutine " line (the "panic: …" line stays).
//
// Nothing else is masked: none of the five generators reads the clock or a random source on the paths
// exercised here (grep of time.Now / rand. over pkg/{basm,bondmachine,neuralbond,bmqsim,bmbuilder,bondgo,
// bmreqs,bmline,bmnumbers,bmmatrix}: the only hits are procbuilder's random-program helpers, which no
// front-end calls, and cmd/bondmachine's rand.Seed(time…) whose stream -create-verilog never draws from).
package c07

import (
	"bytes"
	"context"
	"fmt"
	"os"
	"os/exec"
	"path/filepath"
	"regexp"
	"sort"
	"strings"
	"sync"
	"time"
)

// SrcFile is one input file of a pipeline (written into the scratch directory of every run).
type SrcFile struct {
	Name string
	Text string
}

// Step is one tool invocation. Arguments are relative to the scratch directory (the CWD of the child).
type Step struct {
	Tool string
	Args []string
}

var gomaxprocs = []int{1, 2, 16}

// toolsDir returns $VERIF_TOOLS ("" when unset: CLI entries then report Excluded "no-tools").
func toolsDir() string { return os.Getenv("VERIF_TOOLS") }

func scratchRoot() string {
	if d := os.Getenv("VERIF_WORK"); d != "" {
		return d
	}
	return os.TempDir()
}

// tier-dependent run count: quick 6, thorough 30 (a nondeterminism with per-run probability p of
// showing a second outcome is missed with about (1-p)^(N-1)).
func tierRuns() int {
	if os.Getenv("VERIF_TIER") == "thorough" {
		return 30
	}
	return 6
}

func toolTimeout(tool string) time.Duration {
	if tool == "bondgo" {
		return 6 * time.Second // bondgo may block for ever (C12's business): a timed-out run is dropped
	}
	return 120 * time.Second
}

type runResult struct {
	arte     map[string]string // artefact name -> bytes
	timedOut string            // tool that hit the hard timeout ("" = none)
	err      error             // harness error (mkdir, write): inconclusive
}

var tsRe = regexp.MustCompile(`(?m)^\d{4}/\d{2}/\d{2} \d{2}:\d{2}:\d{2} `)

func maskStream(s string) string {
	if i := strings.Index(s, "\ngoroutine "); i >= 0 {
		s = s[:i+1] // M2
	}
	return tsRe.ReplaceAllString(s, "") // M1
}

// concurrency limit for child processes of this test binary
var procSem = make(chan struct{}, 8)

func runOnce(files []SrcFile, steps []Step, maxprocs int) (res runResult) {
	res.arte = map[string]string{}
	dir, err := os.MkdirTemp(scratchRoot(), "c07-run-")
	if err != nil {
		res.err = err
		return
	}
	defer os.RemoveAll(dir)
	for _, f := range files {
		p := filepath.Join(dir, f.Name)
		if err := os.MkdirAll(filepath.Dir(p), 0o755); err != nil {
			res.err = err
			return
		}
		if err := os.WriteFile(p, []byte(f.Text), 0o644); err != nil {
			res.err = err
			return
		}
	}
	for i, st := range steps {
		bin := filepath.Join(toolsDir(), st.Tool)
		ctx, cancel := context.WithTimeout(context.Background(), toolTimeout(st.Tool))
		cmd := exec.CommandContext(ctx, bin, st.Args...)
		cmd.Dir = dir
		cmd.Env = append(os.Environ(), fmt.Sprintf("GOMAXPROCS=%d", maxprocs))
		cmd.WaitDelay = 2 * time.Second
		var so, se bytes.Buffer
		cmd.Stdout, cmd.Stderr = &so, &se
		err := cmd.Run()
		timedOut := ctx.Err() != nil
		cancel()
		if timedOut {
			res.timedOut = st.Tool
			return
		}
		code := 0
		if err != nil {
			if ee, ok := err.(*exec.ExitError); ok {
				code = ee.ExitCode()
			} else {
				res.err = err
				return
			}
		}
		tag := fmt.Sprintf("step%d:%s", i, st.Tool)
		res.arte[tag+":exit"] = fmt.Sprint(code)
		res.arte[tag+":stdout"] = maskStream(so.String())
		res.arte[tag+":stderr"] = maskStream(se.String())
	}
	werr := filepath.Walk(dir, func(p string, info os.FileInfo, e error) error {
		if e != nil || info.IsDir() {
			return e
		}
		b, e := os.ReadFile(p)
		if e != nil {
			return e
		}
		rel, _ := filepath.Rel(dir, p)
		res.arte["file:"+rel] = string(b)
		return nil
	})
	if werr != nil {
		res.err = werr
	}
	return
}

// runMany executes the pipeline n times concurrently (process spawning only; the verdict is computed
// afterwards from the collected artefacts in run order).
func runMany(files []SrcFile, steps []Step, n int) []runResult {
	out := make([]runResult, n)
	var wg sync.WaitGroup
	for i := 0; i < n; i++ {
		wg.Add(1)
		go func(i int) {
			defer wg.Done()
			procSem <- struct{}{}
			defer func() { <-procSem }()
			out[i] = runOnce(files, steps, gomaxprocs[i%len(gomaxprocs)])
		}(i)
	}
	wg.Wait()
	return out
}

// firstDiff describes the first difference between two artefact sets ("" = identical): artefact
// name (sorted order), line number and the two lines.
func firstDiff(a, b map[string]string) (name, desc string) {
	var names []string
	for n := range a {
		names = append(names, n)
	}
	for n := range b {
		if _, ok := a[n]; !ok {
			names = append(names, n)
		}
	}
	sort.Strings(names)
	for _, n := range names {
		x, okx := a[n]
		y, oky := b[n]
		switch {
		case !okx:
			return n, fmt.Sprintf("%s exists only in the second run", n)
		case !oky:
			return n, fmt.Sprintf("%s exists only in the first run", n)
		case x != y:
			return n, n + ": " + diffText(x, y)
		}
	}
	return "", ""
}

func clip(s string, n int) string {
	if len(s) > n {
		return s[:n] + "…"
	}
	return s
}

func diffText(x, y string) string {
	lx, ly := strings.Split(x, "\n"), strings.Split(y, "\n")
	for i := 0; i < len(lx) || i < len(ly); i++ {
		var sx, sy string
		if i < len(lx) {
			sx = lx[i]
		}
		if i < len(ly) {
			sy = ly[i]
		}
		if sx != sy {
			// single-line artefacts (machine JSON): show the neighbourhood of the first differing byte
			k := 0
			for k < len(sx) && k < len(sy) && sx[k] == sy[k] {
				k++
			}
			from := k - 60
			if from < 0 {
				from = 0
			}
			return fmt.Sprintf("line %d byte %d: run A %q, run B %q", i+1, k, clip(sx[from:], 200), clip(sy[from:], 200))
		}
	}
	return "differs"
}

// compareRuns: every completed run against the first completed one. Returns the pair that differs.
func compareRuns(rs []runResult) (i, j int, name, desc string) {
	first := -1
	for k, r := range rs {
		if r.timedOut != "" || r.err != nil {
			continue
		}
		if first < 0 {
			first = k
			continue
		}
		if n, d := firstDiff(rs[first].arte, r.arte); d != "" {
			return first, k, n, d
		}
	}
	return -1, -1, "", ""
}
