// Case types of C06 (JSON-serialisable), the validity rules of the generated domain, the
// rendering of a (graph, partition) pair as BASM source text and the rapid generator.
//
// Directive syntax is the one emitted by pkg/neuralbond (WriteBasm, FRAGMENT mode), pkg/fragtester
// (WriteBasm), pkg/bm2basm and pkg/bmgraph and accepted by pkg/basm/asmparser.go + meta.go:
//
//	%meta bmdef global registersize:16
//	%meta bmdef global iomode:sync
//	%fragment f0 resin:r0:r2 resout:r1          (asmparser.go: key:value pairs, value may hold ':')
//	        add r0, r2                            (arguments separated by ',')
//	%endfragment
//	%meta fidef n0 fragment:f0
//	%meta filinkdef l0 type:fl                   (optional: fragtester does not emit it)
//	%meta filinkatt l0 fi:n0, type:output, index:0
//	%meta filinkatt l0 fi:n1, type:input, index:1
//	%meta filinkatt l1 fi:ext, type:input, index:0     (external input 0 of the machine)
//	%meta filinkatt l1 fi:n0, type:input, index:0
//	%meta cpdef cp0 fragcollapse:n0:n1
//
// A link has exactly two endpoints (links.go GetEndpoints rejects more); fan-out is several links
// attached to the same (instance, output index), as neuralbond does for a neuron feeding several
// weights, or to the same external input index, as bm2basm does for an input bonded to several
// processors.
package c06

import (
	"fmt"
	"sort"
	"strings"

	"pgregory.net/rapid"
)

// Instr is one line of a fragment body. Op ∈ inc dec clr (A), add cpy mult (A,B registers),
// rset (A register, B immediate 0..255).
type Instr struct {
	Op   string
	A, B int
}

// Frag is a library fragment: `%fragment fK resin:r<In…> resout:r<Out…>` + straight-line body.
// Register numbers are the names used in the text (r<N>); they are deliberately drawn from the
// same small pool for every fragment.
type Frag struct {
	In   []int
	Out  []int
	Body []Instr
	// Templ: the fragment is a template (`template:true default_k:<DefK>`); the op "rsetk" of its body is
	// written `rset rA, {{.Params.k}}`. An instance gives k in its fidef line or leaves it to the default.
	Templ bool `json:",omitempty"`
	DefK  int  `json:",omitempty"`
}

// Src names the source of a value: output port Port of instance Inst, or (Inst < 0) external
// input number Port of the machine.
type Src struct{ Inst, Port int }

// Inst is a fragment instance; In[j] feeds resin port j. Instances are numbered in a topological
// order of the graph (In[j].Inst < own index).
type Inst struct {
	Frag int
	In   []Src
	HasK bool `json:",omitempty"` // the fidef line carries k:<K> (templated fragments)
	K    int  `json:",omitempty"`
}

// Case is one dataflow graph with input vector and the partitions to compare.
type Case struct {
	Rsize    int // 8, 16, 32 or 64 (the register sizes the Go simulator implements)
	Frags    []Frag
	Insts    []Inst
	ExtOut   []Src    // external output k of the machine is fed by ExtOut[k] (Inst >= 0)
	Inputs   []uint64 // one value per external input, offered once
	OutStall []int    // environment: ticks the valid of external output k is left unanswered
	// Parts[p] is a partition of the instances into CPs; Parts[p][c] is the fragcollapse list of
	// CP c. Every list is the restriction of one linear extension of the whole DAG.
	Parts [][][]int
	// text-level freedom that must not matter
	// Names[i] / CPNames[c]: the name of instance i / of the CP at position c of a partition in the text
	// (default n<i> / cp<c>); drawn from pools in which one name is a prefix or substring of another and
	// in which the alphabetical order differs from the numbering
	Names   []string `json:",omitempty"`
	CPNames []string `json:",omitempty"`
	// Notes[i] != "": instance i carries an extra fidef key (`note:<value>`): basm instantiates the fragment
	// through its template path for that instance (same code: the generated fragments hold no template text)
	Notes     []string `json:",omitempty"`
	LinkDef   bool     // emit the `%meta filinkdef` lines
	SinkFirst bool     // the consumer-side filinkatt line precedes the producer-side one
	// Probe: do not exclude the recorded defect classes; evaluate and report them with their
	// signature (replay files under known/ set it; never generated).
	Probe bool
}

var validRsize = map[int]bool{8: true, 16: true, 32: true, 64: true}

// Validate checks that the case is inside the generated domain (hand-written replay files).
func (c *Case) Validate() error {
	if !validRsize[c.Rsize] {
		return fmt.Errorf("register size %d", c.Rsize)
	}
	if len(c.Frags) < 1 || len(c.Insts) < 1 || len(c.Insts) > 8 {
		return fmt.Errorf("need 1.. fragments and 1..8 instances")
	}
	for fi, f := range c.Frags {
		def := map[int]bool{}
		seen := map[int]bool{}
		for _, r := range f.In {
			if r < 0 || r > 15 || seen[r] {
				return fmt.Errorf("fragment %d: resin register r%d repeated or out of range", fi, r)
			}
			seen[r], def[r] = true, true
		}
		for k, in := range f.Body {
			if in.A < 0 || in.A > 15 {
				return fmt.Errorf("fragment %d line %d: register", fi, k)
			}
			switch in.Op {
			case "inc", "dec":
				if !def[in.A] {
					return fmt.Errorf("fragment %d line %d reads r%d before writing it", fi, k, in.A)
				}
			case "add", "mult":
				if !def[in.A] || !def[in.B] {
					return fmt.Errorf("fragment %d line %d reads a register before writing it", fi, k)
				}
			case "cpy":
				if !def[in.B] {
					return fmt.Errorf("fragment %d line %d reads r%d before writing it", fi, k, in.B)
				}
			case "clr":
			case "rsetk":
				if !f.Templ || f.DefK < 0 || f.DefK > 255 {
					return fmt.Errorf("fragment %d line %d: rsetk in a fragment that is not a template", fi, k)
				}
			case "rset":
				if in.B < 0 || in.B > 255 {
					return fmt.Errorf("fragment %d line %d: immediate %d", fi, k, in.B)
				}
			default:
				return fmt.Errorf("fragment %d line %d: opcode %q", fi, k, in.Op)
			}
			def[in.A] = true
		}
		if len(f.Out) == 0 {
			return fmt.Errorf("fragment %d has no resout", fi)
		}
		seen = map[int]bool{}
		for _, r := range f.Out {
			if !def[r] || seen[r] {
				return fmt.Errorf("fragment %d: resout r%d never written or repeated", fi, r)
			}
			seen[r] = true
		}
	}
	nin := -1
	for i, in := range c.Insts {
		if in.Frag < 0 || in.Frag >= len(c.Frags) {
			return fmt.Errorf("instance %d: fragment", i)
		}
		f := c.Frags[in.Frag]
		if len(in.In) != len(f.In) {
			return fmt.Errorf("instance %d: %d sources for %d resin", i, len(in.In), len(f.In))
		}
		for _, s := range in.In {
			if s.Inst < 0 {
				if s.Port < 0 || s.Port > 63 {
					return fmt.Errorf("instance %d: external input index", i)
				}
				if s.Port > nin {
					nin = s.Port
				}
				continue
			}
			if s.Inst >= i || s.Port < 0 || s.Port >= len(c.Frags[c.Insts[s.Inst].Frag].Out) {
				return fmt.Errorf("instance %d: source %+v is not an earlier instance's port", i, s)
			}
		}
	}
	if len(c.Inputs) != nin+1 {
		return fmt.Errorf("%d input values for %d external inputs", len(c.Inputs), nin+1)
	}
	used := make([]bool, nin+1)
	for _, in := range c.Insts {
		for _, s := range in.In {
			if s.Inst < 0 {
				used[s.Port] = true
			}
		}
	}
	for k, u := range used {
		if !u {
			return fmt.Errorf("external input %d unused", k)
		}
	}
	if len(c.ExtOut) == 0 {
		return fmt.Errorf("no external output")
	}
	for k, s := range c.ExtOut {
		if s.Inst < 0 || s.Inst >= len(c.Insts) || s.Port < 0 || s.Port >= len(c.Frags[c.Insts[s.Inst].Frag].Out) {
			return fmt.Errorf("external output %d: source %+v", k, s)
		}
	}
	if len(c.Parts) == 0 {
		return fmt.Errorf("no partition")
	}
	for p, part := range c.Parts {
		at := make([]int, len(c.Insts))
		for i := range at {
			at[i] = -1
		}
		for ci, cp := range part {
			if len(cp) == 0 {
				return fmt.Errorf("partition %d: empty CP", p)
			}
			for _, i := range cp {
				if i < 0 || i >= len(c.Insts) || at[i] >= 0 {
					return fmt.Errorf("partition %d is not a partition of the instances", p)
				}
				at[i] = ci
			}
		}
		for i, a := range at {
			if a < 0 {
				return fmt.Errorf("partition %d misses instance %d", p, i)
			}
		}
		// each list in a topological order of the sub-DAG: a producer collapsed with its consumer precedes it
		for _, cp := range part {
			pos := map[int]int{}
			for k, i := range cp {
				pos[i] = k
			}
			for _, i := range cp {
				for _, s := range c.Insts[i].In {
					if s.Inst >= 0 {
						if q, ok := pos[s.Inst]; ok && q > pos[i] {
							return fmt.Errorf("partition %d: list %v is not in topological order", p, cp)
						}
					}
				}
			}
		}
	}
	return nil
}

// ---------------------------------------------------------------------------
// links

// Link is one two-ended fragment link.
type Link struct {
	From Src // producer (Inst<0: external input From.Port)
	To   Src // consumer resin port (Inst<0: external output To.Port)
}

// Links lists the links of the graph in a fixed order: instance inputs in (instance, port)
// order, then external outputs.
func (c *Case) Links() []Link {
	var ls []Link
	for i, in := range c.Insts {
		for j, s := range in.In {
			ls = append(ls, Link{From: s, To: Src{i, j}})
		}
	}
	for k, s := range c.ExtOut {
		ls = append(ls, Link{From: s, To: Src{-1, k}})
	}
	return ls
}

func regs(rs []int) string {
	var b strings.Builder
	for _, r := range rs {
		fmt.Fprintf(&b, ":r%d", r)
	}
	return b.String()
}

func (in Instr) Text() string {
	switch in.Op {
	case "inc", "dec", "clr":
		return fmt.Sprintf("%s r%d", in.Op, in.A)
	case "rset":
		return fmt.Sprintf("rset r%d, %d", in.A, in.B)
	case "rsetk":
		return fmt.Sprintf("rset r%d, {{.Params.k}}", in.A)
	}
	return fmt.Sprintf("%s r%d, r%d", in.Op, in.A, in.B)
}

func (c *Case) instName(i int) string {
	if i < len(c.Names) && c.Names[i] != "" {
		return c.Names[i]
	}
	return fmt.Sprintf("n%d", i)
}

func (c *Case) cpName(ci int) string {
	if ci < len(c.CPNames) && c.CPNames[ci] != "" {
		return c.CPNames[ci]
	}
	return fmt.Sprintf("cp%d", ci)
}

var instNamePool = []string{"n1", "n10", "n11", "n100", "n2", "x", "xy", "xyz", "node_1_1", "node_1_10", "node_11_1", "a", "ab", "ba", "b", "a_b", "b_a"}
var cpNamePool = []string{"cp10", "cp2", "cp1", "cp0", "z", "a", "m", "proc_b", "proc_a", "cp"}

// Source renders the graph with partition part as a BASM file.
func (c *Case) Source(part [][]int) string {
	var b strings.Builder
	fmt.Fprintf(&b, "%%meta bmdef global registersize:%d\n", c.Rsize)
	fmt.Fprintf(&b, "%%meta bmdef global iomode:sync\n")
	for k, f := range c.Frags {
		fmt.Fprintf(&b, "%%fragment f%d", k)
		if f.Templ {
			fmt.Fprintf(&b, " template:true")
		}
		if len(f.In) > 0 {
			fmt.Fprintf(&b, " resin%s", regs(f.In))
		}
		fmt.Fprintf(&b, " resout%s", regs(f.Out))
		if f.Templ {
			fmt.Fprintf(&b, " default_k:%d", f.DefK)
		}
		b.WriteString("\n")
		for _, in := range f.Body {
			fmt.Fprintf(&b, "\t%s\n", in.Text())
		}
		fmt.Fprintf(&b, "%%endfragment\n")
	}
	for i, in := range c.Insts {
		note := ""
		if i < len(c.Notes) && c.Notes[i] != "" {
			note = ", note:" + c.Notes[i]
		}
		if in.HasK {
			note += fmt.Sprintf(", k:%d", in.K)
		}
		fmt.Fprintf(&b, "%%meta fidef %s fragment:f%d%s\n", c.instName(i), in.Frag, note)
	}
	for k, l := range c.Links() {
		if c.LinkDef {
			fmt.Fprintf(&b, "%%meta filinkdef l%d type:fl\n", k)
		}
		var from, to string
		if l.From.Inst < 0 {
			from = fmt.Sprintf("%%meta filinkatt l%d fi:ext, type:input, index:%d\n", k, l.From.Port)
		} else {
			from = fmt.Sprintf("%%meta filinkatt l%d fi:%s, type:output, index:%d\n", k, c.instName(l.From.Inst), l.From.Port)
		}
		if l.To.Inst < 0 {
			to = fmt.Sprintf("%%meta filinkatt l%d fi:ext, type:output, index:%d\n", k, l.To.Port)
		} else {
			to = fmt.Sprintf("%%meta filinkatt l%d fi:%s, type:input, index:%d\n", k, c.instName(l.To.Inst), l.To.Port)
		}
		if c.SinkFirst {
			b.WriteString(to + from)
		} else {
			b.WriteString(from + to)
		}
	}
	for ci, cp := range part {
		fmt.Fprintf(&b, "%%meta cpdef %s fragcollapse", c.cpName(ci))
		for _, i := range cp {
			fmt.Fprintf(&b, ":%s", c.instName(i))
		}
		b.WriteString("\n")
	}
	return b.String()
}

// ---------------------------------------------------------------------------
// abstract rendezvous model of the composed machine (first activation of every CP)

// Live predicts whether the composed machine can deliver every external output under
// iomode:sync. fragmentcomposer.go emits, for every instance of a collapse list in list order,
// a blocking read (`mov rX, iK` = i2rw) of each resin port fed from outside the CP in port
// order, the body, and a blocking write (`mov oK, rX` = r2owa) of each resout port that has a
// sink outside the CP in port order; a write ends when every sink has read (the simulator ANDs
// the received signals of the bonded inputs), a read ends as soon as its source is being
// written. Live runs these event lists to a fixed point: the network is a Kahn network, so the
// outcome does not depend on speeds.
func (c *Case) Live(part [][]int) bool {
	type ev struct {
		write bool
		src   Src // write: the port; read: the source
		need  int // write: number of reading links outside the CP
	}
	at := make([]int, len(c.Insts))
	for ci, cp := range part {
		for _, i := range cp {
			at[i] = ci
		}
	}
	links := c.Links()
	evs := make([][]ev, len(part))
	for ci, cp := range part {
		for _, i := range cp {
			for _, s := range c.Insts[i].In {
				if s.Inst < 0 || at[s.Inst] != ci {
					evs[ci] = append(evs[ci], ev{src: s})
				}
			}
			for p := range c.Frags[c.Insts[i].Frag].Out {
				n, ext := 0, false
				for _, l := range links {
					if l.From.Inst == i && l.From.Port == p {
						if l.To.Inst < 0 {
							ext = true
						} else if at[l.To.Inst] != ci {
							n++
						}
					}
				}
				if n > 0 || ext {
					evs[ci] = append(evs[ci], ev{write: true, src: Src{i, p}, need: n})
				}
			}
		}
	}
	pc := make([]int, len(part))
	taken := make([]int, len(part)) // reads matched with the write the CP is standing on
	for progress := true; progress; {
		progress = false
		for ci := range part {
			if pc[ci] >= len(evs[ci]) {
				continue
			}
			e := evs[ci][pc[ci]]
			if e.write {
				if taken[ci] >= e.need {
					pc[ci]++
					taken[ci] = 0
					progress = true
				}
				continue
			}
			if e.src.Inst < 0 {
				pc[ci]++
				progress = true
				continue
			}
			w := at[e.src.Inst]
			if pc[w] < len(evs[w]) && evs[w][pc[w]].write && evs[w][pc[w]].src == e.src {
				taken[w]++
				pc[ci]++
				progress = true
			}
		}
	}
	for ci := range part {
		if pc[ci] < len(evs[ci]) {
			return false
		}
	}
	return true
}

// ---------------------------------------------------------------------------
// generator

var aluOps = []string{"inc", "dec", "add", "add", "cpy", "cpy", "clr", "rset", "rset", "mult"}

func genFrag(t *rapid.T, pool int) Frag {
	var f Frag
	nin := rapid.IntRange(0, min(3, pool)).Draw(t, "nin")
	perm := rapid.Permutation(seq(pool)).Draw(t, "inregs")
	f.In = append([]int(nil), perm[:nin]...)
	def := map[int]bool{}
	var defl []int
	mark := func(r int) {
		if !def[r] {
			def[r] = true
			defl = append(defl, r)
		}
	}
	for _, r := range f.In {
		mark(r)
	}
	pick := func(l string) int { return defl[rapid.IntRange(0, len(defl)-1).Draw(t, l)] }
	anyr := func(l string) int { return rapid.IntRange(0, pool-1).Draw(t, l) }
	nbody := rapid.IntRange(0, 7).Draw(t, "nbody")
	if nin == 0 && nbody == 0 {
		nbody = 1
	}
	if rapid.IntRange(0, 3).Draw(t, "templ") == 0 {
		f.Templ, f.DefK = true, rapid.IntRange(0, 255).Draw(t, "defk")
		if nbody == 0 {
			nbody = 1
		}
	}
	kAt := -1
	if f.Templ {
		kAt = rapid.IntRange(0, nbody-1).Draw(t, "kat")
	}
	for k := 0; k < nbody; k++ {
		op := rapid.SampledFrom(aluOps).Draw(t, "op")
		if len(defl) == 0 && op != "clr" {
			op = "rset"
		}
		if k == kAt {
			op = "rsetk"
		}
		in := Instr{Op: op}
		switch op {
		case "rsetk":
			in.A = anyr("a")
		case "inc", "dec":
			in.A = pick("a")
		case "add", "mult":
			in.A, in.B = pick("a"), pick("b")
		case "cpy":
			in.A, in.B = anyr("a"), pick("b")
		case "clr":
			in.A = anyr("a")
		case "rset":
			in.A, in.B = anyr("a"), rapid.IntRange(0, 255).Draw(t, "imm")
		}
		mark(in.A)
		f.Body = append(f.Body, in)
	}
	nout := rapid.IntRange(1, min(3, len(defl))).Draw(t, "nout")
	// prefer registers written last (they carry the computation) but allow any defined one
	operm := rapid.Permutation(append([]int(nil), defl...)).Draw(t, "outregs")
	f.Out = append([]int(nil), operm[:nout]...)
	return f
}

func seq(n int) []int {
	r := make([]int, n)
	for i := range r {
		r[i] = i
	}
	return r
}

func rank(s Src) int {
	if s.Inst < 0 {
		return s.Port
	}
	return 1000 + s.Inst*16 + s.Port
}

// linearExtension draws a uniformly chosen-next topological order of the instances.
func linearExtension(t *rapid.T, c *Case) []int {
	n := len(c.Insts)
	done := make([]bool, n)
	var order []int
	for len(order) < n {
		var ready []int
		for i := 0; i < n; i++ {
			if done[i] {
				continue
			}
			ok := true
			for _, s := range c.Insts[i].In {
				if s.Inst >= 0 && !done[s.Inst] {
					ok = false
				}
			}
			if ok {
				ready = append(ready, i)
			}
		}
		i := ready[rapid.IntRange(0, len(ready)-1).Draw(t, "next")]
		done[i] = true
		order = append(order, i)
	}
	return order
}

func restrict(order []int, cpOf []int, ncp int) [][]int {
	part := make([][]int, ncp)
	for _, i := range order {
		part[cpOf[i]] = append(part[cpOf[i]], i)
	}
	var out [][]int
	for _, cp := range part {
		if len(cp) > 0 {
			out = append(out, cp)
		}
	}
	return out
}

func genCase(t *rapid.T) Case {
	var c Case
	c.Rsize = rapid.SampledFrom([]int{8, 16, 32, 64}).Draw(t, "rsize")
	pool := rapid.IntRange(2, 6).Draw(t, "regpool")
	nf := rapid.IntRange(1, 4).Draw(t, "nfrags")
	for k := 0; k < nf; k++ {
		c.Frags = append(c.Frags, genFrag(t, pool))
	}
	ni := rapid.SampledFrom([]int{1, 2, 2, 3, 3, 3, 4, 4, 4, 5, 5, 6, 6}).Draw(t, "ninsts")
	// sorted: every instance reads its sources in one global order, which keeps the
	// one-instance-per-CP machine free of rendezvous deadlock (see Live)
	sorted := rapid.IntRange(0, 9).Draw(t, "portorder") != 0
	nextIn := 0
	var ports []Src
	consumed := map[Src]int{}
	for i := 0; i < ni; i++ {
		in := Inst{Frag: rapid.IntRange(0, nf-1).Draw(t, "frag")}
		f := c.Frags[in.Frag]
		if f.Templ && rapid.Bool().Draw(t, "hask") {
			in.HasK, in.K = true, rapid.IntRange(0, 255).Draw(t, "k")
		}
		for range f.In {
			var s Src
			internal := len(ports) > 0 && rapid.IntRange(0, 9).Draw(t, "internal") < 7
			if internal {
				s = ports[rapid.IntRange(0, len(ports)-1).Draw(t, "src")]
			} else {
				k := rapid.IntRange(0, nextIn).Draw(t, "extin") // nextIn = a fresh external input
				if nextIn > 0 && k < nextIn && rapid.IntRange(0, 2).Draw(t, "reuse") != 0 {
					k = nextIn // fan-out of an external input is the rarer choice
				}
				if k == nextIn {
					nextIn++
				}
				s = Src{-1, k}
			}
			in.In = append(in.In, s)
		}
		if sorted {
			sort.SliceStable(in.In, func(a, b int) bool { return rank(in.In[a]) < rank(in.In[b]) })
		}
		for _, s := range in.In {
			consumed[s]++
		}
		c.Insts = append(c.Insts, in)
		for p := range f.Out {
			ports = append(ports, Src{i, p})
		}
	}
	// every instance is observed: an instance none of whose ports is consumed gets an external
	// output; consumed ports sometimes get one too (port feeding both a fragment and the outside)
	for i, in := range c.Insts {
		nout := len(c.Frags[in.Frag].Out)
		any := false
		for p := 0; p < nout; p++ {
			if consumed[Src{i, p}] > 0 {
				any = true
			}
		}
		for p := 0; p < nout; p++ {
			switch {
			case consumed[Src{i, p}] > 0:
				if rapid.IntRange(0, 3).Draw(t, "tap") == 0 {
					c.ExtOut = append(c.ExtOut, Src{i, p})
				}
			case !any && p == 0:
				c.ExtOut = append(c.ExtOut, Src{i, p})
			default:
				if rapid.IntRange(0, 1).Draw(t, "extout") == 0 {
					c.ExtOut = append(c.ExtOut, Src{i, p})
				}
			}
		}
	}
	if len(c.ExtOut) > 1 {
		c.ExtOut = permute(c.ExtOut, rapid.Permutation(seq(len(c.ExtOut))).Draw(t, "outorder"))
	}
	for k := 0; k < nextIn; k++ {
		v := rapid.Uint64().Draw(t, "input")
		switch rapid.IntRange(0, 3).Draw(t, "inputkind") {
		case 0:
			v %= 16
		case 1:
			v |= 1 // odd values survive chains of mult
		}
		if c.Rsize < 64 {
			v &= (uint64(1) << uint(c.Rsize)) - 1
		}
		c.Inputs = append(c.Inputs, v)
	}
	for range c.ExtOut {
		c.OutStall = append(c.OutStall, rapid.IntRange(0, 3).Draw(t, "stall"))
	}
	c.LinkDef = rapid.Bool().Draw(t, "linkdef")
	c.SinkFirst = rapid.Bool().Draw(t, "sinkfirst")
	if rapid.IntRange(0, 3).Draw(t, "notes") == 0 {
		for i := 0; i < ni; i++ {
			c.Notes = append(c.Notes, rapid.SampledFrom([]string{"", "", "x", "7"}).Draw(t, "note"))
		}
	}
	// an instance of a template that leaves k to the default still needs a key of its own: basm sends an
	// instance through the template path only when its fidef line has a user-defined key (a default-only
	// instance is refused with "no operator match": a clean refusal, not judged here)
	for i, in := range c.Insts {
		if c.Frags[in.Frag].Templ && !in.HasK {
			for len(c.Notes) <= i {
				c.Notes = append(c.Notes, "")
			}
			if c.Notes[i] == "" {
				c.Notes[i] = "d"
			}
		}
	}
	if rapid.Bool().Draw(t, "oddnames") {
		c.Names = permuteStr(instNamePool, rapid.Permutation(seq(len(instNamePool))).Draw(t, "instnames"))[:ni]
	}
	if ni >= 3 && rapid.IntRange(0, 3).Draw(t, "joinedname") == 0 {
		// an instance whose name is two other instance names joined with an underscore (the composer derives
		// section names by joining the names of a collapse list with underscores)
		if c.Names == nil {
			for i := 0; i < ni; i++ {
				c.Names = append(c.Names, fmt.Sprintf("n%d", i))
			}
		}
		p := rapid.Permutation(seq(ni)).Draw(t, "joined")
		c.Names[p[2]] = c.Names[p[0]] + "_" + c.Names[p[1]]
	}
	if rapid.Bool().Draw(t, "oddcpnames") {
		c.CPNames = permuteStr(cpNamePool, rapid.Permutation(seq(len(cpNamePool))).Draw(t, "cpnames"))[:min(ni, len(cpNamePool))]
	}

	// partitions: finest, coarsest, random ones
	order := linearExtension(t, &c)
	finest := make([][]int, 0, ni)
	for _, i := range rapid.Permutation(seq(ni)).Draw(t, "cporder") {
		finest = append(finest, []int{i})
	}
	c.Parts = append(c.Parts, finest)
	if ni > 1 {
		c.Parts = append(c.Parts, [][]int{order})
	}
	if ni > 2 {
		nrand := rapid.IntRange(1, 3).Draw(t, "nparts")
		for r := 0; r < nrand; r++ {
			var part [][]int
			// a partition whose static IO order deadlocks is redrawn (construction instead of
			// rejection); the last draw is kept whatever it is
			for try := 0; try < 4; try++ {
				ncp := rapid.IntRange(2, ni-1).Draw(t, "ncp")
				cpOf := make([]int, ni)
				for i := range cpOf {
					cpOf[i] = rapid.IntRange(0, ncp-1).Draw(t, "cp")
				}
				part = restrict(linearExtension(t, &c), cpOf, ncp)
				if c.Live(part) {
					break
				}
			}
			c.Parts = append(c.Parts, part)
		}
	}
	return c
}

func permute(xs []Src, p []int) []Src {
	r := make([]Src, len(xs))
	for i, k := range p {
		r[i] = xs[k]
	}
	return r
}

func permuteStr(xs []string, p []int) []string {
	r := make([]string, len(xs))
	for i, k := range p {
		r[i] = xs[k]
	}
	return r
}
