package c06

import (
	"runtime"
	"testing"
	"time"
)

// Thousands of in-process assemblies and simulations must neither hang nor leave goroutines
// behind: Assemble closes the bmreqs server of the BasmInstance, simulate stops the workers.
func TestNoGoroutineGrowth(t *testing.T) {
	c := Case{Rsize: 8,
		Frags:  []Frag{{In: []int{0}, Out: []int{0}, Body: []Instr{{Op: "inc", A: 0}}}},
		Insts:  []Inst{{Frag: 0, In: []Src{{-1, 0}}}, {Frag: 0, In: []Src{{0, 0}}}, {Frag: 0, In: []Src{{0, 0}}}},
		ExtOut: []Src{{1, 0}, {2, 0}}, Inputs: []uint64{7}, OutStall: []int{0, 1},
		Parts: [][][]int{{{0}, {1}, {2}}, {{0, 1, 2}}, {{0, 2}, {1}}},
	}
	if out := prop(c); out.Fail != nil || out.Excluded != "" {
		t.Fatalf("warm-up case: %+v", out)
	}
	settle := func() int {
		n := runtime.NumGoroutine()
		for i := 0; i < 50; i++ {
			time.Sleep(10 * time.Millisecond)
			m := runtime.NumGoroutine()
			if m >= n && i > 2 {
				break
			}
			n = m
		}
		return runtime.NumGoroutine()
	}
	before := settle()
	for i := 0; i < 100; i++ { // 300 assemblies + simulations
		if out := prop(c); out.Fail != nil {
			t.Fatalf("iteration %d: %s", i, out.Fail.Msg)
		}
	}
	after := settle()
	if after > before+4 {
		t.Fatalf("goroutines grew from %d to %d over 300 assemblies", before, after)
	}
}
