// Reference evaluator of C06: eval(G), the direct evaluation of the dataflow graph. It shares
// nothing with /repo: a fragment body is interpreted on its own register file with the inputs
// bound to the resin registers and the outputs read from the resout registers, arithmetic
// wraps at the register size.
package c06

import "fmt"

func mask(rsize int) uint64 {
	if rsize >= 64 {
		return ^uint64(0)
	}
	return (uint64(1) << uint(rsize)) - 1
}

// EvalFrag runs one activation of a fragment.
func EvalFrag(f Frag, rsize int, in []uint64, kparam int) ([]uint64, error) {
	m := mask(rsize)
	reg := map[int]uint64{}
	for j, r := range f.In {
		reg[r] = in[j] & m
	}
	rd := func(r int) (uint64, error) {
		v, ok := reg[r]
		if !ok {
			return 0, fmt.Errorf("r%d read before written", r)
		}
		return v, nil
	}
	for k, i := range f.Body {
		var a, b uint64
		var err error
		switch i.Op {
		case "inc", "dec":
			if a, err = rd(i.A); err != nil {
				return nil, fmt.Errorf("line %d: %v", k, err)
			}
		case "add", "mult":
			if a, err = rd(i.A); err != nil {
				return nil, fmt.Errorf("line %d: %v", k, err)
			}
			if b, err = rd(i.B); err != nil {
				return nil, fmt.Errorf("line %d: %v", k, err)
			}
		case "cpy":
			if b, err = rd(i.B); err != nil {
				return nil, fmt.Errorf("line %d: %v", k, err)
			}
		}
		switch i.Op {
		case "inc":
			a++
		case "dec":
			a--
		case "add":
			a += b
		case "mult":
			a *= b
		case "cpy":
			a = b
		case "clr":
			a = 0
		case "rset":
			a = uint64(i.B)
		case "rsetk":
			a = uint64(kparam)
		default:
			return nil, fmt.Errorf("line %d: opcode %q", k, i.Op)
		}
		reg[i.A] = a & m
	}
	out := make([]uint64, len(f.Out))
	for p, r := range f.Out {
		v, err := rd(r)
		if err != nil {
			return nil, fmt.Errorf("resout: %v", err)
		}
		out[p] = v
	}
	return out, nil
}

// EvalGraph returns the value of every external output.
func EvalGraph(c *Case) ([]uint64, error) {
	vals := make([][]uint64, len(c.Insts))
	for i, in := range c.Insts {
		f := c.Frags[in.Frag]
		args := make([]uint64, len(in.In))
		for j, s := range in.In {
			if s.Inst < 0 {
				args[j] = c.Inputs[s.Port]
			} else {
				args[j] = vals[s.Inst][s.Port]
			}
		}
		k := f.DefK
		if in.HasK {
			k = in.K
		}
		out, err := EvalFrag(f, c.Rsize, args, k)
		if err != nil {
			return nil, fmt.Errorf("instance %d: %v", i, err)
		}
		vals[i] = out
	}
	ext := make([]uint64, len(c.ExtOut))
	for k, s := range c.ExtOut {
		ext[k] = vals[s.Inst][s.Port]
	}
	return ext, nil
}
