package c06

import (
	"encoding/json"
	"fmt"
	"os"
	"testing"

	"verifharness/pbt"
)

func TestZ(t *testing.T) {
	b, _ := os.ReadFile(os.Getenv("Z"))
	var rf pbt.ReplayFile
	json.Unmarshal(b, &rf)
	var c Case
	json.Unmarshal(rf.Case, &c)
	o := prop(c)
	fmt.Println(o.Fail.Msg)
}
