// C06 — fragment graphs: every partition computes the dataflow value.
// Generated DAGs of fragment instances × partitions into `cpdef … fragcollapse` lists × input
// vectors; each (graph, partition) is assembled in-process with the call sequence of cmd/basm,
// simulated under a protocol-abiding environment (gen.Runner) and the first value delivered on
// every external output is compared with eval(G) (ref.go).
package c06

import (
	"fmt"
	"io"
	"log"
	"os"
	"sort"
	"strings"
	"testing"

	"github.com/BondMachineHQ/BondMachine/pkg/bondmachine"
	"verifharness/gen"
	"verifharness/pbt"
)

const (
	// tick budget of a machine that the rendezvous model says delivers: the longest generated CP
	// loop is 6 instances × (3 reads + 7 body + 3 writes + 3 temporaries) < 100 instructions and a
	// value crosses at most 5 CP boundaries, a few ticks each
	liveBudget = 5000
	// budget of a machine the model says cannot deliver (only confirms the prediction)
	deadBudget = 600

	sigDeadlock = "D-C06-sync-static-io-order-deadlock"
)

// quiet runs f with os.Stdout and the standard logger silenced: basm prints warnings with
// fmt.Println ("No inputs found on ROM/RAM code, assuming 0") and log.Println ("Register list is
// not complete") for perfectly valid sources.
func quiet(f func()) {
	lw := log.Writer()
	log.SetOutput(io.Discard)
	defer log.SetOutput(lw)
	null, err := os.OpenFile(os.DevNull, os.O_WRONLY, 0)
	if err != nil {
		f()
		return
	}
	old := os.Stdout
	os.Stdout = null
	defer func() { os.Stdout = old; null.Close() }()
	f()
}

// simulate offers every input once and steps until every external output has delivered a value
// or the budget is spent. got[k] is the first value of output k (ok[k] false: none).
func simulate(bm *bondmachine.Bondmachine, c *Case, budget int) (got []uint64, ok []bool, ticks int, err error) {
	env := gen.Env{OutStall: c.OutStall}
	for _, v := range c.Inputs {
		env.In = append(env.In, []uint64{v})
	}
	r, err := gen.NewRunner(bm, env, nil)
	if err != nil {
		return nil, nil, 0, err
	}
	defer r.Close()
	got = make([]uint64, bm.Outputs)
	ok = make([]bool, bm.Outputs)
	for ticks = 0; ticks < budget; ticks++ {
		if err := r.Step(); err != nil {
			return nil, nil, ticks, err
		}
		all := true
		for o := range ok {
			if len(r.Out[o]) > 0 {
				got[o], ok[o] = r.Out[o][0], true
			} else {
				all = false
			}
		}
		if all {
			return got, ok, ticks + 1, nil
		}
	}
	return got, ok, ticks, nil
}

func program(bm *bondmachine.Bondmachine) string {
	var b strings.Builder
	for i, d := range bm.Domains {
		dis, _ := d.Disassembler()
		fmt.Fprintf(&b, "CP %d (R=%d N=%d M=%d):\n%s", i, d.Arch.R, d.Arch.N, d.Arch.M, dis)
	}
	var bonds []string
	for _, v := range bm.List_bonds() {
		bonds = append(bonds, v)
	}
	sort.Strings(bonds)
	fmt.Fprintf(&b, "bonds: %v\n", bonds)
	return b.String()
}

func prop(c Case) pbt.Outcome { return propWith(c, c.Live) }

// propWith judges the case; live(part) tells whether the composed machine of a partition is
// expected to deliver (the rendezvous model of the unchanged composer).
func propWith(c Case, liveModel func(part [][]int) bool) pbt.Outcome {
	if err := c.Validate(); err != nil {
		return pbt.Outcome{Excluded: "malformed"}
	}
	want, err := EvalGraph(&c)
	if err != nil {
		return pbt.Outcome{Excluded: "malformed"}
	}
	lab := map[string]bool{}
	links := c.Links()
	internal := 0
	fan := map[Src][]Link{}
	for _, l := range links {
		if l.From.Inst >= 0 && l.To.Inst >= 0 {
			internal++
		}
		fan[l.From] = append(fan[l.From], l)
	}
	for s, ls := range fan {
		nint, next := 0, 0
		for _, l := range ls {
			if l.To.Inst >= 0 {
				nint++
			} else {
				next++
			}
		}
		switch {
		case s.Inst >= 0 && nint >= 2:
			lab["fanout_shared_producer"] = true
		case s.Inst < 0 && nint >= 2:
			lab["fanout_ext_input"] = true
		}
		if s.Inst >= 0 && nint >= 1 && next >= 1 {
			lab["port_internal_and_external"] = true
		}
	}
	lab[fmt.Sprintf("parts=%d", len(c.Parts))] = true
	lab[fmt.Sprintf("insts=%d", len(c.Insts))] = true
	nontrivial := len(c.Insts) >= 2 && internal >= 1

	excluded := ""
	var fail *pbt.Failure
	for p, part := range c.Parts {
		at := make([]int, len(c.Insts))
		for ci, cp := range part {
			for _, i := range cp {
				at[i] = ci
			}
		}
		lab[fmt.Sprintf("cps=%d", len(part))] = true
		switch {
		case len(part) == len(c.Insts):
			lab["part_finest"] = true
		case len(part) == 1:
			lab["part_coarsest"] = true
		default:
			lab["part_between"] = true
		}
		for s, ls := range fan {
			cross := 0
			cps := map[int]bool{}
			for _, l := range ls {
				if l.To.Inst < 0 {
					continue
				}
				cps[at[l.To.Inst]] = true
				if s.Inst >= 0 && at[l.To.Inst] != at[s.Inst] {
					cross++
					lab["link_crosses_cp"] = true
				}
			}
			if s.Inst >= 0 && len(ls) >= 2 && cross >= 1 {
				lab["fanout_crosses_cp"] = true
				if _, same := cps[at[s.Inst]]; same {
					lab["fanout_inside_and_across"] = true
				}
			}
			if s.Inst >= 0 && cross == 0 && len(cps) > 0 {
				lab["link_inside_cp(temporary)"] = true
			}
		}
		for _, cp := range part {
			used := map[int]int{}
			frs := map[int]bool{}
			for _, i := range cp {
				if frs[c.Insts[i].Frag] {
					lab["same_fragment_twice_in_cp"] = true
				}
				frs[c.Insts[i].Frag] = true
				f := c.Frags[c.Insts[i].Frag]
				rs := map[int]bool{}
				for _, r := range f.In {
					rs[r] = true
				}
				for _, r := range f.Out {
					rs[r] = true
				}
				for _, in := range f.Body {
					rs[in.A] = true
					if in.Op == "add" || in.Op == "mult" || in.Op == "cpy" {
						rs[in.B] = true
					}
				}
				for r := range rs {
					used[r]++
					if used[r] > 1 {
						lab["reg_clash_in_cp"] = true
					}
				}
			}
		}
		live := liveModel(part)
		src := c.Source(part)
		var bm *bondmachine.Bondmachine
		var aerr error
		quiet(func() { bm, aerr = Assemble(src) })
		ctx := func() string {
			s := fmt.Sprintf("partition %d = %v, rsize %d, inputs %v\n--- source\n%s", p, part, c.Rsize, c.Inputs, src)
			if bm != nil {
				s += "--- assembled\n" + program(bm)
			}
			return s
		}
		if aerr != nil {
			fail = pbt.Failf("asm-error", "a graph of the documented shape is not assembled: %v\n%s", aerr, ctx())
			break
		}
		if bm.Inputs != len(c.Inputs) || bm.Outputs != len(c.ExtOut) {
			fail = pbt.Failf("io-count", "machine has %d inputs and %d outputs, graph %d and %d\n%s", bm.Inputs, bm.Outputs, len(c.Inputs), len(c.ExtOut), ctx())
			break
		}
		budget := liveBudget
		if !live {
			budget = deadBudget
		}
		got, ok, ticks, serr := simulate(bm, &c, budget)
		if serr != nil {
			fail = pbt.Failf("sim-error", "simulation error %v\n%s", serr, ctx())
			break
		}
		all := true
		for k := range want {
			if !ok[k] {
				all = false
				continue
			}
			if got[k] != want[k] {
				fail = pbt.Failf("", "external output %d delivers %d, eval(G) = %d (all outputs: got %v delivered %v, expected %v; %d ticks)\n%s", k, got[k], want[k], got, ok, want, ticks, ctx())
				break
			}
		}
		if fail != nil {
			break
		}
		switch {
		case all && !live:
			// correct values were delivered: the property holds for this partition whatever the model
			// of the (unrepaired) composer says
			lab["delivered_where_model_predicts_deadlock"] = true
		case !all && live:
			fail = pbt.Failf("no-delivery", "no value on some external output after %d ticks (delivered %v values %v, expected %v); the rendezvous model says the machine is live\n%s", ticks, ok, got, want, ctx())
		case !all && !live:
			lab["deadlocking_partition"] = true
			if c.Probe {
				fail = pbt.Failf(sigDeadlock, "no value on some external output after %d ticks (delivered %v, expected %v): the static order of blocking reads and writes of the composed CPs deadlocks\n%s", ticks, ok, want, ctx())
			} else {
				excluded = sigDeadlock
			}
		}
		if fail != nil {
			break
		}
	}
	var ls []string
	for l := range lab {
		ls = append(ls, l)
	}
	sort.Strings(ls)
	return pbt.Outcome{NonTrivial: nontrivial, Labels: ls, Excluded: excluded, Fail: fail}
}

const rule = "DAG of 1..6 instances over 1..4 generated integer fragments (straight-line bodies over inc dec add cpy clr rset mult on a shared pool of 2..6 register names, 0..3 resin, 1..3 resout, every register written before it is read), one link per resin port (earlier instance port or external input, fan-out allowed on both), external outputs on every unconsumed instance and some consumed ports; partitions = finest, coarsest (2+ instances), 1..3 random (3+ instances), every fragcollapse list the restriction of a linear extension of the DAG; iomode:sync, register size 8/16/32/64, every input offered once, output stalls 0..3; oracle: first value on every external output of every partition == eval(G), delivered within 5000 ticks; a partition that the rendezvous model of the composer's static blocking-IO order (Case.Live) says cannot deliver and that indeed delivers nothing within 600 ticks is the recorded finding D-C06-sync-static-io-order-deadlock: the case is counted as excluded after its other partitions were judged (random partitions are redrawn up to 4 times to avoid it; 9 of 10 graphs connect ports in one global order so that the finest partition is outside it); non-trivial = >=2 instances and >=1 internal link"

var Props = []*pbt.Entry{
	pbt.Def("partitions", rule, genCase, prop),
}

func TestProps(t *testing.T)  { pbt.RunAll(t, "C06", Props) }
func TestReplay(t *testing.T) { pbt.ReplayAll(t, "C06", Props) }
