package c06

import (
	"fmt"
	"os"
	"testing"

	"verifharness/gen"
)

func TestX(t *testing.T) {
	b, _ := os.ReadFile(os.Getenv("X_SRC"))
	bm, err := Assemble(string(b))
	if err != nil {
		t.Fatal(err)
	}
	for i, d := range bm.Domains {
		dis, _ := d.Disassembler()
		fmt.Printf("CP %d R=%d N=%d M=%d\n%s\n", i, d.Arch.R, d.Arch.N, d.Arch.M, dis)
	}
	fmt.Println(bm.List_bonds(), bm.Inputs, bm.Outputs)
	env := gen.Env{In: [][]uint64{{5}, {7}}}
	r, err := gen.NewRunner(bm, env, nil)
	if err != nil {
		t.Fatal(err)
	}
	defer r.Close()
	for i := 0; i < 200; i++ {
		if err := r.Step(); err != nil {
			t.Fatal(err)
		}
	}
	fmt.Println(r.Out, r.Sent)
}
