package c06

import (
	"fmt"
	"reflect"
	"unsafe"

	"github.com/BondMachineHQ/BondMachine/pkg/basm"
	"github.com/BondMachineHQ/BondMachine/pkg/bminfo"
	"github.com/BondMachineHQ/BondMachine/pkg/bmreqs"
	"github.com/BondMachineHQ/BondMachine/pkg/bondmachine"
)

// Assemble runs the in-process call sequence of cmd/basm (main.go: BasmInstanceInit,
// ParseAssembly*Default, RunAssembler, Assembler2BondMachine, GetBondMachine) on a source text.
// The BasmInstance owns a bmreqs.ReqRoot whose server goroutine is only stopped by
// ReqRoot.Close(); basm has no exported way to reach it, so the field is read through
// reflect/unsafe and closed here (otherwise every assembly leaves one goroutine behind).
func Assemble(src string) (bm *bondmachine.Bondmachine, err error) {
	bi := new(basm.BasmInstance)
	bi.BMinfo = new(bminfo.BMinfo)
	bi.BasmInstanceInit(nil)
	defer closeReqs(bi)
	defer func() {
		if r := recover(); r != nil {
			bm, err = nil, fmt.Errorf("panic: %v", r)
		}
	}()
	if err := bi.ParseAssemblyStringDefault(src); err != nil {
		return nil, fmt.Errorf("parse: %v", err)
	}
	if err := bi.RunAssembler(); err != nil {
		return nil, fmt.Errorf("assembler: %v", err)
	}
	if err := bi.Assembler2BondMachine(); err != nil {
		return nil, fmt.Errorf("bondmachine: %v", err)
	}
	return bi.GetBondMachine(), nil
}

func closeReqs(bi *basm.BasmInstance) {
	f := reflect.ValueOf(bi).Elem().FieldByName("rg")
	if !f.IsValid() || f.IsNil() {
		return
	}
	rg := *(**bmreqs.ReqRoot)(unsafe.Pointer(f.UnsafeAddr()))
	if rg != nil {
		rg.Close()
	}
}
