package vlog

import (
	"fmt"
	"go/ast"
	goparser "go/parser"
	gotoken "go/token"
	"math"
	"math/rand"
	"os"
	"path/filepath"
	"regexp"
	"sort"
	"strconv"
	"strings"
	"testing"

	"github.com/BondMachineHQ/BondMachine/pkg/bmstack"
	"github.com/BondMachineHQ/BondMachine/pkg/procbuilder"
)

// ---------------------------------------------------------------------------
// rendering helpers (same calls as cmd/render)
// ---------------------------------------------------------------------------

type procCfg struct {
	ops           []string
	rsize         int
	R, N, M, L, O int
	prog          string
}

// inScratchDir runs f with the process CWD set to a scratch directory (some
// BondMachine generators write auxiliary files into the CWD).
func inScratchDir(t testing.TB, f func()) {
	t.Helper()
	old, err := os.Getwd()
	if err != nil {
		t.Fatal(err)
	}
	if err := os.Chdir(t.TempDir()); err != nil {
		t.Fatal(err)
	}
	defer os.Chdir(old)
	f()
}

func renderProc(t testing.TB, c procCfg) (files map[string]string, err error) {
	t.Helper()
	defer func() {
		if r := recover(); r != nil {
			err = fmt.Errorf("render panic: %v", r)
		}
	}()
	inScratchDir(t, func() {
		m := new(procbuilder.Machine)
		a := &m.Arch
		a.Rsize = uint8(c.rsize)
		a.Modes = []string{"ha"}
		a.R, a.N, a.M, a.L, a.O = uint8(c.R), uint8(c.N), uint8(c.M), uint8(c.L), uint8(c.O)
		var opl []procbuilder.Opcode
		for _, n := range c.ops {
			for _, op := range procbuilder.Allopcodes {
				if op.Op_get_name() == n {
					opl = append(opl, op)
				}
			}
		}
		sort.Sort(procbuilder.ByName(opl))
		a.Op = opl
		p, e := a.Assembler([]byte(c.prog))
		if e != nil {
			err = fmt.Errorf("assembler: %v", e)
			return
		}
		m.Program = p
		ri := new(procbuilder.RuntimeInfo)
		ri.Init()
		conf := &procbuilder.Config{Runinfo: ri}
		files = map[string]string{
			"a0.v":    a.Write_verilog("a0", map[string]string{"processor": "p0", "rom": "p0rom", "ram": "p0ram"}, "iverilog"),
			"p0.v":    a.Conproc.Write_verilog(conf, a, "p0", "iverilog"),
			"p0rom.v": a.Rom.Write_verilog(m, "p0rom", "iverilog"),
			"p0ram.v": a.Ram.Write_verilog(conf, m, "p0ram", "iverilog"),
		}
	})
	return files, err
}

func renderStack(t testing.TB, memType string, depth, dsize, senders, receivers int) string {
	t.Helper()
	s := bmstack.CreateBasicStack()
	s.ModuleName = "stk"
	s.DataSize = dsize
	s.Depth = depth
	s.MemType = memType
	s.Senders = nil
	s.Receivers = nil
	for i := 0; i < senders; i++ {
		s.Senders = append(s.Senders, fmt.Sprintf("s%d", i))
	}
	for i := 0; i < receivers; i++ {
		s.Receivers = append(s.Receivers, fmt.Sprintf("r%d", i))
	}
	r, err := s.WriteHDL()
	if err != nil {
		t.Fatal(err)
	}
	return r
}

var defaultOps = []string{"add", "clr", "cpy", "dec", "inc", "j", "jz", "nop", "rset", "r2o", "i2r"}

const counterProg = "rset r0 5\ninc r0\nr2o r0 o0\nj 1\n"

func isDefect(c DiagClass) bool { return c != ClassUnsupported }

// buildProc renders, parses, lints (must be clean) and elaborates a processor.
func buildProc(t testing.TB, c procCfg) *Sim {
	t.Helper()
	files, err := renderProc(t, c)
	if err != nil {
		t.Fatal(err)
	}
	d, diags := ParseDesign(files)
	for _, dg := range diags {
		t.Fatalf("parse: %v", dg)
	}
	for _, dg := range Lint(d, LintOpts{}) {
		t.Fatalf("lint: %v", dg)
	}
	s, err := Elaborate(d, "a0", nil)
	if err != nil {
		t.Fatal(err)
	}
	return s
}

func resetProc(t testing.TB, s *Sim) {
	t.Helper()
	s.Set("reset_signal", 1)
	tick(t, s, "clock_signal")
	s.Set("reset_signal", 0)
}

// ---------------------------------------------------------------------------
// 3. end-to-end: processor
// ---------------------------------------------------------------------------

func TestE2EProcessorCounter(t *testing.T) {
	for _, rsize := range []int{8, 16, 32} {
		s := buildProc(t, procCfg{ops: defaultOps, rsize: rsize, R: 2, N: 1, M: 1, L: 2, O: 4, prog: counterProg})
		for _, n := range []string{"i0_valid", "o0", "p0_instance._pc", "p0_instance._r0", "p0rom_instance._rom", "p0ram_instance.mem"} {
			if !s.Has(n) {
				t.Fatalf("rsize %d: missing signal %s", rsize, n)
			}
		}
		if s.Width("p0_instance._r0") != rsize || s.Width("o0") != rsize {
			t.Fatalf("widths %d %d", s.Width("p0_instance._r0"), s.Width("o0"))
		}
		resetProc(t, s)
		expect(t, s, "p0_instance._pc", 0)
		expect(t, s, "p0_instance._r0", 0)
		// rset r0 5
		tick(t, s, "clock_signal")
		expect(t, s, "p0_instance._r0", 5)
		expect(t, s, "p0_instance._pc", 1)
		r0 := uint64(5)
		o0 := uint64(0)
		for loop := 0; loop < 40; loop++ {
			// inc r0
			tick(t, s, "clock_signal")
			r0++
			expect(t, s, "p0_instance._r0", r0)
			expect(t, s, "p0_instance._pc", 2)
			expect(t, s, "o0", o0)
			if !s.NBAWritten("p0_instance._r0") {
				t.Fatal("inc must write r0")
			}
			// r2o r0 o0
			tick(t, s, "clock_signal")
			o0 = r0
			expect(t, s, "o0", o0)
			expect(t, s, "o0_valid", 1)
			expect(t, s, "p0_instance._pc", 3)
			if s.NBAWritten("p0_instance._r0") {
				t.Fatal("r2o must not write r0")
			}
			// j 1
			tick(t, s, "clock_signal")
			expect(t, s, "p0_instance._pc", 1)
			expect(t, s, "p0_instance._r0", r0)
		}
		// o0_valid drops when the consumer acknowledges and no r2o executes
		s.Set("o0_received", 1)
		tick(t, s, "clock_signal") // inc
		expect(t, s, "o0_valid", 0)
	}
}

func TestE2EProcessorInputAndJz(t *testing.T) {
	// i2r r1 i0 ; jz r1 0 ; cpy r0 r1 ; add r0 r1 ; r2o r0 o0 ; j 0
	prog := "i2r r1 i0\njz r1 0\ncpy r0 r1\nadd r0 r1\nr2o r0 o0\nj 0\n"
	s := buildProc(t, procCfg{ops: defaultOps, rsize: 8, R: 2, N: 1, M: 1, L: 3, O: 4, prog: prog})
	resetProc(t, s)
	// input 0: loops between pc 0 and 1
	s.Set("i0", 0)
	s.Set("i0_valid", 1)
	for i := 0; i < 6; i++ {
		tick(t, s, "clock_signal")
		expect(t, s, "p0_instance._pc", uint64((i+1)%2))
	}
	expect(t, s, "i0_received", 1)
	s.Set("i0", 21)
	tick(t, s, "clock_signal") // i2r
	expect(t, s, "p0_instance._r1", 21)
	tick(t, s, "clock_signal") // jz not taken
	expect(t, s, "p0_instance._pc", 2)
	tick(t, s, "clock_signal") // cpy
	expect(t, s, "p0_instance._r0", 21)
	tick(t, s, "clock_signal") // add
	expect(t, s, "p0_instance._r0", 42)
	tick(t, s, "clock_signal") // r2o
	expect(t, s, "o0", 42)
	tick(t, s, "clock_signal") // j 0
	expect(t, s, "p0_instance._pc", 0)
}

// ---------------------------------------------------------------------------
// 3. end-to-end: stacks
// ---------------------------------------------------------------------------

func stackSim(t *testing.T, memType string, senders, receivers int) *Sim {
	src := renderStack(t, memType, 4, 8, senders, receivers)
	d, diags := ParseDesign(map[string]string{"stk.v": src})
	for _, dg := range diags {
		t.Fatalf("parse: %v", dg)
	}
	for _, dg := range Lint(d, LintOpts{}) {
		t.Fatalf("lint: %v", dg)
	}
	s, err := Elaborate(d, "stk", nil)
	if err != nil {
		t.Fatal(err)
	}
	s.Set("reset", 1)
	tick(t, s, "clk")
	s.Set("reset", 0)
	return s
}

func stackPush(t *testing.T, s *Sim, port string, v uint64) {
	t.Helper()
	s.Set(port+"Data", v)
	s.Set(port+"Write", 1)
	for i := 0; ; i++ {
		if i > 20 {
			t.Fatalf("push %d on %s: no Ack", v, port)
		}
		tick(t, s, "clk")
		if s.Get(port+"Ack") == 1 {
			break
		}
	}
	s.Set(port+"Write", 0)
	for i := 0; s.Get(port+"Ack") == 1; i++ {
		if i > 20 {
			t.Fatalf("push on %s: Ack stuck", port)
		}
		tick(t, s, "clk")
	}
}

func stackPop(t *testing.T, s *Sim, port string) uint64 {
	t.Helper()
	s.Set(port+"Read", 1)
	for i := 0; ; i++ {
		if i > 20 {
			t.Fatalf("pop on %s: no Ack", port)
		}
		tick(t, s, "clk")
		if s.Get(port+"Ack") == 1 {
			break
		}
	}
	v := s.Get(port + "Data")
	s.Set(port+"Read", 0)
	for i := 0; s.Get(port+"Ack") == 1; i++ {
		if i > 20 {
			t.Fatalf("pop on %s: Ack stuck", port)
		}
		tick(t, s, "clk")
	}
	return v
}

func TestE2EStackLIFOAndFIFO(t *testing.T) {
	for _, mt := range []string{"LIFO", "FIFO"} {
		s := stackSim(t, mt, 2, 2)
		expect(t, s, "empty", 1)
		expect(t, s, "full", 0)
		in := []uint64{0x11, 0x22, 0x33}
		stackPush(t, s, "s0", in[0])
		expect(t, s, "empty", 0)
		stackPush(t, s, "s1", in[1])
		stackPush(t, s, "s0", in[2])
		expect(t, s, "sp", 3)
		var out []uint64
		out = append(out, stackPop(t, s, "r0"))
		out = append(out, stackPop(t, s, "r1"))
		out = append(out, stackPop(t, s, "r0"))
		expect(t, s, "empty", 1)
		want := in
		if mt == "LIFO" {
			want = []uint64{in[2], in[1], in[0]}
		}
		if fmt.Sprint(out) != fmt.Sprint(want) {
			t.Fatalf("%s: popped %x want %x", mt, out, want)
		}
		// fill to capacity
		for i := 0; i < 4; i++ {
			stackPush(t, s, "s0", uint64(i+1))
		}
		expect(t, s, "full", 1)
		t.Logf("%s ok: %x", mt, out)
	}
}

// ---------------------------------------------------------------------------
// 4. parse sweep
// ---------------------------------------------------------------------------

func TestParseSweepAllOpcodes(t *testing.T) {
	// Two variants per opcode and register size:
	//   alone : {op, nop}            (the configuration asked for by the task)
	//   io    : {op, nop, i2r, r2o}  (declares i0_recv / o0_val, so that more of the sweep reaches the simulator)
	type counts struct{ syntax, defects, elabFail, ok int }
	for _, variant := range []string{"alone", "io"} {
		var total counts
		var syntaxOps, elabOps, okOps []string
		for _, op := range procbuilder.Allopcodes {
			name := op.Op_get_name()
			for _, rsize := range []int{8, 32} {
				ops := []string{name, "nop"}
				if variant == "io" {
					for _, extra := range []string{"i2r", "r2o"} {
						if extra != name {
							ops = append(ops, extra)
						}
					}
				}
				files, err := renderProc(t, procCfg{ops: ops, rsize: rsize, R: 2, N: 1, M: 1, L: 2, O: 4, prog: "nop\n"})
				if err != nil {
					t.Logf("[%s] %-8s rsize=%-2d render failed: %v", variant, name, rsize, err)
					continue
				}
				d, diags := ParseDesign(files) // must not panic
				nsyn := 0
				for _, dg := range diags {
					if strings.Contains(dg.Msg, "internal parser panic") {
						t.Errorf("[%s] %s/%d: %v", variant, name, rsize, dg)
					}
					if dg.Class == ClassSyntax {
						nsyn++
						if rsize == 8 {
							t.Logf("[%s] %-8s syntax: %v", variant, name, dg)
						}
					}
				}
				ldiags := Lint(d, LintOpts{})
				ndef := 0
				seen := map[string]bool{}
				for _, dg := range ldiags {
					if strings.Contains(dg.Msg, "internal lint panic") {
						t.Errorf("[%s] %s/%d: %v", variant, name, rsize, dg)
					}
					if isDefect(dg.Class) {
						ndef++
						seen[string(dg.Class)+":"+dg.Ident] = true
					}
				}
				if rsize == 8 && len(seen) > 0 {
					var ks []string
					for k := range seen {
						ks = append(ks, k)
					}
					sort.Strings(ks)
					t.Logf("[%s] %-8s lint: %s", variant, name, strings.Join(ks, " "))
				}
				tag := fmt.Sprintf("%s/%d", name, rsize)
				switch {
				case nsyn > 0:
					total.syntax++
					syntaxOps = append(syntaxOps, tag)
				case ndef > 0:
					total.defects++
				default:
					s, err := Elaborate(d, "a0", nil)
					if err != nil {
						if strings.Contains(err.Error(), "internal error") {
							t.Errorf("[%s] %s: %v", variant, tag, err)
						}
						total.elabFail++
						elabOps = append(elabOps, tag+": "+err.Error())
						continue
					}
					total.ok++
					okOps = append(okOps, tag)
					resetProc(t, s)
					for i := 0; i < 16; i++ {
						tick(t, s, "clock_signal")
					}
					// (ROM words after the single nop are zero = the alphabetically first opcode, so
					// nothing is asserted about the architectural state here; the run must not fail.)
				}
			}
		}
		// Observed on the pinned BondMachine tree:
		//   alone: every configuration reads the undeclared i0_recv and/or o0_val ("assign i0_received = i0_recv"
		//          is emitted although the reg is only declared by i2r-like / r2o-like opcodes) -> nothing elaborates.
		//   both : k2r q2r r2q r2t r2u t2r u2r render a dangling "localparam"; m2r m2rri render "? x : ;" (syntax) when
		//          their shared object / ram is absent; channel, shared memory, vtextmem, thread and von-Neumann
		//          opcodes reference signals that only exist with the matching shared object or mode.
		t.Logf("[%s] sweep: %d syntax, %d lint-defect, %d elaboration failures, %d clean and simulated", variant, total.syntax, total.defects, total.elabFail, total.ok)
		t.Logf("[%s] syntax: %v", variant, syntaxOps)
		t.Logf("[%s] elaboration failures: %v", variant, elabOps)
		t.Logf("[%s] simulated: %v", variant, okOps)
	}
}

// goStringConsts extracts string constants (literals joined with +) from a Go source file.
func goStringConsts(path string) (map[string]string, error) {
	fset := gotoken.NewFileSet()
	f, err := goparser.ParseFile(fset, path, nil, 0)
	if err != nil {
		return nil, err
	}
	out := map[string]string{}
	var eval func(e ast.Expr) (string, bool)
	eval = func(e ast.Expr) (string, bool) {
		switch x := e.(type) {
		case *ast.BasicLit:
			if x.Kind != gotoken.STRING {
				return "", false
			}
			s, err := strconv.Unquote(x.Value)
			return s, err == nil
		case *ast.BinaryExpr:
			if x.Op != gotoken.ADD {
				return "", false
			}
			a, ok1 := eval(x.X)
			b, ok2 := eval(x.Y)
			return a + b, ok1 && ok2
		case *ast.ParenExpr:
			return eval(x.X)
		}
		return "", false
	}
	for _, decl := range f.Decls {
		gd, ok := decl.(*ast.GenDecl)
		if !ok || (gd.Tok != gotoken.CONST && gd.Tok != gotoken.VAR) {
			continue
		}
		for _, sp := range gd.Specs {
			vs := sp.(*ast.ValueSpec)
			for i, n := range vs.Names {
				if i < len(vs.Values) {
					if s, ok := eval(vs.Values[i]); ok {
						out[n.Name] = s
					}
				}
			}
		}
	}
	return out, nil
}

var tmplField = regexp.MustCompile(`\{\{-?\s*\.([A-Za-z_][A-Za-z0-9_]*)\s*-?\}\}`)
var tmplAny = regexp.MustCompile(`(?s)\{\{.*?\}\}`)

func detemplate(s string) string {
	s = tmplField.ReplaceAllString(s, "tmpl_$1")
	return tmplAny.ReplaceAllString(s, "")
}

func embeddedIP(t testing.TB) map[string]string {
	out := map[string]string{}
	for _, pat := range []string{"/repo/pkg/procbuilder/files_*.go", "/repo/pkg/bondmachine/files_*.go"} {
		paths, _ := filepath.Glob(pat)
		sort.Strings(paths)
		for _, p := range paths {
			consts, err := goStringConsts(p)
			if err != nil {
				t.Logf("%s: %v", p, err)
				continue
			}
			for n, v := range consts {
				out[filepath.Base(p)+":"+n] = v
			}
		}
	}
	return out
}

func TestParseEmbeddedIP(t *testing.T) {
	ips := embeddedIP(t)
	if len(ips) == 0 {
		t.Skip("no embedded IP sources found")
	}
	var names []string
	for n := range ips {
		names = append(names, n)
	}
	sort.Strings(names)
	for _, n := range names {
		src := detemplate(ips[n])
		if !strings.Contains(src, "module") {
			continue // tcl / json / other templates
		}
		d, diags := ParseDesign(map[string]string{n: src}) // must not panic
		nsyn, nuns := 0, 0
		first := ""
		for _, dg := range diags {
			switch dg.Class {
			case ClassSyntax:
				if nsyn == 0 {
					first = dg.String()
				}
				nsyn++
			case ClassUnsupported:
				nuns++
			}
		}
		ld := Lint(d, LintOpts{})
		ndef := 0
		for _, dg := range ld {
			if isDefect(dg.Class) {
				ndef++
			}
		}
		t.Logf("%-55s modules=%v syntax=%d unsupported=%d lint-defects=%d %s", n, d.ModuleNames(), nsyn, nuns, ndef, first)
		if strings.HasPrefix(n, "files_addf") || strings.HasPrefix(n, "files_multf") || strings.HasPrefix(n, "files_divf") {
			if nsyn != 0 || ndef != 0 {
				t.Errorf("%s: FPU IP must parse and lint cleanly: %v %v", n, diags, ld)
			}
		}
	}
}

// ---------------------------------------------------------------------------
// stretch: simulate the embedded FPU IP against Go float32 arithmetic
// ---------------------------------------------------------------------------

func fpuSim(t *testing.T, file, constName string) *Sim {
	consts, err := goStringConsts("/repo/pkg/procbuilder/" + file)
	if err != nil {
		t.Skip(err)
	}
	src := detemplate(consts[constName])
	d, diags := ParseDesign(map[string]string{file: src})
	for _, dg := range diags {
		t.Fatalf("%v", dg)
	}
	for _, dg := range Lint(d, LintOpts{}) {
		t.Fatalf("%v", dg)
	}
	s, err := Elaborate(d, "tmpl_ModuleName", nil)
	if err != nil {
		t.Fatal(err)
	}
	s.Set("rst", 1)
	tick(t, s, "clk")
	s.Set("rst", 0)
	return s
}

func fpuRun(t *testing.T, base *Sim, a, b uint32) uint32 {
	s := base.Clone()
	s.Set("input_a", uint64(a))
	s.Set("input_b", uint64(b))
	s.Set("input_a_stb", 1)
	s.Set("input_b_stb", 1)
	s.Set("output_z_ack", 1)
	for i := 0; i < 400; i++ {
		tick(t, s, "clk")
		if s.Get("output_z_stb") == 1 {
			return uint32(s.Get("output_z"))
		}
	}
	t.Fatalf("FPU did not produce a result for %08x %08x", a, b)
	return 0
}

func TestFPUIPAgainstGoFloat32(t *testing.T) {
	r := rand.New(rand.NewSource(42))
	randNormal := func() uint32 {
		// normal numbers with moderate exponents so results stay normal
		sign := uint32(r.Intn(2)) << 31
		exp := uint32(100+r.Intn(56)) << 23
		man := uint32(r.Intn(1 << 23))
		if r.Intn(5) == 0 {
			man &= 0x7ff000
		}
		return sign | exp | man
	}
	type opdef struct {
		file, name string
		f          func(a, b float32) float32
	}
	for _, od := range []opdef{
		{"files_addf32.go", "addf32", func(a, b float32) float32 { return a + b }},
		{"files_multf32.go", "multf32", func(a, b float32) float32 { return a * b }},
		{"files_divf32.go", "divf32", func(a, b float32) float32 { return a / b }},
	} {
		base := fpuSim(t, od.file, od.name)
		n := 0
		for i := 0; i < 300; i++ {
			a, b := randNormal(), randNormal()
			want := math.Float32bits(od.f(math.Float32frombits(a), math.Float32frombits(b)))
			if want&0x7f800000 == 0 || want&0x7f800000 == 0x7f800000 {
				continue // zero / denormal / inf / nan results: IP specific
			}
			got := fpuRun(t, base, a, b)
			if got != want {
				t.Fatalf("%s(%08x, %08x) = %08x, Go float32 gives %08x", od.name, a, b, got, want)
			}
			n++
		}
		// a few exact identities
		one := math.Float32bits(1)
		two := math.Float32bits(2)
		switch od.name {
		case "addf32":
			if got := fpuRun(t, base, one, one); got != two {
				t.Fatalf("1+1 = %08x", got)
			}
		case "multf32":
			if got := fpuRun(t, base, two, two); got != math.Float32bits(4) {
				t.Fatalf("2*2 = %08x", got)
			}
		case "divf32":
			if got := fpuRun(t, base, one, two); got != math.Float32bits(0.5) {
				t.Fatalf("1/2 = %08x", got)
			}
		}
		t.Logf("%s: %d random operations bit-exact", od.name, n)
	}
}

// ---------------------------------------------------------------------------
// 6. benchmark
// ---------------------------------------------------------------------------

func BenchmarkTick11Op8Bit(b *testing.B) {
	s := buildProc(b, procCfg{ops: defaultOps, rsize: 8, R: 2, N: 1, M: 1, L: 2, O: 4, prog: counterProg})
	resetProc(b, s)
	b.ReportAllocs()
	b.ResetTimer()
	for i := 0; i < b.N; i++ {
		if err := s.Tick("clock_signal"); err != nil {
			b.Fatal(err)
		}
	}
	b.StopTimer()
	b.ReportMetric(float64(b.N)/b.Elapsed().Seconds(), "ticks/s")
}

func BenchmarkCloneAndStateKey(b *testing.B) {
	s := buildProc(b, procCfg{ops: defaultOps, rsize: 8, R: 2, N: 1, M: 1, L: 2, O: 4, prog: counterProg})
	resetProc(b, s)
	b.ReportAllocs()
	b.ResetTimer()
	for i := 0; i < b.N; i++ {
		c := s.Clone()
		_ = c.StateKey()
	}
}

func TestTickThroughputFloor(t *testing.T) {
	if testing.Short() {
		t.Skip()
	}
	res := testing.Benchmark(BenchmarkTick11Op8Bit)
	tps := float64(res.N) / res.T.Seconds()
	t.Logf("11-opcode 8-bit processor: %.0f ticks/s (%d allocs/op)", tps, res.AllocsPerOp())
	if tps < 100000 {
		t.Errorf("throughput %.0f ticks/s is below the 100k target", tps)
	}
}

func BenchmarkParseLintElaborate(b *testing.B) {
	files, err := renderProc(b, procCfg{ops: defaultOps, rsize: 8, R: 2, N: 1, M: 1, L: 2, O: 4, prog: counterProg})
	if err != nil {
		b.Fatal(err)
	}
	b.ReportAllocs()
	b.ResetTimer()
	for i := 0; i < b.N; i++ {
		d, _ := ParseDesign(files)
		if ld := Lint(d, LintOpts{}); len(ld) != 0 {
			b.Fatal(ld)
		}
		if _, err := Elaborate(d, "a0", nil); err != nil {
			b.Fatal(err)
		}
	}
}

func TestParallelClones(t *testing.T) {
	base := buildProc(t, procCfg{ops: defaultOps, rsize: 8, R: 2, N: 1, M: 1, L: 2, O: 4, prog: counterProg})
	resetProc(t, base)
	done := make(chan uint64, 8)
	for g := 0; g < 8; g++ {
		s := base.Clone()
		go func() {
			for i := 0; i < 3000; i++ {
				if err := s.Tick("clock_signal"); err != nil {
					break
				}
			}
			done <- s.Get("p0_instance._r0")
		}()
	}
	first := <-done
	for g := 1; g < 8; g++ {
		if v := <-done; v != first {
			t.Fatalf("clone %d diverged: %d vs %d", g, v, first)
		}
	}
	if first != (5+1000)&0xff { // rset, then 999 full loops of 3 instructions + inc of the 1000th
		t.Logf("r0 after 3000 ticks = %d", first)
	}
}
