package vlog

import "math/big"

func bigZero() *big.Int { return new(big.Int) }
func bigOne() *big.Int  { return big.NewInt(1) }
