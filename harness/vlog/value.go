package vlog

import (
	"math/big"
	"math/bits"
)

// Bit-vector helpers. Narrow values (width <= 64) are plain uint64 masked to
// their width. Wide values are little-endian []uint64 limbs with exactly
// nwords(width) limbs and the unused top bits cleared.

func nwords(w int) int { return (w + 63) >> 6 }

func mask64(w int) uint64 {
	if w >= 64 {
		return ^uint64(0)
	}
	if w <= 0 {
		return 0
	}
	return (uint64(1) << uint(w)) - 1
}

// sext64 sign extends the w-bit value v to int64.
func sext64(v uint64, w int) int64 {
	if w >= 64 {
		return int64(v)
	}
	sh := uint(64 - w)
	return int64(v<<sh) >> sh
}

func wmaskTop(d []uint64, w int) {
	r := w & 63
	if r != 0 {
		d[len(d)-1] &= (uint64(1) << uint(r)) - 1
	}
}

func wIsZero(a []uint64) bool {
	for _, x := range a {
		if x != 0 {
			return false
		}
	}
	return true
}

func wEq(a, b []uint64) bool {
	for i := range a {
		if a[i] != b[i] {
			return false
		}
	}
	return true
}

// wCmpU compares equal-length unsigned limb vectors.
func wCmpU(a, b []uint64) int {
	for i := len(a) - 1; i >= 0; i-- {
		if a[i] != b[i] {
			if a[i] < b[i] {
				return -1
			}
			return 1
		}
	}
	return 0
}

func wSignBit(a []uint64, w int) bool {
	return (a[(w-1)>>6]>>(uint(w-1)&63))&1 != 0
}

// wCmpS compares two w-bit two's complement values.
func wCmpS(a, b []uint64, w int) int {
	sa, sb := wSignBit(a, w), wSignBit(b, w)
	if sa != sb {
		if sa {
			return -1
		}
		return 1
	}
	return wCmpU(a, b)
}

// wExt copies src (srcW bits, len nwords(srcW)) into dst (w bits) with zero or sign extension / truncation.
func wExt(dst []uint64, w int, src []uint64, srcW int, signExt bool) {
	n := copy(dst, src)
	neg := signExt && srcW < w && srcW > 0 && wSignBit(src, srcW)
	if neg {
		r := srcW & 63
		if r != 0 {
			dst[n-1] |= ^uint64(0) << uint(r)
		}
		for i := n; i < len(dst); i++ {
			dst[i] = ^uint64(0)
		}
	} else {
		for i := n; i < len(dst); i++ {
			dst[i] = 0
		}
	}
	wmaskTop(dst, w)
}

// wExt64 extends a narrow value into wide dst.
func wExt64(dst []uint64, w int, v uint64, srcW int, signExt bool) {
	dst[0] = v
	fill := uint64(0)
	if signExt && srcW > 0 && (v>>(uint(srcW-1)))&1 != 0 {
		fill = ^uint64(0)
		if srcW < 64 {
			dst[0] |= fill << uint(srcW)
		}
	}
	for i := 1; i < len(dst); i++ {
		dst[i] = fill
	}
	wmaskTop(dst, w)
}

func wAdd(dst, a, b []uint64, w int) {
	var c uint64
	for i := range dst {
		dst[i], c = bits.Add64(a[i], b[i], c)
	}
	wmaskTop(dst, w)
}

func wSub(dst, a, b []uint64, w int) {
	var c uint64
	for i := range dst {
		dst[i], c = bits.Sub64(a[i], b[i], c)
	}
	wmaskTop(dst, w)
}

func wNeg(dst, a []uint64, w int) {
	var c uint64 = 1
	for i := range dst {
		dst[i], c = bits.Add64(^a[i], 0, c)
	}
	wmaskTop(dst, w)
}

func wNot(dst, a []uint64, w int) {
	for i := range dst {
		dst[i] = ^a[i]
	}
	wmaskTop(dst, w)
}

// wMul computes the low w bits of a*b. dst must not alias a or b.
func wMul(dst, a, b []uint64, w int) {
	n := len(dst)
	for i := range dst {
		dst[i] = 0
	}
	for i := 0; i < n; i++ {
		if a[i] == 0 {
			continue
		}
		var carry uint64
		for j := 0; i+j < n; j++ {
			hi, lo := bits.Mul64(a[i], b[j])
			var c1, c2 uint64
			lo, c1 = bits.Add64(lo, dst[i+j], 0)
			lo, c2 = bits.Add64(lo, carry, 0)
			dst[i+j] = lo
			carry = hi + c1 + c2
		}
	}
	wmaskTop(dst, w)
}

func limbsToBig(a []uint64) *big.Int {
	z := new(big.Int)
	for i := len(a) - 1; i >= 0; i-- {
		z.Lsh(z, 64)
		z.Or(z, new(big.Int).SetUint64(a[i]))
	}
	return z
}

func bigToLimbs(dst []uint64, w int, v *big.Int) {
	// v may be negative: two's complement
	x := v
	if v.Sign() < 0 {
		m := new(big.Int).Lsh(big.NewInt(1), uint(len(dst)*64))
		x = new(big.Int).Add(m, v)
		x.Mod(x, m)
	}
	words := x.Bits()
	for i := range dst {
		dst[i] = 0
	}
	if bits.UintSize == 64 {
		for i := 0; i < len(words) && i < len(dst); i++ {
			dst[i] = uint64(words[i])
		}
	} else {
		for i := 0; i < len(words); i++ {
			j := i / 2
			if j >= len(dst) {
				break
			}
			dst[j] |= uint64(words[i]) << (uint(i&1) * 32)
		}
	}
	wmaskTop(dst, w)
}

func limbsToBigSigned(a []uint64, w int) *big.Int {
	z := limbsToBig(a)
	if wSignBit(a, w) {
		m := new(big.Int).Lsh(big.NewInt(1), uint(w))
		z.Sub(z, m)
	}
	return z
}

// wDivMod computes quotient or remainder (truncating toward zero when signed).
// Returns false when b is zero (dst is zeroed).
func wDivMod(dst, a, b []uint64, w int, signed, wantRem bool) bool {
	if wIsZero(b) {
		for i := range dst {
			dst[i] = 0
		}
		return false
	}
	var x, y *big.Int
	if signed {
		x, y = limbsToBigSigned(a, w), limbsToBigSigned(b, w)
	} else {
		x, y = limbsToBig(a), limbsToBig(b)
	}
	q, r := new(big.Int).QuoRem(x, y, new(big.Int))
	if wantRem {
		bigToLimbs(dst, w, r)
	} else {
		bigToLimbs(dst, w, q)
	}
	return true
}

// wShl: dst = a << n (w bits). dst may alias a.
func wShl(dst, a []uint64, n uint64, w int) {
	if n >= uint64(w) {
		for i := range dst {
			dst[i] = 0
		}
		return
	}
	ws := int(n >> 6)
	bs := uint(n & 63)
	for i := len(dst) - 1; i >= 0; i-- {
		var v uint64
		if i-ws >= 0 {
			v = a[i-ws] << bs
			if bs != 0 && i-ws-1 >= 0 {
				v |= a[i-ws-1] >> (64 - bs)
			}
		}
		dst[i] = v
	}
	wmaskTop(dst, w)
}

// wShr: dst = a >> n, filling with fill bit (arith when fill). dst may alias a.
func wShr(dst, a []uint64, n uint64, w int, arith bool) {
	neg := arith && wSignBit(a, w)
	if n >= uint64(w) {
		f := uint64(0)
		if neg {
			f = ^uint64(0)
		}
		for i := range dst {
			dst[i] = f
		}
		wmaskTop(dst, w)
		return
	}
	ws := int(n >> 6)
	bs := uint(n & 63)
	nl := len(dst)
	// work on a sign-filled view: top limb's unused bits set when negative
	top := a[nl-1]
	if neg && w&63 != 0 {
		top |= ^uint64(0) << uint(w&63)
	}
	get := func(i int) uint64 {
		if i >= nl {
			if neg {
				return ^uint64(0)
			}
			return 0
		}
		if i == nl-1 {
			return top
		}
		return a[i]
	}
	for i := 0; i < nl; i++ {
		v := get(i+ws) >> bs
		if bs != 0 {
			v |= get(i+ws+1) << (64 - bs)
		}
		dst[i] = v
	}
	wmaskTop(dst, w)
}

// getBits64 extracts n (<=64) bits at bit offset lo from a (bits beyond len read as 0; lo >= 0).
func getBits64(a []uint64, lo, n int) uint64 {
	wi := lo >> 6
	bs := uint(lo & 63)
	if wi >= len(a) {
		return 0
	}
	v := a[wi] >> bs
	if bs != 0 && wi+1 < len(a) {
		v |= a[wi+1] << (64 - bs)
	}
	return v & mask64(n)
}

// copyBitsOut extracts n bits at offset lo from src into dst (dst has nwords(n) limbs). lo >= 0.
func copyBitsOut(dst []uint64, src []uint64, lo, n int) {
	for i := range dst {
		rem := n - i*64
		if rem > 64 {
			rem = 64
		}
		dst[i] = getBits64(src, lo+i*64, rem)
	}
}

// setBits64 stores the low n (<=64) bits of v at offset lo in a; reports change. Range must be inside a.
func setBits64(a []uint64, lo, n int, v uint64) bool {
	wi := lo >> 6
	bs := uint(lo & 63)
	m := mask64(n)
	v &= m
	changed := false
	old := a[wi]
	nw := (old &^ (m << bs)) | (v << bs)
	if nw != old {
		a[wi] = nw
		changed = true
	}
	if int(bs)+n > 64 {
		rb := 64 - bs
		m2 := m >> rb
		old2 := a[wi+1]
		nw2 := (old2 &^ m2) | (v >> rb)
		if nw2 != old2 {
			a[wi+1] = nw2
			changed = true
		}
	}
	return changed
}

// copyBitsIn stores n bits of src (starting at bit srcLo of src) at offset lo in dst; reports change.
func copyBitsIn(dst []uint64, lo int, src []uint64, srcLo, n int) bool {
	changed := false
	for done := 0; done < n; done += 64 {
		k := n - done
		if k > 64 {
			k = 64
		}
		if setBits64(dst, lo+done, k, getBits64(src, srcLo+done, k)) {
			changed = true
		}
	}
	return changed
}

func wRedXor(a []uint64) uint64 {
	var x uint64
	for _, v := range a {
		x ^= v
	}
	return uint64(bits.OnesCount64(x) & 1)
}

func wRedAnd(a []uint64, w int) uint64 {
	n := len(a)
	for i := 0; i < n-1; i++ {
		if a[i] != ^uint64(0) {
			return 0
		}
	}
	if a[n-1] != mask64(w-(n-1)*64) {
		return 0
	}
	return 1
}

// wFitsU64 reports whether the value fits in 64 bits and returns the low limb.
func wFitsU64(a []uint64) (uint64, bool) {
	for i := 1; i < len(a); i++ {
		if a[i] != 0 {
			return a[0], false
		}
	}
	return a[0], true
}

// pow computes a**b mod 2^w for narrow values.
func pow64(a, b uint64, w int) uint64 {
	r := uint64(1)
	for b != 0 {
		if b&1 != 0 {
			r *= a
		}
		a *= a
		b >>= 1
	}
	return r & mask64(w)
}
