package vlog

import (
	"errors"
	"fmt"
	"math/big"
	"sort"
	"strings"
	"unsafe"
)

// ErrUnsupported is wrapped by errors returned from Elaborate when the
// instantiated hierarchy uses a construct outside the supported subset.
var ErrUnsupported = errors.New("vlog: unsupported construct")

// ErrNoFixpoint is returned by Settle/Tick when the event loop does not
// converge (combinational loop or oscillating derived clock).
var ErrNoFixpoint = errors.New("vlog: no fixpoint (combinational loop?)")

// ErrLoopBound is reported when a procedural loop exceeds the iteration bound.
var ErrLoopBound = errors.New("vlog: procedural loop exceeds iteration bound")

// ErrElab is wrapped by elaboration errors that are defects of the design
// (undeclared identifiers, port mismatches ...), not unsupported constructs.
var ErrElab = errors.New("vlog: elaboration error")

const loopBound = 1 << 20

// nbaBound limits the number of queued non-blocking assignments (checked in procedural loops).
const nbaBound = 1 << 20

// storage is one allocated signal (or memory).
type storage struct {
	id     int
	name   string
	off    int
	nw     int // limbs per element
	width  int
	depth  int // elements
	isMem  bool
	isVar  bool // reg / integer
	local  bool // function local: never part of a sensitivity set
	driven bool // has a continuous driver
}

// svar is a name bound to storage within a scope (different scopes may view
// the same storage with different ranges: port aliasing).
type svar struct {
	st          *storage
	left, right int // declared vector range
	signed      bool
	isInt       bool
	memLeft     int
	memRight    int
	memLo       int // min(memLeft, memRight)
	isVar       bool
	dir         string
	path        string
}

type procKind uint8

const (
	pkAssign procKind = iota // continuous assignment / port connection (self-triggering)
	pkComb                   // level sensitive always
	pkEdge                   // always with at least one edge event
)

type evt struct {
	edge    uint8 // 0 any change, 1 posedge, 2 negedge
	n       func(*Sim) uint64
	wd      func(*Sim) []uint64
	nw      int
	prevOff int
}

type proc struct {
	id     int
	kind   procKind
	run    func(*Sim)
	events []evt
	name   string
}

type program struct {
	stor        []*storage
	names       map[string]*svar
	nameList    []string
	vsize       int
	scratchSize int
	prevSize    int
	procs       []*proc
	fanComb     [][]int32
	fanEdge     [][]int32
	inits       []func(*Sim)
	stateRanges [][2]int
	top         string
}

type nbaEnt struct {
	sid   int32 // storage id (keeps the queue pointer-free)
	word  int32
	lo    int32
	w     int32
	arena int32 // offset into nbaArena, -1 for narrow
	val   uint64
}

// Sim is an elaborated design instance with its run-time state.
type Sim struct {
	p        *program
	v        []uint64
	scratch  []uint64
	prev     []uint64
	dirty    []bool
	combQ    []int32
	edgeQ    []int32
	trig     []int32
	nbaQ     []nbaEnt
	nbaArena []uint64
	nbaGen   []uint32
	gen      uint32

	// DivByZero counts divisions / modulo by zero evaluated so far (the
	// result is 0 where a 4-state simulator yields x).
	DivByZero int
	// CaptureDisplays enables formatting and capture of $display/$write output.
	CaptureDisplays bool
	// Finished is set when $finish or $stop was executed.
	Finished bool

	displays []string
	partial  string
	err      error
}

// ------------------------------------------------------------------ API

// Signals returns all hierarchical signal names (sorted).
func (s *Sim) Signals() []string {
	out := make([]string, len(s.p.nameList))
	copy(out, s.p.nameList)
	return out
}

// Has reports whether the path names a signal or memory.
func (s *Sim) Has(path string) bool { return s.p.names[path] != nil }

// Width returns the bit width of the signal (element width for memories), 0 if unknown.
func (s *Sim) Width(path string) int {
	sv := s.p.names[path]
	if sv == nil {
		return 0
	}
	return sv.st.width
}

// Depth returns the number of elements of a memory (1 for plain signals, 0 if unknown).
func (s *Sim) Depth(path string) int {
	sv := s.p.names[path]
	if sv == nil {
		return 0
	}
	return sv.st.depth
}

// MemRange returns the declared index bounds of a memory.
func (s *Sim) MemRange(path string) (lo, hi int) {
	sv := s.p.names[path]
	if sv == nil || !sv.st.isMem {
		return 0, -1
	}
	return sv.memLo, sv.memLo + sv.st.depth - 1
}

// IsReg reports whether path is a variable (reg/integer) in the scope that declares it.
func (s *Sim) IsReg(path string) bool {
	sv := s.p.names[path]
	return sv != nil && sv.isVar
}

func (s *Sim) lookup(path string) *svar {
	sv := s.p.names[path]
	if sv == nil {
		panic("vlog: unknown signal " + path)
	}
	return sv
}

// Set forces a signal to a value (truncated to its width).
func (s *Sim) Set(path string, v uint64) {
	sv := s.lookup(path)
	st := sv.st
	if st.isMem {
		panic("vlog: Set on memory " + path + " (use SetMem)")
	}
	if st.nw == 1 {
		s.storeBits(st, 0, 0, st.width, v, nil, 0)
		return
	}
	tmp := make([]uint64, st.nw)
	tmp[0] = v
	s.storeBits(st, 0, 0, st.width, 0, tmp, 0)
}

// SetBig forces a signal to a (non-negative or two's complement negative) value.
func (s *Sim) SetBig(path string, v *big.Int) {
	sv := s.lookup(path)
	st := sv.st
	if st.isMem {
		panic("vlog: SetBig on memory " + path)
	}
	tmp := make([]uint64, st.nw)
	bigToLimbs(tmp, st.width, v)
	s.storeBits(st, 0, 0, st.width, tmp[0], tmp, 0)
}

// Get returns the low 64 bits of a signal.
func (s *Sim) Get(path string) uint64 {
	sv := s.lookup(path)
	return s.v[sv.st.off]
}

// GetBig returns the full value of a signal.
func (s *Sim) GetBig(path string) *big.Int {
	sv := s.lookup(path)
	return limbsToBig(s.v[sv.st.off : sv.st.off+sv.st.nw])
}

// GetMem returns the low 64 bits of memory word `index` (declared index; 0 when out of range).
func (s *Sim) GetMem(path string, index int) uint64 {
	sv := s.lookup(path)
	e := index - sv.memLo
	if !sv.st.isMem {
		e = index
	}
	if e < 0 || e >= sv.st.depth {
		return 0
	}
	return s.v[sv.st.off+e*sv.st.nw]
}

// GetMemBig returns memory word `index` in full.
func (s *Sim) GetMemBig(path string, index int) *big.Int {
	sv := s.lookup(path)
	e := index - sv.memLo
	if e < 0 || e >= sv.st.depth {
		return new(big.Int)
	}
	o := sv.st.off + e*sv.st.nw
	return limbsToBig(s.v[o : o+sv.st.nw])
}

// SetMem writes memory word `index` (no effect when out of range).
func (s *Sim) SetMem(path string, index int, v uint64) {
	sv := s.lookup(path)
	e := index - sv.memLo
	if !sv.st.isMem {
		e = index
	}
	if e < 0 || e >= sv.st.depth {
		return
	}
	st := sv.st
	if st.nw == 1 {
		s.storeBits(st, e, 0, st.width, v, nil, 0)
		return
	}
	tmp := make([]uint64, st.nw)
	tmp[0] = v
	s.storeBits(st, e, 0, st.width, 0, tmp, 0)
}

// NBAWritten reports whether path received a non-blocking assignment during the last Tick/Settle call.
func (s *Sim) NBAWritten(path string) bool {
	sv := s.lookup(path)
	return s.nbaGen[sv.st.id] == s.gen
}

// Displays returns the $display/$write lines captured during the last Tick/Settle call.
func (s *Sim) Displays() []string { return s.displays }

// Err returns the sticky run-time error (loop bound exceeded ...), if any.
func (s *Sim) Err() error { return s.err }

// Clone returns an independent copy of the run-time state sharing the compiled program.
func (s *Sim) Clone() *Sim {
	c := &Sim{p: s.p, gen: s.gen, DivByZero: s.DivByZero, CaptureDisplays: s.CaptureDisplays, Finished: s.Finished, err: s.err}
	c.v = append([]uint64(nil), s.v...)
	c.scratch = make([]uint64, len(s.scratch))
	c.prev = append([]uint64(nil), s.prev...)
	c.dirty = append([]bool(nil), s.dirty...)
	c.combQ = append([]int32(nil), s.combQ...)
	c.edgeQ = append([]int32(nil), s.edgeQ...)
	c.nbaGen = append([]uint32(nil), s.nbaGen...)
	if len(s.nbaQ) > 0 {
		c.nbaQ = append([]nbaEnt(nil), s.nbaQ...)
		c.nbaArena = append([]uint64(nil), s.nbaArena...)
	}
	return c
}

// StateKey returns canonical bytes of all variables, memories and undriven nets.
func (s *Sim) StateKey() string {
	n := 0
	for _, r := range s.p.stateRanges {
		n += r[1]
	}
	buf := make([]uint64, 0, n)
	for _, r := range s.p.stateRanges {
		buf = append(buf, s.v[r[0]:r[0]+r[1]]...)
	}
	if len(buf) == 0 {
		return ""
	}
	b := unsafe.Slice((*byte)(unsafe.Pointer(&buf[0])), len(buf)*8)
	return string(b)
}

// Settle propagates all pending activity to a fixpoint.
func (s *Sim) Settle() error {
	s.beginCall()
	return s.settle()
}

// Tick performs a full clock period on `clock`: rise, settle, fall, settle.
func (s *Sim) Tick(clock string) error {
	s.beginCall()
	sv := s.p.names[clock]
	if sv == nil || sv.st.isMem {
		return fmt.Errorf("%w: Tick: unknown clock signal %q", ErrElab, clock)
	}
	st := sv.st
	s.storeBits(st, 0, 0, st.width, 1, nil, 0)
	if err := s.settle(); err != nil {
		return err
	}
	s.storeBits(st, 0, 0, st.width, 0, nil, 0)
	return s.settle()
}

// Edge sets clock to v and settles (half a clock period).
func (s *Sim) Edge(clock string, v uint64) error {
	s.beginCall()
	s.Set(clock, v)
	return s.settle()
}

func (s *Sim) beginCall() {
	s.gen++
	if s.gen == 0 { // wrapped
		for i := range s.nbaGen {
			s.nbaGen[i] = 0
		}
		s.gen = 1
	}
	if len(s.displays) > 0 {
		s.displays = s.displays[:0]
	}
}

// ------------------------------------------------------------------ kernel

func (s *Sim) changed(id int) {
	for _, p := range s.p.fanComb[id] {
		if !s.dirty[p] {
			s.dirty[p] = true
			s.combQ = append(s.combQ, p)
		}
	}
	for _, p := range s.p.fanEdge[id] {
		if !s.dirty[p] {
			s.dirty[p] = true
			s.edgeQ = append(s.edgeQ, p)
		}
	}
}

// storeBits writes w bits at bit offset lo of element `word`. The value is
// the low w bits of v, or (when src != nil) w bits of src starting at srcLo.
// The range must lie inside the element.
func (s *Sim) storeBits(st *storage, word, lo, w int, v uint64, src []uint64, srcLo int) {
	base := st.off + word*st.nw
	if st.nw == 1 {
		if src != nil {
			v = getBits64(src, srcLo, w)
		}
		m := mask64(w) << uint(lo)
		old := s.v[base]
		nv := (old &^ m) | ((v << uint(lo)) & m)
		if nv != old {
			s.v[base] = nv
			s.changed(st.id)
		}
		return
	}
	elem := s.v[base : base+st.nw]
	var ch bool
	if src != nil {
		ch = copyBitsIn(elem, lo, src, srcLo, w)
	} else {
		ch = setBits64(elem, lo, w, v)
	}
	if ch {
		s.changed(st.id)
	}
}

func (s *Sim) schedNBA(st *storage, word, lo, w int, v uint64, src []uint64, srcLo int) {
	s.nbaGen[st.id] = s.gen
	e := nbaEnt{sid: int32(st.id), word: int32(word), lo: int32(lo), w: int32(w), arena: -1}
	if w <= 64 {
		if src != nil {
			v = getBits64(src, srcLo, w)
		}
		e.val = v & mask64(w)
	} else {
		n := nwords(w)
		o := len(s.nbaArena)
		for i := 0; i < n; i++ {
			s.nbaArena = append(s.nbaArena, 0)
		}
		copyBitsOut(s.nbaArena[o:o+n], src, srcLo, w)
		e.arena = int32(o)
	}
	s.nbaQ = append(s.nbaQ, e)
}

func (s *Sim) runComb() error {
	budget := 1000 * (len(s.p.procs) + 1)
	for i := 0; i < len(s.combQ); i++ {
		if budget == 0 {
			s.combQ = s.combQ[:0]
			for j := range s.dirty {
				if s.p.procs[j].kind != pkEdge {
					s.dirty[j] = false
				}
			}
			return ErrNoFixpoint
		}
		budget--
		id := s.combQ[i]
		p := s.p.procs[id]
		if p.kind == pkAssign {
			s.dirty[id] = false
			p.run(s)
		} else {
			p.run(s)
			s.dirty[id] = false
		}
		if i > 4096 && i*2 > len(s.combQ) {
			// compact
			n := copy(s.combQ, s.combQ[i+1:])
			s.combQ = s.combQ[:n]
			i = -1
		}
	}
	s.combQ = s.combQ[:0]
	return nil
}

// detectEdges evaluates the event expressions of all candidate edge blocks
// and collects the triggered ones into s.trig (sorted by process id).
func (s *Sim) detectEdges() {
	s.trig = s.trig[:0]
	for _, id := range s.edgeQ {
		s.dirty[id] = false
		p := s.p.procs[id]
		fire := false
		for i := range p.events {
			e := &p.events[i]
			if e.nw == 1 {
				cur := e.n(s)
				prev := s.prev[e.prevOff]
				if cur != prev {
					s.prev[e.prevOff] = cur
					switch e.edge {
					case 0:
						fire = true
					case 1:
						if prev&1 == 0 && cur&1 == 1 {
							fire = true
						}
					case 2:
						if prev&1 == 1 && cur&1 == 0 {
							fire = true
						}
					}
				}
			} else {
				cur := e.wd(s)
				prev := s.prev[e.prevOff : e.prevOff+e.nw]
				if !wEq(cur, prev) {
					p0 := prev[0] & 1
					copy(prev, cur)
					switch e.edge {
					case 0:
						fire = true
					case 1:
						if p0 == 0 && cur[0]&1 == 1 {
							fire = true
						}
					case 2:
						if p0 == 1 && cur[0]&1 == 0 {
							fire = true
						}
					}
				}
			}
		}
		if fire {
			s.trig = append(s.trig, id)
		}
	}
	s.edgeQ = s.edgeQ[:0]
	// insertion sort (tiny lists)
	t := s.trig
	for i := 1; i < len(t); i++ {
		x := t[i]
		j := i - 1
		for j >= 0 && t[j] > x {
			t[j+1] = t[j]
			j--
		}
		t[j+1] = x
	}
}

func (s *Sim) applyNBAs() {
	q := s.nbaQ
	for i := range q {
		e := &q[i]
		st := s.p.stor[e.sid]
		if e.arena < 0 {
			s.storeBits(st, int(e.word), int(e.lo), int(e.w), e.val, nil, 0)
		} else {
			n := nwords(int(e.w))
			s.storeBits(st, int(e.word), int(e.lo), int(e.w), 0, s.nbaArena[int(e.arena):int(e.arena)+n], 0)
		}
	}
	s.nbaQ = s.nbaQ[:0]
	s.nbaArena = s.nbaArena[:0]
}

func (s *Sim) settle() error {
	if s.err != nil {
		return s.err
	}
	const maxDelta = 1000
	for delta := 0; ; delta++ {
		if delta > maxDelta {
			return ErrNoFixpoint
		}
		// active region
		for act := 0; ; act++ {
			if act > maxDelta {
				return ErrNoFixpoint
			}
			if len(s.combQ) > 0 {
				if err := s.runComb(); err != nil {
					return err
				}
			}
			if len(s.edgeQ) == 0 {
				break
			}
			s.detectEdges()
			if len(s.trig) == 0 {
				if len(s.combQ) == 0 {
					break
				}
				continue
			}
			// copy: blocks may re-enter detect via nested changes (they only append to edgeQ)
			for i := 0; i < len(s.trig); i++ {
				s.p.procs[s.trig[i]].run(s)
			}
			if s.err != nil {
				return s.err
			}
		}
		if len(s.nbaQ) == 0 {
			break
		}
		s.applyNBAs()
	}
	return s.err
}

func (s *Sim) fail(err error) {
	if s.err == nil {
		s.err = err
	}
}

// ------------------------------------------------------------------ $display

func (s *Sim) display(args []dispArg, newline bool) {
	var sb strings.Builder
	i := 0
	for i < len(args) {
		a := args[i]
		i++
		if a.isStr {
			f := a.str
			for j := 0; j < len(f); j++ {
				c := f[j]
				if c != '%' || j+1 >= len(f) {
					sb.WriteByte(c)
					continue
				}
				j++
				// width digits
				k := j
				for k < len(f) && f[k] >= '0' && f[k] <= '9' {
					k++
				}
				widthSpec := f[j:k]
				if k >= len(f) {
					break
				}
				j = k
				sp := f[j] | 0x20
				switch sp {
				case '%':
					sb.WriteByte('%')
				case 'm':
					sb.WriteString(s.p.top)
				case 'd', 'b', 'h', 'x', 'o', 'c', 's', 't', 'e', 'f', 'g', 'v':
					if i >= len(args) {
						continue
					}
					arg := args[i]
					i++
					sb.WriteString(s.fmtArg(arg, sp, widthSpec))
				default:
					sb.WriteByte('%')
					sb.WriteByte(f[j])
				}
			}
		} else if a.empty {
			sb.WriteByte(' ')
		} else {
			sb.WriteString(s.fmtArg(a, 'd', ""))
		}
	}
	s.partial += sb.String()
	if newline {
		s.displays = append(s.displays, s.partial)
		s.partial = ""
	}
}

type dispArg struct {
	isStr  bool
	empty  bool
	str    string
	w      int
	signed bool
	n      func(*Sim) uint64
	wd     func(*Sim) []uint64
}

func (s *Sim) fmtArg(a dispArg, sp byte, widthSpec string) string {
	if a.isStr {
		return a.str
	}
	if a.empty {
		return ""
	}
	var v *big.Int
	if a.n != nil {
		x := a.n(s)
		if a.signed && sp == 'd' {
			v = big.NewInt(sext64(x, a.w))
		} else {
			v = new(big.Int).SetUint64(x)
		}
	} else {
		l := a.wd(s)
		if a.signed && sp == 'd' {
			v = limbsToBigSigned(l, a.w)
		} else {
			v = limbsToBig(l)
		}
	}
	pad := func(str string, n int, c byte) string {
		for len(str) < n {
			str = string(c) + str
		}
		return str
	}
	switch sp {
	case 'b':
		str := v.Text(2)
		if widthSpec == "0" {
			return str
		}
		return pad(str, a.w, '0')
	case 'h', 'x':
		str := v.Text(16)
		if widthSpec == "0" {
			return str
		}
		return pad(str, (a.w+3)/4, '0')
	case 'o':
		str := v.Text(8)
		if widthSpec == "0" {
			return str
		}
		return pad(str, (a.w+2)/3, '0')
	case 'c':
		return string([]byte{byte(v.Uint64())})
	case 's':
		b := v.Bytes()
		return strings.TrimLeft(string(b), "\x00")
	default:
		str := v.String()
		if widthSpec == "0" {
			return str
		}
		if widthSpec != "" {
			n := 0
			fmt.Sscanf(widthSpec, "%d", &n)
			return pad(str, n, ' ')
		}
		// default decimal field width: digits of the max value
		maxv := new(big.Int).Lsh(big.NewInt(1), uint(a.w))
		maxv.Sub(maxv, big.NewInt(1))
		n := len(maxv.String())
		if a.signed {
			n++
		}
		return pad(str, n, ' ')
	}
}

func sortedNames(m map[string]*svar) []string {
	out := make([]string, 0, len(m))
	for k := range m {
		out = append(out, k)
	}
	sort.Strings(out)
	return out
}
