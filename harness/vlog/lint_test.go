package vlog

import (
	"strings"
	"testing"
)

func lintSrc(t *testing.T, src string, o LintOpts) (parse, lint []Diag) {
	t.Helper()
	d, pd := ParseDesign(map[string]string{"t.v": src})
	return pd, Lint(d, o)
}

func hasDiag(ds []Diag, class DiagClass, ident string) bool {
	for _, d := range ds {
		if d.Class == class && (ident == "" || d.Ident == ident) {
			return true
		}
	}
	return false
}

func defectsOf(ds []Diag) []Diag {
	var out []Diag
	for _, d := range ds {
		if isDefect(d.Class) {
			out = append(out, d)
		}
	}
	return out
}

func TestLintFlagsEachClass(t *testing.T) {
	cases := []struct {
		name  string
		src   string
		class DiagClass
		ident string
		where string // "parse" or "lint"
	}{
		{"syntax-missing-semicolon", `module m(input a, output y); assign y = a endmodule`, ClassSyntax, "", "parse"},
		{"syntax-dangling-localparam", "module m(input a);\n localparam\n always @(posedge a) begin end\nendmodule", ClassSyntax, "", "parse"},
		{"syntax-empty-ternary-arm", `module m(input a, output y); assign y = a ? 1'b0 : ; endmodule`, ClassSyntax, "", "parse"},
		{"syntax-unbalanced", `module m(input a, output reg y); always @* begin y = a; endmodule`, ClassSyntax, "", "parse"},
		{"undeclared-rhs", `module m(input a, output y); assign y = a & b; endmodule`, ClassUndeclared, "b", "lint"},
		{"undeclared-lhs", `module m(input a); assign w = a; endmodule`, ClassUndeclared, "w", "lint"},
		{"undeclared-clock", `module m(input a, output reg y); always @(posedge clk) y <= a; endmodule`, ClassUndeclared, "clk", "lint"},
		{"undeclared-procedural-target", `module m(input clk, input a); always @(posedge clk) q <= a; endmodule`, ClassUndeclared, "q", "lint"},
		{"undeclared-port-connection", `module s(input a, output y); assign y = a; endmodule
module m(input a, output y); s u(.a(nothere), .y(y)); endmodule`, ClassUndeclared, "nothere", "lint"},
		{"undeclared-header-port", `module m(a, b, y); input a; output y; assign y = a; endmodule`, ClassUndeclared, "b", "lint"},
		{"undeclared-case-item", `module m(input [1:0] a, output reg y); always @* case (a) FOO: y = 1; default: y = 0; endcase endmodule`, ClassUndeclared, "FOO", "lint"},
		{"undeclared-function", `module m(input a, output y); assign y = f(a); endmodule`, ClassUndeclared, "f", "lint"},
		{"undefined-module", `module m(input a, output y); ghost u(.a(a), .y(y)); endmodule`, ClassUndefModule, "ghost", "lint"},
		{"port-count-positional", `module s(input a, input b, output y); assign y = a & b; endmodule
module m(input a, output y); s u(a, y); endmodule`, ClassPortCount, "u", "lint"},
		{"port-count-too-many", `module s(input a, output y); assign y = a; endmodule
module m(input a, output y); s u(a, y, a); endmodule`, ClassPortCount, "u", "lint"},
		{"port-count-named-missing", `module s(input a, output y); assign y = a; endmodule
module m(input a, output y); s u(.a(a), .y(y), .zz(a)); endmodule`, ClassPortCount, "zz", "lint"},
		{"assign-kind-assign-to-reg", `module m(input a, output reg y); assign y = a; endmodule`, ClassAssignKind, "y", "lint"},
		{"assign-kind-assign-to-reg-nonansi", `module m(a, y); input a; output y; reg y; assign y = a; endmodule`, ClassAssignKind, "y", "lint"},
		{"assign-kind-procedural-to-wire", `module m(input clk, input a, output y); always @(posedge clk) y <= a; endmodule`, ClassAssignKind, "y", "lint"},
		{"assign-kind-blocking-to-wire", `module m(input a); wire w; always @* w = a; endmodule`, ClassAssignKind, "w", "lint"},
		{"assign-kind-procedural-to-input", `module m(input clk, input a); always @(posedge clk) a <= 1'b0; endmodule`, ClassAssignKind, "a", "lint"},
		{"assign-kind-instance-output-to-reg", `module s(input a, output y); assign y = a; endmodule
module m(input a); reg r; s u(.a(a), .y(r)); endmodule`, ClassAssignKind, "r", "lint"},
		{"assign-kind-instance-output-positional", `module s(a, y); input a; output y; assign y = a; endmodule
module m(input a); reg [3:0] r; s u(a, r[0]); endmodule`, ClassAssignKind, "r", "lint"},
		{"assign-kind-initial-to-wire", `module m(output y); initial y = 1'b0; endmodule`, ClassAssignKind, "y", "lint"},
		{"multi-driver-two-always", `module m(input clk, input a, input b); reg q;
always @(posedge clk) q <= a;
always @(posedge clk) if (b) q <= 1'b0;
endmodule`, ClassMultiDriver, "q", "lint"},
		{"multi-driver-memory", `module m(input clk, input [1:0] i, input [7:0] d); reg [7:0] mem [0:3];
always @(posedge clk) mem[i] <= d;
always @(posedge clk) mem[0] <= 8'd0;
endmodule`, ClassMultiDriver, "mem", "lint"},
		{"multi-driver-overlapping-bits", `module m(input clk, input a); reg [3:0] q;
always @(posedge clk) q[2:1] <= {a, a};
always @(posedge clk) q[1] <= a;
endmodule`, ClassMultiDriver, "q", "lint"},
		{"multi-driver-comb-and-seq", `module m(input clk, input a); reg q;
always @* q = a;
always @(posedge clk) q <= ~a;
endmodule`, ClassMultiDriver, "q", "lint"},
		{"unsupported-hierarchical", `module s(input a); wire w = a; endmodule
module m(input a, output y); s u(.a(a)); assign y = u.w; endmodule`, ClassUnsupported, "u", "lint"},
		{"unsupported-task", `module m(input a); task t1; begin end endtask endmodule`, ClassUnsupported, "", "lint"},
	}
	for _, c := range cases {
		pd, ld := lintSrc(t, c.src, LintOpts{})
		got := ld
		if c.where == "parse" {
			got = pd
		}
		if !hasDiag(got, c.class, c.ident) {
			t.Errorf("%s: expected %s diag (ident %q); parse=%v lint=%v", c.name, c.class, c.ident, pd, ld)
		}
		if c.where == "lint" {
			for _, d := range pd {
				if d.Class == ClassSyntax {
					t.Errorf("%s: unexpected syntax diag %v", c.name, d)
				}
			}
			// exactly the expected defect class, nothing else
			for _, d := range defectsOf(ld) {
				if d.Class != c.class {
					t.Errorf("%s: unexpected extra defect %v", c.name, d)
				}
			}
		}
		for _, d := range append(pd, ld...) {
			if d.File != "t.v" || (d.Line <= 0 && d.Class != ClassUnsupported) {
				t.Errorf("%s: diag without location: %+v", c.name, d)
			}
		}
	}
}

const cleanCorpus = `
// a grab bag of legal Verilog-2001 that must not be flagged
module leaf #(parameter W = 8, parameter [W-1:0] INIT = 0) (
    input clk, input rst, input [W-1:0] d, output reg [W-1:0] q, output [W-1:0] qn, inout [W-1:0] pad);
  wire [W-1:0] nq = ~q;       // net declaration assignment
  assign qn = nq;
  assign pad = rst ? q : {W{1'bz}};
  always @(posedge clk or posedge rst)
    if (rst) q <= INIT; else q <= d;
endmodule

module nonansi(clk, a, b, y, z, m_out);
  input clk;
  input [3:0] a, b;
  output [4:0] y;
  output z;
  output [7:0] m_out;
  reg [4:0] y;               // output redeclared as reg
  reg z;
  wire [7:0] m_out;
  reg [7:0] mem [0:15];
  reg [7:0] rd = 8'h00;      // declaration initialiser
  integer i, j;
  localparam [1:0] S0 = 2'd0, S1 = 2'd1;
  reg [1:0] st;
  initial begin
    z = 1'b0;                // initial + one always block is tolerated
    for (i = 0; i < 16; i = i + 1) mem[i] = i;
  end
  always @(posedge clk) begin : seq
    integer k;
    reg [3:0] tmp;
    tmp = a ^ b;
    for (k = 0; k < 4; k = k + 1) if (tmp[k]) z <= ~z;
    y <= a + b;
    mem[a] <= {a, b};
    rd <= mem[b];
    case (st)
      S0: st <= S1;
      S1, 2'd2: st <= S0;
      default: st <= S0;
    endcase
  end
  // same loop variable in a second block: loop counters are not drivers
  reg [3:0] ones;
  always @* begin
    ones = 0;
    for (i = 0; i < 4; i = i + 1) ones = ones + a[i];
  end
  assign m_out = rd;
endmodule

module bits(input clk, input a, input b);
  // disjoint constant bits of one reg from different always blocks are legal
  reg [1:0] isr;
  localparam HI = 1;
  always @(posedge clk) isr[0] <= a;
  always @(posedge clk) isr[HI] <= b;
  reg [7:0] v;
  always @(posedge clk) v[3:0] <= {4{a}};
  always @(posedge clk) v[7 -: 4] <= {4{b}};
endmodule

module gen #(parameter N = 3, parameter MODE = 1) (input clk, input [N-1:0] d, output [N-1:0] q, output [N-1:0] r, output s);
  genvar g;
  wire [N-1:0] pads [0:0];
  generate
    for (g = 0; g < N; g = g + 1) begin : lane
      wire [7:0] qq, qn;
      leaf #(.W(8)) u (.clk(clk), .rst(1'b0), .d({8{d[g]}}), .q(qq), .qn(qn), .pad());
      assign q[g] = qq[0];
      reg t;
      always @(posedge clk) t <= d[g];
      assign r[g] = t;
    end
    if (MODE == 1) begin : m1
      reg sel;
      always @(posedge clk) sel <= d[0];
      assign s = sel;
    end else begin : m0
      assign s = 1'b0;
    end
  endgenerate
endmodule

module gen2 #(parameter P = 0) (input clk, input a, output reg o);
  // mutually exclusive generate branches may both drive o
  generate
    if (P) begin
      always @(posedge clk) o <= a;
    end else begin
      always @(posedge clk) o <= ~a;
    end
  endgenerate
endmodule

module fns(input [7:0] x, output [7:0] y, output [3:0] c);
  function [7:0] rev;
    input [7:0] v;
    integer n;
    begin
      for (n = 0; n < 8; n = n + 1) rev[n] = v[7 - n];
    end
  endfunction
  function integer clog2(input integer v);
    begin
      clog2 = 0;
      while ((1 << clog2) < v) clog2 = clog2 + 1;
    end
  endfunction
  localparam CW = clog2(9);
  assign y = rev(x);
  assign c = CW;
endmodule

module tb;
  // test bench style code: lint works although it cannot be elaborated
  reg clk = 0;
  reg [3:0] a, b;
  wire [4:0] y;
  wire z;
  wire [7:0] mo;
  always #5 clk = ~clk;
  nonansi dut(clk, a, b, y, z, mo);
  initial begin
    $dumpfile("x.vcd");
    $dumpvars(0, tb);
    a = 0; b = 0;
    #10 a = 4'd3;
    @(posedge clk);
    repeat (3) @(posedge clk) b = b + 1;
    $display("%d %d", y, $time);
    $finish;
  end
endmodule
`

func TestLintCleanCorpus(t *testing.T) {
	pd, ld := lintSrc(t, cleanCorpus, LintOpts{})
	for _, d := range pd {
		t.Errorf("parse diag on clean code: %v", d)
	}
	for _, d := range ld {
		if isDefect(d.Class) {
			t.Errorf("lint defect on clean code: %v", d)
		}
	}
	// the non test-bench modules also elaborate
	d, _ := ParseDesign(map[string]string{"t.v": cleanCorpus})
	for _, top := range []string{"leaf", "nonansi", "bits", "gen", "gen2", "fns"} {
		if _, err := Elaborate(d, top, nil); err != nil {
			t.Errorf("elaborate %s: %v", top, err)
		}
	}
}

func TestLintExternalModules(t *testing.T) {
	src := `module m(input a, output y); vendor_ip #(.X(1)) u(.a(a), .y(y)); endmodule`
	_, ld := lintSrc(t, src, LintOpts{})
	if !hasDiag(ld, ClassUndefModule, "vendor_ip") {
		t.Fatalf("want undefined-module: %v", ld)
	}
	_, ld = lintSrc(t, src, LintOpts{ExternalModules: map[string]bool{"vendor_ip": true}})
	if len(defectsOf(ld)) != 0 {
		t.Fatalf("external module still flagged: %v", ld)
	}
}

func TestLintDeterministic(t *testing.T) {
	src := `module m(input a, output y); assign y = b & c & d; assign q = e; ghost u(a); endmodule
module n(input a); always @(posedge a) a <= zz; endmodule`
	_, first := lintSrc(t, src, LintOpts{})
	for i := 0; i < 20; i++ {
		_, again := lintSrc(t, src, LintOpts{})
		if len(again) != len(first) {
			t.Fatal("length differs")
		}
		for k := range first {
			if first[k] != again[k] {
				t.Fatalf("order differs at %d: %v vs %v", k, first[k], again[k])
			}
		}
	}
	if len(first) < 7 {
		t.Fatalf("expected at least 7 diags, got %v", first)
	}
}

// The lint must be silent on everything BondMachine generates for well-formed
// configurations; anything it reports here is logged for inspection.
func TestLintRenderedBondMachine(t *testing.T) {
	cfgs := []procCfg{
		{ops: defaultOps, rsize: 8, R: 2, N: 1, M: 1, L: 2, O: 4, prog: counterProg},
		{ops: defaultOps, rsize: 32, R: 3, N: 2, M: 2, L: 3, O: 5, prog: counterProg},
		{ops: []string{"add", "i2rw", "r2owa", "j", "rset", "mult", "div", "jz", "nop", "i2r", "r2o"}, rsize: 16, R: 1, N: 2, M: 2, L: 2, O: 4, prog: "i2rw r0 i0\nr2owa r0 o1\nj 0\n"},
		{ops: []string{"addf", "multf", "divf", "i2r", "r2o", "j", "nop", "rset"}, rsize: 32, R: 2, N: 1, M: 1, L: 2, O: 4, prog: "i2r r0 i0\naddf r0 r0\nr2o r0 o0\nj 0\n"},
		{ops: []string{"and", "or", "xor", "not", "nand", "nor", "xnor", "sub", "mod", "cmpr", "clc", "cset", "adc", "sbc", "inc", "dec", "i2r", "r2o", "j", "jc", "jz", "je", "nop", "rset", "hlt", "cil", "cir", "cilc", "cirn", "mulc", "incc", "jo", "ja", "jri", "jrio", "jcmpl", "jcmpo", "r2m", "m2r", "r2mri", "m2rri", "ro2r", "ro2rri", "dpc", "hit", "cmpv", "cmprlt", "jgt0f"}, rsize: 8, R: 3, N: 1, M: 1, L: 4, O: 6, prog: "nop\nj 0\n"},
	}
	for i, c := range cfgs {
		files, err := renderProc(t, c)
		if err != nil {
			t.Logf("cfg %d: render: %v", i, err)
			continue
		}
		d, pd := ParseDesign(files)
		for _, dg := range pd {
			t.Logf("cfg %d FINDING parse: %v", i, dg)
		}
		ld := Lint(d, LintOpts{})
		for _, dg := range ld {
			t.Logf("cfg %d FINDING lint: %v", i, dg)
		}
		if i < 4 && (len(pd) != 0 || len(defectsOf(ld)) != 0) {
			t.Errorf("cfg %d (%s): generated Verilog is expected to be clean", i, strings.Join(c.ops, ","))
		}
	}
	for _, mt := range []string{"LIFO", "FIFO"} {
		src := renderStack(t, mt, 8, 16, 3, 2)
		d, pd := ParseDesign(map[string]string{"stk.v": src})
		if len(pd) != 0 || len(defectsOf(Lint(d, LintOpts{}))) != 0 {
			t.Errorf("%s stack: %v %v", mt, pd, Lint(d, LintOpts{}))
		}
	}
}
