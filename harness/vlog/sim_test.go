package vlog

import (
	"errors"
	"math/big"
	"strings"
	"testing"
)

func mustSim(t testing.TB, src, top string, params map[string]uint64) *Sim {
	t.Helper()
	d, diags := ParseDesign(map[string]string{"t.v": src})
	for _, dg := range diags {
		t.Fatalf("parse: %v", dg)
	}
	for _, dg := range Lint(d, LintOpts{}) {
		t.Fatalf("lint: %v", dg)
	}
	s, err := Elaborate(d, top, params)
	if err != nil {
		t.Fatalf("elaborate: %v", err)
	}
	return s
}

func tick(t testing.TB, s *Sim, clk string) {
	t.Helper()
	if err := s.Tick(clk); err != nil {
		t.Fatalf("tick: %v", err)
	}
}

func expect(t testing.TB, s *Sim, path string, want uint64) {
	t.Helper()
	if got := s.Get(path); got != want {
		t.Fatalf("%s = %d (0x%x), want %d (0x%x)", path, got, got, want, want)
	}
}

func TestCounterAsyncReset(t *testing.T) {
	s := mustSim(t, `
module c(input clk, input rst, output reg [3:0] q);
  always @(posedge clk or posedge rst)
    if (rst) q <= 4'd0; else q <= q + 1;
endmodule`, "c", nil)
	expect(t, s, "q", 0)
	for i := 1; i <= 5; i++ {
		tick(t, s, "clk")
		expect(t, s, "q", uint64(i))
	}
	// asynchronous reset: no clock edge needed
	s.Set("rst", 1)
	if err := s.Settle(); err != nil {
		t.Fatal(err)
	}
	expect(t, s, "q", 0)
	if !s.NBAWritten("q") {
		t.Fatal("NBAWritten(q) should be true after async reset")
	}
	tick(t, s, "clk") // held in reset
	expect(t, s, "q", 0)
	s.Set("rst", 0)
	if err := s.Settle(); err != nil { // negedge of rst: no event
		t.Fatal(err)
	}
	if s.NBAWritten("q") {
		t.Fatal("NBAWritten(q) should be false: falling reset is not an event")
	}
	expect(t, s, "q", 0)
	for i := 1; i <= 17; i++ {
		tick(t, s, "clk")
		expect(t, s, "q", uint64(i%16))
	}
}

func TestShiftRegister(t *testing.T) {
	s := mustSim(t, `
module sr(input clk, input d, output [3:0] q);
  reg [3:0] r;
  always @(posedge clk) r <= {r[2:0], d};
  assign q = r;
endmodule`, "sr", nil)
	in := []uint64{1, 0, 1, 1, 0, 0, 1}
	var model uint64
	for _, b := range in {
		s.Set("d", b)
		tick(t, s, "clk")
		model = ((model << 1) | b) & 0xf
		expect(t, s, "q", model)
	}
}

func TestNBASwap(t *testing.T) {
	s := mustSim(t, `
module sw(input clk);
  reg [7:0] a = 8'd3;
  reg [7:0] b = 8'd9;
  always @(posedge clk) a <= b;
  always @(posedge clk) b <= a;
endmodule`, "sw", nil)
	expect(t, s, "a", 3)
	expect(t, s, "b", 9)
	tick(t, s, "clk")
	expect(t, s, "a", 9)
	expect(t, s, "b", 3)
	tick(t, s, "clk")
	expect(t, s, "a", 3)
	expect(t, s, "b", 9)
}

func TestBlockingVsNonBlockingOrder(t *testing.T) {
	s := mustSim(t, `
module bo(input clk, input [7:0] d);
  reg [7:0] b1, b2, n1, n2, t1;
  always @(posedge clk) begin
    b1 = d;        // visible immediately
    b2 = b1 + 1;   // sees new b1
    n1 <= d;
    n2 <= n1 + 1;  // sees old n1
    t1 = 8'd1;
    t1 <= 8'd2;    // NBA applied after the blocking write
  end
endmodule`, "bo", nil)
	s.Set("d", 10)
	tick(t, s, "clk")
	expect(t, s, "b1", 10)
	expect(t, s, "b2", 11)
	expect(t, s, "n1", 10)
	expect(t, s, "n2", 1)
	expect(t, s, "t1", 2)
	s.Set("d", 20)
	tick(t, s, "clk")
	expect(t, s, "b2", 21)
	expect(t, s, "n2", 11)
	if !s.NBAWritten("n1") || s.NBAWritten("b1") {
		t.Fatal("NBAWritten bookkeeping wrong")
	}
}

func TestLastNBAWins(t *testing.T) {
	s := mustSim(t, `
module ln(input clk, input sel);
  reg [7:0] r;
  reg [7:0] p;
  always @(posedge clk) begin
    r <= 8'd1;
    if (sel) r <= 8'd2;
    p <= 8'hff;
    p[3:0] <= 4'h0;
  end
endmodule`, "ln", nil)
	tick(t, s, "clk")
	expect(t, s, "r", 1)
	expect(t, s, "p", 0xf0)
	s.Set("sel", 1)
	tick(t, s, "clk")
	expect(t, s, "r", 2)
}

const ramSrc = `
module p0ram(clk, rst, din, dout, addr, wren, en);
	input clk;
	input rst;
	input [1:0] addr;
	input [7:0] din;
	input wren;
	input en;
	output [7:0] dout;
	reg [7:0] mem [0:3];
	reg [7:0] dout_i;
	always @ (posedge clk)
	begin : MEM_WRITE
		integer k;
		if (rst)
		begin
		end
		else if (wren)
			mem[addr] <= #1 din;
	end
	always @ (posedge clk)
	begin : MEM_READ
		if (!wren)
			dout_i <= #1 mem[addr];
	end
	assign dout = dout_i;
endmodule`

func TestRamReadAfterWrite(t *testing.T) {
	s := mustSim(t, ramSrc, "p0ram", nil)
	if !s.Has("MEM_WRITE.k") || s.Width("MEM_WRITE.k") != 32 {
		t.Fatalf("named block local missing: %v", s.Signals())
	}
	write := func(a, v uint64) {
		s.Set("addr", a)
		s.Set("din", v)
		s.Set("wren", 1)
		tick(t, s, "clk")
	}
	read := func(a uint64) uint64 {
		s.Set("addr", a)
		s.Set("wren", 0)
		tick(t, s, "clk")
		return s.Get("dout")
	}
	write(2, 0xab)
	// a write cycle does not update dout
	expect(t, s, "dout", 0)
	if s.GetMem("mem", 2) != 0xab {
		t.Fatalf("mem[2] = %x", s.GetMem("mem", 2))
	}
	write(0, 0x11)
	if got := read(2); got != 0xab {
		t.Fatalf("read(2) = %x", got)
	}
	if got := read(0); got != 0x11 {
		t.Fatalf("read(0) = %x", got)
	}
	if got := read(1); got != 0 {
		t.Fatalf("read(1) = %x", got)
	}
	// reset blocks writes
	s.Set("rst", 1)
	write(1, 0x77)
	s.Set("rst", 0)
	if got := read(1); got != 0 {
		t.Fatalf("write during rst went through: %x", got)
	}
	s.SetMem("mem", 3, 0x5a)
	if got := read(3); got != 0x5a {
		t.Fatalf("SetMem/read(3) = %x", got)
	}
}

func TestClockDivider(t *testing.T) {
	s := mustSim(t, `
module cd(input clk, output reg [7:0] slow);
  reg div;
  wire gated;
  initial div = 0;
  always @(posedge clk) div <= ~div;
  assign gated = div;
  always @(posedge gated) slow <= slow + 1;
endmodule`, "cd", nil)
	// div toggles every tick: rising on ticks 1,3,5...
	want := []uint64{1, 1, 2, 2, 3, 3, 4}
	for i, w := range want {
		tick(t, s, "clk")
		if got := s.Get("slow"); got != w {
			t.Fatalf("tick %d: slow=%d want %d", i+1, got, w)
		}
	}
}

func TestGenerateForInstances(t *testing.T) {
	s := mustSim(t, `
module inv #(parameter W = 1) (input [W-1:0] a, output [W-1:0] y);
  assign y = ~a;
endmodule
module g #(parameter N = 4) (input [N-1:0] a, output [N-1:0] y, output [N-1:0] z);
  genvar i;
  generate
    for (i = 0; i < N; i = i + 1) begin : blk
      wire t;
      inv u (.a(a[i]), .y(t));
      assign y[i] = t;
      if (i % 2 == 0) begin
        assign z[i] = a[i];
      end else begin
        assign z[i] = 1'b1;
      end
    end
  endgenerate
endmodule`, "g", nil)
	for _, n := range []string{"blk[0].t", "blk[3].t", "blk[2].u.a", "blk[1].u.y"} {
		if !s.Has(n) {
			t.Fatalf("missing %s in %v", n, s.Signals())
		}
	}
	s.Set("a", 0b1010)
	if err := s.Settle(); err != nil {
		t.Fatal(err)
	}
	expect(t, s, "y", 0b0101)
	expect(t, s, "z", 0b1010)
	s.Set("a", 0b0101)
	s.Settle()
	expect(t, s, "y", 0b1010)
	expect(t, s, "z", 0b1111)
}

func TestParameterOverride(t *testing.T) {
	src := `
module add #(parameter W = 4, parameter [7:0] K = 8'd1) (input [W-1:0] a, output [W:0] y);
  localparam W2 = W * 2;
  wire [W2-1:0] wide = {a, a};
  assign y = a + K;
endmodule
module top(input [7:0] a, output [8:0] y1, output [4:0] y2, output [12:0] y3);
  add #(.W(8), .K(8'd200)) u1 (.a(a), .y(y1));
  add u2 (.a(a[3:0]), .y(y2));
  add #(12) u3 (.a({4'hf, a}), .y(y3));
endmodule`
	s := mustSim(t, src, "top", nil)
	if s.Width("u1.wide") != 16 || s.Width("u2.wide") != 8 || s.Width("u3.wide") != 24 {
		t.Fatalf("widths %d %d %d", s.Width("u1.wide"), s.Width("u2.wide"), s.Width("u3.wide"))
	}
	s.Set("a", 100)
	s.Settle()
	expect(t, s, "y1", 300)
	expect(t, s, "y2", 5) // 100 & 15 = 4, + 1
	expect(t, s, "y3", 0xf64+1)
	// top-level parameter override through the API
	s2 := mustSim(t, src, "add", map[string]uint64{"W": 10, "K": 3})
	if s2.Width("a") != 10 || s2.Width("y") != 11 {
		t.Fatalf("override widths %d %d", s2.Width("a"), s2.Width("y"))
	}
	s2.Set("a", 1023)
	s2.Settle()
	expect(t, s2, "y", 1026)
	d, _ := ParseDesign(map[string]string{"t.v": src})
	if _, err := Elaborate(d, "add", map[string]uint64{"NOPE": 1}); err == nil {
		t.Fatal("unknown parameter accepted")
	}
}

func TestCasezWildcard(t *testing.T) {
	s := mustSim(t, `
module cz(input [3:0] a, output reg [2:0] y, output reg [2:0] x, output reg [2:0] p);
  localparam PAT = 4'b01??;
  always @* begin
    casez (a)
      4'b1???: y = 3'd4;
      4'b01??: y = 3'd3;
      4'b001?: y = 3'd2;
      4'b0001: y = 3'd1;
      default: y = 3'd0;
    endcase
    casex (a)
      4'bx1x0: x = 3'd1;
      4'b1zz1: x = 3'd2;
      default: x = 3'd7;
    endcase
    // plain case: wildcard digits are just zeros
    case (a)
      4'b01??: p = 3'd1;
      4'b1000, 4'b1001: p = 3'd2;
      default: p = 3'd0;
    endcase
    casez (a)
      PAT: p = p | 3'd4;
      default: ;
    endcase
  end
endmodule`, "cz", nil)
	wantY := func(a uint64) uint64 {
		switch {
		case a&8 != 0:
			return 4
		case a&4 != 0:
			return 3
		case a&2 != 0:
			return 2
		case a&1 != 0:
			return 1
		}
		return 0
	}
	for a := uint64(0); a < 16; a++ {
		s.Set("a", a)
		if err := s.Settle(); err != nil {
			t.Fatal(err)
		}
		expect(t, s, "y", wantY(a))
		wx := uint64(7)
		if a&4 != 0 && a&1 == 0 {
			wx = 1
		} else if a&8 != 0 && a&1 != 0 {
			wx = 2
		}
		expect(t, s, "x", wx)
		wp := uint64(0)
		if a == 4 {
			wp = 1
		}
		if a == 8 || a == 9 {
			wp = 2
		}
		if a>>2 == 1 {
			wp |= 4
		}
		expect(t, s, "p", wp)
	}
}

func TestWideConcatPartSelect(t *testing.T) {
	s := mustSim(t, `
module w(input clk, input [63:0] a, input [71:0] b, input [63:0] c, input [7:0] sh);
  reg [199:0] ctx;
  wire [199:0] cat = {a, b, c};
  wire [71:0] mid = cat[135:64];
  wire [199:0] shl = cat << sh;
  wire [199:0] shr = cat >> sh;
  wire [200:0] sum = cat + cat;
  wire        eq  = (cat == ctx);
  wire        lt  = (ctx < cat);
  wire [15:0] dyn = cat[sh +: 16];
  always @(posedge clk) begin
    ctx <= cat;
    ctx[7:0] <= 8'hee;
    ctx[199:192] <= a[7:0];
  end
endmodule`, "w", nil)
	a := uint64(0x0123456789abcdef)
	c := uint64(0xfedcba9876543210)
	b, _ := new(big.Int).SetString("a5a5a5a5a5a5a5a5c3", 16)
	s.Set("a", a)
	s.SetBig("b", b)
	s.Set("c", c)
	s.Set("sh", 68)
	tick(t, s, "clk")
	cat := new(big.Int).SetUint64(a)
	cat.Lsh(cat, 72).Or(cat, b)
	cat.Lsh(cat, 64).Or(cat, new(big.Int).SetUint64(c))
	if s.GetBig("cat").Cmp(cat) != 0 {
		t.Fatalf("cat = %x want %x", s.GetBig("cat"), cat)
	}
	if s.GetBig("mid").Cmp(b) != 0 {
		t.Fatalf("mid = %x want %x", s.GetBig("mid"), b)
	}
	m200 := new(big.Int).Sub(new(big.Int).Lsh(big.NewInt(1), 200), big.NewInt(1))
	wshl := new(big.Int).Lsh(cat, 68)
	wshl.And(wshl, m200)
	if s.GetBig("shl").Cmp(wshl) != 0 {
		t.Fatalf("shl = %x want %x", s.GetBig("shl"), wshl)
	}
	if s.GetBig("shr").Cmp(new(big.Int).Rsh(cat, 68)) != 0 {
		t.Fatalf("shr wrong")
	}
	if s.GetBig("sum").Cmp(new(big.Int).Lsh(cat, 1)) != 0 {
		t.Fatalf("sum = %x (201 bits must keep the carry)", s.GetBig("sum"))
	}
	wdyn := new(big.Int).Rsh(cat, 68)
	wdyn.And(wdyn, big.NewInt(0xffff))
	if s.GetBig("dyn").Cmp(wdyn) != 0 {
		t.Fatalf("dyn = %x want %x", s.GetBig("dyn"), wdyn)
	}
	// ctx: cat with low byte ee and top byte a[7:0]
	wctx := new(big.Int).Set(cat)
	wctx.AndNot(wctx, big.NewInt(0xff)).Or(wctx, big.NewInt(0xee))
	topm := new(big.Int).Lsh(big.NewInt(0xff), 192)
	wctx.AndNot(wctx, topm).Or(wctx, new(big.Int).Lsh(big.NewInt(int64(a&0xff)), 192))
	if s.GetBig("ctx").Cmp(wctx) != 0 {
		t.Fatalf("ctx = %x want %x", s.GetBig("ctx"), wctx)
	}
	expect(t, s, "eq", 0)
	wlt := uint64(0)
	if wctx.Cmp(cat) < 0 {
		wlt = 1
	}
	expect(t, s, "lt", wlt)
	if s.Width("ctx") != 200 {
		t.Fatal("width")
	}
	k1 := s.StateKey()
	cl := s.Clone()
	if cl.StateKey() != k1 {
		t.Fatal("clone state key differs")
	}
	cl.Set("a", 1)
	tick(t, cl, "clk")
	if cl.StateKey() == k1 || s.StateKey() != k1 {
		t.Fatal("clone is not independent")
	}
}

func TestSignedCompareAndShift(t *testing.T) {
	s := mustSim(t, `
module sg(input signed [7:0] a, input signed [7:0] b, input [7:0] u,
          output lt_s, output lt_mixed, output [7:0] sra, output [7:0] srl_mixed, output [7:0] sra_cast,
          output [15:0] ext_s, output [15:0] ext_u, output signed [15:0] neg, output [7:0] divs, output [7:0] mods);
  assign lt_s = a < b;              // signed compare
  assign lt_mixed = a < u;          // unsigned compare: one operand unsigned
  assign sra = a >>> 2;             // arithmetic
  assign srl_mixed = (a >>> 2) + u * 0 ; // unsigned context: logical shift
  assign sra_cast = $signed(u) >>> 1;
  assign ext_s = a;                 // sign extension
  assign ext_u = $unsigned(a);      // zero extension
  assign neg = -a;
  assign divs = a / b;
  assign mods = a % b;
endmodule`, "sg", nil)
	s.Set("a", 0xf0) // -16
	s.Set("b", 0x03) // 3
	s.Set("u", 0x90)
	s.Settle()
	expect(t, s, "lt_s", 1)
	expect(t, s, "lt_mixed", 0) // 0xf0 < 0x90 unsigned is false
	expect(t, s, "sra", 0xfc)
	expect(t, s, "srl_mixed", 0x3c)
	expect(t, s, "sra_cast", 0xc8)
	expect(t, s, "ext_s", 0xfff0)
	expect(t, s, "ext_u", 0x00f0)
	expect(t, s, "neg", 16)
	expect(t, s, "divs", 0xfb) // -16/3 = -5
	expect(t, s, "mods", 0xff) // -16%3 = -1
	if s.DivByZero != 1 {      // the initial all-zero evaluation divides by zero once per operator... a/b and a%b
		// two assigns evaluated once each with b==0 at time 0
		if s.DivByZero != 2 {
			t.Fatalf("DivByZero = %d", s.DivByZero)
		}
	}
	before := s.DivByZero
	s.Set("b", 0)
	s.Settle()
	expect(t, s, "divs", 0)
	expect(t, s, "mods", 0)
	if s.DivByZero != before+2 {
		t.Fatalf("DivByZero = %d want %d", s.DivByZero, before+2)
	}
}

func TestCarryIntoConcatLHS(t *testing.T) {
	s := mustSim(t, `
module cy(input clk, input [7:0] a, input [7:0] b);
  reg c; reg [7:0] r;
  reg [8:0] t9;
  reg [7:0] t8;
  reg bor; reg [7:0] d;
  always @(posedge clk) begin
    {c, r} <= a + b;
    t9 <= a + b;
    t8 <= (a + b) >> 1;     // 8-bit context: carry lost
    {bor, d} <= a - b;
  end
endmodule`, "cy", nil)
	s.Set("a", 200)
	s.Set("b", 100)
	tick(t, s, "clk")
	expect(t, s, "c", 1)
	expect(t, s, "r", 44)
	expect(t, s, "t9", 300)
	expect(t, s, "t8", 22) // (300 mod 256) >> 1
	expect(t, s, "bor", 0)
	expect(t, s, "d", 100)
	s.Set("a", 1)
	s.Set("b", 2)
	tick(t, s, "clk")
	expect(t, s, "c", 0)
	expect(t, s, "r", 3)
	expect(t, s, "bor", 1)
	expect(t, s, "d", 255)
}

func TestForLoopMemoryReset(t *testing.T) {
	s := mustSim(t, `
module fm(input clk, input rst, input [2:0] wa, input [7:0] wd, input we);
  reg [7:0] m [7:0];
  integer i;
  always @(posedge clk) begin
    if (rst) begin
      for (i = 0; i < 8; i = i + 1) m[i] <= i * 3;
    end else if (we) m[wa] <= wd;
  end
endmodule`, "fm", nil)
	s.Set("rst", 1)
	tick(t, s, "clk")
	for i := 0; i < 8; i++ {
		if s.GetMem("m", i) != uint64(i*3) {
			t.Fatalf("m[%d]=%d", i, s.GetMem("m", i))
		}
	}
	if !s.NBAWritten("m") {
		t.Fatal("NBAWritten(m)")
	}
	s.Set("rst", 0)
	s.Set("we", 1)
	s.Set("wa", 5)
	s.Set("wd", 99)
	tick(t, s, "clk")
	if s.GetMem("m", 5) != 99 || s.GetMem("m", 4) != 12 {
		t.Fatal("write")
	}
	lo, hi := s.MemRange("m")
	if lo != 0 || hi != 7 || s.Depth("m") != 8 {
		t.Fatalf("MemRange %d %d", lo, hi)
	}
}

func TestOutOfRangeAccess(t *testing.T) {
	s := mustSim(t, `
module oor(input clk, input [3:0] i, input [7:0] d, output [7:0] q, output b);
  reg [7:0] m [2:5];
  reg [7:0] v;
  assign q = m[i];
  assign b = v[i];
  always @(posedge clk) begin
    m[i] <= d;
    v[i] <= 1'b1;
  end
endmodule`, "oor", nil)
	s.Set("d", 0x42)
	for i := uint64(0); i < 16; i++ {
		s.Set("i", i)
		tick(t, s, "clk")
		if i >= 2 && i <= 5 {
			expect(t, s, "q", 0x42)
		} else {
			expect(t, s, "q", 0)
		}
		if i < 8 {
			expect(t, s, "b", 1)
		} else {
			expect(t, s, "b", 0)
		}
	}
	expect(t, s, "v", 0xff)
	if s.GetMem("m", 1) != 0 || s.GetMem("m", 2) != 0x42 || s.GetMem("m", 6) != 0 {
		t.Fatal("GetMem bounds")
	}
}

func TestCombLoopDetected(t *testing.T) {
	d, _ := ParseDesign(map[string]string{"t.v": `
module cl(input en, output y);
  wire a;
  assign a = en ? ~a : 1'b0;
  assign y = a;
endmodule`})
	s, err := Elaborate(d, "cl", nil)
	if err != nil {
		t.Fatal(err)
	}
	s.Set("en", 1)
	if err := s.Settle(); !errors.Is(err, ErrNoFixpoint) {
		t.Fatalf("want ErrNoFixpoint, got %v", err)
	}
}

func TestAlwaysStarSelfAssignNoLoop(t *testing.T) {
	s := mustSim(t, `
module ss(input [7:0] a, output reg [7:0] y, output reg [3:0] ones);
  integer i;
  always @* begin
    y = a;
    y = y + 1;     // reads and writes y: must not retrigger itself
    ones = 0;
    for (i = 0; i < 8; i = i + 1) ones = ones + a[i];
  end
endmodule`, "ss", nil)
	s.Set("a", 0x0f)
	if err := s.Settle(); err != nil {
		t.Fatal(err)
	}
	expect(t, s, "y", 0x10)
	expect(t, s, "ones", 4)
}

func TestUnsupportedConstructs(t *testing.T) {
	cases := map[string]string{
		"clockgen": `module tb; reg clk; always #1 clk = ~clk; endmodule`,
		"noevent":  `module tb; reg clk; always clk = ~clk; endmodule`,
		"wait":     `module tb(input a); reg r; always @(posedge a) begin @(negedge a); r = 1; end endmodule`,
		"readmem":  `module tb; reg [7:0] m [0:3]; initial $readmemh("x.hex", m); endmodule`,
		"hier":     `module c(input a); wire w; endmodule module tb(input a, output y); c u(a); assign y = u.w; endmodule`,
		"task":     `module tb(input a); task foo; begin end endtask endmodule`,
	}
	for name, src := range cases {
		d, diags := ParseDesign(map[string]string{"t.v": src})
		for _, dg := range diags {
			if dg.Class == ClassSyntax {
				t.Fatalf("%s: %v", name, dg)
			}
		}
		_, err := Elaborate(d, "tb", nil)
		if !errors.Is(err, ErrUnsupported) {
			t.Errorf("%s: want ErrUnsupported, got %v", name, err)
		}
	}
	// an unsupported module that is not instantiated is ignored
	d, _ := ParseDesign(map[string]string{"t.v": `
module tb; reg clk; always #1 clk = ~clk; initial begin $dumpfile("x"); #100 $finish; end endmodule
module dut(input a, output y); assign y = ~a; endmodule`})
	if _, err := Elaborate(d, "dut", nil); err != nil {
		t.Fatalf("dut: %v", err)
	}
}

func TestInitialBlockStopsAtDelay(t *testing.T) {
	s := mustSim(t, `
module ib(output reg [7:0] a, output reg [7:0] b);
  integer k;
  reg [7:0] rom [0:3];
  initial begin
    a = 8'd5;
    for (k = 0; k < 4; k = k + 1) rom[k] = k + 10;
    #10;
    a = 8'd6;   // never executed
  end
  initial b = rom[2];   // initial blocks run in order
endmodule`, "ib", nil)
	expect(t, s, "a", 5)
	expect(t, s, "b", 12)
}

func TestFunctionsAndPower(t *testing.T) {
	s := mustSim(t, `
module fn #(parameter M = 1000) (input [7:0] a, output [7:0] y, output [15:0] z);
  function integer log2(input integer v);
    integer i;
  begin
    log2 = 1;
    for (i = 0; 2**i <= v; i = i + 1)
      log2 = i + 1;
  end endfunction
  function [7:0] swap;
    input [7:0] x;
    begin
      swap = {x[3:0], x[7:4]};
    end
  endfunction
  localparam W = log2(M);
  reg [W-1:0] cnt;
  assign y = swap(a);
  assign z = 3 ** a[2:0];
endmodule`, "fn", nil)
	if s.Width("cnt") != 10 {
		t.Fatalf("log2(1000) width = %d", s.Width("cnt"))
	}
	s.Set("a", 0xa5)
	s.Settle()
	expect(t, s, "y", 0x5a)
	expect(t, s, "z", 243)
}

func TestDisplayCapture(t *testing.T) {
	s := mustSim(t, `
module dp(input clk, input [7:0] a);
  always @(posedge clk) begin
    $display("a=%d h=%h b=%b", a, a, a[3:0]);
    $write("x");
    $display("y %0d", a);
  end
endmodule`, "dp", nil)
	s.Set("a", 0x2a)
	tick(t, s, "clk")
	if len(s.Displays()) != 0 {
		t.Fatal("capture should be off by default")
	}
	s.CaptureDisplays = true
	tick(t, s, "clk")
	got := strings.Join(s.Displays(), "|")
	if got != "a= 42 h=2a b=1010|xy 42" {
		t.Fatalf("displays %q", got)
	}
}

func TestPortWidthMismatchAndExprConnections(t *testing.T) {
	s := mustSim(t, `
module sub(input [3:0] a, input [7:0] b, output [7:0] y, output [3:0] n);
  assign y = a + b;
  assign n = ~a;
endmodule
module top(input [7:0] a, input [3:0] b, output [7:0] y, output [7:0] n2);
  wire [1:0] nn;
  // a (8 bit) truncated to 4, b (4 bit) zero extended to 8, output n (4 bit) into 2-bit wire
  sub u(.a(a), .b(b), .y(y), .n(nn));
  sub v(.a(a[7:4]), .b({4'b0, b}), .y(n2), .n());
endmodule`, "top", nil)
	s.Set("a", 0xa7)
	s.Set("b", 0x9)
	s.Settle()
	expect(t, s, "y", 0x7+0x9)
	expect(t, s, "nn", 0)    // ~7 = 8 -> low 2 bits 00
	expect(t, s, "u.n", 0x8) // inside, full width
	expect(t, s, "n2", 0xa+0x9)
}

func TestNetArrayAndParamShift(t *testing.T) {
	s := mustSim(t, `
module na(input [7:0] a, input [7:0] b, input sel, output [7:0] y);
  parameter DEPTH = 1 << 3;
  wire [7:0] arr [0:2-1];
  reg [7:0] big [0:DEPTH-1];
  assign arr[0] = a;
  assign arr[1] = b;
  assign y = arr[sel];
endmodule`, "na", nil)
	if s.Depth("big") != 8 {
		t.Fatalf("depth %d", s.Depth("big"))
	}
	s.Set("a", 3)
	s.Set("b", 4)
	s.Settle()
	expect(t, s, "y", 3)
	s.Set("sel", 1)
	s.Settle()
	expect(t, s, "y", 4)
}

func TestAscendingRanges(t *testing.T) {
	s := mustSim(t, `
module asc(input [0:7] a, output [0:3] hi, output b0, output [3:0] p, output [0:7] w);
  reg [0:7] r;
  assign hi = a[0:3];      // most significant nibble
  assign b0 = a[0];        // MSB
  assign p = a[2 +: 4];    // a[2:5]
  always @* begin r = 8'h00; r[0] = 1'b1; r[6:7] = 2'b11; end
  assign w = r;
endmodule`, "asc", nil)
	s.Set("a", 0xb4) // 1011_0100
	s.Settle()
	expect(t, s, "hi", 0xb)
	expect(t, s, "b0", 1)
	expect(t, s, "p", 0xd) // bits a[2..5] = 1,1,0,1
	expect(t, s, "w", 0x83)
}
