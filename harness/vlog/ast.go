package vlog

import "math/big"

// ---------------------------------------------------------------- design

// Design is a set of parsed modules in definition order.
type Design struct {
	mods   map[string]*Module
	order  []string
	broken map[string]bool // module names whose body failed to parse
}

// ModuleNames returns module names in definition order.
func (d *Design) ModuleNames() []string {
	out := make([]string, len(d.order))
	copy(out, d.order)
	return out
}

// Module returns the AST of a module or nil.
func (d *Design) Module(name string) *Module {
	if d == nil {
		return nil
	}
	return d.mods[name]
}

// Module is a parsed module definition.
type Module struct {
	Name      string
	File      string
	Line      int
	ANSI      bool     // ANSI style port declarations in the header
	PortNames []string // header order
	Ports     []Port   // resolved from header/body declarations (header order)
	Items     []Item   // header parameters first, then body items in source order
	// Unsupported lists constructs outside the subset found while parsing
	// (the module is still available for lint, but cannot be elaborated).
	Unsupported []Diag
}

// Port describes a module port.
type Port struct {
	Name   string
	Dir    string // "input" "output" "inout" or "" when no direction declaration exists
	IsReg  bool
	Signed bool
	Range  *Range
	Width  int // 0 when the range is not a literal constant expression
	Line   int
}

// Range is [Left:Right].
type Range struct {
	Left, Right Expr
}

// ---------------------------------------------------------------- items

// Item is a module item.
type Item interface{ itemLine() int }

type itemBase struct{ Line int }

func (b itemBase) itemLine() int { return b.Line }

// DeclName is one declared identifier in a declaration list.
type DeclName struct {
	Name string
	Dims []Range // memory / array dimensions
	Init Expr    // declaration initialiser (reg) or net declaration assignment (wire)
	Line int
}

// DeclItem declares nets, variables or port directions.
type DeclItem struct {
	itemBase
	Kind   string // wire reg integer time real realtime genvar event tri ... or "" for pure port direction decls
	Dir    string // input output inout or ""
	IsReg  bool   // variable (reg / integer / output reg)
	Signed bool
	Range  *Range
	Names  []DeclName
}

// ParamDecl is one parameter or localparam.
type ParamDecl struct {
	itemBase
	Local   bool
	Signed  bool
	Integer bool
	Range   *Range
	Name    string
	Value   Expr
	Header  bool // declared in #( ... ) module header
}

// AssignItem is a continuous assignment.
type AssignItem struct {
	itemBase
	LHS, RHS Expr
}

// EventExpr is one entry of an event control list.
type EventExpr struct {
	Edge string // "posedge" "negedge" or "" (level / any change)
	X    Expr
}

// EventCtl is @(...) ; Star is @* / @(*).
type EventCtl struct {
	Star   bool
	Events []EventExpr
}

// AlwaysItem is an always block. Ctl is nil when there is no leading event control.
type AlwaysItem struct {
	itemBase
	Ctl  *EventCtl
	Body Stmt
}

// InitialItem is an initial block.
type InitialItem struct {
	itemBase
	Body Stmt
}

// Conn is a port or parameter connection.
type Conn struct {
	Name string // "" for positional
	X    Expr   // nil for unconnected
	Line int
}

// InstItem is a module instantiation.
type InstItem struct {
	itemBase
	ModName     string
	InstName    string
	Params      []Conn
	ParamsNamed bool
	Conns       []Conn
	Named       bool
	ArrayRange  *Range // instance arrays: unsupported
}

// GenRegion is generate ... endgenerate.
type GenRegion struct {
	itemBase
	Items []Item
}

// GenBlock is begin[:label] ... end inside a generate construct.
type GenBlock struct {
	itemBase
	Label string
	Items []Item
}

// GenFor is a generate for loop.
type GenFor struct {
	itemBase
	Var     string
	Init    Expr
	Cond    Expr
	StepVar string
	Step    Expr
	Label   string
	Items   []Item
}

// GenIf is a generate if.
type GenIf struct {
	itemBase
	Cond Expr
	Then *GenBlock
	Else *GenBlock // may be nil
}

// GenCaseItem is one arm of a generate case.
type GenCaseItem struct {
	Exprs []Expr // nil for default
	Body  *GenBlock
}

// GenCase is a generate case.
type GenCase struct {
	itemBase
	X     Expr
	Items []GenCaseItem
}

// FuncDecl is a function definition.
type FuncDecl struct {
	itemBase
	Name      string
	Signed    bool
	Integer   bool
	Range     *Range
	Args      []*DeclItem // inputs in order
	Locals    []*DeclItem
	Params    []*ParamDecl
	Body      Stmt
	Automatic bool
}

// UnsupportedItem marks a parsed-and-skipped construct.
type UnsupportedItem struct {
	itemBase
	What string
}

// ---------------------------------------------------------------- statements

// Stmt is a procedural statement.
type Stmt interface{ stmtLine() int }

type stmtBase struct{ Line int }

func (b stmtBase) stmtLine() int { return b.Line }

type BlockStmt struct {
	stmtBase
	Name   string
	Decls  []*DeclItem
	Params []*ParamDecl
	Stmts  []Stmt
}

type IfStmt struct {
	stmtBase
	Cond Expr
	Then Stmt // may be nil (null statement)
	Else Stmt // may be nil
}

type CaseItem struct {
	Exprs []Expr // nil → default
	Body  Stmt
	Line  int
}

type CaseStmt struct {
	stmtBase
	Kind  string // case casez casex
	X     Expr
	Items []CaseItem
}

type ForStmt struct {
	stmtBase
	Init *AssignStmt
	Cond Expr
	Step *AssignStmt
	Body Stmt
}

type WhileStmt struct {
	stmtBase
	Cond Expr
	Body Stmt
}

type RepeatStmt struct {
	stmtBase
	Count Expr
	Body  Stmt
}

type ForeverStmt struct {
	stmtBase
	Body Stmt
}

type AssignStmt struct {
	stmtBase
	LHS, RHS    Expr
	NonBlocking bool
	Delay       Expr      // intra-assignment delay (ignored)
	EventCtl    *EventCtl // intra-assignment event control (unsupported)
}

// DelayStmt is "#n stmt" (stmt may be nil).
type DelayStmt struct {
	stmtBase
	Delay Expr
	Body  Stmt
}

// EventStmt is "@(...) stmt" inside a procedural body.
type EventStmt struct {
	stmtBase
	Ctl  *EventCtl
	Body Stmt
}

type WaitStmt struct {
	stmtBase
	Cond Expr
	Body Stmt
}

type SysCallStmt struct {
	stmtBase
	Name string
	Args []Expr
}

type TaskCallStmt struct {
	stmtBase
	Name string
	Args []Expr
}

type DisableStmt struct {
	stmtBase
	Name string
}

// UnsupportedStmt marks fork/join, force, release, event trigger, ...
type UnsupportedStmt struct {
	stmtBase
	What string
}

type NullStmt struct{ stmtBase }

// ---------------------------------------------------------------- expressions

// Expr is an expression node.
type Expr interface{ exprLine() int }

type exprBase struct{ Line int }

func (b exprBase) exprLine() int { return b.Line }

// Ident is a (possibly hierarchical) name.
type Ident struct {
	exprBase
	Name string
	Hier []string // additional path components: a.b.c → Name=a Hier=[b c]
}

// NumberLit is an integer literal.
type NumberLit struct {
	exprBase
	Width   int
	Sized   bool
	Signed  bool
	Val     *big.Int // x/z bits are 0
	XMask   *big.Int
	ZMask   *big.Int // z and ? digits
	Text    string
	Base    byte
	Unbased bool // SystemVerilog '0 '1
	fillXZ  bool
	fillIsX bool
}

type RealLit struct {
	exprBase
	Text string
}

type StringLit struct {
	exprBase
	S string
}

type UnaryExpr struct {
	exprBase
	Op string
	X  Expr
}

type BinaryExpr struct {
	exprBase
	Op   string
	L, R Expr
}

type TernaryExpr struct {
	exprBase
	Cond, A, B Expr
}

type ConcatExpr struct {
	exprBase
	Parts []Expr
}

type ReplExpr struct {
	exprBase
	Count Expr
	Parts []Expr
}

// IndexExpr is X[Idx] (bit select or memory word select).
type IndexExpr struct {
	exprBase
	X   Expr
	Idx Expr
}

// PartExpr is X[Left:Right].
type PartExpr struct {
	exprBase
	X           Expr
	Left, Right Expr
}

// IdxPartExpr is X[Base +: Width] or X[Base -: Width].
type IdxPartExpr struct {
	exprBase
	X     Expr
	Base  Expr
	Width Expr
	Up    bool
}

// CallExpr is a function call or system function call.
type CallExpr struct {
	exprBase
	Name string
	Sys  bool
	Args []Expr
}

// MinTypMax a:b:c (unsupported)
type MinTypMaxExpr struct {
	exprBase
	A, B, C Expr
}
