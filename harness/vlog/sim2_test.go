package vlog

import (
	"math/big"
	"testing"
)

func TestDerivedClockByBlockingAssign(t *testing.T) {
	// gclk is produced with a blocking assignment inside a clocked block; the
	// block sensitive to it must run in the same time step, after the first one,
	// and must see the NBA-pending (old) value of d.
	s := mustSim(t, `
module dc(input clk, input en);
  reg gclk;
  reg [7:0] d, q, n;
  initial begin gclk = 0; d = 8'd1; end
  always @(posedge clk or negedge clk) begin
    if (clk) begin
      gclk = en;        // blocking: rises immediately
      d <= d + 8'd1;    // NBA: applied after the active region
    end else
      gclk = 0;
  end
  always @(posedge gclk) begin
    q <= d;           // old d (NBA of the first block not applied yet)
    n <= n + 8'd1;
  end
endmodule`, "dc", nil)
	s.Set("en", 1)
	tick(t, s, "clk")
	expect(t, s, "d", 2)
	expect(t, s, "q", 1)
	expect(t, s, "n", 1)
	tick(t, s, "clk")
	expect(t, s, "d", 3)
	expect(t, s, "q", 2)
	expect(t, s, "n", 2)
	s.Set("en", 0)
	tick(t, s, "clk")
	expect(t, s, "d", 4)
	expect(t, s, "n", 2)
}

func TestLevelSensitiveListAndFunctionSensitivity(t *testing.T) {
	s := mustSim(t, `
module ls(input [3:0] a, input [3:0] b, input [3:0] k, output reg [4:0] incomplete, output reg [4:0] full, output [4:0] viaf);
  function [4:0] addk;
    input [3:0] x;
    begin
      addk = x + k;   // reads module level k: callers must be sensitive to k
    end
  endfunction
  always @(a) incomplete = a + b;        // not sensitive to b (simulation semantics)
  always @(a or b) full = a + b;
  assign viaf = addk(a);
endmodule`, "ls", nil)
	s.Set("a", 1)
	s.Set("b", 2)
	s.Settle()
	expect(t, s, "incomplete", 3)
	expect(t, s, "full", 3)
	s.Set("b", 5)
	s.Settle()
	expect(t, s, "incomplete", 3) // stale by design
	expect(t, s, "full", 6)
	s.Set("a", 2)
	s.Settle()
	expect(t, s, "incomplete", 7)
	s.Set("k", 9)
	s.Settle()
	expect(t, s, "viaf", 11)
}

func TestNBAInCombinationalBlockAndChains(t *testing.T) {
	s := mustSim(t, `
module nc(input [7:0] a, output reg [7:0] y1, output reg [7:0] y2, output [7:0] y3);
  always @* y1 <= a + 8'd1;     // NBA in a combinational block
  always @* y2 = y1 + 8'd1;
  assign y3 = y2 + 8'd1;
endmodule`, "nc", nil)
	s.Set("a", 10)
	if err := s.Settle(); err != nil {
		t.Fatal(err)
	}
	expect(t, s, "y1", 11)
	expect(t, s, "y2", 12)
	expect(t, s, "y3", 13)
	if !s.NBAWritten("y1") || s.NBAWritten("y2") {
		t.Fatal("NBAWritten")
	}
}

func TestInoutAliasAndTristate(t *testing.T) {
	s := mustSim(t, `
module pad(inout [7:0] io, input oe, input [7:0] dout, output [7:0] din);
  assign io = oe ? dout : 8'bz;
  assign din = io;
endmodule
module top(inout [7:0] bus, input oe, input [7:0] v, output [7:0] r);
  pad p(.io(bus), .oe(oe), .dout(v), .din(r));
endmodule`, "top", nil)
	s.Set("v", 0x5a)
	s.Set("oe", 1)
	s.Settle()
	expect(t, s, "bus", 0x5a)
	expect(t, s, "r", 0x5a)
	s.Set("oe", 0)
	s.Settle()
	expect(t, s, "bus", 0) // documented: z reads as 0
}

func TestWideMemoryAndWideCase(t *testing.T) {
	s := mustSim(t, `
module wm(input clk, input [1:0] wa, input [1:0] ra, input [129:0] wd, input we, output [129:0] rd, output [7:0] slice, output reg [1:0] cls);
  reg [129:0] m [0:3];
  always @(posedge clk) if (we) m[wa] <= wd;
  assign rd = m[ra];
  assign slice = m[ra][71:64];
  always @* begin
    case (rd)
      130'h0: cls = 2'd0;
      130'h2_0000_0000_0000_0000_0000_0000_0000_0001: cls = 2'd1;
      default: cls = 2'd2;
    endcase
  end
endmodule`, "wm", nil)
	v, _ := new(big.Int).SetString("200000000000000000000000000000001", 16)
	s.SetBig("wd", v)
	s.Set("wa", 2)
	s.Set("we", 1)
	tick(t, s, "clk")
	s.Set("we", 0)
	s.Set("ra", 2)
	s.Settle()
	if s.GetBig("rd").Cmp(v) != 0 {
		t.Fatalf("rd=%x", s.GetBig("rd"))
	}
	if s.GetMemBig("m", 2).Cmp(v) != 0 {
		t.Fatal("GetMemBig")
	}
	expect(t, s, "cls", 1)
	s.Set("ra", 1)
	s.Settle()
	expect(t, s, "cls", 0)
	w, _ := new(big.Int).SetString("3ab0000000000000000", 16)
	s.SetBig("wd", w)
	s.Set("wa", 1)
	s.Set("we", 1)
	tick(t, s, "clk")
	expect(t, s, "cls", 2)
	expect(t, s, "slice", 0xab)
}

func TestIntegerAndParameterSigns(t *testing.T) {
	s := mustSim(t, `
module ip(input [7:0] u, output reg neg, output reg [31:0] cnt, output [7:0] p1, output [7:0] p2, output lt1, output lt2, output [15:0] e1, output [15:0] e2);
  parameter P = -1;               // 32 bit signed
  localparam [3:0] Q = -1;        // 4'hf unsigned
  localparam signed [3:0] R = -1; // signed
  integer i;
  always @* begin
    i = -3;
    neg = (i < 0);
    cnt = 0;
    for (i = -3; i < 2; i = i + 1) cnt = cnt + 1;
  end
  assign p1 = P;     // ff
  assign p2 = Q;     // 0f
  assign lt1 = (P < 0);
  assign lt2 = (Q < 0);
  assign e1 = R;     // sign extended: ffff
  assign e2 = Q;     // 000f
endmodule`, "ip", nil)
	s.Settle()
	expect(t, s, "neg", 1)
	expect(t, s, "cnt", 5)
	expect(t, s, "p1", 0xff)
	expect(t, s, "p2", 0x0f)
	expect(t, s, "lt1", 1)
	expect(t, s, "lt2", 0)
	expect(t, s, "e1", 0xffff)
	expect(t, s, "e2", 0x000f)
}

func TestPortAliasWithDifferentRange(t *testing.T) {
	s := mustSim(t, `
module ch(input [7:0] a, output [3:0] hi, output b0);
  assign hi = a[7:4];
  assign b0 = a[0];
endmodule
module top(input [8:1] x, output [3:0] hi, output b0, output t8);
  ch c(.a(x), .hi(hi), .b0(b0));
  assign t8 = x[8];
endmodule`, "top", nil)
	s.Set("x", 0x93)
	s.Settle()
	expect(t, s, "hi", 9)
	expect(t, s, "b0", 1)
	expect(t, s, "t8", 1)
	expect(t, s, "c.a", 0x93) // aliased storage
}

func TestCloneIsolationAndStateKey(t *testing.T) {
	s := mustSim(t, `
module ck(input clk, input [3:0] d, output reg [3:0] q, output [3:0] w);
  reg [3:0] m [0:1];
  always @(posedge clk) begin q <= d; m[d[0]] <= d; end
  assign w = q ^ 4'hf;
endmodule`, "ck", nil)
	s.Set("d", 3)
	tick(t, s, "clk")
	a := s.Clone()
	b := s.Clone()
	if a.StateKey() != b.StateKey() || a.StateKey() != s.StateKey() {
		t.Fatal("clones must have equal keys")
	}
	a.Set("d", 4)
	tick(t, a, "clk")
	expect(t, a, "q", 4)
	expect(t, a, "w", 0xb)
	expect(t, b, "q", 3)
	expect(t, s, "q", 3)
	if a.StateKey() == b.StateKey() {
		t.Fatal("keys must differ")
	}
	b.Set("d", 4)
	tick(t, b, "clk")
	if a.StateKey() != b.StateKey() {
		t.Fatal("same history must give the same key")
	}
	// memory contents are part of the key
	b.SetMem("m", 1, 9)
	if a.StateKey() == b.StateKey() {
		t.Fatal("memory must be part of the key")
	}
	// inputs are part of the key
	c := a.Clone()
	c.Set("d", 7)
	if c.StateKey() == a.StateKey() {
		t.Fatal("forced inputs must be part of the key")
	}
}

func TestEdgeHelperAndNegedge(t *testing.T) {
	s := mustSim(t, `
module ng(input clk, output reg [3:0] p, output reg [3:0] n);
  always @(posedge clk) p <= p + 1;
  always @(negedge clk) n <= n + 2;
endmodule`, "ng", nil)
	if err := s.Edge("clk", 1); err != nil {
		t.Fatal(err)
	}
	expect(t, s, "p", 1)
	expect(t, s, "n", 0)
	if err := s.Edge("clk", 0); err != nil {
		t.Fatal(err)
	}
	expect(t, s, "n", 2)
	// setting the same value again is not an edge
	s.Edge("clk", 0)
	expect(t, s, "n", 2)
	// a 0→1→0 glitch without Settle in between is not observed
	s.Set("clk", 1)
	s.Set("clk", 0)
	s.Settle()
	expect(t, s, "p", 1)
}
