package vlog

import (
	"fmt"
	"math/bits"
)

// constVal is an elaboration-time constant.
type constVal struct {
	w      int
	signed bool
	v      []uint64 // nwords(w) limbs
	x, z   []uint64 // x / z masks of the originating literal (may be nil)
}

func (c *constVal) u64() uint64 { return c.v[0] }

// int64Val returns the value as int64 (sign aware) and whether it fits.
func (c *constVal) int64Val() (int64, bool) {
	if c.w <= 64 {
		if c.signed {
			return sext64(c.v[0], c.w), true
		}
		if c.v[0] > 1<<62 {
			return 0, false
		}
		return int64(c.v[0]), true
	}
	if c.signed && wSignBit(c.v, c.w) {
		// negative wide: check fits
		for i := 1; i < len(c.v); i++ {
			top := ^uint64(0)
			if i == len(c.v)-1 {
				top = mask64(c.w - i*64)
			}
			if c.v[i] != top {
				return 0, false
			}
		}
		if c.v[0]>>63 == 0 {
			return 0, false
		}
		return int64(c.v[0]), true
	}
	lo, ok := wFitsU64(c.v)
	if !ok || lo > 1<<62 {
		return 0, false
	}
	return int64(lo), true
}

func constFromInt(v int64) *constVal {
	return &constVal{w: 32, signed: true, v: []uint64{uint64(v) & mask64(32)}}
}

// cexpr is a compiled expression of a fixed width.
type cexpr struct {
	w       int
	signed  bool
	n       func(*Sim) uint64   // w <= 64
	wd      func(*Sim) []uint64 // w > 64 ; result must not be modified by the caller
	isConst bool
}

type tkind int

const (
	tkConst tkind = iota
	tkSig
	tkSel    // select on a signal / memory
	tkValSel // select on an arbitrary value (parameter ...)
	tkUnary  // + - ~
	tkReduce // & | ^ ~& ~| ~^
	tkLogNot // !
	tkBin    // + - * / % & | ^ ~^
	tkShift  // << >> <<< >>>
	tkPow    // **
	tkCmp    // < <= > >= == != === !==
	tkLogic  // && ||
	tkTern   // ?:
	tkConcat // {a,b}
	tkRepl   // {n{a,b}}
	tkCast   // $signed $unsigned
	tkCall   // user function
	tkClog2  // $clog2
)

// tnode is the typed (self-determined width / sign) expression tree.
type tnode struct {
	kind   tkind
	op     string
	w      int
	signed bool
	kids   []*tnode
	line   int

	cv *constVal
	sv *svar

	// select description
	wordIdx *tnode // memory element index
	selKind int    // 0 none 1 bit 2 const part 3 indexed part
	idx     *tnode // bit index or indexed-part base
	pLeft   int    // const part bounds
	pRight  int
	up      bool
	count   int // replication count

	fn *funcInst
}

type compileErr struct {
	err error
}

func cfail(line int, unsupported bool, format string, a ...interface{}) {
	msg := fmt.Sprintf(format, a...)
	if line > 0 {
		msg = fmt.Sprintf("line %d: %s", line, msg)
	}
	if unsupported {
		panic(&compileErr{fmt.Errorf("%w: %s", ErrUnsupported, msg)})
	}
	panic(&compileErr{fmt.Errorf("%w: %s", ErrElab, msg)})
}

// compiler holds per-process compilation context.
type compiler struct {
	el        *elab
	sc        *scope
	reads     map[int]bool // storage ids read
	constOnly bool         // constant expression context: no signal reads allowed
	fn        *funcInst    // function being compiled (its locals may be read in const context)
}

func (c *compiler) noteRead(st *storage) {
	if st.local {
		return
	}
	if c.reads != nil {
		c.reads[st.id] = true
	}
}

// ------------------------------------------------------------------ analysis

func max(a, b int) int {
	if a > b {
		return a
	}
	return b
}

func (c *compiler) analyze(e Expr) *tnode {
	switch x := e.(type) {
	case *NumberLit:
		cv := &constVal{w: x.Width, signed: x.Signed, v: make([]uint64, nwords(x.Width))}
		bigToLimbs(cv.v, x.Width, x.Val)
		if x.XMask.Sign() != 0 {
			cv.x = make([]uint64, nwords(x.Width))
			bigToLimbs(cv.x, x.Width, x.XMask)
		}
		if x.ZMask.Sign() != 0 {
			cv.z = make([]uint64, nwords(x.Width))
			bigToLimbs(cv.z, x.Width, x.ZMask)
		}
		return &tnode{kind: tkConst, w: cv.w, signed: cv.signed, cv: cv, line: x.Line}
	case *RealLit:
		cfail(x.Line, true, "real literal %s", x.Text)
	case *StringLit:
		w := 8 * len(x.S)
		if w == 0 {
			w = 8
		}
		cv := &constVal{w: w, v: make([]uint64, nwords(w))}
		for i := 0; i < len(x.S); i++ {
			b := x.S[len(x.S)-1-i]
			cv.v[i/8] |= uint64(b) << (uint(i%8) * 8)
		}
		return &tnode{kind: tkConst, w: w, cv: cv, line: x.Line}
	case *Ident:
		return c.analyzeIdent(x)
	case *IndexExpr, *PartExpr, *IdxPartExpr:
		return c.analyzeSelect(e)
	case *UnaryExpr:
		k := c.analyze(x.X)
		switch x.Op {
		case "+", "-", "~":
			return &tnode{kind: tkUnary, op: x.Op, w: k.w, signed: k.signed, kids: []*tnode{k}, line: x.Line}
		case "!":
			return &tnode{kind: tkLogNot, w: 1, kids: []*tnode{k}, line: x.Line}
		case "&", "|", "^", "~&", "~|", "~^", "^~":
			return &tnode{kind: tkReduce, op: x.Op, w: 1, kids: []*tnode{k}, line: x.Line}
		}
		cfail(x.Line, true, "unary operator %s", x.Op)
	case *BinaryExpr:
		l := c.analyze(x.L)
		r := c.analyze(x.R)
		switch x.Op {
		case "+", "-", "*", "/", "%", "&", "|", "^", "~^", "^~":
			return &tnode{kind: tkBin, op: x.Op, w: max(l.w, r.w), signed: l.signed && r.signed, kids: []*tnode{l, r}, line: x.Line}
		case "<<", ">>", "<<<", ">>>":
			return &tnode{kind: tkShift, op: x.Op, w: l.w, signed: l.signed, kids: []*tnode{l, r}, line: x.Line}
		case "**":
			return &tnode{kind: tkPow, op: x.Op, w: l.w, signed: l.signed, kids: []*tnode{l, r}, line: x.Line}
		case "<", "<=", ">", ">=", "==", "!=", "===", "!==":
			return &tnode{kind: tkCmp, op: x.Op, w: 1, kids: []*tnode{l, r}, line: x.Line}
		case "&&", "||":
			return &tnode{kind: tkLogic, op: x.Op, w: 1, kids: []*tnode{l, r}, line: x.Line}
		}
		cfail(x.Line, true, "binary operator %s", x.Op)
	case *TernaryExpr:
		cd := c.analyze(x.Cond)
		a := c.analyze(x.A)
		b := c.analyze(x.B)
		return &tnode{kind: tkTern, w: max(a.w, b.w), signed: a.signed && b.signed, kids: []*tnode{cd, a, b}, line: x.Line}
	case *ConcatExpr:
		t := &tnode{kind: tkConcat, line: x.Line}
		for _, p := range x.Parts {
			k := c.analyze(p)
			if n, ok := p.(*NumberLit); ok && !n.Sized {
				// unsized constants are illegal in concatenations; tools accept them as 32 bit
				_ = n
			}
			t.kids = append(t.kids, k)
			t.w += k.w
		}
		return t
	case *ReplExpr:
		cv := c.constEval(x.Count)
		n, ok := cv.int64Val()
		if !ok || n < 0 || n > 1<<20 {
			cfail(x.Line, false, "bad replication count")
		}
		t := &tnode{kind: tkRepl, line: x.Line, count: int(n)}
		iw := 0
		for _, p := range x.Parts {
			k := c.analyze(p)
			t.kids = append(t.kids, k)
			iw += k.w
		}
		t.w = iw * int(n)
		if t.w == 0 {
			cfail(x.Line, true, "zero-width replication")
		}
		return t
	case *CallExpr:
		return c.analyzeCall(x)
	case *MinTypMaxExpr:
		cfail(x.Line, true, "min:typ:max expression")
	case nil:
		cfail(0, false, "missing expression")
	}
	cfail(e.exprLine(), true, "expression form %T", e)
	return nil
}

func (c *compiler) analyzeIdent(x *Ident) *tnode {
	if len(x.Hier) > 0 {
		cfail(x.Line, true, "hierarchical reference %s", x.Name)
	}
	o := c.sc.lookup(x.Name)
	if o == nil {
		cfail(x.Line, false, "undeclared identifier %q", x.Name)
	}
	switch o.kind {
	case okParam:
		if o.cv == nil {
			cfail(x.Line, false, "genvar %q used outside of its generate loop", x.Name)
		}
		return &tnode{kind: tkConst, w: o.cv.w, signed: o.cv.signed, cv: o.cv, line: x.Line}
	case okSig:
		sv := o.sv
		if sv.st.isMem {
			cfail(x.Line, false, "memory %q used without an index", x.Name)
		}
		c.checkSigRead(sv, x.Line, x.Name)
		return &tnode{kind: tkSig, w: sv.st.width, signed: sv.signed, sv: sv, line: x.Line}
	case okFunc:
		// inside the function body the name denotes the return variable
		if c.fn != nil && c.fn == o.fn && o.fn.ret != nil {
			sv := o.fn.ret
			return &tnode{kind: tkSig, w: sv.st.width, signed: sv.signed, sv: sv, line: x.Line}
		}
		// call without arguments
		return c.analyzeCall(&CallExpr{exprBase: x.exprBase, Name: x.Name})
	}
	cfail(x.Line, false, "%q is not a value", x.Name)
	return nil
}

func (c *compiler) checkSigRead(sv *svar, line int, name string) {
	if c.constOnly && !sv.st.local {
		cfail(line, false, "signal %q used in a constant expression", name)
	}
	c.noteRead(sv.st)
}

func (c *compiler) analyzeSelect(e Expr) *tnode {
	// unwind the select chain
	var chain []Expr
	base := e
	for {
		switch x := base.(type) {
		case *IndexExpr:
			chain = append(chain, x)
			base = x.X
			continue
		case *PartExpr:
			chain = append(chain, x)
			base = x.X
			continue
		case *IdxPartExpr:
			chain = append(chain, x)
			base = x.X
			continue
		}
		break
	}
	// chain is outermost first; reverse to innermost first
	for i, j := 0, len(chain)-1; i < j; i, j = i+1, j-1 {
		chain[i], chain[j] = chain[j], chain[i]
	}
	line := e.exprLine()
	id, ok := base.(*Ident)
	if !ok {
		cfail(line, true, "select on a non-identifier expression")
	}
	if len(id.Hier) > 0 {
		cfail(line, true, "hierarchical reference %s", id.Name)
	}
	o := c.sc.lookup(id.Name)
	if o == nil {
		cfail(line, false, "undeclared identifier %q", id.Name)
	}
	if o.kind == okFunc && c.fn != nil && c.fn == o.fn && o.fn.ret != nil {
		o = &object{kind: okSig, sv: o.fn.ret}
	}
	t := &tnode{line: line}
	var elemW int
	var left, right int
	switch o.kind {
	case okSig:
		sv := o.sv
		c.checkSigRead(sv, line, id.Name)
		t.kind = tkSel
		t.sv = sv
		elemW = sv.st.width
		left, right = sv.left, sv.right
		if sv.st.isMem {
			ix, ok := chain[0].(*IndexExpr)
			if !ok {
				cfail(line, false, "memory %q needs a word index before a part select", id.Name)
			}
			t.wordIdx = c.analyze(ix.Idx)
			chain = chain[1:]
		}
	case okParam:
		if o.cv == nil {
			cfail(line, false, "genvar %q used outside of its generate loop", id.Name)
		}
		t.kind = tkValSel
		t.kids = []*tnode{{kind: tkConst, w: o.cv.w, signed: o.cv.signed, cv: o.cv, line: line}}
		elemW = o.cv.w
		left, right = elemW-1, 0
	default:
		cfail(line, false, "%q cannot be indexed", id.Name)
	}
	if len(chain) > 1 {
		cfail(line, true, "multi-dimensional select on %q", id.Name)
	}
	if len(chain) == 0 {
		t.w = elemW
		t.signed = false
		if t.sv != nil {
			t.signed = t.sv.signed // a whole memory word keeps the declared sign
		}
		return t
	}
	// for tkValSel store the base range in pLeft/pRight of a pseudo svar
	if t.kind == tkValSel {
		t.sv = &svar{left: left, right: right}
	}
	switch x := chain[0].(type) {
	case *IndexExpr:
		t.selKind = 1
		t.idx = c.analyze(x.Idx)
		t.w = 1
	case *PartExpr:
		l, ok1 := c.constEval(x.Left).int64Val()
		r, ok2 := c.constEval(x.Right).int64Val()
		if !ok1 || !ok2 {
			cfail(line, false, "part select bounds out of range")
		}
		t.selKind = 2
		t.pLeft, t.pRight = int(l), int(r)
		// direction must match the declaration
		if left >= right && l < r || left < right && l > r {
			cfail(line, false, "part select [%d:%d] of %q is reversed with respect to its declaration", l, r, id.Name)
		}
		d := l - r
		if d < 0 {
			d = -d
		}
		if d >= 1<<24 {
			cfail(line, false, "part select too wide")
		}
		t.w = int(d) + 1
	case *IdxPartExpr:
		wv, ok := c.constEval(x.Width).int64Val()
		if !ok || wv <= 0 || wv >= 1<<24 {
			cfail(line, false, "bad indexed part select width")
		}
		t.selKind = 3
		t.idx = c.analyze(x.Base)
		t.up = x.Up
		t.w = int(wv)
	}
	return t
}

func (c *compiler) analyzeCall(x *CallExpr) *tnode {
	if x.Sys {
		switch x.Name {
		case "$signed", "$unsigned":
			if len(x.Args) != 1 {
				cfail(x.Line, false, "%s needs one argument", x.Name)
			}
			k := c.analyze(x.Args[0])
			return &tnode{kind: tkCast, op: x.Name, w: k.w, signed: x.Name == "$signed", kids: []*tnode{k}, line: x.Line}
		case "$clog2":
			if len(x.Args) != 1 {
				cfail(x.Line, false, "$clog2 needs one argument")
			}
			k := c.analyze(x.Args[0])
			return &tnode{kind: tkClog2, w: 32, signed: true, kids: []*tnode{k}, line: x.Line}
		case "$time", "$stime", "$realtime":
			w := 64
			if x.Name == "$stime" {
				w = 32
			}
			return &tnode{kind: tkConst, w: w, cv: &constVal{w: w, v: make([]uint64, 1)}, line: x.Line}
		case "$bits":
			if len(x.Args) == 1 {
				k := c.analyze(x.Args[0])
				return &tnode{kind: tkConst, w: 32, signed: true, cv: constFromInt(int64(k.w)), line: x.Line}
			}
		}
		cfail(x.Line, true, "system function %s", x.Name)
	}
	o := c.sc.lookup(x.Name)
	if o == nil {
		cfail(x.Line, false, "undeclared function %q", x.Name)
	}
	if o.kind != okFunc {
		cfail(x.Line, false, "%q is not a function", x.Name)
	}
	fi := o.fn
	c.el.compileFunc(fi, x.Line)
	if len(x.Args) != len(fi.args) {
		cfail(x.Line, false, "function %q called with %d arguments, wants %d", x.Name, len(x.Args), len(fi.args))
	}
	t := &tnode{kind: tkCall, w: fi.ret.st.width, signed: fi.ret.signed, fn: fi, line: x.Line}
	for _, a := range x.Args {
		t.kids = append(t.kids, c.analyze(a))
	}
	for id := range fi.reads {
		if c.constOnly {
			cfail(x.Line, false, "function %q reads signals and cannot be used in a constant expression", x.Name)
		}
		if c.reads != nil {
			c.reads[id] = true
		}
	}
	return t
}

// ------------------------------------------------------------------ generation helpers

func (c *compiler) scratch(nw int) int {
	o := c.el.prog.scratchSize
	c.el.prog.scratchSize += nw
	return o
}

func constCexpr(w int, signed bool, limbs []uint64) cexpr {
	if w <= 64 {
		v := limbs[0] & mask64(w)
		return cexpr{w: w, signed: signed, isConst: true, n: func(*Sim) uint64 { return v }}
	}
	l := make([]uint64, nwords(w))
	copy(l, limbs)
	wmaskTop(l, w)
	return cexpr{w: w, signed: signed, isConst: true, wd: func(*Sim) []uint64 { return l }}
}

// resize converts x to width W (zero / sign extension or truncation).
func (c *compiler) resize(x cexpr, W int, sx bool) cexpr {
	if x.w == W {
		return x
	}
	out := cexpr{w: W, signed: x.signed, isConst: x.isConst}
	if W < x.w {
		// truncate
		if x.w <= 64 {
			m := mask64(W)
			f := x.n
			out.n = func(s *Sim) uint64 { return f(s) & m }
		} else if W <= 64 {
			m := mask64(W)
			f := x.wd
			out.n = func(s *Sim) uint64 { return f(s)[0] & m }
		} else {
			nw := nwords(W)
			o := c.scratch(nw)
			f := x.wd
			out.wd = func(s *Sim) []uint64 {
				buf := s.scratch[o : o+nw]
				copy(buf, f(s))
				wmaskTop(buf, W)
				return buf
			}
		}
		return c.fold(out)
	}
	// extend
	if W <= 64 {
		f := x.n
		if !sx {
			out.n = f
			return out
		}
		xw := x.w
		m := mask64(W)
		out.n = func(s *Sim) uint64 { return uint64(sext64(f(s), xw)) & m }
		return c.fold(out)
	}
	nw := nwords(W)
	o := c.scratch(nw)
	xw := x.w
	if x.w <= 64 {
		f := x.n
		out.wd = func(s *Sim) []uint64 {
			buf := s.scratch[o : o+nw]
			wExt64(buf, W, f(s), xw, sx)
			return buf
		}
	} else {
		f := x.wd
		out.wd = func(s *Sim) []uint64 {
			buf := s.scratch[o : o+nw]
			wExt(buf, W, f(s), xw, sx)
			return buf
		}
	}
	return c.fold(out)
}

// fold evaluates constant expressions at compile time.
func (c *compiler) fold(x cexpr) cexpr {
	if !x.isConst {
		return x
	}
	s := c.el.sim
	c.el.ensureSim()
	dz := s.DivByZero
	if x.w <= 64 {
		v := x.n(s)
		if s.DivByZero != dz {
			s.DivByZero = dz
			x.isConst = false // keep the run-time counter behaviour
			return x
		}
		return constCexpr(x.w, x.signed, []uint64{v})
	}
	v := x.wd(s)
	if s.DivByZero != dz {
		s.DivByZero = dz
		x.isConst = false
		return x
	}
	return constCexpr(x.w, x.signed, v)
}

// toBool returns a closure testing x != 0.
func toBool(x cexpr) func(*Sim) bool {
	if x.w <= 64 {
		f := x.n
		return func(s *Sim) bool { return f(s) != 0 }
	}
	f := x.wd
	return func(s *Sim) bool { return !wIsZero(f(s)) }
}

// toIndex returns a closure producing the value as int64 plus a validity flag
// (false when the value is too large to be a sensible index).
func toIndex(x cexpr) func(*Sim) (int64, bool) {
	if x.w <= 64 {
		f := x.n
		if x.signed {
			w := x.w
			return func(s *Sim) (int64, bool) {
				v := sext64(f(s), w)
				if v < -(1 << 62) {
					v = -(1 << 62)
				} else if v >= 1<<62 {
					return 0, false
				}
				return v, true
			}
		}
		return func(s *Sim) (int64, bool) {
			v := f(s)
			if v >= 1<<62 {
				return 0, false
			}
			return int64(v), true
		}
	}
	f := x.wd
	w := x.w
	signed := x.signed
	return func(s *Sim) (int64, bool) {
		l := f(s)
		if signed && wSignBit(l, w) {
			// negative: exact when it fits in int64, otherwise "very negative"
			for i := 1; i < len(l); i++ {
				top := ^uint64(0)
				if i == len(l)-1 {
					top = mask64(w - i*64)
				}
				if l[i] != top {
					return -(1 << 62), true
				}
			}
			if l[0]>>63 == 0 || int64(l[0]) < -(1<<62) {
				return -(1 << 62), true
			}
			return int64(l[0]), true
		}
		lo, ok := wFitsU64(l)
		if !ok || lo >= 1<<62 {
			return 0, false
		}
		return int64(lo), true
	}
}

// ------------------------------------------------------------------ generation

// genSelf compiles t at its self-determined width and sign.
func (c *compiler) genSelf(t *tnode) cexpr { return c.gen(t, t.w, t.signed) }

// genCtx compiles t in an assignment-like context of width lw: the
// expression is evaluated at max(lw, self width) and then truncated to lw.
func (c *compiler) genAssign(t *tnode, lw int) cexpr {
	W := max(lw, t.w)
	x := c.gen(t, W, t.signed)
	return c.resize(x, lw, false)
}

// gen compiles t in a context of width W (>= t.w) and sign S.
func (c *compiler) gen(t *tnode, W int, S bool) cexpr {
	if W < t.w {
		W = t.w
	}
	switch t.kind {
	case tkUnary:
		k := c.gen(t.kids[0], W, S)
		return c.fold(c.genUnary(t.op, k, W, S))
	case tkBin:
		l := c.gen(t.kids[0], W, S)
		r := c.gen(t.kids[1], W, S)
		return c.fold(c.genBin(t.op, l, r, W, S))
	case tkShift:
		l := c.gen(t.kids[0], W, S)
		r := c.genSelf(t.kids[1])
		return c.fold(c.genShift(t.op, l, r, W, S))
	case tkPow:
		l := c.gen(t.kids[0], W, S)
		r := c.genSelf(t.kids[1])
		return c.fold(c.genPow(l, r, W, S, t.line))
	case tkTern:
		cx := c.genSelf(t.kids[0])
		cd := toBool(cx)
		a := c.gen(t.kids[1], W, S)
		b := c.gen(t.kids[2], W, S)
		out := cexpr{w: W, signed: S}
		out.isConst = cx.isConst && a.isConst && b.isConst
		if W <= 64 {
			fa, fb := a.n, b.n
			out.n = func(s *Sim) uint64 {
				if cd(s) {
					return fa(s)
				}
				return fb(s)
			}
		} else {
			fa, fb := a.wd, b.wd
			out.wd = func(s *Sim) []uint64 {
				if cd(s) {
					return fa(s)
				}
				return fb(s)
			}
		}
		return c.fold(out)
	}
	// self-determined operand: compile at own width, then extend
	x := c.genOperand(t)
	x.signed = S
	return c.resize(x, W, S)
}

func (c *compiler) genUnary(op string, k cexpr, W int, S bool) cexpr {
	out := cexpr{w: W, signed: S, isConst: k.isConst}
	if W <= 64 {
		f := k.n
		m := mask64(W)
		switch op {
		case "+":
			out.n = f
		case "-":
			out.n = func(s *Sim) uint64 { return (-f(s)) & m }
		case "~":
			out.n = func(s *Sim) uint64 { return (^f(s)) & m }
		}
		return out
	}
	f := k.wd
	if op == "+" {
		out.wd = f
		return out
	}
	nw := nwords(W)
	o := c.scratch(nw)
	if op == "-" {
		out.wd = func(s *Sim) []uint64 {
			buf := s.scratch[o : o+nw]
			wNeg(buf, f(s), W)
			return buf
		}
	} else {
		out.wd = func(s *Sim) []uint64 {
			buf := s.scratch[o : o+nw]
			wNot(buf, f(s), W)
			return buf
		}
	}
	return out
}

func (c *compiler) genBin(op string, l, r cexpr, W int, S bool) cexpr {
	out := cexpr{w: W, signed: S, isConst: l.isConst && r.isConst}
	if W <= 64 {
		a, b := l.n, r.n
		m := mask64(W)
		switch op {
		case "+":
			out.n = func(s *Sim) uint64 { return (a(s) + b(s)) & m }
		case "-":
			out.n = func(s *Sim) uint64 { return (a(s) - b(s)) & m }
		case "*":
			out.n = func(s *Sim) uint64 { return (a(s) * b(s)) & m }
		case "&":
			out.n = func(s *Sim) uint64 { return a(s) & b(s) }
		case "|":
			out.n = func(s *Sim) uint64 { return a(s) | b(s) }
		case "^":
			out.n = func(s *Sim) uint64 { return a(s) ^ b(s) }
		case "~^", "^~":
			out.n = func(s *Sim) uint64 { return (^(a(s) ^ b(s))) & m }
		case "/":
			if S {
				out.n = func(s *Sim) uint64 {
					x, y := sext64(a(s), W), sext64(b(s), W)
					if y == 0 {
						s.DivByZero++
						return 0
					}
					if y == -1 {
						return uint64(-x) & m
					}
					return uint64(x/y) & m
				}
			} else {
				out.n = func(s *Sim) uint64 {
					x, y := a(s), b(s)
					if y == 0 {
						s.DivByZero++
						return 0
					}
					return x / y
				}
			}
		case "%":
			if S {
				out.n = func(s *Sim) uint64 {
					x, y := sext64(a(s), W), sext64(b(s), W)
					if y == 0 {
						s.DivByZero++
						return 0
					}
					if y == -1 {
						return 0
					}
					return uint64(x%y) & m
				}
			} else {
				out.n = func(s *Sim) uint64 {
					x, y := a(s), b(s)
					if y == 0 {
						s.DivByZero++
						return 0
					}
					return x % y
				}
			}
		}
		return out
	}
	a, b := l.wd, r.wd
	nw := nwords(W)
	o := c.scratch(nw)
	switch op {
	case "+":
		out.wd = func(s *Sim) []uint64 {
			buf := s.scratch[o : o+nw]
			wAdd(buf, a(s), b(s), W)
			return buf
		}
	case "-":
		out.wd = func(s *Sim) []uint64 {
			buf := s.scratch[o : o+nw]
			wSub(buf, a(s), b(s), W)
			return buf
		}
	case "*":
		out.wd = func(s *Sim) []uint64 {
			buf := s.scratch[o : o+nw]
			wMul(buf, a(s), b(s), W)
			return buf
		}
	case "&":
		out.wd = func(s *Sim) []uint64 {
			buf := s.scratch[o : o+nw]
			x, y := a(s), b(s)
			for i := range buf {
				buf[i] = x[i] & y[i]
			}
			return buf
		}
	case "|":
		out.wd = func(s *Sim) []uint64 {
			buf := s.scratch[o : o+nw]
			x, y := a(s), b(s)
			for i := range buf {
				buf[i] = x[i] | y[i]
			}
			return buf
		}
	case "^":
		out.wd = func(s *Sim) []uint64 {
			buf := s.scratch[o : o+nw]
			x, y := a(s), b(s)
			for i := range buf {
				buf[i] = x[i] ^ y[i]
			}
			return buf
		}
	case "~^", "^~":
		out.wd = func(s *Sim) []uint64 {
			buf := s.scratch[o : o+nw]
			x, y := a(s), b(s)
			for i := range buf {
				buf[i] = ^(x[i] ^ y[i])
			}
			wmaskTop(buf, W)
			return buf
		}
	case "/", "%":
		rem := op == "%"
		out.wd = func(s *Sim) []uint64 {
			buf := s.scratch[o : o+nw]
			if !wDivMod(buf, a(s), b(s), W, S, rem) {
				s.DivByZero++
			}
			return buf
		}
	}
	return out
}

// shiftAmount returns the shift amount clamped to 1<<32.
func shiftAmount(r cexpr) func(*Sim) uint64 {
	if r.w <= 64 {
		f := r.n
		return func(s *Sim) uint64 {
			v := f(s)
			if v > 1<<32 {
				return 1 << 32
			}
			return v
		}
	}
	f := r.wd
	return func(s *Sim) uint64 {
		lo, ok := wFitsU64(f(s))
		if !ok || lo > 1<<32 {
			return 1 << 32
		}
		return lo
	}
}

func (c *compiler) genShift(op string, l, r cexpr, W int, S bool) cexpr {
	out := cexpr{w: W, signed: S, isConst: l.isConst && r.isConst}
	amt := shiftAmount(r)
	if W <= 64 {
		a := l.n
		m := mask64(W)
		uw := uint64(W)
		switch op {
		case "<<", "<<<":
			out.n = func(s *Sim) uint64 {
				n := amt(s)
				if n >= uw {
					return 0
				}
				return (a(s) << n) & m
			}
		case ">>":
			out.n = func(s *Sim) uint64 {
				n := amt(s)
				if n >= uw {
					return 0
				}
				return a(s) >> n
			}
		case ">>>":
			if !S {
				out.n = func(s *Sim) uint64 {
					n := amt(s)
					if n >= uw {
						return 0
					}
					return a(s) >> n
				}
			} else {
				out.n = func(s *Sim) uint64 {
					n := amt(s)
					if n > 63 {
						n = 63
					}
					return uint64(sext64(a(s), W)>>n) & m
				}
			}
		}
		return out
	}
	a := l.wd
	nw := nwords(W)
	o := c.scratch(nw)
	switch op {
	case "<<", "<<<":
		out.wd = func(s *Sim) []uint64 {
			buf := s.scratch[o : o+nw]
			wShl(buf, a(s), amt(s), W)
			return buf
		}
	default:
		arith := op == ">>>" && S
		out.wd = func(s *Sim) []uint64 {
			buf := s.scratch[o : o+nw]
			wShr(buf, a(s), amt(s), W, arith)
			return buf
		}
	}
	return out
}

func (c *compiler) genPow(l, r cexpr, W int, S bool, line int) cexpr {
	if W > 64 || r.w > 64 {
		cfail(line, true, "** on operands wider than 64 bits")
	}
	out := cexpr{w: W, signed: S, isConst: l.isConst && r.isConst}
	a, b := l.n, r.n
	rw := r.w
	rs := r.signed
	m := mask64(W)
	out.n = func(s *Sim) uint64 {
		x, y := a(s), b(s)
		if rs && sext64(y, rw) < 0 {
			// negative exponent: 0 unless base is 1 or -1 (x for base 0)
			sx := x
			if S {
				sx = uint64(sext64(x, W))
			}
			switch {
			case sx == 1:
				return 1
			case S && sext64(x, W) == -1:
				if y&1 == 1 {
					return m
				}
				return 1
			}
			return 0
		}
		return pow64(x, y, W)
	}
	return out
}

// genOperand compiles a self-determined operand at its own width.
func (c *compiler) genOperand(t *tnode) cexpr {
	switch t.kind {
	case tkConst:
		return constCexpr(t.w, t.signed, t.cv.v)
	case tkSig:
		st := t.sv.st
		off := st.off
		if st.nw == 1 {
			return cexpr{w: t.w, signed: t.signed, n: func(s *Sim) uint64 { return s.v[off] }}
		}
		nw := st.nw
		return cexpr{w: t.w, signed: t.signed, wd: func(s *Sim) []uint64 { return s.v[off : off+nw] }}
	case tkSel:
		return c.genSel(t)
	case tkValSel:
		return c.genValSel(t)
	case tkCast:
		x := c.genSelf(t.kids[0])
		x.signed = t.signed
		return x
	case tkLogNot:
		kx := c.genSelf(t.kids[0])
		b := toBool(kx)
		out := cexpr{w: 1, isConst: kx.isConst, n: func(s *Sim) uint64 {
			if b(s) {
				return 0
			}
			return 1
		}}
		return c.fold(out)
	case tkLogic:
		lx := c.genSelf(t.kids[0])
		rx := c.genSelf(t.kids[1])
		a := toBool(lx)
		b := toBool(rx)
		out := cexpr{w: 1, isConst: lx.isConst && rx.isConst}
		if t.op == "&&" {
			out.n = func(s *Sim) uint64 {
				// both operands are evaluated (no side effects exist besides DivByZero)
				if a(s) && b(s) {
					return 1
				}
				return 0
			}
		} else {
			out.n = func(s *Sim) uint64 {
				if a(s) || b(s) {
					return 1
				}
				return 0
			}
		}
		return c.fold(out)
	case tkReduce:
		return c.fold(c.genReduce(t))
	case tkCmp:
		return c.fold(c.genCmp(t))
	case tkConcat:
		return c.fold(c.genConcat(t.kids, t.w, 1))
	case tkRepl:
		return c.fold(c.genConcat(t.kids, t.w, t.count))
	case tkClog2:
		k := c.genSelf(t.kids[0])
		out := cexpr{w: 32, signed: true, isConst: k.isConst}
		if k.w <= 64 {
			f := k.n
			out.n = func(s *Sim) uint64 {
				v := f(s)
				if v <= 1 {
					return 0
				}
				return uint64(bits.Len64(v - 1))
			}
		} else {
			f := k.wd
			out.n = func(s *Sim) uint64 {
				b := limbsToBig(f(s))
				if b.BitLen() == 0 {
					return 0
				}
				b.Sub(b, bigOne())
				return uint64(b.BitLen())
			}
		}
		return c.fold(out)
	case tkCall:
		return c.genCall(t)
	case tkUnary, tkBin, tkShift, tkPow, tkTern:
		return c.gen(t, t.w, t.signed)
	}
	cfail(t.line, true, "expression kind %d", t.kind)
	return cexpr{}
}

func (c *compiler) genReduce(t *tnode) cexpr {
	k := c.genSelf(t.kids[0])
	out := cexpr{w: 1, isConst: k.isConst}
	inv := uint64(0)
	op := t.op
	if op == "~&" || op == "~|" || op == "~^" || op == "^~" {
		inv = 1
		switch op {
		case "~&":
			op = "&"
		case "~|":
			op = "|"
		default:
			op = "^"
		}
	}
	if k.w <= 64 {
		f := k.n
		full := mask64(k.w)
		switch op {
		case "&":
			out.n = func(s *Sim) uint64 {
				if f(s) == full {
					return 1 ^ inv
				}
				return inv
			}
		case "|":
			out.n = func(s *Sim) uint64 {
				if f(s) != 0 {
					return 1 ^ inv
				}
				return inv
			}
		case "^":
			out.n = func(s *Sim) uint64 { return uint64(bits.OnesCount64(f(s))&1) ^ inv }
		}
		return out
	}
	f := k.wd
	kw := k.w
	switch op {
	case "&":
		out.n = func(s *Sim) uint64 { return wRedAnd(f(s), kw) ^ inv }
	case "|":
		out.n = func(s *Sim) uint64 {
			if !wIsZero(f(s)) {
				return 1 ^ inv
			}
			return inv
		}
	case "^":
		out.n = func(s *Sim) uint64 { return wRedXor(f(s)) ^ inv }
	}
	return out
}

func (c *compiler) genCmp(t *tnode) cexpr {
	lt, rt := t.kids[0], t.kids[1]
	W := max(lt.w, rt.w)
	S := lt.signed && rt.signed
	l := c.gen(lt, W, S)
	r := c.gen(rt, W, S)
	out := cexpr{w: 1, isConst: l.isConst && r.isConst}
	b2u := func(b bool) uint64 {
		if b {
			return 1
		}
		return 0
	}
	if W <= 64 {
		a, b := l.n, r.n
		switch t.op {
		case "==", "===":
			out.n = func(s *Sim) uint64 { return b2u(a(s) == b(s)) }
		case "!=", "!==":
			out.n = func(s *Sim) uint64 { return b2u(a(s) != b(s)) }
		case "<":
			if S {
				out.n = func(s *Sim) uint64 { return b2u(sext64(a(s), W) < sext64(b(s), W)) }
			} else {
				out.n = func(s *Sim) uint64 { return b2u(a(s) < b(s)) }
			}
		case "<=":
			if S {
				out.n = func(s *Sim) uint64 { return b2u(sext64(a(s), W) <= sext64(b(s), W)) }
			} else {
				out.n = func(s *Sim) uint64 { return b2u(a(s) <= b(s)) }
			}
		case ">":
			if S {
				out.n = func(s *Sim) uint64 { return b2u(sext64(a(s), W) > sext64(b(s), W)) }
			} else {
				out.n = func(s *Sim) uint64 { return b2u(a(s) > b(s)) }
			}
		case ">=":
			if S {
				out.n = func(s *Sim) uint64 { return b2u(sext64(a(s), W) >= sext64(b(s), W)) }
			} else {
				out.n = func(s *Sim) uint64 { return b2u(a(s) >= b(s)) }
			}
		}
		return out
	}
	a, b := l.wd, r.wd
	cmp := func(s *Sim) int {
		if S {
			return wCmpS(a(s), b(s), W)
		}
		return wCmpU(a(s), b(s))
	}
	switch t.op {
	case "==", "===":
		out.n = func(s *Sim) uint64 { return b2u(wEq(a(s), b(s))) }
	case "!=", "!==":
		out.n = func(s *Sim) uint64 { return b2u(!wEq(a(s), b(s))) }
	case "<":
		out.n = func(s *Sim) uint64 { return b2u(cmp(s) < 0) }
	case "<=":
		out.n = func(s *Sim) uint64 { return b2u(cmp(s) <= 0) }
	case ">":
		out.n = func(s *Sim) uint64 { return b2u(cmp(s) > 0) }
	case ">=":
		out.n = func(s *Sim) uint64 { return b2u(cmp(s) >= 0) }
	}
	return out
}

// genConcat builds {kids} repeated count times; total is the resulting width.
func (c *compiler) genConcat(kids []*tnode, total, count int) cexpr {
	type part struct {
		x  cexpr
		lo int
	}
	parts := make([]part, len(kids))
	allConst := true
	inner := 0
	for _, k := range kids {
		inner += k.w
	}
	pos := inner
	for i, k := range kids {
		x := c.genSelf(k)
		pos -= k.w
		parts[i] = part{x, pos}
		if !x.isConst {
			allConst = false
		}
	}
	out := cexpr{w: total, isConst: allConst}
	if total <= 64 {
		if count == 1 && len(parts) == 2 {
			a, b := parts[0].x.n, parts[1].x.n
			sh := uint(parts[0].lo)
			out.n = func(s *Sim) uint64 { return a(s)<<sh | b(s) }
			return out
		}
		fs := make([]func(*Sim) uint64, len(parts))
		shs := make([]uint, len(parts))
		for i, p := range parts {
			fs[i] = p.x.n
			shs[i] = uint(p.lo)
		}
		uin := uint(inner)
		out.n = func(s *Sim) uint64 {
			var v uint64
			for i, f := range fs {
				v |= f(s) << shs[i]
			}
			if count > 1 {
				r := v
				for k := 1; k < count; k++ {
					r = r<<uin | v
				}
				return r
			}
			return v
		}
		return out
	}
	nw := nwords(total)
	o := c.scratch(nw)
	out.wd = func(s *Sim) []uint64 {
		buf := s.scratch[o : o+nw]
		for i := range buf {
			buf[i] = 0
		}
		for _, p := range parts {
			if p.x.w <= 64 {
				v := p.x.n(s)
				for k := 0; k < count; k++ {
					setBits64(buf, p.lo+k*inner, p.x.w, v)
				}
			} else {
				v := p.x.wd(s)
				for k := 0; k < count; k++ {
					copyBitsIn(buf, p.lo+k*inner, v, 0, p.x.w)
				}
			}
		}
		return buf
	}
	return out
}

// bitPos maps a declared index to a bit position for range [left:right].
func bitPos(i int64, left, right int) int64 {
	if left >= right {
		return i - int64(right)
	}
	return int64(right) - i
}

// wordSel compiles the element selection of a (possibly memory) signal:
// returns a closure yielding the element offset in s.v, or -1 when out of range.
func (c *compiler) wordSel(t *tnode) (constBase int, dyn func(*Sim) int) {
	st := t.sv.st
	if t.wordIdx == nil {
		return st.off, nil
	}
	ix := c.genSelf(t.wordIdx)
	lo := int64(t.sv.memLo)
	depth := int64(st.depth)
	nw := st.nw
	off := st.off
	if ix.isConst {
		v, ok := toIndex(ix)(c.el.sim)
		e := v - lo
		if !ok || e < 0 || e >= depth {
			return -1, nil
		}
		return off + int(e)*nw, nil
	}
	// fast path: narrow unsigned index
	if ix.w <= 64 && !ix.signed {
		f := ix.n
		ulo := uint64(lo)
		if lo >= 0 {
			udepth := uint64(depth)
			return 0, func(s *Sim) int {
				e := f(s) - ulo
				if e >= udepth { // also catches wrap-around of values below lo
					return -1
				}
				return off + int(e)*nw
			}
		}
	}
	fi := toIndex(ix)
	return 0, func(s *Sim) int {
		v, ok := fi(s)
		e := v - lo
		if !ok || e < 0 || e >= depth {
			return -1
		}
		return off + int(e)*nw
	}
}

// readBits extracts pw bits at position lo (may be partly outside [0,ew)) from elem.
func readBits64(elem []uint64, lo int64, pw, ew int) uint64 {
	hi := lo + int64(pw)
	sl, sh := lo, hi
	if sl < 0 {
		sl = 0
	}
	if sh > int64(ew) {
		sh = int64(ew)
	}
	if sl >= sh {
		return 0
	}
	return getBits64(elem, int(sl), int(sh-sl)) << uint(sl-lo)
}

func readBitsWide(dst, elem []uint64, lo int64, pw, ew int) {
	for i := range dst {
		dst[i] = 0
	}
	hi := lo + int64(pw)
	sl, sh := lo, hi
	if sl < 0 {
		sl = 0
	}
	if sh > int64(ew) {
		sh = int64(ew)
	}
	if sl >= sh {
		return
	}
	copyBitsIn(dst, int(sl-lo), elem, int(sl), int(sh-sl))
}

func (c *compiler) genSel(t *tnode) cexpr {
	st := t.sv.st
	cbase, dyn := c.wordSel(t)
	nw := st.nw
	ew := st.width
	out := cexpr{w: t.w, signed: t.signed}
	if dyn == nil && cbase < 0 {
		// constant out-of-range word
		return constCexpr(t.w, t.signed, make([]uint64, nwords(t.w)))
	}
	elemOf := func(s *Sim) []uint64 {
		if dyn != nil {
			b := dyn(s)
			if b < 0 {
				return nil
			}
			return s.v[b : b+nw]
		}
		return s.v[cbase : cbase+nw]
	}
	left, right := t.sv.left, t.sv.right
	switch t.selKind {
	case 0:
		if t.w <= 64 {
			if dyn != nil {
				out.n = func(s *Sim) uint64 {
					b := dyn(s)
					if b < 0 {
						return 0
					}
					return s.v[b]
				}
			} else {
				out.n = func(s *Sim) uint64 { return s.v[cbase] }
			}
			return out
		}
		zero := make([]uint64, nw)
		out.wd = func(s *Sim) []uint64 {
			e := elemOf(s)
			if e == nil {
				return zero
			}
			return e
		}
		return out
	case 1:
		ix := c.genSelf(t.idx)
		if ix.isConst {
			v, ok := toIndex(ix)(c.el.sim)
			pos := bitPos(v, left, right)
			if !ok || pos < 0 || pos >= int64(ew) {
				return constCexpr(1, false, []uint64{0})
			}
			wi := int(pos >> 6)
			bs := uint(pos & 63)
			if dyn == nil {
				o := cbase + wi
				out.n = func(s *Sim) uint64 { return (s.v[o] >> bs) & 1 }
			} else {
				out.n = func(s *Sim) uint64 {
					b := dyn(s)
					if b < 0 {
						return 0
					}
					return (s.v[b+wi] >> bs) & 1
				}
			}
			return out
		}
		fi := toIndex(ix)
		out.n = func(s *Sim) uint64 {
			e := elemOf(s)
			if e == nil {
				return 0
			}
			v, ok := fi(s)
			if !ok {
				return 0
			}
			pos := bitPos(v, left, right)
			if pos < 0 || pos >= int64(ew) {
				return 0
			}
			return (e[pos>>6] >> uint(pos&63)) & 1
		}
		return out
	case 2:
		pl, pr := bitPos(int64(t.pLeft), left, right), bitPos(int64(t.pRight), left, right)
		lo := pl
		if pr < lo {
			lo = pr
		}
		pw := t.w
		inRange := lo >= 0 && lo+int64(pw) <= int64(ew)
		if pw <= 64 {
			if inRange && dyn == nil && nw == 1 {
				o := cbase
				sh := uint(lo)
				m := mask64(pw)
				out.n = func(s *Sim) uint64 { return (s.v[o] >> sh) & m }
				return out
			}
			out.n = func(s *Sim) uint64 {
				e := elemOf(s)
				if e == nil {
					return 0
				}
				return readBits64(e, lo, pw, ew)
			}
			return out
		}
		pnw := nwords(pw)
		o := c.scratch(pnw)
		out.wd = func(s *Sim) []uint64 {
			buf := s.scratch[o : o+pnw]
			e := elemOf(s)
			if e == nil {
				for i := range buf {
					buf[i] = 0
				}
				return buf
			}
			readBitsWide(buf, e, lo, pw, ew)
			return buf
		}
		return out
	case 3:
		ix := c.genSelf(t.idx)
		fi := toIndex(ix)
		pw := t.w
		up := t.up
		loOf := func(b int64) int64 {
			// bits covered: up: [b, b+pw-1] ; down: [b-pw+1, b] (declared indices)
			if left >= right {
				if up {
					return b - int64(right)
				}
				return b - int64(pw) + 1 - int64(right)
			}
			// ascending declaration [left:right], left<right
			if up {
				return int64(right) - (b + int64(pw) - 1)
			}
			return int64(right) - b
		}
		if pw <= 64 {
			out.n = func(s *Sim) uint64 {
				e := elemOf(s)
				if e == nil {
					return 0
				}
				b, ok := fi(s)
				if !ok {
					return 0
				}
				return readBits64(e, loOf(b), pw, ew)
			}
			return out
		}
		pnw := nwords(pw)
		o := c.scratch(pnw)
		out.wd = func(s *Sim) []uint64 {
			buf := s.scratch[o : o+pnw]
			e := elemOf(s)
			b, ok := fi(s)
			if e == nil || !ok {
				for i := range buf {
					buf[i] = 0
				}
				return buf
			}
			readBitsWide(buf, e, loOf(b), pw, ew)
			return buf
		}
		return out
	}
	cfail(t.line, true, "select kind")
	return out
}

// genValSel: selects on constant values (parameters, genvars).
func (c *compiler) genValSel(t *tnode) cexpr {
	base := c.genSelf(t.kids[0])
	ew := base.w
	var elem []uint64
	if ew <= 64 {
		elem = []uint64{base.n(c.el.sim)}
	} else {
		elem = base.wd(c.el.sim)
	}
	left, right := t.sv.left, t.sv.right
	out := cexpr{w: t.w}
	switch t.selKind {
	case 0:
		return base
	case 1:
		ix := c.genSelf(t.idx)
		fi := toIndex(ix)
		out.isConst = ix.isConst
		out.n = func(s *Sim) uint64 {
			v, ok := fi(s)
			if !ok {
				return 0
			}
			return readBits64(elem, bitPos(v, left, right), 1, ew)
		}
		return c.fold(out)
	case 2:
		pl, pr := bitPos(int64(t.pLeft), left, right), bitPos(int64(t.pRight), left, right)
		lo := pl
		if pr < lo {
			lo = pr
		}
		res := make([]uint64, nwords(t.w))
		readBitsWide(res, elem, lo, t.w, ew)
		return constCexpr(t.w, false, res)
	case 3:
		ix := c.genSelf(t.idx)
		fi := toIndex(ix)
		pw := t.w
		if pw > 64 {
			cfail(t.line, true, "wide indexed part select of a parameter")
		}
		up := t.up
		out.isConst = ix.isConst
		out.n = func(s *Sim) uint64 {
			b, ok := fi(s)
			if !ok {
				return 0
			}
			lo := b
			if !up {
				lo = b - int64(pw) + 1
			}
			return readBits64(elem, lo, pw, ew)
		}
		return c.fold(out)
	}
	return out
}

func (c *compiler) genCall(t *tnode) cexpr {
	fi := t.fn
	type argc struct {
		x  cexpr
		st *storage
	}
	args := make([]argc, len(t.kids))
	for i, k := range t.kids {
		args[i] = argc{c.genAssign(k, fi.args[i].st.width), fi.args[i].st}
	}
	ret := fi.ret.st
	out := cexpr{w: t.w, signed: t.signed}
	call := func(s *Sim) {
		for _, a := range args {
			if a.x.w <= 64 {
				s.storeBits(a.st, 0, 0, a.st.width, a.x.n(s), nil, 0)
			} else {
				s.storeBits(a.st, 0, 0, a.st.width, 0, a.x.wd(s), 0)
			}
		}
		// the return variable starts at 0 on every call (2-state stand-in for x)
		for i := 0; i < ret.nw; i++ {
			s.v[ret.off+i] = 0
		}
		fi.body(s)
	}
	if t.w <= 64 {
		out.n = func(s *Sim) uint64 {
			call(s)
			return s.v[ret.off]
		}
	} else {
		nw := ret.nw
		o := c.scratch(nw)
		out.wd = func(s *Sim) []uint64 {
			call(s)
			buf := s.scratch[o : o+nw]
			copy(buf, s.v[ret.off:ret.off+nw])
			return buf
		}
	}
	return out
}

// constEval evaluates a constant expression in the current scope.
func (c *compiler) constEval(e Expr) *constVal {
	cc := &compiler{el: c.el, sc: c.sc, constOnly: true, fn: c.fn}
	t := cc.analyze(e)
	x := cc.genSelf(t)
	return c.el.run(x, t)
}

// constEvalCtx evaluates a constant expression in an assignment context of width w / sign.
func (c *compiler) constEvalTo(e Expr, w int, signed bool) *constVal {
	cc := &compiler{el: c.el, sc: c.sc, constOnly: true, fn: c.fn}
	t := cc.analyze(e)
	x := cc.genAssign(t, w)
	cv := c.el.run(x, nil)
	cv.signed = signed
	return cv
}

// run evaluates a compiled constant expression on the elaboration-time Sim.
func (el *elab) run(x cexpr, t *tnode) *constVal {
	el.ensureSim()
	cv := &constVal{w: x.w, signed: x.signed, v: make([]uint64, nwords(x.w))}
	if x.w <= 64 {
		cv.v[0] = x.n(el.sim)
	} else {
		copy(cv.v, x.wd(el.sim))
	}
	if t != nil && t.kind == tkConst {
		cv.x, cv.z = t.cv.x, t.cv.z
		cv.signed = t.signed
	}
	if el.sim.err != nil {
		err := el.sim.err
		el.sim.err = nil
		panic(&compileErr{fmt.Errorf("%w: %v", ErrElab, err)})
	}
	return cv
}
