package vlog

import (
	"fmt"
	"math/big"
	"strings"
)

// tokKind enumerates lexical token classes.
type tokKind int

const (
	tEOF tokKind = iota
	tIdent
	tKeyword
	tSysIdent // $display ...
	tNumber
	tReal
	tString
	tOp
)

type token struct {
	kind tokKind
	text string // identifier / keyword / operator / raw number text / string contents
	line int
	num  *NumberLit // for tNumber
}

var keywords = map[string]bool{}

func init() {
	for _, k := range strings.Fields(`always and assign automatic begin buf bufif0 bufif1 case casex casez cell cmos config
deassign default defparam design disable edge else end endcase endconfig endfunction endgenerate endmodule
endprimitive endspecify endtable endtask event for force forever fork function generate genvar highz0 highz1
if ifnone incdir include initial inout input instance integer join large liblist library localparam macromodule
medium module nand negedge nmos nor noshowcancelled not notif0 notif1 or output parameter pmos posedge primitive
pull0 pull1 pulldown pullup pulsestyle_onevent pulsestyle_ondetect rcmos real realtime reg release repeat rnmos
rpmos rtran rtranif0 rtranif1 scalared showcancelled signed small specify specparam strong0 strong1 supply0
supply1 table task time tran tranif0 tranif1 tri tri0 tri1 triand trior trireg unsigned use vectored wait wand
weak0 weak1 while wire wor xnor xor`) {
		keywords[k] = true
	}
}

type lexError struct {
	line int
	msg  string
}

func (e *lexError) Error() string { return fmt.Sprintf("line %d: %s", e.line, e.msg) }

// lexer state
type lexer struct {
	src     []byte
	pos     int
	line    int
	defines map[string]string
	toks    []token
	errs    []lexError
	unsup   []lexError // unsupported preprocessor constructs
	depth   int        // macro expansion depth

	honorTranslateOff bool // skip "// synthesis translate_off" ... "translate_on" regions
}

// skipTranslateOff skips source text up to and including the next comment containing translate_on.
func (l *lexer) skipTranslateOff() {
	start := l.line
	for l.pos < len(l.src) {
		c := l.src[l.pos]
		if c == '\n' {
			l.line++
			l.pos++
			continue
		}
		if c == '/' && l.peekc(1) == '/' {
			cm := l.skipToEOL()
			if strings.Contains(cm, "translate_on") {
				l.unsup = append(l.unsup, lexError{start, fmt.Sprintf("synthesis translate_off region skipped (lines %d-%d)", start, l.line)})
				return
			}
			continue
		}
		l.pos++
	}
	l.errs = append(l.errs, lexError{start, "unterminated synthesis translate_off region"})
}

func isIdentStart(c byte) bool {
	return c == '_' || (c >= 'a' && c <= 'z') || (c >= 'A' && c <= 'Z')
}
func isIdentChar(c byte) bool {
	return isIdentStart(c) || (c >= '0' && c <= '9') || c == '$'
}
func isDigit(c byte) bool { return c >= '0' && c <= '9' }
func isSpace(c byte) bool {
	return c == ' ' || c == '\t' || c == '\r' || c == '\n' || c == '\f' || c == '\v'
}

// lexAll tokenises src. It never panics; problems are collected in l.errs.
func lexAll(src string, defines map[string]string, honorTranslateOff bool) *lexer {
	l := &lexer{src: []byte(src), line: 1, defines: defines, honorTranslateOff: honorTranslateOff}
	if l.defines == nil {
		l.defines = map[string]string{}
	}
	l.run()
	l.toks = append(l.toks, token{kind: tEOF, line: l.line})
	return l
}

func (l *lexer) errorf(format string, a ...interface{}) {
	if len(l.errs) < 50 {
		l.errs = append(l.errs, lexError{l.line, fmt.Sprintf(format, a...)})
	}
}

func (l *lexer) peekc(off int) byte {
	if l.pos+off < len(l.src) {
		return l.src[l.pos+off]
	}
	return 0
}

func (l *lexer) skipToEOL() string {
	start := l.pos
	for l.pos < len(l.src) && l.src[l.pos] != '\n' {
		// line continuation
		if l.src[l.pos] == '\\' && l.pos+1 < len(l.src) && l.src[l.pos+1] == '\n' {
			l.pos += 2
			l.line++
			continue
		}
		l.pos++
	}
	return string(l.src[start:l.pos])
}

// condStack handling for `ifdef
type condState struct {
	active     bool // currently emitting
	everActive bool
	parentAct  bool
}

func (l *lexer) run() {
	var conds []condState
	active := func() bool {
		if len(conds) == 0 {
			return true
		}
		return conds[len(conds)-1].active
	}
	for l.pos < len(l.src) {
		c := l.src[l.pos]
		switch {
		case c == '\n':
			l.line++
			l.pos++
		case isSpace(c):
			l.pos++
		case c == '/' && l.peekc(1) == '/':
			cm := l.skipToEOL()
			if l.honorTranslateOff && strings.Contains(cm, "translate_off") {
				l.skipTranslateOff()
			}
		case c == '/' && l.peekc(1) == '*':
			l.pos += 2
			closed := false
			for l.pos < len(l.src) {
				if l.src[l.pos] == '\n' {
					l.line++
				}
				if l.src[l.pos] == '*' && l.peekc(1) == '/' {
					l.pos += 2
					closed = true
					break
				}
				l.pos++
			}
			if !closed {
				l.errorf("unterminated block comment")
			}
		case c == '`':
			l.pos++
			start := l.pos
			for l.pos < len(l.src) && isIdentChar(l.src[l.pos]) {
				l.pos++
			}
			name := string(l.src[start:l.pos])
			switch name {
			case "ifdef", "ifndef":
				rest := strings.Fields(l.skipToEOLNoCont())
				def := false
				if len(rest) > 0 {
					_, def = l.defines[rest[0]]
				}
				if name == "ifndef" {
					def = !def
				}
				pa := active()
				conds = append(conds, condState{active: pa && def, everActive: def, parentAct: pa})
			case "elsif":
				rest := strings.Fields(l.skipToEOLNoCont())
				if len(conds) == 0 {
					l.errorf("`elsif without `ifdef")
					break
				}
				cs := &conds[len(conds)-1]
				def := false
				if len(rest) > 0 {
					_, def = l.defines[rest[0]]
				}
				cs.active = cs.parentAct && !cs.everActive && def
				if def {
					cs.everActive = true
				}
			case "else":
				if len(conds) == 0 {
					l.errorf("`else without `ifdef")
					break
				}
				cs := &conds[len(conds)-1]
				cs.active = cs.parentAct && !cs.everActive
				cs.everActive = true
			case "endif":
				if len(conds) == 0 {
					l.errorf("`endif without `ifdef")
					break
				}
				conds = conds[:len(conds)-1]
			default:
				if !active() {
					if name == "define" {
						l.skipToEOL()
					}
					break
				}
				l.directive(name)
			}
		default:
			if !active() {
				// skip a raw token-ish unit
				if c == '"' {
					l.lexString(false)
				} else {
					l.pos++
				}
				continue
			}
			l.lexToken()
		}
	}
	if len(conds) != 0 {
		l.errorf("unterminated `ifdef")
	}
}

func (l *lexer) skipToEOLNoCont() string {
	start := l.pos
	for l.pos < len(l.src) && l.src[l.pos] != '\n' {
		l.pos++
	}
	s := string(l.src[start:l.pos])
	if i := strings.Index(s, "//"); i >= 0 {
		s = s[:i]
	}
	return s
}

func (l *lexer) directive(name string) {
	switch name {
	case "timescale", "default_nettype", "resetall", "celldefine", "endcelldefine", "nounconnected_drive",
		"unconnected_drive", "line", "pragma", "begin_keywords", "end_keywords", "protect", "endprotect",
		"default_decay_time", "default_trireg_strength", "delay_mode_distributed", "delay_mode_path",
		"delay_mode_unit", "delay_mode_zero":
		l.skipToEOLNoCont()
	case "undef":
		rest := strings.Fields(l.skipToEOLNoCont())
		if len(rest) > 0 {
			delete(l.defines, rest[0])
		}
	case "include":
		l.skipToEOLNoCont()
		l.unsup = append(l.unsup, lexError{l.line, "`include is not supported"})
	case "define":
		startLine := l.line
		body := l.skipToEOL()
		if i := strings.Index(body, "//"); i >= 0 {
			body = body[:i]
		}
		body = strings.ReplaceAll(body, "\\\n", " ")
		body = strings.TrimSpace(body)
		if body == "" {
			l.errs = append(l.errs, lexError{startLine, "`define without a name"})
			return
		}
		i := 0
		for i < len(body) && isIdentChar(body[i]) {
			i++
		}
		mname := body[:i]
		if mname == "" {
			l.errs = append(l.errs, lexError{startLine, "`define without a name"})
			return
		}
		if i < len(body) && body[i] == '(' {
			l.unsup = append(l.unsup, lexError{startLine, "function-like macro `" + mname + " is not supported"})
			l.defines[mname] = ""
			return
		}
		l.defines[mname] = strings.TrimSpace(body[i:])
	case "":
		l.errorf("stray '`'")
	default:
		body, ok := l.defines[name]
		if !ok {
			l.errorf("undefined macro `%s", name)
			return
		}
		if l.depth > 20 {
			l.errorf("macro expansion too deep at `%s", name)
			return
		}
		sub := &lexer{src: []byte(body), line: l.line, defines: l.defines, depth: l.depth + 1}
		sub.run()
		for i := range sub.toks {
			sub.toks[i].line = l.line
		}
		l.toks = append(l.toks, sub.toks...)
		l.errs = append(l.errs, sub.errs...)
		l.unsup = append(l.unsup, sub.unsup...)
	}
}

func (l *lexer) emit(k tokKind, text string) {
	l.toks = append(l.toks, token{kind: k, text: text, line: l.line})
}

var ops3 = []string{"<<<", ">>>", "===", "!=="}
var ops2 = []string{"<<", ">>", "<=", ">=", "==", "!=", "&&", "||", "~&", "~|", "~^", "^~", "**", "+:", "-:", "->"}

func (l *lexer) lexString(emit bool) {
	// at opening quote
	startLine := l.line
	l.pos++
	var sb strings.Builder
	for l.pos < len(l.src) {
		c := l.src[l.pos]
		if c == '"' {
			l.pos++
			if emit {
				l.toks = append(l.toks, token{kind: tString, text: sb.String(), line: startLine})
			}
			return
		}
		if c == '\n' {
			break
		}
		if c == '\\' && l.pos+1 < len(l.src) {
			l.pos++
			e := l.src[l.pos]
			switch e {
			case 'n':
				sb.WriteByte('\n')
			case 't':
				sb.WriteByte('\t')
			case '\\':
				sb.WriteByte('\\')
			case '"':
				sb.WriteByte('"')
			case '\n':
				l.line++
			default:
				if e >= '0' && e <= '7' {
					v := 0
					n := 0
					for n < 3 && l.pos < len(l.src) && l.src[l.pos] >= '0' && l.src[l.pos] <= '7' {
						v = v*8 + int(l.src[l.pos]-'0')
						l.pos++
						n++
					}
					l.pos--
					sb.WriteByte(byte(v))
				} else {
					sb.WriteByte(e)
				}
			}
			l.pos++
			continue
		}
		sb.WriteByte(c)
		l.pos++
	}
	if emit {
		l.errs = append(l.errs, lexError{startLine, "unterminated string"})
		l.toks = append(l.toks, token{kind: tString, text: sb.String(), line: startLine})
	}
}

func (l *lexer) lexToken() {
	c := l.src[l.pos]
	switch {
	case isIdentStart(c):
		start := l.pos
		for l.pos < len(l.src) && isIdentChar(l.src[l.pos]) {
			l.pos++
		}
		s := string(l.src[start:l.pos])
		if keywords[s] {
			l.emit(tKeyword, s)
		} else {
			l.emit(tIdent, s)
		}
	case c == '\\':
		// escaped identifier: up to whitespace
		l.pos++
		start := l.pos
		for l.pos < len(l.src) && !isSpace(l.src[l.pos]) {
			l.pos++
		}
		s := string(l.src[start:l.pos])
		if s == "" {
			l.errorf("empty escaped identifier")
			return
		}
		l.emit(tIdent, s)
	case c == '$':
		start := l.pos
		l.pos++
		for l.pos < len(l.src) && isIdentChar(l.src[l.pos]) {
			l.pos++
		}
		s := string(l.src[start:l.pos])
		if s == "$" {
			l.errorf("stray '$'")
			return
		}
		l.emit(tSysIdent, s)
	case isDigit(c) || c == '\'':
		l.lexNumber()
	case c == '"':
		l.lexString(true)
	case c == '(' && l.peekc(1) == '*':
		// attribute instance (* ... *) unless it is the (*) of an event control
		j := l.pos + 2
		for j < len(l.src) && isSpace(l.src[j]) {
			j++
		}
		if j < len(l.src) && l.src[j] == ')' {
			l.emit(tOp, "(")
			l.pos++
			return
		}
		// skip to matching *)
		l.pos += 2
		closed := false
		for l.pos < len(l.src) {
			if l.src[l.pos] == '\n' {
				l.line++
			}
			if l.src[l.pos] == '"' {
				l.lexString(false)
				continue
			}
			if l.src[l.pos] == '*' && l.peekc(1) == ')' {
				l.pos += 2
				closed = true
				break
			}
			l.pos++
		}
		if !closed {
			l.errorf("unterminated attribute instance")
		}
	default:
		rest := l.src[l.pos:]
		for _, o := range ops3 {
			if len(rest) >= 3 && string(rest[:3]) == o {
				l.emit(tOp, o)
				l.pos += 3
				return
			}
		}
		for _, o := range ops2 {
			if len(rest) >= 2 && string(rest[:2]) == o {
				l.emit(tOp, o)
				l.pos += 2
				return
			}
		}
		if strings.IndexByte("+-*/%<>!~&|^?:;,.()[]{}=@#", c) >= 0 {
			l.emit(tOp, string(c))
			l.pos++
			return
		}
		l.errorf("unexpected character %q", string(c))
		l.pos++
	}
}

// lexNumber handles: 123, 12_3, 8'hff, 8 'hff, 'b0, 4'sb1, 1.5, 1e3, 2.5e-3 and
// the SystemVerilog unbased unsized literals '0 '1 'x 'z (flagged).
func (l *lexer) lexNumber() {
	startLine := l.line
	sizeText := ""
	if isDigit(l.src[l.pos]) {
		start := l.pos
		for l.pos < len(l.src) && (isDigit(l.src[l.pos]) || l.src[l.pos] == '_') {
			l.pos++
		}
		sizeText = strings.ReplaceAll(string(l.src[start:l.pos]), "_", "")
		// real?
		if l.pos < len(l.src) && l.src[l.pos] == '.' && l.pos+1 < len(l.src) && isDigit(l.src[l.pos+1]) {
			l.pos++
			for l.pos < len(l.src) && (isDigit(l.src[l.pos]) || l.src[l.pos] == '_') {
				l.pos++
			}
			l.lexExponent()
			l.toks = append(l.toks, token{kind: tReal, text: string(l.src[start:l.pos]), line: startLine})
			return
		}
		if l.pos < len(l.src) && (l.src[l.pos] == 'e' || l.src[l.pos] == 'E') {
			save := l.pos
			if l.lexExponent() {
				l.toks = append(l.toks, token{kind: tReal, text: string(l.src[start:l.pos]), line: startLine})
				return
			}
			l.pos = save
		}
		// look ahead for base
		j := l.pos
		for j < len(l.src) && (l.src[j] == ' ' || l.src[j] == '\t') {
			j++
		}
		afterHash := len(l.toks) > 0 && l.toks[len(l.toks)-1].kind == tOp && l.toks[len(l.toks)-1].text == "#"
		if j < len(l.src) && l.src[j] == '\'' && l.baseFollows(j+1) && !(afterHash && j > l.pos) {
			l.pos = j
		} else {
			// plain unsized decimal
			v := new(big.Int)
			v.SetString(sizeText, 10)
			w := 32
			if v.BitLen() > 31 {
				w = v.BitLen() + 1
			}
			n := &NumberLit{Width: w, Sized: false, Signed: true, Val: v, XMask: new(big.Int), ZMask: new(big.Int), Text: sizeText, Base: 'd'}
			l.toks = append(l.toks, token{kind: tNumber, text: sizeText, line: startLine, num: n})
			return
		}
	}
	// at the quote
	if l.src[l.pos] != '\'' {
		l.errorf("malformed number")
		l.pos++
		return
	}
	if !l.baseFollows(l.pos + 1) {
		// maybe SystemVerilog '0 '1 'x 'z or a cast / stray quote
		n1 := l.peekc(1)
		if n1 == '0' || n1 == '1' || n1 == 'x' || n1 == 'X' || n1 == 'z' || n1 == 'Z' {
			l.pos += 2
			v := new(big.Int)
			if n1 == '1' {
				v.SetInt64(1)
			}
			n := &NumberLit{Width: 1, Val: v, XMask: new(big.Int), ZMask: new(big.Int), Text: "'" + string(n1), Base: 'b', Unbased: true}
			l.toks = append(l.toks, token{kind: tNumber, text: n.Text, line: startLine, num: n})
			return
		}
		l.errorf("stray quote")
		l.pos++
		return
	}
	l.pos++ // quote
	signed := false
	if l.src[l.pos] == 's' || l.src[l.pos] == 'S' {
		signed = true
		l.pos++
	}
	base := l.src[l.pos] | 0x20
	l.pos++
	for l.pos < len(l.src) && (l.src[l.pos] == ' ' || l.src[l.pos] == '\t') {
		l.pos++
	}
	start := l.pos
	for l.pos < len(l.src) {
		ch := l.src[l.pos]
		if isDigit(ch) || ch == '_' || ch == '?' || (ch >= 'a' && ch <= 'f') || (ch >= 'A' && ch <= 'F') ||
			ch == 'x' || ch == 'X' || ch == 'z' || ch == 'Z' {
			l.pos++
			continue
		}
		break
	}
	digits := strings.ReplaceAll(string(l.src[start:l.pos]), "_", "")
	text := sizeText + "'" + string(base) + digits
	if digits == "" {
		l.errs = append(l.errs, lexError{startLine, "number without digits: " + text})
		digits = "0"
	}
	n := &NumberLit{Signed: signed, Text: text, Base: base, Val: new(big.Int), XMask: new(big.Int), ZMask: new(big.Int)}
	bitsPer := 0
	switch base {
	case 'b':
		bitsPer = 1
	case 'o':
		bitsPer = 3
	case 'h':
		bitsPer = 4
	}
	nbits := 0
	if base == 'd' {
		ld := strings.ToLower(digits)
		if ld == "x" || ld == "z" || ld == "?" {
			// all x / z
			nbits = 1
			if ld == "x" {
				n.XMask.SetInt64(1)
			} else {
				n.ZMask.SetInt64(1)
			}
			n.fillXZ = true
		} else {
			if _, ok := n.Val.SetString(digits, 10); !ok {
				l.errs = append(l.errs, lexError{startLine, "bad decimal number: " + text})
				n.Val = new(big.Int)
			}
			nbits = n.Val.BitLen()
		}
	} else {
		for i := 0; i < len(digits); i++ {
			ch := digits[i] | 0x20
			n.Val.Lsh(n.Val, uint(bitsPer))
			n.XMask.Lsh(n.XMask, uint(bitsPer))
			n.ZMask.Lsh(n.ZMask, uint(bitsPer))
			full := big.NewInt(int64(1)<<uint(bitsPer) - 1)
			switch {
			case ch == 'x':
				n.XMask.Or(n.XMask, full)
			case ch == 'z' || digits[i] == '?':
				n.ZMask.Or(n.ZMask, full)
			default:
				var d int64
				if ch >= '0' && ch <= '9' {
					d = int64(ch - '0')
				} else {
					d = int64(ch-'a') + 10
				}
				if d >= int64(1)<<uint(bitsPer) {
					l.errs = append(l.errs, lexError{startLine, "digit out of range for base in " + text})
					d = 0
				}
				n.Val.Or(n.Val, big.NewInt(d))
			}
		}
		nbits = len(digits) * bitsPer
		// leading x/z digit extends when the literal is wider
		lead := digits[0] | 0x20
		if lead == 'x' || lead == 'z' || digits[0] == '?' {
			n.fillXZ = true
			n.fillIsX = lead == 'x'
		}
	}
	if sizeText != "" {
		w := 0
		fmt.Sscanf(sizeText, "%d", &w)
		if w <= 0 || w > 1<<20 {
			l.errs = append(l.errs, lexError{startLine, "bad literal size in " + text})
			w = 1
		}
		n.Width = w
		n.Sized = true
		if n.fillXZ && nbits < w {
			// extend x / z to the left
			ext := new(big.Int).Lsh(big.NewInt(1), uint(w))
			ext.Sub(ext, big.NewInt(1))
			low := new(big.Int).Lsh(big.NewInt(1), uint(nbits))
			low.Sub(low, big.NewInt(1))
			ext.AndNot(ext, low)
			if base == 'd' {
				if n.XMask.Sign() != 0 {
					n.XMask.Or(n.XMask, ext)
				} else {
					n.ZMask.Or(n.ZMask, ext)
				}
			} else if n.fillIsX {
				n.XMask.Or(n.XMask, ext)
			} else {
				n.ZMask.Or(n.ZMask, ext)
			}
		}
		// truncate
		m := new(big.Int).Lsh(big.NewInt(1), uint(w))
		m.Sub(m, big.NewInt(1))
		n.Val.And(n.Val, m)
		n.XMask.And(n.XMask, m)
		n.ZMask.And(n.ZMask, m)
	} else {
		w := 32
		if nbits > 32 {
			w = nbits
		}
		n.Width = w
		if n.fillXZ && nbits < w {
			ext := new(big.Int).Lsh(big.NewInt(1), uint(w))
			ext.Sub(ext, big.NewInt(1))
			low := new(big.Int).Lsh(big.NewInt(1), uint(nbits))
			low.Sub(low, big.NewInt(1))
			ext.AndNot(ext, low)
			if base == 'd' {
				if n.XMask.Sign() != 0 {
					n.XMask.Or(n.XMask, ext)
				} else {
					n.ZMask.Or(n.ZMask, ext)
				}
			} else if n.fillIsX {
				n.XMask.Or(n.XMask, ext)
			} else {
				n.ZMask.Or(n.ZMask, ext)
			}
		}
	}
	l.toks = append(l.toks, token{kind: tNumber, text: text, line: startLine, num: n})
}

func (l *lexer) baseFollows(j int) bool {
	if j < len(l.src) && (l.src[j] == 's' || l.src[j] == 'S') {
		j++
	}
	if j >= len(l.src) {
		return false
	}
	switch l.src[j] | 0x20 {
	case 'b', 'o', 'd', 'h':
		return true
	}
	return false
}

func (l *lexer) lexExponent() bool {
	if l.pos >= len(l.src) || (l.src[l.pos] != 'e' && l.src[l.pos] != 'E') {
		return false
	}
	j := l.pos + 1
	if j < len(l.src) && (l.src[j] == '+' || l.src[j] == '-') {
		j++
	}
	if j >= len(l.src) || !isDigit(l.src[j]) {
		return false
	}
	for j < len(l.src) && (isDigit(l.src[j]) || l.src[j] == '_') {
		j++
	}
	l.pos = j
	return true
}
