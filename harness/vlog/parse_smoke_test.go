package vlog

import (
	"os"
	"strings"
	"testing"
)

func TestParseSmokeFile(t *testing.T) {
	fn := os.Getenv("VLOG_SMOKE")
	if fn == "" {
		t.Skip()
	}
	b, err := os.ReadFile(fn)
	if err != nil {
		t.Fatal(err)
	}
	d, diags := ParseDesign(map[string]string{fn: string(b)})
	for _, dg := range diags {
		t.Log(dg)
	}
	t.Log(d.ModuleNames())
	top := os.Getenv("VLOG_TOP")
	if top == "" {
		return
	}
	s, err := Elaborate(d, top, nil)
	if err != nil {
		t.Fatal(err)
	}
	t.Log(s.Signals())
	s.CaptureDisplays = true
	s.Set("reset_signal", 1)
	s.Tick("clock_signal")
	s.Set("reset_signal", 0)
	for i := 0; i < 10; i++ {
		if err := s.Tick("clock_signal"); err != nil {
			t.Fatal(err)
		}
		t.Log(i, "pc", s.Get("p0_instance._pc"), "r0", s.Get("p0_instance._r0"), "o0", s.Get("o0"), "o0_valid", s.Get("o0_valid"), s.NBAWritten("p0_instance._r0"), s.Displays())
	}
}

func TestSweepDir(t *testing.T) {
	dir := os.Getenv("VLOG_SWEEP")
	if dir == "" {
		t.Skip()
	}
	ents, _ := os.ReadDir(dir)
	for _, e := range ents {
		if len(e.Name()) < 3 || e.Name()[len(e.Name())-2:] != ".v" {
			continue
		}
		b, _ := os.ReadFile(dir + "/" + e.Name())
		d, diags := ParseDesign(map[string]string{e.Name(): string(b)})
		for _, dg := range diags {
			t.Log("PARSE ", dg)
		}
		for _, dg := range Lint(d, LintOpts{}) {
			t.Log("LINT ", dg)
		}
		if d.Module("a0") == nil {
			continue
		}
		s, err := Elaborate(d, "a0", nil)
		if err != nil {
			t.Log("ELAB ", e.Name(), err)
			continue
		}
		s.Set("reset_signal", 1)
		if err := s.Tick("clock_signal"); err != nil {
			t.Log("TICK ", e.Name(), err)
		}
		s.Set("reset_signal", 0)
		for i := 0; i < 20; i++ {
			if err := s.Tick("clock_signal"); err != nil {
				t.Log("TICK ", e.Name(), err)
				break
			}
		}
	}
}

func TestIPLintDetail(t *testing.T) {
	if os.Getenv("VLOG_IPDETAIL") == "" {
		t.Skip()
	}
	for n, v := range embeddedIP(t) {
		src := detemplate(v)
		d, _ := ParseDesign(map[string]string{n: src})
		for _, dg := range Lint(d, LintOpts{}) {
			t.Log(dg)
		}
	}
}

func TestDumpSO(t *testing.T) {
	so := os.Getenv("VLOG_SO")
	if so == "" {
		t.Skip()
	}
	ops := []string{"i2r", "r2o", "j", "nop", "rset", "inc"}
	ops = append(ops, strings.Split(os.Getenv("VLOG_SO_OPS"), ",")...)
	files, err := renderBondMachine(t, 8, []bmProc{
		{ops: ops, R: 2, N: 1, M: 1, L: 2, O: 4, prog: "nop\nj 0\n", shared: []int{0}},
		{ops: ops, R: 2, N: 1, M: 1, L: 2, O: 4, prog: "nop\nj 0\n", shared: []int{0}},
	}, 1, 1, [][2]string{{"i0", "p0i0"}, {"p0o0", "p1i0"}, {"p1o0", "o0"}}, []string{so})
	if err != nil {
		t.Fatal(err)
	}
	for n, v := range files {
		os.WriteFile("/tmp/r/so_"+n, []byte(v), 0644)
	}
}
