package vlog

import (
	"os"
	"testing"
)

func TestParseSmokeFile(t *testing.T) {
	fn := os.Getenv("VLOG_SMOKE")
	if fn == "" {
		t.Skip()
	}
	b, err := os.ReadFile(fn)
	if err != nil {
		t.Fatal(err)
	}
	d, diags := ParseDesign(map[string]string{fn: string(b)})
	for _, dg := range diags {
		t.Log(dg)
	}
	t.Log(d.ModuleNames())
}
