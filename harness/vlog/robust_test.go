package vlog

import (
	"fmt"
	"math/rand"
	"strings"
	"testing"
)

// mutate applies one random textual mutation.
func mutate(r *rand.Rand, src string) string {
	if len(src) < 10 {
		return src
	}
	lines := strings.Split(src, "\n")
	switch r.Intn(8) {
	case 0: // truncate
		return src[:r.Intn(len(src))]
	case 1: // delete a span
		a := r.Intn(len(src))
		b := a + r.Intn(40)
		if b > len(src) {
			b = len(src)
		}
		return src[:a] + src[b:]
	case 2: // duplicate a line
		i := r.Intn(len(lines))
		out := append([]string{}, lines[:i+1]...)
		out = append(out, lines[i])
		out = append(out, lines[i+1:]...)
		return strings.Join(out, "\n")
	case 3: // delete a line
		i := r.Intn(len(lines))
		return strings.Join(append(append([]string{}, lines[:i]...), lines[i+1:]...), "\n")
	case 4: // replace a character with punctuation
		p := "()[]{};:,.'`\"#@=<>+-*/%&|^~!?$\\"
		i := r.Intn(len(src))
		return src[:i] + string(p[r.Intn(len(p))]) + src[i+1:]
	case 5: // swap two lines
		i, j := r.Intn(len(lines)), r.Intn(len(lines))
		out := append([]string{}, lines...)
		out[i], out[j] = out[j], out[i]
		return strings.Join(out, "\n")
	case 6: // replace a number
		i := r.Intn(len(src))
		for k := i; k < len(src); k++ {
			if src[k] >= '0' && src[k] <= '9' {
				return src[:k] + fmt.Sprint(r.Intn(70)) + src[k+1:]
			}
		}
		return src
	default: // insert a keyword
		kws := []string{"begin", "end", "endmodule", "module", "case", "endcase", "generate", "function", "always", "if", "else", "assign", "[", "]", "1'bz", "signed", "for", "{", "}}", "(*", "*)", "/*", "`define X", "`X", "`ifdef Y"}
		i := r.Intn(len(src))
		return src[:i] + " " + kws[r.Intn(len(kws))] + " " + src[i:]
	}
}

func TestNoPanicsOnMutatedSources(t *testing.T) {
	files, err := renderProc(t, procCfg{ops: defaultOps, rsize: 8, R: 2, N: 1, M: 1, L: 2, O: 4, prog: counterProg})
	if err != nil {
		t.Fatal(err)
	}
	proc := files["a0.v"] + files["p0.v"] + files["p0rom.v"] + files["p0ram.v"]
	type seed struct{ src, top, clk string }
	seeds := []seed{
		{proc, "a0", "clock_signal"},
		{renderStack(t, "FIFO", 4, 8, 2, 2), "stk", "clk"},
		{cleanCorpus, "nonansi", "clk"},
		{ramSrc, "p0ram", "clk"},
	}
	if c, err := goStringConsts("/repo/pkg/procbuilder/files_addf32.go"); err == nil {
		seeds = append(seeds, seed{detemplate(c["addf32"]), "tmpl_ModuleName", "clk"})
	}
	r := rand.New(rand.NewSource(7))
	n, elaborated := 0, 0
	iters := 2500
	if testing.Short() {
		iters = 300
	}
	for i := 0; i < iters; i++ {
		sd := seeds[r.Intn(len(seeds))]
		src := sd.src
		for k := 0; k <= r.Intn(3); k++ {
			src = mutate(r, src)
		}
		n++
		func() {
			defer func() {
				if p := recover(); p != nil {
					t.Fatalf("panic escaped for mutation %d: %v\n----\n%s", i, p, src)
				}
			}()
			d, pd := ParseDesign(map[string]string{"m.v": src})
			for _, dg := range pd {
				if strings.Contains(dg.Msg, "internal parser panic") {
					t.Fatalf("parser panic on mutation %d: %v\n----\n%s", i, dg, src)
				}
			}
			ld := Lint(d, LintOpts{})
			for _, dg := range ld {
				if strings.Contains(dg.Msg, "internal lint panic") {
					t.Fatalf("lint panic on mutation %d: %v\n----\n%s", i, dg, src)
				}
			}
			if d.Module(sd.top) == nil {
				return
			}
			s, err := Elaborate(d, sd.top, nil)
			if err != nil {
				if strings.Contains(err.Error(), "internal error") {
					t.Fatalf("elaboration panic on mutation %d: %v\n----\n%s", i, err, src)
				}
				return
			}
			elaborated++
			if !s.Has(sd.clk) {
				return
			}
			for k := 0; k < 6; k++ {
				for _, name := range s.Signals() {
					if s.Depth(name) == 1 && r.Intn(4) == 0 && name != sd.clk && !strings.Contains(name, ".") {
						s.Set(name, r.Uint64())
					}
				}
				if err := s.Tick(sd.clk); err != nil {
					break
				}
			}
			_ = s.Clone().StateKey()
		}()
	}
	t.Logf("%d mutated sources, %d still elaborated and were simulated", n, elaborated)
}
