package vlog

import "fmt"

// lpiece is one target of an assignment (one element of a LHS concatenation).
type lpiece struct {
	st    *storage
	w     int // declared width of this piece in the LHS
	shift int // position of the piece inside the RHS value
	// constant target
	isConst bool
	drop    bool // constant target entirely out of range
	word    int
	lo      int
	cw      int // clipped width
	skip    int // source bits skipped because of clipping
	// dynamic target
	resolve func(s *Sim) (word, lo, w, skip int, ok bool)
}

type lvalue struct {
	w      int
	pieces []lpiece
}

// clip clips the bit range [lo, lo+w) to [0, ew).
func clip(lo int64, w, ew int) (clo, cw, skip int, ok bool) {
	hi := lo + int64(w)
	sl, sh := lo, hi
	if sl < 0 {
		sl = 0
	}
	if sh > int64(ew) {
		sh = int64(ew)
	}
	if sl >= sh {
		return 0, 0, 0, false
	}
	return int(sl), int(sh - sl), int(sl - lo), true
}

func (c *compiler) lvalue(e Expr, procedural bool) *lvalue {
	lv := &lvalue{}
	c.lvalueInto(e, lv, procedural)
	// compute shifts (first piece is most significant)
	pos := lv.w
	for i := range lv.pieces {
		pos -= lv.pieces[i].w
		lv.pieces[i].shift = pos
	}
	return lv
}

func (c *compiler) lvalueInto(e Expr, lv *lvalue, procedural bool) {
	if cc, ok := e.(*ConcatExpr); ok {
		for _, p := range cc.Parts {
			c.lvalueInto(p, lv, procedural)
		}
		return
	}
	line := e.exprLine()
	// analyse as a select / identifier, but the base is a write not a read
	saved := c.reads
	var t *tnode
	switch x := e.(type) {
	case *Ident:
		if len(x.Hier) > 0 {
			cfail(line, true, "hierarchical reference %s", x.Name)
		}
		o := c.sc.lookup(x.Name)
		if o == nil {
			cfail(line, false, "undeclared identifier %q", x.Name)
		}
		var sv *svar
		switch {
		case o.kind == okSig:
			sv = o.sv
		case o.kind == okFunc && c.fn != nil && c.fn == o.fn && o.fn.ret != nil:
			sv = o.fn.ret
		default:
			cfail(line, false, "%q is not assignable", x.Name)
		}
		if sv.st.isMem {
			cfail(line, false, "assignment to whole memory %q", x.Name)
		}
		c.checkAssignable(sv, x.Name, line, procedural)
		lv.pieces = append(lv.pieces, lpiece{st: sv.st, w: sv.st.width, isConst: true, cw: sv.st.width})
		lv.w += sv.st.width
		return
	case *IndexExpr, *PartExpr, *IdxPartExpr:
		// the base identifier must not be recorded as a read
		c.reads = nil
		t = c.analyzeSelectLHS(e, saved)
		c.reads = saved
	default:
		cfail(line, false, "expression is not a valid assignment target")
	}
	if t.kind != tkSel {
		cfail(line, false, "assignment target is not a variable or net")
	}
	c.checkAssignable(t.sv, t.sv.path, line, procedural)
	st := t.sv.st
	ew := st.width
	left, right := t.sv.left, t.sv.right
	p := lpiece{st: st, w: t.w}
	cbase, dynWord := c.wordSel(t)
	wordOf := func(s *Sim) (int, bool) {
		if dynWord != nil {
			b := dynWord(s)
			if b < 0 {
				return 0, false
			}
			return (b - st.off) / st.nw, true
		}
		return (cbase - st.off) / st.nw, true
	}
	constWordOK := dynWord == nil && cbase >= 0
	if dynWord == nil && cbase < 0 {
		p.isConst, p.drop = true, true
		lv.pieces = append(lv.pieces, p)
		lv.w += p.w
		return
	}
	switch t.selKind {
	case 0:
		if constWordOK {
			p.isConst = true
			p.word = (cbase - st.off) / st.nw
			p.lo, p.cw = 0, ew
		} else {
			p.resolve = func(s *Sim) (int, int, int, int, bool) {
				wd, ok := wordOf(s)
				return wd, 0, ew, 0, ok
			}
		}
	case 1:
		ix := c.genSelf(t.idx)
		if ix.isConst && constWordOK {
			v, ok := toIndex(ix)(c.el.sim)
			pos := bitPos(v, left, right)
			p.isConst = true
			if !ok || pos < 0 || pos >= int64(ew) {
				p.drop = true
			} else {
				p.word = (cbase - st.off) / st.nw
				p.lo, p.cw = int(pos), 1
			}
		} else {
			fi := toIndex(ix)
			p.resolve = func(s *Sim) (int, int, int, int, bool) {
				wd, ok := wordOf(s)
				if !ok {
					return 0, 0, 0, 0, false
				}
				v, ok := fi(s)
				if !ok {
					return 0, 0, 0, 0, false
				}
				pos := bitPos(v, left, right)
				if pos < 0 || pos >= int64(ew) {
					return 0, 0, 0, 0, false
				}
				return wd, int(pos), 1, 0, true
			}
		}
	case 2:
		pl, pr := bitPos(int64(t.pLeft), left, right), bitPos(int64(t.pRight), left, right)
		lo := pl
		if pr < lo {
			lo = pr
		}
		clo, cw, skip, ok := clip(lo, t.w, ew)
		if constWordOK {
			p.isConst = true
			if !ok {
				p.drop = true
			} else {
				p.word = (cbase - st.off) / st.nw
				p.lo, p.cw, p.skip = clo, cw, skip
			}
		} else {
			p.resolve = func(s *Sim) (int, int, int, int, bool) {
				wd, wok := wordOf(s)
				if !wok || !ok {
					return 0, 0, 0, 0, false
				}
				return wd, clo, cw, skip, true
			}
		}
	case 3:
		ix := c.genSelf(t.idx)
		fi := toIndex(ix)
		pw := t.w
		up := t.up
		p.resolve = func(s *Sim) (int, int, int, int, bool) {
			wd, ok := wordOf(s)
			if !ok {
				return 0, 0, 0, 0, false
			}
			b, ok := fi(s)
			if !ok {
				return 0, 0, 0, 0, false
			}
			var lo int64
			if left >= right {
				if up {
					lo = b - int64(right)
				} else {
					lo = b - int64(pw) + 1 - int64(right)
				}
			} else {
				if up {
					lo = int64(right) - (b + int64(pw) - 1)
				} else {
					lo = int64(right) - b
				}
			}
			clo, cw, skip, ok := clip(lo, pw, ew)
			return wd, clo, cw, skip, ok
		}
	}
	lv.pieces = append(lv.pieces, p)
	lv.w += p.w
}

// analyzeSelectLHS analyses a select used as assignment target: index
// expressions are reads (recorded into `reads`), the base is not.
func (c *compiler) analyzeSelectLHS(e Expr, reads map[int]bool) *tnode {
	// Trick: analyse with reads disabled for the base, then re-enable for index sub-expressions.
	// analyzeSelect records the base read through checkSigRead; we run it with
	// c.reads == nil and separately walk index expressions to record their reads.
	t := c.analyzeSelect(e)
	if reads != nil {
		c.reads = reads
		var walk func(x Expr)
		walk = func(x Expr) {
			switch y := x.(type) {
			case *IndexExpr:
				c.analyze(y.Idx)
				walk(y.X)
			case *PartExpr:
				walk(y.X)
			case *IdxPartExpr:
				c.analyze(y.Base)
				walk(y.X)
			}
		}
		walk(e)
		c.reads = nil
	}
	return t
}

func (c *compiler) checkAssignable(sv *svar, name string, line int, procedural bool) {
	if c.constOnly && !sv.st.local {
		cfail(line, false, "assignment to %q in a constant function", name)
	}
	// kind checks (assign-kind) are a lint matter; the simulator executes both.
}

// assignFn builds the closure performing the assignment of rhs to lv.
func (c *compiler) assignFn(lv *lvalue, rhs cexpr, nonBlocking bool) func(*Sim) {
	// fast path: single whole narrow non-memory target
	if len(lv.pieces) == 1 {
		p := lv.pieces[0]
		if p.isConst && p.drop {
			if rhs.w <= 64 {
				f := rhs.n
				return func(s *Sim) { f(s) }
			}
			f := rhs.wd
			return func(s *Sim) { f(s) }
		}
		if p.isConst && rhs.w <= 64 && p.st.nw == 1 && !p.st.isMem && p.lo == 0 && p.cw == p.st.width && p.skip == 0 {
			st := p.st
			off := st.off
			id := st.id
			f := rhs.n
			if nonBlocking {
				return func(s *Sim) {
					s.nbaGen[id] = s.gen
					s.nbaQ = append(s.nbaQ, nbaEnt{sid: int32(id), w: int32(st.width), arena: -1, val: f(s)})
				}
			}
			return func(s *Sim) {
				v := f(s)
				if s.v[off] != v {
					s.v[off] = v
					s.changed(id)
				}
			}
		}
	}
	pieces := lv.pieces
	multi := len(pieces) > 1
	var tmpOff, tmpN int
	if multi && rhs.w > 64 && !nonBlocking {
		tmpN = nwords(rhs.w)
		tmpOff = c.scratch(tmpN)
	}
	return func(s *Sim) {
		var nv uint64
		var wv []uint64
		if rhs.w <= 64 {
			nv = rhs.n(s)
		} else {
			wv = rhs.wd(s)
			if tmpN > 0 {
				buf := s.scratch[tmpOff : tmpOff+tmpN]
				copy(buf, wv)
				wv = buf
			}
		}
		// resolve all targets first (index expressions use pre-assignment values)
		type tgt struct {
			word, lo, w, skip int
			ok                bool
		}
		var tg [8]tgt
		tgs := tg[:0]
		if multi {
			for i := range pieces {
				p := &pieces[i]
				if p.isConst {
					tgs = append(tgs, tgt{p.word, p.lo, p.cw, p.skip, !p.drop})
				} else {
					wd, lo, w, sk, ok := p.resolve(s)
					tgs = append(tgs, tgt{wd, lo, w, sk, ok})
				}
			}
		}
		for i := range pieces {
			p := &pieces[i]
			var word, lo, w, skip int
			ok := true
			if multi {
				t := tgs[i]
				word, lo, w, skip, ok = t.word, t.lo, t.w, t.skip, t.ok
			} else if p.isConst {
				word, lo, w, skip, ok = p.word, p.lo, p.cw, p.skip, !p.drop
			} else {
				word, lo, w, skip, ok = p.resolve(s)
			}
			if !ok {
				if nonBlocking {
					s.nbaGen[p.st.id] = s.gen
				}
				continue
			}
			sh := p.shift + skip
			if wv == nil {
				v := nv >> uint(sh)
				if sh >= 64 {
					v = 0
				}
				if nonBlocking {
					s.schedNBA(p.st, word, lo, w, v, nil, 0)
				} else {
					s.storeBits(p.st, word, lo, w, v, nil, 0)
				}
			} else {
				if nonBlocking {
					s.schedNBA(p.st, word, lo, w, 0, wv, sh)
				} else {
					s.storeBits(p.st, word, lo, w, 0, wv, sh)
				}
			}
		}
	}
}

// ------------------------------------------------------------------ statements

type stopInitial struct{}

func (c *compiler) stmt(st Stmt) func(*Sim) {
	switch x := st.(type) {
	case nil:
		return func(*Sim) {}
	case *NullStmt:
		return func(*Sim) {}
	case *BlockStmt:
		cc := c
		if len(x.Decls) > 0 || len(x.Params) > 0 || x.Name != "" {
			name := x.Name
			if name == "" {
				c.el.anon++
				name = fmt.Sprintf("$unnamed%d", c.el.anon)
			}
			sc := newScope(c.sc, c.sc.prefix+name+".")
			if x.Name != "" {
				c.sc.define(x.Name, &object{kind: okBlock})
			}
			cc = &compiler{el: c.el, sc: sc, reads: c.reads, constOnly: c.constOnly, fn: c.fn}
			for _, pd := range x.Params {
				c.el.defineParam(cc, pd, nil)
			}
			c.el.declareVars(cc, x.Decls, c.fn != nil)
		}
		var fs []func(*Sim)
		for _, s2 := range x.Stmts {
			if _, ok := s2.(*NullStmt); ok {
				continue
			}
			fs = append(fs, cc.stmt(s2))
		}
		switch len(fs) {
		case 0:
			return func(*Sim) {}
		case 1:
			return fs[0]
		case 2:
			a, b := fs[0], fs[1]
			return func(s *Sim) { a(s); b(s) }
		}
		return func(s *Sim) {
			for _, f := range fs {
				f(s)
			}
		}
	case *IfStmt:
		cx := c.genSelf(c.analyze(x.Cond))
		cond := toBool(cx)
		th := c.stmt(x.Then)
		if x.Else == nil {
			return func(s *Sim) {
				if cond(s) {
					th(s)
				}
			}
		}
		el := c.stmt(x.Else)
		return func(s *Sim) {
			if cond(s) {
				th(s)
			} else {
				el(s)
			}
		}
	case *CaseStmt:
		return c.caseStmt(x)
	case *ForStmt:
		init := c.stmt(x.Init)
		cond := toBool(c.genSelf(c.analyze(x.Cond)))
		step := c.stmt(x.Step)
		body := c.stmt(x.Body)
		return func(s *Sim) {
			init(s)
			for n := 0; cond(s); n++ {
				if n > loopBound || s.err != nil || len(s.nbaQ) > nbaBound {
					s.fail(ErrLoopBound)
					return
				}
				body(s)
				step(s)
			}
		}
	case *WhileStmt:
		cond := toBool(c.genSelf(c.analyze(x.Cond)))
		body := c.stmt(x.Body)
		return func(s *Sim) {
			for n := 0; cond(s); n++ {
				if n > loopBound || s.err != nil || len(s.nbaQ) > nbaBound {
					s.fail(ErrLoopBound)
					return
				}
				body(s)
			}
		}
	case *RepeatStmt:
		cnt := toIndex(c.genSelf(c.analyze(x.Count)))
		body := c.stmt(x.Body)
		return func(s *Sim) {
			n, ok := cnt(s)
			if !ok || n > loopBound {
				s.fail(ErrLoopBound)
				return
			}
			for i := int64(0); i < n; i++ {
				body(s)
			}
		}
	case *ForeverStmt:
		if c.el.inInitial {
			return func(*Sim) { panic(stopInitial{}) }
		}
		cfail(x.Line, true, "forever loop")
	case *AssignStmt:
		if x.EventCtl != nil {
			if c.el.inInitial {
				return func(*Sim) { panic(stopInitial{}) }
			}
			cfail(x.Line, true, "intra-assignment event control")
		}
		lv := c.lvalue(x.LHS, true)
		rhs := c.genAssign(c.analyze(x.RHS), lv.w)
		return c.assignFn(lv, rhs, x.NonBlocking)
	case *DelayStmt, *EventStmt, *WaitStmt:
		if c.el.inInitial {
			return func(*Sim) { panic(stopInitial{}) }
		}
		cfail(st.stmtLine(), true, "timing control inside a procedural block")
	case *SysCallStmt:
		return c.sysCall(x)
	case *TaskCallStmt:
		cfail(x.Line, true, "task call %s", x.Name)
	case *DisableStmt:
		cfail(x.Line, true, "disable statement")
	case *UnsupportedStmt:
		cfail(x.Line, true, "%s", x.What)
	}
	cfail(st.stmtLine(), true, "statement form %T", st)
	return nil
}

func (c *compiler) sysCall(x *SysCallStmt) func(*Sim) {
	switch x.Name {
	case "$display", "$write", "$strobe", "$monitor", "$displayb", "$displayh", "$displayo", "$writeb", "$writeh", "$writeo":
		if x.Name == "$monitor" || x.Name == "$strobe" {
			return func(*Sim) {}
		}
		var args []dispArg
		for _, a := range x.Args {
			if a == nil {
				args = append(args, dispArg{empty: true})
				continue
			}
			if sl, ok := a.(*StringLit); ok {
				args = append(args, dispArg{isStr: true, str: sl.S})
				continue
			}
			// arguments of $display do not contribute to sensitivity: use a throw-away read set
			saved := c.reads
			c.reads = nil
			var ce cexpr
			func() {
				defer func() { c.reads = saved }()
				ce = c.genSelf(c.analyze(a))
			}()
			args = append(args, dispArg{w: ce.w, signed: ce.signed, n: ce.n, wd: ce.wd})
		}
		nl := x.Name[1] == 'd'
		return func(s *Sim) {
			if s.CaptureDisplays {
				s.display(args, nl)
			}
		}
	case "$finish", "$stop":
		return func(s *Sim) { s.Finished = true }
	case "$readmemh", "$readmemb":
		cfail(x.Line, true, "%s", x.Name)
	case "$dumpfile", "$dumpvars", "$dumpon", "$dumpoff", "$dumpall", "$dumplimit", "$dumpflush", "$timeformat",
		"$fflush", "$fdisplay", "$fwrite", "$fclose", "$monitoron", "$monitoroff", "$printtimescale", "$error",
		"$warning", "$info", "$fatal":
		return func(*Sim) {}
	}
	cfail(x.Line, true, "system task %s", x.Name)
	return nil
}

// constMasks extracts x/z wildcard masks of a case item expression, extended to W bits.
func constMasks(t *tnode, W int) (x, z []uint64) {
	nw := nwords(W)
	x, z = make([]uint64, nw), make([]uint64, nw)
	var fill func(t *tnode, lo int)
	fill = func(t *tnode, lo int) {
		switch t.kind {
		case tkConst:
			if t.cv.x != nil {
				copyBitsIn(x, lo, t.cv.x, 0, min(t.w, W-lo))
			}
			if t.cv.z != nil {
				copyBitsIn(z, lo, t.cv.z, 0, min(t.w, W-lo))
			}
		case tkConcat:
			pos := t.w
			for _, k := range t.kids {
				pos -= k.w
				if lo+pos < W {
					fill(k, lo+pos)
				}
			}
		}
	}
	if t.w <= W {
		fill(t, 0)
	}
	return
}

func min(a, b int) int {
	if a < b {
		return a
	}
	return b
}

func (c *compiler) caseStmt(x *CaseStmt) func(*Sim) {
	xt := c.analyze(x.X)
	W := xt.w
	S := xt.signed
	type item struct {
		ts   []*tnode
		body func(*Sim)
	}
	var items []item
	var deflt func(*Sim)
	for _, ci := range x.Items {
		if ci.Exprs == nil {
			if deflt != nil {
				cfail(ci.Line, false, "multiple default items in case statement")
			}
			deflt = c.stmt(ci.Body)
			continue
		}
		it := item{}
		for _, e := range ci.Exprs {
			t := c.analyze(e)
			W = max(W, t.w)
			S = S && t.signed
			it.ts = append(it.ts, t)
		}
		it.body = c.stmt(ci.Body)
		items = append(items, it)
	}
	sel := c.gen(xt, W, S)
	type centry struct {
		x    cexpr
		care []uint64 // nil: all bits
		body int
	}
	var entries []centry
	allConst := true
	for bi, it := range items {
		for _, t := range it.ts {
			ce := c.gen(t, W, S)
			en := centry{x: ce, body: bi}
			if x.Kind != "case" {
				xm, zm := constMasks(t, W)
				care := make([]uint64, nwords(W))
				any := false
				for i := range care {
					wild := zm[i]
					if x.Kind == "casex" {
						wild |= xm[i]
					}
					care[i] = ^wild
					if wild != 0 {
						any = true
					}
				}
				wmaskTop(care, W)
				if any {
					en.care = care
				}
			}
			if !ce.isConst || en.care != nil {
				allConst = false
			}
			entries = append(entries, en)
		}
	}
	bodies := make([]func(*Sim), len(items))
	for i, it := range items {
		bodies[i] = it.body
	}
	if W <= 64 {
		f := sel.n
		if allConst {
			// dispatch table: first match wins
			if W <= 10 {
				tbl := make([]int16, 1<<uint(W))
				for i := range tbl {
					tbl[i] = -1
				}
				for _, en := range entries {
					v := en.x.n(c.el.sim)
					if tbl[v] < 0 {
						tbl[v] = int16(en.body)
					}
				}
				return func(s *Sim) {
					b := tbl[f(s)]
					if b >= 0 {
						bodies[b](s)
					} else if deflt != nil {
						deflt(s)
					}
				}
			}
			m := map[uint64]int{}
			for _, en := range entries {
				v := en.x.n(c.el.sim)
				if _, ok := m[v]; !ok {
					m[v] = en.body
				}
			}
			return func(s *Sim) {
				if b, ok := m[f(s)]; ok {
					bodies[b](s)
				} else if deflt != nil {
					deflt(s)
				}
			}
		}
		type nent struct {
			f    func(*Sim) uint64
			care uint64
			body int
		}
		nes := make([]nent, len(entries))
		for i, en := range entries {
			care := mask64(W)
			if en.care != nil {
				care = en.care[0]
			}
			nes[i] = nent{en.x.n, care, en.body}
		}
		return func(s *Sim) {
			v := f(s)
			for i := range nes {
				if (v^nes[i].f(s))&nes[i].care == 0 {
					bodies[nes[i].body](s)
					return
				}
			}
			if deflt != nil {
				deflt(s)
			}
		}
	}
	f := sel.wd
	return func(s *Sim) {
		v := f(s)
	next:
		for i := range entries {
			iv := entries[i].x.wd(s)
			care := entries[i].care
			for k := range v {
				d := v[k] ^ iv[k]
				if care != nil {
					d &= care[k]
				}
				if d != 0 {
					continue next
				}
			}
			bodies[entries[i].body](s)
			return
		}
		if deflt != nil {
			deflt(s)
		}
	}
}

// hasTiming reports whether a statement contains delay / event / wait controls.
func hasTiming(st Stmt) bool {
	switch x := st.(type) {
	case *DelayStmt, *EventStmt, *WaitStmt, *ForeverStmt:
		return true
	case *BlockStmt:
		for _, s := range x.Stmts {
			if hasTiming(s) {
				return true
			}
		}
	case *IfStmt:
		return hasTiming(x.Then) || hasTiming(x.Else)
	case *CaseStmt:
		for _, ci := range x.Items {
			if hasTiming(ci.Body) {
				return true
			}
		}
	case *ForStmt:
		return hasTiming(x.Body)
	case *WhileStmt:
		return hasTiming(x.Body)
	case *RepeatStmt:
		return hasTiming(x.Body)
	case *AssignStmt:
		return x.EventCtl != nil
	}
	return false
}

// forInitTargets collects variables assigned by for-loop init statements.
func forInitTargets(st Stmt, out map[string]bool) {
	switch x := st.(type) {
	case *BlockStmt:
		for _, s := range x.Stmts {
			forInitTargets(s, out)
		}
	case *IfStmt:
		forInitTargets(x.Then, out)
		forInitTargets(x.Else, out)
	case *CaseStmt:
		for _, ci := range x.Items {
			forInitTargets(ci.Body, out)
		}
	case *ForStmt:
		if x.Init != nil {
			if id, ok := x.Init.LHS.(*Ident); ok {
				out[id.Name] = true
			}
		}
		forInitTargets(x.Body, out)
	case *WhileStmt:
		forInitTargets(x.Body, out)
	case *RepeatStmt:
		forInitTargets(x.Body, out)
	}
}
