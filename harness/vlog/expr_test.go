package vlog

import (
	"fmt"
	"math/big"
	"math/rand"
	"strings"
	"testing"
)

// ---------------------------------------------------------------------------
// Independent reference for IEEE 1364-2001 expression sizing / signedness,
// written directly on math/big without sharing code with the interpreter.
// ---------------------------------------------------------------------------

type rvar struct {
	name   string
	w      int
	signed bool
}

type rnode struct {
	kind   string // var lit un red lognot bin shift cmp logic tern concat repl bitsel part idxpart cast
	op     string
	kids   []*rnode
	v      int
	w      int
	signed bool
	val    *big.Int
	text   string
	a, b   int
	up     bool
}

type rctx struct {
	vars []rvar
	env  []*big.Int
	div0 bool
}

func pow2(w int) *big.Int { return new(big.Int).Lsh(big.NewInt(1), uint(w)) }

func modw(x *big.Int, w int) *big.Int {
	m := pow2(w)
	r := new(big.Int).Mod(x, m)
	if r.Sign() < 0 {
		r.Add(r, m)
	}
	return r
}

// asSigned interprets the w-bit pattern x as two's complement.
func asSigned(x *big.Int, w int) *big.Int {
	if x.Bit(w-1) == 1 {
		return new(big.Int).Sub(x, pow2(w))
	}
	return new(big.Int).Set(x)
}

func (n *rnode) self(c *rctx) (int, bool) {
	switch n.kind {
	case "var":
		return c.vars[n.v].w, c.vars[n.v].signed
	case "lit":
		return n.w, n.signed
	case "un":
		return n.kids[0].self(c)
	case "red", "lognot", "cmp", "logic":
		return 1, false
	case "bin":
		w0, s0 := n.kids[0].self(c)
		w1, s1 := n.kids[1].self(c)
		if w1 > w0 {
			w0 = w1
		}
		return w0, s0 && s1
	case "shift":
		return n.kids[0].self(c)
	case "tern":
		w0, s0 := n.kids[1].self(c)
		w1, s1 := n.kids[2].self(c)
		if w1 > w0 {
			w0 = w1
		}
		return w0, s0 && s1
	case "concat":
		t := 0
		for _, k := range n.kids {
			w, _ := k.self(c)
			t += w
		}
		return t, false
	case "repl":
		t := 0
		for _, k := range n.kids {
			w, _ := k.self(c)
			t += w
		}
		return t * n.a, false
	case "bitsel":
		return 1, false
	case "part":
		return n.a - n.b + 1, false
	case "idxpart":
		return n.a, false
	case "cast":
		w, _ := n.kids[0].self(c)
		return w, n.op == "$signed"
	}
	panic("self: " + n.kind)
}

// evalSelf evaluates at the self-determined width and type.
func (n *rnode) evalSelf(c *rctx) *big.Int {
	w, s := n.self(c)
	return n.eval(c, w, s)
}

func isTrue(x *big.Int) bool { return x.Sign() != 0 }

func b2i(b bool) *big.Int {
	if b {
		return big.NewInt(1)
	}
	return big.NewInt(0)
}

// extendTo converts the self-determined value x of width w to width W; sign extension iff S.
func extendTo(x *big.Int, w, W int, S bool) *big.Int {
	if S {
		return modw(asSigned(x, w), W)
	}
	return modw(x, W)
}

// eval evaluates n in a context of width W (>= self width) and type S.
func (n *rnode) eval(c *rctx, W int, S bool) *big.Int {
	switch n.kind {
	case "un":
		k := n.kids[0].eval(c, W, S)
		switch n.op {
		case "+":
			return k
		case "-":
			return modw(new(big.Int).Neg(k), W)
		case "~":
			return modw(new(big.Int).Not(k), W)
		}
	case "bin":
		a := n.kids[0].eval(c, W, S)
		b := n.kids[1].eval(c, W, S)
		switch n.op {
		case "+":
			return modw(new(big.Int).Add(a, b), W)
		case "-":
			return modw(new(big.Int).Sub(a, b), W)
		case "*":
			return modw(new(big.Int).Mul(a, b), W)
		case "&":
			return new(big.Int).And(a, b)
		case "|":
			return new(big.Int).Or(a, b)
		case "^":
			return new(big.Int).Xor(a, b)
		case "~^", "^~":
			return modw(new(big.Int).Not(new(big.Int).Xor(a, b)), W)
		case "/", "%":
			if b.Sign() == 0 {
				c.div0 = true
				return big.NewInt(0)
			}
			if S {
				a, b = asSigned(a, W), asSigned(b, W)
			}
			q, r := new(big.Int).QuoRem(a, b, new(big.Int)) // truncation toward zero
			if n.op == "/" {
				return modw(q, W)
			}
			return modw(r, W)
		}
	case "shift":
		a := n.kids[0].eval(c, W, S)
		sh := n.kids[1].evalSelf(c) // always unsigned
		if sh.Cmp(big.NewInt(int64(W))) >= 0 {
			if n.op == ">>>" && S && a.Bit(W-1) == 1 {
				return modw(big.NewInt(-1), W)
			}
			return big.NewInt(0)
		}
		k := uint(sh.Int64())
		switch n.op {
		case "<<", "<<<":
			return modw(new(big.Int).Lsh(a, k), W)
		case ">>":
			return new(big.Int).Rsh(a, k)
		case ">>>":
			if S {
				return modw(new(big.Int).Rsh(asSigned(a, W), k), W) // big.Int Rsh is arithmetic
			}
			return new(big.Int).Rsh(a, k)
		}
	case "tern":
		if isTrue(n.kids[0].evalSelf(c)) {
			return n.kids[1].eval(c, W, S)
		}
		return n.kids[2].eval(c, W, S)
	}
	// self-determined operands
	w, _ := n.self(c)
	var x *big.Int
	switch n.kind {
	case "var":
		x = new(big.Int).Set(c.env[n.v])
	case "lit":
		x = new(big.Int).Set(n.val)
	case "red":
		kw, _ := n.kids[0].self(c)
		k := n.kids[0].evalSelf(c)
		ones := 0
		for i := 0; i < kw; i++ {
			ones += int(k.Bit(i))
		}
		var r bool
		switch n.op {
		case "&":
			r = ones == kw
		case "~&":
			r = ones != kw
		case "|":
			r = ones != 0
		case "~|":
			r = ones == 0
		case "^":
			r = ones%2 == 1
		case "~^", "^~":
			r = ones%2 == 0
		}
		x = b2i(r)
	case "lognot":
		x = b2i(!isTrue(n.kids[0].evalSelf(c)))
	case "logic":
		a := isTrue(n.kids[0].evalSelf(c))
		if n.op == "&&" {
			x = b2i(a && isTrue(n.kids[1].evalSelf(c)))
		} else {
			x = b2i(a || isTrue(n.kids[1].evalSelf(c)))
		}
	case "cmp":
		w0, s0 := n.kids[0].self(c)
		w1, s1 := n.kids[1].self(c)
		cw := w0
		if w1 > cw {
			cw = w1
		}
		cs := s0 && s1
		a := n.kids[0].eval(c, cw, cs)
		b := n.kids[1].eval(c, cw, cs)
		if cs {
			a, b = asSigned(a, cw), asSigned(b, cw)
		}
		r := a.Cmp(b)
		switch n.op {
		case "==", "===":
			x = b2i(r == 0)
		case "!=", "!==":
			x = b2i(r != 0)
		case "<":
			x = b2i(r < 0)
		case "<=":
			x = b2i(r <= 0)
		case ">":
			x = b2i(r > 0)
		case ">=":
			x = b2i(r >= 0)
		}
	case "concat", "repl":
		acc := new(big.Int)
		for _, k := range n.kids {
			kw, _ := k.self(c)
			acc.Lsh(acc, uint(kw))
			acc.Or(acc, k.evalSelf(c))
		}
		if n.kind == "repl" {
			iw := w / n.a
			one := new(big.Int).Set(acc)
			for i := 1; i < n.a; i++ {
				acc.Lsh(acc, uint(iw))
				acc.Or(acc, one)
			}
		}
		x = acc
	case "bitsel":
		// variables are declared [w-1:0]
		idx := n.kids[0]
		iw, is := idx.self(c)
		iv := idx.evalSelf(c)
		if is {
			iv = asSigned(iv, iw)
		}
		vw := c.vars[n.v].w
		if iv.Sign() < 0 || iv.Cmp(big.NewInt(int64(vw))) >= 0 {
			x = big.NewInt(0)
		} else {
			x = big.NewInt(int64(c.env[n.v].Bit(int(iv.Int64()))))
		}
	case "part":
		x = modw(new(big.Int).Rsh(c.env[n.v], uint(n.b)), n.a-n.b+1)
	case "idxpart":
		idx := n.kids[0]
		iw, is := idx.self(c)
		iv := idx.evalSelf(c)
		if is {
			iv = asSigned(iv, iw)
		}
		vw := c.vars[n.v].w
		x = new(big.Int)
		if iv.IsInt64() && iv.Int64() > -1000 && iv.Int64() < 1000 {
			base := int(iv.Int64())
			lo := base
			if !n.up {
				lo = base - n.a + 1
			}
			for i := 0; i < n.a; i++ {
				p := lo + i
				if p >= 0 && p < vw && c.env[n.v].Bit(p) == 1 {
					x.SetBit(x, i, 1)
				}
			}
		}
	case "cast":
		x = n.kids[0].evalSelf(c)
	default:
		panic("eval: " + n.kind)
	}
	return extendTo(x, w, W, S)
}

func (n *rnode) render(c *rctx) string {
	switch n.kind {
	case "var":
		return c.vars[n.v].name
	case "lit":
		return n.text
	case "un", "red":
		return "(" + n.op + "(" + n.kids[0].render(c) + "))"
	case "lognot":
		return "(!(" + n.kids[0].render(c) + "))"
	case "bin", "shift", "cmp", "logic":
		return "(" + n.kids[0].render(c) + " " + n.op + " " + n.kids[1].render(c) + ")"
	case "tern":
		return "(" + n.kids[0].render(c) + " ? " + n.kids[1].render(c) + " : " + n.kids[2].render(c) + ")"
	case "concat":
		var p []string
		for _, k := range n.kids {
			p = append(p, k.render(c))
		}
		return "{" + strings.Join(p, ", ") + "}"
	case "repl":
		var p []string
		for _, k := range n.kids {
			p = append(p, k.render(c))
		}
		return fmt.Sprintf("{%d{%s}}", n.a, strings.Join(p, ", "))
	case "bitsel":
		return fmt.Sprintf("%s[%s]", c.vars[n.v].name, n.kids[0].render(c))
	case "part":
		return fmt.Sprintf("%s[%d:%d]", c.vars[n.v].name, n.a, n.b)
	case "idxpart":
		d := "-:"
		if n.up {
			d = "+:"
		}
		return fmt.Sprintf("%s[%s %s %d]", c.vars[n.v].name, n.kids[0].render(c), d, n.a)
	case "cast":
		return n.op + "(" + n.kids[0].render(c) + ")"
	}
	panic("render")
}

// ---------------------------------------------------------------------------
// random generation
// ---------------------------------------------------------------------------

func randBig(r *rand.Rand, w int) *big.Int {
	x := new(big.Int)
	switch r.Intn(6) {
	case 0:
		return x
	case 1:
		return new(big.Int).Sub(pow2(w), big.NewInt(1))
	case 2:
		return modw(big.NewInt(int64(r.Intn(4))), w)
	case 3:
		return new(big.Int).Rsh(pow2(w), 1) // sign bit only
	}
	for i := 0; i < w; i += 32 {
		x.Lsh(x, 32)
		x.Or(x, big.NewInt(int64(r.Uint32())))
	}
	return modw(x, w)
}

func genLit(r *rand.Rand) *rnode {
	n := &rnode{kind: "lit"}
	switch r.Intn(5) {
	case 0: // unsized decimal
		v := int64(r.Intn(300))
		if r.Intn(4) == 0 {
			v = int64(r.Int31())
		}
		n.w, n.signed, n.val = 32, true, big.NewInt(v)
		n.text = fmt.Sprint(v)
	case 1: // unsized based
		v := int64(r.Uint32())
		n.w, n.signed, n.val = 32, false, big.NewInt(v)
		n.text = fmt.Sprintf("'h%x", v)
	case 2: // sized signed
		w := 1 + r.Intn(70)
		n.w, n.signed, n.val = w, true, randBig(r, w)
		n.text = fmt.Sprintf("%d'sh%s", w, n.val.Text(16))
	default:
		w := 1 + r.Intn(70)
		n.w, n.signed, n.val = w, false, randBig(r, w)
		switch r.Intn(3) {
		case 0:
			n.text = fmt.Sprintf("%d'b%s", w, n.val.Text(2))
		case 1:
			n.text = fmt.Sprintf("%d'd%s", w, n.val.Text(10))
		default:
			n.text = fmt.Sprintf("%d'h%s", w, n.val.Text(16))
		}
	}
	return n
}

func smallLit(r *rand.Rand, max int) *rnode {
	v := int64(r.Intn(max))
	return &rnode{kind: "lit", w: 32, signed: true, val: big.NewInt(v), text: fmt.Sprint(v)}
}

func genExpr(r *rand.Rand, c *rctx, depth int) *rnode {
	if depth <= 0 || r.Intn(7) == 0 {
		if r.Intn(4) == 0 {
			return genLit(r)
		}
		return &rnode{kind: "var", v: r.Intn(len(c.vars))}
	}
	sub := func() *rnode { return genExpr(r, c, depth-1) }
	switch k := r.Intn(30); {
	case k < 8:
		ops := []string{"+", "-", "*", "&", "|", "^", "~^", "/", "%", "+", "-", "^~"}
		return &rnode{kind: "bin", op: ops[r.Intn(len(ops))], kids: []*rnode{sub(), sub()}}
	case k < 10:
		ops := []string{"+", "-", "~"}
		return &rnode{kind: "un", op: ops[r.Intn(len(ops))], kids: []*rnode{sub()}}
	case k < 12:
		ops := []string{"&", "|", "^", "~&", "~|", "~^", "^~"}
		return &rnode{kind: "red", op: ops[r.Intn(len(ops))], kids: []*rnode{sub()}}
	case k < 13:
		return &rnode{kind: "lognot", kids: []*rnode{sub()}}
	case k < 16:
		ops := []string{"<<", ">>", "<<<", ">>>", ">>>"}
		amt := sub()
		if r.Intn(2) == 0 {
			amt = smallLit(r, 80)
		}
		return &rnode{kind: "shift", op: ops[r.Intn(len(ops))], kids: []*rnode{sub(), amt}}
	case k < 19:
		ops := []string{"<", "<=", ">", ">=", "==", "!=", "===", "!=="}
		return &rnode{kind: "cmp", op: ops[r.Intn(len(ops))], kids: []*rnode{sub(), sub()}}
	case k < 20:
		ops := []string{"&&", "||"}
		return &rnode{kind: "logic", op: ops[r.Intn(2)], kids: []*rnode{sub(), sub()}}
	case k < 22:
		return &rnode{kind: "tern", kids: []*rnode{sub(), sub(), sub()}}
	case k < 24:
		n := &rnode{kind: "concat"}
		for i := 0; i < 1+r.Intn(3); i++ {
			n.kids = append(n.kids, sub())
		}
		return n
	case k < 25:
		n := &rnode{kind: "repl", a: 1 + r.Intn(3)}
		for i := 0; i < 1+r.Intn(2); i++ {
			n.kids = append(n.kids, sub())
		}
		return n
	case k < 26:
		v := r.Intn(len(c.vars))
		idx := sub()
		if r.Intn(2) == 0 {
			idx = smallLit(r, c.vars[v].w+2)
		}
		return &rnode{kind: "bitsel", v: v, kids: []*rnode{idx}}
	case k < 27:
		v := r.Intn(len(c.vars))
		b := r.Intn(c.vars[v].w)
		a := b + r.Intn(c.vars[v].w-b)
		return &rnode{kind: "part", v: v, a: a, b: b}
	case k < 28:
		v := r.Intn(len(c.vars))
		idx := sub()
		if r.Intn(2) == 0 {
			idx = smallLit(r, c.vars[v].w+4)
		}
		return &rnode{kind: "idxpart", v: v, a: 1 + r.Intn(c.vars[v].w+3), up: r.Intn(2) == 0, kids: []*rnode{idx}}
	default:
		ops := []string{"$signed", "$unsigned"}
		return &rnode{kind: "cast", op: ops[r.Intn(2)], kids: []*rnode{sub()}}
	}
}

func TestExprRandomVsReference(t *testing.T) {
	const (
		nModules = 320
		nOutputs = 16
		nVectors = 5
	)
	total := 0
	for mod := 0; mod < nModules; mod++ {
		r := rand.New(rand.NewSource(int64(1000 + mod)))
		c := &rctx{}
		nv := 3 + r.Intn(5)
		for i := 0; i < nv; i++ {
			c.vars = append(c.vars, rvar{name: fmt.Sprintf("a%d", i), w: 1 + r.Intn(70), signed: r.Intn(3) == 0})
		}
		type outp struct {
			w      int
			signed bool
			e      *rnode
			proc   bool
		}
		var outs []outp
		for len(outs) < nOutputs {
			e := genExpr(r, c, 1+r.Intn(4))
			if w, _ := e.self(c); w > 260 {
				continue
			}
			outs = append(outs, outp{w: 1 + r.Intn(70), signed: r.Intn(4) == 0, e: e, proc: r.Intn(3) == 0})
		}
		var sb strings.Builder
		sb.WriteString("module t(")
		for i, v := range c.vars {
			if i > 0 {
				sb.WriteString(", ")
			}
			sg := ""
			if v.signed {
				sg = "signed "
			}
			fmt.Fprintf(&sb, "input %s[%d:0] %s", sg, v.w-1, v.name)
		}
		for i, o := range outs {
			sg := ""
			if o.signed {
				sg = "signed "
			}
			kind := "wire"
			if o.proc {
				kind = "reg"
			}
			fmt.Fprintf(&sb, ", output %s %s[%d:0] y%d", kind, sg, o.w-1, i)
		}
		sb.WriteString(");\n")
		for i, o := range outs {
			if o.proc {
				fmt.Fprintf(&sb, "  always @* y%d = %s;\n", i, o.e.render(c))
			} else {
				fmt.Fprintf(&sb, "  assign y%d = %s;\n", i, o.e.render(c))
			}
		}
		sb.WriteString("endmodule\n")
		src := sb.String()
		d, diags := ParseDesign(map[string]string{"t.v": src})
		if len(diags) > 0 {
			t.Fatalf("module %d: parse diags %v\n%s", mod, diags, src)
		}
		if ld := Lint(d, LintOpts{}); len(ld) > 0 {
			t.Fatalf("module %d: lint diags %v\n%s", mod, ld, src)
		}
		sim, err := Elaborate(d, "t", nil)
		if err != nil {
			t.Fatalf("module %d: elaborate: %v\n%s", mod, err, src)
		}
		for vec := 0; vec < nVectors; vec++ {
			c.env = c.env[:0]
			for _, v := range c.vars {
				x := randBig(r, v.w)
				c.env = append(c.env, x)
				sim.SetBig(v.name, x)
			}
			before := sim.DivByZero
			if err := sim.Settle(); err != nil {
				t.Fatalf("module %d: settle: %v\n%s", mod, err, src)
			}
			anyDiv0 := false
			for i, o := range outs {
				c.div0 = false
				sw, ss := o.e.self(c)
				W := sw
				if o.w > W {
					W = o.w
				}
				want := modw(o.e.eval(c, W, ss), o.w)
				got := sim.GetBig(fmt.Sprintf("y%d", i))
				if c.div0 {
					anyDiv0 = true
				}
				total++
				if want.Cmp(got) != 0 {
					var env []string
					for k, v := range c.vars {
						env = append(env, fmt.Sprintf("%s(w=%d,signed=%v)=%s", v.name, v.w, v.signed, c.env[k].Text(16)))
					}
					t.Fatalf("module %d vector %d output y%d (w=%d):\n  expr: %s\n  env: %s\n  want %s\n  got  %s",
						mod, vec, i, o.w, o.e.render(c), strings.Join(env, " "), want.Text(16), got.Text(16))
				}
			}
			_ = before
			if anyDiv0 && sim.DivByZero == 0 {
				t.Fatalf("module %d vector %d: reference saw a division by zero but DivByZero did not increase\n%s", mod, vec, src)
			}
		}
	}
	t.Logf("%d expression evaluations checked against the big.Int reference", total)
	if total < 20000 {
		t.Fatalf("only %d cases", total)
	}
}
