package vlog

import (
	"fmt"
	"sort"
)

// DiagClass classifies a diagnostic.
type DiagClass string

const (
	ClassSyntax      DiagClass = "syntax"
	ClassUndeclared  DiagClass = "undeclared"
	ClassUndefModule DiagClass = "undefined-module"
	ClassPortCount   DiagClass = "port-count"
	ClassAssignKind  DiagClass = "assign-kind"
	ClassMultiDriver DiagClass = "multi-driver"
	ClassUnsupported DiagClass = "unsupported"
)

// Diag is one diagnostic.
type Diag struct {
	Class  DiagClass
	File   string
	Line   int
	Module string
	Msg    string
	Ident  string
}

func (d Diag) String() string {
	return fmt.Sprintf("%s:%d: [%s] module %s: %s", d.File, d.Line, d.Class, d.Module, d.Msg)
}

type parseErr struct {
	line int
	msg  string
}

const maxNesting = 300

type parser struct {
	toks  []token
	p     int
	file  string
	diags []Diag
	depth int
	mod   *Module
}

// ParseDesign parses all files (in sorted file-name order). It never panics:
// syntax errors become Diags of ClassSyntax and parsing continues with the
// next module / file.
func ParseDesign(files map[string]string) (*Design, []Diag) {
	return ParseDesignOpts(files, ParseOpts{})
}

// ParseOpts tunes ParseDesignOpts.
type ParseOpts struct {
	// HonorTranslateOff makes the parser skip "// synthesis translate_off" ...
	// "// synthesis translate_on" regions like a synthesis tool does (a
	// ClassUnsupported diag records every skipped region). A simulator does
	// not skip them, so the default is false.
	HonorTranslateOff bool
	// Defines are predefined macros (`ifdef / `NAME).
	Defines map[string]string
}

// ParseDesignOpts is ParseDesign with options.
func ParseDesignOpts(files map[string]string, o ParseOpts) (*Design, []Diag) {
	d := &Design{mods: map[string]*Module{}, broken: map[string]bool{}}
	var diags []Diag
	names := make([]string, 0, len(files))
	for n := range files {
		names = append(names, n)
	}
	sort.Strings(names)
	for _, fn := range names {
		diags = append(diags, parseFile(d, fn, files[fn], o)...)
	}
	return d, diags
}

func parseFile(d *Design, fn, src string, o ParseOpts) (diags []Diag) {
	defer func() {
		if r := recover(); r != nil {
			diags = append(diags, Diag{Class: ClassUnsupported, File: fn, Line: 0, Msg: fmt.Sprintf("internal parser panic: %v", r)})
		}
	}()
	var defs map[string]string
	if o.Defines != nil {
		defs = map[string]string{}
		for k, v := range o.Defines {
			defs[k] = v
		}
	}
	lx := lexAll(src, defs, o.HonorTranslateOff)
	for _, e := range lx.errs {
		diags = append(diags, Diag{Class: ClassSyntax, File: fn, Line: e.line, Msg: e.msg})
	}
	for _, e := range lx.unsup {
		diags = append(diags, Diag{Class: ClassUnsupported, File: fn, Line: e.line, Msg: e.msg})
	}
	ps := &parser{toks: lx.toks, file: fn}
	ps.parseTop(d)
	diags = append(diags, ps.diags...)
	return diags
}

// ------------------------------------------------------------ helpers

func (ps *parser) cur() token { return ps.toks[ps.p] }
func (ps *parser) peek(n int) token {
	if ps.p+n < len(ps.toks) {
		return ps.toks[ps.p+n]
	}
	return ps.toks[len(ps.toks)-1]
}
func (ps *parser) next() token {
	t := ps.toks[ps.p]
	if ps.p < len(ps.toks)-1 {
		ps.p++
	}
	return t
}
func (ps *parser) fail(format string, a ...interface{}) {
	panic(&parseErr{ps.cur().line, fmt.Sprintf(format, a...)})
}
func (ps *parser) isOp(s string) bool {
	t := ps.cur()
	return t.kind == tOp && t.text == s
}
func (ps *parser) isKw(s string) bool {
	t := ps.cur()
	if t.kind == tKeyword {
		return t.text == s
	}
	if t.kind == tIdent && t.text == s && svSoft[s] {
		return ps.svWordHere() == s
	}
	return false
}

// SystemVerilog words are ordinary identifiers in Verilog-2001. They are
// recognised as "soft keywords" only where the following tokens have the shape
// of the SystemVerilog construct, so that legal Verilog-2001 code using e.g.
// "bit" or "logic" as a name keeps parsing.
var svTypeWords = map[string]bool{"logic": true, "bit": true, "int": true, "byte": true, "shortint": true, "longint": true}

var svSoft = map[string]bool{"logic": true, "bit": true, "int": true, "byte": true, "shortint": true, "longint": true,
	"always_comb": true, "always_ff": true, "always_latch": true, "typedef": true, "import": true,
	"unique": true, "priority": true}

// svDistinct are identifiers that practically only occur in SystemVerilog
// sources; a module that fails to parse and contains one of them is reported
// as unsupported instead of as a syntax defect.
var svDistinct = map[string]bool{"always_comb": true, "always_ff": true, "always_latch": true, "logic": true,
	"typedef": true, "enum": true, "struct": true, "modport": true, "endinterface": true, "endpackage": true,
	"assert": true, "property": true, "endproperty": true, "unique": true, "priority": true, "endclass": true}

// svWordHere returns the SystemVerilog soft keyword at the current position ("" if none).
func (ps *parser) svWordHere() string {
	t := ps.cur()
	if t.kind != tIdent || !svSoft[t.text] {
		return ""
	}
	nx := ps.peek(1)
	switch {
	case svTypeWords[t.text]:
		// type name followed by [range] name | signed | name followed by ; , = [ )
		i := 1
		if nx.kind == tKeyword && (nx.text == "signed" || nx.text == "unsigned") {
			return t.text
		}
		for ps.peek(i).kind == tOp && ps.peek(i).text == "[" {
			depth := 0
			for {
				x := ps.peek(i)
				if x.kind == tEOF {
					return ""
				}
				if x.kind == tOp && x.text == "[" {
					depth++
				} else if x.kind == tOp && x.text == "]" {
					depth--
					if depth == 0 {
						i++
						break
					}
				}
				i++
				if i > 200 {
					return ""
				}
			}
		}
		if ps.peek(i).kind != tIdent {
			return ""
		}
		if i > 1 {
			return t.text // had a range: "logic [3:0] x"
		}
		f := ps.peek(i + 1)
		if f.kind == tOp && (f.text == ";" || f.text == "," || f.text == "=" || f.text == "[" || f.text == ")") {
			return t.text
		}
		return ""
	case t.text == "always_comb" || t.text == "always_ff" || t.text == "always_latch":
		if nx.kind == tOp && nx.text == "@" || nx.kind == tKeyword && (nx.text == "begin" || nx.text == "if" || nx.text == "case") {
			return t.text
		}
		if nx.kind == tIdent && t.text == "always_comb" {
			f := ps.peek(2)
			if f.kind == tOp && (f.text == "=" || f.text == "<=" || f.text == "[") {
				return t.text
			}
		}
		return ""
	case t.text == "typedef":
		if nx.kind == tIdent || nx.kind == tKeyword {
			f := ps.peek(2)
			if !(f.kind == tOp && f.text == "(") {
				return t.text
			}
		}
		return ""
	case t.text == "import":
		if nx.kind == tIdent && ps.peek(2).kind == tOp && ps.peek(2).text == ":" {
			return t.text
		}
		return ""
	case t.text == "unique" || t.text == "priority":
		if nx.kind == tKeyword && (nx.text == "case" || nx.text == "casez" || nx.text == "casex" || nx.text == "if") {
			return t.text
		}
		return ""
	}
	return ""
}
func (ps *parser) acceptOp(s string) bool {
	if ps.isOp(s) {
		ps.next()
		return true
	}
	return false
}
func (ps *parser) acceptKw(s string) bool {
	if ps.isKw(s) {
		ps.next()
		return true
	}
	return false
}
func (ps *parser) expectOp(s string) {
	if !ps.acceptOp(s) {
		ps.fail("expected %q, found %s", s, ps.describe())
	}
}
func (ps *parser) expectKw(s string) {
	if !ps.acceptKw(s) {
		ps.fail("expected %q, found %s", s, ps.describe())
	}
}
func (ps *parser) describe() string {
	t := ps.cur()
	switch t.kind {
	case tEOF:
		return "end of file"
	case tString:
		return "string"
	}
	return fmt.Sprintf("%q", t.text)
}
func (ps *parser) expectIdent() string {
	t := ps.cur()
	if t.kind != tIdent {
		ps.fail("expected identifier, found %s", ps.describe())
	}
	ps.next()
	return t.text
}
func (ps *parser) enter() {
	ps.depth++
	if ps.depth > maxNesting {
		ps.fail("nesting too deep")
	}
}
func (ps *parser) leave() { ps.depth-- }

func (ps *parser) unsupported(line int, what string) {
	dg := Diag{Class: ClassUnsupported, File: ps.file, Line: line, Msg: what}
	if ps.mod != nil {
		dg.Module = ps.mod.Name
		ps.mod.Unsupported = append(ps.mod.Unsupported, dg)
	}
	ps.diags = append(ps.diags, dg)
}

// ------------------------------------------------------------ top level

func (ps *parser) parseTop(d *Design) {
	reportedStray := false
	for ps.cur().kind != tEOF {
		t := ps.cur()
		if t.kind == tKeyword && (t.text == "module" || t.text == "macromodule") {
			reportedStray = false
			ps.parseModuleSafe(d)
			continue
		}
		if (t.kind == tKeyword && (t.text == "primitive" || t.text == "config")) ||
			(t.kind == tIdent && (t.text == "package" || t.text == "interface") && ps.peek(1).kind == tIdent) {
			endkw := "end" + t.text
			ps.diags = append(ps.diags, Diag{Class: ClassUnsupported, File: ps.file, Line: t.line, Msg: t.text + " definitions are not supported"})
			for ps.cur().kind != tEOF && !(ps.cur().text == endkw && (ps.cur().kind == tKeyword || ps.cur().kind == tIdent)) {
				ps.next()
			}
			ps.next()
			continue
		}
		if !reportedStray {
			ps.diags = append(ps.diags, Diag{Class: ClassSyntax, File: ps.file, Line: t.line, Msg: "unexpected " + ps.describe() + " outside of a module"})
			reportedStray = true
		}
		ps.next()
	}
}

// svTokenInModule scans the module starting at token index start for tokens that only occur in SystemVerilog.
func (ps *parser) svTokenInModule(start int) string {
	for i := start; i < len(ps.toks); i++ {
		t := ps.toks[i]
		if t.kind == tEOF || (t.kind == tKeyword && t.text == "endmodule") {
			break
		}
		if i > start && t.kind == tKeyword && (t.text == "module" || t.text == "macromodule") {
			break
		}
		if t.kind == tIdent && svDistinct[t.text] {
			return t.text
		}
		if t.kind == tKeyword && t.text == "genvar" && i > 0 && ps.toks[i-1].kind == tOp && ps.toks[i-1].text == "(" {
			return "for (genvar"
		}
		if t.kind == tNumber && t.num != nil && t.num.Unbased {
			return t.num.Text
		}
	}
	return ""
}

func (ps *parser) parseModuleSafe(d *Design) {
	start := ps.p
	var m *Module
	ok := func() (ok bool) {
		defer func() {
			if r := recover(); r != nil {
				pe, isPE := r.(*parseErr)
				if !isPE {
					panic(r)
				}
				name := ""
				if ps.mod != nil {
					name = ps.mod.Name
				}
				class, msg := ClassSyntax, pe.msg
				if w := ps.svTokenInModule(start); w != "" {
					class = ClassUnsupported
					msg = "SystemVerilog source ('" + w + "'): " + msg
				}
				ps.diags = append(ps.diags, Diag{Class: class, File: ps.file, Line: pe.line, Module: name, Msg: msg})
				ok = false
			}
		}()
		m = ps.parseModule()
		return true
	}()
	ps.depth = 0
	if !ok {
		if ps.mod != nil && ps.mod.Name != "" {
			d.broken[ps.mod.Name] = true
		}
		ps.mod = nil
		// resynchronise: skip to endmodule
		if ps.p == start {
			ps.next()
		}
		for ps.cur().kind != tEOF && !ps.isKw("endmodule") {
			if ps.isKw("module") || ps.isKw("macromodule") {
				return
			}
			ps.next()
		}
		ps.acceptKw("endmodule")
		return
	}
	ps.mod = nil
	if _, dup := d.mods[m.Name]; dup {
		ps.diags = append(ps.diags, Diag{Class: ClassSyntax, File: ps.file, Line: m.Line, Module: m.Name, Msg: "duplicate definition of module " + m.Name, Ident: m.Name})
		return
	}
	d.mods[m.Name] = m
	d.order = append(d.order, m.Name)
}

var netTypes = map[string]bool{"wire": true, "tri": true, "tri0": true, "tri1": true, "wand": true, "wor": true,
	"triand": true, "trior": true, "supply0": true, "supply1": true, "trireg": true}

var gateTypes = map[string]bool{"and": true, "nand": true, "or": true, "nor": true, "xor": true, "xnor": true,
	"buf": true, "not": true, "bufif0": true, "bufif1": true, "notif0": true, "notif1": true, "nmos": true, "pmos": true,
	"rnmos": true, "rpmos": true, "cmos": true, "rcmos": true, "tran": true, "rtran": true, "tranif0": true,
	"tranif1": true, "rtranif0": true, "rtranif1": true, "pullup": true, "pulldown": true}

func (ps *parser) parseModule() *Module {
	t := ps.next() // module
	m := &Module{File: ps.file, Line: t.line}
	ps.mod = m
	m.Name = ps.expectIdent()
	// header parameters
	if ps.acceptOp("#") {
		ps.expectOp("(")
		if !ps.isOp(")") {
			for {
				local := false
				if ps.acceptKw("parameter") {
				} else if ps.acceptKw("localparam") {
					local = true
				}
				pds := ps.parseParamAssignments(local, true, true)
				for _, pd := range pds {
					m.Items = append(m.Items, pd)
				}
				if !ps.acceptOp(",") {
					break
				}
			}
		}
		ps.expectOp(")")
	}
	if ps.acceptOp("(") {
		if !ps.isOp(")") {
			if ps.isKw("input") || ps.isKw("output") || ps.isKw("inout") {
				m.ANSI = true
				ps.parseANSIPorts(m)
			} else {
				for {
					pt := ps.cur()
					if pt.kind == tIdent {
						ps.next()
						if ps.isOp("[") {
							ps.unsupported(pt.line, "port expression with select in module header")
							for !ps.isOp(",") && !ps.isOp(")") && ps.cur().kind != tEOF {
								ps.next()
							}
						}
						m.PortNames = append(m.PortNames, pt.text)
					} else if ps.isOp(".") || ps.isOp("{") {
						ps.unsupported(pt.line, "explicit port expression in module header")
						depth := 0
						for ps.cur().kind != tEOF {
							if ps.isOp("(") || ps.isOp("{") {
								depth++
							} else if ps.isOp(")") || ps.isOp("}") {
								if depth == 0 {
									break
								}
								depth--
							} else if ps.isOp(",") && depth == 0 {
								break
							}
							ps.next()
						}
					} else {
						ps.fail("expected port name, found %s", ps.describe())
					}
					if !ps.acceptOp(",") {
						break
					}
				}
			}
		}
		ps.expectOp(")")
	}
	ps.expectOp(";")
	for !ps.isKw("endmodule") {
		if ps.cur().kind == tEOF {
			ps.fail("missing endmodule for module %s", m.Name)
		}
		if ps.isKw("module") || ps.isKw("macromodule") {
			ps.fail("nested module / missing endmodule for module %s", m.Name)
		}
		ps.parseItem(&m.Items, false)
	}
	et := ps.next()
	if ps.isOp(":") && ps.peek(1).kind == tIdent {
		ps.unsupported(et.line, "SystemVerilog endmodule label")
		ps.next()
		ps.next()
	}
	ps.resolvePorts(m)
	return m
}

func (ps *parser) parseANSIPorts(m *Module) {
	var curDecl *DeclItem
	for {
		t := ps.cur()
		if t.kind == tKeyword && (t.text == "input" || t.text == "output" || t.text == "inout") {
			ps.next()
			di := &DeclItem{itemBase: itemBase{t.line}, Dir: t.text}
			if ps.cur().kind == tKeyword && netTypes[ps.cur().text] {
				di.Kind = ps.next().text
			} else if ps.acceptKw("reg") {
				di.Kind = "reg"
				di.IsReg = true
			} else if ps.isKw("integer") || ps.isKw("time") {
				di.Kind = ps.next().text
				di.IsReg = true
				if di.Kind == "integer" {
					di.Signed = true
				}
			} else if ps.isKw("logic") {
				ps.unsupported(t.line, "SystemVerilog 'logic'")
				ps.next()
				di.Kind = "reg"
				di.IsReg = true
			}
			if ps.acceptKw("signed") {
				di.Signed = true
			} else {
				ps.acceptKw("unsigned")
			}
			if ps.isOp("[") {
				di.Range = ps.parseRange()
			}
			curDecl = di
			m.Items = append(m.Items, di)
		} else if curDecl == nil {
			ps.fail("expected port direction, found %s", ps.describe())
		}
		nt := ps.cur()
		name := ps.expectIdent()
		dn := DeclName{Name: name, Line: nt.line}
		for ps.isOp("[") {
			dn.Dims = append(dn.Dims, *ps.parseRange())
		}
		if ps.acceptOp("=") {
			dn.Init = ps.parseExpr()
		}
		curDecl.Names = append(curDecl.Names, dn)
		m.PortNames = append(m.PortNames, name)
		if !ps.acceptOp(",") {
			break
		}
	}
}

func (ps *parser) parseRange() *Range {
	ps.expectOp("[")
	l := ps.parseExpr()
	ps.expectOp(":")
	r := ps.parseExpr()
	ps.expectOp("]")
	return &Range{l, r}
}

// parseParamAssignments parses "[signed] [integer|real|...] [range] name = expr {, name = expr}".
// In header mode the list stops before ", parameter".
func (ps *parser) parseParamAssignments(local, header bool, stopAtParamKw bool) []*ParamDecl {
	proto := ParamDecl{Local: local, Header: header}
	if ps.acceptKw("signed") {
		proto.Signed = true
	}
	if ps.isKw("integer") || ps.isKw("int") {
		ps.next()
		proto.Integer = true
		proto.Signed = true
	} else if ps.isKw("real") || ps.isKw("realtime") || ps.isKw("time") {
		ps.unsupported(ps.cur().line, "parameter of type "+ps.cur().text)
		ps.next()
	} else if ps.isKw("logic") || ps.isKw("bit") {
		ps.unsupported(ps.cur().line, "SystemVerilog typed parameter")
		ps.next()
	}
	if ps.acceptKw("signed") {
		proto.Signed = true
	}
	if ps.isOp("[") {
		proto.Range = ps.parseRange()
	}
	var out []*ParamDecl
	for {
		t := ps.cur()
		pd := proto
		pd.Line = t.line
		pd.Name = ps.expectIdent()
		if ps.acceptOp("=") {
			pd.Value = ps.parseExpr()
		} else if !header {
			ps.fail("parameter %s without a value", pd.Name)
		} else {
			ps.unsupported(t.line, "parameter without default value")
			pd.Value = &NumberLit{exprBase: exprBase{t.line}, Width: 32, Signed: true, Val: bigZero(), XMask: bigZero(), ZMask: bigZero(), Text: "0", Base: 'd'}
		}
		p2 := pd
		out = append(out, &p2)
		if ps.isOp(",") {
			if stopAtParamKw {
				nx := ps.peek(1)
				if nx.kind == tKeyword && (nx.text == "parameter" || nx.text == "localparam") {
					return out
				}
				// a new type spec after comma inside the header: "parameter A=1, integer B=2" is not legal; keep going
			}
			ps.next()
			continue
		}
		return out
	}
}

// ------------------------------------------------------------ items

func (ps *parser) parseItem(items *[]Item, inGen bool) {
	ps.enter()
	defer ps.leave()
	t := ps.cur()
	if t.kind == tOp && t.text == ";" {
		ps.next()
		return
	}
	if t.kind == tIdent {
		if ps.svWordHere() == "" {
			ps.parseInstances(items)
			return
		}
		t.kind = tKeyword // soft keyword: handled by the switch below
	}
	if t.kind == tSysIdent {
		// elaboration system task ($error, $info...) : unsupported
		ps.unsupported(t.line, "system task "+t.text+" at module level")
		ps.skipToSemi()
		return
	}
	if t.kind != tKeyword {
		ps.fail("unexpected %s in module body", ps.describe())
	}
	switch t.text {
	case "parameter", "localparam":
		ps.next()
		for _, pd := range ps.parseParamAssignments(t.text == "localparam", false, false) {
			*items = append(*items, pd)
		}
		ps.expectOp(";")
	case "input", "output", "inout":
		ps.next()
		di := &DeclItem{itemBase: itemBase{t.line}, Dir: t.text}
		if ps.cur().kind == tKeyword && netTypes[ps.cur().text] {
			di.Kind = ps.next().text
		} else if ps.acceptKw("reg") {
			di.Kind = "reg"
			di.IsReg = true
		} else if ps.isKw("integer") || ps.isKw("time") {
			di.Kind = ps.next().text
			di.IsReg = true
			if di.Kind == "integer" {
				di.Signed = true
			}
		} else if ps.isKw("logic") {
			ps.unsupported(t.line, "SystemVerilog 'logic'")
			ps.next()
			di.Kind = "reg"
			di.IsReg = true
		}
		if ps.acceptKw("signed") {
			di.Signed = true
		} else {
			ps.acceptKw("unsigned")
		}
		if ps.isOp("[") {
			di.Range = ps.parseRange()
		}
		ps.parseDeclNames(di)
		ps.expectOp(";")
		*items = append(*items, di)
	case "reg", "integer", "time", "real", "realtime", "genvar", "event", "logic", "bit", "int", "byte", "shortint", "longint":
		ps.next()
		di := &DeclItem{itemBase: itemBase{t.line}, Kind: t.text, IsReg: true}
		switch t.text {
		case "integer":
			di.Signed = true
		case "logic", "bit", "int", "byte", "shortint", "longint":
			ps.unsupported(t.line, "SystemVerilog type '"+t.text+"'")
			di.Kind = "reg"
			if t.text != "logic" && t.text != "bit" {
				di.Kind = "integer"
				di.Signed = true
			}
		case "genvar":
			di.IsReg = false
		case "real", "realtime":
			ps.unsupported(t.line, "real variables")
		case "event":
			ps.unsupported(t.line, "named events")
		}
		if ps.acceptKw("signed") {
			di.Signed = true
		} else {
			ps.acceptKw("unsigned")
		}
		if ps.isOp("[") {
			di.Range = ps.parseRange()
		}
		ps.parseDeclNames(di)
		ps.expectOp(";")
		*items = append(*items, di)
	case "assign":
		ps.next()
		if ps.isOp("(") {
			ps.unsupported(t.line, "drive strength")
			ps.skipParens()
		}
		if ps.isOp("#") {
			ps.parseDelayValue()
		}
		for {
			lt := ps.cur()
			lhs := ps.parseLvalue()
			ps.expectOp("=")
			rhs := ps.parseExpr()
			*items = append(*items, &AssignItem{itemBase{lt.line}, lhs, rhs})
			if !ps.acceptOp(",") {
				break
			}
		}
		ps.expectOp(";")
	case "always", "always_comb", "always_ff", "always_latch":
		ps.next()
		ai := &AlwaysItem{itemBase: itemBase{t.line}}
		if t.text != "always" {
			ps.unsupported(t.line, "SystemVerilog '"+t.text+"'")
		}
		st := ps.parseStmt()
		if es, ok := st.(*EventStmt); ok {
			ai.Ctl = es.Ctl
			ai.Body = es.Body
		} else {
			ai.Body = st
			if t.text == "always_comb" || t.text == "always_latch" {
				ai.Ctl = &EventCtl{Star: true}
			}
		}
		*items = append(*items, ai)
	case "initial":
		ps.next()
		st := ps.parseStmt()
		*items = append(*items, &InitialItem{itemBase{t.line}, st})
	case "generate":
		ps.next()
		gr := &GenRegion{itemBase: itemBase{t.line}}
		for !ps.isKw("endgenerate") {
			if ps.cur().kind == tEOF || ps.isKw("endmodule") {
				ps.fail("missing endgenerate")
			}
			ps.parseGenItem(&gr.Items)
		}
		ps.next()
		*items = append(*items, gr)
	case "for", "if", "case":
		ps.parseGenItem(items)
	case "begin":
		if !inGen {
			ps.fail("unexpected 'begin' in module body")
		}
		ps.parseGenItem(items)
	case "function":
		*items = append(*items, ps.parseFunction())
	case "task":
		ps.next()
		ps.unsupported(t.line, "task definitions")
		name := ""
		ps.acceptKw("automatic")
		if ps.cur().kind == tIdent {
			name = ps.cur().text
		}
		for ps.cur().kind != tEOF && !ps.isKw("endtask") {
			if ps.isKw("endmodule") {
				ps.fail("missing endtask")
			}
			ps.next()
		}
		ps.next()
		*items = append(*items, &UnsupportedItem{itemBase{t.line}, "task " + name})
	case "defparam":
		ps.unsupported(t.line, "defparam")
		ps.skipToSemi()
		*items = append(*items, &UnsupportedItem{itemBase{t.line}, "defparam"})
	case "specify":
		ps.unsupported(t.line, "specify blocks")
		for ps.cur().kind != tEOF && !ps.isKw("endspecify") {
			if ps.isKw("endmodule") {
				ps.fail("missing endspecify")
			}
			ps.next()
		}
		ps.next()
		*items = append(*items, &UnsupportedItem{itemBase{t.line}, "specify"})
	case "specparam":
		ps.unsupported(t.line, "specparam")
		ps.skipToSemi()
	case "typedef", "enum", "struct", "union", "import":
		ps.unsupported(t.line, "SystemVerilog '"+t.text+"'")
		ps.skipToSemi()
		*items = append(*items, &UnsupportedItem{itemBase{t.line}, t.text})
	default:
		if netTypes[t.text] {
			ps.next()
			di := &DeclItem{itemBase: itemBase{t.line}, Kind: t.text}
			if ps.isOp("(") {
				ps.unsupported(t.line, "drive/charge strength")
				ps.skipParens()
			}
			if ps.isKw("vectored") || ps.isKw("scalared") {
				ps.next()
			}
			if ps.acceptKw("signed") {
				di.Signed = true
			} else {
				ps.acceptKw("unsigned")
			}
			if ps.isKw("logic") {
				ps.unsupported(t.line, "SystemVerilog 'logic'")
				ps.next()
			}
			if ps.isOp("[") {
				di.Range = ps.parseRange()
			}
			if ps.isOp("#") {
				ps.parseDelayValue()
			}
			ps.parseDeclNames(di)
			ps.expectOp(";")
			*items = append(*items, di)
			return
		}
		if gateTypes[t.text] {
			ps.unsupported(t.line, "gate primitive "+t.text)
			ps.skipToSemi()
			*items = append(*items, &UnsupportedItem{itemBase{t.line}, "gate " + t.text})
			return
		}
		ps.fail("unexpected keyword %q in module body", t.text)
	}
}

func (ps *parser) skipToSemi() {
	depth := 0
	for ps.cur().kind != tEOF {
		if ps.isKw("endmodule") {
			ps.fail("missing ';'")
		}
		if ps.isOp("(") || ps.isOp("{") || ps.isOp("[") {
			depth++
		} else if ps.isOp(")") || ps.isOp("}") || ps.isOp("]") {
			depth--
		} else if ps.isOp(";") && depth <= 0 {
			ps.next()
			return
		}
		ps.next()
	}
	ps.fail("missing ';'")
}

func (ps *parser) skipParens() {
	ps.expectOp("(")
	depth := 1
	for depth > 0 {
		if ps.cur().kind == tEOF {
			ps.fail("unbalanced parentheses")
		}
		if ps.isOp("(") {
			depth++
		} else if ps.isOp(")") {
			depth--
		}
		ps.next()
	}
}

func (ps *parser) parseDeclNames(di *DeclItem) {
	for {
		t := ps.cur()
		dn := DeclName{Line: t.line}
		dn.Name = ps.expectIdent()
		for ps.isOp("[") {
			// dimension: [a:b] or SystemVerilog [n]
			ps.next()
			l := ps.parseExpr()
			if ps.acceptOp(":") {
				r := ps.parseExpr()
				dn.Dims = append(dn.Dims, Range{l, r})
			} else {
				ps.unsupported(t.line, "SystemVerilog array dimension [n]")
				dn.Dims = append(dn.Dims, Range{&NumberLit{exprBase: exprBase{t.line}, Width: 32, Signed: true, Val: bigZero(), XMask: bigZero(), ZMask: bigZero(), Text: "0", Base: 'd'},
					&BinaryExpr{exprBase{t.line}, "-", l, &NumberLit{exprBase: exprBase{t.line}, Width: 32, Signed: true, Val: bigOne(), XMask: bigZero(), ZMask: bigZero(), Text: "1", Base: 'd'}}})
			}
			ps.expectOp("]")
		}
		if ps.acceptOp("=") {
			dn.Init = ps.parseExpr()
		}
		di.Names = append(di.Names, dn)
		if !ps.acceptOp(",") {
			return
		}
	}
}

func (ps *parser) parseDelayValue() Expr {
	ps.expectOp("#")
	t := ps.cur()
	switch {
	case t.kind == tNumber:
		ps.next()
		return t.num
	case t.kind == tReal:
		ps.next()
		return &RealLit{exprBase{t.line}, t.text}
	case t.kind == tIdent:
		ps.next()
		return &Ident{exprBase: exprBase{t.line}, Name: t.text}
	case t.kind == tOp && t.text == "(":
		ps.next()
		e := ps.parseExpr()
		for ps.acceptOp(",") || ps.acceptOp(":") {
			ps.parseExpr()
		}
		ps.expectOp(")")
		return e
	}
	ps.fail("bad delay value %s", ps.describe())
	return nil
}

func (ps *parser) parseInstances(items *[]Item) {
	mt := ps.next()
	var params []Conn
	paramsNamed := false
	if ps.acceptOp("#") {
		ps.expectOp("(")
		params, paramsNamed = ps.parseConnList()
		ps.expectOp(")")
	}
	for {
		it := ps.cur()
		if it.kind != tIdent {
			ps.fail("expected instance name after module name %q, found %s", mt.text, ps.describe())
		}
		ps.next()
		inst := &InstItem{itemBase: itemBase{it.line}, ModName: mt.text, InstName: it.text, Params: params, ParamsNamed: paramsNamed}
		if ps.isOp("[") {
			inst.ArrayRange = ps.parseRange()
			ps.unsupported(it.line, "arrays of instances")
		}
		ps.expectOp("(")
		inst.Conns, inst.Named = ps.parseConnList()
		ps.expectOp(")")
		*items = append(*items, inst)
		if !ps.acceptOp(",") {
			break
		}
	}
	ps.expectOp(";")
}

// parseConnList parses named (.a(x), .b()) or positional (x, , y) connection lists up to ')'.
func (ps *parser) parseConnList() ([]Conn, bool) {
	var conns []Conn
	if ps.isOp(")") {
		return nil, false
	}
	if ps.isOp(".") {
		for {
			t := ps.cur()
			ps.expectOp(".")
			if ps.isOp("*") {
				ps.unsupported(t.line, "SystemVerilog .* connection")
				ps.next()
			} else {
				name := ps.expectIdent()
				c := Conn{Name: name, Line: t.line}
				if ps.acceptOp("(") {
					if !ps.isOp(")") {
						c.X = ps.parseExpr()
					}
					ps.expectOp(")")
				} else {
					ps.unsupported(t.line, "SystemVerilog implicit .name connection")
					c.X = &Ident{exprBase: exprBase{t.line}, Name: name}
				}
				conns = append(conns, c)
			}
			if !ps.acceptOp(",") {
				break
			}
		}
		return conns, true
	}
	for {
		t := ps.cur()
		c := Conn{Line: t.line}
		if !ps.isOp(",") && !ps.isOp(")") {
			c.X = ps.parseExpr()
		}
		conns = append(conns, c)
		if !ps.acceptOp(",") {
			break
		}
	}
	return conns, false
}

// ------------------------------------------------------------ generate

func (ps *parser) parseGenBlockOrItem() *GenBlock {
	t := ps.cur()
	gb := &GenBlock{itemBase: itemBase{t.line}}
	if ps.acceptKw("begin") {
		if ps.acceptOp(":") {
			gb.Label = ps.expectIdent()
		}
		for !ps.isKw("end") {
			if ps.cur().kind == tEOF || ps.isKw("endmodule") || ps.isKw("endgenerate") {
				ps.fail("missing 'end' of generate block")
			}
			ps.parseGenItem(&gb.Items)
		}
		ps.next()
		if ps.acceptOp(":") {
			ps.expectIdent()
		}
		return gb
	}
	ps.parseGenItem(&gb.Items)
	return gb
}

func (ps *parser) parseGenItem(items *[]Item) {
	ps.enter()
	defer ps.leave()
	t := ps.cur()
	if t.kind != tKeyword {
		ps.parseItem(items, true)
		return
	}
	switch t.text {
	case "for":
		ps.next()
		gf := &GenFor{itemBase: itemBase{t.line}}
		ps.expectOp("(")
		if ps.acceptKw("genvar") {
			ps.unsupported(t.line, "SystemVerilog inline genvar declaration")
		}
		gf.Var = ps.expectIdent()
		ps.expectOp("=")
		gf.Init = ps.parseExpr()
		ps.expectOp(";")
		gf.Cond = ps.parseExpr()
		ps.expectOp(";")
		gf.StepVar = ps.expectIdent()
		ps.expectOp("=")
		gf.Step = ps.parseExpr()
		ps.expectOp(")")
		gb := ps.parseGenBlockOrItem()
		gf.Label = gb.Label
		gf.Items = gb.Items
		*items = append(*items, gf)
	case "if":
		ps.next()
		gi := &GenIf{itemBase: itemBase{t.line}}
		ps.expectOp("(")
		gi.Cond = ps.parseExpr()
		ps.expectOp(")")
		gi.Then = ps.parseGenBlockOrItem()
		if ps.acceptKw("else") {
			gi.Else = ps.parseGenBlockOrItem()
		}
		*items = append(*items, gi)
	case "case":
		ps.next()
		gc := &GenCase{itemBase: itemBase{t.line}}
		ps.expectOp("(")
		gc.X = ps.parseExpr()
		ps.expectOp(")")
		for !ps.isKw("endcase") {
			if ps.cur().kind == tEOF || ps.isKw("endmodule") {
				ps.fail("missing endcase")
			}
			var ci GenCaseItem
			if ps.acceptKw("default") {
				ps.acceptOp(":")
			} else {
				for {
					ci.Exprs = append(ci.Exprs, ps.parseExpr())
					if !ps.acceptOp(",") {
						break
					}
				}
				ps.expectOp(":")
			}
			ci.Body = ps.parseGenBlockOrItem()
			gc.Items = append(gc.Items, ci)
		}
		ps.next()
		*items = append(*items, gc)
	case "begin":
		gb := ps.parseGenBlockOrItem()
		*items = append(*items, gb)
	default:
		ps.parseItem(items, true)
	}
}

// ------------------------------------------------------------ functions

func (ps *parser) parseFunction() *FuncDecl {
	t := ps.next() // function
	fd := &FuncDecl{itemBase: itemBase{t.line}}
	if ps.acceptKw("automatic") {
		fd.Automatic = true
	}
	if ps.acceptKw("signed") {
		fd.Signed = true
	}
	if ps.acceptKw("integer") {
		fd.Integer = true
		fd.Signed = true
	} else if ps.isKw("real") || ps.isKw("realtime") || ps.isKw("time") {
		ps.unsupported(t.line, "function returning "+ps.cur().text)
		ps.next()
	} else if ps.isKw("logic") || ps.isKw("reg") {
		ps.next()
	}
	if ps.acceptKw("signed") {
		fd.Signed = true
	}
	if ps.isOp("[") {
		fd.Range = ps.parseRange()
	}
	fd.Name = ps.expectIdent()
	if ps.acceptOp("(") {
		// ANSI arguments
		var cur *DeclItem
		for !ps.isOp(")") {
			at := ps.cur()
			if ps.isKw("input") || ps.isKw("output") || ps.isKw("inout") {
				if !ps.isKw("input") {
					ps.unsupported(at.line, "function output/inout arguments")
				}
				ps.next()
				cur = &DeclItem{itemBase: itemBase{at.line}, Dir: "input", IsReg: true, Kind: "reg"}
				if ps.acceptKw("reg") || ps.acceptKw("logic") {
				}
				if ps.acceptKw("integer") {
					cur.Kind = "integer"
					cur.Signed = true
				}
				if ps.acceptKw("signed") {
					cur.Signed = true
				}
				if ps.isOp("[") {
					cur.Range = ps.parseRange()
				}
				fd.Args = append(fd.Args, cur)
			} else if cur == nil {
				ps.fail("expected 'input' in function argument list")
			}
			nt := ps.cur()
			name := ps.expectIdent()
			cur.Names = append(cur.Names, DeclName{Name: name, Line: nt.line})
			if !ps.acceptOp(",") {
				break
			}
		}
		ps.expectOp(")")
	}
	ps.expectOp(";")
	// declarations
	for {
		dt := ps.cur()
		if dt.kind != tKeyword {
			break
		}
		switch dt.text {
		case "input":
			ps.next()
			di := &DeclItem{itemBase: itemBase{dt.line}, Dir: "input", IsReg: true, Kind: "reg"}
			ps.acceptKw("reg")
			if ps.acceptKw("integer") {
				di.Kind = "integer"
				di.Signed = true
			}
			if ps.acceptKw("signed") {
				di.Signed = true
			}
			if ps.isOp("[") {
				di.Range = ps.parseRange()
			}
			ps.parseDeclNames(di)
			ps.expectOp(";")
			fd.Args = append(fd.Args, di)
			continue
		case "output", "inout":
			ps.unsupported(dt.line, "function output/inout arguments")
			ps.skipToSemi()
			continue
		case "reg", "integer", "time", "real", "realtime":
			ps.next()
			di := &DeclItem{itemBase: itemBase{dt.line}, Kind: dt.text, IsReg: true}
			if dt.text == "integer" {
				di.Signed = true
			}
			if dt.text == "real" || dt.text == "realtime" {
				ps.unsupported(dt.line, "real variables")
			}
			if ps.acceptKw("signed") {
				di.Signed = true
			}
			if ps.isOp("[") {
				di.Range = ps.parseRange()
			}
			ps.parseDeclNames(di)
			ps.expectOp(";")
			fd.Locals = append(fd.Locals, di)
			continue
		case "parameter", "localparam":
			ps.next()
			fd.Params = append(fd.Params, ps.parseParamAssignments(dt.text == "localparam", false, false)...)
			ps.expectOp(";")
			continue
		}
		break
	}
	if ps.isKw("endfunction") {
		ps.fail("function %s has no body", fd.Name)
	}
	fd.Body = ps.parseStmt()
	ps.expectKw("endfunction")
	if ps.acceptOp(":") {
		ps.expectIdent()
	}
	return fd
}

// ------------------------------------------------------------ statements

func (ps *parser) parseStmtOrNull() Stmt {
	if ps.isOp(";") {
		t := ps.next()
		return &NullStmt{stmtBase{t.line}}
	}
	return ps.parseStmt()
}

func (ps *parser) parseEventCtl() *EventCtl {
	ps.expectOp("@")
	ec := &EventCtl{}
	if ps.acceptOp("*") {
		ec.Star = true
		return ec
	}
	if ps.cur().kind == tIdent {
		e := ps.parsePrimary()
		ec.Events = append(ec.Events, EventExpr{"", e})
		return ec
	}
	ps.expectOp("(")
	if ps.acceptOp("*") {
		ps.expectOp(")")
		ec.Star = true
		return ec
	}
	for {
		ee := EventExpr{}
		if ps.acceptKw("posedge") {
			ee.Edge = "posedge"
		} else if ps.acceptKw("negedge") {
			ee.Edge = "negedge"
		}
		ee.X = ps.parseExpr()
		ec.Events = append(ec.Events, ee)
		if ps.acceptKw("or") || ps.acceptOp(",") {
			continue
		}
		break
	}
	ps.expectOp(")")
	return ec
}

func (ps *parser) parseStmt() Stmt {
	ps.enter()
	defer ps.leave()
	t := ps.cur()
	switch t.kind {
	case tKeyword:
		switch t.text {
		case "begin":
			ps.next()
			b := &BlockStmt{stmtBase: stmtBase{t.line}}
			if ps.acceptOp(":") {
				b.Name = ps.expectIdent()
			}
			// declarations
			for {
				dt := ps.cur()
				if dt.kind != tKeyword && ps.svWordHere() == "" {
					break
				}
				if dt.text == "reg" || dt.text == "integer" || dt.text == "time" || dt.text == "real" || dt.text == "realtime" || dt.text == "logic" || dt.text == "int" {
					ps.next()
					di := &DeclItem{itemBase: itemBase{dt.line}, Kind: dt.text, IsReg: true}
					if dt.text == "integer" || dt.text == "int" {
						di.Signed = true
						di.Kind = "integer"
					}
					if dt.text == "logic" || dt.text == "int" {
						ps.unsupported(dt.line, "SystemVerilog type '"+dt.text+"'")
						if dt.text == "logic" {
							di.Kind = "reg"
						}
					}
					if dt.text == "real" || dt.text == "realtime" {
						ps.unsupported(dt.line, "real variables")
					}
					if ps.acceptKw("signed") {
						di.Signed = true
					}
					if ps.isOp("[") {
						di.Range = ps.parseRange()
					}
					ps.parseDeclNames(di)
					ps.expectOp(";")
					b.Decls = append(b.Decls, di)
					continue
				}
				if dt.text == "parameter" || dt.text == "localparam" {
					ps.next()
					b.Params = append(b.Params, ps.parseParamAssignments(dt.text == "localparam", false, false)...)
					ps.expectOp(";")
					continue
				}
				break
			}
			for !ps.isKw("end") {
				if ps.cur().kind == tEOF {
					ps.fail("missing 'end'")
				}
				if ps.isKw("endmodule") || ps.isKw("endfunction") || ps.isKw("endcase") || ps.isKw("endgenerate") {
					ps.fail("missing 'end' before %q", ps.cur().text)
				}
				b.Stmts = append(b.Stmts, ps.parseStmtOrNull())
			}
			ps.next()
			if ps.acceptOp(":") {
				ps.expectIdent()
			}
			return b
		case "if":
			ps.next()
			ps.expectOp("(")
			c := ps.parseExpr()
			ps.expectOp(")")
			s := &IfStmt{stmtBase: stmtBase{t.line}, Cond: c}
			s.Then = ps.parseStmtOrNull()
			if ps.acceptKw("else") {
				s.Else = ps.parseStmtOrNull()
			}
			return s
		case "case", "casez", "casex":
			ps.next()
			cs := &CaseStmt{stmtBase: stmtBase{t.line}, Kind: t.text}
			ps.expectOp("(")
			cs.X = ps.parseExpr()
			ps.expectOp(")")
			for !ps.isKw("endcase") {
				if ps.cur().kind == tEOF || ps.isKw("endmodule") {
					ps.fail("missing endcase")
				}
				ci := CaseItem{Line: ps.cur().line}
				if ps.acceptKw("default") {
					ps.acceptOp(":")
				} else {
					for {
						ci.Exprs = append(ci.Exprs, ps.parseExpr())
						if !ps.acceptOp(",") {
							break
						}
					}
					ps.expectOp(":")
				}
				ci.Body = ps.parseStmtOrNull()
				cs.Items = append(cs.Items, ci)
			}
			ps.next()
			return cs
		case "for":
			ps.next()
			ps.expectOp("(")
			fs := &ForStmt{stmtBase: stmtBase{t.line}}
			if ps.isKw("int") || ps.isKw("integer") {
				ps.unsupported(t.line, "SystemVerilog loop variable declaration")
				ps.next()
			}
			fs.Init = ps.parsePlainAssign()
			ps.expectOp(";")
			fs.Cond = ps.parseExpr()
			ps.expectOp(";")
			fs.Step = ps.parsePlainAssign()
			ps.expectOp(")")
			fs.Body = ps.parseStmtOrNull()
			return fs
		case "while":
			ps.next()
			ps.expectOp("(")
			c := ps.parseExpr()
			ps.expectOp(")")
			return &WhileStmt{stmtBase{t.line}, c, ps.parseStmtOrNull()}
		case "repeat":
			ps.next()
			ps.expectOp("(")
			c := ps.parseExpr()
			ps.expectOp(")")
			return &RepeatStmt{stmtBase{t.line}, c, ps.parseStmtOrNull()}
		case "forever":
			ps.next()
			return &ForeverStmt{stmtBase{t.line}, ps.parseStmtOrNull()}
		case "wait":
			ps.next()
			ps.expectOp("(")
			c := ps.parseExpr()
			ps.expectOp(")")
			return &WaitStmt{stmtBase{t.line}, c, ps.parseStmtOrNull()}
		case "disable":
			ps.next()
			n := ps.expectIdent()
			for ps.acceptOp(".") {
				n += "." + ps.expectIdent()
			}
			ps.expectOp(";")
			return &DisableStmt{stmtBase{t.line}, n}
		case "fork":
			ps.next()
			for ps.cur().kind != tEOF && !ps.isKw("join") {
				if ps.isKw("endmodule") {
					ps.fail("missing join")
				}
				ps.next()
			}
			ps.next()
			return &UnsupportedStmt{stmtBase{t.line}, "fork/join"}
		case "assign", "deassign", "force", "release":
			ps.skipToSemi()
			return &UnsupportedStmt{stmtBase{t.line}, "procedural " + t.text}
		}
		ps.fail("unexpected keyword %q in statement", t.text)
	case tSysIdent:
		ps.next()
		sc := &SysCallStmt{stmtBase: stmtBase{t.line}, Name: t.text}
		if ps.acceptOp("(") {
			if !ps.isOp(")") {
				for {
					if ps.isOp(",") || ps.isOp(")") {
						sc.Args = append(sc.Args, nil)
					} else {
						sc.Args = append(sc.Args, ps.parseExpr())
					}
					if !ps.acceptOp(",") {
						break
					}
				}
			}
			ps.expectOp(")")
		}
		ps.expectOp(";")
		return sc
	case tOp:
		switch t.text {
		case "#":
			d := ps.parseDelayValue()
			ds := &DelayStmt{stmtBase: stmtBase{t.line}, Delay: d}
			ds.Body = ps.parseStmtOrNull()
			return ds
		case "@":
			ec := ps.parseEventCtl()
			es := &EventStmt{stmtBase: stmtBase{t.line}, Ctl: ec}
			es.Body = ps.parseStmtOrNull()
			return es
		case "->":
			ps.skipToSemi()
			return &UnsupportedStmt{stmtBase{t.line}, "event trigger"}
		case "{":
			a := ps.parseAssignAfterLvalue(ps.parseLvalue(), t.line)
			ps.expectOp(";")
			return a
		}
		ps.fail("unexpected %s in statement", ps.describe())
	case tIdent:
		if w := ps.svWordHere(); w == "unique" || w == "priority" {
			ps.unsupported(t.line, "SystemVerilog '"+w+"'")
			ps.next()
			return ps.parseStmt()
		}
		// task call or assignment
		nx := ps.peek(1)
		if nx.kind == tOp && nx.text == ";" && (t.text == "return" || t.text == "break" || t.text == "continue") {
			ps.next()
			ps.next()
			return &UnsupportedStmt{stmtBase{t.line}, "SystemVerilog " + t.text}
		}
		if nx.kind == tOp && (nx.text == ";" || nx.text == "(") {
			ps.next()
			tc := &TaskCallStmt{stmtBase: stmtBase{t.line}, Name: t.text}
			if ps.acceptOp("(") {
				if !ps.isOp(")") {
					for {
						tc.Args = append(tc.Args, ps.parseExpr())
						if !ps.acceptOp(",") {
							break
						}
					}
				}
				ps.expectOp(")")
			}
			ps.expectOp(";")
			return tc
		}
		a := ps.parseAssignAfterLvalue(ps.parseLvalue(), t.line)
		ps.expectOp(";")
		return a
	}
	ps.fail("unexpected %s in statement", ps.describe())
	return nil
}

// parsePlainAssign parses "lvalue = expr" (for loop init/step). Also accepts
// i++ / i-- / i += n as unsupported SystemVerilog sugar.
func (ps *parser) parsePlainAssign() *AssignStmt {
	t := ps.cur()
	lhs := ps.parseLvalue()
	if ps.isOp("+") || ps.isOp("-") {
		op := ps.cur().text
		nx := ps.peek(1)
		if nx.kind == tOp && nx.text == op {
			ps.next()
			ps.next()
			ps.unsupported(t.line, "SystemVerilog "+op+op+" operator")
			one := &NumberLit{exprBase: exprBase{t.line}, Width: 32, Signed: true, Val: bigOne(), XMask: bigZero(), ZMask: bigZero(), Text: "1", Base: 'd'}
			return &AssignStmt{stmtBase: stmtBase{t.line}, LHS: lhs, RHS: &BinaryExpr{exprBase{t.line}, op, lhs, one}}
		}
		if nx.kind == tOp && nx.text == "=" {
			ps.next()
			ps.next()
			ps.unsupported(t.line, "SystemVerilog "+op+"= operator")
			rhs := ps.parseExpr()
			return &AssignStmt{stmtBase: stmtBase{t.line}, LHS: lhs, RHS: &BinaryExpr{exprBase{t.line}, op, lhs, rhs}}
		}
	}
	ps.expectOp("=")
	rhs := ps.parseExpr()
	return &AssignStmt{stmtBase: stmtBase{t.line}, LHS: lhs, RHS: rhs}
}

func (ps *parser) parseAssignAfterLvalue(lhs Expr, line int) Stmt {
	a := &AssignStmt{stmtBase: stmtBase{line}, LHS: lhs}
	if ps.acceptOp("<=") {
		a.NonBlocking = true
	} else if ps.acceptOp("=") {
	} else {
		ps.fail("expected '=' or '<=' after assignment target, found %s", ps.describe())
	}
	if ps.isOp("#") {
		a.Delay = ps.parseDelayValue()
	} else if ps.isOp("@") {
		a.EventCtl = ps.parseEventCtl()
	} else if ps.isKw("repeat") {
		ps.fail("repeat event control in assignment is not supported")
	}
	a.RHS = ps.parseExpr()
	return a
}

func (ps *parser) parseLvalue() Expr {
	ps.enter()
	defer ps.leave()
	t := ps.cur()
	if ps.acceptOp("{") {
		c := &ConcatExpr{exprBase: exprBase{t.line}}
		for {
			c.Parts = append(c.Parts, ps.parseLvalue())
			if !ps.acceptOp(",") {
				break
			}
		}
		ps.expectOp("}")
		return c
	}
	if t.kind != tIdent {
		ps.fail("expected assignment target, found %s", ps.describe())
	}
	ps.next()
	return ps.parseSelects(&Ident{exprBase: exprBase{t.line}, Name: t.text})
}

// ------------------------------------------------------------ expressions

var binPrec = map[string]int{
	"||": 2, "&&": 3, "|": 4, "^": 5, "~^": 5, "^~": 5, "&": 6,
	"==": 7, "!=": 7, "===": 7, "!==": 7,
	"<": 8, "<=": 8, ">": 8, ">=": 8,
	"<<": 9, ">>": 9, "<<<": 9, ">>>": 9,
	"+": 10, "-": 10, "*": 11, "/": 11, "%": 11, "**": 12,
}

func (ps *parser) parseExpr() Expr {
	ps.enter()
	defer ps.leave()
	c := ps.parseBinary(2)
	if ps.isOp("?") {
		t := ps.next()
		a := ps.parseExpr()
		ps.expectOp(":")
		b := ps.parseExpr()
		return &TernaryExpr{exprBase{t.line}, c, a, b}
	}
	return c
}

func (ps *parser) parseBinary(minPrec int) Expr {
	ps.enter()
	defer ps.leave()
	lhs := ps.parseUnary()
	for {
		t := ps.cur()
		if t.kind != tOp {
			return lhs
		}
		prec, ok := binPrec[t.text]
		if !ok || prec < minPrec {
			return lhs
		}
		ps.next()
		var rhs Expr
		if t.text == "**" {
			rhs = ps.parseBinary(prec + 1) // treat as left-assoc like the standard
		} else {
			rhs = ps.parseBinary(prec + 1)
		}
		lhs = &BinaryExpr{exprBase{t.line}, t.text, lhs, rhs}
	}
}

var unaryOps = map[string]bool{"+": true, "-": true, "!": true, "~": true, "&": true, "|": true, "^": true, "~&": true, "~|": true, "~^": true, "^~": true}

func (ps *parser) parseUnary() Expr {
	t := ps.cur()
	if t.kind == tOp && unaryOps[t.text] {
		ps.enter()
		defer ps.leave()
		ps.next()
		x := ps.parseUnary()
		return &UnaryExpr{exprBase{t.line}, t.text, x}
	}
	return ps.parsePrimary()
}

func (ps *parser) parseSelects(base Expr) Expr {
	e := base
	for {
		if ps.isOp("[") {
			t := ps.next()
			a := ps.parseExpr()
			switch {
			case ps.acceptOp(":"):
				b := ps.parseExpr()
				ps.expectOp("]")
				e = &PartExpr{exprBase{t.line}, e, a, b}
			case ps.acceptOp("+:"):
				w := ps.parseExpr()
				ps.expectOp("]")
				e = &IdxPartExpr{exprBase{t.line}, e, a, w, true}
			case ps.acceptOp("-:"):
				w := ps.parseExpr()
				ps.expectOp("]")
				e = &IdxPartExpr{exprBase{t.line}, e, a, w, false}
			default:
				ps.expectOp("]")
				e = &IndexExpr{exprBase{t.line}, e, a}
			}
			continue
		}
		if ps.isOp(".") && ps.peek(1).kind == tIdent {
			// hierarchical reference
			ps.next()
			n := ps.next()
			root := e
			for {
				switch x := root.(type) {
				case *IndexExpr:
					root = x.X
					continue
				case *PartExpr:
					root = x.X
					continue
				case *IdxPartExpr:
					root = x.X
					continue
				}
				break
			}
			if id, ok := root.(*Ident); ok {
				id.Hier = append(id.Hier, n.text)
			}
			continue
		}
		return e
	}
}

func (ps *parser) parsePrimary() Expr {
	ps.enter()
	defer ps.leave()
	t := ps.cur()
	switch t.kind {
	case tNumber:
		ps.next()
		n := *t.num
		n.Line = t.line
		if n.Unbased {
			ps.unsupported(t.line, "SystemVerilog unbased unsized literal "+n.Text)
		}
		return &n
	case tReal:
		ps.next()
		return &RealLit{exprBase{t.line}, t.text}
	case tString:
		ps.next()
		return &StringLit{exprBase{t.line}, t.text}
	case tSysIdent:
		ps.next()
		c := &CallExpr{exprBase: exprBase{t.line}, Name: t.text, Sys: true}
		if ps.acceptOp("(") {
			if !ps.isOp(")") {
				for {
					c.Args = append(c.Args, ps.parseExpr())
					if !ps.acceptOp(",") {
						break
					}
				}
			}
			ps.expectOp(")")
		}
		return c
	case tIdent:
		ps.next()
		if ps.isOp("(") {
			ps.next()
			c := &CallExpr{exprBase: exprBase{t.line}, Name: t.text}
			if !ps.isOp(")") {
				for {
					c.Args = append(c.Args, ps.parseExpr())
					if !ps.acceptOp(",") {
						break
					}
				}
			}
			ps.expectOp(")")
			return c
		}
		return ps.parseSelects(&Ident{exprBase: exprBase{t.line}, Name: t.text})
	case tOp:
		switch t.text {
		case "(":
			ps.next()
			e := ps.parseExpr()
			if ps.isOp(":") {
				ps.next()
				b := ps.parseExpr()
				ps.expectOp(":")
				c := ps.parseExpr()
				ps.expectOp(")")
				return &MinTypMaxExpr{exprBase{t.line}, e, b, c}
			}
			ps.expectOp(")")
			return e
		case "{":
			ps.next()
			if ps.isOp("}") {
				ps.fail("empty concatenation")
			}
			first := ps.parseExpr()
			if ps.isOp("{") {
				// replication
				ps.next()
				r := &ReplExpr{exprBase: exprBase{t.line}, Count: first}
				for {
					r.Parts = append(r.Parts, ps.parseExpr())
					if !ps.acceptOp(",") {
						break
					}
				}
				ps.expectOp("}")
				ps.expectOp("}")
				return r
			}
			c := &ConcatExpr{exprBase: exprBase{t.line}, Parts: []Expr{first}}
			for ps.acceptOp(",") {
				c.Parts = append(c.Parts, ps.parseExpr())
			}
			ps.expectOp("}")
			// a concatenation can be followed by a select in SystemVerilog only
			return c
		}
	}
	ps.fail("unexpected %s in expression", ps.describe())
	return nil
}

// ------------------------------------------------------------ ports

func (ps *parser) resolvePorts(m *Module) {
	type info struct {
		dir    *DeclItem
		dirN   *DeclName
		isReg  bool
		signed bool
	}
	infos := map[string]*info{}
	get := func(n string) *info {
		if infos[n] == nil {
			infos[n] = &info{}
		}
		return infos[n]
	}
	for _, it := range m.Items {
		di, ok := it.(*DeclItem)
		if !ok {
			continue
		}
		for i := range di.Names {
			dn := &di.Names[i]
			inf := get(dn.Name)
			if di.Dir != "" {
				if inf.dir == nil {
					inf.dir = di
					inf.dirN = dn
				}
				if di.IsReg {
					inf.isReg = true
				}
				if di.Signed {
					inf.signed = true
				}
			} else if di.IsReg && di.Kind != "genvar" {
				inf.isReg = true
				if di.Signed {
					inf.signed = true
				}
			} else if di.Signed {
				inf.signed = true
			}
		}
	}
	params := map[string]int64{}
	for _, it := range m.Items {
		if pd, ok := it.(*ParamDecl); ok {
			if v, ok := astConstInt(pd.Value, params); ok {
				params[pd.Name] = v
			}
		}
	}
	for _, pn := range m.PortNames {
		p := Port{Name: pn, Line: m.Line}
		if inf := infos[pn]; inf != nil && inf.dir != nil {
			p.Dir = inf.dir.Dir
			p.IsReg = inf.isReg
			p.Signed = inf.signed
			p.Range = inf.dir.Range
			p.Line = inf.dirN.Line
			if p.Range == nil {
				p.Width = 1
				if inf.dir.Kind == "integer" {
					p.Width = 32
				}
			} else {
				l, ok1 := astConstInt(p.Range.Left, params)
				r, ok2 := astConstInt(p.Range.Right, params)
				if ok1 && ok2 {
					w := l - r
					if w < 0 {
						w = -w
					}
					if w < 1<<24 {
						p.Width = int(w) + 1
					}
				}
			}
		}
		m.Ports = append(m.Ports, p)
	}
}

// astConstInt evaluates simple integer constant expressions (literals,
// parameters with known values, + - * / % << >> and parentheses, $clog2).
func astConstInt(e Expr, params map[string]int64) (int64, bool) {
	switch x := e.(type) {
	case *NumberLit:
		if x.Val.IsInt64() && x.XMask.Sign() == 0 && x.ZMask.Sign() == 0 {
			return x.Val.Int64(), true
		}
	case *Ident:
		if len(x.Hier) == 0 {
			v, ok := params[x.Name]
			return v, ok
		}
	case *UnaryExpr:
		v, ok := astConstInt(x.X, params)
		if !ok {
			return 0, false
		}
		switch x.Op {
		case "-":
			return -v, true
		case "+":
			return v, true
		}
	case *BinaryExpr:
		a, ok1 := astConstInt(x.L, params)
		b, ok2 := astConstInt(x.R, params)
		if !ok1 || !ok2 {
			return 0, false
		}
		switch x.Op {
		case "+":
			return a + b, true
		case "-":
			return a - b, true
		case "*":
			return a * b, true
		case "/":
			if b != 0 {
				return a / b, true
			}
		case "%":
			if b != 0 {
				return a % b, true
			}
		case "<<":
			if b >= 0 && b < 62 {
				return a << uint(b), true
			}
		case ">>":
			if b >= 0 && b < 63 {
				return a >> uint(b), true
			}
		}
	case *CallExpr:
		if x.Sys && x.Name == "$clog2" && len(x.Args) == 1 {
			v, ok := astConstInt(x.Args[0], params)
			if ok && v >= 0 {
				n := int64(0)
				for (int64(1) << uint(n)) < v {
					n++
				}
				return n, true
			}
		}
	}
	return 0, false
}
