package vlog

import (
	"fmt"
	"sort"
	"strconv"
	"testing"

	"github.com/BondMachineHQ/BondMachine/pkg/bondmachine"
	"github.com/BondMachineHQ/BondMachine/pkg/procbuilder"
)

type bmProc struct {
	ops           []string
	R, N, M, L, O int
	prog          string
	shared        []int // indices into the shared object list
}

// renderBondMachine builds a multi-processor BondMachine through the Go API and
// returns the same set of Verilog sources Bondmachine.Write_verilog would write
// (without the test bench), keyed by file name.
func renderBondMachine(t testing.TB, rsize int, procs []bmProc, inputs, outputs int, bonds [][2]string, shared []string) (files map[string]string, err error) {
	t.Helper()
	defer func() {
		if r := recover(); r != nil {
			err = fmt.Errorf("render panic: %v", r)
		}
	}()
	inScratchDir(t, func() {
		bm := new(bondmachine.Bondmachine)
		bm.Rsize = uint8(rsize)
		for _, pc := range procs {
			m := new(procbuilder.Machine)
			a := &m.Arch
			a.Rsize = uint8(rsize)
			a.Modes = []string{"ha"}
			a.R, a.N, a.M, a.L, a.O = uint8(pc.R), uint8(pc.N), uint8(pc.M), uint8(pc.L), uint8(pc.O)
			var opl []procbuilder.Opcode
			for _, n := range pc.ops {
				for _, op := range procbuilder.Allopcodes {
					if op.Op_get_name() == n {
						opl = append(opl, op)
					}
				}
			}
			sort.Sort(procbuilder.ByName(opl))
			a.Op = opl
			bm.Domains = append(bm.Domains, m)
		}
		for i := 0; i < inputs; i++ {
			bm.Add_input()
		}
		for i := 0; i < outputs; i++ {
			bm.Add_output()
		}
		for i := range procs {
			if _, e := bm.Add_processor(i); e != nil {
				err = e
				return
			}
		}
		bm.Add_shared_objects(shared)
		for i, pc := range procs {
			for _, so := range pc.shared {
				bm.Connect_processor_shared_object([]string{strconv.Itoa(i), strconv.Itoa(so)})
			}
		}
		for _, b := range bonds {
			bm.Add_bond([]string{b[0], b[1]})
		}
		conf := new(bondmachine.Config)
		pConf := conf.ProcbuilderConfig()
		files = map[string]string{}
		sharedHDLOps := ""
		for i, domID := range bm.Processors {
			ri := new(procbuilder.RuntimeInfo)
			ri.Init()
			pConf.Runinfo = ri
			dom := bm.Domains[domID]
			sharedlist := ""
			for j, soID := range bm.Shared_links[i] {
				if j > 0 {
					sharedlist += ","
				}
				sharedlist += bm.Shared_objects[soID].String()
			}
			dom.Arch.Shared_constraints = sharedlist
			// the program is assembled after the shared constraints are known
			p, e := dom.Arch.Assembler([]byte(procs[i].prog))
			if e != nil {
				err = fmt.Errorf("assembler p%d: %v", i, e)
				return
			}
			dom.Program = p
			is := strconv.Itoa(i)
			names := map[string]string{"processor": "p" + is, "rom": "p" + is + "rom", "ram": "p" + is + "ram"}
			dom.Conproc.CpID = uint32(i)
			dom.Conproc.SharedHDLOps = sharedHDLOps
			files["arch_"+is+".v"] = dom.Arch.Write_verilog("a"+is, names, "iverilog")
			files["p"+is+".v"] = dom.Arch.Conproc.Write_verilog(pConf, &dom.Arch, names["processor"], "iverilog")
			files["p"+is+"rom.v"] = dom.Arch.Rom.Write_verilog(dom, names["rom"], "iverilog")
			if dom.L != 0 {
				files["p"+is+"ram.v"] = dom.Arch.Ram.Write_verilog(pConf, dom, names["ram"], "iverilog")
			}
			sharedHDLOps = dom.Arch.Conproc.SharedHDLOps
		}
		seq := map[string]int{}
		for i, so := range bm.Shared_objects {
			sn := so.Shortname()
			name := sn + strconv.Itoa(seq[sn])
			files[name+".v"] = so.Write_verilog(bm, i, name, "iverilog")
			seq[sn]++
		}
		files["bondmachine.v"] = bm.Write_verilog_main(conf, "bondmachine", "iverilog")
	})
	return files, err
}

func TestE2EBondMachinePipeline(t *testing.T) {
	ops := []string{"i2r", "inc", "r2o", "j", "nop"}
	prog := "i2r r0 i0\ninc r0\nr2o r0 o0\nj 0\n"
	files, err := renderBondMachine(t, 8, []bmProc{
		{ops: ops, R: 1, N: 1, M: 1, L: 0, O: 3, prog: prog},
		{ops: ops, R: 1, N: 1, M: 1, L: 0, O: 3, prog: prog},
	}, 1, 1, [][2]string{{"i0", "p0i0"}, {"p0o0", "p1i0"}, {"p1o0", "o0"}}, nil)
	if err != nil {
		t.Fatal(err)
	}
	d, pd := ParseDesign(files)
	for _, dg := range pd {
		t.Fatalf("parse: %v", dg)
	}
	for _, dg := range Lint(d, LintOpts{}) {
		t.Fatalf("lint: %v", dg)
	}
	s, err := Elaborate(d, "bondmachine", nil)
	if err != nil {
		t.Fatal(err)
	}
	for _, n := range []string{"a0_inst.p0_instance._r0", "a1_inst.p1_instance._pc", "a1_inst.p1rom_instance._rom", "p0o0"} {
		if !s.Has(n) {
			t.Fatalf("missing %s in %v", n, s.Signals())
		}
	}
	s.Set("reset", 1)
	tick(t, s, "clk")
	s.Set("reset", 0)
	for _, in := range []uint64{10, 77, 254, 255} {
		s.Set("i0", in)
		s.Set("i0_valid", 1)
		for i := 0; i < 12; i++ {
			tick(t, s, "clk")
		}
		expect(t, s, "p0o0", (in+1)&0xff)
		expect(t, s, "o0", (in+2)&0xff)
		expect(t, s, "o0_valid", 1)
	}
}

// Shared objects wired through the bondmachine top level. The generated code
// for these is exercised for robustness (no panics, deterministic results);
// lint findings are logged, not asserted.
func TestBondMachineSharedObjects(t *testing.T) {
	base := []string{"i2r", "r2o", "j", "nop", "rset", "inc"}
	cases := []struct {
		name   string
		so     string
		ops    []string
		prog   string
		rsizes []int
	}{
		{"stack", "stack:4", []string{"r2t", "t2r"}, "nop\nj 0\n", []int{8, 16}},
		{"queue", "queue:4", []string{"r2q", "q2r"}, "nop\nj 0\n", []int{8, 16}},
		{"channel", "channel:", []string{"wrd", "wwr", "chc", "chw"}, "nop\nj 0\n", []int{8, 32}},
		{"barrier", "barrier:4", []string{"hit"}, "nop\nj 0\n", []int{8}},
		{"lfsr8", "lfsr8:7", []string{"lfsr82r"}, "nop\nj 0\n", []int{8}},
		{"sharedmem", "sharedmem:4", []string{"r2s", "s2r"}, "nop\nj 0\n", []int{8}},
	}
	for _, c := range cases {
		for _, rsize := range c.rsizes {
			ops := append(append([]string{}, base...), c.ops...)
			files, err := renderBondMachine(t, rsize, []bmProc{
				{ops: ops, R: 2, N: 1, M: 1, L: 2, O: 4, prog: c.prog, shared: []int{0}},
				{ops: ops, R: 2, N: 1, M: 1, L: 2, O: 4, prog: c.prog, shared: []int{0}},
			}, 1, 1, [][2]string{{"i0", "p0i0"}, {"p0o0", "p1i0"}, {"p1o0", "o0"}}, []string{c.so})
			if err != nil {
				t.Logf("%s/%d: render: %v", c.name, rsize, err)
				continue
			}
			d, pd := ParseDesign(files)
			for _, dg := range pd {
				t.Logf("%s/%d FINDING parse: %v", c.name, rsize, dg)
			}
			if len(pd) > 0 {
				// retry like a synthesis tool: skip translate_off regions (SystemVerilog assertions in the channel)
				d2, pd2 := ParseDesignOpts(files, ParseOpts{HonorTranslateOff: true})
				if len(defectsOf(pd2)) == 0 {
					t.Logf("%s/%d: parses cleanly when synthesis translate_off regions are skipped", c.name, rsize)
					d, pd = d2, nil
				}
			}
			ld := Lint(d, LintOpts{})
			for _, dg := range ld {
				t.Logf("%s/%d FINDING lint: %v", c.name, rsize, dg)
			}
			if len(defectsOf(pd)) > 0 || len(defectsOf(ld)) > 0 {
				continue
			}
			s, err := Elaborate(d, "bondmachine", nil)
			if err != nil {
				t.Logf("%s/%d: elaborate: %v", c.name, rsize, err)
				continue
			}
			s.Set("reset", 1)
			tick(t, s, "clk")
			s.Set("reset", 0)
			k0 := s.StateKey()
			c2 := s.Clone()
			for i := 0; i < 50; i++ {
				tick(t, s, "clk")
				tick(t, c2, "clk")
			}
			if s.StateKey() != c2.StateKey() {
				t.Errorf("%s/%d: clone diverged", c.name, rsize)
			}
			t.Logf("%s/%d: clean, %d signals, simulated 50 ticks (state changed: %v)", c.name, rsize, len(s.Signals()), k0 != s.StateKey())
		}
	}
}
