package vlog

import (
	"errors"
	"testing"
)

func TestPreprocessorAndGenerateCase(t *testing.T) {
	src := "`timescale 1ns/1ps\n`default_nettype none\n`define WIDTH 8\n`define FAST\n" + `
module pp #(parameter MODE = 2) (input wire [` + "`WIDTH" + `-1:0] a, output wire [` + "`WIDTH" + `-1:0] y, output wire [3:0] z, output wire [7:0] k);
` + "`ifdef FAST\n  localparam ADD = 1;\n`else\n  localparam ADD = 100;\n`endif\n`ifndef NOPE\n  localparam ADD2 = 2;\n`endif\n" + `
  assign y = a + ADD + ADD2;
  genvar g;
  for (g = 0; g < 4; g = g + 1) begin : bit   // Verilog-2005 style: no generate keyword
    assign z[g] = a[g] ^ a[g+4];
  end
  generate
    case (MODE)
      0: begin assign k = 8'd10; end
      1, 2: begin assign k = 8'd20; end
      default: begin assign k = 8'd30; end
    endcase
  endgenerate
endmodule
` + "`default_nettype wire\n"
	s := mustSim(t, src, "pp", nil)
	s.Set("a", 0x35)
	s.Settle()
	expect(t, s, "y", 0x38)
	expect(t, s, "z", 0x3^0x5)
	expect(t, s, "k", 20)
	s2 := mustSim(t, src, "pp", map[string]uint64{"MODE": 7})
	expect(t, s2, "k", 30)
	// predefined macros through ParseOpts
	d, diags := ParseDesignOpts(map[string]string{"t.v": "module m(output [7:0] y);\n`ifdef BIG\nassign y = `BIG;\n`else\nassign y = 8'd1;\n`endif\nendmodule"}, ParseOpts{Defines: map[string]string{"BIG": "8'd200"}})
	if len(diags) != 0 {
		t.Fatal(diags)
	}
	s3, err := Elaborate(d, "m", nil)
	if err != nil {
		t.Fatal(err)
	}
	expect(t, s3, "y", 200)
}

func TestLoopsEscapedIdentsSysFuncs(t *testing.T) {
	s := mustSim(t, `
module lp(input [7:0] a, output reg [3:0] lz, output reg [7:0] rep, output [7:0] c, output [7:0] b, output signed [7:0] sl);
  reg [7:0] \weird$name+ ;
  integer n;
  always @* begin
    // count leading zeros with while
    lz = 0;
    n = 7;
    while (n >= 0 && !a[n]) begin lz = lz + 1; n = n - 1; end
    rep = 0;
    repeat (3) rep = rep + a[1:0];
    \weird$name+ = a;
  end
  assign c = $clog2(a);
  assign b = $bits(a) + $bits(rep);
  assign sl = 4'sd7 - 8'sd9;       // signed literals: -2
endmodule`, "lp", nil)
	s.Set("a", 0x1b)
	s.Settle()
	expect(t, s, "lz", 3)
	expect(t, s, "rep", 9)
	expect(t, s, "c", 5) // clog2(27)
	expect(t, s, "b", 16)
	expect(t, s, "sl", 0xfe)
	if !s.Has("weird$name+") {
		t.Fatalf("escaped identifier missing: %v", s.Signals())
	}
	expect(t, s, "weird$name+", 0x1b)
	s.Set("a", 0)
	s.Settle()
	expect(t, s, "lz", 8)
	expect(t, s, "c", 0)
}

func TestTranslateOffOption(t *testing.T) {
	src := `
module to(input clk, input a, output reg q);
  always @(posedge clk) q <= a;
  // synthesis translate_off
  generate
    for (genvar j = 0; j < 2; j++)
      begin : chk
        p: assert property (@(posedge clk) a |-> ##1 q);
      end
  endgenerate
  // synthesis translate_on
endmodule`
	_, strict := ParseDesign(map[string]string{"t.v": src})
	// SystemVerilog inside a Verilog module: outside the subset, reported as unsupported (not as a defect)
	if !hasDiag(strict, ClassUnsupported, "") || hasDiag(strict, ClassSyntax, "") {
		t.Fatalf("SystemVerilog assertions must be reported as unsupported in strict mode: %v", strict)
	}
	if ds, _ := ParseDesign(map[string]string{"t.v": src}); ds.Module("to") != nil {
		t.Fatal("module with SystemVerilog assertions must not be available in strict mode")
	}
	d, lenient := ParseDesignOpts(map[string]string{"t.v": src}, ParseOpts{HonorTranslateOff: true})
	for _, dg := range lenient {
		if dg.Class != ClassUnsupported {
			t.Fatalf("unexpected %v", dg)
		}
	}
	if len(lenient) != 1 {
		t.Fatalf("want exactly one note about the skipped region, got %v", lenient)
	}
	s, err := Elaborate(d, "to", nil)
	if err != nil {
		t.Fatal(err)
	}
	s.Set("a", 1)
	tick(t, s, "clk")
	expect(t, s, "q", 1)
}

func TestLoopBoundAndUnknownClock(t *testing.T) {
	s := mustSim(t, `
module lb(input clk, input go, output reg [7:0] y);
  integer i;
  always @(posedge clk) begin
    y <= 0;
    if (go) for (i = 0; i >= 0; i = i) y <= y + 1;  // never terminates
  end
endmodule`, "lb", nil)
	tick(t, s, "clk")
	s.Set("go", 1)
	if err := s.Tick("clk"); !errors.Is(err, ErrLoopBound) {
		t.Fatalf("want ErrLoopBound, got %v", err)
	}
	s2 := mustSim(t, `module x(input clk); endmodule`, "x", nil)
	if err := s2.Tick("nope"); err == nil {
		t.Fatal("unknown clock accepted")
	}
}

func TestElaborationErrorsAreNotUnsupported(t *testing.T) {
	cases := map[string]string{
		"undeclared":   `module t(input a, output y); assign y = a & b; endmodule`,
		"undefmodule":  `module t(input a, output y); ghost g(a, y); endmodule`,
		"portcount":    `module s(input a, output y); assign y = a; endmodule module t(input a, output y); s u(a, y, a); endmodule`,
		"noport":       `module s(input a, output y); assign y = a; endmodule module t(input a, output y); s u(.a(a), .q(y)); endmodule`,
		"noparam":      `module s #(parameter W=1) (input a, output y); assign y = a; endmodule module t(input a, output y); s #(.V(2)) u(.a(a), .y(y)); endmodule`,
		"reversedpart": `module t(input [7:0] a, output [3:0] y); assign y = a[0:3]; endmodule`,
	}
	for name, src := range cases {
		d, _ := ParseDesign(map[string]string{"t.v": src})
		_, err := Elaborate(d, "t", nil)
		if err == nil || errors.Is(err, ErrUnsupported) || !errors.Is(err, ErrElab) {
			t.Errorf("%s: want an ErrElab error, got %v", name, err)
		}
	}
	if _, err := Elaborate(nil, "t", nil); err == nil {
		t.Error("nil design accepted")
	}
}
