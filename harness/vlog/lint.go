package vlog

import (
	"fmt"
	"sort"
)

// LintOpts configures Lint.
type LintOpts struct {
	// ExternalModules lists module names that may be instantiated without a definition (vendor IP).
	ExternalModules map[string]bool
}

type lsymKind int

const (
	lkNet lsymKind = iota
	lkVar
	lkParam
	lkGenvar
	lkBlock // named block / generate block / instance
	lkFunc
	lkTask
)

type lsym struct {
	name   string
	kind   lsymKind
	isPort bool
	dir    string
	line   int
}

type lscope struct {
	parent *lscope
	names  map[string]*lsym
}

func (s *lscope) lookup(n string) *lsym {
	for c := s; c != nil; c = c.parent {
		if y, ok := c.names[n]; ok {
			return y
		}
	}
	return nil
}

type genPathElem struct {
	node   Item
	branch int
}

type bitRange struct {
	full   bool
	lo, hi int64
}

func (a bitRange) overlaps(b bitRange) bool {
	if a.full || b.full {
		return true
	}
	return a.lo <= b.hi && b.lo <= a.hi
}

type driverRec struct {
	block  *AlwaysItem
	path   []genPathElem
	line   int
	ranges []bitRange
}

func (a *driverRec) overlaps(b *driverRec) bool {
	for _, x := range a.ranges {
		for _, y := range b.ranges {
			if x.overlaps(y) {
				return true
			}
		}
	}
	return false
}

type lhsTarget struct {
	id *Ident
	r  bitRange
}

type linter struct {
	d       *Design
	o       LintOpts
	m       *Module
	diags   []Diag
	seen    map[string]bool // dedupe key
	allDecl map[string]bool // every name declared anywhere in the module
	drivers map[*lsym][]driverRec
	symOrd  []*lsym
	path    []genPathElem
	params  map[string]int64 // literal-valued parameters (for constant select ranges)
	// context while walking a procedural block
	curAlways *AlwaysItem
}

// Lint checks every module of the design. The result is deterministic.
func Lint(d *Design, o LintOpts) (out []Diag) {
	if d == nil {
		return nil
	}
	for _, name := range d.order {
		m := d.mods[name]
		out = append(out, lintModuleSafe(d, o, m)...)
	}
	return out
}

func lintModuleSafe(d *Design, o LintOpts, m *Module) (out []Diag) {
	defer func() {
		if r := recover(); r != nil {
			out = append(out, Diag{Class: ClassUnsupported, File: m.File, Line: m.Line, Module: m.Name, Msg: fmt.Sprintf("internal lint panic: %v", r)})
		}
	}()
	l := &linter{d: d, o: o, m: m, seen: map[string]bool{}, allDecl: map[string]bool{}, drivers: map[*lsym][]driverRec{}}
	l.run()
	ds := l.diags
	sort.SliceStable(ds, func(i, j int) bool {
		if ds[i].Line != ds[j].Line {
			return ds[i].Line < ds[j].Line
		}
		if ds[i].Class != ds[j].Class {
			return ds[i].Class < ds[j].Class
		}
		if ds[i].Ident != ds[j].Ident {
			return ds[i].Ident < ds[j].Ident
		}
		return ds[i].Msg < ds[j].Msg
	})
	return ds
}

func (l *linter) add(class DiagClass, line int, ident, format string, a ...interface{}) {
	msg := fmt.Sprintf(format, a...)
	key := string(class) + "\x00" + ident + "\x00" + msg
	if class == ClassUndeclared {
		key = string(class) + "\x00" + ident
	}
	if l.seen[key] {
		return
	}
	l.seen[key] = true
	l.diags = append(l.diags, Diag{Class: class, File: l.m.File, Line: line, Module: l.m.Name, Msg: msg, Ident: ident})
}

func (l *linter) run() {
	m := l.m
	for _, u := range m.Unsupported {
		l.add(ClassUnsupported, u.Line, "", "%s", u.Msg)
	}
	top := &lscope{names: map[string]*lsym{}}
	l.params = map[string]int64{}
	for _, it := range flattenRegions(m.Items, nil) {
		if pd, ok := it.(*ParamDecl); ok && pd.Local {
			// only localparams have a value that cannot be overridden
			if v, ok := astConstInt(pd.Value, l.params); ok {
				l.params[pd.Name] = v
			}
		}
	}
	l.collect(top, m.Items, true)
	if _, taken := top.names[m.Name]; !taken {
		// the module name is visible inside the module (scope name, e.g. $dumpvars(0, tb))
		top.names[m.Name] = &lsym{name: m.Name, kind: lkBlock, line: m.Line}
		l.allDecl[m.Name] = true
	}
	// header ports without a direction declaration
	for _, pn := range m.PortNames {
		sy := top.names[pn]
		if sy == nil || !sy.isPort {
			l.add(ClassUndeclared, m.Line, pn, "port %q is listed in the module header but has no direction declaration", pn)
			if sy == nil {
				// avoid cascades: treat as an undeclared-but-known net
				top.names[pn] = &lsym{name: pn, kind: lkNet, isPort: true, line: m.Line}
				l.allDecl[pn] = true
			}
		}
	}
	l.walkItems(top, m.Items)
	// multi-driver
	for _, sy := range l.symOrd {
		recs := l.drivers[sy]
		if len(recs) < 2 || sy.kind != lkVar {
			continue
		}
	outer:
		for i := 1; i < len(recs); i++ {
			for j := 0; j < i; j++ {
				if recs[i].block != recs[j].block && compatiblePaths(recs[i].path, recs[j].path) && recs[i].overlaps(&recs[j]) {
					l.add(ClassMultiDriver, recs[i].line, sy.name, "%q is assigned in more than one always block (lines %d and %d)", sy.name, recs[j].block.Line, recs[i].block.Line)
					break outer
				}
			}
		}
	}
}

func compatiblePaths(a, b []genPathElem) bool {
	for _, x := range a {
		for _, y := range b {
			if x.node == y.node && x.branch != y.branch {
				return false
			}
		}
	}
	return true
}

// ------------------------------------------------------------ declaration collection

func (l *linter) declare(sc *lscope, name string, kind lsymKind, line int) *lsym {
	l.allDecl[name] = true
	if y, ok := sc.names[name]; ok {
		// merge: "output x; reg x;" → variable
		if kind == lkVar && y.kind == lkNet {
			y.kind = lkVar
		}
		return y
	}
	y := &lsym{name: name, kind: kind, line: line}
	sc.names[name] = y
	return y
}

// collect registers the declarations of one scope. Unnamed generate blocks
// declare into the enclosing scope (Verilog-2001); named ones and generate
// loops get their own scope, created lazily in walkItems; here we only record
// their names in allDecl so that references from outside are not reported.
func (l *linter) collect(sc *lscope, items []Item, moduleLevel bool) {
	for _, it := range items {
		switch x := it.(type) {
		case *DeclItem:
			for _, dn := range x.Names {
				k := lkNet
				if x.IsReg {
					k = lkVar
				}
				if x.Kind == "genvar" {
					k = lkGenvar
				}
				y := l.declare(sc, dn.Name, k, dn.Line)
				if x.Dir != "" {
					y.isPort = true
					y.dir = x.Dir
				}
			}
		case *ParamDecl:
			l.declare(sc, x.Name, lkParam, x.Line)
		case *FuncDecl:
			l.declare(sc, x.Name, lkFunc, x.Line)
		case *UnsupportedItem:
			if len(x.What) > 5 && x.What[:5] == "task " {
				l.declare(sc, x.What[5:], lkTask, x.Line)
			}
		case *InstItem:
			l.declare(sc, x.InstName, lkBlock, x.Line)
		case *GenRegion:
			l.collect(sc, x.Items, moduleLevel)
		case *GenIf:
			for _, b := range []*GenBlock{x.Then, x.Else} {
				if b == nil {
					continue
				}
				if b.Label == "" {
					l.collect(sc, b.Items, false)
				} else {
					l.declare(sc, b.Label, lkBlock, b.Line)
					l.collectNames(b.Items)
				}
			}
		case *GenCase:
			for _, gi := range x.Items {
				if gi.Body == nil {
					continue
				}
				if gi.Body.Label == "" {
					l.collect(sc, gi.Body.Items, false)
				} else {
					l.declare(sc, gi.Body.Label, lkBlock, gi.Body.Line)
					l.collectNames(gi.Body.Items)
				}
			}
		case *GenBlock:
			if x.Label == "" {
				l.collect(sc, x.Items, false)
			} else {
				l.declare(sc, x.Label, lkBlock, x.Line)
				l.collectNames(x.Items)
			}
		case *GenFor:
			if x.Label != "" {
				l.declare(sc, x.Label, lkBlock, x.Line)
			}
			l.collectNames(x.Items)
		case *AlwaysItem:
			l.collectBlockNames(sc, x.Body)
		case *InitialItem:
			l.collectBlockNames(sc, x.Body)
		}
	}
}

// collectNames records names declared in nested generate scopes in allDecl only.
func (l *linter) collectNames(items []Item) {
	tmp := &lscope{names: map[string]*lsym{}}
	l.collect(tmp, items, false)
}

// collectBlockNames declares the names of named procedural blocks (they live in the enclosing scope).
func (l *linter) collectBlockNames(sc *lscope, st Stmt) {
	switch x := st.(type) {
	case *BlockStmt:
		if x.Name != "" {
			l.declare(sc, x.Name, lkBlock, x.Line)
		}
		for _, d := range x.Decls {
			for _, dn := range d.Names {
				l.allDecl[dn.Name] = true
			}
		}
		for _, s := range x.Stmts {
			l.collectBlockNames(sc, s)
		}
	case *IfStmt:
		l.collectBlockNames(sc, x.Then)
		l.collectBlockNames(sc, x.Else)
	case *CaseStmt:
		for _, ci := range x.Items {
			l.collectBlockNames(sc, ci.Body)
		}
	case *ForStmt:
		l.collectBlockNames(sc, x.Body)
	case *WhileStmt:
		l.collectBlockNames(sc, x.Body)
	case *RepeatStmt:
		l.collectBlockNames(sc, x.Body)
	case *ForeverStmt:
		l.collectBlockNames(sc, x.Body)
	case *DelayStmt:
		l.collectBlockNames(sc, x.Body)
	case *EventStmt:
		l.collectBlockNames(sc, x.Body)
	case *WaitStmt:
		l.collectBlockNames(sc, x.Body)
	}
}

// ------------------------------------------------------------ walking

func (l *linter) walkItems(sc *lscope, items []Item) {
	for _, it := range items {
		switch x := it.(type) {
		case *DeclItem:
			l.useRange(sc, x.Range)
			for _, dn := range x.Names {
				for i := range dn.Dims {
					l.useRange(sc, &dn.Dims[i])
				}
				if dn.Init != nil {
					l.useExpr(sc, dn.Init)
				}
			}
		case *ParamDecl:
			l.useRange(sc, x.Range)
			l.useExpr(sc, x.Value)
		case *AssignItem:
			l.useExpr(sc, x.RHS)
			l.useLHS(sc, x.LHS, false, x.Line)
		case *AlwaysItem:
			l.curAlways = x
			if x.Ctl != nil {
				l.useEventCtl(sc, x.Ctl)
			}
			l.walkStmt(sc, x.Body, false)
			l.curAlways = nil
		case *InitialItem:
			l.walkStmt(sc, x.Body, false)
		case *InstItem:
			l.walkInst(sc, x)
		case *FuncDecl:
			l.walkFunc(sc, x)
		case *GenRegion:
			l.walkItems(sc, x.Items)
		case *GenBlock:
			l.walkGenBlock(sc, x)
		case *GenIf:
			l.useExpr(sc, x.Cond)
			for bi, b := range []*GenBlock{x.Then, x.Else} {
				if b == nil {
					continue
				}
				l.path = append(l.path, genPathElem{x, bi})
				l.walkGenBlock(sc, b)
				l.path = l.path[:len(l.path)-1]
			}
		case *GenCase:
			l.useExpr(sc, x.X)
			for bi, gi := range x.Items {
				for _, e := range gi.Exprs {
					l.useExpr(sc, e)
				}
				if gi.Body == nil {
					continue
				}
				l.path = append(l.path, genPathElem{x, bi})
				l.walkGenBlock(sc, gi.Body)
				l.path = l.path[:len(l.path)-1]
			}
		case *GenFor:
			child := &lscope{parent: sc, names: map[string]*lsym{}}
			// loop variable must be a genvar
			if y := sc.lookup(x.Var); y == nil {
				l.undeclared(x.Line, x.Var)
			}
			if y := sc.lookup(x.StepVar); y == nil {
				l.undeclared(x.Line, x.StepVar)
			}
			l.useExpr(sc, x.Init)
			l.useExpr(sc, x.Cond)
			l.useExpr(sc, x.Step)
			l.collect(child, x.Items, false)
			l.walkItems(child, x.Items)
		}
	}
}

func (l *linter) walkGenBlock(sc *lscope, b *GenBlock) {
	if b.Label == "" {
		l.walkItems(sc, b.Items)
		return
	}
	child := &lscope{parent: sc, names: map[string]*lsym{}}
	l.collect(child, b.Items, false)
	l.walkItems(child, b.Items)
}

func (l *linter) undeclared(line int, name string) {
	if l.allDecl[name] {
		// declared in some scope that is not visible from here: needs a hierarchical
		// name in Verilog; stay conservative and do not classify it as a defect.
		l.add(ClassUnsupported, line, name, "%q is declared in another scope of the module (hierarchical access needed)", name)
		return
	}
	l.add(ClassUndeclared, line, name, "identifier %q is not declared", name)
}

func (l *linter) useRange(sc *lscope, r *Range) {
	if r == nil {
		return
	}
	l.useExpr(sc, r.Left)
	l.useExpr(sc, r.Right)
}

func (l *linter) useEventCtl(sc *lscope, ec *EventCtl) {
	for _, ev := range ec.Events {
		l.useExpr(sc, ev.X)
	}
}

func (l *linter) useExpr(sc *lscope, e Expr) {
	switch x := e.(type) {
	case nil:
	case *Ident:
		if len(x.Hier) > 0 {
			l.add(ClassUnsupported, x.Line, x.Name, "hierarchical reference %s", x.Name)
			return
		}
		if sc.lookup(x.Name) == nil {
			l.undeclared(x.Line, x.Name)
		}
	case *UnaryExpr:
		l.useExpr(sc, x.X)
	case *BinaryExpr:
		l.useExpr(sc, x.L)
		l.useExpr(sc, x.R)
	case *TernaryExpr:
		l.useExpr(sc, x.Cond)
		l.useExpr(sc, x.A)
		l.useExpr(sc, x.B)
	case *ConcatExpr:
		for _, p := range x.Parts {
			l.useExpr(sc, p)
		}
	case *ReplExpr:
		l.useExpr(sc, x.Count)
		for _, p := range x.Parts {
			l.useExpr(sc, p)
		}
	case *IndexExpr:
		l.useExpr(sc, x.X)
		l.useExpr(sc, x.Idx)
	case *PartExpr:
		l.useExpr(sc, x.X)
		l.useExpr(sc, x.Left)
		l.useExpr(sc, x.Right)
	case *IdxPartExpr:
		l.useExpr(sc, x.X)
		l.useExpr(sc, x.Base)
		l.useExpr(sc, x.Width)
	case *CallExpr:
		if !x.Sys {
			y := sc.lookup(x.Name)
			if y == nil {
				l.undeclared(x.Line, x.Name)
			}
		}
		for _, a := range x.Args {
			l.useExpr(sc, a)
		}
	case *MinTypMaxExpr:
		l.add(ClassUnsupported, x.Line, "", "min:typ:max expression")
		l.useExpr(sc, x.A)
		l.useExpr(sc, x.B)
		l.useExpr(sc, x.C)
	}
}

// lhsBases returns the base identifiers of an assignment target together with
// the constant bit / word range selected directly on the identifier (full when
// the whole object or a non-constant select is assigned), and reports uses in
// index expressions.
func (l *linter) lhsBases(sc *lscope, e Expr, out *[]lhsTarget) {
	switch x := e.(type) {
	case *Ident:
		*out = append(*out, lhsTarget{x, bitRange{full: true}})
	case *ConcatExpr:
		for _, p := range x.Parts {
			l.lhsBases(sc, p, out)
		}
	case *IndexExpr:
		l.useExpr(sc, x.Idx)
		if id, ok := x.X.(*Ident); ok {
			r := bitRange{full: true}
			if v, ok := astConstInt(x.Idx, l.params); ok {
				r = bitRange{lo: v, hi: v}
			}
			*out = append(*out, lhsTarget{id, r})
			return
		}
		l.lhsBases(sc, x.X, out)
	case *PartExpr:
		l.useExpr(sc, x.Left)
		l.useExpr(sc, x.Right)
		if id, ok := x.X.(*Ident); ok {
			r := bitRange{full: true}
			a, ok1 := astConstInt(x.Left, l.params)
			b, ok2 := astConstInt(x.Right, l.params)
			if ok1 && ok2 {
				if a > b {
					a, b = b, a
				}
				r = bitRange{lo: a, hi: b}
			}
			*out = append(*out, lhsTarget{id, r})
			return
		}
		l.lhsBases(sc, x.X, out)
	case *IdxPartExpr:
		l.useExpr(sc, x.Base)
		l.useExpr(sc, x.Width)
		if id, ok := x.X.(*Ident); ok {
			r := bitRange{full: true}
			b, ok1 := astConstInt(x.Base, l.params)
			w, ok2 := astConstInt(x.Width, l.params)
			if ok1 && ok2 && w > 0 {
				if x.Up {
					r = bitRange{lo: b, hi: b + w - 1}
				} else {
					r = bitRange{lo: b - w + 1, hi: b}
				}
			}
			*out = append(*out, lhsTarget{id, r})
			return
		}
		l.lhsBases(sc, x.X, out)
	default:
		l.useExpr(sc, e)
	}
}

type lhsSym struct {
	sym *lsym
	r   bitRange
}

// useLHS checks an assignment target. procedural: inside always/initial/function.
func (l *linter) useLHS(sc *lscope, e Expr, procedural bool, line int) []lhsSym {
	var ids []lhsTarget
	l.lhsBases(sc, e, &ids)
	var syms []lhsSym
	for _, tg := range ids {
		id := tg.id
		if len(id.Hier) > 0 {
			l.add(ClassUnsupported, id.Line, id.Name, "hierarchical reference %s", id.Name)
			continue
		}
		y := sc.lookup(id.Name)
		if y == nil {
			l.undeclared(id.Line, id.Name)
			continue
		}
		syms = append(syms, lhsSym{y, tg.r})
		switch {
		case procedural && y.kind == lkNet:
			what := "wire"
			if y.isPort {
				what = y.dir + " port (not declared reg)"
			}
			l.add(ClassAssignKind, id.Line, id.Name, "procedural assignment to %s %q", what, id.Name)
		case !procedural && y.kind == lkVar:
			l.add(ClassAssignKind, id.Line, id.Name, "continuous assignment to reg %q", id.Name)
		}
	}
	return syms
}

func (l *linter) walkFunc(sc *lscope, fd *FuncDecl) {
	l.useRange(sc, fd.Range)
	fsc := &lscope{parent: sc, names: map[string]*lsym{}}
	fsc.names[fd.Name] = &lsym{name: fd.Name, kind: lkVar, line: fd.Line}
	for _, pd := range fd.Params {
		l.declare(fsc, pd.Name, lkParam, pd.Line)
	}
	for _, group := range [][]*DeclItem{fd.Args, fd.Locals} {
		for _, d := range group {
			l.useRange(fsc, d.Range)
			for _, dn := range d.Names {
				l.declare(fsc, dn.Name, lkVar, dn.Line)
			}
		}
	}
	for _, pd := range fd.Params {
		l.useExpr(fsc, pd.Value)
	}
	saved := l.curAlways
	l.curAlways = nil
	l.walkStmt(fsc, fd.Body, false)
	l.curAlways = saved
}

func (l *linter) recordDriver(syms []lhsSym, line int) {
	if l.curAlways == nil {
		return
	}
	for _, ls := range syms {
		y := ls.sym
		if y.kind != lkVar {
			continue
		}
		recs := l.drivers[y]
		if recs == nil {
			l.symOrd = append(l.symOrd, y)
		}
		found := false
		for i := range recs {
			if recs[i].block == l.curAlways {
				recs[i].ranges = append(recs[i].ranges, ls.r)
				found = true
				break
			}
		}
		if !found {
			p := make([]genPathElem, len(l.path))
			copy(p, l.path)
			recs = append(recs, driverRec{block: l.curAlways, path: p, line: line, ranges: []bitRange{ls.r}})
		}
		l.drivers[y] = recs
	}
}

// walkStmt checks a statement. loopCtl marks for-loop init/step assignments
// (loop counters are not considered drivers for the multi-driver rule).
func (l *linter) walkStmt(sc *lscope, st Stmt, loopCtl bool) {
	switch x := st.(type) {
	case nil:
	case *NullStmt:
	case *BlockStmt:
		bsc := sc
		if len(x.Decls) > 0 || len(x.Params) > 0 {
			bsc = &lscope{parent: sc, names: map[string]*lsym{}}
			for _, pd := range x.Params {
				l.declare(bsc, pd.Name, lkParam, pd.Line)
				l.useExpr(bsc, pd.Value)
			}
			for _, d := range x.Decls {
				l.useRange(sc, d.Range)
				for _, dn := range d.Names {
					l.declare(bsc, dn.Name, lkVar, dn.Line)
					for i := range dn.Dims {
						l.useRange(sc, &dn.Dims[i])
					}
				}
			}
			if x.Name == "" {
				l.add(ClassUnsupported, x.Line, "", "declarations in an unnamed block")
			}
		}
		for _, s := range x.Stmts {
			l.walkStmt(bsc, s, false)
		}
	case *IfStmt:
		l.useExpr(sc, x.Cond)
		l.walkStmt(sc, x.Then, false)
		l.walkStmt(sc, x.Else, false)
	case *CaseStmt:
		l.useExpr(sc, x.X)
		for _, ci := range x.Items {
			for _, e := range ci.Exprs {
				l.useExpr(sc, e)
			}
			l.walkStmt(sc, ci.Body, false)
		}
	case *ForStmt:
		if x.Init != nil {
			l.walkStmt(sc, x.Init, true)
		}
		l.useExpr(sc, x.Cond)
		if x.Step != nil {
			l.walkStmt(sc, x.Step, true)
		}
		l.walkStmt(sc, x.Body, false)
	case *WhileStmt:
		l.useExpr(sc, x.Cond)
		l.walkStmt(sc, x.Body, false)
	case *RepeatStmt:
		l.useExpr(sc, x.Count)
		l.walkStmt(sc, x.Body, false)
	case *ForeverStmt:
		l.walkStmt(sc, x.Body, false)
	case *AssignStmt:
		l.useExpr(sc, x.RHS)
		if x.Delay != nil {
			l.useExpr(sc, x.Delay)
		}
		if x.EventCtl != nil {
			l.useEventCtl(sc, x.EventCtl)
		}
		syms := l.useLHS(sc, x.LHS, true, x.Line)
		if !loopCtl {
			l.recordDriver(syms, x.Line)
		}
	case *DelayStmt:
		l.useExpr(sc, x.Delay)
		l.walkStmt(sc, x.Body, false)
	case *EventStmt:
		l.useEventCtl(sc, x.Ctl)
		l.walkStmt(sc, x.Body, false)
	case *WaitStmt:
		l.useExpr(sc, x.Cond)
		l.walkStmt(sc, x.Body, false)
	case *SysCallStmt:
		if x.Name == "$dumpvars" || x.Name == "$dumpports" || x.Name == "$printtimescale" {
			break // arguments are scope names, possibly hierarchical
		}
		for _, a := range x.Args {
			l.useExpr(sc, a)
		}
	case *TaskCallStmt:
		if y := sc.lookup(x.Name); y == nil {
			l.undeclared(x.Line, x.Name)
		} else {
			l.add(ClassUnsupported, x.Line, x.Name, "task call %s", x.Name)
		}
		for _, a := range x.Args {
			l.useExpr(sc, a)
		}
	case *DisableStmt:
		l.add(ClassUnsupported, x.Line, x.Name, "disable %s", x.Name)
	case *UnsupportedStmt:
		l.add(ClassUnsupported, x.Line, "", "%s", x.What)
	}
}

func (l *linter) walkInst(sc *lscope, x *InstItem) {
	for _, p := range x.Params {
		l.useExpr(sc, p.X)
	}
	if x.ArrayRange != nil {
		l.useRange(sc, x.ArrayRange)
	}
	def := l.d.mods[x.ModName]
	for _, cn := range x.Conns {
		if cn.X != nil {
			l.useExpr(sc, cn.X)
		}
	}
	if def == nil {
		if !l.o.ExternalModules[x.ModName] && !l.d.broken[x.ModName] {
			l.add(ClassUndefModule, x.Line, x.ModName, "instance %s of undefined module %q", x.InstName, x.ModName)
		}
		return
	}
	portByName := map[string]*Port{}
	for i := range def.Ports {
		portByName[def.Ports[i].Name] = &def.Ports[i]
	}
	checkOut := func(p *Port, cn Conn) {
		if p == nil || cn.X == nil || (p.Dir != "output" && p.Dir != "inout") {
			return
		}
		// only lvalue-shaped expressions are checked
		var ids []*Ident
		if !lvalueShaped(cn.X) {
			return
		}
		collectBases(cn.X, &ids)
		for _, id := range ids {
			if len(id.Hier) > 0 {
				continue
			}
			if y := sc.lookup(id.Name); y != nil && y.kind == lkVar {
				l.add(ClassAssignKind, cn.Line, id.Name, "reg %q is connected to %s port %q of instance %s (%s)", id.Name, p.Dir, p.Name, x.InstName, def.Name)
			}
		}
	}
	if x.Named {
		seen := map[string]bool{}
		for _, cn := range x.Conns {
			p := portByName[cn.Name]
			if p == nil {
				l.add(ClassPortCount, cn.Line, cn.Name, "instance %s: module %s has no port %q", x.InstName, def.Name, cn.Name)
				continue
			}
			if seen[cn.Name] {
				l.add(ClassPortCount, cn.Line, cn.Name, "instance %s: port %q is connected more than once", x.InstName, cn.Name)
				continue
			}
			seen[cn.Name] = true
			checkOut(p, cn)
		}
		return
	}
	if len(x.Conns) == 0 {
		return
	}
	if len(x.Conns) != len(def.PortNames) {
		l.add(ClassPortCount, x.Line, x.InstName, "instance %s of %s has %d positional connections but the module has %d ports", x.InstName, def.Name, len(x.Conns), len(def.PortNames))
	}
	for i, cn := range x.Conns {
		if i < len(def.Ports) {
			checkOut(&def.Ports[i], cn)
		}
	}
}

func lvalueShaped(e Expr) bool {
	switch x := e.(type) {
	case *Ident:
		return true
	case *IndexExpr:
		return lvalueShaped(x.X)
	case *PartExpr:
		return lvalueShaped(x.X)
	case *IdxPartExpr:
		return lvalueShaped(x.X)
	case *ConcatExpr:
		for _, p := range x.Parts {
			if !lvalueShaped(p) {
				return false
			}
		}
		return true
	}
	return false
}

func collectBases(e Expr, out *[]*Ident) {
	switch x := e.(type) {
	case *Ident:
		*out = append(*out, x)
	case *IndexExpr:
		collectBases(x.X, out)
	case *PartExpr:
		collectBases(x.X, out)
	case *IdxPartExpr:
		collectBases(x.X, out)
	case *ConcatExpr:
		for _, p := range x.Parts {
			collectBases(p, out)
		}
	}
}
