package vlog

import (
	"fmt"
	"sort"
)

type objKind int

const (
	okSig objKind = iota
	okParam
	okFunc
	okBlock // named block / instance / generate scope: occupies the name only
)

type object struct {
	kind objKind
	sv   *svar
	cv   *constVal // okParam (nil for a genvar outside its loop)
	fn   *funcInst
}

type scope struct {
	parent *scope
	objs   map[string]*object
	prefix string
	module bool // module boundary: lookups do not continue upward
}

func newScope(parent *scope, prefix string) *scope {
	return &scope{parent: parent, objs: map[string]*object{}, prefix: prefix}
}

func (sc *scope) lookup(name string) *object {
	for s := sc; s != nil; s = s.parent {
		if o, ok := s.objs[name]; ok {
			return o
		}
		if s.module {
			return nil
		}
	}
	return nil
}

func (sc *scope) define(name string, o *object) {
	sc.objs[name] = o
}

type funcInst struct {
	decl      *FuncDecl
	sc        *scope // scope the function was declared in
	fsc       *scope
	ret       *svar
	args      []*svar
	body      func(*Sim)
	reads     map[int]bool
	compiling bool
	compiled  bool
}

// elab is the elaboration context.
type elab struct {
	d         *Design
	prog      *program
	sim       *Sim
	anon      int
	inInitial bool
	depth     int
	nInst     int
}

const maxWords = 1 << 24

func (el *elab) ensureSim() {
	s := el.sim
	if len(s.scratch) < el.prog.scratchSize {
		s.scratch = append(s.scratch, make([]uint64, el.prog.scratchSize-len(s.scratch)+64)...)
	}
	if len(s.v) < el.prog.vsize {
		s.v = append(s.v, make([]uint64, el.prog.vsize-len(s.v))...)
	}
	for len(el.prog.fanComb) < len(el.prog.stor) {
		el.prog.fanComb = append(el.prog.fanComb, nil)
		el.prog.fanEdge = append(el.prog.fanEdge, nil)
	}
	if len(s.nbaGen) < len(el.prog.stor) {
		s.nbaGen = append(s.nbaGen, make([]uint32, len(el.prog.stor)-len(s.nbaGen))...)
	}
	if len(s.dirty) < len(el.prog.procs) {
		s.dirty = append(s.dirty, make([]bool, len(el.prog.procs)-len(s.dirty))...)
	}
}

func (el *elab) alloc(name string, width, depth int, isMem, isVar, local bool) *storage {
	if width <= 0 {
		width = 1
	}
	nw := nwords(width)
	if depth <= 0 {
		depth = 1
	}
	if nw*depth > maxWords || el.prog.vsize+nw*depth > 4*maxWords {
		cfail(0, true, "signal %s is too large (%d x %d bits)", name, depth, width)
	}
	st := &storage{id: len(el.prog.stor), name: name, off: el.prog.vsize, nw: nw, width: width, depth: depth, isMem: isMem, isVar: isVar, local: local}
	el.prog.vsize += nw * depth
	el.prog.stor = append(el.prog.stor, st)
	el.ensureSim()
	return st
}

func (el *elab) register(path string, sv *svar) {
	sv.path = path
	if _, dup := el.prog.names[path]; !dup {
		el.prog.names[path] = sv
	}
}

// ------------------------------------------------------------------ parameters

// defineParam evaluates and defines a parameter in cc.sc; override may be nil.
func (el *elab) defineParam(cc *compiler, pd *ParamDecl, override *constVal) {
	var cv *constVal
	ec := &compiler{el: el, sc: cc.sc, constOnly: true, fn: cc.fn}
	if pd.Range != nil {
		l, ok1 := ec.constEval(pd.Range.Left).int64Val()
		r, ok2 := ec.constEval(pd.Range.Right).int64Val()
		if !ok1 || !ok2 {
			cfail(pd.Line, false, "bad range of parameter %s", pd.Name)
		}
		d := l - r
		if d < 0 {
			d = -d
		}
		if d >= 1<<20 {
			cfail(pd.Line, true, "parameter %s too wide", pd.Name)
		}
		w := int(d) + 1
		if override != nil {
			cv = resizeConst(override, w, pd.Signed)
		} else {
			cv = ec.constEvalTo(pd.Value, w, pd.Signed)
		}
	} else if pd.Integer {
		if override != nil {
			cv = resizeConst(override, 32, true)
		} else {
			cv = ec.constEvalTo(pd.Value, 32, true)
		}
	} else {
		if override != nil {
			cv = override
		} else {
			cv = ec.constEval(pd.Value)
		}
		if pd.Signed {
			cv = &constVal{w: cv.w, signed: true, v: cv.v, x: cv.x, z: cv.z}
		}
	}
	cc.sc.define(pd.Name, &object{kind: okParam, cv: cv})
}

func resizeConst(cv *constVal, w int, signed bool) *constVal {
	out := &constVal{w: w, signed: signed, v: make([]uint64, nwords(w))}
	wExt(out.v, w, cv.v, cv.w, cv.signed)
	return out
}

// ------------------------------------------------------------------ declarations

type declInfo struct {
	name    string
	dir     string
	isVar   bool
	isInt   bool
	signed  bool
	rng     *Range
	dims    []Range
	kind    string
	init    Expr
	netInit bool
	line    int
}

func (el *elab) evalRange(cc *compiler, r *Range, line int, what string) (int, int) {
	ec := &compiler{el: el, sc: cc.sc, constOnly: true, fn: cc.fn}
	l, ok1 := ec.constEval(r.Left).int64Val()
	rr, ok2 := ec.constEval(r.Right).int64Val()
	if !ok1 || !ok2 || l > 1<<30 || l < -(1<<30) || rr > 1<<30 || rr < -(1<<30) {
		cfail(line, false, "bad range of %s", what)
	}
	return int(l), int(rr)
}

// declareVars declares procedural-block / function local variables.
func (el *elab) declareVars(cc *compiler, decls []*DeclItem, local bool) {
	for _, di := range decls {
		if di.Kind == "real" || di.Kind == "realtime" {
			cfail(di.Line, true, "real variables")
		}
		for _, dn := range di.Names {
			info := &declInfo{name: dn.Name, isVar: true, isInt: di.Kind == "integer", signed: di.Signed, rng: di.Range, dims: dn.Dims, kind: di.Kind, init: dn.Init, line: dn.Line}
			if info.kind == "time" {
				info.rng = nil
			}
			sv := el.makeSignal(cc, info, nil, local)
			if dn.Init != nil {
				cfail(dn.Line, true, "initialiser on block-local variable %s", dn.Name)
			}
			_ = sv
		}
	}
}

// makeSignal allocates (or aliases) storage for one declared name and defines it.
func (el *elab) makeSignal(cc *compiler, info *declInfo, bind *svar, local bool) *svar {
	left, right := 0, 0
	width := 1
	if info.isInt {
		left, right, width = 31, 0, 32
	} else if info.kind == "time" {
		left, right, width = 63, 0, 64
	} else if info.rng != nil {
		left, right = el.evalRange(cc, info.rng, info.line, info.name)
		d := left - right
		if d < 0 {
			d = -d
		}
		width = d + 1
		if width > 1<<20 {
			cfail(info.line, true, "vector %s too wide", info.name)
		}
	}
	sv := &svar{left: left, right: right, signed: info.signed, isInt: info.isInt, isVar: info.isVar, dir: info.dir}
	depth := 1
	isMem := false
	if len(info.dims) > 1 {
		cfail(info.line, true, "multi-dimensional array %s", info.name)
	}
	if len(info.dims) == 1 {
		a, b := el.evalRange(cc, &info.dims[0], info.line, info.name)
		sv.memLeft, sv.memRight = a, b
		lo, hi := a, b
		if lo > hi {
			lo, hi = hi, lo
		}
		sv.memLo = lo
		depth = hi - lo + 1
		isMem = true
	}
	path := cc.sc.prefix + info.name
	if bind != nil && !isMem && !bind.st.isMem && bind.st.width == width {
		sv.st = bind.st
		if info.isVar {
			sv.st.isVar = true
		}
	} else {
		sv.st = el.alloc(path, width, depth, isMem, info.isVar, local)
	}
	cc.sc.define(info.name, &object{kind: okSig, sv: sv})
	el.register(path, sv)
	return sv
}

// ------------------------------------------------------------------ module instances

type portConn struct {
	x    Expr
	line int
	used bool
}

type modInst struct {
	el      *elab
	m       *Module
	sc      *scope
	items   []Item
	ports   map[string]*svar
	aliased map[string]bool
}

func flattenRegions(items []Item, out []Item) []Item {
	for _, it := range items {
		if gr, ok := it.(*GenRegion); ok {
			out = flattenRegions(gr.Items, out)
		} else {
			out = append(out, it)
		}
	}
	return out
}

// resolveGen defines parameters and expands generate-if/case and unnamed
// generate blocks in place; generate-for loops and named blocks remain as items.
func (el *elab) resolveGen(cc *compiler, items []Item, ov *paramOverrides) []Item {
	var out []Item
	for _, it := range flattenRegions(items, nil) {
		switch x := it.(type) {
		case *ParamDecl:
			var o *constVal
			if ov != nil && !x.Local {
				o = ov.take(x.Name)
			}
			el.defineParam(cc, x, o)
		case *GenIf:
			ec := &compiler{el: el, sc: cc.sc, constOnly: true}
			cv := ec.constEval(x.Cond)
			blk := x.Else
			if !wIsZero(cv.v) {
				blk = x.Then
			}
			if blk == nil {
				continue
			}
			if blk.Label == "" {
				out = append(out, el.resolveGen(cc, blk.Items, nil)...)
			} else {
				out = append(out, blk)
			}
		case *GenCase:
			ec := &compiler{el: el, sc: cc.sc, constOnly: true}
			xt := ec.analyze(x.X)
			var chosen *GenBlock
			var deflt *GenBlock
		search:
			for i := range x.Items {
				gi := &x.Items[i]
				if gi.Exprs == nil {
					deflt = gi.Body
					continue
				}
				for _, e := range gi.Exprs {
					t := ec.analyze(e)
					W := max(xt.w, t.w)
					S := xt.signed && t.signed
					a := el.run(ec.gen(xt, W, S), nil)
					b := el.run(ec.gen(t, W, S), nil)
					if wEq(a.v, b.v) {
						chosen = gi.Body
						break search
					}
				}
			}
			if chosen == nil {
				chosen = deflt
			}
			if chosen == nil {
				continue
			}
			if chosen.Label == "" {
				out = append(out, el.resolveGen(cc, chosen.Items, nil)...)
			} else {
				out = append(out, chosen)
			}
		case *GenBlock:
			if x.Label == "" {
				out = append(out, el.resolveGen(cc, x.Items, nil)...)
			} else {
				out = append(out, x)
			}
		default:
			out = append(out, it)
		}
	}
	return out
}

type paramOverrides struct {
	named      map[string]*constVal
	positional []*constVal
	pos        int
	usedNames  map[string]bool
}

func (ov *paramOverrides) take(name string) *constVal {
	if ov.named != nil {
		if v, ok := ov.named[name]; ok {
			ov.usedNames[name] = true
			return v
		}
		return nil
	}
	if ov.pos < len(ov.positional) {
		v := ov.positional[ov.pos]
		ov.pos++
		return v
	}
	ov.pos++
	return nil
}

// declareScope handles functions, parameters, generate-if expansion and signal
// declarations of one scope; returns the remaining items to build.
func (el *elab) declareScope(cc *compiler, items []Item, ov *paramOverrides, binds map[string]*svar, isModule bool, ports map[string]*svar, aliased map[string]bool) []Item {
	// pass 0: functions
	var regFuncs func(items []Item)
	regFuncs = func(items []Item) {
		for _, it := range items {
			switch x := it.(type) {
			case *FuncDecl:
				cc.sc.define(x.Name, &object{kind: okFunc, fn: &funcInst{decl: x, sc: cc.sc}})
			case *GenRegion:
				regFuncs(x.Items)
			}
		}
	}
	regFuncs(items)
	// pass 1: parameters + generate-if
	items = el.resolveGen(cc, items, ov)
	// pass 2: declarations (merge port direction + reg declarations)
	infos := map[string]*declInfo{}
	var order []*declInfo
	for _, it := range items {
		di, ok := it.(*DeclItem)
		if !ok {
			continue
		}
		switch di.Kind {
		case "genvar":
			for _, dn := range di.Names {
				cc.sc.define(dn.Name, &object{kind: okParam})
			}
			continue
		case "real", "realtime":
			cfail(di.Line, true, "real variables")
		case "event":
			cfail(di.Line, true, "named events")
		}
		for _, dn := range di.Names {
			info := infos[dn.Name]
			if info == nil {
				info = &declInfo{name: dn.Name, line: dn.Line}
				infos[dn.Name] = info
				order = append(order, info)
			}
			if di.Dir != "" {
				info.dir = di.Dir
			}
			if di.IsReg {
				info.isVar = true
			}
			if di.Kind == "integer" {
				info.isInt = true
			}
			if di.Kind != "" {
				info.kind = di.Kind
			}
			if di.Signed {
				info.signed = true
			}
			if di.Range != nil && info.rng == nil {
				info.rng = di.Range
			}
			if len(dn.Dims) > 0 {
				info.dims = dn.Dims
			}
			if dn.Init != nil {
				info.init = dn.Init
				info.netInit = !di.IsReg
				info.line = dn.Line
			}
		}
	}
	for _, info := range order {
		var bind *svar
		if info.dir != "" {
			if !isModule {
				cfail(info.line, false, "port declaration of %s outside of module scope", info.name)
			}
			bind = binds[info.name]
		}
		sv := el.makeSignal(cc, info, bind, false)
		if info.dir != "" {
			ports[info.name] = sv
			if bind != nil && sv.st == bind.st {
				aliased[info.name] = true
			}
		}
	}
	// initialisers
	for _, info := range order {
		if info.init == nil {
			continue
		}
		lhs := &Ident{exprBase: exprBase{info.line}, Name: info.name}
		if info.netInit {
			el.addAssign(cc.sc, lhs, info.init, info.line)
		} else {
			pc := &compiler{el: el, sc: cc.sc}
			lv := pc.lvalue(lhs, true)
			rhs := pc.genAssign(pc.analyze(info.init), lv.w)
			el.prog.inits = append(el.prog.inits, pc.assignFn(lv, rhs, false))
		}
	}
	return items
}

func (el *elab) addProc(p *proc, reads map[int]bool) {
	p.id = len(el.prog.procs)
	el.prog.procs = append(el.prog.procs, p)
	el.ensureSim()
	ids := make([]int, 0, len(reads))
	for id := range reads {
		ids = append(ids, id)
	}
	sort.Ints(ids)
	for _, id := range ids {
		if p.kind == pkEdge {
			el.prog.fanEdge[id] = append(el.prog.fanEdge[id], int32(p.id))
		} else {
			el.prog.fanComb[id] = append(el.prog.fanComb[id], int32(p.id))
		}
	}
}

// addAssign creates a continuous assignment process lhs = rhs in scope sc.
func (el *elab) addAssign(sc *scope, lhs, rhs Expr, line int) {
	cc := &compiler{el: el, sc: sc, reads: map[int]bool{}}
	lv := cc.lvalue(lhs, false)
	r := cc.genAssign(cc.analyze(rhs), lv.w)
	for _, p := range lv.pieces {
		p.st.driven = true
	}
	run := cc.assignFn(lv, r, false)
	el.addProc(&proc{kind: pkAssign, run: run, name: fmt.Sprintf("assign@%d", line)}, cc.reads)
}

// addAssignCross creates lhs (scope lsc) = rhs (scope rsc): used for port connections.
func (el *elab) addAssignCross(lsc *scope, lhs Expr, rsc *scope, rhs Expr, line int) {
	lc := &compiler{el: el, sc: lsc, reads: map[int]bool{}}
	lv := lc.lvalue(lhs, false)
	rc := &compiler{el: el, sc: rsc, reads: lc.reads}
	r := rc.genAssign(rc.analyze(rhs), lv.w)
	for _, p := range lv.pieces {
		p.st.driven = true
	}
	run := lc.assignFn(lv, r, false)
	el.addProc(&proc{kind: pkAssign, run: run, name: fmt.Sprintf("port@%d", line)}, lc.reads)
}

func (el *elab) buildScope(sc *scope, items []Item) {
	for _, it := range items {
		switch x := it.(type) {
		case *DeclItem, *ParamDecl, *FuncDecl:
		case *AssignItem:
			el.addAssign(sc, x.LHS, x.RHS, x.Line)
		case *AlwaysItem:
			el.addAlways(sc, x)
		case *InitialItem:
			cc := &compiler{el: el, sc: sc}
			el.inInitial = true
			f := cc.stmt(x.Body)
			el.inInitial = false
			el.prog.inits = append(el.prog.inits, f)
		case *InstItem:
			el.elabInstance(sc, x)
		case *GenFor:
			el.elabGenFor(sc, x)
		case *GenBlock:
			child := newScope(sc, sc.prefix+x.Label+".")
			sc.define(x.Label, &object{kind: okBlock})
			cc := &compiler{el: el, sc: child}
			rest := el.declareScope(cc, x.Items, nil, nil, false, nil, nil)
			el.buildScope(child, rest)
		case *UnsupportedItem:
			cfail(x.Line, true, "%s", x.What)
		case *GenRegion, *GenIf, *GenCase:
			cfail(it.itemLine(), true, "internal: unexpanded generate construct")
		default:
			cfail(it.itemLine(), true, "module item %T", it)
		}
	}
}

func (el *elab) elabGenFor(sc *scope, x *GenFor) {
	o := sc.lookup(x.Var)
	if o == nil || o.kind != okParam {
		cfail(x.Line, false, "generate loop variable %q is not a genvar", x.Var)
	}
	if x.StepVar != x.Var {
		cfail(x.Line, false, "generate loop step assigns %q, not the loop variable %q", x.StepVar, x.Var)
	}
	label := x.Label
	if label == "" {
		el.anon++
		label = fmt.Sprintf("genblk%d", el.anon)
	}
	sc.define(label, &object{kind: okBlock})
	// the genvar is visible as a constant inside iteration scopes
	iterScope := func(v *constVal) *scope {
		s := newScope(sc, "")
		s.define(x.Var, &object{kind: okParam, cv: v})
		return s
	}
	ec := &compiler{el: el, sc: sc, constOnly: true}
	cur := ec.constEvalTo(x.Init, 32, true)
	for n := 0; ; n++ {
		if n > 1<<16 {
			cfail(x.Line, true, "generate loop exceeds %d iterations", 1<<16)
		}
		isc := iterScope(cur)
		c2 := &compiler{el: el, sc: isc, constOnly: true}
		if wIsZero(c2.constEval(x.Cond).v) {
			break
		}
		iv, _ := cur.int64Val()
		child := newScope(isc, fmt.Sprintf("%s%s[%d].", sc.prefix, label, iv))
		cc := &compiler{el: el, sc: child}
		rest := el.declareScope(cc, x.Items, nil, nil, false, nil, nil)
		el.buildScope(child, rest)
		cur = c2.constEvalTo(x.Step, 32, true)
	}
}

func (el *elab) addAlways(sc *scope, x *AlwaysItem) {
	if x.Ctl == nil {
		cfail(x.Line, true, "always block without event control")
	}
	if hasTiming(x.Body) {
		cfail(x.Line, true, "always block with timing controls in its body")
	}
	cc := &compiler{el: el, sc: sc, reads: map[int]bool{}}
	body := cc.stmt(x.Body)
	if x.Ctl.Star {
		// exclude variables initialised by for-loops of this block (loop counters)
		excl := map[string]bool{}
		forInitTargets(x.Body, excl)
		for name := range excl {
			if o := sc.lookup(name); o != nil && o.kind == okSig {
				delete(cc.reads, o.sv.st.id)
			}
		}
		el.addProc(&proc{kind: pkComb, run: body, name: fmt.Sprintf("always@*@%d", x.Line)}, cc.reads)
		return
	}
	allLevel := true
	for _, ev := range x.Ctl.Events {
		if ev.Edge != "" {
			allLevel = false
		}
	}
	ec := &compiler{el: el, sc: sc, reads: map[int]bool{}}
	if allLevel {
		for _, ev := range x.Ctl.Events {
			ec.analyze(ev.X)
		}
		el.addProc(&proc{kind: pkComb, run: body, name: fmt.Sprintf("always@level@%d", x.Line)}, ec.reads)
		return
	}
	p := &proc{kind: pkEdge, run: body, name: fmt.Sprintf("always@edge@%d", x.Line)}
	for _, ev := range x.Ctl.Events {
		ce := ec.genSelf(ec.analyze(ev.X))
		e := evt{n: ce.n, wd: ce.wd, nw: nwords(ce.w), prevOff: el.prog.prevSize}
		el.prog.prevSize += e.nw
		switch ev.Edge {
		case "posedge":
			e.edge = 1
		case "negedge":
			e.edge = 2
		}
		p.events = append(p.events, e)
	}
	el.addProc(p, ec.reads)
}

func (el *elab) elabInstance(sc *scope, x *InstItem) {
	if x.ArrayRange != nil {
		cfail(x.Line, true, "array of instances %s", x.InstName)
	}
	def := el.d.Module(x.ModName)
	if def == nil {
		if el.d.broken[x.ModName] {
			cfail(x.Line, false, "module %q has syntax errors", x.ModName)
		}
		cfail(x.Line, false, "instance %s of undefined module %q", x.InstName, x.ModName)
	}
	el.depth++
	el.nInst++
	if el.depth > 64 {
		cfail(x.Line, true, "instantiation depth exceeds 64 (recursive instantiation?)")
	}
	if el.nInst > 1<<16 {
		cfail(x.Line, true, "too many instances")
	}
	defer func() { el.depth-- }()
	// parameter overrides evaluated in the parent scope
	ov := &paramOverrides{usedNames: map[string]bool{}}
	pc := &compiler{el: el, sc: sc, constOnly: true}
	if x.ParamsNamed {
		ov.named = map[string]*constVal{}
		for _, p := range x.Params {
			if p.X != nil {
				ov.named[p.Name] = pc.constEval(p.X)
			}
		}
	} else {
		for _, p := range x.Params {
			if p.X == nil {
				ov.positional = append(ov.positional, nil)
			} else {
				ov.positional = append(ov.positional, pc.constEval(p.X))
			}
		}
	}
	// port connections
	conns := map[string]*portConn{}
	if x.Named {
		known := map[string]bool{}
		for _, pn := range def.PortNames {
			known[pn] = true
		}
		for _, cn := range x.Conns {
			if !known[cn.Name] {
				cfail(cn.Line, false, "instance %s: module %s has no port %q", x.InstName, def.Name, cn.Name)
			}
			if _, dup := conns[cn.Name]; dup {
				cfail(cn.Line, false, "instance %s: port %q connected twice", x.InstName, cn.Name)
			}
			conns[cn.Name] = &portConn{x: cn.X, line: cn.Line}
		}
	} else {
		if len(x.Conns) != len(def.PortNames) && len(x.Conns) != 0 {
			cfail(x.Line, false, "instance %s of %s has %d positional connections for %d ports", x.InstName, def.Name, len(x.Conns), len(def.PortNames))
		}
		for i, cn := range x.Conns {
			if i < len(def.PortNames) {
				conns[def.PortNames[i]] = &portConn{x: cn.X, line: cn.Line}
			}
		}
	}
	binds := map[string]*svar{}
	for pn, pcn := range conns {
		if id, ok := pcn.x.(*Ident); ok && len(id.Hier) == 0 {
			if o := sc.lookup(id.Name); o != nil && o.kind == okSig && !o.sv.st.isMem {
				binds[pn] = o.sv
			}
		}
	}
	sc.define(x.InstName, &object{kind: okBlock})
	mi := el.declareModule(def, sc.prefix+x.InstName+".", ov, binds, x.Line)
	if ov.named != nil {
		for n := range ov.named {
			if !ov.usedNames[n] {
				cfail(x.Line, false, "instance %s: module %s has no parameter %q", x.InstName, def.Name, n)
			}
		}
	} else if len(ov.positional) > 0 && ov.pos < len(ov.positional) {
		cfail(x.Line, false, "instance %s: too many parameter overrides for module %s", x.InstName, def.Name)
	}
	// wire the non-aliased ports
	for _, pn := range def.PortNames {
		pcn := conns[pn]
		if pcn == nil || pcn.x == nil {
			continue
		}
		psv := mi.ports[pn]
		if psv == nil {
			cfail(x.Line, false, "port %q of module %s has no direction declaration", pn, def.Name)
		}
		if mi.aliased[pn] {
			continue
		}
		portRef := &Ident{exprBase: exprBase{pcn.line}, Name: pn}
		switch psv.dir {
		case "input":
			el.addAssignCross(mi.sc, portRef, sc, pcn.x, pcn.line)
		case "output":
			el.addAssignCross(sc, pcn.x, mi.sc, portRef, pcn.line)
		default:
			cfail(pcn.line, true, "inout port %q connected to an expression or a signal of different width", pn)
		}
	}
	el.buildScope(mi.sc, mi.items)
}

func (el *elab) declareModule(m *Module, prefix string, ov *paramOverrides, binds map[string]*svar, line int) *modInst {
	if len(m.Unsupported) > 0 {
		u := m.Unsupported[0]
		cfail(u.Line, true, "module %s: %s", m.Name, u.Msg)
	}
	sc := newScope(nil, prefix)
	sc.module = true
	mi := &modInst{el: el, m: m, sc: sc, ports: map[string]*svar{}, aliased: map[string]bool{}}
	cc := &compiler{el: el, sc: sc}
	mi.items = el.declareScope(cc, m.Items, ov, binds, true, mi.ports, mi.aliased)
	for _, pn := range m.PortNames {
		if mi.ports[pn] == nil {
			cfail(m.Line, false, "module %s: port %q has no direction declaration", m.Name, pn)
		}
	}
	return mi
}

// compileFunc compiles a function body on first use.
func (el *elab) compileFunc(fi *funcInst, line int) {
	if fi.compiled {
		return
	}
	if fi.compiling {
		cfail(line, true, "recursive function %s", fi.decl.Name)
	}
	fi.compiling = true
	defer func() { fi.compiling = false }()
	fd := fi.decl
	fsc := newScope(fi.sc, fi.sc.prefix+fd.Name+".")
	fi.fsc = fsc
	cc := &compiler{el: el, sc: fsc, reads: map[int]bool{}, fn: fi}
	for _, pd := range fd.Params {
		el.defineParam(cc, pd, nil)
	}
	// return variable
	rinfo := &declInfo{name: fd.Name, isVar: true, isInt: fd.Integer, signed: fd.Signed, rng: fd.Range, line: fd.Line}
	// evaluate the range in the enclosing scope but allocate under the function prefix
	fi.ret = el.makeSignal(cc, rinfo, nil, true)
	// makeSignal defined the name in fsc as a signal; keep the function object reachable for self reference
	fsc.define(fd.Name, &object{kind: okFunc, fn: fi})
	for _, di := range fd.Args {
		for _, dn := range di.Names {
			info := &declInfo{name: dn.Name, isVar: true, isInt: di.Kind == "integer", signed: di.Signed, rng: di.Range, line: dn.Line, kind: di.Kind}
			fi.args = append(fi.args, el.makeSignal(cc, info, nil, true))
		}
	}
	el.declareVars(cc, fd.Locals, true)
	saved := el.inInitial
	el.inInitial = false
	fi.body = cc.stmt(fd.Body)
	el.inInitial = saved
	fi.reads = cc.reads
	fi.compiled = true
}

// ------------------------------------------------------------------ entry point

// Elaborate builds a simulation instance of module `top`.
func Elaborate(d *Design, top string, params map[string]uint64) (sim *Sim, err error) {
	if d == nil {
		return nil, fmt.Errorf("%w: nil design", ErrElab)
	}
	m := d.Module(top)
	if m == nil {
		return nil, fmt.Errorf("%w: top module %q not found", ErrElab, top)
	}
	el := &elab{d: d, prog: &program{names: map[string]*svar{}, top: top}}
	el.sim = &Sim{p: el.prog}
	defer func() {
		if r := recover(); r != nil {
			if ce, ok := r.(*compileErr); ok {
				sim, err = nil, ce.err
				return
			}
			sim, err = nil, fmt.Errorf("%w: internal error during elaboration: %v", ErrUnsupported, r)
		}
	}()
	ov := &paramOverrides{named: map[string]*constVal{}, usedNames: map[string]bool{}}
	for k, v := range params {
		if v < 1<<31 {
			ov.named[k] = &constVal{w: 32, signed: true, v: []uint64{v}}
		} else {
			ov.named[k] = &constVal{w: 64, v: []uint64{v}}
		}
	}
	mi := el.declareModule(m, "", ov, nil, m.Line)
	for n := range ov.named {
		if !ov.usedNames[n] {
			return nil, fmt.Errorf("%w: top module %s has no parameter %q", ErrElab, top, n)
		}
	}
	el.buildScope(mi.sc, mi.items)
	return el.finish()
}

func (el *elab) finish() (*Sim, error) {
	p := el.prog
	el.ensureSim()
	s := el.sim
	p.nameList = sortedNames(p.names)
	// state ranges: variables, memories and undriven nets
	for _, st := range p.stor {
		if st.isVar || !st.driven {
			p.stateRanges = append(p.stateRanges, [2]int{st.off, st.nw * st.depth})
		}
	}
	s.prev = make([]uint64, p.prevSize)
	// reset state possibly touched by constant evaluation
	for i := range s.v {
		s.v[i] = 0
	}
	s.combQ, s.edgeQ, s.nbaQ = s.combQ[:0], s.edgeQ[:0], s.nbaQ[:0]
	for i := range s.dirty {
		s.dirty[i] = false
	}
	s.DivByZero = 0
	s.gen = 1
	// time 0: initialisers and initial blocks
	for _, f := range p.inits {
		func() {
			defer func() {
				if r := recover(); r != nil {
					if _, ok := r.(stopInitial); !ok {
						panic(r)
					}
				}
			}()
			f(s)
		}()
	}
	if s.err != nil {
		return nil, fmt.Errorf("%w: %v", ErrElab, s.err)
	}
	// every combinational process runs once
	s.combQ = s.combQ[:0]
	for _, pr := range p.procs {
		if pr.kind != pkEdge {
			s.dirty[pr.id] = true
			s.combQ = append(s.combQ, int32(pr.id))
		} else {
			s.dirty[pr.id] = false
		}
	}
	s.edgeQ = s.edgeQ[:0]
	for iter := 0; ; iter++ {
		if iter > 1000 {
			return nil, ErrNoFixpoint
		}
		if err := s.runComb(); err != nil {
			return nil, err
		}
		if len(s.nbaQ) == 0 {
			break
		}
		s.applyNBAs()
	}
	// no edge events are generated by time-0 initialisation
	for _, id := range s.edgeQ {
		s.dirty[id] = false
	}
	s.edgeQ = s.edgeQ[:0]
	for _, pr := range p.procs {
		for i := range pr.events {
			e := &pr.events[i]
			if e.nw == 1 {
				s.prev[e.prevOff] = e.n(s)
			} else {
				copy(s.prev[e.prevOff:e.prevOff+e.nw], e.wd(s))
			}
		}
	}
	if s.err != nil {
		return nil, fmt.Errorf("%w: %v", ErrElab, s.err)
	}
	s.gen++
	return s, nil
}
