// render: emit sample Verilog for a processor or a stack (dev tool; also used by vlog self-tests)
package main

import (
	"flag"
	"fmt"
	"os"
	"sort"
	"strings"

	"github.com/BondMachineHQ/BondMachine/pkg/bmstack"
	"github.com/BondMachineHQ/BondMachine/pkg/procbuilder"
)

func main() {
	kind := flag.String("kind", "proc", "proc|stack")
	ops := flag.String("ops", "add,clr,cpy,dec,inc,j,jz,nop,rset,r2o,i2r", "opcodes")
	rsize := flag.Int("rsize", 8, "")
	R := flag.Int("R", 2, "")
	N := flag.Int("N", 1, "")
	M := flag.Int("M", 1, "")
	L := flag.Int("L", 2, "")
	O := flag.Int("O", 4, "")
	prog := flag.String("prog", "rset r0 5\ninc r0\nr2o r0 o0\nj 1\n", "")
	mem := flag.String("mem", "LIFO", "")
	depth := flag.Int("depth", 4, "")
	dsize := flag.Int("dsize", 8, "")
	snd := flag.Int("senders", 2, "")
	rcv := flag.Int("receivers", 2, "")
	flag.Parse()
	if *kind == "stack" {
		s := bmstack.CreateBasicStack()
		s.ModuleName = "stk"
		s.DataSize = *dsize
		s.Depth = *depth
		s.MemType = *mem
		s.Senders = nil
		s.Receivers = nil
		for i := 0; i < *snd; i++ {
			s.Senders = append(s.Senders, fmt.Sprintf("s%d", i))
		}
		for i := 0; i < *rcv; i++ {
			s.Receivers = append(s.Receivers, fmt.Sprintf("r%d", i))
		}
		r, err := s.WriteHDL()
		if err != nil {
			panic(err)
		}
		fmt.Print(r)
		return
	}
	m := new(procbuilder.Machine)
	a := &m.Arch
	a.Rsize = uint8(*rsize)
	a.Modes = []string{"ha"}
	a.R, a.N, a.M, a.L, a.O = uint8(*R), uint8(*N), uint8(*M), uint8(*L), uint8(*O)
	var opl []procbuilder.Opcode
	for _, n := range strings.Split(*ops, ",") {
		for _, op := range procbuilder.Allopcodes {
			if op.Op_get_name() == n {
				opl = append(opl, op)
			}
		}
	}
	sort.Sort(procbuilder.ByName(opl))
	a.Op = opl
	p, err := a.Assembler([]byte(*prog))
	if err != nil {
		fmt.Fprintln(os.Stderr, "asm:", err)
		os.Exit(1)
	}
	m.Program = p
	ri := new(procbuilder.RuntimeInfo)
	ri.Init()
	conf := &procbuilder.Config{Runinfo: ri}
	fmt.Print(a.Write_verilog("a0", map[string]string{"processor": "p0", "rom": "p0rom", "ram": "p0ram"}, "iverilog"))
	fmt.Print(a.Conproc.Write_verilog(conf, a, "p0", "iverilog"))
	fmt.Print(a.Rom.Write_verilog(m, "p0rom", "iverilog"))
	fmt.Print(a.Ram.Write_verilog(conf, m, "p0ram", "iverilog"))
}
