package main

import (
	"fmt"

	"github.com/BondMachineHQ/BondMachine/pkg/bmline"
	"github.com/BondMachineHQ/BondMachine/pkg/bmreqs"
	"github.com/BondMachineHQ/BondMachine/pkg/procbuilder"
)

func main() {
	a := new(procbuilder.Arch)
	a.Rsize = 8
	a.R = 2
	a.N = 2
	a.M = 2
	a.L = 2
	a.O = 4
	a.Modes = []string{"ha"}
	rg := bmreqs.NewReqRoot()
	lines := map[string]string{"": "", "r": "::r0", "rr": "::r0::r1", "ri": "::r0::5", "rin": "::r0::i0", "rout": "::r0::o0", "loc": "::3", "rloc": "::r0::3"}
	for _, op := range procbuilder.Allopcodes {
		ok := []string{}
		for k, l := range lines {
			bl, err := bmline.Text2BasmLine(op.Op_get_name() + l)
			if err != nil {
				continue
			}
			func() {
				defer func() { recover() }()
				if _, err := op.HLAssemblerNormalize(a, rg, "/bm:cps/id:0", bl); err == nil {
					ok = append(ok, k)
				}
			}()
		}
		fmt.Printf("%s:%v ", op.Op_get_name(), ok)
	}
	fmt.Println()
}
