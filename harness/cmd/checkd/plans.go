package main

import "time"

var _ = time.Second

var plans = map[string]Plan{
	"C10": {
		Pkg: "c10",
		Runs: []Run{
			{Test: "^TestProps$/^topology$", Checks: checks(1500, 40000), Shards: shards(4, 16)},
		},
		Assumptions: []string{
			"negative ids are never passed to Del_* (every caller in cmd/bondmachine guards them)",
			"bond ids are the keys of List_bonds() as the user sees them before the edit",
		},
	},
}
