package main

import "time"

var _ = time.Second

var plans = map[string]Plan{
	"C10": {
		Pkg:   "c10",
		Tools: []string{"bondmachine"},
		Runs: []Run{
			{Test: "^TestProps$/^topology$", Checks: checks(1500, 40000), Shards: shards(4, 16)},
			{Test: "^TestProps$/^cli_topology$", Checks: checks(12, 400), Shards: shards(4, 8)},
		},
		Assumptions: []string{
			"negative ids are never passed to Del_* (every caller in cmd/bondmachine guards them)",
			"bond ids are the keys of List_bonds() as the user sees them before the edit",
		},
	},
	"C17": {
		TraceCases: true,
		Pkg:        "c17",
		Tools:      []string{"simfinetune"},
		Runs: []Run{
			{Test: "^TestProps$/^no_leak$", Checks: checks(40, 600), Shards: shards(4, 16)},
			{Test: "^TestProps$/^tuner_cli$", Checks: checks(8, 120), Shards: shards(3, 8)},
			{Test: "^TestProps$/^heap_bounded$", Checks: checks(2, 6), Shards: shards(2, 8)},
		},
		Assumptions: []string{
			"goroutine counts are sampled after a bounded settle loop; the verdict is growth in BOTH of two equal further batches (a one-off lazy start cannot trip it)",
			"Fitness_default is driven with an empty input simbox (it dereferences a nil config otherwise: outside its accepted domain)",
			"retained memory is not a verdict (allocator noise); goroutines pin the VM they reference, so a goroutine leak implies retention",
		},
	},
	"C09": {
		TraceCases: true,
		Pkg:        "c09",
		Runs: []Run{
			{Test: "^TestProps$/^sched_independent$", Checks: checks(150, 4000), Shards: shards(4, 8)},
			{Test: "^TestProps$/^sched_independent_pipelined$", Checks: checks(150, 4000), Shards: shards(4, 8)},
			{Test: "^TestProps$", Checks: checks(40, 1200), Shards: shards(3, 8), Race: true},
			{Test: "^TestProps$/^cold_concurrent$", Checks: checks(2, 3), Shards: shards(8, 48), Race: true},
		},
		Assumptions: []string{
			"schedules are perturbed by the verif-tagged yield hook in Processor_execute plus GOMAXPROCS; an interleaving these cannot provoke is not explored",
			"delay maps are single-valued distributions (a multi-valued one samples the global math/rand/v2 source: randomness by design); one SimDelays object is shared by all simulations of a case",
			"the number type passed to SinglePipelineSimulate has the register width of the machine",
			"a race report or digest mismatch that depends on the schedule may not reproduce from the saved case; the saved race report is the artefact",
		},
	},
	"C14": {
		Pkg: "c14",
		Runs: []Run{
			{Test: "^TestProps$/^circuit$", Checks: checks(8000, 150000), Shards: shards(4, 16)},
			{Test: "^TestExhaustive$", NoRapid: true, Shards: shards(1, 1)},
		},
		Assumptions: []string{
			"first declared qubit is the most significant bit; for cx a,b the control is a (README Bell example)",
			"each alias has its bmmatrix constructor's textbook meaning (p = S gate, r = phase shift, phase/ph = global phase e^{i theta} I, v/sx = sqrt(X), rx/ry/rz = exp(-i theta sigma/2))",
			"tolerance 1e-4 per emitted matrix / circuit line (float32 arithmetic in the code, complex128 in the reference); global phase is not quotiented out",
			"the undocumented `nextop` separator line is outside the domain (QasmToBmMatrices does not return on it)",
		},
	},
	"C04": {
		TraceCases: true,
		Pkg:        "c04",
		Runs: []Run{
			{Test: "^TestProps$/^sim_history$", Checks: checks(1500, 12000), Shards: shards(4, 16)},
			{Test: "^TestProps$/^hdl_history$", Checks: checks(250, 3500), Shards: shards(4, 16)},
			{Test: "^TestProps$/^sim_join$", Checks: checks(600, 8000), Shards: shards(2, 8)},
			{Test: "^TestProps$/^hdl_join$", Checks: checks(250, 3500), Shards: shards(2, 8)},
			{Test: "^TestProps$/^sim_graph$", Checks: checks(600, 8000), Shards: shards(2, 8)},
			{Test: "^TestProps$/^hdl_graph$", Checks: checks(200, 2500), Shards: shards(4, 16)},
		},
		Assumptions: []string{
			"per-opcode delay maps are single-valued (a multi-valued distribution samples the global math/rand/v2 source)",
			"a breach preceded by a recorded finding's precondition monitor (D4/D4h: i2rw while own recv high; D5: r2owa starting while received high; D12: r2owa starting while valid is still up) is counted as excluded; a breach without one is a violation",
			"hardware world: files of Bondmachine.Write_verilog under /verif's 2-state interpreter, three cycles per simulator tick of budget; liveness (a stalled machine) is labelled, not judged",
		},
	},
	"C08": {
		Pkg: "c08",
		Runs: []Run{
			{Test: "^TestProps$/^ambiguity$", Checks: checks(40000, 500000), Shards: shards(4, 16)},
			{Test: "^TestProps$/^roundtrip$", Checks: checks(25000, 300000), Shards: shards(4, 16)},
			{Test: "^TestProps$/^widths$", Checks: checks(15000, 150000), Shards: shards(4, 16)},
			{Test: "^TestProps$/^history$", Checks: checks(6000, 80000), Shards: shards(2, 8)},
		},
		Fuzz: []Fuzz{{Target: "FuzzImportString", Time: 3 * time.Minute}},
		Assumptions: []string{
			"ambiguity is decided by generating from each notation's language (plus mutations and a corpus) and running every matcher: overlaps without a short witness are out of reach",
			"FloPoCo types need external tools (fp2bin/bin2fp) that are absent: outside the round-trip domain; Signed.ExportString returns not implemented: outside the round-trip domain",
			"any NaN must come back as a NaN (payload not compared); everything else is compared on bits",
			"the most negative linear-quantiser pattern is rejected by import explicitly and is not treated as a value of the type",
		},
	},
	"C13": {
		Pkg: "c13",
		Runs: []Run{
			{Test: "^TestProps$/^agents$", Checks: checks(600, 25000), Shards: shards(4, 12)},
			{Test: "^TestProps$/^agents_deep$", Checks: checks(300, 12000), Shards: shards(2, 8)},
			{Test: "^TestProps$/^so_wiring$", Checks: checks(150, 2000), Shards: shards(2, 4)},
			{Test: "^TestExhaustive$", NoRapid: true, Shards: shards(1, 1), Timeout: tmo(10*time.Minute, 60*time.Minute)},
		},
		Assumptions: []string{
			"the module is executed by /verif's Verilog interpreter (2-state, power-up zero, one clock owned by the harness); reset is held for two cycles",
			"agents follow the 4-phase write/ack and read/ack handshake and never change data while requesting",
			"bounded wait is checked as: acknowledged within 2*agents+2 cycles in which the agent's path was enabled (write path: not full and no pending read on a non-empty store; read path: not empty)",
			"exhaustive slices are those listed in coverage.extra; larger configurations are sampled, not closed",
		},
	},
	"C03": {
		Pkg: "c03",
		Runs: []Run{
			{Test: "^TestProps$/^lines$", Checks: checks(8000, 250000), Shards: shards(4, 16)},
			{Test: "^TestProps$/^rawlines$", Checks: checks(4000, 150000), Shards: shards(2, 8)},
			{Test: "^TestProps$/^overflow$", Checks: checks(2000, 40000), Shards: shards(2, 8)},
			{Test: "^TestProps$/^(tsp|m2rri|modelen)$", Checks: checks(400, 5000), Shards: shards(1, 4)},
		},
		Fuzz: []Fuzz{{Target: "FuzzAssemblerLine", Time: 2 * time.Minute}},
		Assumptions: []string{
			"opcode lists are name-sorted as every producer in the repository does (precondition of Decode_opcode)",
			"operands are compared by value (registers/ports by index, immediates as integers in any base); an error return is always an acceptable outcome",
			"lines that do not lex as a valid instruction owe only the width law; surplus operands on no-operand opcodes are labelled, not judged",
			"r2v with a vtextmem box bound to arch.Tag is outside the domain (Tag is only set by Write_verilog)",
			"FloPoCo instances are created with a stand-in for the absent flopoco tool (its VHDL does not affect the assembler)",
		},
	},
	"C01": {
		Pkg:   "c01",
		Level: "translation_validation",
		Runs: []Run{
			{Test: "^TestProps$/^lockstep$", Checks: checks(1500, 15000), Shards: shards(6, 16), Timeout: tmo(15*time.Minute, 90*time.Minute)},
			// opcode-exhaustive sweep: quick = one data point of every opcode x size x R x ports stratum, thorough = the whole grid
			{Test: "^TestSweep$", NoRapid: true, Shards: shards(6, 16), Timeout: tmo(15*time.Minute, 90*time.Minute)},
		},
		Assumptions: []string{
			"A1: the generated Verilog is executed by /verif's 2-state interpreter with power-up zero; A2: intra-assignment delays (<= #1) are ordinary non-blocking assignments, the harness owns the clock",
			"retire point in hardware = a cycle with reset low in which _pc receives a non-blocking assignment; in the simulator = a Step after which the instruction completed",
			"inputs change only at retire boundaries, identically on both sides; valid is held high; the output environment echoes valid as received (4-phase consumer)",
			"the co-implemented table (harness/c01/table.go) is part of the oracle; opcodes outside it are not compared (reasons listed there)",
			"comparison stops at end of program (simulator halts, hardware runs on) and before a division/modulo by zero",
		},
	},
	"C02": {
		TraceCases: true,
		Pkg:        "c02",
		Level:      "translation_validation",
		Runs: []Run{
			{Test: "^TestProps$/^whole_machine$", Checks: checks(250, 4000), Shards: shards(6, 16)},
		},
		Assumptions: []string{
			"the files written by Bondmachine.Write_verilog (iverilog flavour, empty simbox, no board modules) are executed by /verif's 2-state interpreter with power-up zero",
			"only value sequences are compared, never cycle numbers; streams are compared prefix-wise up to the shorter one (the hardware run gets four times the simulator's tick budget)",
			"a stream mismatch preceded by the precondition monitor of a recorded handshake finding (D4, D5 of C04; D12 of C01) is counted as excluded",
		},
	},
	"C06": {
		TraceCases: true,
		Pkg:        "c06",
		Runs: []Run{
			{Test: "^TestProps$/^partitions$", Checks: checks(60, 800), Shards: shards(8, 16), Timeout: tmo(15*time.Minute, 60*time.Minute)},
		},
		Assumptions: []string{
			"fragments write every non-input register before reading it (relying on values left by a previous activation or another collapsed fragment is undocumented)",
			"collapse lists are restrictions of one linear extension of the DAG (a collapsed producer precedes its consumer)",
			"only the first value on each external output is compared, inputs are offered once (keeps clear of the handshake findings of C04)",
			"a partition that the static blocking-IO order model predicts to deadlock and that does not deliver is counted under the recorded finding; a live partition that does not deliver within 5000 ticks is a failure",
		},
	},
	"C12": {
		Pkg:       "c12",
		Tools:     []string{"bondgo"},
		RaceTools: []string{"bondgo"},
		Runs: []Run{
			{Test: "^TestProps$/^compile_faithful$", Checks: checks(60, 220), Shards: shards(4, 16), Timeout: tmo(15*time.Minute, 90*time.Minute)},
			{Test: "^TestProps$/^compile_full$", Checks: checks(40, 140), Shards: shards(4, 16), Timeout: tmo(15*time.Minute, 90*time.Minute)},
		},
		Assumptions: []string{
			"the real bondgo CLI (built from /repo with -tags verif) is run as a child process under a hard 10 s deadline for three schedule plans (GOMAXPROCS x VERIF_BONDGO_SCHED) per program; a hang is classified from a goroutine dump",
			"half of the programs are compiled once more by the same CLI built with the Go race detector (GOMAXPROCS=4): a report is a violation of the schedule-independence clause at its cause, its output must equal the other runs', a deadline hit by that slower binary says nothing",
			"semantic verdicts are taken on the Go simulator only when the emitted machine uses faithfully simulated opcodes (programs that use RAM variables compile to r2m/m2r: labelled needs-hdl, termination and determinism only)",
			"-mpm programs with channels (workers started with go, helpers called inline with a channel argument) are judged semantically on harness/c12 SimulateBM: every processor stepped by the real simulator, the channel opcodes wwr/wrd/chw (TODO bodies in the simulator) given the unbuffered-rendezvous meaning of their descriptions and of the machine's Shared_links wiring",
			"inputs are constants (i2r has no handshake); output identity is the declaration order of bondgo.Output variables",
		},
	},
	"C11": {
		Pkg:   "c11",
		Tools: []string{"bondmachine"},
		Runs: []Run{
			{Test: "^TestProps$/^machine$", Checks: checks(400, 8000), Shards: shards(2, 4)},
			{Test: "^TestProps$/^bondmachine$", Checks: checks(250, 5000), Shards: shards(3, 8)},
			{Test: "^TestProps$/^handshake$", Checks: checks(400, 7000), Shards: shards(2, 4)},
			{Test: "^TestSweep$", NoRapid: true, Shards: shards(1, 1)},
			{Test: "^TestProps$/^cli_edit$", Checks: checks(25, 600), Shards: shards(2, 8)},
		},
		Assumptions: []string{
			"cli_edit drives the real bondmachine binary, one edit per invocation on a file, and compares the file with the same edits applied in memory",
			"load = the CLI sequence json.Marshal(Jsoner()) / json.Unmarshal / Dejsoner / Init; a loud refusal to load is an acceptable outcome, a silent drop is not",
			"nil slice = empty slice; opcodes compared by name, type and registered identity; caches CpID/SharedHDLOps/Tag exempt only when a machine saved after Write_verilog is compared with a copy that has not been through it",
			"HDL regeneration on a sampled share, flavour iverilog, empty simbox; machines with an fxp opcode never go through HDL (the generator reads /tmp/fxpcode and calls log.Fatal when absent); barriers are attached and vtextmem boxes cover the attached processors (HDL preconditions, C18's business)",
			"FloPoCo opcodes are out of reach (flopoco binary absent)",
		},
	},
	"C07": {
		Pkg:   "c07",
		Tools: []string{"basm", "bondgo", "neuralbond", "bmqsim", "bondmachine"},
		Runs: []Run{
			{Test: "^TestProps$/^inproc_basm$", Checks: checks(20, 250), Shards: shards(3, 8)},
			{Test: "^TestProps$/^inproc_neuralbond$", Checks: checks(4, 40), Shards: shards(1, 2)},
			{Test: "^TestProps$/^inproc_bmqsim$", Checks: checks(3, 8), Shards: shards(1, 4)},
			{Test: "^TestProps$/^inproc_hdl$", Checks: checks(30, 300), Shards: shards(1, 1)},
			{Test: "^TestProps$/^cli_basm$", Checks: checks(5, 40), Shards: shards(2, 4)},
			{Test: "^TestProps$/^cli_neuralbond$", Checks: checks(2, 8), Shards: shards(1, 2)},
			{Test: "^TestProps$/^cli_bmqsim$", Checks: checks(2, 5), Shards: shards(1, 2)},
			{Test: "^TestProps$/^cli_bondgo$", Checks: checks(8, 40), Shards: shards(1, 1)},
			{Test: "^TestProps$/^cli_bondmachine$", Checks: checks(10, 50), Shards: shards(1, 1)},
			// "no output depends on goroutine timing": the same in-process entries under the race detector (a
			// tool that splits its work among goroutines and lets them share what goes into the artefact is
			// caught whether or not the schedules of this run happened to collide)
			{Test: "^TestProps$/^inproc_neuralbond$", Checks: checks(3, 20), Shards: shards(1, 2), Race: true},
			{Test: "^TestProps$/^inproc_basm$", Checks: checks(8, 60), Shards: shards(2, 4), Race: true},
		},
		Assumptions: []string{
			"every input is run N times (6 quick, 30 thorough) as fresh child processes with GOMAXPROCS cycling 1/2/16 (CLI entries) or executed twice in-process on fresh instances with the process-wide registries reset; a nondeterminism with per-run probability p is missed with (1-p)^(N-1)",
			"log timestamps are stripped and goroutine dumps of a crashing tool are cut after the panic line; no artefact on the exercised paths embeds time or randomness by design",
			"a bondgo run that hits the timeout is dropped from the comparison (termination is C12's question); bondmachine -create-verilog without -simbox-file crashes deterministically after writing the files, which are still compared",
			"machines with fxp opcodes are kept out of the HDL entries (their Verilog is read from /tmp/fxpcode, absent here)",
			"inproc_basm and inproc_neuralbond are repeated under the Go race detector: a report whose frames are in the tool's packages counts as a dependence on goroutine timing (the detector sees unsynchronised sharing, not its effect on the bytes)",
		},
	},
	"C15": {
		Pkg:   "c15",
		Tools: []string{"bondmachine"},
		Runs: []Run{
			{Test: "^TestProps$/^rule_roundtrip$", Checks: checks(5000, 40000), Shards: shards(4, 16)},
			{Test: "^TestProps$/^sim_rules$", Checks: checks(1500, 12000), Shards: shards(4, 16)},
			{Test: "^TestProps$/^sim_pipeline$", Checks: checks(1200, 12000), Shards: shards(4, 16)},
			{Test: "^TestProps$/^cli_rules$", Checks: checks(30, 300), Shards: shards(4, 16)},
		},
		Fuzz: []Fuzz{{Target: "FuzzSimboxAdd", Time: 3 * time.Minute}},
		Assumptions: []string{
			"tick convention taken from the CLI loop (the docs are silent): iteration T = clear valid on consumed inputs, inject absolute:T sets (raising valid on iK), VM.Step, OutputsRecv=OutputsValid; get/show of tick T sample the state after that step; relative:P fires when T%P==0; onvalid fires on a rising end-of-iteration valid; onexit on the shutdown iteration",
			"several set rules on one object at one tick: the last in list order wins; values are compared numerically after decoding, never by rendered text",
			"the real bondmachine -sim binary is judged against the predictor and byte-for-byte against the harness's copy of the loop (signature replica-drift = harness stale)",
			"negative indices for Del/Suspend/Reactivate, relative:0 rules, set on flag objects and onrecv rules are outside the domain (not promised by the statement or the docs)",
		},
	},
	"C05": {
		TraceCases: true,
		Pkg:        "c05",
		Runs: []Run{
			{Test: "^TestProps$/^streams$", Checks: checks(110, 1300), Shards: shards(8, 16), Timeout: tmo(15*time.Minute, 90*time.Minute)},
			{Test: "^TestProps$/^macro_shapes$", Checks: checks(50, 600), Shards: shards(8, 16), Timeout: tmo(15*time.Minute, 90*time.Minute)},
			{Test: "^TestHygiene$", NoRapid: true, Shards: shards(1, 1)},
		},
		Fuzz: []Fuzz{{Target: "FuzzParseAssembly", Time: 2 * time.Minute}},
		Assumptions: []string{
			"the reference interpreter (harness/c05/ref.go) reads the source text only: own line reader, literal reader, textual macro expansion, label resolution, entry handling, wrap at the register size; bonds are rendezvous streams",
			"only faithfully simulated opcodes are generated; only sync IO in sections a CP runs; every IO instruction is followed by 3 non-IO instructions and fan-out is 1 (keeps clear of the handshake findings of C04); a multi-CP mismatch is first triaged against the single-CP runs",
			"CLI switch sets are part of the case (default / -disable-dynamical-matching / -chooser-min-word-size [+ -chooser-force-same-name]); a clean refusal of mov rX,<literal> under default switches is accepted",
			"streams are compared prefix-wise (timing-free) plus a progress bound: the machine must deliver in T ticks at least what a strict-rendezvous execution delivers in T/6 instruction rounds",
		},
	},
	"C18": {
		Pkg: "c18",
		Runs: []Run{
			{Test: "^TestProps$/^random$", Checks: checks(400, 4000), Shards: shards(8, 16), Timeout: tmo(15*time.Minute, 90*time.Minute)},
			{Test: "^TestSweep$", NoRapid: true, Shards: shards(8, 1), Timeout: tmo(15*time.Minute, 90*time.Minute)},
		},
		Assumptions: []string{
			"'a standard Verilog front end' is approximated by /verif's IEEE 1364-2001 subset front end (no implicit nets, synthesis translate_off regions honoured); exactly the six error classes of the statement are judged, 'unsupported' constructs are skipped and counted",
			"machines are built through the public API and a JSON round trip as bondmachine -create-verilog does; flavour iverilog, empty simbox, no board extra modules; Write_verilog panics and tool refusals (flopoco, fxp files absent) are counted as excluded",
			"a diagnostic whose signature <class>:<module-kind>:<identifier> is recorded as an open finding is filtered; a machine with only recorded diagnostics is counted as excluded; any unrecorded signature is a violation. A recorded syntax error can hide further diagnostics of the same module",
			"R>=1, O>=1; vtextmem strings carry one box per processor",
		},
	},
	"C16": {
		Pkg:   "c16",
		Tools: []string{"basm", "bondgo", "neuralbond", "bmqsim"},
		Runs: []Run{
			{Test: "^TestProps$/^basm_sources$", Checks: checks(200, 2200), Shards: shards(8, 16)},
			{Test: "^TestProps$/^basm_fragments$", Checks: checks(30, 350), Shards: shards(8, 16), Timeout: tmo(15*time.Minute, 90*time.Minute)},
			{Test: "^TestProps$/^neuralbond$", Checks: checks(16, 150), Shards: shards(2, 4)},
			{Test: "^TestProps$/^bmqsim$", Checks: checks(8, 40), Shards: shards(2, 4), Timeout: tmo(15*time.Minute, 90*time.Minute)},
			{Test: "^TestProps$/^bondgo$", Checks: checks(40, 300), Shards: shards(6, 16)},
			{Test: "^TestProps$/^unfittable$", Checks: checks(50, 600), Shards: shards(6, 8)},
		},
		Assumptions: []string{
			"the validator wf() is written from the statement: word width and alphabet, opcode field, opcode list sorted/duplicate-free, 2^R/N/M/2^O/2^L adequate for everything the program (decoded with each opcode's own Disassembler) and the source mention, jump targets within the ROM contents, Rsize equal, ConstraintCheck, bond-graph predicate of C10",
			"adequacy only, never minimality; user-given romsize:/ramsize: are respected as given",
			"a refusal of a fittable source (unknown register/port, operand out of range, no assemblable alternative) is a violation in the basm entries; bondgo hangs/crashes are C12's subject and counted as excluded",
			"ports >= 255 and unparsable/overflowing register indexes are the unfittable register/port kinds (r256 gives R=9 and is well formed)",
		},
	},
}
