package main

import "time"

var _ = time.Second

var plans = map[string]Plan{
	"C10": {
		Pkg: "c10",
		Runs: []Run{
			{Test: "^TestProps$/^topology$", Checks: checks(1500, 40000), Shards: shards(4, 16)},
		},
		Assumptions: []string{
			"negative ids are never passed to Del_* (every caller in cmd/bondmachine guards them)",
			"bond ids are the keys of List_bonds() as the user sees them before the edit",
		},
	},
	"C17": {
		Pkg: "c17",
		Runs: []Run{
			{Test: "^TestProps$/^no_leak$", Checks: checks(40, 600), Shards: shards(4, 16)},
		},
		Assumptions: []string{
			"goroutine counts are sampled after a bounded settle loop; the verdict is growth in BOTH of two equal further batches (a one-off lazy start cannot trip it)",
			"Fitness_default is driven with an empty input simbox (it dereferences a nil config otherwise: outside its accepted domain)",
			"retained memory is not a verdict (allocator noise); goroutines pin the VM they reference, so a goroutine leak implies retention",
		},
	},
}
