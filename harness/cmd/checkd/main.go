// checkd — driver behind /verif/bin/check.
//
//	checkd <ID> quick|thorough        run the property's check, write evidence/<ID>.json
//	checkd <ID> --replay <file>       re-execute one replay file through the library-free entry
//
// Exit 0: property held on everything explored (KNOWN-FINDING lines may be printed).
// Exit 1: "VIOLATION property=<ID> replay=<path>" printed.
// Exit 2: inconclusive (harness timeout, build failure, worker death).
package main

import (
	"bytes"
	"context"
	"crypto/sha256"
	"encoding/hex"
	"encoding/json"
	"fmt"
	"os"
	"os/exec"
	"path/filepath"
	"regexp"
	"sort"
	"strconv"
	"strings"
	"sync"
	"time"
)

const verifRoot = "/verif"

var goEnv = []string{"GOFLAGS=-mod=mod", "GOPROXY=off", "GOSUMDB=off", "GOTOOLCHAIN=local"}

// Run is one invocation family of a test binary.
type Run struct {
	Test    string // -test.run regexp, e.g. ^TestProps$/^topology$
	Checks  [2]int // rapid checks per shard: quick, thorough
	Shards  [2]int // parallel processes: quick, thorough
	Race    bool   // needs the -race build
	Steps   int    // -rapid.steps (0 = default)
	Timeout [2]time.Duration
	Env     []string
	// NoRapid: the test is a hand-rolled loop (exhaustive enumerator, CLI driver); it reads
	// VERIF_TIER / VERIF_SEED / VERIF_SHARD / VERIF_NSHARDS itself.
	NoRapid bool
	// ThoroughOnly runs are skipped in the quick tier.
	ThoroughOnly bool
}

type Fuzz struct {
	Target string
	Time   time.Duration
}

type Plan struct {
	Pkg   string
	Level string
	Runs  []Run
	Fuzz  []Fuzz // thorough only
	// TraceCases: every shard leaves the case it is evaluating behind, so that a process killed by a panic
	// in a goroutine of the code under test (which no test can recover) is blamed on that case
	TraceCases  bool
	Tools       []string
	RaceTools   []string // also built with -race into $VERIF_TOOLS/race/
	Assumptions []string
}

func shards(q, t int) [2]int                  { return [2]int{q, t} }
func checks(q, t int) [2]int                  { return [2]int{q, t} }
func tmo(q, t time.Duration) [2]time.Duration { return [2]time.Duration{q, t} }

type Known struct {
	Property string `json:"property"`
	Sig      string `json:"sig"`
	What     string `json:"what"`
	Status   string `json:"status"` // "open" or "fixed"
	Commit   string `json:"commit,omitempty"`
}

func loadKnown() []Known {
	b, err := os.ReadFile(filepath.Join(verifRoot, "known_findings.json"))
	if err != nil {
		return nil
	}
	var f struct {
		Findings []Known `json:"findings"`
	}
	if err := json.Unmarshal(b, &f); err != nil {
		fmt.Fprintln(os.Stderr, "known_findings.json does not parse:", err)
		os.Exit(2)
	}
	return f.Findings
}

type shardResult struct {
	run      *Run
	shard    int
	exit     int
	timedOut bool
	out      string
	stats    string
	faildir  string
}

func main() {
	if len(os.Args) < 3 {
		fmt.Fprintln(os.Stderr, "usage: checkd <ID> quick|thorough | checkd <ID> --replay <file>")
		os.Exit(2)
	}
	id := os.Args[1]
	plan, ok := plans[id]
	if !ok {
		fmt.Fprintln(os.Stderr, "no plan for", id)
		os.Exit(2)
	}
	mode := os.Args[2]
	start := time.Now()
	seed := int64(1)
	if s := os.Getenv("VERIF_SEED"); s != "" {
		if v, err := strconv.ParseInt(s, 10, 64); err == nil {
			seed = v
		}
	}
	tmp, err := os.MkdirTemp("", "verif-"+id+"-")
	if err != nil {
		fmt.Fprintln(os.Stderr, err)
		os.Exit(2)
	}
	code := 2
	defer func() {
		os.RemoveAll(tmp)
		os.Exit(code)
	}()

	harness := filepath.Join(verifRoot, "harness")
	// keep go.sum in step with /repo (the replace target); the harness's own extra sums are appended at setup
	needRace := false
	tier := 0
	if mode == "thorough" {
		tier = 1
	}
	// VERIF_ONLY_RUN (development only, honoured only together with VERIF_REPO): keep the runs whose test
	// pattern contains the given text — to judge one entry alone against a scratch tree
	if only := os.Getenv("VERIF_ONLY_RUN"); only != "" && os.Getenv("VERIF_REPO") != "" {
		var keep []Run
		for _, r := range plan.Runs {
			if strings.Contains(r.Test, only) {
				keep = append(keep, r)
			}
		}
		plan.Runs = keep
		plan.Fuzz = nil
	}
	for _, r := range plan.Runs {
		if r.Race && (tier == 1 || !r.ThoroughOnly) {
			needRace = true
		}
	}
	// VERIF_REPO (development only): point the replace directive at a scratch copy of the repository
	// (sensitivity experiments on mutants) without touching /repo. Registered commands never set it.
	repoDir := "/repo"
	modfileArg := ""
	if alt := os.Getenv("VERIF_REPO"); alt != "" {
		repoDir = alt
		gm, _ := os.ReadFile(filepath.Join(harness, "go.mod"))
		gs, _ := os.ReadFile(filepath.Join(harness, "go.sum"))
		alt2 := strings.Replace(string(gm), "=> /repo", "=> "+alt, 1)
		os.WriteFile(filepath.Join(tmp, "alt.mod"), []byte(alt2), 0o644)
		os.WriteFile(filepath.Join(tmp, "alt.sum"), gs, 0o644)
		modfileArg = "-modfile=" + filepath.Join(tmp, "alt.mod")
	}
	bin := filepath.Join(tmp, "t.test")
	binRace := filepath.Join(tmp, "t.race.test")
	build := func(out string, race bool) bool {
		args := []string{"test", "-c", "-tags", "verif", "-o", out}
		if race {
			args = append(args, "-race")
		}
		if modfileArg != "" {
			args = append(args, modfileArg)
		}
		args = append(args, "./"+plan.Pkg)
		cmd := exec.Command("go", args...)
		cmd.Dir = harness
		cmd.Env = append(os.Environ(), goEnv...)
		var buf bytes.Buffer
		cmd.Stdout, cmd.Stderr = &buf, &buf
		if err := cmd.Run(); err != nil {
			fmt.Printf("BUILD-FAILED %s: %v\n%s\n", plan.Pkg, err, buf.String())
			return false
		}
		return true
	}
	var wgB sync.WaitGroup
	okB, okR, okT, okT2 := true, true, true, true
	wgB.Add(1)
	go func() { defer wgB.Done(); okB = build(bin, false) }()
	if needRace {
		wgB.Add(1)
		go func() { defer wgB.Done(); okR = build(binRace, true) }()
	}
	toolDir := filepath.Join(tmp, "tools")
	if len(plan.Tools) > 0 {
		wgB.Add(1)
		go func() {
			defer wgB.Done()
			os.MkdirAll(toolDir, 0o755)
			args := []string{"build", "-tags", "verif", "-o", toolDir + "/"}
			for _, t := range plan.Tools {
				args = append(args, "./cmd/"+t)
			}
			cmd := exec.Command("go", args...)
			cmd.Dir = repoDir
			cmd.Env = append(os.Environ(), "GOFLAGS=-mod=mod", "GOPROXY=off", "GOSUMDB=off", "GOTOOLCHAIN=local")
			var buf bytes.Buffer
			cmd.Stdout, cmd.Stderr = &buf, &buf
			if err := cmd.Run(); err != nil {
				fmt.Printf("BUILD-FAILED tools: %v\n%s\n", err, buf.String())
				okT = false
			}
		}()
	}
	if len(plan.RaceTools) > 0 {
		wgB.Add(1)
		go func() {
			defer wgB.Done()
			os.MkdirAll(filepath.Join(toolDir, "race"), 0o755)
			args := []string{"build", "-race", "-tags", "verif", "-o", filepath.Join(toolDir, "race") + "/"}
			for _, t := range plan.RaceTools {
				args = append(args, "./cmd/"+t)
			}
			cmd := exec.Command("go", args...)
			cmd.Dir = repoDir
			cmd.Env = append(os.Environ(), "GOFLAGS=-mod=mod", "GOPROXY=off", "GOSUMDB=off", "GOTOOLCHAIN=local")
			var buf bytes.Buffer
			cmd.Stdout, cmd.Stderr = &buf, &buf
			if err := cmd.Run(); err != nil {
				fmt.Printf("BUILD-FAILED race tools: %v\n%s\n", err, buf.String())
				okT2 = false
			}
		}()
	}
	wgB.Wait()
	if !okB || !okR || !okT || !okT2 {
		// A tree that does not compile cannot be judged.
		return
	}

	replayDir := filepath.Join(verifRoot, "replays", id)
	foundDir := filepath.Join(replayDir, "found")
	if os.Getenv("VERIF_REPO") != "" {
		foundDir = filepath.Join(os.TempDir(), "verif-found-"+id)
	}
	baseEnv := append(os.Environ(), goEnv...)
	baseEnv = append(baseEnv, "VERIF_TOOLS="+toolDir, "VERIF_TIER="+mode, "VERIF_ROOT="+verifRoot, "TMPDIR="+tmp)

	if mode == "--replay" {
		if len(os.Args) < 4 {
			fmt.Fprintln(os.Stderr, "missing replay file")
			return
		}
		rd := filepath.Join(tmp, "one")
		os.MkdirAll(rd, 0o755)
		b, err := os.ReadFile(os.Args[3])
		if err != nil {
			fmt.Fprintln(os.Stderr, err)
			return
		}
		if bytes.HasPrefix(b, []byte("go test fuzz v1")) {
			// a saved native-fuzz input: fuzz-<Target>-<name>
			target := ""
			for _, fz := range plan.Fuzz {
				if strings.Contains(filepath.Base(os.Args[3]), fz.Target) {
					target = fz.Target
				}
			}
			if target == "" {
				fmt.Fprintln(os.Stderr, "cannot tell the fuzz target from the file name")
				return
			}
			cdir := filepath.Join(harness, plan.Pkg, "testdata", "fuzz", target)
			os.MkdirAll(cdir, 0o755)
			name := fmt.Sprintf("replay-%d", os.Getpid())
			os.WriteFile(filepath.Join(cdir, name), b, 0o644)
			defer os.Remove(filepath.Join(cdir, name))
			rc := exec.Command("go", "test", "-tags", "verif", "-count=1", "-run", "^"+target+"$/^"+name+"$", "./"+plan.Pkg)
			rc.Dir = harness
			rc.Env = baseEnv
			out, err := rc.CombinedOutput()
			os.Stdout.Write(out)
			if err != nil && bytes.Contains(out, []byte("FAIL")) {
				fmt.Printf("VIOLATION property=%s replay=%s\n", id, os.Args[3])
				code = 1
				return
			}
			code = 0
			return
		}
		os.WriteFile(filepath.Join(rd, "case.json"), b, 0o644)
		cmd := exec.Command(bin, "-test.run", "^TestReplay$", "-test.v")
		cmd.Dir = filepath.Join(harness, plan.Pkg)
		cmd.Env = append(baseEnv, "VERIF_REPLAY_DIR="+rd)
		out, _ := cmd.CombinedOutput()
		os.Stdout.Write(out)
		if bytes.Contains(out, []byte("REPLAY-FAIL")) {
			fmt.Printf("VIOLATION property=%s replay=%s\n", id, os.Args[3])
			code = 1
			return
		}
		code = 0
		return
	}
	if mode != "quick" && mode != "thorough" {
		fmt.Fprintln(os.Stderr, "unknown mode", mode)
		return
	}

	known := loadKnown()
	isKnown := func(sig string) *Known {
		if sig == "" {
			return nil
		}
		for i := range known {
			if known[i].Property == id && known[i].Sig == sig && known[i].Status == "open" {
				return &known[i]
			}
		}
		return nil
	}

	violations := []string{}
	seenViolation := map[string]bool{}
	knownPrinted := map[string]bool{}
	inconclusive := []string{}
	reportFailure := func(file string) {
		// file is a pbt.ReplayFile with a failure
		b, err := os.ReadFile(file)
		if err != nil {
			return
		}
		var rf struct {
			Entry   string `json:"entry"`
			Failure *struct {
				Msg string `json:"msg"`
				Sig string `json:"sig"`
			} `json:"failure"`
		}
		json.Unmarshal(b, &rf)
		sig := ""
		msg := ""
		if rf.Failure != nil {
			sig, msg = rf.Failure.Sig, rf.Failure.Msg
		}
		if k := isKnown(sig); k != nil {
			if !knownPrinted[sig] {
				fmt.Printf("KNOWN-FINDING: property=%s %s [sig=%s]\n", id, k.What, sig)
				knownPrinted[sig] = true
			}
			return
		}
		os.MkdirAll(foundDir, 0o755)
		sum := sha256.Sum256(b)
		dst := filepath.Join(foundDir, fmt.Sprintf("%s-%s.json", strings.ReplaceAll(rf.Entry, "/", "_"), hex.EncodeToString(sum[:5])))
		if seenViolation[dst] {
			return
		}
		seenViolation[dst] = true
		os.WriteFile(dst, b, 0o644)
		fmt.Printf("FAILURE entry=%s sig=%q: %s\n", rf.Entry, sig, firstLines(msg, 12))
		fmt.Printf("VIOLATION property=%s replay=%s\n", id, dst)
		violations = append(violations, dst)
	}

	// ---- replay tier
	{
		fd := filepath.Join(tmp, "replayfail")
		ctx, cancel := context.WithTimeout(context.Background(), 10*time.Minute)
		cmd := exec.CommandContext(ctx, bin, "-test.run", "^TestReplay$", "-test.timeout", "0")
		cmd.Dir = filepath.Join(harness, plan.Pkg)
		cmd.Env = append(baseEnv, "VERIF_REPLAY_DIR="+replayDir, "VERIF_FAILDIR="+fd)
		out, err := cmd.CombinedOutput()
		cancel()
		so := string(out)
		for _, line := range strings.Split(so, "\n") {
			if strings.HasPrefix(line, "KNOWN-CONFIRMED ") {
				m := regexp.MustCompile(`sig=(\S+)`).FindStringSubmatch(line)
				if m != nil {
					if k := isKnown(m[1]); k != nil {
						if !knownPrinted[m[1]] {
							fmt.Printf("KNOWN-FINDING: property=%s %s [sig=%s]\n", id, k.What, m[1])
							knownPrinted[m[1]] = true
						}
					} else {
						// a file under known/ that fails with a signature that is not listed open: a real violation
						f := regexp.MustCompile(`file=(\S+)`).FindStringSubmatch(line)
						fmt.Println(line)
						fmt.Printf("VIOLATION property=%s replay=%s\n", id, f[1])
						violations = append(violations, f[1])
					}
				}
			}
			if strings.HasPrefix(line, "KNOWN-STALE ") {
				fmt.Println("note:", line, "(recorded finding no longer reproduces)")
			}
			if strings.HasPrefix(line, "REPLAY-FAIL ") {
				m := regexp.MustCompile(`sig=(\S*) file=(\S+)`).FindStringSubmatch(line)
				if m != nil {
					if k := isKnown(m[1]); k != nil {
						if !knownPrinted[m[1]] {
							fmt.Printf("KNOWN-FINDING: property=%s %s [sig=%s]\n", id, k.What, m[1])
							knownPrinted[m[1]] = true
						}
						continue
					}
					fmt.Println(line)
					fmt.Printf("VIOLATION property=%s replay=%s\n", id, m[2])
					violations = append(violations, m[2])
				}
			}
		}
		if err != nil && len(violations) == 0 && !strings.Contains(so, "REPLAY-FAIL") {
			if ctx.Err() != nil {
				inconclusive = append(inconclusive, "replay tier timed out")
			} else if !strings.Contains(so, "no tests to run") {
				fmt.Println(tail(so, 30))
				inconclusive = append(inconclusive, "replay tier died: "+err.Error())
			}
		}
	}

	// ---- generated tier
	var results []*shardResult
	var mu sync.Mutex
	sem := make(chan struct{}, 16)
	var wg sync.WaitGroup
	for ri := range plan.Runs {
		r := &plan.Runs[ri]
		if r.ThoroughOnly && tier == 0 {
			continue
		}
		n := r.Shards[tier]
		if n == 0 {
			n = 1
		}
		for k := 0; k < n; k++ {
			wg.Add(1)
			go func(r *Run, ri, k, n int) {
				defer wg.Done()
				sem <- struct{}{}
				defer func() { <-sem }()
				sr := &shardResult{run: r, shard: k}
				sr.stats = filepath.Join(tmp, fmt.Sprintf("stats.%d.%d.json", ri, k))
				sr.faildir = filepath.Join(tmp, fmt.Sprintf("fail.%d.%d", ri, k))
				work := filepath.Join(tmp, fmt.Sprintf("work.%d.%d", ri, k))
				os.MkdirAll(work, 0o755)
				rseed := uint64(seed)*1000003 + uint64(ri)*1009 + uint64(k) + 1
				if rseed == 0 {
					rseed = 0x9e3779b97f4a7c15
				}
				b := bin
				if r.Race {
					b = binRace
				}
				args := []string{"-test.run", r.Test, "-test.timeout", "0"}
				if !r.NoRapid {
					args = append(args, "-rapid.checks", strconv.Itoa(r.Checks[tier]), "-rapid.seed", strconv.FormatUint(rseed, 10),
						"-rapid.nofailfile", "-rapid.shrinktime", "20s")
					if r.Steps > 0 {
						args = append(args, "-rapid.steps", strconv.Itoa(r.Steps))
					}
				}
				to := r.Timeout[tier]
				if to == 0 {
					to = 10 * time.Minute
					if tier == 1 {
						to = 40 * time.Minute
					}
				}
				ctx, cancel := context.WithTimeout(context.Background(), to)
				defer cancel()
				cmd := exec.CommandContext(ctx, b, args...)
				cmd.Dir = work // HDL generators write into the CWD: one scratch dir per shard
				cmd.Env = append(append([]string{}, baseEnv...), "VERIF_STATS="+sr.stats, "VERIF_FAILDIR="+sr.faildir,
					fmt.Sprintf("VERIF_SEED=%d", rseed), fmt.Sprintf("VERIF_BASE_SEED=%d", seed), fmt.Sprintf("VERIF_SHARD=%d", k), fmt.Sprintf("VERIF_NSHARDS=%d", n),
					fmt.Sprintf("VERIF_CHECKS=%d", r.Checks[tier]), "VERIF_WORK="+work, "VERIF_HARNESS="+harness)
				cmd.Env = append(cmd.Env, r.Env...)
				if r.Race {
					os.MkdirAll(sr.faildir, 0o755)
					cmd.Env = append(cmd.Env, "GORACE=halt_on_error=1", "VERIF_CURRENT_CASE="+filepath.Join(sr.faildir, "current.case"))
				} else if plan.TraceCases && !r.NoRapid {
					os.MkdirAll(sr.faildir, 0o755)
					cmd.Env = append(cmd.Env, "VERIF_CURRENT_CASE="+filepath.Join(sr.faildir, "current.case"))
				}
				cmd.WaitDelay = 5 * time.Second
				out, err := cmd.CombinedOutput()
				sr.out = string(out)
				if ctx.Err() != nil {
					sr.timedOut = true
				}
				if err != nil {
					sr.exit = 1
					if ee, ok := err.(*exec.ExitError); ok {
						sr.exit = ee.ExitCode()
					}
				}
				mu.Lock()
				results = append(results, sr)
				mu.Unlock()
			}(r, ri, k, n)
		}
	}
	wg.Wait()
	sort.Slice(results, func(i, j int) bool {
		if results[i].run.Test != results[j].run.Test {
			return results[i].run.Test < results[j].run.Test
		}
		return results[i].shard < results[j].shard
	})

	merged := newMerge()
	for _, sr := range results {
		merged.add(sr.stats)
		// explicit lines from hand-rolled tests
		for _, line := range strings.Split(sr.out, "\n") {
			if strings.HasPrefix(line, "KNOWN-CONFIRMED ") {
				if m := regexp.MustCompile(`sig=(\S+)`).FindStringSubmatch(line); m != nil {
					if k := isKnown(m[1]); k != nil && !knownPrinted[m[1]] {
						fmt.Printf("KNOWN-FINDING: property=%s %s [sig=%s]\n", id, k.What, m[1])
						knownPrinted[m[1]] = true
					}
				}
			}
			if strings.HasPrefix(line, "INCONCLUSIVE ") {
				inconclusive = append(inconclusive, line)
			}
		}
		if sr.run.Race && strings.Contains(sr.out, "WARNING: DATA RACE") {
			// the race detector is the sanitizer, the generated schedule/concurrency plan is the input:
			// the report (with the case that was running) becomes the replay artefact
			rep := sr.out[strings.Index(sr.out, "WARNING: DATA RACE"):]
			if i := strings.Index(rep, "\n=================="); i > 0 {
				rep = rep[:i]
			}
			fn := regexp.MustCompile(`(?m)^  (github\.com/BondMachineHQ/BondMachine/\S+)\(\)`).FindAllStringSubmatch(rep, 2)
			sig := "race"
			for _, m := range fn {
				sig += ":" + strings.TrimPrefix(m[1], "github.com/BondMachineHQ/BondMachine/pkg/")
			}
			cur, _ := os.ReadFile(filepath.Join(sr.faildir, "current.case"))
			var rf map[string]any
			if json.Unmarshal(cur, &rf) != nil || rf == nil {
				rf = map[string]any{"property": id, "entry": "race", "case": nil}
			}
			rf["failure"] = map[string]any{"msg": "data race reported by the Go race detector while this case ran:\n" + firstLines(rep, 60), "sig": sig}
			b, _ := json.MarshalIndent(rf, "", " ")
			rp := filepath.Join(sr.faildir, "race.json")
			os.WriteFile(rp, b, 0o644)
			os.Remove(filepath.Join(sr.faildir, "current.case"))
			reportFailure(rp)
			continue
		}
		if sr.exit != 0 && !sr.timedOut {
			// a Go panic that killed the whole test process: it happened in a goroutine no test owns, i.e. in
			// the code under test. The case that was running is the input.
			if fails, _ := filepath.Glob(filepath.Join(sr.faildir, "*.json")); len(fails) == 0 {
				so := "\n" + sr.out
				if i := strings.Index(so, "\npanic: "); i >= 0 && strings.Contains(so[i:], "github.com/BondMachineHQ/BondMachine/") && !strings.Contains(so[i:], "panic: test timed out") {
					if cur, err := os.ReadFile(filepath.Join(sr.faildir, "current.case")); err == nil {
						var rf map[string]any
						if json.Unmarshal(cur, &rf) == nil && rf != nil {
							trace := so[i+1:]
							first := strings.SplitN(trace, "\n", 2)[0]
							frame := ""
							if m := regexp.MustCompile(`(?m)^github\.com/BondMachineHQ/BondMachine/(\S+?)\(`).FindStringSubmatch(trace); m != nil {
								frame = m[1]
							}
							msg := regexp.MustCompile(`0x[0-9a-f]+|\[[0-9]+\]|length [0-9]+`).ReplaceAllString(strings.TrimPrefix(first, "panic: "), "N")
							rf["failure"] = map[string]any{"msg": "the test process was killed by a panic in a goroutine of the code under test while this case ran:\n" + firstLines(trace, 40), "sig": "crash:" + strings.ReplaceAll(msg, " ", "-") + "@" + frame}
							b, _ := json.MarshalIndent(rf, "", " ")
							os.WriteFile(filepath.Join(sr.faildir, "crash.json"), b, 0o644)
						}
					}
				}
			}
		}
		if sr.exit != 0 {
			fails, _ := filepath.Glob(filepath.Join(sr.faildir, "*.json"))
			if len(fails) > 0 {
				for _, f := range fails {
					reportFailure(f)
				}
				continue
			}
			if sr.timedOut {
				inconclusive = append(inconclusive, fmt.Sprintf("%s shard %d: harness timeout", sr.run.Test, sr.shard))
				continue
			}
			// non-zero exit without a failure file: worker death, flaky verdict, t.Errorf outside pbt
			fmt.Printf("--- %s shard %d exit=%d\n%s\n", sr.run.Test, sr.shard, sr.exit, tail(sr.out, 40))
			inconclusive = append(inconclusive, fmt.Sprintf("%s shard %d: exit %d without a failing case", sr.run.Test, sr.shard, sr.exit))
		}
	}

	// ---- native fuzz (thorough only)
	fuzzNotes := []string{}
	if tier == 1 {
		for _, fz := range plan.Fuzz {
			note, crashers := runFuzz(harness, plan.Pkg, fz, baseEnv, tmp)
			fuzzNotes = append(fuzzNotes, note)
			for _, c := range crashers {
				b, _ := os.ReadFile(c)
				os.Remove(c)
				if m := regexp.MustCompile(`sig=([A-Za-z0-9_:.\-]+)`).FindStringSubmatch(fuzzOut[c]); m != nil {
					if k := isKnown(m[1]); k != nil {
						if !knownPrinted[m[1]] {
							fmt.Printf("KNOWN-FINDING: property=%s %s [sig=%s]\n", id, k.What, m[1])
							knownPrinted[m[1]] = true
						}
						continue
					}
				}
				os.MkdirAll(foundDir, 0o755)
				dst := filepath.Join(foundDir, "fuzz-"+fz.Target+"-"+filepath.Base(c))
				os.WriteFile(dst, b, 0o644)
				fmt.Printf("VIOLATION property=%s replay=%s\n", id, dst)
				violations = append(violations, dst)
			}
		}
	}

	// every listed open finding of this property is named on every run
	for _, k := range known {
		if k.Property == id && k.Status == "open" && !knownPrinted[k.Sig] {
			fmt.Printf("KNOWN-FINDING: property=%s %s [sig=%s] (listed; its replay was not re-run or did not reproduce in this run)\n", id, k.What, k.Sig)
		}
	}
	wall := time.Since(start).Seconds()
	ev := merged.evidence(id, mode, seed, plan, wall, len(violations), fuzzNotes, known, knownPrinted, inconclusive)
	b, _ := json.MarshalIndent(ev, "", " ")
	if os.Getenv("VERIF_REPO") != "" {
		// development runs against a scratch copy never touch the evidence of the real tree
		os.WriteFile(filepath.Join(os.TempDir(), "verif-evidence-"+id+"-scratch.json"), b, 0o644)
	} else {
		os.MkdirAll(filepath.Join(verifRoot, "evidence"), 0o755)
		os.WriteFile(filepath.Join(verifRoot, "evidence", id+".json"), b, 0o644)
	}

	switch {
	case len(violations) > 0:
		code = 1
	case len(inconclusive) > 0:
		for _, s := range inconclusive {
			fmt.Println("INCONCLUSIVE:", s)
		}
		code = 2
	default:
		fmt.Printf("OK property=%s tier=%s evaluations=%d distinct_nontrivial=%d wall=%.1fs\n", id, mode, merged.evals, len(merged.hashes), wall)
		code = 0
	}
}

func firstLines(s string, n int) string {
	l := strings.Split(s, "\n")
	if len(l) > n {
		l = l[:n]
	}
	return strings.Join(l, "\n")
}

func tail(s string, n int) string {
	l := strings.Split(strings.TrimRight(s, "\n"), "\n")
	if len(l) > n {
		l = l[len(l)-n:]
	}
	return strings.Join(l, "\n")
}

// ---------------------------------------------------------------------------

type entryStats struct {
	Name        string            `json:"name"`
	Rule        string            `json:"rule"`
	Evaluations int               `json:"evaluations"`
	NonTrivial  int               `json:"nontrivial"`
	Hashes      []string          `json:"nontrivial_hashes"`
	Labels      map[string]int    `json:"labels"`
	Excluded    map[string]int    `json:"excluded"`
	Failures    int               `json:"failures"`
	Samples     []json.RawMessage `json:"samples"`
}

type merge struct {
	evals   int
	hashes  map[string]bool
	entries map[string]*entryStats
	ehash   map[string]map[string]bool
	extra   map[string]map[string]any
	order   []string
}

func newMerge() *merge {
	return &merge{hashes: map[string]bool{}, entries: map[string]*entryStats{}, ehash: map[string]map[string]bool{}, extra: map[string]map[string]any{}}
}

func (m *merge) add(path string) {
	b, err := os.ReadFile(path)
	if err != nil {
		return
	}
	var f struct {
		Entries []*entryStats             `json:"entries"`
		Extra   map[string]map[string]any `json:"extra"`
	}
	if json.Unmarshal(b, &f) != nil {
		return
	}
	for _, e := range f.Entries {
		t := m.entries[e.Name]
		if t == nil {
			t = &entryStats{Name: e.Name, Rule: e.Rule, Labels: map[string]int{}, Excluded: map[string]int{}}
			m.entries[e.Name] = t
			m.ehash[e.Name] = map[string]bool{}
			m.order = append(m.order, e.Name)
		}
		t.Evaluations += e.Evaluations
		t.NonTrivial += e.NonTrivial
		t.Failures += e.Failures
		m.evals += e.Evaluations
		for _, h := range e.Hashes {
			m.ehash[e.Name][h] = true
			m.hashes[e.Name+":"+h] = true
		}
		for k, v := range e.Labels {
			t.Labels[k] += v
		}
		for k, v := range e.Excluded {
			t.Excluded[k] += v
		}
		if len(t.Samples) < 4 {
			for _, s := range e.Samples {
				if len(t.Samples) < 4 {
					t.Samples = append(t.Samples, s)
				}
			}
		}
	}
	for n, kv := range f.Extra {
		if m.extra[n] == nil {
			m.extra[n] = map[string]any{}
		}
		for k, v := range kv {
			// numeric extras are summed across shards, others are kept from the first shard
			if fv, ok := v.(float64); ok {
				if old, ok := m.extra[n][k].(float64); ok {
					m.extra[n][k] = old + fv
				} else if _, exists := m.extra[n][k]; !exists {
					m.extra[n][k] = fv
				}
			} else if _, exists := m.extra[n][k]; !exists {
				m.extra[n][k] = v
			}
		}
	}
}

func (m *merge) evidence(id, tier string, seed int64, plan Plan, wall float64, violations int, fuzz []string, known []Known, printed map[string]bool, inconclusive []string) map[string]any {
	sort.Strings(m.order)
	rules := []string{}
	samples := []any{}
	per := []any{}
	for _, n := range m.order {
		e := m.entries[n]
		rules = append(rules, n+": "+e.Rule)
		for i, s := range e.Samples {
			if i < 3 {
				samples = append(samples, map[string]any{"entry": n, "sample": s})
			}
		}
		per = append(per, map[string]any{
			"entry": n, "evaluations": e.Evaluations, "nontrivial": e.NonTrivial, "distinct_nontrivial": len(m.ehash[n]),
			"labels": e.Labels, "excluded_counts": e.Excluded, "failing_evaluations": e.Failures,
		})
	}
	cov := map[string]any{
		"evaluations":         m.evals,
		"distinct_nontrivial": len(m.hashes),
		"rule":                strings.Join(rules, " || "),
		"samples":             samples,
		"per_entry":           per,
	}
	if len(m.extra) > 0 {
		cov["extra"] = m.extra
	}
	if len(fuzz) > 0 {
		cov["native_fuzz"] = fuzz
	}
	if len(inconclusive) > 0 {
		cov["inconclusive"] = inconclusive
	}
	kf := []string{}
	for _, k := range known {
		if k.Property == id && k.Status == "open" {
			st := "listed, not re-confirmed in this run"
			if printed[k.Sig] {
				st = "re-confirmed in this run"
			}
			kf = append(kf, k.Sig+": "+k.What+" ("+st+")")
		}
	}
	if len(kf) > 0 {
		cov["known_findings"] = kf
	}
	level := plan.Level
	if level == "" {
		level = "exploration"
	}
	if level == "translation_validation" {
		fails := 0
		for _, e := range m.entries {
			fails += e.Failures
		}
		cov["programs"] = m.evals
		cov["disagreements_checked"] = fails
	}
	return map[string]any{
		"property_id": id,
		"tier":        tier,
		"seed":        seed,
		"level":       level,
		"coverage":    cov,
		"assumptions": plan.Assumptions,
		"wall_s":      wall,
		"violations":  violations,
	}
}

// ---------------------------------------------------------------------------

// fuzzOut: output of the failing re-run of each confirmed crasher (signature lookup).
var fuzzOut = map[string]string{}

func runFuzz(harness, pkg string, fz Fuzz, env []string, tmp string) (string, []string) {
	// `go test -fuzz` needs the package sources; crashers land in testdata/fuzz/<Target>/ of the package.
	pdir := filepath.Join(harness, pkg)
	cdir := filepath.Join(pdir, "testdata", "fuzz", fz.Target)
	before := map[string]bool{}
	if es, err := os.ReadDir(cdir); err == nil {
		for _, e := range es {
			before[e.Name()] = true
		}
	}
	// workers leave the input they are running in $VERIF_FUZZ_TRACE (pbt.FuzzTrace)
	trace := filepath.Join(tmp, "fuzztrace-"+fz.Target)
	os.MkdirAll(trace, 0o755)
	env = append(append([]string{}, env...), "VERIF_FUZZ_TRACE="+trace)
	ctx, cancel := context.WithTimeout(context.Background(), fz.Time+5*time.Minute)
	defer cancel()
	cmd := exec.CommandContext(ctx, "go", "test", "-tags", "verif", "-run", "^$", "-fuzz", "^"+fz.Target+"$", "-fuzztime", fz.Time.String(), "./"+pkg)
	cmd.Dir = harness
	cmd.Env = env
	out, err := cmd.CombinedOutput()
	so := string(out)
	var fresh []string
	if es, e2 := os.ReadDir(cdir); e2 == nil {
		for _, e := range es {
			if !before[e.Name()] {
				fresh = append(fresh, filepath.Join(cdir, e.Name()))
			}
		}
	}
	// A saved input is a violation only if it fails when re-run alone: the engine blames an arbitrary
	// input when a worker process dies or stalls (machine load, a panic in a foreign goroutine). When
	// the blamed input passes, the inputs the workers were really running are tried instead.
	reruns := func(file string) bool {
		fuzzOut[file] = ""
		for i := 0; i < 3; i++ {
			c2, cancel2 := context.WithTimeout(context.Background(), 5*time.Minute)
			rc := exec.CommandContext(c2, "go", "test", "-tags", "verif", "-count=1", "-run", "^"+fz.Target+"$/^"+filepath.Base(file)+"$", "./"+pkg)
			rc.Dir = harness
			rc.Env = env
			o, e := rc.CombinedOutput()
			timedOut := c2.Err() == context.DeadlineExceeded
			cancel2()
			if e != nil && !timedOut && strings.Contains(string(o), "FAIL") {
				fmt.Println(tail(string(o), 30))
				fuzzOut[file] = string(o)
				return true
			}
		}
		return false
	}
	var crashers []string
	unreproduced := 0
	for _, c := range fresh {
		if reruns(c) {
			crashers = append(crashers, c)
			continue
		}
		unreproduced++
		os.Remove(c)
	}
	if unreproduced > 0 {
		if es, e2 := os.ReadDir(trace); e2 == nil {
			for i, e := range es {
				b, _ := os.ReadFile(filepath.Join(trace, e.Name()))
				cand := filepath.Join(cdir, fmt.Sprintf("traced-%d", i))
				os.WriteFile(cand, b, 0o644)
				if reruns(cand) {
					crashers = append(crashers, cand)
				} else {
					os.Remove(cand)
				}
			}
		}
	}
	execs := ""
	if m := regexp.MustCompile(`execs: (\d+)`).FindAllStringSubmatch(so, -1); len(m) > 0 {
		execs = m[len(m)-1][1]
	}
	note := fmt.Sprintf("%s: %s, execs=%s, new crashers=%d", fz.Target, fz.Time, execs, len(crashers))
	if unreproduced > 0 {
		note += fmt.Sprintf("; %d input(s) blamed by the engine passed 3 re-runs alone, as did every input a worker was running (worker death or stall, inconclusive): %s", unreproduced, firstLines(tail(so, 8), 8))
	} else if err != nil && len(crashers) == 0 {
		note += " (fuzz run ended with error: " + firstLines(tail(so, 5), 5) + ")"
	}
	if len(crashers) > 0 {
		fmt.Println(tail(so, 30))
	}
	return note, crashers
}
