// Package pbt is the small runner shared by every property package.
//
// A property is a pure function over a JSON-serialisable case:
//
//	func prop(c Case) pbt.Outcome
//
// and a rapid generator that builds the case. pbt.Run drives the generator
// with rapid (so seeds, shrinking and replay work), counts what was generated
// (evaluations, distinct non-trivial cases by structural hash, labels,
// exclusions), keeps samples, writes the *last* failing case (rapid's minimal
// counter-example, because shrinking re-evaluates and the final evaluation is the
// minimal one) as a replay file, and flushes a stats file that cmd/checkd merges
// into /verif/evidence/<id>.json.
package pbt

import (
	"crypto/sha256"
	"encoding/hex"
	"encoding/json"
	"fmt"
	"os"
	"path/filepath"
	"runtime/debug"
	"sort"
	"strings"
	"sync"
	"testing"

	"pgregory.net/rapid"
)

// Failure describes a violated property on one case.
type Failure struct {
	Msg string `json:"msg"`
	// Sig is a short mechanism signature ("" = unclassified). It is compared with
	// known_findings.json by checkd; a failure whose signature is listed there is
	// printed as KNOWN-FINDING instead of VIOLATION.
	Sig string `json:"sig,omitempty"`
}

// Outcome is what a property reports for a case.
type Outcome struct {
	NonTrivial bool     // case is non-trivial by the property's stated rule
	Labels     []string // classification labels (histogram in the evidence)
	Excluded   string   // non-empty: case falls in a known-finding / out-of-domain class; counted, not judged
	Fail       *Failure // non-nil: violation
}

func Failf(sig, format string, a ...any) *Failure {
	return &Failure{Msg: fmt.Sprintf(format, a...), Sig: sig}
}

// Entry is a named property with generator.
type Entry struct {
	Name string
	// Rule is the human text of the non-trivial rule and the generator domain.
	Rule   string
	run    func(t *testing.T, e *Entry)
	replay func(raw json.RawMessage) (Outcome, error)
}

// Def defines an entry from a generator and a property.
func Def[C any](name, rule string, gen func(*rapid.T) C, prop func(C) Outcome) *Entry {
	e := &Entry{Name: name, Rule: rule}
	e.run = func(t *testing.T, e *Entry) {
		st := statsFor(e)
		rapid.Check(t, func(rt *rapid.T) {
			c := gen(rt)
			if cur := os.Getenv("VERIF_CURRENT_CASE"); cur != "" {
				// race-detector runs halt the process at the first report: leave the case behind
				raw, _ := json.Marshal(c)
				rf := ReplayFile{Property: propertyID, Entry: e.Name, Case: raw}
				b, _ := json.Marshal(rf)
				_ = os.WriteFile(cur, b, 0o644)
			}
			out := Guard(func() Outcome { return prop(c) })
			st.observe(c, out)
			if out.Fail != nil {
				path := writeFail(e.Name, c, out.Fail)
				rt.Fatalf("FAIL %s: %s (sig=%q) replay=%s", e.Name, out.Fail.Msg, out.Fail.Sig, path)
			}
		})
	}
	e.replay = func(raw json.RawMessage) (Outcome, error) {
		var c C
		if err := json.Unmarshal(raw, &c); err != nil {
			return Outcome{}, err
		}
		return Guard(func() Outcome { return prop(c) }), nil
	}
	return e
}

// Guard converts a panic of the code under test into a Failure.
func Guard(f func() Outcome) (out Outcome) {
	defer func() {
		if r := recover(); r != nil {
			st := string(debug.Stack())
			// keep the top of the stack short
			lines := strings.Split(st, "\n")
			if len(lines) > 40 {
				lines = lines[:40]
			}
			out = Outcome{Fail: &Failure{Msg: fmt.Sprintf("panic: %v\n%s", r, strings.Join(lines, "\n")), Sig: "panic"}}
		}
	}()
	return f()
}

// ---------------------------------------------------------------------------
// statistics

type stats struct {
	mu          sync.Mutex
	Name        string         `json:"name"`
	Rule        string         `json:"rule"`
	Evaluations int            `json:"evaluations"`
	NonTrivial  int            `json:"nontrivial"`
	Hashes      []string       `json:"nontrivial_hashes"` // distinct, hex of first 8 bytes
	Labels      map[string]int `json:"labels"`
	Excluded    map[string]int `json:"excluded"`
	Failures    int            `json:"failures"`
	Samples     []sample       `json:"samples"`
	hashes      map[string]bool
}

type sample struct {
	Hash string          `json:"hash"`
	NT   bool            `json:"nontrivial"`
	Case json.RawMessage `json:"case"`
}

var (
	allMu    sync.Mutex
	allStats = map[string]*stats{}
)

func statsFor(e *Entry) *stats {
	allMu.Lock()
	defer allMu.Unlock()
	s, ok := allStats[e.Name]
	if !ok {
		s = &stats{Name: e.Name, Rule: e.Rule, Labels: map[string]int{}, Excluded: map[string]int{}, hashes: map[string]bool{}}
		allStats[e.Name] = s
	}
	return s
}

const maxSamples = 6
const maxSampleBytes = 6000

func (s *stats) observe(c any, out Outcome) {
	raw, err := json.Marshal(c)
	if err != nil {
		raw = []byte(fmt.Sprintf("%q", fmt.Sprintf("unmarshalable: %v", err)))
	}
	sum := sha256.Sum256(raw)
	h := hex.EncodeToString(sum[:8])
	s.mu.Lock()
	defer s.mu.Unlock()
	s.Evaluations++
	for _, l := range out.Labels {
		s.Labels[l]++
	}
	if out.Excluded != "" {
		s.Excluded[out.Excluded]++
	}
	if out.Fail != nil {
		s.Failures++
	}
	nt := out.NonTrivial && out.Excluded == ""
	if nt {
		s.NonTrivial++
		if !s.hashes[h] {
			s.hashes[h] = true
		}
	}
	// samples: keep the maxSamples non-trivial cases with the smallest hash
	// (deterministic pseudo-reservoir), falling back to trivial ones while empty.
	if len(raw) <= maxSampleBytes {
		smp := sample{Hash: h, NT: nt, Case: raw}
		s.Samples = append(s.Samples, smp)
		sort.SliceStable(s.Samples, func(i, j int) bool {
			if s.Samples[i].NT != s.Samples[j].NT {
				return s.Samples[i].NT
			}
			return s.Samples[i].Hash < s.Samples[j].Hash
		})
		// dedupe
		outS := s.Samples[:0]
		var last string
		for i, x := range s.Samples {
			if i > 0 && x.Hash == last {
				continue
			}
			last = x.Hash
			outS = append(outS, x)
		}
		s.Samples = outS
		if len(s.Samples) > maxSamples {
			s.Samples = s.Samples[:maxSamples]
		}
	}
}

// Observe lets hand-rolled loops (exhaustive enumerators, CLI drivers) feed the
// same statistics as rapid-driven entries.
func Observe(e *Entry, c any, out Outcome) {
	statsFor(e).observe(c, out)
}

// Extra lets a test attach free-form measured facts (states explored, frontier
// emptied, …) to the stats of an entry.
var (
	extraMu sync.Mutex
	extra   = map[string]map[string]any{}
)

func Extra(name, key string, v any) {
	extraMu.Lock()
	defer extraMu.Unlock()
	if extra[name] == nil {
		extra[name] = map[string]any{}
	}
	extra[name][key] = v
}

// Flush writes the stats file named by $VERIF_STATS (if set).
func Flush() {
	path := os.Getenv("VERIF_STATS")
	if path == "" {
		return
	}
	allMu.Lock()
	defer allMu.Unlock()
	type fileT struct {
		Entries []*stats                  `json:"entries"`
		Extra   map[string]map[string]any `json:"extra"`
	}
	var f fileT
	names := make([]string, 0, len(allStats))
	for n := range allStats {
		names = append(names, n)
	}
	sort.Strings(names)
	for _, n := range names {
		s := allStats[n]
		s.Hashes = s.Hashes[:0]
		for h := range s.hashes {
			s.Hashes = append(s.Hashes, h)
		}
		sort.Strings(s.Hashes)
		f.Entries = append(f.Entries, s)
	}
	extraMu.Lock()
	f.Extra = extra
	b, _ := json.Marshal(f)
	extraMu.Unlock()
	_ = os.WriteFile(path, b, 0o644)
}

// ---------------------------------------------------------------------------
// replay files

// ReplayFile is the on-disk form of a case.
type ReplayFile struct {
	Property string          `json:"property"`
	Entry    string          `json:"entry"`
	Failure  *Failure        `json:"failure,omitempty"`
	Case     json.RawMessage `json:"case"`
}

var propertyID = "C??"

func writeFail(entry string, c any, f *Failure) string {
	dir := os.Getenv("VERIF_FAILDIR")
	if dir == "" {
		dir = filepath.Join(os.TempDir(), "verif-fail")
	}
	_ = os.MkdirAll(dir, 0o755)
	raw, _ := json.Marshal(c)
	rf := ReplayFile{Property: propertyID, Entry: entry, Failure: f, Case: raw}
	b, _ := json.MarshalIndent(rf, "", " ")
	// one file per entry: the last write is rapid's minimal counter-example
	path := filepath.Join(dir, strings.ReplaceAll(entry, "/", "_")+".json")
	_ = os.WriteFile(path, b, 0o644)
	return path
}

// WriteFail is for hand-rolled loops.
func WriteFail(entry string, c any, f *Failure) string { return writeFail(entry, c, f) }

// ---------------------------------------------------------------------------
// test entry points

// RunAll runs every entry as a subtest (select with -test.run 'TestProps/<name>$').
func RunAll(t *testing.T, property string, entries []*Entry) {
	propertyID = property
	t.Cleanup(Flush)
	for _, e := range entries {
		e := e
		if e.run == nil {
			continue
		}
		t.Run(e.Name, func(t *testing.T) { e.run(t, e) })
	}
}

// ReplayAll re-executes every replay file under $VERIF_REPLAY_DIR (recursively,
// *.json) through the library-free entry point. A file under a directory named
// "known" is expected to FAIL (it documents a recorded finding): if it fails its
// signature is printed as "KNOWN-CONFIRMED <sig> <file>", if it no longer fails
// "KNOWN-STALE <file>" is printed (not an error: a fixed defect).
func ReplayAll(t *testing.T, property string, entries []*Entry) {
	propertyID = property
	dir := os.Getenv("VERIF_REPLAY_DIR")
	if dir == "" {
		t.Skip("VERIF_REPLAY_DIR not set")
	}
	byName := map[string]*Entry{}
	for _, e := range entries {
		byName[e.Name] = e
	}
	var files []string
	_ = filepath.Walk(dir, func(p string, info os.FileInfo, err error) error {
		if err == nil && !info.IsDir() && strings.HasSuffix(p, ".json") {
			files = append(files, p)
		}
		return nil
	})
	sort.Strings(files)
	n := 0
	for _, p := range files {
		b, err := os.ReadFile(p)
		if err != nil {
			continue
		}
		var rf ReplayFile
		if err := json.Unmarshal(b, &rf); err != nil {
			t.Logf("replay %s: not a replay file: %v", p, err)
			continue
		}
		e := byName[rf.Entry]
		if e == nil || e.replay == nil {
			continue // belongs to another test binary of the same property
		}
		out, err := e.replay(rf.Case)
		if err != nil {
			t.Logf("replay %s: case does not decode: %v", p, err)
			continue
		}
		n++
		known := strings.Contains(p, string(filepath.Separator)+"known"+string(filepath.Separator))
		switch {
		case known && out.Fail != nil:
			fmt.Printf("KNOWN-CONFIRMED sig=%s file=%s msg=%s\n", out.Fail.Sig, p, firstLine(out.Fail.Msg))
		case known && out.Fail == nil:
			fmt.Printf("KNOWN-STALE file=%s\n", p)
		case out.Fail != nil:
			fmt.Printf("REPLAY-FAIL sig=%s file=%s msg=%s\n", out.Fail.Sig, p, firstLine(out.Fail.Msg))
			t.Errorf("replay %s fails: %s", p, out.Fail.Msg)
		}
	}
	fmt.Printf("REPLAYED n=%d\n", n)
}

func firstLine(s string) string {
	if i := strings.IndexByte(s, '\n'); i >= 0 {
		return s[:i]
	}
	return s
}
