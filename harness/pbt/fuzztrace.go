package pbt

import (
	"fmt"
	"os"
	"path/filepath"
	"strings"
)

// FuzzTrace leaves the arguments of the fuzz iteration that is about to run in
// $VERIF_FUZZ_TRACE/current-<pid>, in Go's corpus file format. When a fuzz worker process dies (a panic
// in a goroutine the target does not own, an out-of-memory kill) the engine blames an arbitrary input;
// the driver then finds the real one in the file the dead worker left behind and re-runs it alone.
func FuzzTrace(args ...any) {
	dir := os.Getenv("VERIF_FUZZ_TRACE")
	if dir == "" {
		return
	}
	var sb strings.Builder
	sb.WriteString("go test fuzz v1\n")
	for _, a := range args {
		switch v := a.(type) {
		case string:
			fmt.Fprintf(&sb, "string(%q)\n", v)
		case []byte:
			fmt.Fprintf(&sb, "[]byte(%q)\n", v)
		case uint8:
			fmt.Fprintf(&sb, "byte(%q)\n", rune(v))
		case int:
			fmt.Fprintf(&sb, "int(%d)\n", v)
		case int64:
			fmt.Fprintf(&sb, "int64(%d)\n", v)
		case uint64:
			fmt.Fprintf(&sb, "uint64(%d)\n", v)
		case bool:
			fmt.Fprintf(&sb, "bool(%v)\n", v)
		default:
			return
		}
	}
	_ = os.WriteFile(filepath.Join(dir, fmt.Sprintf("current-%d", os.Getpid())), []byte(sb.String()), 0o644)
}
